#!/bin/bash
# multi-seed sweep of every claimed check on the unchanged tree: any VIOLATION here is a false alarm (or a finding)
cd "$(dirname "$0")/.."
./setup >/dev/null 2>&1
props=$(python3 -c "import json;print(' '.join(c['property_id'] for c in json.load(open('MANIFEST.json'))['checks']))")
tier=${1:-quick}
for seed in ${SEEDS:-11 12 13 14 15 16}; do
  for p in $props; do
    out=$(VERIF_SEED=$seed ./check $p $tier 2>&1)
    rc=$?
    echo "seed=$seed $p rc=$rc $(echo "$out" | tail -1)"
    if [ $rc -ne 0 ]; then echo "$out" | grep VIOLATION; fi
  done
done
echo SWEEP-DONE
