#!/bin/bash
# merge_builder.sh <builder-dir> : copy a builder copy's new files into /verif and 3-way merge the shared
# files it modified (base = the newest /verif commit whose version of that file is closest)
B=$1
cd /verif
diff -rq $B /verif -x .git -x .lake -x .work -x replays -x evidence -x seeded -x Gen -x MANIFEST.json -x DESIGN.md -x KNOWN_FINDINGS.txt -x __pycache__ 2>/dev/null | while read -r line; do
  case "$line" in
    "Only in $B"*)
      d=$(echo "$line" | sed -E "s|Only in ([^:]*): (.*)|\1/\2|"); rel=${d#$B/}
      mkdir -p "$(dirname /verif/$rel)"; cp -r "$d" "/verif/$rel"; echo "NEW $rel";;
    Files*)
      rel=$(echo "$line" | sed -E "s|Files $B/(.*) and .*|\1|")
      h=$(git hash-object $B/$rel); same=""
      for c in $(git log --format=%h -- $rel); do [ "$(git rev-parse $c:$rel)" = "$h" ] && same=$c && break; done
      [ -n "$same" ] && continue
      best=""; bestn=999999
      for c in $(git log --format=%h -- $rel); do git show $c:$rel > /tmp/mb.base; n=$(diff /tmp/mb.base $B/$rel | wc -l); if [ $n -lt $bestn ]; then bestn=$n; best=$c; fi; done
      git show $best:$rel > /tmp/mb.base
      if git merge-file -q --union /verif/$rel /tmp/mb.base $B/$rel; then echo "MERGED $rel (base $best)"; else echo "CONFLICT $rel (base $best)"; fi;;
  esac
done
rm -f /tmp/mb.base
