#!/usr/bin/env python3
"""Regenerates /verif/MANIFEST.json from the table below (claimed checks) and properties.jsonl."""
import json, os
V = os.path.dirname(os.path.dirname(os.path.abspath(__file__)))
props = [json.loads(l) for l in open(os.path.join(V, 'properties.jsonl'))]
RT_NOTE = ("Trusted: Lean kernel + propext/Classical.choice/Quot.sound; facts translator (guards, capacities, serial expressions regenerated from dials.go/cb_mgr.go); "
           "controlled-scheduler correspondence (every goroutine parked at verif hook points, one released per step, implementation state == model state after every step). "
           "Assumed: Go channels/atomics are sequentially consistent atomic steps; scheduler fairness; a config is identified with the slot snapshot it was stacked from (data half: C01/C02).")
RT_TECH = "Lean 4 proof (inductive invariants over a labelled transition system) + regenerated facts + model-based controlled-schedule correspondence with the Go implementation"
T = {
 'C19': ("Lean 4 theorems over an executable ASCII model of case_conversion.go: C19_roundtrip (all six schemes, every non-empty list of words over [a-z][a-z0-9]*, by induction, unbounded), C19_empty_rejected, C19_go_ident (identifiers of any length from capitalised words and initialisms under the decidable side condition GoodIdent), C19_single_initialism (finite table of the regenerated initialism list); counterexample theorems for findings D11/D14; four listed known findings.",
         "Trusted: Lean kernel + propext/Classical.choice/Quot.sound; facts translator (initialism list regenerated from source); correspondence harness (20k cases quick, 2M thorough, model == implementation). Assumed: cases.Title on [a-z0-9] words upper-cases the first character; ASCII only.",
         "Lean 4 proof (induction over word / token lists) + regenerated facts + differential correspondence with the Go implementation"),
 'C01': ("Lean 4 theorems over a reflect-like executable model of Pointerify and overlayField/overlayStruct/compose (every branch incl. error and panic exits): C01_precedence (every config struct type of the model universe, every well-typed default, any number of layers, every set/unset pattern: compose succeeds and each leaf holds the last layer's value that set it, else the default), C01_skipped_fixed, C01_struct_ptr_nil_iff, C01_unset_noop, C01_alignment (the two omission rules stay aligned), C01_facts (regenerated F9/F10). Interface-typed fields are outside the model universe (not in the property's quantifier).",
         "Trusted: Lean kernel + propext/Classical.choice/Quot.sound; facts translator (omission rules of ptrify.OmitField / pointerifyField / overlayStruct and the non-struct-pointer branch regenerated from source); correspondence harness (random reflect.StructOf types + declared types with unexported/embedded fields; real Pointerify and compose vs model; leaf-wise oracle). Assumed: reflect's Set/Elem/Field semantics as re-implemented in the model; tree values (aliasing is C02/C03).",
         "Lean 4 proof (mutual structural induction over types, induction over layers) + regenerated facts + differential correspondence with the Go implementation"),
 'C04': ("Lean 4 theorems over the runtime LTS (any number of sources/clients, every interleaving of the scheduler steps, all option combinations): Config fails exactly when the initial stack does not stack or (initial verification on) does not verify (C04_initial); the view changes only by the monitor's store step (C04_view_changes_only_by_store), which is reached only with the stack of the latest values, stacked and - unless verification is skipped - verified (C04_store_after_verify, C04_installed_verified, C04_skip_only_delay); everything observable through View/ViewVersion, Events, OnNewConfig, registered callbacks and EnableVerification is the initial or an installed version (C04_observed_are_versions); a rejected update leaves the view unchanged, queues OnWatchedError's event with the current config and (verify errors only) the rejected one unless the queue is full, and answers a blocking reporter with that error (C04_reject_payload, C04_reject, C04_reply_err).",
         RT_NOTE, RT_TECH),
 'C05': ("Lean 4 theorems over the runtime LTS: the i-th install has serial i+1 and the view is the last install with serial = number of installs (C05_serial_succ, C05_view_is_last, C05_view_serial, regenerated serial expressions C05_serial_facts); the monitor's slots are each source's most recently received value and, between updates, whenever that stack is good the view IS that stack (C05_slots_latest, C05_fresh_when_good); a config and serial read together belong together (C05_pair_atomic); no reader sees the serial go backwards and the Events stream is strictly increasing over installed versions (C05_reader_monotone, C05_events_increasing, C05_events_are_installs). The harness additionally compares the final view with a fresh dials.Config over the latest values.",
         RT_NOTE, RT_TECH),
 'C07': ("Lean 4 theorems over the runtime LTS: whenever the monitor answers a blocking reporter with nil, exactly one version was installed since it received that report and it holds the reported value (C07_nil_after_store, C07_view_at_reply); an error answer means nothing was installed and it is that update's stack/verify error (C07_err_view_unchanged); the waiting reporter gets exactly that answer (C07_reporter_gets_answer); a reporter whose context ends returns a context error (C07_ctx); the monitor's reply steps are always enabled (C07_monitor_never_blocks, capacities regenerated: C07_reply_capacity). Blank.SetSource is tied by correspondence (C20).",
         RT_NOTE, RT_TECH),
 'C09': ("Lean 4 theorems over the runtime LTS: Verify is never invoked before EnableVerification is called in delay mode (C09_never_early, C09_config_does_not_verify); enable verifies exactly the installed config (C09_verifies_installed), on success returns it with its serial and ends the delay, on failure leaves it in force (C09_enable_reply, C09_enable_dispatch, C09_switch_on_only_by_enable_reachable); afterwards every re-stack is verified (C09_then_every_restack_verified, C09_install_skip_flag); global callbacks are withheld exactly while the delay is in force and the option is set, source-reported errors included (C09_suppression_exact, C09_source_error_forwarded, regenerated guards C09_guard_facts). The no-watcher fast path is tied by correspondence only.",
         RT_NOTE, RT_TECH),
 'C08': ("Lean 4 theorems over the runtime LTS: every parked goroutine always has an enabled step (C08_monitor_step_enabled, C08_cb_step_enabled via a reachable-state invariant, C08_client_step_enabled), a never-returning callback cannot stop installs (C08_install_despite_blocked_cb), monitor and callback goroutine run to completion after cancel / last Done (C08_monitor_exits_on_cancel, C08_monitor_returns_to_top, C08_monitor_exits_when_all_done, C08_cb_exits_after_mon_done with an explicit fuel bound), late and blocked API calls fail instead of panicking or blocking past their context (C08_late_register_unregister, C08_blocked_returns_on_ctx, C08_exit_releases_waiters). Partial: real goroutine exit / leaks and fairness are observed by the harness (goroutine dumps), not proved.",
         RT_NOTE, RT_TECH),
}
checks, na = [], []
for p in props:
    i = p['id']
    if i in T:
        t = T[i]
        checks.append({"property_id": i, "quick_cmd": f"./check {i} quick", "thorough_cmd": f"./check {i} thorough",
                       "evidence_file": f"/verif/evidence/{i}.json", "replay_cmd_template": f"./check {i} quick --replay {{path}}",
                       "engine": "lean4-proof+correspondence",
                       "level_claimed": {"category": "proof", "text": t[0], "design_ref": f"DESIGN.md section 5 ({i})"},
                       "level_note": t[1], "technique": t[2]})
    else:
        na.append({"property_id": i, "reason": "model, theorems and correspondence check not finished yet in this round (planned: DESIGN.md section 5); not claimed until the check exists"})
hooks = [l.split()[0] for l in os.popen("git -C /repo log --format='%h %s' | grep 'verif hooks'").read().splitlines()]
m = {"version": 1, "setup_cmd": "./setup",
     "hooks": {"guard": "verif", "enable": "go build -tags verif (harness module /verif/harness with replace github.com/vimeo/dials => /repo)",
               "baseline_off_cmd": "cd /repo && GOFLAGS=-mod=mod GOPROXY=off GOSUMDB=off go test -json -vet=off -count=1 -timeout 25m ./...",
               "source_commits": hooks, "add_only": True},
     "engines": [{"name": "lean4-proof+correspondence", "path": "/verif/check", "serves_properties": sorted(T),
                  "kind_free_text": "Lean 4 theorems about executable models (lean/DialsModel), facts regenerated from /repo by tools/facts, Go correspondence harness (harness/) diffing the implementation against the compiled Lean driver"}],
     "checks": checks, "notes": "see DESIGN.md; known findings in KNOWN_FINDINGS.txt", "not_applicable": na}
json.dump(m, open(os.path.join(V, 'MANIFEST.json'), 'w'), indent=1)
print("claimed:", sorted(T))
