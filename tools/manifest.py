#!/usr/bin/env python3
"""Regenerates /verif/MANIFEST.json from the table below (claimed checks) and properties.jsonl."""
import json, os
V = os.path.dirname(os.path.dirname(os.path.abspath(__file__)))
props = [json.loads(l) for l in open(os.path.join(V, 'properties.jsonl'))]
RT_NOTE = ("Trusted: Lean kernel + propext/Classical.choice/Quot.sound; facts translator (guards, capacities, serial expressions regenerated from dials.go/cb_mgr.go); "
           "controlled-scheduler correspondence (every goroutine parked at verif hook points, one released per step, implementation state == model state after every step). "
           "Assumed: Go channels/atomics are sequentially consistent atomic steps; scheduler fairness; a config is identified with the slot snapshot it was stacked from (data half: C01/C02).")
RT_TECH = "Lean 4 proof (inductive invariants over a labelled transition system) + regenerated facts + model-based controlled-schedule correspondence with the Go implementation"
T = {
 'C19': ("Lean 4 theorems over an executable ASCII model of case_conversion.go: C19_roundtrip (all six schemes, every non-empty list of words over [a-z][a-z0-9]*, by induction, unbounded), C19_empty_rejected, C19_go_ident (identifiers of any length from capitalised words and initialisms under the decidable side condition GoodIdent), C19_single_initialism (finite table of the regenerated initialism list); counterexample theorems for findings D11/D14; four listed known findings.",
         "Trusted: Lean kernel + propext/Classical.choice/Quot.sound; facts translator (initialism list regenerated from source); correspondence harness (20k cases quick, 2M thorough, model == implementation). Assumed: cases.Title on [a-z0-9] words upper-cases the first character; ASCII only.",
         "Lean 4 proof (induction over word / token lists) + regenerated facts + differential correspondence with the Go implementation"),
 'C08': ("Lean 4 theorems over the runtime LTS: every parked goroutine always has an enabled step (C08_monitor_step_enabled, C08_cb_step_enabled via a reachable-state invariant, C08_client_step_enabled), a never-returning callback cannot stop installs (C08_install_despite_blocked_cb), monitor and callback goroutine run to completion after cancel / last Done (C08_monitor_exits_on_cancel, C08_monitor_returns_to_top, C08_monitor_exits_when_all_done, C08_cb_exits_after_mon_done with an explicit fuel bound), late and blocked API calls fail instead of panicking or blocking past their context (C08_late_register_unregister, C08_blocked_returns_on_ctx, C08_exit_releases_waiters). Partial: real goroutine exit / leaks and fairness are observed by the harness (goroutine dumps), not proved.",
         RT_NOTE, RT_TECH),
}
checks, na = [], []
for p in props:
    i = p['id']
    if i in T:
        t = T[i]
        checks.append({"property_id": i, "quick_cmd": f"./check {i} quick", "thorough_cmd": f"./check {i} thorough",
                       "evidence_file": f"/verif/evidence/{i}.json", "replay_cmd_template": f"./check {i} quick --replay {{path}}",
                       "engine": "lean4-proof+correspondence",
                       "level_claimed": {"category": "proof", "text": t[0], "design_ref": f"DESIGN.md section 5 ({i})"},
                       "level_note": t[1], "technique": t[2]})
    else:
        na.append({"property_id": i, "reason": "model, theorems and correspondence check not finished yet in this round (planned: DESIGN.md section 5); not claimed until the check exists"})
hooks = [l.split()[0] for l in os.popen("git -C /repo log --format='%h %s' | grep 'verif hooks'").read().splitlines()]
m = {"version": 1, "setup_cmd": "./setup",
     "hooks": {"guard": "verif", "enable": "go build -tags verif (harness module /verif/harness with replace github.com/vimeo/dials => /repo)",
               "baseline_off_cmd": "cd /repo && GOFLAGS=-mod=mod GOPROXY=off GOSUMDB=off go test -json -vet=off -count=1 -timeout 25m ./...",
               "source_commits": hooks, "add_only": True},
     "engines": [{"name": "lean4-proof+correspondence", "path": "/verif/check", "serves_properties": sorted(T),
                  "kind_free_text": "Lean 4 theorems about executable models (lean/DialsModel), facts regenerated from /repo by tools/facts, Go correspondence harness (harness/) diffing the implementation against the compiled Lean driver"}],
     "checks": checks, "notes": "see DESIGN.md; known findings in KNOWN_FINDINGS.txt", "not_applicable": na}
json.dump(m, open(os.path.join(V, 'MANIFEST.json'), 'w'), indent=1)
print("claimed:", sorted(T))
