#!/bin/bash
# re-run every recorded seeded change against the current /repo and /verif (4 at a time); prints one line per seed
cd "$(dirname "$0")/.."
# every seed is another source tree: a private Go build cache, trimmed as we go and removed at the end (the shared one
# would grow by hundreds of MB per seed)
export GOCACHE=$(mktemp -d /tmp/reseed-gocache-XXXX)
trap 'rm -rf "$GOCACHE"' EXIT
run() {
  d=$1; id=$(basename $d); prop=${id%%-*}
  t=$(mktemp -d /tmp/reseed-XXXX); cp $d/patch.diff $d/README.md $t/ 2>/dev/null; cp $d/demo_test.go.txt $t/demo_test.go
  if ! git -C /repo apply --check $t/patch.diff 2>/dev/null; then echo "$id STALE (patch no longer applies to /repo HEAD)"; rm -rf $t; return; fi
  props=$(python3 -c "import json,sys; m=json.load(open('$d/meta.json')); print(' '.join(list(m.get('checks',{}).keys()) or ['$prop']))" 2>/dev/null || echo $prop)
  out=$(tools/seedtest.py $t $props 2>/dev/null)
  nc=$(python3 -c "import json; print('NEGATIVE-CONTROL ' if json.load(open('$d/meta.json')).get('negative_control') else '')" 2>/dev/null)
  echo "$id $nc$(echo "$out" | python3 -c "import json,sys; s=sys.stdin.read(); r=json.loads(s[s.index('{'):]); print('confirmed', r.get('existing_tests_pass_with_change'), r.get('demo_fails_with_change'), r.get('demo_passes_without_change'), 'detected_by', r['detected_by'], [ ('nfi' if any('no-failing' in l for l in v['lines']) else 'concrete') for v in r['checks'].values() if v['lines']])" 2>&1 | tail -1)"
  rm -rf $t
  find "$GOCACHE" -type f -mmin +25 -delete 2>/dev/null
}
export -f run
# optional argument: an extended regular expression selecting seed directories (e.g. 'C0[1245]|C1[03]')
ls -d seeded/*/ | grep -E "${1:-.}" | xargs -P 4 -I{} bash -c 'run {}'
