package main

import (
	"go/ast"
	"go/token"
	"strings"
)

func init() { allFacts = append(allFacts, factOmit, factOverlaySkips) }

func returnsLit(body *ast.BlockStmt, lit string) bool {
	for _, st := range body.List {
		if rs, ok := st.(*ast.ReturnStmt); ok && len(rs.Results) == 1 && src(rs.Results[0]) == lit {
			return true
		}
	}
	return false
}

// F9a: ptrify.OmitField and the chan/func case of pointerifyField
func factOmit() {
	f := parse("ptrify/ptrify.go")
	unexp, dash, drops := false, false, false
	if fd := funcDecl(f, "OmitField"); fd != nil {
		ast.Inspect(fd, func(n ast.Node) bool {
			is, ok := n.(*ast.IfStmt)
			if !ok {
				return true
			}
			c := src(is.Cond)
			if c == "!ast.IsExported(sf.Name)" && returnsLit(is.Body, "true") {
				unexp = true
			}
			if is.Init != nil && strings.Contains(src(is.Init), "sf.Tag.Lookup(common.DialsTagName)") && c == `ok && dtv == "-"` && returnsLit(is.Body, "true") {
				dash = true
			}
			return true
		})
	}
	if fd := funcDecl(f, "pointerifyField"); fd != nil {
		ast.Inspect(fd, func(n ast.Node) bool {
			cc, ok := n.(*ast.CaseClause)
			if !ok || len(cc.List) != 2 {
				return true
			}
			if src(cc.List[0]) == "reflect.Chan" && src(cc.List[1]) == "reflect.Func" {
				for _, st := range cc.Body {
					if rs, ok := st.(*ast.ReturnStmt); ok && len(rs.Results) == 1 && src(rs.Results[0]) == "nil" {
						drops = true
					}
				}
			}
			return true
		})
	}
	if !unexp {
		miss("F9a", "ptrify.OmitField: `if !ast.IsExported(sf.Name) { return true }`")
	}
	if !dash {
		miss("F9b", "ptrify.OmitField: `if dtv, ok := sf.Tag.Lookup(common.DialsTagName); ok && dtv == \"-\" { return true }`")
	}
	if !drops {
		miss("F9c", "ptrify.pointerifyField: `case reflect.Chan, reflect.Func: return nil`")
	}
	emit("/-- F9a: OmitField omits unexported fields -/\ndef omitUnexported : Bool := %v\n\n", unexp)
	emit("/-- F9b: OmitField omits fields tagged `dials:\"-\"` -/\ndef omitDash : Bool := %v\n\n", dash)
	emit("/-- F9c: pointerifyField drops chan and func fields -/\ndef ptrifyDropsChanFunc : Bool := %v\n\n", drops)
}

// F9d/F10: the skip rules of overlayStruct, and the non-struct pointer branch of overlayField
func factOverlaySkips() {
	f := parse("overlay.go")
	omitCall, chanFunc, nonStructPtr := false, false, false
	if fd := funcDecl(f, "overlayStruct"); fd != nil {
		ast.Inspect(fd, func(n ast.Node) bool {
			switch x := n.(type) {
			case *ast.IfStmt:
				if src(x.Cond) == "ptrify.OmitField(base.Type().Field(i))" && len(x.Body.List) == 1 {
					if bs, ok := x.Body.List[0].(*ast.BranchStmt); ok && bs.Tok == token.CONTINUE {
						omitCall = true
					}
				}
			case *ast.SwitchStmt:
				if src(x.Tag) != "currentField.Kind()" {
					return true
				}
				for _, c := range x.Body.List {
					cc := c.(*ast.CaseClause)
					if len(cc.List) == 2 && src(cc.List[0]) == "reflect.Chan" && src(cc.List[1]) == "reflect.Func" && len(cc.Body) == 1 {
						if bs, ok := cc.Body[0].(*ast.BranchStmt); ok && bs.Tok == token.CONTINUE {
							chanFunc = true
						}
					}
				}
			}
			return true
		})
	}
	if fd := funcDecl(f, "overlayField"); fd != nil {
		ast.Inspect(fd, func(n ast.Node) bool {
			is, ok := n.(*ast.IfStmt)
			if ok && src(is.Cond) == "base.Type().Elem().Kind() != reflect.Struct" && len(is.Body.List) == 2 {
				if src(is.Body.List[0]) == "base.Set(overlay)" && src(is.Body.List[1]) == "return nil" {
					nonStructPtr = true
				}
			}
			return true
		})
	}
	if !omitCall {
		miss("F9d", "overlay.go overlayStruct: `if ptrify.OmitField(base.Type().Field(i)) { continue }`")
	}
	if !chanFunc {
		miss("F9e", "overlay.go overlayStruct: `switch currentField.Kind() { case reflect.Chan, reflect.Func: continue`")
	}
	emit("/-- F9d: overlayStruct skips the base fields OmitField omits -/\ndef overlayUsesOmitField : Bool := %v\n\n", omitCall)
	emit("/-- F9e: overlayStruct skips chan and func fields of the base -/\ndef overlaySkipsChanFunc : Bool := %v\n\n", chanFunc)
	emit("/-- F10: overlayField replaces a non-nil pointer to a non-struct type (repaired defect D1) -/\ndef overlayReplacesNonStructPtr : Bool := %v\n\n", nonStructPtr)
}
