package main

import (
	"go/ast"
	"go/token"
	"strconv"
	"strings"
)

func init() {
	allFacts = append(allFacts, factDecoders, factTagCopy, factTransformer, factSetSlice, factPDur, factWrapDecoder)
}

// decConstString resolves an identifier / selector to a string constant: a literal, a const of the same file
// (package-level or local to the function), or a const of package common.
func decConstString(f *ast.File, e ast.Expr) (string, bool) {
	switch x := e.(type) {
	case *ast.BasicLit:
		if x.Kind == token.STRING {
			s, err := strconv.Unquote(x.Value)
			return s, err == nil
		}
	case *ast.Ident:
		var val string
		found := false
		ast.Inspect(f, func(n ast.Node) bool {
			vs, ok := n.(*ast.ValueSpec)
			if !ok {
				return true
			}
			for i, nm := range vs.Names {
				if nm.Name == x.Name && i < len(vs.Values) {
					if bl, ok := vs.Values[i].(*ast.BasicLit); ok && bl.Kind == token.STRING {
						if s, err := strconv.Unquote(bl.Value); err == nil {
							val, found = s, true
						}
					}
				}
			}
			return true
		})
		return val, found
	case *ast.SelectorExpr:
		if src(x.X) == "common" {
			cf := parse("common/tags.go")
			if cf == nil {
				return "", false
			}
			return decConstString(cf, x.Sel)
		}
	}
	return "", false
}

type decManglerFact struct {
	name string
	args []string
}

// decManglerOfExpr reads one mangler constructor expression: &pkg.Type{K: v, …}, pkg.Type{}, or an identifier
// bound at package level to must(transform.NewSingleTypeSubstitutionMangler[F, T]()).
func decManglerOfExpr(f *ast.File, e ast.Expr) (decManglerFact, bool) {
	switch x := e.(type) {
	case *ast.UnaryExpr:
		if x.Op == token.AND {
			return decManglerOfExpr(f, x.X)
		}
	case *ast.CompositeLit:
		name := src(x.Type)
		if i := strings.LastIndex(name, "."); i >= 0 {
			name = name[i+1:]
		}
		m := decManglerFact{name: name}
		if name == "TagCopyingMangler" {
			var s, n string
			okS, okN := false, false
			for _, el := range x.Elts {
				kv, ok := el.(*ast.KeyValueExpr)
				if !ok {
					return m, false
				}
				switch src(kv.Key) {
				case "SrcTag":
					s, okS = decConstString(f, kv.Value)
				case "NewTag":
					n, okN = decConstString(f, kv.Value)
				}
			}
			if !okS || !okN {
				return m, false
			}
			m.args = []string{s, n}
		} else if len(x.Elts) != 0 {
			return m, false
		}
		return m, true
	case *ast.Ident:
		// package-level: var <id> = must(transform.NewSingleTypeSubstitutionMangler[F, T]())
		var out decManglerFact
		found := false
		ast.Inspect(f, func(n ast.Node) bool {
			vs, ok := n.(*ast.ValueSpec)
			if !ok || len(vs.Names) != 1 || vs.Names[0].Name != x.Name || len(vs.Values) != 1 {
				return true
			}
			ce, ok := vs.Values[0].(*ast.CallExpr)
			if !ok || src(ce.Fun) != "must" || len(ce.Args) != 1 {
				return true
			}
			inner, ok := ce.Args[0].(*ast.CallExpr)
			if !ok {
				return true
			}
			ile, ok := inner.Fun.(*ast.IndexListExpr)
			if !ok || src(ile.X) != "transform.NewSingleTypeSubstitutionMangler" || len(ile.Indices) != 2 {
				return true
			}
			out = decManglerFact{name: "SingleTypeSubstitutionMangler", args: []string{src(ile.Indices[0]), src(ile.Indices[1])}}
			found = true
			return false
		})
		return out, found
	}
	return decManglerFact{}, false
}

func decLeanChain(ms []decManglerFact) string {
	var items []string
	for _, m := range ms {
		var as []string
		for _, a := range m.args {
			as = append(as, leanStr(a))
		}
		items = append(items, "("+leanStr(m.name)+", ["+strings.Join(as, ", ")+"])")
	}
	return "[" + strings.Join(items, ", ") + "]"
}

// decoderFacts reads Decode of one decoder: the mangler chain handed to transform.NewTransformer (in order; for
// YAML the initial slice literal and the append guarded by d.FlattenAnonymous), and the error protocol.
func decoderFacts(id, rel, unmarshalCall string) (chain, flat []decManglerFact, okChain bool, checks bool) {
	f := parse(rel)
	fd := funcDecl(f, "Decode")
	if fd == nil {
		return nil, nil, false, false
	}
	okChain = true
	sawTransformer := false
	// manglers := []transform.Mangler{…} / append(manglers, X) under `if d.FlattenAnonymous`
	var sliceVar string
	ast.Inspect(fd, func(n ast.Node) bool {
		switch x := n.(type) {
		case *ast.AssignStmt:
			if len(x.Lhs) == 1 && len(x.Rhs) == 1 {
				if cl, ok := x.Rhs[0].(*ast.CompositeLit); ok && src(cl.Type) == "[]transform.Mangler" {
					sliceVar = src(x.Lhs[0])
					for _, el := range cl.Elts {
						m, ok := decManglerOfExpr(f, el)
						if !ok {
							okChain = false
						}
						chain = append(chain, m)
					}
				}
			}
		case *ast.IfStmt:
			if src(x.Cond) == "d.FlattenAnonymous" {
				for _, st := range x.Body.List {
					as, ok := st.(*ast.AssignStmt)
					if !ok || len(as.Rhs) != 1 {
						continue
					}
					ce, ok := as.Rhs[0].(*ast.CallExpr)
					if !ok || src(ce.Fun) != "append" || len(ce.Args) < 2 || src(ce.Args[0]) != sliceVar || src(as.Lhs[0]) != sliceVar {
						continue
					}
					for _, a := range ce.Args[1:] {
						m, ok := decManglerOfExpr(f, a)
						if !ok {
							okChain = false
						}
						flat = append(flat, m)
					}
				}
			}
		case *ast.CallExpr:
			if src(x.Fun) == "transform.NewTransformer" && len(x.Args) >= 1 {
				sawTransformer = true
				if x.Ellipsis != token.NoPos {
					if len(x.Args) != 2 || src(x.Args[1]) != sliceVar {
						okChain = false
					}
				} else {
					for _, a := range x.Args[1:] {
						m, ok := decManglerOfExpr(f, a)
						if !ok {
							okChain = false
						}
						chain = append(chain, m)
					}
				}
			}
		}
		return true
	})
	if !sawTransformer {
		okChain = false
	}
	// error protocol: the statement holding the unmarshal call binds an error variable; the next `if <err> != nil`
	// returns `reflect.Value{}` and a non-nil error; the function's last return hands back the ReverseTranslate value.
	checks = decUnmarshalErrChecked(fd, unmarshalCall)
	return
}

func decReturnsInvalidWithErr(body *ast.BlockStmt) bool {
	for _, st := range body.List {
		if rs, ok := st.(*ast.ReturnStmt); ok && len(rs.Results) == 2 {
			return src(rs.Results[0]) == "reflect.Value{}" && src(rs.Results[1]) != "nil"
		}
	}
	return false
}

func decContainsCall(n ast.Node, fn string) bool {
	found := false
	ast.Inspect(n, func(m ast.Node) bool {
		if ce, ok := m.(*ast.CallExpr); ok && strings.HasSuffix(src(ce.Fun), fn) {
			found = true
		}
		return true
	})
	return found
}

// decUnmarshalErrChecked: `err = lib.Unmarshal(...)` followed by `if err != nil { return reflect.Value{}, <err> }`, or
// `if err := <call>; err != nil { return reflect.Value{}, … }`; every such call site in the function must be checked.
func decUnmarshalErrChecked(fd *ast.FuncDecl, call string) bool {
	sites, checked := 0, 0
	var walk func(list []ast.Stmt)
	walk = func(list []ast.Stmt) {
		for i, st := range list {
			switch x := st.(type) {
			case *ast.AssignStmt:
				if !decContainsCall(x, call) || len(x.Lhs) == 0 {
					continue
				}
				sites++
				ev := src(x.Lhs[len(x.Lhs)-1])
				if i+1 < len(list) {
					if is, ok := list[i+1].(*ast.IfStmt); ok && is.Init == nil && src(is.Cond) == ev+" != nil" && decReturnsInvalidWithErr(is.Body) {
						checked++
					}
				}
			case *ast.IfStmt:
				if x.Init != nil && decContainsCall(x.Init, call) {
					sites++
					if as, ok := x.Init.(*ast.AssignStmt); ok && len(as.Lhs) > 0 {
						ev := src(as.Lhs[len(as.Lhs)-1])
						cond := src(x.Cond)
						if (cond == ev+" != nil") && decReturnsInvalidWithErr(x.Body) {
							checked++
						}
					}
				} else {
					walk(x.Body.List)
				}
			case *ast.ExprStmt:
				if decContainsCall(x, call) {
					sites++ // result dropped
				}
			}
		}
	}
	walk(fd.Body.List)
	return sites > 0 && sites == checked
}

// F30: mangler chains and error protocol of the four decoders
func factDecoders() {
	type dec struct {
		id, lean, rel string
		calls         []string
	}
	decs := []dec{
		{"JSON", "json", "decoders/json/json.go", []string{"json.Unmarshal"}},
		{"YAML", "yaml", "decoders/yaml/yaml.go", []string{"yaml.Unmarshal"}},
		{"TOML", "toml", "decoders/toml/toml.go", []string{"tomlparser.Unmarshal"}},
		{"CUE", "cue", "decoders/cue/cue.go", []string{"val.Err", "val.Decode"}},
	}
	for _, d := range decs {
		chain, flat, okc, _ := decoderFacts(d.id, d.rel, d.calls[0])
		if !okc {
			miss("F30-"+d.id, d.rel+": mangler list of transform.NewTransformer in Decode (constructor + arguments)")
		}
		emit("/-- F30: manglers of the %s decoder, in the order handed to transform.NewTransformer -/\ndef decChain%s : List (String × List String) := %s\n\n", d.id, d.id, decLeanChain(chain))
		if d.id == "YAML" {
			if len(flat) == 0 {
				miss("F30-YAML-flatten", d.rel+": `if d.FlattenAnonymous { manglers = append(manglers, …) }`")
			}
			emit("/-- F30: manglers the YAML decoder appends when `FlattenAnonymous` is set -/\ndef decChainYAMLFlatten : List (String × List String) := %s\n\n", decLeanChain(flat))
		}
		f := parse(d.rel)
		fd := funcDecl(f, "Decode")
		all := fd != nil
		for _, c := range d.calls {
			if fd == nil || !decUnmarshalErrChecked(fd, c) {
				all = false
			}
		}
		// the decoder must also hand back the reverse-translated value
		rev := false
		if fd != nil && len(fd.Body.List) > 0 {
			if rs, ok := fd.Body.List[len(fd.Body.List)-1].(*ast.ReturnStmt); ok && len(rs.Results) == 2 && src(rs.Results[1]) == "nil" {
				ret := src(rs.Results[0])
				ast.Inspect(fd, func(n ast.Node) bool {
					if as, ok := n.(*ast.AssignStmt); ok && len(as.Lhs) == 2 && len(as.Rhs) == 1 && src(as.Lhs[0]) == ret && decContainsCall(as.Rhs[0], "ReverseTranslate") {
						rev = true
					}
					return true
				})
			}
		}
		if !rev {
			miss("F30-"+d.id+"-rev", d.rel+": Decode returns the value of tfmr.ReverseTranslate")
		}
		emit("/-- F30: the %s decoder returns `reflect.Value{}` and the error when the library's unmarshal call fails -/\ndef %sChecksErr : Bool := %v\n\n", d.id, d.lean, all)
	}
}

// TagCopyingMangler.Mangle: the two guards and the appended tag
func factTagCopy() {
	f := parse("tagformat/expand_tags.go")
	fd := funcDecl(f, "Mangle")
	srcGet, newGet, appends := false, false, false
	skipSrc, keeps := "", ""
	if fd != nil {
		ast.Inspect(fd, func(n ast.Node) bool {
			switch x := n.(type) {
			case *ast.AssignStmt:
				if len(x.Lhs) == 1 && len(x.Rhs) == 1 {
					l, r := src(x.Lhs[0]), src(x.Rhs[0])
					if l == "srcVal" && r == "sf.Tag.Get(t.SrcTag)" {
						srcGet = true
					}
					if l == "currentNewTagVal" && r == "sf.Tag.Get(t.NewTag)" {
						newGet = true
					}
					if l == "newTags" && x.Tok == token.ADD_ASSIGN && r == `t.NewTag + ":" + strconv.Quote(srcVal)` {
						appends = true
					}
				}
			case *ast.IfStmt:
				be, ok := x.Cond.(*ast.BinaryExpr)
				if !ok || src(be.Y) != `""` || len(x.Body.List) != 1 || !strings.HasPrefix(src(x.Body.List[0]), "return []reflect.StructField{sf}, nil") {
					return true
				}
				op := ""
				switch be.Op {
				case token.EQL:
					op = "=="
				case token.NEQ:
					op = "!="
				}
				if op == "" {
					return true
				}
				if src(be.X) == "srcVal" {
					skipSrc = op
				}
				if src(be.X) == "currentNewTagVal" {
					keeps = op
				}
			}
			return true
		})
	}
	if !srcGet || !newGet || !appends {
		miss("F31a", "tagformat/expand_tags.go Mangle: srcVal := sf.Tag.Get(t.SrcTag); currentNewTagVal := sf.Tag.Get(t.NewTag); newTags += t.NewTag + \":\" + strconv.Quote(srcVal)")
	}
	if skipSrc == "" {
		miss("F31b", "tagformat/expand_tags.go Mangle: `if srcVal == \"\" { return unchanged }`")
		skipSrc = "=="
	}
	if keeps == "" {
		miss("F31c", "tagformat/expand_tags.go Mangle: `if currentNewTagVal != \"\" { return unchanged }`")
		keeps = "!="
	}
	emit("/-- F31b: TagCopyingMangler leaves the field alone when this holds of the source tag's value -/\ndef tagCopySkipsSrc (srcVal : String) : Bool := srcVal %s \"\"\n\n", skipSrc)
	emit("/-- F31c: TagCopyingMangler leaves the field alone when this holds of the destination tag's current value -/\ndef tagCopyKeeps (cur : String) : Bool := cur %s \"\"\n\n", keeps)
}

// transformer.go: struct-ish kinds and the position of the TextUnmarshaler test relative to stripping the wrapper
func factTransformer() {
	f := parse("transform/transformer.go")
	var kinds []string
	if fd := funcDecl(f, "isStructishTypedField"); fd != nil {
		ast.Inspect(fd, func(n ast.Node) bool {
			cc, ok := n.(*ast.CaseClause)
			if !ok {
				return true
			}
			for _, e := range cc.List {
				kinds = append(kinds, strings.TrimPrefix(src(e), "reflect."))
			}
			return true
		})
	}
	if len(kinds) == 0 {
		miss("F32a", "transform/transformer.go isStructishTypedField: kind cases")
	}
	var qs []string
	for _, k := range kinds {
		qs = append(qs, leanStr(k))
	}
	emit("/-- F32a: kinds tested by isStructishTypedField, in source order (the first alone, the others by their element kind) -/\ndef structishKinds : List String := [%s]\n\n", strings.Join(qs, ", "))
	// two TextUnmarshaler tests in maybeRecursivelyMangle: one on the field type (before the pointer / slice / array is
	// stripped), one on the element type (after the strip, before the recursive Transformer is built); both `continue`
	before, after, stripSeen := false, false, false
	if fd := funcDecl(f, "maybeRecursivelyMangle"); fd != nil {
		ast.Inspect(fd, func(n ast.Node) bool {
			bs, ok := n.(*ast.BlockStmt)
			if !ok {
				return true
			}
			strip, build := -1, -1
			var tests []int
			for i, st := range bs.List {
				if is, ok := st.(*ast.IfStmt); ok && src(is.Cond) == "ft.Implements(textMReflectType) || reflect.PointerTo(ft).Implements(textMReflectType)" &&
					len(is.Body.List) == 1 && src(is.Body.List[0]) == "continue" {
					tests = append(tests, i)
				}
				if ss, ok := st.(*ast.SwitchStmt); ok && src(ss.Tag) == "ft.Kind()" && strings.Contains(src(ss.Body), "ft = ft.Elem()") {
					strip = i
				}
				if as, ok := st.(*ast.AssignStmt); ok && len(as.Lhs) == 1 && src(as.Lhs[0]) == "fieldTransformer" {
					build = i
				}
			}
			if strip >= 0 && build > strip {
				stripSeen = true
				for _, ti := range tests {
					if ti < strip {
						before = true
					}
					if ti > strip && ti < build {
						after = true
					}
				}
			}
			return true
		})
	}
	if !stripSeen {
		miss("F32b", "transform/transformer.go maybeRecursivelyMangle: the switch stripping pointer/array/slice followed by the recursive Transformer")
	}
	if !before {
		miss("F32b", "transform/transformer.go maybeRecursivelyMangle: TextUnmarshaler test (continue) on the field type, before the pointer/array/slice is stripped")
	}
	if !after {
		miss("F32c", "transform/transformer.go maybeRecursivelyMangle: TextUnmarshaler test (continue) on the element type, after the strip and before the recursion (repair of D34)")
	}
	emit("/-- F32b: maybeRecursivelyMangle skips a field whose own type is a TextUnmarshaler (test before the pointer / slice / array is stripped) -/\ndef textSkipBeforeStrip : Bool := %v\n\n", before)
	emit("/-- F32c: maybeRecursivelyMangle skips a field whose element type is a TextUnmarshaler (test repeated after the strip: `[]time.Time` is not recursed into) -/\ndef textSkipAfterStrip : Bool := %v\n\n", after)
}

func factSetSlice() {
	f := parse("transform/set_slice_mangler.go")
	cond, nilnil := false, false
	if fd := funcDecl(f, "Mangle"); fd != nil {
		ast.Inspect(fd, func(n ast.Node) bool {
			if is, ok := n.(*ast.IfStmt); ok && src(is.Cond) == "sf.Type.Kind() == reflect.Map && sf.Type.Elem() == emptyStructType" &&
				len(is.Body.List) == 1 && src(is.Body.List[0]) == "sf.Type = reflect.SliceOf(sf.Type.Key())" {
				cond = true
			}
			return true
		})
	}
	if fd := funcDecl(f, "Unmangle"); fd != nil {
		ast.Inspect(fd, func(n ast.Node) bool {
			if is, ok := n.(*ast.IfStmt); ok && src(is.Cond) == "slice.IsZero()" && len(is.Body.List) == 1 &&
				src(is.Body.List[0]) == "return reflect.Zero(sf.Type), nil" {
				nilnil = true
			}
			return true
		})
	}
	if !cond {
		miss("F33a", "transform/set_slice_mangler.go Mangle: map with empty-struct element becomes slice of the key type")
	}
	emit("/-- F33b: SetSliceMangler.Unmangle turns a nil slice into a nil set -/\ndef setSliceNilStaysNil : Bool := %v\n\n", nilnil)
}

func factPDur() {
	f := parse("decoders/json/jsontypes/jsonduration.go")
	str, num, useNumber := false, false, false
	if fd := funcDecl(f, "UnmarshalJSON"); fd != nil {
		ast.Inspect(fd, func(n ast.Node) bool {
			switch x := n.(type) {
			case *ast.CaseClause:
				if len(x.List) == 1 {
					body := ""
					for _, st := range x.Body {
						body += src(st) + ";"
					}
					if src(x.List[0]) == "string" && strings.Contains(body, "time.ParseDuration(v)") && strings.Contains(body, "*p = ParsingDuration(dur)") {
						str = true
					}
					if src(x.List[0]) == "json.Number" && strings.Contains(body, "v.Int64()") && strings.Contains(body, "*p = ParsingDuration(i)") {
						num = true
					}
				}
			case *ast.CallExpr:
				if src(x.Fun) == "d.UseNumber" {
					useNumber = true
				}
			}
			return true
		})
	}
	emit("/-- F34a: ParsingDuration.UnmarshalJSON parses a JSON string with time.ParseDuration -/\ndef pdurAcceptsString : Bool := %v\n\n", str)
	emit("/-- F34b: ParsingDuration.UnmarshalJSON takes a JSON number as integer nanoseconds (json.Number.Int64) -/\ndef pdurAcceptsNumber : Bool := %v\n\n", num && useNumber)
}

func factWrapDecoder() {
	f := parse("sourcewrap/transforming_source.go")
	checked, rev := false, false
	if f != nil {
		for _, d := range f.Decls {
			fd, ok := d.(*ast.FuncDecl)
			if !ok || fd.Name.Name != "Decode" || fd.Recv == nil {
				continue
			}
			checked = decUnmarshalErrChecked(fd, "t.inner.Decode")
			ast.Inspect(fd, func(n ast.Node) bool {
				if as, ok := n.(*ast.AssignStmt); ok && len(as.Rhs) == 1 && src(as.Rhs[0]) == "tfm.ReverseTranslate(srcVal)" {
					rev = true
				}
				return true
			})
		}
	}
	if !rev {
		miss("F35", "sourcewrap/transforming_source.go transformingDecoder.Decode: tfm.ReverseTranslate(srcVal)")
	}
	emit("/-- F35: the transforming decoder returns `reflect.Value{}` and an error when the wrapped decoder fails -/\ndef wrapChecksInnerErr : Bool := %v\n\n", checked)
}
