package main

import (
	"go/ast"
	"go/token"
	"strconv"
	"strings"
)

func init() { allFacts = append(allFacts, factFileValue, factWatchLoop, factWatchSetup, factWatchPoll) }

const fileGo = "sources/file/file.go"

// stmtIndex returns the index of the first top-level statement of list satisfying pred (-1: none).
func stmtIndex(list []ast.Stmt, pred func(ast.Stmt) bool) int {
	for i, s := range list {
		if pred(s) {
			return i
		}
	}
	return -1
}

func containsCall(n ast.Node, call string) bool {
	found := false
	ast.Inspect(n, func(m ast.Node) bool {
		if ce, ok := m.(*ast.CallExpr); ok && src(ce) == call {
			found = true
		}
		return !found
	})
	return found
}

func lastIsReturn(b *ast.BlockStmt) (*ast.ReturnStmt, bool) {
	if b == nil || len(b.List) == 0 {
		return nil, false
	}
	r, ok := b.List[len(b.List)-1].(*ast.ReturnStmt)
	return r, ok
}

// F15a-c: Source.Value and Source.lastHMACNew — decode-error exit before the checksum is recorded,
// the checksum is stored unconditionally, "unchanged" exactly when the stored one was equal.
func factFileValue() {
	f := parse(fileGo)
	decFirst, decKnown := false, false
	unchangedEq, unchangedKnown := false, false
	openExit := false
	if fd := methodDecl(f, "Source", "Value"); fd != nil && fd.Body != nil {
		l := fd.Body.List
		iOpen := stmtIndex(l, func(s ast.Stmt) bool {
			as, ok := s.(*ast.AssignStmt)
			return ok && len(as.Rhs) == 1 && src(as.Rhs[0]) == "os.Open(s.path)" && len(as.Lhs) == 2 && src(as.Lhs[1]) == "openErr"
		})
		iOpenRet := stmtIndex(l, func(s ast.Stmt) bool {
			is, ok := s.(*ast.IfStmt)
			if !ok || src(is.Cond) != "openErr != nil" {
				return false
			}
			r, ok := lastIsReturn(is.Body)
			return ok && len(r.Results) == 2 && src(r.Results[1]) == "openErr"
		})
		iDecode := stmtIndex(l, func(s ast.Stmt) bool {
			as, ok := s.(*ast.AssignStmt)
			return ok && len(as.Rhs) == 1 && src(as.Rhs[0]) == "s.decoder.Decode(r, t)" && len(as.Lhs) == 2 && src(as.Lhs[1]) == "decErr"
		})
		iDecRet := stmtIndex(l, func(s ast.Stmt) bool {
			is, ok := s.(*ast.IfStmt)
			if !ok || src(is.Cond) != "decErr != nil" {
				return false
			}
			r, ok := lastIsReturn(is.Body)
			return ok && len(r.Results) == 2 && strings.HasPrefix(src(r.Results[1]), "&DecoderErr{")
		})
		iReader := stmtIndex(l, func(s ast.Stmt) bool {
			as, ok := s.(*ast.AssignStmt)
			return ok && len(as.Rhs) == 1 && src(as.Rhs[0]) == "s.hmacReader(f)"
		})
		iSum := stmtIndex(l, func(s ast.Stmt) bool {
			as, ok := s.(*ast.AssignStmt)
			return ok && len(as.Rhs) == 1 && src(as.Rhs[0]) == "csummer.Sum(nil)" && src(as.Lhs[0]) == "csum"
		})
		iLast := stmtIndex(l, func(s ast.Stmt) bool { return containsCall(s, "s.lastHMACNew(csum)") })
		openExit = iOpen >= 0 && iOpenRet > iOpen && iReader > iOpenRet && iDecode > iReader
		if iDecode >= 0 && iDecRet >= 0 && iLast >= 0 && iSum >= 0 && iDecode < iDecRet && iDecode < iLast && iSum < iLast {
			decKnown = true
			decFirst = iDecRet < iLast
		}
		if iLast >= 0 {
			if is, ok := l[iLast].(*ast.IfStmt); ok {
				r, isRet := lastIsReturn(is.Body)
				if isRet && len(r.Results) == 2 && strings.HasPrefix(src(r.Results[1]), "&unchangedCSumErr{") && is.Else == nil {
					switch src(is.Cond) {
					case "s.lastHMACNew(csum)":
						unchangedKnown, unchangedEq = true, true
					case "!s.lastHMACNew(csum)":
						unchangedKnown, unchangedEq = true, false
					}
				}
			}
			// the success exit follows
			if iLast+1 >= len(l) {
				unchangedKnown = false
			} else if r, ok := l[iLast+1].(*ast.ReturnStmt); !ok || len(r.Results) != 2 || src(r.Results[1]) != "nil" || src(r.Results[0]) != "decoded" {
				unchangedKnown = false
			}
		}
	}
	if !openExit {
		miss("F15o", "file.go Source.Value: `f, openErr := os.Open(s.path)`; `if openErr != nil { return …, openErr }` before the decoder runs on s.hmacReader(f)")
	}
	if !decKnown {
		miss("F15a", "file.go Source.Value: `decoded, decErr := s.decoder.Decode(r, t)`, `if decErr != nil { return decoded, &DecoderErr{…} }`, `csum := csummer.Sum(nil)`, `s.lastHMACNew(csum)` as top-level statements")
	}
	if !unchangedKnown {
		miss("F15c", "file.go Source.Value: `if s.lastHMACNew(csum) { return decoded, &unchangedCSumErr{…} }` followed by `return decoded, nil`")
	}
	emit("/-- F15o: Value returns the error of os.Open as is, before anything is read -/\ndef fileOpenErrReturned : Bool := %v\n\n", openExit)
	emit("/-- F15a: in Value the decode-error exit precedes the call that records the checksum (a file that does not decode leaves the remembered checksum alone) -/\ndef fileDecodeErrBeforeChecksum : Bool := %v\n\n", decFirst)
	emit("/-- F15c: Value answers \"unchanged\" exactly when lastHMACNew says the previous checksum was equal -/\ndef fileUnchangedWhenEqual : Bool := %v\n\n", unchangedEq)

	stores, retEq := false, false
	if fd := methodDecl(f, "Source", "lastHMACNew"); fd != nil && fd.Body != nil {
		l := fd.Body.List
		iOld := stmtIndex(l, func(s ast.Stmt) bool {
			as, ok := s.(*ast.AssignStmt)
			return ok && len(as.Lhs) == 1 && src(as.Lhs[0]) == "oldVal" && src(as.Rhs[0]) == "s.lastHMACSHA256"
		})
		iStore := stmtIndex(l, func(s ast.Stmt) bool {
			as, ok := s.(*ast.AssignStmt)
			return ok && as.Tok == token.ASSIGN && len(as.Lhs) == 1 && src(as.Lhs[0]) == "s.lastHMACSHA256" && src(as.Rhs[0]) == "csum"
		})
		iRet := stmtIndex(l, func(s ast.Stmt) bool {
			r, ok := s.(*ast.ReturnStmt)
			return ok && len(r.Results) == 1 && (src(r.Results[0]) == "bytes.Equal(csum, oldVal)" || src(r.Results[0]) == "bytes.Equal(oldVal, csum)")
		})
		stores = iOld >= 0 && iStore > iOld
		retEq = iRet > iStore && iStore >= 0
	}
	if !stores || !retEq {
		miss("F15b", "file.go Source.lastHMACNew: `oldVal := s.lastHMACSHA256; s.lastHMACSHA256 = csum; return bytes.Equal(csum, oldVal)`")
	}
	emit("/-- F15b: lastHMACNew stores the new checksum unconditionally and returns whether it equals the previous one -/\ndef fileLastSumStoredAndCompared : Bool := %v\n\n", stores && retEq)
}

func strList(xs []string) string {
	q := make([]string, len(xs))
	for i, x := range xs {
		q[i] = leanStr(x)
	}
	return "[" + strings.Join(q, ", ") + "]"
}

// F15d-j: the watch loop's decision structure.
func factWatchLoop() {
	f := parse(fileGo)
	var loop *ast.ForStmt
	var defers []string
	fd := methodDecl(f, "WatchingSource", "watchLoop")
	if fd != nil && fd.Body != nil {
		for _, s := range fd.Body.List {
			switch x := s.(type) {
			case *ast.DeferStmt:
				defers = append(defers, src(x.Call))
			case *ast.LabeledStmt:
				if fs, ok := x.Stmt.(*ast.ForStmt); ok && fs.Cond == nil && fs.Init == nil {
					loop = fs
				}
			case *ast.ForStmt:
				if x.Cond == nil && x.Init == nil {
					loop = x
				}
			}
		}
	}
	emit("/-- F15h: calls deferred by watchLoop before the loop starts, in source order (run in reverse when the loop returns) -/\ndef watchLoopDefers : List String := %s\n\n", strList(defers))
	hasDefer := func(c string) bool {
		for _, d := range defers {
			if d == c {
				return true
			}
		}
		return false
	}
	if !hasDefer("ws.watcher.Close()") || !hasDefer("ws.WG.Done()") {
		miss("F15h", "file.go watchLoop: `defer ws.WG.Done()` and `defer ws.watcher.Close()`")
	}
	emit("/-- F15h: watchLoop defers closing the fsnotify watcher (which drops every kernel watch and stops fsnotify's reader goroutine) -/\ndef watchLoopDefersClose : Bool := %v\n\n", hasDefer("ws.watcher.Close()"))
	emit("/-- F15h: watchLoop defers WG.Done, and registers it first, so that it runs after the watcher was closed -/\ndef watchLoopDefersWGDoneFirst : Bool := %v\n\n", len(defers) > 0 && defers[0] == "ws.WG.Done()")

	var body []ast.Stmt
	if loop != nil {
		body = loop.Body.List
	}
	// select: ctx.Done returns; closed channels return; the event filter
	ctxReturns := false
	var filter []string
	filterContinues := false
	selOK := false
	wakeups := []string{}
	// an arm "falls through to the read" when nothing in it leaves the select's flow: no continue / break / goto /
	// return, except the `if !ok { return }` exit for a closed channel
	leaves := func(n ast.Node) bool {
		found := false
		ast.Inspect(n, func(m ast.Node) bool {
			switch m.(type) {
			case *ast.BranchStmt, *ast.ReturnStmt:
				found = true
			case *ast.FuncLit:
				return false
			}
			return !found
		})
		return found
	}
	fallsThrough := func(stmts []ast.Stmt) bool {
		for _, st := range stmts {
			if is, ok := st.(*ast.IfStmt); ok && src(is.Cond) == "!ok" && is.Else == nil && is.Init == nil && len(is.Body.List) == 1 {
				if r, ok := is.Body.List[0].(*ast.ReturnStmt); ok && len(r.Results) == 0 {
					continue
				}
			}
			if leaves(st) {
				return false
			}
		}
		return true
	}
	errorsFall, errorsSeen, plainFall := false, false, true
	if len(body) > 0 {
		if sel, ok := body[0].(*ast.SelectStmt); ok {
			selOK = true
			for _, cs := range sel.Body.List {
				cc := cs.(*ast.CommClause)
				comm := ""
				if cc.Comm != nil {
					comm = src(cc.Comm)
				}
				wakeups = append(wakeups, comm)
				switch {
				case strings.HasSuffix(comm, "<-ws.watcher.Errors"):
					errorsSeen = true
					errorsFall = fallsThrough(cc.Body)
				case comm == "<-tickerChan" || comm == "<-ws.Reload":
					plainFall = plainFall && fallsThrough(cc.Body)
				}
				switch {
				case comm == "<-ctx.Done()":
					if len(cc.Body) == 1 {
						if r, ok := cc.Body[0].(*ast.ReturnStmt); ok && len(r.Results) == 0 {
							ctxReturns = true
						}
					}
				case strings.Contains(comm, "ws.watcher.Events"):
					for _, s := range cc.Body {
						sw, ok := s.(*ast.SwitchStmt)
						if !ok || sw.Tag == nil || src(sw.Tag) != "ev.Name" {
							continue
						}
						for _, c := range sw.Body.List {
							cl := c.(*ast.CaseClause)
							if cl.List == nil { // default
								if len(cl.Body) == 1 {
									if b, ok := cl.Body[0].(*ast.BranchStmt); ok && b.Tok == token.CONTINUE {
										filterContinues = true
									}
								}
								continue
							}
							if len(cl.Body) == 0 {
								for _, e := range cl.List {
									filter = append(filter, src(e))
								}
							}
						}
					}
				}
			}
		}
	}
	if !selOK {
		miss("F15s", "file.go watchLoop: the loop body starts with the select over ticker / Reload / watcher.Events / watcher.Errors / ctx.Done")
	}
	if !ctxReturns {
		miss("F15i", "file.go watchLoop: `case <-ctx.Done(): return`")
	}
	if len(filter) == 0 || !filterContinues {
		miss("F15g", "file.go watchLoop: `switch ev.Name { case <names>: default: continue MAINLOOP }`")
	}
	emit("/-- F15s: the wake-up sources of the loop's select, in source order -/\ndef watchWakeups : List String := %s\n\n", strList(wakeups))
	emit("/-- F15s: the select wakes on the poll ticker, the Reload channel, fsnotify events, fsnotify errors and the context -/\ndef watchWakesOnAll : Bool := %v\n\n",
		strings.Join(wakeups, ";") == "<-tickerChan;<-ws.Reload;ev, ok := <-ws.watcher.Events;_, ok := <-ws.watcher.Errors;<-ctx.Done()")
	if !errorsSeen {
		miss("F15e2", "file.go watchLoop: `case _, ok := <-ws.watcher.Errors:` in the select")
	}
	emit("/-- F15e2: the arm for fsnotify errors (the only documented one is the event-queue overflow) falls through to the read: nothing in it leaves the select except `if !ok { return }` -/\ndef watchErrorsFallThrough : Bool := %v\n\n", errorsSeen && errorsFall)
	emit("/-- F15e3: the poll-ticker and Reload arms fall through to the read -/\ndef watchTickReloadFallThrough : Bool := %v\n\n", plainFall)
	emit("/-- F15i: the loop returns (running its deferred Close / WG.Done) when the context is done -/\ndef watchLoopReturnsOnCtxDone : Bool := %v\n\n", ctxReturns)
	emit("/-- F15g: event names that pass the filter (source expressions of the empty case of `switch ev.Name`); every other event is skipped -/\ndef watchEventFilter : List String := %s\n\n", strList(filter))
	// constants and path expressions used by the filter
	strConst := func(name string) (string, bool) {
		val, found := "", false
		if f != nil {
			ast.Inspect(f, func(n ast.Node) bool {
				vs, ok := n.(*ast.ValueSpec)
				if ok && len(vs.Names) == 1 && vs.Names[0].Name == name && len(vs.Values) == 1 {
					if bl, ok := vs.Values[0].(*ast.BasicLit); ok && bl.Kind == token.STRING {
						if s, err := strconv.Unquote(bl.Value); err == nil {
							val, found = s, true
						}
					}
				}
				return true
			})
		}
		return val, found
	}
	k8s, k8sFound := strConst("k8sIntermediateSymlinkDir")
	legacy, legacyFound := strConst("legacyIntermediateSymlinkDir")
	defs := map[string]bool{}
	if fd != nil && fd.Body != nil {
		for _, s := range fd.Body.List {
			if as, ok := s.(*ast.AssignStmt); ok && len(as.Lhs) == 1 && len(as.Rhs) == 1 {
				defs[src(as.Lhs[0])+"="+src(as.Rhs[0])] = true
			}
		}
	}
	if !k8sFound || !defs["cleanedPathDir=filepath.Dir(cleanedPath)"] || !defs["cleanedPathDirPlusDir=filepath.Join(cleanedPathDir, k8sIntermediateSymlinkDir)"] {
		miss("F15k", "file.go: const k8sIntermediateSymlinkDir; cleanedPathDir := filepath.Dir(cleanedPath); cleanedPathDirPlusDir := filepath.Join(cleanedPathDir, k8sIntermediateSymlinkDir)")
	}
	legacyOK := legacyFound && defs["cleanedPathDirPlusLegacyDir=filepath.Join(cleanedPathDir, legacyIntermediateSymlinkDir)"]
	codes := []string{}
	for _, e := range filter {
		c, ok := map[string]string{"resolvedCfgPath": "0", "cleanedPath": "1", "cleanedPathDir": "2", "cleanedPathDirPlusDir": "3", "filepath.Dir(resolvedCfgPath)": "4"}[e]
		if e == "cleanedPathDirPlusLegacyDir" && legacyOK {
			c, ok = "5", true
		}
		if !ok {
			c = "99"
			miss("F15g", "file.go watchLoop: unknown name expression in the event filter: "+e)
		}
		codes = append(codes, c)
	}
	emit("/-- F15g as codes: 0 resolvedCfgPath, 1 cleanedPath, 2 Dir(cleanedPath), 3 Dir(cleanedPath)/k8sIntermediateSymlinkDir, 4 Dir(resolvedCfgPath), 5 Dir(cleanedPath)/legacyIntermediateSymlinkDir -/\ndef watchEventFilterCodes : List Nat := [%s]\n\n", strings.Join(codes, ", "))
	charList := func(v string) string {
		chars := []string{}
		for _, r := range v {
			chars = append(chars, "Char.ofNat "+strconv.Itoa(int(r)))
		}
		return strings.Join(chars, ", ")
	}
	emit("/-- F15k: name of the intermediate symlink whose events pass the filter (Kubernetes' AtomicWriter renames `..data_tmp` onto `..data`) -/\ndef k8sIntermediateSymlinkDir : String := %s\n\n", leanStr(k8s))
	emit("/-- F15k as characters -/\ndef k8sIntermediateSymlinkDirChars : List Char := [%s]\n\n", charList(k8s))
	emit("/-- F15k: the name earlier versions looked for, still accepted (empty: not present) -/\ndef legacyIntermediateSymlinkDirChars : List Char := [%s]\n\n", charList(legacy))

	// the body after the select
	idx := func(pred func(ast.Stmt) bool) int { return stmtIndex(body, pred) }
	valueLabel := ""
	iValue := idx(func(s ast.Stmt) bool {
		lbl := ""
		if ls, ok := s.(*ast.LabeledStmt); ok {
			lbl, s = ls.Label.Name, ls.Stmt
		}
		as, ok := s.(*ast.AssignStmt)
		if ok && len(as.Lhs) == 2 && src(as.Lhs[0]) == "newVal" && src(as.Lhs[1]) == "parseErr" && src(as.Rhs[0]) == "ws.Value(ctx, t)" {
			valueLabel = lbl
		}
		return ok && len(as.Lhs) == 2 && src(as.Lhs[0]) == "newVal" && src(as.Lhs[1]) == "parseErr" && src(as.Rhs[0]) == "ws.Value(ctx, t)"
	})
	iExists := idx(func(s ast.Stmt) bool {
		as, ok := s.(*ast.AssignStmt)
		return ok && len(as.Lhs) == 1 && src(as.Lhs[0]) == "configExists" && src(as.Rhs[0]) == "!os.IsNotExist(parseErr)"
	})
	skipsMissing, missingRemoves := false, false
	iMissing := idx(func(s ast.Stmt) bool {
		is, ok := s.(*ast.IfStmt)
		return ok && src(is.Cond) == "!configExists"
	})
	if iMissing >= 0 {
		is := body[iMissing].(*ast.IfStmt)
		if n := len(is.Body.List); n > 0 {
			if b, ok := is.Body.List[n-1].(*ast.BranchStmt); ok && b.Tok == token.CONTINUE {
				skipsMissing = true
			}
		}
		for _, s := range is.Body.List {
			in, ok := s.(*ast.IfStmt)
			if !ok || src(in.Cond) != "watchingFile" {
				continue
			}
			hasRemove := containsCall(in, "ws.watcher.Remove(cleanedPath)")
			resets := false
			for _, t := range in.Body.List { // the reset must not depend on the result of Remove
				if as, ok := t.(*ast.AssignStmt); ok && src(as.Lhs[0]) == "watchingFile" && src(as.Rhs[0]) == "false" {
					resets = true
				}
			}
			missingRemoves = hasRemove && resets
		}
	}
	if iValue < 0 || iExists < iValue || iMissing < iExists || !skipsMissing {
		miss("F15d", "file.go watchLoop: `newVal, parseErr := ws.Value(ctx, t)`; `configExists := !os.IsNotExist(parseErr)`; `if !configExists { …; continue }`")
	}
	if !missingRemoves {
		miss("F15e", "file.go watchLoop (file missing): `if watchingFile { ws.watcher.Remove(cleanedPath) …; watchingFile = false }`")
	}
	emit("/-- F15d: an iteration whose Value error satisfies os.IsNotExist ends before anything is reported -/\ndef watchSkipsMissing : Bool := %v\n\n", skipsMissing && iValue >= 0 && iExists > iValue && iMissing > iExists)
	emit("/-- F15e: when the file is missing and was watched, its watch is removed and watchingFile is reset whatever Remove returns -/\ndef watchMissingRemovesFileWatch : Bool := %v\n\n", missingRemoves)

	iOldDir := idx(func(s ast.Stmt) bool {
		as, ok := s.(*ast.AssignStmt)
		return ok && len(as.Lhs) == 1 && src(as.Lhs[0]) == "oldResolvedCfgDir" && src(as.Rhs[0]) == "filepath.Dir(resolvedCfgPath)"
	})
	iEval := idx(func(s ast.Stmt) bool {
		is, ok := s.(*ast.IfStmt)
		if !ok || is.Init == nil || src(is.Init) != "newResolvedPath, symlinkErr := filepath.EvalSymlinks(cleanedPath)" || src(is.Cond) != "symlinkErr == nil" {
			return false
		}
		return len(is.Body.List) == 1 && src(is.Body.List[0]) == "resolvedCfgPath = newResolvedPath" && is.Else == nil
	})
	iReadd := idx(func(s ast.Stmt) bool {
		is, ok := s.(*ast.IfStmt)
		if !ok || src(is.Cond) != "!watchingFile" || len(is.Body.List) != 1 {
			return false
		}
		in, ok := is.Body.List[0].(*ast.IfStmt)
		if !ok || in.Init == nil || src(in.Init) != "addErr := ws.watcher.Add(cleanedPath)" || src(in.Cond) != "addErr != nil" {
			return false
		}
		el, ok := in.Else.(*ast.BlockStmt)
		return ok && len(el.List) == 1 && src(el.List[0]) == "watchingFile = true"
	})
	dirsResult, dirsOwnArg := "", false
	iDirs := idx(func(s ast.Stmt) bool {
		var call ast.Expr
		res := ""
		switch x := s.(type) {
		case *ast.ExprStmt:
			call = x.X
		case *ast.AssignStmt:
			if len(x.Lhs) == 1 && len(x.Rhs) == 1 && x.Tok == token.DEFINE {
				call, res = x.Rhs[0], src(x.Lhs[0])
			}
		}
		if call == nil {
			return false
		}
		switch src(call) {
		case "ws.updateDirWatches(cleanedPathDir, oldResolvedCfgDir, filepath.Dir(resolvedCfgPath))":
			dirsResult, dirsOwnArg = res, true
			return true
		case "ws.updateDirWatches(oldResolvedCfgDir, filepath.Dir(resolvedCfgPath))":
			dirsResult, dirsOwnArg = res, false
			return true
		}
		return false
	})
	iSwitch := idx(func(s ast.Stmt) bool { _, ok := s.(*ast.TypeSwitchStmt); return ok })
	repairOrder := iMissing >= 0 && iOldDir > iMissing && iEval > iOldDir && iReadd > iEval && iDirs > iReadd && iSwitch > iDirs
	if !repairOrder {
		miss("F15j", "file.go watchLoop (file found): oldResolvedCfgDir := filepath.Dir(resolvedCfgPath); resolvedCfgPath updated iff EvalSymlinks succeeds; `if !watchingFile { Add(cleanedPath) … else watchingFile = true }`; ws.updateDirWatches(old, new); then the switch on parseErr")
	}
	emit("/-- F15j: with the file found, the loop re-resolves the path (kept on error), re-adds the file watch iff it was dropped, moves the directory watch, and only then classifies the result -/\ndef watchRepairsBeforeReport : Bool := %v\n\n", repairOrder)
	// F15r: `if <result of updateDirWatches> { goto <label of the Value statement> }` is the last statement of the loop body
	gotoReread := false
	if n := len(body); n > 0 && iSwitch >= 0 && iSwitch == n-2 && dirsResult != "" && valueLabel != "" {
		if is, ok := body[n-1].(*ast.IfStmt); ok && src(is.Cond) == dirsResult && is.Else == nil && is.Init == nil && len(is.Body.List) == 1 {
			if b, ok := is.Body.List[0].(*ast.BranchStmt); ok && b.Tok == token.GOTO && b.Label != nil && b.Label.Name == valueLabel {
				gotoReread = true
			}
		}
	}

	arms := []string{}
	if iSwitch >= 0 {
		ts := body[iSwitch].(*ast.TypeSwitchStmt)
		if src(ts.Assign) != "t := parseErr.(type)" {
			arms = nil
		} else {
			for _, c := range ts.Body.List {
				cl := c.(*ast.CaseClause)
				key := "default"
				if cl.List != nil {
					ks := make([]string, len(cl.List))
					for i, e := range cl.List {
						ks[i] = src(e)
					}
					key = strings.Join(ks, "|")
				}
				act := "?"
				switch {
				case len(cl.Body) == 0:
					act = "ignore"
				case len(cl.Body) == 1 && src(cl.Body[0]) == "args.ReportNewValue(ctx, newVal)":
					act = "report"
				case len(cl.Body) == 1 && src(cl.Body[0]) == "args.ReportError(ctx, t)":
					act = "error"
				case len(cl.Body) == 1:
					if is, ok := cl.Body[0].(*ast.IfStmt); ok && src(is.Cond) == "!errors.Is(t, os.ErrNotExist)" && is.Else == nil &&
						len(is.Body.List) == 1 && src(is.Body.List[0]) == "args.ReportError(ctx, t)" {
						act = "errorUnlessNotExist"
					}
				}
				arms = append(arms, key+":"+act)
			}
		}
	}
	if len(arms) == 0 {
		miss("F15l", "file.go watchLoop: `switch t := parseErr.(type) { case nil: … case *unchangedCSumErr: … case *os.SyscallError: … default: … }`")
	}
	emit("/-- F15l: classification of Value's result (type switch arms in source order, `type:action`) -/\ndef watchSwitchArms : List String := %s\n\n", strList(arms))
	armCode := func(ty string) int {
		for _, a := range arms {
			if strings.HasPrefix(a, ty+":") {
				switch strings.TrimPrefix(a, ty+":") {
				case "ignore":
					return 0
				case "report":
					return 1
				case "error":
					return 2
				case "errorUnlessNotExist":
					return 3
				}
				miss("F15l", "file.go watchLoop: unrecognised body of the `"+ty+"` arm of the switch on parseErr")
				return 9
			}
		}
		if ty != "default" {
			return -1
		}
		return 0 // no default arm: nothing happens
	}
	emitArm := func(name, ty, doc string) {
		c := armCode(ty)
		if c < 0 { // no such arm: the value falls to the default arm
			c = armCode("default")
		}
		emit("/-- F15l: what the loop does with %s (0 nothing, 1 ReportNewValue, 2 ReportError, 3 ReportError unless errors.Is(err, os.ErrNotExist)) -/\ndef %s : Nat := %d\n\n", doc, name, c)
	}
	emitArm("watchArmNil", "nil", "a nil error")
	emitArm("watchArmUnchanged", "*unchangedCSumErr", "*unchangedCSumErr")
	emitArm("watchArmSyscall", "*os.SyscallError", "*os.SyscallError")
	emitArm("watchArmDefault", "default", "any other error (the default arm)")

	// updateDirWatches
	skipEq, addFirst, retOnAddErr, keepsOwn, reportsNew := false, false, false, false, false
	if ud := methodDecl(f, "WatchingSource", "updateDirWatches"); ud != nil && ud.Body != nil {
		l := ud.Body.List
		retIs := func(r *ast.ReturnStmt, v string) bool { return len(r.Results) == 1 && src(r.Results[0]) == v }
		eqFalse, addFalse, ownTrue, lastTrue := false, false, false, false
		iEq := stmtIndex(l, func(s ast.Stmt) bool {
			is, ok := s.(*ast.IfStmt)
			if !ok || (src(is.Cond) != "oldResolvedCfgDir == resolvedCfgDir" && src(is.Cond) != "resolvedCfgDir == oldResolvedCfgDir") {
				return false
			}
			r, ok := lastIsReturn(is.Body)
			if ok {
				eqFalse = retIs(r, "false")
			}
			return ok
		})
		iAdd := stmtIndex(l, func(s ast.Stmt) bool {
			is, ok := s.(*ast.IfStmt)
			if !ok || is.Init == nil || src(is.Init) != "addErr := ws.watcher.Add(resolvedCfgDir)" || src(is.Cond) != "addErr != nil" {
				return false
			}
			r, ret := lastIsReturn(is.Body)
			retOnAddErr = ret
			if ret {
				addFalse = retIs(r, "false")
			}
			return true
		})
		iOwn := stmtIndex(l, func(s ast.Stmt) bool {
			is, ok := s.(*ast.IfStmt)
			if !ok || is.Init != nil || is.Else != nil || (src(is.Cond) != "oldResolvedCfgDir == cleanedPathDir" && src(is.Cond) != "cleanedPathDir == oldResolvedCfgDir") {
				return false
			}
			r, ok := lastIsReturn(is.Body)
			if ok {
				ownTrue = retIs(r, "true")
			}
			return ok && len(is.Body.List) == 1
		})
		iRm := stmtIndex(l, func(s ast.Stmt) bool { return containsCall(s, "ws.watcher.Remove(oldResolvedCfgDir)") })
		if n := len(l); n > 0 {
			if r, ok := l[n-1].(*ast.ReturnStmt); ok {
				lastTrue = retIs(r, "true")
			}
		}
		skipEq = iEq == 0
		addFirst = iAdd >= 0 && iRm > iAdd
		ownParam := false
		if ud.Type.Params != nil {
			for _, fl := range ud.Type.Params.List {
				for _, nm := range fl.Names {
					if nm.Name == "cleanedPathDir" {
						ownParam = true
					}
				}
			}
		}
		keepsOwn = ownParam && dirsOwnArg && iOwn > iAdd && iAdd >= 0 && iRm > iOwn
		reportsNew = eqFalse && addFalse && lastTrue && (iOwn < 0 || ownTrue) && iRm == len(l)-2
		if iAdd < 0 || iRm < 0 {
			miss("F15f", "file.go updateDirWatches: ws.watcher.Add(resolvedCfgDir) and ws.watcher.Remove(oldResolvedCfgDir)")
		}
	} else {
		miss("F15f", "file.go: method updateDirWatches")
	}
	emit("/-- F15f1: updateDirWatches does nothing when the resolved directory did not change -/\ndef dirWatchSkipWhenEqual : Bool := %v\n\n", skipEq)
	emit("/-- F15f2: the new directory's watch is added before the old one is removed -/\ndef dirWatchAddBeforeRemove : Bool := %v\n\n", addFirst)
	emit("/-- F15f3: when adding the new directory's watch fails the old watch is kept -/\ndef dirWatchKeepOldOnAddErr : Bool := %v\n\n", retOnAddErr)
	emit("/-- F15f4: the old directory's watch is NOT removed when it is the config file's own directory (`if oldResolvedCfgDir == cleanedPathDir { return true }` between Add and Remove; the loop passes filepath.Dir(cleanedPath)) -/\ndef dirWatchKeepsOwnDir : Bool := %v\n\n", keepsOwn)
	emit("/-- F15r: updateDirWatches returns true exactly when it added a watch on a new directory, and the loop jumps back to the statement that reads the file (`goto REREAD`) after the report switch when it did -/\ndef watchRereadsAfterNewDirWatch : Bool := %v\n\n", reportsNew && gotoReread)
}

// F15w: the watches Watch() sets up before the loop starts.
func factWatchSetup() {
	f := parse(fileGo)
	var adds []string
	startsLoop := false
	if fd := methodDecl(f, "WatchingSource", "Watch"); fd != nil && fd.Body != nil {
		for _, s := range fd.Body.List {
			switch x := s.(type) {
			case *ast.IfStmt:
				if x.Init != nil && strings.HasPrefix(src(x.Init), "addErr := ws.watcher.Add(") {
					if _, ret := lastIsReturn(x.Body); ret && src(x.Cond) == "addErr != nil" {
						adds = append(adds, strings.TrimSuffix(strings.TrimPrefix(src(x.Init), "addErr := ws.watcher.Add("), ")"))
					}
				} else if x.Init == nil {
					for _, t := range x.Body.List {
						if in, ok := t.(*ast.IfStmt); ok && in.Init != nil && strings.HasPrefix(src(in.Init), "addErr := ws.watcher.Add(") {
							adds = append(adds, strings.TrimSuffix(strings.TrimPrefix(src(in.Init), "addErr := ws.watcher.Add("), ")")+" if "+src(x.Cond))
						}
					}
				}
			case *ast.GoStmt:
				if src(x.Call) == "ws.watchLoop(ctx, t, cleanedPath, resolvedCfgPath, args)" {
					startsLoop = true
				}
			}
		}
	}
	want := []string{"cleanedPath", "filepath.Dir(cleanedPath)", "filepath.Dir(resolvedCfgPath) if cleanedPath != resolvedCfgPath"}
	if strings.Join(adds, ";") != strings.Join(want, ";") || !startsLoop {
		miss("F15w", "file.go Watch: Add(cleanedPath); Add(filepath.Dir(cleanedPath)); if cleanedPath != resolvedCfgPath { Add(filepath.Dir(resolvedCfgPath)) }; go ws.watchLoop(…)")
	}
	emit("/-- F15w: watches added by Watch before the loop goroutine starts -/\ndef watchSetupAdds : List String := %s\n\n", strList(adds))
	emit("/-- F15w: Watch adds the file, its directory and (when different) the resolved path's directory, then starts the loop -/\ndef watchSetupComplete : Bool := %v\n\n",
		strings.Join(adds, ";") == strings.Join(want, ";") && startsLoop)
}

// factWatchPoll (F15p): the fallback poll of watchLoop is a REPEATING source of wake-ups: `time.NewTicker(ws.PollInterval)`
// whose channel is the select's ticker arm.  (A one-shot timer has the same `.C` / `.Stop()` surface.)  The model's
// convergence theorems quantify over any number of wake-ups; an event-less change (the directory removed and
// recreated) is only ever seen through this arm.
func factWatchPoll() {
	f := parse("sources/file/file.go")
	ctor, guarded := "", false
	if fd := funcDecl(f, "watchLoop"); fd != nil {
		ast.Inspect(fd, func(n ast.Node) bool {
			is, ok := n.(*ast.IfStmt)
			if !ok || !strings.Contains(src(is.Cond), "PollInterval") {
				return true
			}
			guarded = src(is.Cond) == "ws.PollInterval > 0"
			ast.Inspect(is.Body, func(m ast.Node) bool {
				if ce, ok := m.(*ast.CallExpr); ok {
					if s := src(ce.Fun); strings.HasPrefix(s, "time.New") && len(ce.Args) == 1 && src(ce.Args[0]) == "ws.PollInterval" {
						ctor = s
					}
				}
				return true
			})
			return false
		})
	}
	if ctor == "" || !guarded {
		miss("F15p", "file.go watchLoop: `if ws.PollInterval > 0 { ticker := time.NewTicker(ws.PollInterval); tickerChan = ticker.C; … }`")
	}
	emit("/-- F15p: the fallback poll is built by `time.NewTicker` (it fires every interval, not once) -/\ndef watchPollRepeats : Bool := %v\n\n", ctor == "time.NewTicker" && guarded)
}
