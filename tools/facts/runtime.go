package main

import (
	"fmt"
	"go/ast"
	"go/token"
	"strings"
)

func init() {
	allFacts = append(allFacts, factCbConds, factCaps, factSerial, factGuards, factStackErrAssert, factMonitorSubmits, factVerifyBeforeStart)
}

// boolExpr translates a Go boolean expression over a fixed vocabulary into Lean Bool syntax.
func boolExpr(e ast.Expr, vocab map[string]string) (string, bool) {
	switch x := e.(type) {
	case *ast.ParenExpr:
		s, ok := boolExpr(x.X, vocab)
		return "(" + s + ")", ok
	case *ast.UnaryExpr:
		if x.Op == token.NOT {
			s, ok := boolExpr(x.X, vocab)
			return "(!" + s + ")", ok
		}
	case *ast.BinaryExpr:
		l, ok1 := boolExpr(x.X, vocab)
		r, ok2 := boolExpr(x.Y, vocab)
		switch x.Op {
		case token.LAND:
			return "(" + l + " && " + r + ")", ok1 && ok2
		case token.LOR:
			return "(" + l + " || " + r + ")", ok1 && ok2
		}
		// comparison over the vocabulary
		if v, ok := vocab[src(e)]; ok {
			return v, true
		}
	}
	if v, ok := vocab[src(e)]; ok {
		return v, true
	}
	return "false", false
}

func containsWord(s, w string) bool {
	for i := 0; i+len(w) <= len(s); i++ {
		if s[i:i+len(w)] == w {
			before := i == 0 || !isWordByte(s[i-1])
			after := i+len(w) == len(s) || !isWordByte(s[i+len(w)])
			if before && after {
				return true
			}
		}
	}
	return false
}

func isWordByte(b byte) bool {
	return b == '_' || (b >= 'a' && b <= 'z') || (b >= 'A' && b <= 'Z') || (b >= '0' && b <= '9')
}

func cmpOp(op token.Token) (string, bool) {
	switch op {
	case token.GEQ:
		return "≥", true
	case token.GTR:
		return ">", true
	case token.LEQ:
		return "≤", true
	case token.LSS:
		return "<", true
	case token.EQL:
		return "=", true
	case token.NEQ:
		return "≠", true
	}
	return "=", false
}

// F1, F2, global gate: conditions in runCBs
func factCbConds() {
	f := parse("cb_mgr.go")
	fd := funcDecl(f, "runCBs")
	skip, catchup, gate := "", "", ""
	if fd != nil {
		ast.Inspect(fd, func(n ast.Node) bool {
			is, ok := n.(*ast.IfStmt)
			if !ok {
				return true
			}
			if be, ok := is.Cond.(*ast.BinaryExpr); ok {
				if src(be.X) == "cbh.minSerial" && src(be.Y) == "e.serial" {
					hasContinue := false
					for _, st := range is.Body.List {
						if bs, ok := st.(*ast.BranchStmt); ok && bs.Tok == token.CONTINUE {
							hasContinue = true
						}
					}
					if op, ok := cmpOp(be.Op); ok && hasContinue {
						skip = op
					}
				}
				if be.Op == token.LAND && src(be.X) == "e.serial.cfg != nil" {
					if r, ok := be.Y.(*ast.BinaryExpr); ok && src(r.X) == "e.serial.s" && src(r.Y) == "lastSerial" {
						if op, ok := cmpOp(r.Op); ok {
							catchup = op
						}
					}
				}
				if be.Op == token.LAND && src(be.X) == "cbm.p.OnNewConfig != nil" {
					if s, ok := boolExpr(be.Y, map[string]string{"e.globalCBsSuppressed": "suppressed"}); ok {
						gate = s
					}
				}
			}
			return true
		})
	}
	if skip == "" {
		miss("F1", "cb_mgr.go runCBs: `if cbh.minSerial <op> e.serial { continue }`")
		skip = "≥"
	}
	if catchup == "" {
		miss("F2", "cb_mgr.go runCBs: `if e.serial.cfg != nil && e.serial.s <op> lastSerial`")
		catchup = "<"
	}
	if gate == "" {
		miss("F1g", "cb_mgr.go runCBs: `if cbm.p.OnNewConfig != nil && <gate>`")
		gate = "(!suppressed)"
	}
	emit("/-- F1: runCBs skips a registered callback when `cbh.minSerial %s e.serial` -/\n", skip)
	emit("def cbSkip (minSerial evSerial : Nat) : Bool := decide (minSerial %s evSerial)\n\n", skip)
	emit("/-- F2: catch-up call when `e.serial.cfg != nil && e.serial.s %s lastSerial` -/\n", catchup)
	emit("def catchUp (ser lastSerial : Nat) : Bool := decide (ser %s lastSerial)\n\n", catchup)
	emit("/-- F1g: OnNewConfig is called when it is set and this holds -/\n")
	emit("def globalGate (suppressed : Bool) : Bool := %s\n\n", gate)
}

// F3: channel capacities
func factCaps() {
	caps := map[string]string{}
	for _, rel := range []string{"dials.go"} {
		f := parse(rel)
		if f == nil {
			continue
		}
		ast.Inspect(f, func(n ast.Node) bool {
			ce, ok := n.(*ast.CallExpr)
			if !ok {
				return true
			}
			if id, ok := ce.Fun.(*ast.Ident); !ok || id.Name != "make" || len(ce.Args) < 1 {
				return true
			}
			ct, ok := ce.Args[0].(*ast.ChanType)
			if !ok {
				return true
			}
			capv := "0"
			if len(ce.Args) == 2 {
				capv = src(ce.Args[1])
			}
			key := src(ct.Value)
			if old, ok := caps[key]; ok && old != capv {
				caps[key] = "conflict"
			} else {
				caps[key] = capv
			}
			return true
		})
	}
	get := func(id, key, name, def string) {
		v, ok := caps[key]
		if !ok || v == "conflict" || strings.Trim(v, "0123456789") != "" {
			miss(id, "dials.go: make(chan "+key+", n)")
			v = def
		}
		emit("/-- F3: capacity of `make(chan %s, …)` in dials.go -/\ndef %s : Nat := %s\n\n", key, name, v)
	}
	get("F3a", "userCallbackEvent", "capCbch", "64")
	get("F3b", "verifyEnable[T]", "capMonCtl", "3")
	get("F3c", "*T", "capEvents", "1")
	get("F3d", "error", "capInstalled", "1")
	get("F3e", "verifyEnableResp[T]", "capResp", "1")
	get("F3f", "watchStatusUpdate", "capWatcher", "0")
}

func natExpr(e ast.Expr, v string) (string, bool) {
	be, ok := e.(*ast.BinaryExpr)
	if !ok {
		if src(e) == v {
			return "s", true
		}
		return "s", false
	}
	if src(be.X) != v {
		return "s", false
	}
	lit, ok := be.Y.(*ast.BasicLit)
	if !ok || lit.Kind != token.INT {
		return "s", false
	}
	switch be.Op {
	case token.ADD:
		return "s + " + lit.Value, true
	case token.SUB:
		return "s - " + lit.Value, true
	}
	return "s", false
}

// F4: stored serial and event serial
func factSerial() {
	f := parse("dials.go")
	stored, event, okS, okE := "s + 1", "s + 1", false, false
	if f != nil {
		ast.Inspect(f, func(n ast.Node) bool {
			cl, ok := n.(*ast.CompositeLit)
			if !ok {
				return true
			}
			ty := src(cl.Type)
			for _, el := range cl.Elts {
				kv, ok := el.(*ast.KeyValueExpr)
				if !ok || src(kv.Key) != "serial" {
					continue
				}
				if strings.HasPrefix(ty, "versionedConfig") {
					if _, isLit := kv.Value.(*ast.BasicLit); isLit {
						continue // the initial `serial: 0`
					}
					stored, okS = natExpr(kv.Value, "oldSerial.s")
				}
				if strings.HasPrefix(ty, "newConfigEvent") {
					event, okE = natExpr(kv.Value, "oldSerial.s")
				}
			}
			return true
		})
	}
	if !okS {
		miss("F4a", "dials.go updateSourceValue: versionedConfig[T]{serial: oldSerial.s + k}")
	}
	if !okE {
		miss("F4b", "dials.go monitor: newConfigEvent[T]{serial: oldSerial.s + k}")
	}
	emit("/-- F4: serial stored by updateSourceValue as a function of the previous serial -/\ndef nextSerial (s : Nat) : Nat := %s\n\n", stored)
	emit("/-- F4: serial carried by the new-config event as a function of the previous serial -/\ndef eventSerial (s : Nat) : Nat := %s\n\n", event)
}

// F5, F6: verification / suppression guards
func factGuards() {
	f := parse("dials.go")
	vocab := map[string]string{
		"ok": "true", "skipVerify": "skipVerify",
		"p.SkipInitialVerification": "skipInitial", "p.DelayInitialVerification": "delay",
		"d.params.CallGlobalCallbacksAfterVerificationEnabled": "suppress",
		"d.params.DelayInitialVerification":                    "delay",
	}
	initV, updV, supp, srcErr, skip0 := "", "", "", "", ""
	// F5: Config
	if fd := funcDecl(f, "Config"); fd != nil && fd.Recv != nil {
		ast.Inspect(fd, func(n ast.Node) bool {
			is, ok := n.(*ast.IfStmt)
			if ok && is.Init != nil && strings.Contains(src(is.Init), "(VerifiedConfig)") {
				if s, ok := boolExpr(is.Cond, vocab); ok {
					initV = s
				}
			}
			return true
		})
	}
	if fd := funcDecl(f, "updateSourceValue"); fd != nil {
		ast.Inspect(fd, func(n ast.Node) bool {
			is, ok := n.(*ast.IfStmt)
			if ok && is.Init != nil && strings.Contains(src(is.Init), "(VerifiedConfig)") {
				if s, ok := boolExpr(is.Cond, vocab); ok {
					updV = s
				}
			}
			return true
		})
	}
	if fd := funcDecl(f, "monitor"); fd != nil {
		ast.Inspect(fd, func(n ast.Node) bool {
			switch x := n.(type) {
			case *ast.KeyValueExpr:
				if src(x.Key) == "globalCBsSuppressed" {
					if s, ok := boolExpr(x.Value, vocab); ok {
						supp = s
					}
				}
			case *ast.CaseClause:
				if len(x.List) == 1 && src(x.List[0]) == "*watchErrorReport" {
					for _, st := range x.Body {
						if is, ok := st.(*ast.IfStmt); ok {
							if s, ok := boolExpr(is.Cond, vocab); ok {
								srcErr = s
							}
						}
					}
				}
			case *ast.AssignStmt:
				if len(x.Lhs) == 1 && src(x.Lhs[0]) == "skipVerify" && x.Tok == token.DEFINE {
					if s, ok := boolExpr(x.Rhs[0], vocab); ok {
						skip0 = s
					}
				}
			}
			return true
		})
	}
	def := func(id, what, got, dflt string, allowed ...string) string {
		if got == "" {
			miss(id, what)
			return dflt
		}
		// the Lean definition only binds `allowed`: an expression over other variables cannot be
		// represented, so the tie is reported broken (and the previous form kept so that the model still builds)
		for _, v := range []string{"skipVerify", "suppress", "delay", "skipInitial"} {
			ok := false
			for _, a := range allowed {
				if a == v {
					ok = true
				}
			}
			if !ok && containsWord(got, v) {
				miss(id, what+" — now depends on `"+v+"`: "+got)
				return dflt
			}
		}
		return got
	}
	initV = def("F5", "dials.go Config: `if vf, ok := newValue.(VerifiedConfig); <cond>`", initV, "((true && (!skipInitial)) && (!delay))", "skipInitial", "delay")
	updV = def("F6a", "dials.go updateSourceValue: `if vf, ok := newInterface.(VerifiedConfig); <cond>`", updV, "(true && (!skipVerify))", "skipVerify")
	supp = def("F6b", "dials.go monitor: newConfigEvent{globalCBsSuppressed: <expr>}", supp, "(skipVerify && suppress)", "skipVerify", "suppress")
	srcErr = def("F6c", "dials.go monitor: case *watchErrorReport: if <cond>", srcErr, "(!(skipVerify && suppress))", "skipVerify", "suppress")
	skip0 = def("F6d", "dials.go monitor: skipVerify := <expr>", skip0, "delay", "delay")
	emit("/-- F5: guard of the initial Verify() call in Params.Config -/\ndef initialVerify (skipInitial delay : Bool) : Bool := %s\n\n", initV)
	emit("/-- F6a: guard of the Verify() call after a re-stack -/\ndef verifyOnUpdate (skipVerify : Bool) : Bool := %s\n\n", updV)
	emit("/-- F6b: `globalCBsSuppressed` of a new-config event -/\ndef suppressNew (skipVerify suppress : Bool) : Bool := %s\n\n", supp)
	emit("/-- F6c: a source-reported error is forwarded to OnWatchedError when this holds -/\ndef deliverSrcErr (skipVerify suppress : Bool) : Bool := %s\n\n", srcErr)
	emit("/-- F6d: the monitor's initial skipVerify -/\ndef initialSkipVerify (delay : Bool) : Bool := %s\n\n", skip0)
	_ = fmt.Sprint
}

// factStackErrAssert (F6e): compose returns a nil interface next to a stacking error, so a type assertion inside
// updateSourceValue's `if stackErr != nil` branch must be of the two-value form (a single-value assertion panics on
// the monitor goroutine, which nothing can recover).  The runtime model's .gotValue step goes straight to the
// error submission, i.e. it assumes the branch cannot panic.
func factStackErrAssert() {
	f := parse("dials.go")
	found, safe := false, true
	if fd := funcDecl(f, "updateSourceValue"); fd != nil {
		ast.Inspect(fd, func(n ast.Node) bool {
			is, ok := n.(*ast.IfStmt)
			if !ok || src(is.Cond) != "stackErr != nil" {
				return true
			}
			found = true
			commaOK := map[ast.Expr]bool{}
			ast.Inspect(is.Body, func(m ast.Node) bool {
				switch x := m.(type) {
				case *ast.AssignStmt:
					if len(x.Lhs) == 2 && len(x.Rhs) == 1 {
						commaOK[x.Rhs[0]] = true
					}
				case *ast.TypeAssertExpr:
					if x.Type != nil && !commaOK[x] {
						safe = false
					}
				}
				return true
			})
			return false
		})
	}
	if !found {
		miss("F6e", "dials.go updateSourceValue: `if stackErr != nil { … }`")
	}
	emit("/-- F6e: every type assertion in updateSourceValue's stacking-error branch has the two-value form (compose\nreturns a nil interface there) -/\ndef stackErrAssertCommaOk : Bool := %v\n\n", safe)
}

// factMonitorSubmits (F6s): the monitor goroutine (monitor and updateSourceValue) hands events to the callback
// goroutine through submitEvent only - the non-blocking send (a select with a default case) - never through
// submitEventBlocking or a bare send on cbch.  The runtime model's four submission steps (.submitErr stack / verify,
// .submitNew, .submitSrcErr) are `trySubmit`: enabled whatever the queue holds.
func factMonitorSubmits() {
	f := parse("dials.go")
	nonBlocking, blocking, bare := 0, 0, 0
	seen := 0
	for _, name := range []string{"monitor", "updateSourceValue"} {
		fd := funcDecl(f, name)
		if fd == nil {
			continue
		}
		seen++
		ast.Inspect(fd, func(n ast.Node) bool {
			switch x := n.(type) {
			case *ast.CallExpr:
				if sel, ok := x.Fun.(*ast.SelectorExpr); ok {
					switch sel.Sel.Name {
					case "submitEvent":
						nonBlocking++
					case "submitEventBlocking":
						blocking++
					}
				}
			case *ast.SendStmt:
				if strings.HasSuffix(src(x.Chan), "cbch") {
					bare++
				}
			}
			return true
		})
	}
	if seen != 2 {
		miss("F6s", "dials.go: func monitor and func updateSourceValue")
	}
	// submitEvent itself: one select that sends on cbch and has a default case
	hasDefault := false
	if fd := funcDecl(f, "submitEvent"); fd != nil {
		ast.Inspect(fd, func(n ast.Node) bool {
			sel, ok := n.(*ast.SelectStmt)
			if !ok {
				return true
			}
			sends, dflt := false, false
			for _, cl := range sel.Body.List {
				cc := cl.(*ast.CommClause)
				if cc.Comm == nil {
					dflt = true
				} else if ss, ok := cc.Comm.(*ast.SendStmt); ok && strings.HasSuffix(src(ss.Chan), "cbch") {
					sends = true
				}
			}
			if sends && dflt {
				hasDefault = true
			}
			return true
		})
	} else {
		miss("F6s", "dials.go: func submitEvent")
	}
	emit("/-- F6s: event submissions on the monitor goroutine (monitor + updateSourceValue): through submitEvent /\nthrough submitEventBlocking or a bare send on cbch; and submitEvent's send sits in a select with a default case -/\ndef monitorSubmits : Nat := %d\ndef monitorBlockingSubmits : Nat := %d\ndef submitEventHasDefault : Bool := %v\n\n", nonBlocking, blocking+bare, hasDefault)
}

// factVerifyBeforeStart (F5o): in Params.Config the initial verification (the `if vf, ok := newValue.(VerifiedConfig); ...`
// statement, whose failure makes Config return an error) comes BEFORE the statement that starts the callback and monitor
// goroutines.  The runtime model's init either fails or yields a state with both goroutines; a refused initial stack
// leaves nothing running.
func factVerifyBeforeStart() {
	f := parse("dials.go")
	verifyAt, startAt := -1, -1
	if fd := funcDecl(f, "Config"); fd != nil && fd.Recv != nil {
		for i, st := range fd.Body.List {
			is, ok := st.(*ast.IfStmt)
			if !ok {
				continue
			}
			if is.Init != nil && strings.Contains(src(is.Init), "(VerifiedConfig)") && verifyAt < 0 {
				verifyAt = i
			}
			hasGo := false
			ast.Inspect(is.Body, func(n ast.Node) bool {
				if _, ok := n.(*ast.GoStmt); ok {
					hasGo = true
				}
				return true
			})
			if hasGo && startAt < 0 {
				startAt = i
			}
		}
	}
	if verifyAt < 0 || startAt < 0 {
		miss("F5o", "dials.go Params.Config: the initial-verification `if` and the `if someoneWatching { go ... }` statement, both at the top level of the body")
	}
	emit("/-- F5o: Params.Config verifies the initial stack before it starts the callback and monitor goroutines -/\ndef initialVerifyBeforeGoroutines : Bool := %v\n\n", verifyAt >= 0 && startAt >= 0 && verifyAt < startAt)
}

func init() { allFacts = append(allFacts, factViewVersion) }

// F4v: ViewVersion (the go1.19+ file) takes the config and the serial from ONE atomic load of d.value: the number of
// d.value.Load() calls and the number of any other calls in its body
func factViewVersion() {
	f := parse("dials_119.go")
	loads, others := 0, 0
	fd := funcDecl(f, "ViewVersion")
	if fd == nil {
		miss("F4v", "dials_119.go: func (d *Dials[T]) ViewVersion()")
	} else {
		ast.Inspect(fd.Body, func(n ast.Node) bool {
			if ce, ok := n.(*ast.CallExpr); ok {
				if src(ce.Fun) == "d.value.Load" {
					loads++
				} else {
					others++
				}
			}
			return true
		})
	}
	emit("/-- F4v: calls of d.value.Load() / any other calls in the body of ViewVersion (dials_119.go) -/\ndef viewVersionLoads : Nat := %d\ndef viewVersionOtherCalls : Nat := %d\n\n", loads, others)
}

func init() { allFacts = append(allFacts, factQueueNeverClosed) }

// F3c: the callback queue (d.cbch, the callback manager's cbm.ch) has several senders - RegisterCallback, unregister,
// the monitor - and is therefore never closed: number of close() calls on it in dials.go and cb_mgr.go; the monitor
// announces its exit by closing d.monDone
func factQueueNeverClosed() {
	closes, doneCloses := 0, 0
	for _, rel := range []string{"dials.go", "cb_mgr.go"} {
		f := parse(rel)
		if f == nil {
			miss("F3c", rel)
			continue
		}
		ast.Inspect(f, func(n ast.Node) bool {
			ce, ok := n.(*ast.CallExpr)
			if !ok || src(ce.Fun) != "close" || len(ce.Args) != 1 {
				return true
			}
			switch a := src(ce.Args[0]); {
			case strings.HasSuffix(a, ".cbch") || a == "cbch" || strings.HasSuffix(a, "cbm.ch"):
				closes++
			case a == "d.monDone":
				doneCloses++
			}
			return true
		})
	}
	emit("/-- F3c: close() calls on the callback queue / on d.monDone in dials.go and cb_mgr.go -/\ndef callbackQueueCloses : Nat := %d\ndef monDoneCloses : Nat := %d\n\n", closes, doneCloses)
}

func init() { allFacts = append(allFacts, factUncomparableSources) }

// F4u: Config lets a pointer stand in for a source whose dynamic type is not comparable BEFORE the source is stored in its
// slot and handed to its WatchArgs (the monitor identifies slots by comparing Source values: repaired defect P20)
func factUncomparableSources() {
	f := parse("dials.go")
	ok := false
	if fd := funcDecl(f, "Config"); fd != nil {
		ast.Inspect(fd, func(n ast.Node) bool {
			rs, isRange := n.(*ast.RangeStmt)
			if !isRange || src(rs.X) != "sources" || len(rs.Body.List) < 2 {
				return true
			}
			first, isIf := rs.Body.List[0].(*ast.IfStmt)
			if isIf && strings.Contains(src(first.Cond), "!st.Comparable()") && strings.Contains(src(first.Init), "reflect.TypeOf(source)") &&
				strings.Contains(src(first.Body), "source = &uncomparable") && src(rs.Body.List[1]) == "s := source" {
				ok = true
			}
			return true
		})
	}
	if !ok {
		miss("F4u", "dials.go Config: `if st := reflect.TypeOf(source); st != nil && !st.Comparable() { source = &uncomparable…{…} }` as the first statement of the loop over sources, before `s := source`")
	}
	emit("/-- F4u: Config replaces a source of an uncomparable type by a pointer before it is stored and watched (P20) -/\ndef uncomparableSourcesWrapped : Bool := %v\n\n", ok)
}
