package main

import (
	"go/ast"
	"go/token"
	"strconv"
	"strings"
)

func init() { allFacts = append(allFacts, factChains) }

var commonConsts map[string]string

func loadCommonConsts() {
	commonConsts = map[string]string{}
	f := parse("common/tags.go")
	if f == nil {
		return
	}
	ast.Inspect(f, func(n ast.Node) bool {
		vs, ok := n.(*ast.ValueSpec)
		if !ok {
			return true
		}
		for i, name := range vs.Names {
			if i < len(vs.Values) {
				if bl, ok := vs.Values[i].(*ast.BasicLit); ok && bl.Kind == token.STRING {
					s, _ := strconv.Unquote(bl.Value)
					commonConsts["common."+name.Name] = s
				}
			}
		}
		return true
	})
}

func argStr(e ast.Expr) string {
	s := src(e)
	if v, ok := commonConsts[s]; ok {
		return v
	}
	if bl, ok := e.(*ast.BasicLit); ok && bl.Kind == token.STRING {
		v, _ := strconv.Unquote(bl.Value)
		return v
	}
	if strings.HasPrefix(s, "caseconversion.") {
		return strings.TrimPrefix(s, "caseconversion.")
	}
	// dynamic (e.g. s.NameCfg.FieldNameEncodeCasing): keep the selector's last component as a placeholder
	if i := strings.LastIndex(s, "."); i >= 0 {
		return "$" + s[i+1:]
	}
	return "$" + s
}

// manglerSpec maps a constructor expression to the model's spec; defs resolves local identifiers.
func manglerSpec(e ast.Expr, defs map[string]ast.Expr, depth int) ([]string, bool) {
	if depth > 4 {
		return nil, false
	}
	if id, ok := e.(*ast.Ident); ok {
		if d, ok := defs[id.Name]; ok {
			return manglerSpec(d, defs, depth+1)
		}
		if id.Name == "parsingDurMangler" {
			return []string{"dursub"}, true
		}
		return nil, false
	}
	if ue, ok := e.(*ast.UnaryExpr); ok && ue.Op == token.AND {
		return manglerSpec(ue.X, defs, depth+1)
	}
	switch x := e.(type) {
	case *ast.CallExpr:
		fn := src(x.Fun)
		args := []string{}
		for _, a := range x.Args {
			args = append(args, argStr(a))
		}
		switch fn {
		case "transform.NewFlattenMangler":
			return append([]string{"flatten"}, args...), len(args) == 3
		case "transform.NewAliasMangler":
			return append([]string{"alias"}, args...), true
		case "tagformat.NewTagReformattingMangler":
			return append([]string{"reformat"}, args...), len(args) == 3
		case "transform.DefaultFlattenMangler":
			return []string{"flatten", "dials", "EncodeUpperCamelCase", "EncodeCasePreservingSnakeCase"}, true
		}
	case *ast.CompositeLit:
		ty := src(x.Type)
		switch ty {
		case "tagformat.TagCopyingMangler":
			var s, n string
			for _, el := range x.Elts {
				if kv, ok := el.(*ast.KeyValueExpr); ok {
					if src(kv.Key) == "SrcTag" {
						s = argStr(kv.Value)
					}
					if src(kv.Key) == "NewTag" {
						n = argStr(kv.Value)
					}
				}
			}
			return []string{"copy", s, n}, s != "" && n != ""
		case "transform.StringCastingMangler":
			return []string{"stringcast"}, true
		case "transform.SetSliceMangler":
			return []string{"setslice"}, true
		case "transform.AnonymousFlattenMangler":
			return []string{"anonflatten"}, true
		case "transform.TextUnmarshalerMangler":
			return []string{"textunmarshaler"}, true
		}
	}
	return nil, false
}

// chainOf finds the (first) transform.NewTransformer call in function fn of file rel
func chainOf(rel, fn string) ([][]string, bool) {
	f := parse(rel)
	var fd *ast.FuncDecl
	if f != nil {
		for _, d := range f.Decls {
			if x, ok := d.(*ast.FuncDecl); ok && x.Name.Name == fn {
				fd = x
			}
		}
	}
	if fd == nil {
		return nil, false
	}
	defs := map[string]ast.Expr{}
	var call *ast.CallExpr
	ast.Inspect(fd, func(n ast.Node) bool {
		switch x := n.(type) {
		case *ast.AssignStmt:
			if len(x.Lhs) == 1 && len(x.Rhs) == 1 {
				if id, ok := x.Lhs[0].(*ast.Ident); ok {
					defs[id.Name] = x.Rhs[0]
				}
			}
		case *ast.CallExpr:
			if src(x.Fun) == "transform.NewTransformer" && call == nil {
				call = x
			}
		}
		return true
	})
	if call == nil || len(call.Args) < 1 {
		return nil, false
	}
	var out [][]string
	for _, a := range call.Args[1:] {
		sp, ok := manglerSpec(a, defs, 0)
		if !ok {
			return nil, false
		}
		out = append(out, sp)
	}
	return out, true
}

func leanChain(c [][]string) string {
	var parts []string
	for _, sp := range c {
		var q []string
		for _, s := range sp {
			q = append(q, leanStr(s))
		}
		parts = append(parts, "["+strings.Join(q, ", ")+"]")
	}
	return "[" + strings.Join(parts, ", ") + "]"
}

// F12: mangler chains
func factChains() {
	loadCommonConsts()
	for _, c := range []struct{ id, name, rel, fn string }{
		{"F12a", "chainEnv", "sources/env/env.go", "Value"},
		{"F12b", "chainFlag", "sources/flag/flag.go", "registerFlags"},
		{"F12c", "chainPFlag", "sources/pflag/pflag.go", "registerFlags"},
		{"F12d", "chainJSON", "decoders/json/json.go", "Decode"},
		{"F12e", "chainTOML", "decoders/toml/toml.go", "Decode"},
		{"F12f", "chainCue", "decoders/cue/cue.go", "Decode"},
	} {
		ch, ok := chainOf(c.rel, c.fn)
		if !ok {
			miss(c.id, c.rel+" "+c.fn+": transform.NewTransformer(type, <manglers built by the library's constructors>)")
		}
		emit("/-- %s: mangler chain of %s (%s), constructor and arguments in order -/\ndef %s : List (List String) := %s\n\n", c.id, c.rel, c.fn, c.name, leanChain(ch))
	}
	emit("/-- common tag names (common/tags.go) -/\ndef tagNames : List (String × String) := [")
	first := true
	for _, k := range []string{"common.DialsTagName", "common.DialsEnvTagName", "common.DialsFlagTagName", "common.DialsPFlagTag", "common.DialsPFlagShortTag", "common.DialsHelpTextTag"} {
		if !first {
			emit(", ")
		}
		first = false
		emit("(%s, %s)", leanStr(strings.TrimPrefix(k, "common.")), leanStr(commonConsts[k]))
	}
	emit("]\n\n")
}
