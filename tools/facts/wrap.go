package main

import (
	"fmt"
	"go/ast"
	"go/token"
	"strconv"
	"strings"
)

func init() { allFacts = append(allFacts, factWrapOverrides, factWrapErrRules, factBlank) }

// methodsOf returns the methods declared on (pointer or value) receiver type `recv` in f.
func methodsOf(f *ast.File, recv string) []*ast.FuncDecl {
	var out []*ast.FuncDecl
	if f == nil {
		return nil
	}
	for _, d := range f.Decls {
		fd, ok := d.(*ast.FuncDecl)
		if !ok || fd.Recv == nil || len(fd.Recv.List) != 1 {
			continue
		}
		t := fd.Recv.List[0].Type
		if st, ok := t.(*ast.StarExpr); ok {
			t = st.X
		}
		if id, ok := t.(*ast.Ident); ok && id.Name == recv {
			out = append(out, fd)
		}
	}
	return out
}

func method(f *ast.File, recv, name string) *ast.FuncDecl {
	for _, m := range methodsOf(f, recv) {
		if m.Name.Name == name {
			return m
		}
	}
	return nil
}

// errRule describes how the error produced by a call is handled by the `if <err> != nil { return …, X }`
// that follows it: "some <prefix>" when X wraps the error (&wrappedErr{prefix: P, err: e} or
// fmt.Errorf("P…%w", e)), `some ""` when X is the error itself, "none" when the error is not returned.
func errRule(errVar string, check *ast.IfStmt) string {
	if check == nil || src(check.Cond) != errVar+" != nil" || len(check.Body.List) == 0 {
		return "none"
	}
	rs, ok := check.Body.List[len(check.Body.List)-1].(*ast.ReturnStmt)
	if !ok || len(rs.Results) == 0 {
		return "none"
	}
	x := rs.Results[len(rs.Results)-1]
	if id, ok := x.(*ast.Ident); ok {
		if id.Name == errVar {
			return `some ""`
		}
		return "none"
	}
	// &wrappedErr{prefix: "…", err: errVar}
	if ue, ok := x.(*ast.UnaryExpr); ok && ue.Op == token.AND {
		if cl, ok := ue.X.(*ast.CompositeLit); ok && src(cl.Type) == "wrappedErr" {
			prefix, carries := "", false
			for _, e := range cl.Elts {
				kv, ok := e.(*ast.KeyValueExpr)
				if !ok {
					continue
				}
				switch src(kv.Key) {
				case "prefix":
					if bl, ok := kv.Value.(*ast.BasicLit); ok && bl.Kind == token.STRING {
						prefix, _ = strconv.Unquote(bl.Value)
					}
				case "err":
					carries = src(kv.Value) == errVar
				}
			}
			if carries {
				return "some " + leanStr(prefix)
			}
		}
		return "none"
	}
	// fmt.Errorf("prefix: %w", errVar)
	if ce, ok := x.(*ast.CallExpr); ok && src(ce.Fun) == "fmt.Errorf" && len(ce.Args) >= 2 {
		if bl, ok := ce.Args[0].(*ast.BasicLit); ok && bl.Kind == token.STRING {
			format, _ := strconv.Unquote(bl.Value)
			if strings.HasSuffix(format, "%w") && strings.Count(format, "%") == 1 && src(ce.Args[len(ce.Args)-1]) == errVar {
				return "some " + leanStr(strings.TrimSuffix(format, "%w"))
			}
		}
	}
	return "none"
}

// callAndCheck finds, in the top-level statements of body, the statement `…, e := <recv>.<callee>(…)`
// (assignment or the Init of an if) and the error check belonging to it; it returns the error
// variable, the check and the statement index (-1 when absent).
func callAndCheck(body *ast.BlockStmt, calleeSuffix string) (string, *ast.IfStmt, int) {
	if body == nil {
		return "", nil, -1
	}
	isCall := func(as *ast.AssignStmt) (string, bool) {
		if as == nil || len(as.Rhs) != 1 {
			return "", false
		}
		ce, ok := as.Rhs[0].(*ast.CallExpr)
		if !ok || !strings.HasSuffix(src(ce.Fun), calleeSuffix) {
			return "", false
		}
		return src(as.Lhs[len(as.Lhs)-1]), true
	}
	for i, st := range body.List {
		switch x := st.(type) {
		case *ast.AssignStmt:
			if ev, ok := isCall(x); ok {
				var chk *ast.IfStmt
				if i+1 < len(body.List) {
					chk, _ = body.List[i+1].(*ast.IfStmt)
				}
				return ev, chk, i
			}
		case *ast.IfStmt:
			if as, ok := x.Init.(*ast.AssignStmt); ok {
				if ev, ok := isCall(as); ok {
					return ev, x, i
				}
			}
		}
	}
	return "", nil, -1
}

// F16: method set of wrappedWatchArgs.  For each method: its name and the method of the embedded
// dials.WatchArgs to which its body forwards the reverse-translated value ("" when the body does
// not have the shape `u, e := w.tfm.ReverseTranslate(val); if e != nil { return wrap(e) }; return
// w.WatchArgs.<M>(ctx, u)`), and the rule for the reverse-translation error.
func factWrapOverrides() {
	f := parse("sourcewrap/transforming_source.go")
	type ov struct{ name, target, rule string }
	var ovs []ov
	structFound := false
	if f != nil {
		ast.Inspect(f, func(n ast.Node) bool {
			ts, ok := n.(*ast.TypeSpec)
			if !ok || ts.Name.Name != "wrappedWatchArgs" {
				return true
			}
			st, ok := ts.Type.(*ast.StructType)
			if !ok {
				return true
			}
			for _, fl := range st.Fields.List {
				if len(fl.Names) == 0 && src(fl.Type) == "dials.WatchArgs" {
					structFound = true
				}
			}
			return false
		})
	}
	for _, m := range methodsOf(f, "wrappedWatchArgs") {
		o := ov{name: m.Name.Name, rule: "none"}
		if m.Body != nil && len(m.Recv.List[0].Names) == 1 && m.Type.Params != nil {
			recv := m.Recv.List[0].Names[0].Name
			// parameter names: (ctx, val)
			var params []string
			for _, p := range m.Type.Params.List {
				for _, nm := range p.Names {
					params = append(params, nm.Name)
				}
			}
			ev, chk, idx := callAndCheck(m.Body, recv+".tfm.ReverseTranslate")
			if idx == 0 && len(m.Body.List) == 3 && len(params) == 2 {
				as := m.Body.List[0].(*ast.AssignStmt)
				arg := src(as.Rhs[0].(*ast.CallExpr).Args[0])
				unm := src(as.Lhs[0])
				if rs, ok := m.Body.List[2].(*ast.ReturnStmt); ok && len(rs.Results) == 1 && arg == params[1] {
					if ce, ok := rs.Results[0].(*ast.CallExpr); ok && len(ce.Args) == 2 && src(ce.Args[0]) == params[0] && src(ce.Args[1]) == unm {
						fn := src(ce.Fun)
						if strings.HasPrefix(fn, recv+".WatchArgs.") {
							o.target = strings.TrimPrefix(fn, recv+".WatchArgs.")
							o.rule = errRule(ev, chk)
						}
					}
				}
			}
		}
		ovs = append(ovs, o)
	}
	if !structFound {
		miss("F16", "sourcewrap/transforming_source.go: type wrappedWatchArgs struct embedding dials.WatchArgs")
	}
	var items []string
	for _, o := range ovs {
		items = append(items, fmt.Sprintf("(%s, %s, %s)", leanStr(o.name), leanStr(o.target), o.rule))
	}
	emit("/-- F16: methods declared on `wrappedWatchArgs` (sourcewrap/transforming_source.go): (name, method of the embedded\n")
	emit("dials.WatchArgs that receives the reverse-translated value, \"\" if the body has another shape; treatment of the\n")
	emit("ReverseTranslate error: `some prefix` = returned wrapped, `none` = not returned).  Every other WatchArgs method is\n")
	emit("promoted from the embedded interface and passes its arguments through unchanged. -/\n")
	emit("def wrapOverrides : List (String × String × Option String) := [%s]\n\n", strings.Join(items, ", "))

	// F16c: NewTransformingSource keeps the Watcher property of the wrapped source
	keeps := false
	if fd := funcDecl(f, "NewTransformingSource"); fd != nil && fd.Body != nil {
		for _, st := range fd.Body.List {
			is, ok := st.(*ast.IfStmt)
			if !ok || is.Init == nil || src(is.Cond) != "ok" {
				continue
			}
			if strings.HasSuffix(src(is.Init), ":= src.(dials.Watcher)") && len(is.Body.List) == 1 {
				if rs, ok := is.Body.List[0].(*ast.ReturnStmt); ok && len(rs.Results) == 1 && strings.HasPrefix(src(rs.Results[0]), "&transformingSourceWithWatch{") {
					keeps = true
				}
			}
		}
	}
	if !keeps {
		miss("F16c", "NewTransformingSource: `if watcher, ok := src.(dials.Watcher); ok { return &transformingSourceWithWatch{…} }`")
	}
	emit("/-- F16c: NewTransformingSource returns a Watcher exactly when the wrapped source is one -/\ndef wrapKeepsWatcher : Bool := %v\n\n", keeps)

	// F16d: tagformat.ReformatDialsTagSource is NewTransformingSource(inner, &TagReformattingMangler{…})
	g := parse("tagformat/reformat_tags.go")
	reformat := false
	if fd := funcDecl(g, "ReformatDialsTagSource"); fd != nil && fd.Body != nil && len(fd.Body.List) == 1 && fd.Type.Params != nil && len(fd.Type.Params.List) > 0 && len(fd.Type.Params.List[0].Names) == 1 {
		inner := fd.Type.Params.List[0].Names[0].Name
		if rs, ok := fd.Body.List[0].(*ast.ReturnStmt); ok && len(rs.Results) == 1 {
			if ce, ok := rs.Results[0].(*ast.CallExpr); ok && src(ce.Fun) == "sourcewrap.NewTransformingSource" && len(ce.Args) == 2 &&
				src(ce.Args[0]) == inner && strings.HasPrefix(src(ce.Args[1]), "&TagReformattingMangler{") {
				reformat = true
			}
		}
	}
	if !reformat {
		miss("F16d", "tagformat.ReformatDialsTagSource: `return sourcewrap.NewTransformingSource(inner, &TagReformattingMangler{…})`")
	}
	emit("/-- F16d: ReformatDialsTagSource(inner, …) is NewTransformingSource(inner, <one tag-reformatting mangler>) -/\ndef reformatSourceIsTransforming : Bool := %v\n\n", reformat)
}

// F16b: treatment of the error of each call in the Value / Decode / Watch methods of the wrappers
func factWrapErrRules() {
	f := parse("sourcewrap/transforming_source.go")
	type step struct{ lean, recv, meth, callee, what string }
	steps := []step{
		{"wrapValueTranslateErr", "transformingSourceNoWatch", "Value", ".TranslateType", "tfm.TranslateType()"},
		{"wrapValueInnerErr", "transformingSourceNoWatch", "Value", ".src.Value", "t.src.Value(ctx, innerTyp)"},
		{"wrapValueReverseErr", "transformingSourceNoWatch", "Value", ".ReverseTranslate", "tfm.ReverseTranslate(srcVal)"},
		{"wrapDecodeTranslateErr", "transformingDecoder", "Decode", ".TranslateType", "tfm.TranslateType()"},
		{"wrapDecodeInnerErr", "transformingDecoder", "Decode", ".inner.Decode", "t.inner.Decode(reader, innerTyp)"},
		{"wrapDecodeReverseErr", "transformingDecoder", "Decode", ".ReverseTranslate", "tfm.ReverseTranslate(srcVal)"},
		{"wrapWatchTranslateErr", "transformingSourceWithWatch", "Watch", ".TranslateType", "tfm.TranslateType()"},
		{"wrapWatchInnerErr", "transformingSourceWithWatch", "Watch", ".src.Watch", "t.src.Watch(ctx, innerTyp, &wrappedCB)"},
	}
	order := map[string][]int{}
	for _, s := range steps {
		rule := "none"
		idx := -1
		if m := method(f, s.recv, s.meth); m != nil {
			var ev string
			var chk *ast.IfStmt
			ev, chk, idx = callAndCheck(m.Body, s.callee)
			if idx >= 0 {
				rule = errRule(ev, chk)
			}
		}
		if idx < 0 {
			miss("F16b", fmt.Sprintf("sourcewrap: (%s).%s: call %s", s.recv, s.meth, s.what))
		}
		order[s.recv+"."+s.meth] = append(order[s.recv+"."+s.meth], idx)
		emit("/-- F16b: (%s).%s: error of `%s` — `some p`: returned with prefix p; `none`: not returned -/\ndef %s : Option String := %s\n\n",
			s.recv, s.meth, s.what, s.lean, rule)
	}
	inOrder := true
	for _, idxs := range order {
		for i := 1; i < len(idxs); i++ {
			if idxs[i-1] < 0 || idxs[i] <= idxs[i-1] {
				inOrder = false
			}
		}
	}
	if !inOrder {
		miss("F16b-order", "sourcewrap: translate, then inner call, then reverse-translate, in this order")
	}
	emit("/-- F16b: the wrappers call TranslateType, then the inner source/decoder/watcher, then ReverseTranslate, in this order -/\ndef wrapStepsInOrder : Bool := %v\n\n", inOrder)
	// the inner call is made on the translated type: innerTyp := dials.NewType(<result of TranslateType>)
	translated := 0
	for _, rm := range [][3]string{{"transformingSourceNoWatch", "Value", ".src.Value"}, {"transformingDecoder", "Decode", ".inner.Decode"}, {"transformingSourceWithWatch", "Watch", ".src.Watch"}} {
		m := method(f, rm[0], rm[1])
		if m == nil || m.Body == nil {
			continue
		}
		tvar, okNew, okArg := "", false, false
		for _, st := range m.Body.List {
			as, ok := st.(*ast.AssignStmt)
			if !ok || len(as.Rhs) != 1 {
				continue
			}
			r := src(as.Rhs[0])
			if strings.HasSuffix(r, ".TranslateType()") && len(as.Lhs) == 2 {
				tvar = src(as.Lhs[0])
			}
			if tvar != "" && r == "dials.NewType("+tvar+")" && src(as.Lhs[0]) == "innerTyp" {
				okNew = true
			}
		}
		ast.Inspect(m.Body, func(n ast.Node) bool {
			if ce, ok := n.(*ast.CallExpr); ok && strings.HasSuffix(src(ce.Fun), rm[2]) && len(ce.Args) >= 2 && src(ce.Args[1]) == "innerTyp" {
				okArg = true
			}
			return true
		})
		if okNew && okArg {
			translated++
		}
	}
	if translated != 3 {
		miss("F16f", "sourcewrap: the inner Value / Decode / Watch is called with innerTyp := dials.NewType(<translated type>)")
	}
	emit("/-- F16f: the inner source / decoder / watcher is called with the translated type -/\ndef wrapInnerGetsTranslatedType : Bool := %v\n\n", translated == 3)
	// the inner watcher gets the wrapped args (not the raw ones)
	passesWrapped := false
	if m := method(f, "transformingSourceWithWatch", "Watch"); m != nil && m.Body != nil {
		wrappedVar := ""
		for _, st := range m.Body.List {
			if as, ok := st.(*ast.AssignStmt); ok && len(as.Rhs) == 1 && len(as.Lhs) == 1 {
				r := src(as.Rhs[0])
				if strings.HasPrefix(r, "wrappedWatchArgs{") && strings.Contains(r, "WatchArgs: args") && strings.Contains(r, "tfm: tfm") {
					wrappedVar = src(as.Lhs[0])
				}
			}
		}
		ast.Inspect(m.Body, func(n ast.Node) bool {
			if ce, ok := n.(*ast.CallExpr); ok && strings.HasSuffix(src(ce.Fun), ".src.Watch") && len(ce.Args) == 3 && wrappedVar != "" {
				if src(ce.Args[2]) == "&"+wrappedVar && src(ce.Args[1]) == "innerTyp" {
					passesWrapped = true
				}
			}
			return true
		})
	}
	if !passesWrapped {
		miss("F16e", "transformingSourceWithWatch.Watch: the inner watcher is given `&wrappedWatchArgs{WatchArgs: args, tfm: tfm}` and the translated type")
	}
	emit("/-- F16e: the inner watcher is handed the wrapping WatchArgs and the translated type -/\ndef wrapWatchPassesWrappedArgs : Bool := %v\n\n", passesWrapped)
}

// F18: statement structure of sourcewrap.Blank (Value, Watch, SetSource, Done)
func factBlank() {
	f := parse("sourcewrap/blank.go")
	nonNilErrReturn := func(body *ast.BlockStmt) bool {
		if body == nil || len(body.List) == 0 {
			return false
		}
		rs, ok := body.List[len(body.List)-1].(*ast.ReturnStmt)
		return ok && len(rs.Results) == 1 && src(rs.Results[0]) != "nil"
	}

	// Value delegates when inner != nil
	delegates := false
	if m := method(f, "Blank", "Value"); m != nil && m.Body != nil {
		for _, st := range m.Body.List {
			if is, ok := st.(*ast.IfStmt); ok && src(is.Cond) == "inner != nil" && len(is.Body.List) == 1 {
				if strings.HasPrefix(src(is.Body.List[0]), "return inner.Value(ctx, t)") {
					delegates = true
				}
			}
		}
	}
	if !delegates {
		miss("F18a", "Blank.Value: `if inner != nil { return inner.Value(ctx, t) }`")
	}
	emit("/-- F18a: Blank.Value returns the inner source's Value when an inner source is set -/\ndef blankValueDelegates : Bool := %v\n\n", delegates)

	// Watch refuses a second use
	once := false
	if m := method(f, "Blank", "Watch"); m != nil && m.Body != nil {
		guardIdx, setIdx := -1, -1
		for i, st := range m.Body.List {
			if is, ok := st.(*ast.IfStmt); ok && src(is.Cond) == "b.t != nil" && nonNilErrReturn(is.Body) {
				guardIdx = i
			}
			if s := src(st); s == "b.t = t" || s == "b.wa = wa" {
				if setIdx < 0 {
					setIdx = i
				}
			}
		}
		once = guardIdx >= 0 && setIdx > guardIdx
	}
	emit("/-- F18b: Blank.Watch fails when the Blank already has a type (was already used) -/\ndef blankWatchOnce : Bool := %v\n\n", once)

	// SetSource
	refuse, valueRule, reportRule, watchRule := false, "none", "none", "none"
	reportMethod := ""
	assignPos := 4
	nilRefused := false
	if m := method(f, "Blank", "SetSource"); m != nil && m.Body != nil {
		idxRefuse, idxValue, idxAssign, idxReport, idxWatch := -1, -1, -1, -1, -1
		for i, st := range m.Body.List {
			switch x := st.(type) {
			case *ast.IfStmt:
				c := src(x.Cond)
				if c == "s == nil" && nonNilErrReturn(x.Body) && i == 0 {
					nilRefused = true
				}
				if c == "b.inner != nil" && len(x.Body.List) == 1 {
					if in, ok := x.Body.List[0].(*ast.IfStmt); ok && in.Init != nil &&
						strings.HasSuffix(src(in.Init), ":= b.inner.(dials.Watcher)") && src(in.Cond) == "isWatcher" && nonNilErrReturn(in.Body) {
						idxRefuse = i
					}
				}
				if x.Init != nil {
					in := src(x.Init)
					if strings.Contains(in, ":= b.wa.") && strings.HasSuffix(in, "(ctx, v)") {
						as := x.Init.(*ast.AssignStmt)
						reportMethod = strings.TrimPrefix(src(as.Rhs[0].(*ast.CallExpr).Fun), "b.wa.")
						reportRule = errRule(src(as.Lhs[0]), x)
						idxReport = i
					}
					if strings.HasSuffix(in, ":= s.(dials.Watcher)") && src(x.Cond) == "ok" {
						ev, chk, wi := callAndCheck(x.Body, ".Watch")
						if wi >= 0 {
							ce := x.Body.List[wi].(*ast.AssignStmt).Rhs[0].(*ast.CallExpr)
							if len(ce.Args) == 3 && src(ce.Args[0]) == "b.watchCtx" && src(ce.Args[1]) == "b.t" && src(ce.Args[2]) == "b.wa" {
								idxWatch = i
								watchRule = errRule(ev, chk)
							}
						}
					}
				}
			case *ast.AssignStmt:
				if len(x.Rhs) == 1 && src(x.Rhs[0]) == "s.Value(ctx, b.t)" {
					idxValue = i
					if i+1 < len(m.Body.List) {
						chk, _ := m.Body.List[i+1].(*ast.IfStmt)
						valueRule = errRule(src(x.Lhs[len(x.Lhs)-1]), chk)
					}
				}
				if src(x) == "b.inner = s" {
					idxAssign = i
				}
			}
		}
		refuse = idxRefuse >= 0 && idxValue > idxRefuse
		last := len(m.Body.List) - 1
		endsNil := last >= 0 && src(m.Body.List[last]) == "return nil"
		if idxValue < 0 || idxReport < idxValue || idxWatch < idxReport || !endsNil {
			miss("F18c", "Blank.SetSource: `v, err := s.Value(ctx, b.t)` … `b.wa.<Report>(ctx, v)` … `if w, ok := s.(dials.Watcher); ok { w.Watch(b.watchCtx, b.t, b.wa) }` … `return nil`")
		} else {
			switch {
			case idxAssign < 0:
				assignPos = 4
			case idxAssign < idxValue:
				assignPos = 0
			case idxAssign < idxReport:
				assignPos = 1
			case idxAssign < idxWatch:
				assignPos = 2
			default:
				assignPos = 3
			}
		}
		if idxAssign < 0 {
			miss("F18d", "Blank.SetSource: `b.inner = s`")
		}
	} else {
		miss("F18c", "Blank.SetSource")
	}
	emit("/-- F18c: Blank.SetSource rejects a nil source first -/\ndef blankNilRefused : Bool := %v\n\n", nilRefused)
	emit("/-- F18e: Blank.SetSource returns an error, before calling anything, when the current inner source is a Watcher -/\ndef blankRefusesWatcher : Bool := %v\n\n", refuse)
	emit("/-- F18f: error of `s.Value(ctx, b.t)` in SetSource -/\ndef blankValueErr : Option String := %s\n\n", valueRule)
	emit("/-- F18d: where `b.inner = s` stands in SetSource: 0 before the Value call, 1 between the Value check and the report\n(the code as found), 2 between the report check and Watch, 3 after Watch, 4 absent -/\ndef blankAssignPos : Nat := %d\n\n", assignPos)
	emit("/-- F18g: the WatchArgs method SetSource reports the new value with -/\ndef blankReportMethod : String := %s\n\n", leanStr(reportMethod))
	emit("/-- F18h: error of that report in SetSource -/\ndef blankReportErr : Option String := %s\n\n", reportRule)
	emit("/-- F18i: error of `w.Watch(b.watchCtx, b.t, b.wa)` in SetSource -/\ndef blankWatchErr : Option String := %s\n\n", watchRule)

	// Done: returns early for a Watcher inner (type switch) and for nil watch args, then forwards
	chkWatcher, chkNil, forwards := false, false, false
	if m := method(f, "Blank", "Done"); m != nil && m.Body != nil {
		iW, iN, iF := -1, -1, -1
		for i, st := range m.Body.List {
			switch x := st.(type) {
			case *ast.TypeSwitchStmt:
				if src(x.Assign) == "b.inner.(type)" {
					for _, c := range x.Body.List {
						cc := c.(*ast.CaseClause)
						if len(cc.List) == 1 && src(cc.List[0]) == "dials.Watcher" && len(cc.Body) == 1 && src(cc.Body[0]) == "return" {
							iW = i
						}
					}
				}
			case *ast.IfStmt:
				if src(x.Cond) == "b.wa == nil" && len(x.Body.List) == 1 && src(x.Body.List[0]) == "return" {
					iN = i
				}
			case *ast.ExprStmt:
				if src(x.X) == "b.wa.Done(ctx)" {
					iF = i
				}
			}
		}
		forwards = iF >= 0
		chkWatcher = iW >= 0 && iW < iF
		chkNil = iN >= 0 && iN < iF
	}
	if !forwards {
		miss("F18j", "Blank.Done: `b.wa.Done(ctx)`")
	}
	emit("/-- F18j: Blank.Done returns without forwarding when the inner source is a Watcher -/\ndef blankDoneChecksWatcher : Bool := %v\n\n", chkWatcher)
	emit("/-- F18k: Blank.Done returns without forwarding when Watch was never called (nil WatchArgs) -/\ndef blankDoneChecksNil : Bool := %v\n\n", chkNil)
}
