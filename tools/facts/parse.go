package main

import (
	"go/ast"
	"os"
	"strconv"
	"strings"
)

func init() { allFacts = append(allFacts, factParse) }

// F13: base / bitSize arguments of the strconv calls, the overflow checks, the element bit-size
// expression and the empty-input guard of the integral slice parsers
func factParse() {
	f := parse("parse/number.go")
	bits := map[string]string{}
	overflow := map[string]bool{}
	if fd := funcDecl(f, "parseNumber"); fd != nil {
		ast.Inspect(fd, func(n ast.Node) bool {
			ce, ok := n.(*ast.CallExpr)
			if !ok {
				return true
			}
			fn := src(ce.Fun)
			switch fn {
			case "strconv.ParseInt", "strconv.ParseUint":
				if len(ce.Args) == 3 && src(ce.Args[0]) == "strVal" {
					bits[fn] = src(ce.Args[1]) + "," + src(ce.Args[2])
				}
			case "convertTo.OverflowInt", "convertTo.OverflowUint", "convertTo.OverflowFloat", "convertTo.OverflowComplex":
				overflow[fn] = true
			}
			return true
		})
	}
	nb := "64"
	if bits["strconv.ParseInt"] != "0,64" || bits["strconv.ParseUint"] != "0,64" {
		miss("F13a", "parse/number.go: strconv.ParseInt(strVal, 0, 64) and strconv.ParseUint(strVal, 0, 64)")
		nb = "0"
	}
	if !overflow["convertTo.OverflowInt"] || !overflow["convertTo.OverflowUint"] || !overflow["convertTo.OverflowFloat"] {
		miss("F13b", "parse/number.go: OverflowInt / OverflowUint / OverflowFloat checks before narrowing")
	}
	emit("/-- F13a: bit size parseNumber passes to strconv.ParseInt/ParseUint (base 0) -/\ndef parseNumberBits : Nat := %s\n\n", nb)
	emit("/-- F13b: parseNumber checks Overflow{Int,Uint,Float} for the concrete type before narrowing -/\ndef parseNumberChecksOverflow : Bool := %v\n\n",
		overflow["convertTo.OverflowInt"] && overflow["convertTo.OverflowUint"] && overflow["convertTo.OverflowFloat"])

	g := parse("parse/integral_slice.go")
	okBits, okEmpty, okTrim := 0, 0, 0
	for _, name := range []string{"SignedIntegralSlice", "UnsignedIntegralSlice"} {
		fd := funcDecl(g, name)
		if fd == nil {
			continue
		}
		ast.Inspect(fd, func(n ast.Node) bool {
			switch x := n.(type) {
			case *ast.AssignStmt:
				if len(x.Lhs) == 1 && src(x.Lhs[0]) == "bitSize" && src(x.Rhs[0]) == "int(unsafe.Sizeof(I(0)) * 8)" {
					okBits++
				}
			case *ast.IfStmt:
				if src(x.Cond) == "len(s) == 0" && len(x.Body.List) == 1 && strings.HasPrefix(src(x.Body.List[0]), "return []I{}, nil") {
					okEmpty++
				}
			case *ast.CallExpr:
				fn := src(x.Fun)
				if (fn == "strconv.ParseInt" || fn == "strconv.ParseUint") && len(x.Args) == 3 &&
					src(x.Args[0]) == "strings.TrimSpace(p)" && src(x.Args[1]) == "0" && src(x.Args[2]) == "bitSize" {
					okTrim++
				}
			}
			return true
		})
	}
	if okBits != 2 || okTrim != 2 {
		miss("F13c", "parse/integral_slice.go: bitSize := int(unsafe.Sizeof(I(0)) * 8); strconv.Parse{Int,Uint}(strings.TrimSpace(p), 0, bitSize)")
	}
	emit("/-- F13c: the integral slice parsers parse each trimmed element with base 0 and the element's own bit size -/\ndef intSliceElementBits : Bool := %v\n\n", okBits == 2 && okTrim == 2)
	emit("/-- F13d: the integral slice parsers map the empty string to the empty slice (repaired defect D13a) -/\ndef intSliceEmptyOk : Bool := %v\n\n", okEmpty == 2)
}

func init() { allFacts = append(allFacts, factScanner) }

// F13s: how splitStringsSlice and splitMap configure text/scanner: the Mode, the loop condition and the custom
// IsIdentRune (deny list, allow list, "white space below ' '" test, unicode.IsPrint, false)
func factScanner() {
	type cfg struct{ deny, allow []string }
	get := func(rel, fn, id, cond string) cfg {
		var c cfg
		okMode, okLoop, okShape := false, false, false
		f := parse(rel)
		if fd := funcDecl(f, fn); fd != nil {
			ast.Inspect(fd, func(n ast.Node) bool {
				switch x := n.(type) {
				case *ast.AssignStmt:
					if len(x.Lhs) != 1 || len(x.Rhs) != 1 {
						return true
					}
					if src(x.Lhs[0]) == "sc.Mode" {
						// ScanInts / ScanFloats (splitMap) change nothing: Scan tests isIdentRune first and the custom
						// function accepts digits, '.', '+' and '-'
						mode := " " + src(x.Rhs[0]) + " "
						okMode = !strings.Contains(mode, "ScanComments")
						for _, w := range []string{"ScanStrings", "ScanRawStrings", "ScanIdents", "ScanChars"} {
							okMode = okMode && strings.Contains(mode, "scanner."+w+" ")
						}
					}
					fl, isFn := x.Rhs[0].(*ast.FuncLit)
					if src(x.Lhs[0]) != "sc.IsIdentRune" || !isFn || len(fl.Body.List) != 4 {
						return true
					}
					sw, isSw := fl.Body.List[0].(*ast.SwitchStmt)
					if !isSw || src(sw.Tag) != "ch" || len(sw.Body.List) != 3 {
						return true
					}
					lists := [2][]string{}
					for i := 0; i < 2; i++ {
						cc := sw.Body.List[i].(*ast.CaseClause)
						want := []string{"return false", "return true"}[i]
						if len(cc.Body) != 1 || src(cc.Body[0]) != want {
							return true
						}
						for _, e := range cc.List {
							bl, isLit := e.(*ast.BasicLit)
							if !isLit {
								return true
							}
							u, err := strconv.Unquote(bl.Value)
							if err != nil || len([]rune(u)) != 1 {
								return true
							}
							lists[i] = append(lists[i], strconv.Itoa(int([]rune(u)[0])))
						}
					}
					if d := sw.Body.List[2].(*ast.CaseClause); d.List != nil || len(d.Body) != 0 {
						return true
					}
					if os.Getenv("FACTS_DEBUG") != "" {
						println(src(fl.Body.List[1]), "|", src(fl.Body.List[2]), "|", src(fl.Body.List[3]))
					}
					if src(fl.Body.List[1]) == "if (ch < ' ' && ch >= 0) && (sc.Whitespace&(1<<ch) > 0) { return false }" &&
						src(fl.Body.List[2]) == "if unicode.IsPrint(ch) { return true }" && src(fl.Body.List[3]) == "return false" {
						okShape = true
						c.deny, c.allow = lists[0], lists[1]
					}
				case *ast.ForStmt:
					if x.Cond != nil && src(x.Cond) == cond && src(x.Init) == "tok := sc.Scan()" && src(x.Post) == "tok = sc.Scan()" {
						okLoop = true
					}
				}
				return true
			})
		}
		if !okMode || !okLoop || !okShape {
			miss(id, rel+": "+fn+": sc.Mode = ScanStrings|ScanRawStrings|ScanIdents|ScanChars; for tok := sc.Scan(); "+cond+"; tok = sc.Scan(); IsIdentRune = deny list / allow list / white-space test / unicode.IsPrint")
		}
		return c
	}
	s := get("parse/split_string_slice.go", "splitStringsSlice", "F13s-slice", "tok != scanner.EOF && sc.ErrorCount == 0")
	m := get("parse/split_map.go", "splitMap", "F13s-map", "sc.ErrorCount == 0") // EOF is a case inside the loop there
	emit("/-- F13s: code points the custom IsIdentRune of splitStringsSlice refuses / accepts outright -/\n")
	emit("def sliceIdentDeny : List Nat := [%s]\ndef sliceIdentAllow : List Nat := [%s]\n\n", strings.Join(s.deny, ", "), strings.Join(s.allow, ", "))
	emit("/-- F13s: the same two lists of splitMap (the colon is refused there) -/\n")
	emit("def mapIdentDeny : List Nat := [%s]\ndef mapIdentAllow : List Nat := [%s]\n\n", strings.Join(m.deny, ", "), strings.Join(m.allow, ", "))
}
