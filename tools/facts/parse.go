package main

import (
	"go/ast"
	"strings"
)

func init() { allFacts = append(allFacts, factParse) }

// F13: base / bitSize arguments of the strconv calls, the overflow checks, the element bit-size
// expression and the empty-input guard of the integral slice parsers
func factParse() {
	f := parse("parse/number.go")
	bits := map[string]string{}
	overflow := map[string]bool{}
	if fd := funcDecl(f, "parseNumber"); fd != nil {
		ast.Inspect(fd, func(n ast.Node) bool {
			ce, ok := n.(*ast.CallExpr)
			if !ok {
				return true
			}
			fn := src(ce.Fun)
			switch fn {
			case "strconv.ParseInt", "strconv.ParseUint":
				if len(ce.Args) == 3 && src(ce.Args[0]) == "strVal" {
					bits[fn] = src(ce.Args[1]) + "," + src(ce.Args[2])
				}
			case "convertTo.OverflowInt", "convertTo.OverflowUint", "convertTo.OverflowFloat", "convertTo.OverflowComplex":
				overflow[fn] = true
			}
			return true
		})
	}
	nb := "64"
	if bits["strconv.ParseInt"] != "0,64" || bits["strconv.ParseUint"] != "0,64" {
		miss("F13a", "parse/number.go: strconv.ParseInt(strVal, 0, 64) and strconv.ParseUint(strVal, 0, 64)")
		nb = "0"
	}
	if !overflow["convertTo.OverflowInt"] || !overflow["convertTo.OverflowUint"] || !overflow["convertTo.OverflowFloat"] {
		miss("F13b", "parse/number.go: OverflowInt / OverflowUint / OverflowFloat checks before narrowing")
	}
	emit("/-- F13a: bit size parseNumber passes to strconv.ParseInt/ParseUint (base 0) -/\ndef parseNumberBits : Nat := %s\n\n", nb)
	emit("/-- F13b: parseNumber checks Overflow{Int,Uint,Float} for the concrete type before narrowing -/\ndef parseNumberChecksOverflow : Bool := %v\n\n",
		overflow["convertTo.OverflowInt"] && overflow["convertTo.OverflowUint"] && overflow["convertTo.OverflowFloat"])

	g := parse("parse/integral_slice.go")
	okBits, okEmpty, okTrim := 0, 0, 0
	for _, name := range []string{"SignedIntegralSlice", "UnsignedIntegralSlice"} {
		fd := funcDecl(g, name)
		if fd == nil {
			continue
		}
		ast.Inspect(fd, func(n ast.Node) bool {
			switch x := n.(type) {
			case *ast.AssignStmt:
				if len(x.Lhs) == 1 && src(x.Lhs[0]) == "bitSize" && src(x.Rhs[0]) == "int(unsafe.Sizeof(I(0)) * 8)" {
					okBits++
				}
			case *ast.IfStmt:
				if src(x.Cond) == "len(s) == 0" && len(x.Body.List) == 1 && strings.HasPrefix(src(x.Body.List[0]), "return []I{}, nil") {
					okEmpty++
				}
			case *ast.CallExpr:
				fn := src(x.Fun)
				if (fn == "strconv.ParseInt" || fn == "strconv.ParseUint") && len(x.Args) == 3 &&
					src(x.Args[0]) == "strings.TrimSpace(p)" && src(x.Args[1]) == "0" && src(x.Args[2]) == "bitSize" {
					okTrim++
				}
			}
			return true
		})
	}
	if okBits != 2 || okTrim != 2 {
		miss("F13c", "parse/integral_slice.go: bitSize := int(unsafe.Sizeof(I(0)) * 8); strconv.Parse{Int,Uint}(strings.TrimSpace(p), 0, bitSize)")
	}
	emit("/-- F13c: the integral slice parsers parse each trimmed element with base 0 and the element's own bit size -/\ndef intSliceElementBits : Bool := %v\n\n", okBits == 2 && okTrim == 2)
	emit("/-- F13d: the integral slice parsers map the empty string to the empty slice (repaired defect D13a) -/\ndef intSliceEmptyOk : Bool := %v\n\n", okEmpty == 2)
}
