package main

import (
	"go/ast"
)

func init() { allFacts = append(allFacts, factEnvLookup) }

// factEnvLookup (F22): the environment source reads the environment through os.LookupEnv(name) only - one exact-name
// lookup per field, the value being the variable's bytes as they are (no snapshot of os.Environ() split by hand, no
// os.Getenv, which cannot tell an empty variable from an absent one).  The models of C11 / C14 / C18 take the
// environment as a partial map from names to values; this is where the code makes it one.
func factEnvLookup() {
	f := parse("sources/env/env.go")
	fd := methodDecl(f, "Source", "Value")
	lookups, others := 0, 0
	if fd != nil {
		ast.Inspect(fd, func(n ast.Node) bool {
			sel, ok := n.(*ast.SelectorExpr)
			if !ok {
				return true
			}
			if id, ok := sel.X.(*ast.Ident); ok && (id.Name == "os" || id.Name == "syscall") {
				switch sel.Sel.Name {
				case "LookupEnv":
					lookups++
				case "Environ", "Getenv", "ExpandEnv", "Expand", "Clearenv", "Setenv", "Unsetenv":
					others++
				}
			}
			return true
		})
	} else {
		miss("F22", "sources/env/env.go: method (*Source).Value")
	}
	emit("/-- F22: env.Source.Value reads the environment through os.LookupEnv only -/\ndef envLookupCalls : Nat := %d\ndef envOtherReads : Nat := %d\n\n", lookups, others)
}
