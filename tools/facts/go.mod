module verif/facts

go 1.18
