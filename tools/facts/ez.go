package main

import (
	"fmt"
	"go/ast"
	"go/token"
	"strings"
)

func init() {
	allFacts = append(allFacts, factEz, factEzFileChain)
}

// F19: the script of ez.ConfigFileEnvFlagDecoderFactoryParams
//
//   - the dials.Params literal (DelayInitialVerification, CallGlobalCallbacksAfterVerificationEnabled,
//     SkipInitialVerification, and whether the two global callbacks are passed through),
//   - the order of the sources handed to Params.Config and the source SetSource is called on,
//   - the order of the library calls of the function body (main path and the `!filepathSet` branch),
//   - which of those calls have their error checked by an immediate `return nil, …`.
func factEz() {
	f := parse("ez/ez.go")
	fd := funcDecl(f, "ConfigFileEnvFlagDecoderFactoryParams")

	boolField := map[string]string{}
	passField := map[string]bool{}
	foundParams := false
	var sources []string
	foundConfig := false
	setOn := ""
	pathOnView := false
	var mainOps, noFileOps, checked, noFileChecked []string
	deferDone := false

	classifySrc := func(e ast.Expr) string {
		switch src(e) {
		case "&blank":
			return "blank"
		case "&env.Source{}":
			return "env"
		case "flagSrc":
			return "flag"
		}
		return "other"
	}

	// token of a call / receive expression, "" if it is not one of the script's operations
	tokOf := func(n ast.Node) string {
		switch x := n.(type) {
		case *ast.UnaryExpr:
			if x.Op == token.ARROW {
				if ce, ok := x.X.(*ast.CallExpr); ok && src(ce.Fun) == "d.Events" {
					return "drain"
				}
			}
		case *ast.CallExpr:
			fn := src(x.Fun)
			switch {
			case fn == "dp.Config":
				foundConfig = true
				sources = nil
				if len(x.Args) >= 2 {
					for _, a := range x.Args[2:] {
						sources = append(sources, classifySrc(a))
					}
				}
				return "config"
			case fn == "d.View":
				return "view"
			case strings.HasSuffix(fn, ".ConfigPath"):
				// the receiver must be the config read back from the Dials (basecfg := d.View())
				if src(x.Fun) == "(TP)(basecfg).ConfigPath" {
					pathOnView = true
				}
				return "configPath"
			case fn == "df":
				return "decoder"
			case fn == "fileSource":
				return "fileSource"
			case strings.HasSuffix(fn, ".SetSource"):
				setOn = strings.TrimSuffix(fn, ".SetSource")
				return "setSource"
			case fn == "d.EnableVerification":
				return "enable"
			}
		}
		return ""
	}

	returnsNilFirst := func(b *ast.BlockStmt) bool {
		if b == nil {
			return false
		}
		for _, st := range b.List {
			if rs, ok := st.(*ast.ReturnStmt); ok && len(rs.Results) == 2 && src(rs.Results[0]) == "nil" && src(rs.Results[1]) != "nil" {
				return true
			}
		}
		return false
	}
	// does `is` test variable v (v != nil, or v == nil for the decoder) and return (nil, err)?
	checks := func(is *ast.IfStmt, v string, op token.Token) bool {
		be, ok := is.Cond.(*ast.BinaryExpr)
		if !ok || be.Op != op || src(be.X) != v || src(be.Y) != "nil" {
			return false
		}
		return returnsNilFirst(is.Body)
	}
	lastLHS := func(as *ast.AssignStmt) string {
		if as == nil || len(as.Lhs) == 0 {
			return ""
		}
		return src(as.Lhs[len(as.Lhs)-1])
	}

	var walk func(list []ast.Stmt, into, chk *[]string)
	walk = func(list []ast.Stmt, into, chk *[]string) {
		for i, st := range list {
			if is, ok := st.(*ast.IfStmt); ok {
				c := src(is.Cond)
				if c == "!filepathSet" {
					walk(is.Body.List, &noFileOps, &noFileChecked)
					continue
				}
				if c == "!params.WatchConfigFile" {
					for _, b := range is.Body.List {
						if ds, ok := b.(*ast.DeferStmt); ok && src(ds.Call.Fun) == "blank.Done" {
							deferDone = true
							*into = append(*into, "deferDone")
						}
					}
					continue
				}
			}
			// operations of this statement in source order (the body of a checking `if` holds only the return)
			var toks []string
			ast.Inspect(st, func(n ast.Node) bool {
				if n == nil {
					return true
				}
				if t := tokOf(n); t != "" {
					toks = append(toks, t)
				}
				return true
			})
			*into = append(*into, toks...)
			if len(toks) == 0 {
				continue
			}
			t := toks[len(toks)-1]
			// is the operation's error checked?
			switch x := st.(type) {
			case *ast.AssignStmt:
				v := lastLHS(x)
				op := token.NEQ
				if t == "decoder" {
					op = token.EQL
				}
				if i+1 < len(list) {
					if is, ok := list[i+1].(*ast.IfStmt); ok && is.Init == nil && checks(is, v, op) {
						*chk = append(*chk, t)
					}
				}
			case *ast.IfStmt:
				if as, ok := x.Init.(*ast.AssignStmt); ok && checks(x, lastLHS(as), token.NEQ) {
					*chk = append(*chk, t)
				}
			}
		}
	}

	if fd != nil && fd.Body != nil {
		// the dials.Params literal
		ast.Inspect(fd, func(n ast.Node) bool {
			cl, ok := n.(*ast.CompositeLit)
			if !ok || !strings.HasPrefix(src(cl.Type), "dials.Params") {
				return true
			}
			foundParams = true
			for _, el := range cl.Elts {
				kv, ok := el.(*ast.KeyValueExpr)
				if !ok {
					continue
				}
				k, v := src(kv.Key), src(kv.Value)
				if v == "true" || v == "false" {
					boolField[k] = v
				}
				if v == "params."+k {
					passField[k] = true
				}
			}
			return false
		})
		walk(fd.Body.List, &mainOps, &checked)
	}
	if !foundParams {
		miss("F19a", "ez/ez.go ConfigFileEnvFlagDecoderFactoryParams: dials.Params[T]{…} literal")
	}
	if !foundConfig {
		miss("F19b", "ez/ez.go ConfigFileEnvFlagDecoderFactoryParams: dp.Config(ctx, cfg, <sources…>)")
	}
	if setOn == "" {
		miss("F19c", "ez/ez.go ConfigFileEnvFlagDecoderFactoryParams: <source>.SetSource(ctx, fileSrc)")
	}
	if !pathOnView {
		miss("F19g", "ez/ez.go ConfigFileEnvFlagDecoderFactoryParams: `(TP)(basecfg).ConfigPath()` (ConfigPath evaluated on the view of the file-less stack)")
	}
	if !deferDone {
		miss("F19d", "ez/ez.go ConfigFileEnvFlagDecoderFactoryParams: `if !params.WatchConfigFile { defer blank.Done(ctx) }`")
	}
	b := func(k string) string {
		if v, ok := boolField[k]; ok {
			return v
		}
		return "false"
	}
	pb := func(k string) string {
		if passField[k] {
			return "true"
		}
		return "false"
	}
	ctor := func(xs []string) string {
		o := make([]string, len(xs))
		for i, x := range xs {
			o[i] = "." + x
		}
		return "[" + strings.Join(o, ", ") + "]"
	}
	on := "other"
	if setOn == "blank" {
		on = "blank"
	}
	emit("/-- F19: operations of ez.ConfigFileEnvFlagDecoderFactoryParams -/\n")
	emit("inductive EzTok where\n  | config | deferDone | view | configPath | decoder | fileSource | setSource | enable | drain\nderiving Repr, DecidableEq, Inhabited\n\n")
	emit("/-- F19: the kinds of sources ez hands to Params.Config -/\n")
	emit("inductive EzSrc where\n  | blank | env | flag | other\nderiving Repr, DecidableEq, Inhabited\n\n")
	emit("/-- F19a: `DelayInitialVerification` of the dials.Params literal in ez.go -/\ndef ezDelay : Bool := %s\n\n", b("DelayInitialVerification"))
	emit("/-- F19a: `CallGlobalCallbacksAfterVerificationEnabled` of the dials.Params literal in ez.go -/\ndef ezSuppress : Bool := %s\n\n", b("CallGlobalCallbacksAfterVerificationEnabled"))
	emit("/-- F19a: `SkipInitialVerification` of the dials.Params literal in ez.go -/\ndef ezSkipInitial : Bool := %s\n\n", b("SkipInitialVerification"))
	emit("/-- F19a: `OnNewConfig: params.OnNewConfig` is passed through -/\ndef ezPassOnNew : Bool := %s\n\n", pb("OnNewConfig"))
	emit("/-- F19a: `OnWatchedError: params.OnWatchedError` is passed through -/\ndef ezPassOnErr : Bool := %s\n\n", pb("OnWatchedError"))
	emit("/-- F19b: the sources handed to dp.Config, lowest precedence first -/\ndef ezSources : List EzSrc := %s\n\n", ctor(sources))
	emit("/-- F19c: the source whose SetSource receives the file source -/\ndef ezSetSourceOn : EzSrc := .%s\n\n", on)
	emit("/-- F19e: library operations of the main path, in statement order -/\ndef ezMainOps : List EzTok := %s\n\n", ctor(mainOps))
	emit("/-- F19e: library operations of the `!filepathSet` branch -/\ndef ezNoFileOps : List EzTok := %s\n\n", ctor(noFileOps))
	emit("/-- F19f: operations of the main path whose failure is returned at once (`return nil, err`) -/\ndef ezChecked : List EzTok := %s\n\n", ctor(checked))
	emit("/-- F19f: operations of the `!filepathSet` branch whose failure is returned at once -/\ndef ezNoFileChecked : List EzTok := %s\n\n", ctor(noFileChecked))
}

// factEzFileChain (F12ez): the manglers ez wraps around the file decoder, in the order of the
// `manglers = append(manglers, …)` statements of ConfigFileEnvFlagDecoderFactoryParams ("?" marks an optional one,
// appended inside an `if`).  The alias mangler has to come first: the reformatting mangler that follows it rewrites
// the `dials` tag of BOTH copies of an aliased field, so the alias is looked up in the file's naming convention too.
func factEzFileChain() {
	f := parse("ez/ez.go")
	var chain []string
	if fd := funcDecl(f, "ConfigFileEnvFlagDecoderFactoryParams"); fd != nil {
		var walk func(list []ast.Stmt, optional bool)
		walk = func(list []ast.Stmt, optional bool) {
			for _, st := range list {
				switch x := st.(type) {
				case *ast.AssignStmt:
					if len(x.Lhs) == 1 && src(x.Lhs[0]) == "manglers" && len(x.Rhs) == 1 && strings.HasPrefix(src(x.Rhs[0]), "append(") {
						r := src(x.Rhs[0])
						name := "other"
						switch {
						case strings.Contains(r, "NewAliasMangler"):
							name = "alias"
						case strings.Contains(r, "NewTagReformattingMangler"):
							name = "reformat"
						case strings.Contains(r, "SetSliceMangler"):
							name = "setslice"
						case strings.Contains(r, "AnonymousFlattenMangler"):
							name = "anonflatten"
						}
						if optional {
							name += "?"
						}
						chain = append(chain, name)
					}
				case *ast.IfStmt:
					walk(x.Body.List, true)
				case *ast.BlockStmt:
					walk(x.List, optional)
				}
			}
		}
		walk(fd.Body.List, false)
	}
	if len(chain) == 0 {
		miss("F12ez", "ez/ez.go ConfigFileEnvFlagDecoderFactoryParams: `manglers = append(manglers, …)` statements")
		chain = []string{"alias", "reformat?", "setslice?"}
	}
	q := make([]string, len(chain))
	for i, c := range chain {
		q[i] = fmt.Sprintf("%q", c)
	}
	emit("/-- F12ez: the manglers ez wraps around the file decoder, in order (`?` = appended under an option) -/\ndef ezFileChain : List String := [%s]\n\n", strings.Join(q, ", "))
}
