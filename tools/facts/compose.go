package main

import (
	"go/ast"
	"strings"
)

func init() { allFacts = append(allFacts, factCompose) }

// F8: the copy structure of compose and Config
func factCompose() {
	f := parse("dials.go")
	copiesDefaults, copiesSources, freshCopier, overlayOnCopy, configCopies := false, false, false, false, false
	if fd := funcDecl(f, "compose"); fd != nil {
		var copyVar string
		ast.Inspect(fd, func(n ast.Node) bool {
			switch x := n.(type) {
			case *ast.AssignStmt:
				if len(x.Lhs) == 1 && len(x.Rhs) == 1 {
					r := src(x.Rhs[0])
					if r == "realDeepCopy(t)" {
						copiesDefaults = true
						copyVar = src(x.Lhs[0])
					}
					if r == "copyValuePtr.Elem()" && copyVar == "copyValuePtr" && src(x.Lhs[0]) == "value" {
						overlayOnCopy = true
					}
				}
			case *ast.RangeStmt:
				if src(x.X) != "sources" {
					return true
				}
				hasNew, hasCopy, hasOverlay := false, false, false
				ast.Inspect(x.Body, func(m ast.Node) bool {
					switch y := m.(type) {
					case *ast.AssignStmt:
						if len(y.Rhs) == 1 {
							r := src(y.Rhs[0])
							if r == "newOverlayer()" && src(y.Lhs[0]) == "o" {
								hasNew = true
							}
							if r == "o.dc.deepCopyValue(s)" && src(y.Lhs[0]) == "sv" {
								hasCopy = true
							}
							if strings.HasPrefix(r, "o.overlayStruct(value, sv)") {
								hasOverlay = true
							}
						}
					}
					return true
				})
				freshCopier = hasNew
				copiesSources = hasCopy && hasOverlay
			}
			return true
		})
	}
	if fd := funcDecl(f, "Config"); fd != nil && fd.Recv != nil {
		ast.Inspect(fd, func(n ast.Node) bool {
			if as, ok := n.(*ast.AssignStmt); ok && len(as.Rhs) == 1 && src(as.Rhs[0]) == "realDeepCopy(t)" && src(as.Lhs[0]) == "tVal" {
				configCopies = true
			}
			return true
		})
	}
	if !copiesDefaults || !overlayOnCopy {
		miss("F8a", "dials.go compose: `copyValuePtr := realDeepCopy(t); value := copyValuePtr.Elem()`")
	}
	if !copiesSources {
		miss("F8b", "dials.go compose: per source `sv := o.dc.deepCopyValue(s)` then `o.overlayStruct(value, sv)`")
	}
	if !freshCopier {
		miss("F8c", "dials.go compose: `o := newOverlayer()` inside the loop over sources")
	}
	if !configCopies {
		miss("F8d", "dials.go Config: `tVal := realDeepCopy(t)`")
	}
	emit("/-- F8a: compose overlays onto a deep copy of the defaults -/\ndef composeCopiesDefaults : Bool := %v\n\n", copiesDefaults && overlayOnCopy)
	emit("/-- F8b: compose deep-copies every source value before overlaying it -/\ndef composeCopiesSources : Bool := %v\n\n", copiesSources)
	emit("/-- F8c: every source value gets its own copier (fresh memo) -/\ndef composeFreshCopier : Bool := %v\n\n", freshCopier)
	emit("/-- F8d: Config deep-copies the caller's defaults before using them -/\ndef configCopiesDefaults : Bool := %v\n\n", configCopies)
}
