package main

import (
	"go/ast"
	"strings"
)

func init() { allFacts = append(allFacts, factTotal) }

// callsIn collects the printed form of every call expression inside a node.
func callsIn(n ast.Node) []string {
	var out []string
	if n == nil {
		return out
	}
	ast.Inspect(n, func(x ast.Node) bool {
		if ce, ok := x.(*ast.CallExpr); ok {
			out = append(out, src(ce))
		}
		return true
	})
	return out
}

func anyContains(ss []string, sub string) bool {
	for _, s := range ss {
		if strings.Contains(s, sub) {
			return true
		}
	}
	return false
}

// F21: the guard sites of the panic catalogue of Props/C16.lean — the checks and conversions that keep
// reflect's Set / Append / SetMapIndex / Elem / IsNil and the indexings vs[i] / fvs[0] from panicking.
// Each is a syntactic pattern; a repair that is reverted (or a guard that is removed) makes the fact false
// or missing, which breaks `C16_guard_facts`.
func factTotal() {
	// --- parse/parse_string.go String, case reflect.Slice ---
	ps := parse("parse/parse_string.go")
	elemGuard, convElem := false, false
	if fd := funcDecl(ps, "String"); fd != nil {
		ast.Inspect(fd, func(n ast.Node) bool {
			cc, ok := n.(*ast.CaseClause)
			if !ok || len(cc.List) != 1 || src(cc.List[0]) != "reflect.Slice" {
				return true
			}
			for _, st := range cc.Body {
				ast.Inspect(st, func(m ast.Node) bool {
					switch x := m.(type) {
					case *ast.IfStmt:
						if src(x.Cond) == "castVal.Kind() == reflect.Ptr" && len(x.Body.List) == 1 && src(x.Body.List[0]) == "castVal = castVal.Elem()" {
							elemGuard = true
						}
					case *ast.CallExpr:
						if src(x.Fun) == "reflect.Append" && len(x.Args) == 2 && src(x.Args[1]) == "castVal.Convert(t.Elem())" {
							convElem = true
						}
					}
					return true
				})
			}
			return false
		})
	}
	if !elemGuard {
		miss("F21a", "parse/parse_string.go String, slice case: `if castVal.Kind() == reflect.Ptr { castVal = castVal.Elem() }` (nested slices and maps come back as themselves: repair 3157480)")
	}
	if !convElem {
		miss("F21b", "parse/parse_string.go String, slice case: `reflect.Append(castSlice, castVal.Convert(t.Elem()))` (user-defined element types: repair e45e64f)")
	}
	emit("/-- F21a: parse.String dereferences an element only when it came back as a pointer (nested slices / maps: repaired defect D19) -/\ndef parseStringElemGuard : Bool := %v\n\n", elemGuard)
	emit("/-- F21b: parse.String converts each element to the slice's own element type before Append (user-defined element types: repaired defect D8) -/\ndef parseStringConvertsElem : Bool := %v\n\n", convElem)

	// --- parse/map.go Map ---
	pm := parse("parse/map.go")
	convKey, convVal, dupCheck := false, false, false
	if fd := funcDecl(pm, "Map"); fd != nil {
		calls := callsIn(fd)
		convKey = anyContains(calls, "newKeyCast.Elem().Convert(keyType)")
		convVal = anyContains(calls, "m.SetMapIndex(newKey, newValCast.Elem().Convert(valType))")
		ast.Inspect(fd, func(n ast.Node) bool {
			if is, ok := n.(*ast.IfStmt); ok && src(is.Cond) == "val.IsValid()" {
				dupCheck = true
			}
			return true
		})
	}
	if !convKey || !convVal {
		miss("F21c", "parse/map.go Map: key and value converted to the map's own key / value types before MapIndex / SetMapIndex (repair e45e64f)")
	}
	emit("/-- F21c: parse.Map converts the cast key and value to the map's key / value types before MapIndex / SetMapIndex (repaired defect D8) -/\ndef parseMapConverts : Bool := %v\n\n", convKey && convVal)
	emit("/-- F21d: parse.Map rejects a duplicate key (MapIndex valid) with an error -/\ndef parseMapDupCheck : Bool := %v\n\n", dupCheck)

	// --- transform/string_casting_mangler.go Unmangle ---
	sc := parse("transform/string_casting_mangler.go")
	convField, nilReturn := false, false
	if fd := methodDecl(sc, "StringCastingMangler", "Unmangle"); fd != nil {
		ast.Inspect(fd, func(n ast.Node) bool {
			is, ok := n.(*ast.IfStmt)
			if !ok {
				return true
			}
			c := src(is.Cond)
			if strings.Contains(c, "parsed.Type().ConvertibleTo(sf.Type)") && len(is.Body.List) == 1 && src(is.Body.List[0]) == "parsed = parsed.Convert(sf.Type)" {
				convField = true
			}
			if c == "strPtrInterface == nilStrPtr" && len(is.Body.List) == 1 && strings.HasPrefix(src(is.Body.List[0]), "return reflect.Zero(sf.Type), nil") {
				nilReturn = true
			}
			return true
		})
	}
	if !convField {
		miss("F21e", "transform/string_casting_mangler.go Unmangle: `if … parsed.Type().ConvertibleTo(sf.Type) { parsed = parsed.Convert(sf.Type) }` (user-defined field types: repair e45e64f)")
	}
	if !nilReturn {
		miss("F21f", "transform/string_casting_mangler.go Unmangle: unset *string returns reflect.Zero(sf.Type) before any dereference")
	}
	emit("/-- F21e: the string-cast mangler converts the parsed value to the field's own type when convertible (repaired defect D8) -/\ndef stringCastConverts : Bool := %v\n\n", convField)
	emit("/-- F21f: the string-cast mangler returns the zero value for an unset *string before dereferencing it -/\ndef stringCastNilGuard : Bool := %v\n\n", nilReturn)

	// --- transform/flatten_mangler.go populateStruct / Unmangle / Mangle ---
	fm := parse("transform/flatten_mangler.go")
	rebuild, assignable, canSet := false, false, 0
	leafAssignable, valueStruct := false, false
	nilGuards := 0
	if fd := funcDecl(fm, "populateStruct"); fd != nil {
		ast.Inspect(fd, func(n ast.Node) bool {
			switch x := n.(type) {
			case *ast.ForStmt:
				// every declared pointer level is allocated with its declared pointee type and converted to the declared
				// (possibly named) pointer type: **T (repair 6055e5a) and *P with `type P *T` (repair of P03)
				calls := callsIn(x.Body)
				if anyContains(calls, "reflect.New(ptrTypes[i].Elem())") && anyContains(calls, "setVal.Convert(ptrTypes[i])") {
					rebuild = true
				}
			case *ast.IfStmt:
				c := src(x.Cond)
				if c == "!vs[inputIndex].Value.Type().AssignableTo(nestedVal.Type())" {
					assignable = true
				}
				if c == "!val.Type().AssignableTo(originalVal.Type())" {
					leafAssignable = true
				}
				if c == "len(ptrTypes) == 0" && len(x.Body.List) == 1 && src(x.Body.List[0]) == "setVal = setVal.Elem()" {
					valueStruct = true
				}
				if c == "!isNil(vs[inputIndex].Value)" || c == "!isNil(val)" {
					if anyContains(callsIn(x.Body), ".Set(") {
						nilGuards++
					}
				}
				if c == "!originalVal.CanSet()" || c == "!nestedVal.CanSet()" {
					canSet++
				}
			}
			return true
		})
	}
	if !rebuild {
		miss("F21g", "transform/flatten_mangler.go populateStruct: the loop rebuilding every declared pointer level (reflect.New(ptrTypes[i].Elem()), setVal.Convert(ptrTypes[i])) before originalVal.Set (repairs 6055e5a, P03)")
	}
	if nilGuards != 2 {
		miss("F21h", "transform/flatten_mangler.go populateStruct: both Set calls on leaves guarded by `if !isNil(…)`")
	}
	if !assignable {
		miss("F21i", "transform/flatten_mangler.go populateStruct: AssignableTo check before nestedVal.Set")
	}
	emit("/-- F21g: populateStruct rebuilds every pointer level of a **T / *P field from the declared types before Set (repaired defects D18, P03) -/\ndef populateRebuildsPtrLevels : Bool := %v\n\n", rebuild)
	emit("/-- F21h: number of leaf Set calls in populateStruct guarded by `!isNil(value)` (both are) -/\ndef populateNilGuards : Nat := %d\n\n", nilGuards)
	emit("/-- F21i: populateStruct checks AssignableTo before setting a nested leaf -/\ndef populateChecksAssignable : Bool := %v\n\n", assignable)
	if !leafAssignable {
		miss("F21q", "transform/flatten_mangler.go populateStruct: AssignableTo check (error) before originalVal.Set of a top-level leaf (repair of P11)")
	}
	if !valueStruct {
		miss("F21r", "transform/flatten_mangler.go populateStruct: `if len(ptrTypes) == 0 { setVal = setVal.Elem() }` (a struct held by value: repair of P02)")
	}
	emit("/-- F21q: populateStruct checks AssignableTo (an error) before setting a top-level leaf (repaired defect P11) -/\ndef populateLeafChecksAssignable : Bool := %v\n\n", leafAssignable)
	emit("/-- F21r: populateStruct stores the struct itself when the field is not a pointer (repaired defect P02) -/\ndef populateValueStruct : Bool := %v\n\n", valueStruct)
	emit("/-- F21j: populateStruct checks CanSet on the value it is about to set (struct and nested leaf) -/\ndef populateCanSetChecks : Nat := %d\n\n", canSet)
	countCheck, nilable := false, false
	if fd := methodDecl(fm, "FlattenMangler", "Unmangle"); fd != nil {
		ast.Inspect(fd, func(n ast.Node) bool {
			if is, ok := n.(*ast.IfStmt); ok && src(is.Cond) == "output != len(vs)" {
				countCheck = true
			}
			return true
		})
	}
	if fd := methodDecl(fm, "FlattenMangler", "Mangle"); fd != nil {
		ast.Inspect(fd, func(n ast.Node) bool {
			if cc, ok := n.(*ast.CaseClause); ok && len(cc.List) == 4 && src(cc.List[0]) == "reflect.Ptr" && src(cc.List[1]) == "reflect.Map" && src(cc.List[2]) == "reflect.Slice" && src(cc.List[3]) == "reflect.Interface" {
				nilable = true
			}
			return true
		})
	}
	if !nilable {
		miss("F21k", "transform/flatten_mangler.go Mangle: non-nil-able top-level fields are rejected with an error")
	}
	emit("/-- F21k: FlattenMangler.Mangle rejects a top-level field that is not a pointer / map / slice / interface with an error -/\ndef flattenRejectsNonNilable : Bool := %v\n\n", nilable)
	emit("/-- F21l: FlattenMangler.Unmangle compares the number of consumed values with len(vs) -/\ndef flattenCountCheck : Bool := %v\n\n", countCheck)

	// --- transform/alias_mangler.go Unmangle: length switch before fvs[0] / fvs[1] ---
	am := parse("transform/alias_mangler.go")
	lenSwitch := false
	if fd := methodDecl(am, "AliasMangler", "Unmangle"); fd != nil {
		ast.Inspect(fd, func(n ast.Node) bool {
			sw, ok := n.(*ast.SwitchStmt)
			if !ok || sw.Tag == nil || src(sw.Tag) != "len(fvs)" {
				return true
			}
			has1, has2, hasDefaultErr := false, false, false
			for _, st := range sw.Body.List {
				cc := st.(*ast.CaseClause)
				switch {
				case len(cc.List) == 1 && src(cc.List[0]) == "1":
					has1 = true
				case len(cc.List) == 1 && src(cc.List[0]) == "2":
					has2 = true
				case cc.List == nil:
					for _, b := range cc.Body {
						if r, ok := b.(*ast.ReturnStmt); ok && len(r.Results) == 2 && strings.HasPrefix(src(r.Results[1]), "fmt.Errorf(") {
							hasDefaultErr = true
						}
					}
				}
			}
			lenSwitch = has1 && has2 && hasDefaultErr
			return false
		})
	}
	if !lenSwitch {
		miss("F21m", "transform/alias_mangler.go Unmangle: `switch len(fvs)` with cases 1, 2 and an error default before fvs[0] / fvs[1] are indexed")
	}
	emit("/-- F21m: AliasMangler.Unmangle switches on len(fvs) (1, 2, default: error) before indexing fvs -/\ndef aliasLengthSwitch : Bool := %v\n\n", lenSwitch)

	// --- transform/transformer.go ReverseTranslate: ConvertibleTo before Convert; FieldByIndexErr ---
	tr := parse("transform/transformer.go")
	convCheck, idxErr := false, false
	if fd := methodDecl(tr, "Transformer", "ReverseTranslate"); fd != nil {
		ast.Inspect(fd, func(n ast.Node) bool {
			if is, ok := n.(*ast.IfStmt); ok && src(is.Cond) == "!field.Value.Type().ConvertibleTo(outField.Type())" {
				convCheck = true
			}
			return true
		})
		idxErr = anyContains(callsIn(fd), "outVal.FieldByIndexErr(field.Field.Index)")
	}
	if !convCheck {
		miss("F21n", "transform/transformer.go ReverseTranslate: ConvertibleTo check before field.Value.Convert(outField.Type())")
	}
	emit("/-- F21n: ReverseTranslate checks ConvertibleTo before Convert-ing the unmangled value to the original field type -/\ndef reverseChecksConvertible : Bool := %v\n\n", convCheck)
	emit("/-- F21o: ReverseTranslate uses FieldByIndexErr (no panic on a nil embedded pointer) -/\ndef reverseFieldByIndexErr : Bool := %v\n\n", idxErr)

	// --- sources/env/env.go: an empty tag is an error (repair of P05; it was an explicit panic) ---
	ev := parse("sources/env/env.go")
	envErr := false
	if fd := methodDecl(ev, "Source", "Value"); fd != nil {
		ast.Inspect(fd, func(n ast.Node) bool {
			if is, ok := n.(*ast.IfStmt); ok && src(is.Cond) == `envTagVal == ""` && !anyContains(callsIn(is.Body), "panic(") && len(is.Body.List) == 1 {
				if r, ok := is.Body.List[0].(*ast.ReturnStmt); ok && len(r.Results) == 2 && src(r.Results[0]) == "reflect.Value{}" && strings.HasPrefix(src(r.Results[1]), "fmt.Errorf(") {
					envErr = true
				}
			}
			return true
		})
	}
	if !envErr {
		miss("F21p", "sources/env/env.go Value: `if envTagVal == \"\" { return reflect.Value{}, fmt.Errorf(…) }` (an error, not a panic: repair of P05)")
	}
	emit("/-- F21p: env.Source.Value returns an error for an empty dialsenv tag (the model's `.err \"empty dialsenv tag\"`; repaired defect P05) -/\ndef envErrorsOnEmptyTag : Bool := %v\n\n", envErr)

	// --- transform/string_casting_mangler.go Unmangle: kind guard before Type.Elem (repair of P02), boxing as the named pointer type (P11) ---
	elemGuard2, boxNamed := false, false
	if fd := methodDecl(sc, "StringCastingMangler", "Unmangle"); fd != nil {
		ast.Inspect(fd, func(n ast.Node) bool {
			switch x := n.(type) {
			case *ast.SwitchStmt:
				if x.Tag == nil || src(x.Tag) != "sf.Type.Kind()" {
					return true
				}
				okElem, okDefault := false, false
				for _, st := range x.Body.List {
					cc := st.(*ast.CaseClause)
					body := ""
					for _, b := range cc.Body {
						body += src(b) + ";"
					}
					if cc.List == nil {
						okDefault = !strings.Contains(body, ".Elem()") && strings.Contains(body, "return reflect.Value{}, fmt.Errorf(")
					} else if strings.Contains(body, "castTo = sf.Type.Elem()") {
						ks := ""
						for _, e := range cc.List {
							ks += src(e) + ","
						}
						okElem = ks == "reflect.Ptr,reflect.Array,reflect.Chan,"
					}
				}
				elemGuard2 = okElem && okDefault
			case *ast.AssignStmt:
				if len(x.Lhs) == 1 && src(x.Lhs[0]) == "parsed" && src(x.Rhs[0]) == "boxed.Convert(sf.Type)" {
					boxNamed = true
				}
			}
			return true
		})
	}
	if !elemGuard2 {
		miss("F21s", "transform/string_casting_mangler.go Unmangle: Type.Elem only for pointer / array / chan kinds, an error for every other non-slice, non-map kind (repair of P02)")
	}
	if !boxNamed {
		miss("F21t", "transform/string_casting_mangler.go Unmangle: `parsed = boxed.Convert(sf.Type)` (user-defined pointer types: repair of P11)")
	}
	emit("/-- F21s: the string-cast mangler calls Type.Elem only on pointer / array / chan kinds and returns an error for a kind without element type (the model's `hasElemTy` guard; repaired defect P02) -/\ndef stringCastElemGuard : Bool := %v\n\n", elemGuard2)
	emit("/-- F21t: the string-cast mangler boxes a parsed scalar as the field's user-defined pointer type (repaired defect P11) -/\ndef stringCastBoxesNamedPtr : Bool := %v\n\n", boxNamed)

	// --- flag / pflag sources: kind guard before IsNil, ConvertibleTo before Convert, name / shorthand checks (repairs of P02, P04, P06, P07) ---
	kindGuards, convGuards := 0, 0
	for _, rel := range []string{"sources/flag/flag.go", "sources/pflag/pflag.go"} {
		if fd := methodDecl(parse(rel), "Set", "Value"); fd != nil {
			ast.Inspect(fd, func(n ast.Node) bool {
				switch x := n.(type) {
				case *ast.SwitchStmt:
					if x.Tag != nil && src(x.Tag) == "ffield.Kind()" && len(x.Body.List) == 2 {
						c0, c1 := x.Body.List[0].(*ast.CaseClause), x.Body.List[1].(*ast.CaseClause)
						if len(c0.List) == 4 && len(c0.Body) == 0 && c1.List == nil && anyContains(callsIn(c1), "fmt.Errorf(") {
							kindGuards++
						}
					}
				case *ast.IfStmt:
					if strings.Contains(src(x.Cond), "ConvertibleTo(stripTypePtr(ffield.Type()))") && strings.HasPrefix(src(x.Cond), "!") || strings.Contains(src(x.Cond), "|| !fval.Type().Elem().ConvertibleTo(stripTypePtr(ffield.Type()))") {
						if anyContains(callsIn(x.Body), "fmt.Errorf(") {
							convGuards++
						}
					}
				}
				return true
			})
		}
	}
	if kindGuards != 2 {
		miss("F21u", "sources/flag/flag.go and sources/pflag/pflag.go Value: `switch ffield.Kind()` guard (error) before ffield.IsNil() (repair of P02)")
	}
	if convGuards != 2 {
		miss("F21v", "sources/flag/flag.go and sources/pflag/pflag.go Value: ConvertibleTo check (error) before Convert (repair of P04)")
	}
	emit("/-- F21u: number of flag sources (flag, pflag) whose Value checks the field's kind before IsNil (repaired defect P02) -/\ndef flagKindGuards : Nat := %d\n\n", kindGuards)
	emit("/-- F21v: number of flag sources whose Value checks ConvertibleTo before Convert (repaired defect P04) -/\ndef flagConvertGuards : Nat := %d\n\n", convGuards)
	nameCheck, shortCheck := false, false
	if fd := methodDecl(parse("sources/flag/flag.go"), "Set", "registerFlags"); fd != nil {
		nameCheck = anyContains(callsIn(fd), "checkFlagName(name)")
	}
	if fd := methodDecl(parse("sources/pflag/pflag.go"), "Set", "registerFlags"); fd != nil {
		ast.Inspect(fd, func(n ast.Node) bool {
			if is, ok := n.(*ast.IfStmt); ok && src(is.Cond) == "len(shorthand) > 1" && anyContains(callsIn(is.Body), "fmt.Errorf(") {
				shortCheck = true
			}
			return true
		})
	}
	if !nameCheck {
		miss("F21w", "sources/flag/flag.go registerFlags: checkFlagName(name) before the flag is registered (repair of P06)")
	}
	if !shortCheck {
		miss("F21x", "sources/pflag/pflag.go registerFlags: `if len(shorthand) > 1 { return fmt.Errorf(…) }` (repair of P07)")
	}
	emit("/-- F21w: the flag source checks the flag name (leading '-', '=') before registering it (repaired defect P06) -/\ndef flagNameChecked : Bool := %v\n\n", nameCheck)
	emit("/-- F21x: the pflag source rejects a shorthand longer than one character with an error (repaired defect P07) -/\ndef pflagShorthandChecked : Bool := %v\n\n", shortCheck)

	// --- anonymous flatten: only structs are hoisted (repair of P08); alias copy is not embedded (P10); third-party parsers recovered (P09, P14) ---
	anonGuards := 0
	af := parse("transform/anonymous_flatten_mangler.go")
	for _, name := range []string{"Mangle", "Unmangle"} {
		if fd := methodDecl(af, "AnonymousFlattenMangler", name); fd != nil {
			ast.Inspect(fd, func(n ast.Node) bool {
				if is, ok := n.(*ast.IfStmt); ok && src(is.Cond) == "sf.Type.Elem().Kind() != reflect.Struct" {
					anonGuards++
				}
				return true
			})
		}
	}
	if anonGuards != 2 {
		miss("F21y", "transform/anonymous_flatten_mangler.go Mangle and Unmangle: `if sf.Type.Elem().Kind() != reflect.Struct` pass-through for embedded pointers to non-structs (repair of P08)")
	}
	emit("/-- F21y: AnonymousFlattenMangler passes embedded pointers to non-structs through, in Mangle and in Unmangle (repaired defect P08) -/\ndef anonFlattenStructGuards : Nat := %d\n\n", anonGuards)
	aliasNotEmbedded := false
	if fd := methodDecl(am, "AliasMangler", "Mangle"); fd != nil {
		ast.Inspect(fd, func(n ast.Node) bool {
			if as, ok := n.(*ast.AssignStmt); ok && len(as.Lhs) == 1 && src(as.Lhs[0]) == "aliasField.Anonymous" && src(as.Rhs[0]) == "false" {
				aliasNotEmbedded = true
			}
			return true
		})
	}
	if !aliasNotEmbedded {
		miss("F21z", "transform/alias_mangler.go Mangle: `aliasField.Anonymous = false` (repair of P10)")
	}
	emit("/-- F21z: the alias copy of an embedded field is not embedded (repaired defect P10) -/\ndef aliasCopyNotEmbedded : Bool := %v\n\n", aliasNotEmbedded)
	recovers := 0
	for _, rel := range []string{"decoders/toml/toml.go", "decoders/cue/cue.go"} {
		if fd := funcDecl(parse(rel), "Decode"); fd != nil && anyContains(callsIn(fd), "recover()") {
			recovers++
		}
	}
	if recovers != 2 {
		miss("F21aa", "decoders/toml/toml.go and decoders/cue/cue.go Decode: recover() around the third-party parser (repairs of P09, P14)")
	}
	emit("/-- F21aa: number of decoders (toml, cue) that recover a panic of the third-party parser into an error (repaired defects P09, P14) -/\ndef decodersRecover : Nat := %d\n\n", recovers)
}
