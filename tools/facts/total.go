package main

import (
	"go/ast"
	"strings"
)

func init() { allFacts = append(allFacts, factTotal) }

// callsIn collects the printed form of every call expression inside a node.
func callsIn(n ast.Node) []string {
	var out []string
	if n == nil {
		return out
	}
	ast.Inspect(n, func(x ast.Node) bool {
		if ce, ok := x.(*ast.CallExpr); ok {
			out = append(out, src(ce))
		}
		return true
	})
	return out
}

func anyContains(ss []string, sub string) bool {
	for _, s := range ss {
		if strings.Contains(s, sub) {
			return true
		}
	}
	return false
}

// F21: the guard sites of the panic catalogue of Props/C16.lean — the checks and conversions that keep
// reflect's Set / Append / SetMapIndex / Elem / IsNil and the indexings vs[i] / fvs[0] from panicking.
// Each is a syntactic pattern; a repair that is reverted (or a guard that is removed) makes the fact false
// or missing, which breaks `C16_guard_facts`.
func factTotal() {
	// --- parse/parse_string.go String, case reflect.Slice ---
	ps := parse("parse/parse_string.go")
	elemGuard, convElem := false, false
	if fd := funcDecl(ps, "String"); fd != nil {
		ast.Inspect(fd, func(n ast.Node) bool {
			cc, ok := n.(*ast.CaseClause)
			if !ok || len(cc.List) != 1 || src(cc.List[0]) != "reflect.Slice" {
				return true
			}
			for _, st := range cc.Body {
				ast.Inspect(st, func(m ast.Node) bool {
					switch x := m.(type) {
					case *ast.IfStmt:
						if src(x.Cond) == "castVal.Kind() == reflect.Ptr" && len(x.Body.List) == 1 && src(x.Body.List[0]) == "castVal = castVal.Elem()" {
							elemGuard = true
						}
					case *ast.CallExpr:
						if src(x.Fun) == "reflect.Append" && len(x.Args) == 2 && src(x.Args[1]) == "castVal.Convert(t.Elem())" {
							convElem = true
						}
					}
					return true
				})
			}
			return false
		})
	}
	if !elemGuard {
		miss("F21a", "parse/parse_string.go String, slice case: `if castVal.Kind() == reflect.Ptr { castVal = castVal.Elem() }` (nested slices and maps come back as themselves: repair 3157480)")
	}
	if !convElem {
		miss("F21b", "parse/parse_string.go String, slice case: `reflect.Append(castSlice, castVal.Convert(t.Elem()))` (user-defined element types: repair e45e64f)")
	}
	emit("/-- F21a: parse.String dereferences an element only when it came back as a pointer (nested slices / maps: repaired defect D19) -/\ndef parseStringElemGuard : Bool := %v\n\n", elemGuard)
	emit("/-- F21b: parse.String converts each element to the slice's own element type before Append (user-defined element types: repaired defect D8) -/\ndef parseStringConvertsElem : Bool := %v\n\n", convElem)

	// --- parse/map.go Map ---
	pm := parse("parse/map.go")
	convKey, convVal, dupCheck := false, false, false
	if fd := funcDecl(pm, "Map"); fd != nil {
		calls := callsIn(fd)
		convKey = anyContains(calls, "newKeyCast.Elem().Convert(keyType)")
		convVal = anyContains(calls, "m.SetMapIndex(newKey, newValCast.Elem().Convert(valType))")
		ast.Inspect(fd, func(n ast.Node) bool {
			if is, ok := n.(*ast.IfStmt); ok && src(is.Cond) == "val.IsValid()" {
				dupCheck = true
			}
			return true
		})
	}
	if !convKey || !convVal {
		miss("F21c", "parse/map.go Map: key and value converted to the map's own key / value types before MapIndex / SetMapIndex (repair e45e64f)")
	}
	emit("/-- F21c: parse.Map converts the cast key and value to the map's key / value types before MapIndex / SetMapIndex (repaired defect D8) -/\ndef parseMapConverts : Bool := %v\n\n", convKey && convVal)
	emit("/-- F21d: parse.Map rejects a duplicate key (MapIndex valid) with an error -/\ndef parseMapDupCheck : Bool := %v\n\n", dupCheck)

	// --- transform/string_casting_mangler.go Unmangle ---
	sc := parse("transform/string_casting_mangler.go")
	convField, nilReturn := false, false
	if fd := methodDecl(sc, "StringCastingMangler", "Unmangle"); fd != nil {
		ast.Inspect(fd, func(n ast.Node) bool {
			is, ok := n.(*ast.IfStmt)
			if !ok {
				return true
			}
			c := src(is.Cond)
			if strings.Contains(c, "parsed.Type().ConvertibleTo(sf.Type)") && len(is.Body.List) == 1 && src(is.Body.List[0]) == "parsed = parsed.Convert(sf.Type)" {
				convField = true
			}
			if c == "strPtrInterface == nilStrPtr" && len(is.Body.List) == 1 && strings.HasPrefix(src(is.Body.List[0]), "return reflect.Zero(sf.Type), nil") {
				nilReturn = true
			}
			return true
		})
	}
	if !convField {
		miss("F21e", "transform/string_casting_mangler.go Unmangle: `if … parsed.Type().ConvertibleTo(sf.Type) { parsed = parsed.Convert(sf.Type) }` (user-defined field types: repair e45e64f)")
	}
	if !nilReturn {
		miss("F21f", "transform/string_casting_mangler.go Unmangle: unset *string returns reflect.Zero(sf.Type) before any dereference")
	}
	emit("/-- F21e: the string-cast mangler converts the parsed value to the field's own type when convertible (repaired defect D8) -/\ndef stringCastConverts : Bool := %v\n\n", convField)
	emit("/-- F21f: the string-cast mangler returns the zero value for an unset *string before dereferencing it -/\ndef stringCastNilGuard : Bool := %v\n\n", nilReturn)

	// --- transform/flatten_mangler.go populateStruct / Unmangle / Mangle ---
	fm := parse("transform/flatten_mangler.go")
	rebuild, assignable, canSet := false, false, 0
	nilGuards := 0
	if fd := funcDecl(fm, "populateStruct"); fd != nil {
		ast.Inspect(fd, func(n ast.Node) bool {
			switch x := n.(type) {
			case *ast.ForStmt:
				if x.Cond != nil && src(x.Cond) == "t.Kind() == reflect.Ptr && t.Elem().Kind() == reflect.Ptr" && anyContains(callsIn(x.Body), "reflect.New(setVal.Type())") {
					rebuild = true
				}
			case *ast.IfStmt:
				c := src(x.Cond)
				if c == "!vs[inputIndex].Value.Type().AssignableTo(nestedVal.Type())" {
					assignable = true
				}
				if c == "!isNil(vs[inputIndex].Value)" || c == "!isNil(val)" {
					if anyContains(callsIn(x.Body), ".Set(") {
						nilGuards++
					}
				}
				if c == "!originalVal.CanSet()" || c == "!nestedVal.CanSet()" {
					canSet++
				}
			}
			return true
		})
	}
	if !rebuild {
		miss("F21g", "transform/flatten_mangler.go populateStruct: the loop rebuilding the outer pointer levels of **T before originalVal.Set (repair 6055e5a)")
	}
	if nilGuards != 2 {
		miss("F21h", "transform/flatten_mangler.go populateStruct: both Set calls on leaves guarded by `if !isNil(…)`")
	}
	if !assignable {
		miss("F21i", "transform/flatten_mangler.go populateStruct: AssignableTo check before nestedVal.Set")
	}
	emit("/-- F21g: populateStruct rebuilds every outer pointer level of a **T field before Set (repaired defect D18) -/\ndef populateRebuildsPtrLevels : Bool := %v\n\n", rebuild)
	emit("/-- F21h: number of leaf Set calls in populateStruct guarded by `!isNil(value)` (both are) -/\ndef populateNilGuards : Nat := %d\n\n", nilGuards)
	emit("/-- F21i: populateStruct checks AssignableTo before setting a nested leaf -/\ndef populateChecksAssignable : Bool := %v\n\n", assignable)
	emit("/-- F21j: populateStruct checks CanSet on the value it is about to set (struct and nested leaf) -/\ndef populateCanSetChecks : Nat := %d\n\n", canSet)
	countCheck, nilable := false, false
	if fd := methodDecl(fm, "FlattenMangler", "Unmangle"); fd != nil {
		ast.Inspect(fd, func(n ast.Node) bool {
			if is, ok := n.(*ast.IfStmt); ok && src(is.Cond) == "output != len(vs)" {
				countCheck = true
			}
			return true
		})
	}
	if fd := methodDecl(fm, "FlattenMangler", "Mangle"); fd != nil {
		ast.Inspect(fd, func(n ast.Node) bool {
			if cc, ok := n.(*ast.CaseClause); ok && len(cc.List) == 4 && src(cc.List[0]) == "reflect.Ptr" && src(cc.List[1]) == "reflect.Map" && src(cc.List[2]) == "reflect.Slice" && src(cc.List[3]) == "reflect.Interface" {
				nilable = true
			}
			return true
		})
	}
	if !nilable {
		miss("F21k", "transform/flatten_mangler.go Mangle: non-nil-able top-level fields are rejected with an error")
	}
	emit("/-- F21k: FlattenMangler.Mangle rejects a top-level field that is not a pointer / map / slice / interface with an error -/\ndef flattenRejectsNonNilable : Bool := %v\n\n", nilable)
	emit("/-- F21l: FlattenMangler.Unmangle compares the number of consumed values with len(vs) -/\ndef flattenCountCheck : Bool := %v\n\n", countCheck)

	// --- transform/alias_mangler.go Unmangle: length switch before fvs[0] / fvs[1] ---
	am := parse("transform/alias_mangler.go")
	lenSwitch := false
	if fd := methodDecl(am, "AliasMangler", "Unmangle"); fd != nil {
		ast.Inspect(fd, func(n ast.Node) bool {
			sw, ok := n.(*ast.SwitchStmt)
			if !ok || sw.Tag == nil || src(sw.Tag) != "len(fvs)" {
				return true
			}
			has1, has2, hasDefaultErr := false, false, false
			for _, st := range sw.Body.List {
				cc := st.(*ast.CaseClause)
				switch {
				case len(cc.List) == 1 && src(cc.List[0]) == "1":
					has1 = true
				case len(cc.List) == 1 && src(cc.List[0]) == "2":
					has2 = true
				case cc.List == nil:
					for _, b := range cc.Body {
						if r, ok := b.(*ast.ReturnStmt); ok && len(r.Results) == 2 && strings.HasPrefix(src(r.Results[1]), "fmt.Errorf(") {
							hasDefaultErr = true
						}
					}
				}
			}
			lenSwitch = has1 && has2 && hasDefaultErr
			return false
		})
	}
	if !lenSwitch {
		miss("F21m", "transform/alias_mangler.go Unmangle: `switch len(fvs)` with cases 1, 2 and an error default before fvs[0] / fvs[1] are indexed")
	}
	emit("/-- F21m: AliasMangler.Unmangle switches on len(fvs) (1, 2, default: error) before indexing fvs -/\ndef aliasLengthSwitch : Bool := %v\n\n", lenSwitch)

	// --- transform/transformer.go ReverseTranslate: ConvertibleTo before Convert; FieldByIndexErr ---
	tr := parse("transform/transformer.go")
	convCheck, idxErr := false, false
	if fd := methodDecl(tr, "Transformer", "ReverseTranslate"); fd != nil {
		ast.Inspect(fd, func(n ast.Node) bool {
			if is, ok := n.(*ast.IfStmt); ok && src(is.Cond) == "!field.Value.Type().ConvertibleTo(outField.Type())" {
				convCheck = true
			}
			return true
		})
		idxErr = anyContains(callsIn(fd), "outVal.FieldByIndexErr(field.Field.Index)")
	}
	if !convCheck {
		miss("F21n", "transform/transformer.go ReverseTranslate: ConvertibleTo check before field.Value.Convert(outField.Type())")
	}
	emit("/-- F21n: ReverseTranslate checks ConvertibleTo before Convert-ing the unmangled value to the original field type -/\ndef reverseChecksConvertible : Bool := %v\n\n", convCheck)
	emit("/-- F21o: ReverseTranslate uses FieldByIndexErr (no panic on a nil embedded pointer) -/\ndef reverseFieldByIndexErr : Bool := %v\n\n", idxErr)

	// --- sources/env/env.go: the explicit panic on an empty tag (modelled: `.panic \"empty dialsenv tag\"`) ---
	ev := parse("sources/env/env.go")
	envPanic := false
	if fd := methodDecl(ev, "Source", "Value"); fd != nil {
		ast.Inspect(fd, func(n ast.Node) bool {
			if is, ok := n.(*ast.IfStmt); ok && src(is.Cond) == `envTagVal == ""` && anyContains(callsIn(is.Body), "panic(") {
				envPanic = true
			}
			return true
		})
	}
	emit("/-- F21p: env.Source.Value panics explicitly on an empty dialsenv tag (the model's `.panic \"empty dialsenv tag\"`; finding D24) -/\ndef envPanicsOnEmptyTag : Bool := %v\n\n", envPanic)
}
