package main

import (
	"go/ast"
	"go/token"
	"strings"
)

func init() { allFacts = append(allFacts, factFlagSrc, factFlagParseGuard, factFlagMapBeforeSkips) }

// F14: the flag sources (sources/flag/flag.go, sources/pflag/pflag.go, sources/flag/flaghelper/*.go)
//   a  routing table of registerFlags: for each `case` of the three switches (tagless, `switch k`, `switch ft`)
//      the constructor that registers the flag (`s.Flags.X(...)`, or the `flaghelper.NewX` wrapped by `s.Flags.Var[P]`)
//   b  Value: which FlagSet visitor is used (Visit = only the flags that were set) and whether
//      `willOverflow` is consulted (with an early return) before `Convert`
//   c  mkname: the tags looked up, in order
//   d  registerFlags: the two skip guards (already registered name; source tag "-"), in this order
//   e  flaghelper Set methods: the first occurrence REPLACES the default (`if … v.defaulted { <target> = parsed; v.defaulted = false; return nil }`)
//   f  willOverflow: OverflowInt / OverflowUint on the signed / unsigned kinds

type routeEntry struct{ label, ctor string }

func stripIndex(e ast.Expr) ast.Expr {
	switch x := e.(type) {
	case *ast.IndexExpr:
		return x.X
	case *ast.IndexListExpr:
		return x.X
	}
	return e
}

// ctorOfBody finds the registering constructor in a case body
func ctorOfBody(body []ast.Stmt) string {
	ctor := ""
	for _, st := range body {
		ast.Inspect(st, func(n ast.Node) bool {
			if ctor != "" {
				return false
			}
			ce, ok := n.(*ast.CallExpr)
			if !ok {
				return true
			}
			fn := src(ce.Fun)
			if !strings.HasPrefix(fn, "s.Flags.") {
				return true
			}
			m := strings.TrimPrefix(fn, "s.Flags.")
			if m == "Var" || m == "VarP" {
				if len(ce.Args) > 0 {
					if inner, ok := ce.Args[0].(*ast.CallExpr); ok {
						f := src(stripIndex(inner.Fun))
						if strings.HasPrefix(f, "flaghelper.") {
							ctor = f
							return false
						}
					}
				}
				ctor = m
				return false
			}
			ctor = m
			return false
		})
		if ctor != "" {
			break
		}
	}
	return ctor
}

func caseLabel(e ast.Expr) string {
	s := src(e)
	switch {
	case s == "fieldVal.Type() == timeTime":
		return "time.Time"
	case s == "fieldVal.Type() == timeDuration":
		return "time.Duration"
	case s == "isValue":
		return "flag.Value"
	case s == "isTextM":
		return "TextUnmarshaler"
	case strings.HasPrefix(s, "reflect."):
		return strings.TrimPrefix(s, "reflect.")
	}
	return s
}

func routingTable(fd *ast.FuncDecl) (tab []routeEntry, ok bool) {
	if fd == nil {
		return nil, false
	}
	nSwitch := 0
	var walk func(sw *ast.SwitchStmt)
	walk = func(sw *ast.SwitchStmt) {
		nSwitch++
		for _, c := range sw.Body.List {
			cc, isCC := c.(*ast.CaseClause)
			if !isCC || len(cc.List) == 0 {
				continue // default
			}
			// a nested switch (Slice, Map → switch ft)
			var nested *ast.SwitchStmt
			for _, st := range cc.Body {
				if ns, isSw := st.(*ast.SwitchStmt); isSw {
					nested = ns
				}
			}
			if nested != nil {
				walk(nested)
				continue
			}
			ctor := ctorOfBody(cc.Body)
			for _, l := range cc.List {
				tab = append(tab, routeEntry{caseLabel(l), ctor})
			}
		}
	}
	// the switches directly inside the for loop over the translated fields
	ast.Inspect(fd, func(n ast.Node) bool {
		fs, isFor := n.(*ast.ForStmt)
		if !isFor {
			return true
		}
		for _, st := range fs.Body.List {
			if sw, isSw := st.(*ast.SwitchStmt); isSw {
				walk(sw)
			}
		}
		return false
	})
	return tab, nSwitch >= 3 && len(tab) >= 20
}

func methodDecl(f *ast.File, recv, name string) *ast.FuncDecl {
	if f == nil {
		return nil
	}
	for _, d := range f.Decls {
		fd, ok := d.(*ast.FuncDecl)
		if !ok || fd.Name.Name != name || fd.Recv == nil || len(fd.Recv.List) != 1 {
			continue
		}
		t := fd.Recv.List[0].Type
		if st, ok := t.(*ast.StarExpr); ok {
			t = st.X
		}
		t = stripIndex(t)
		if src(t) == recv {
			return fd
		}
	}
	return nil
}

func factFlagSrc() {
	loadCommonConsts()
	for _, p := range []struct{ id, lean, rel string }{{"F14-std", "Std", "sources/flag/flag.go"}, {"F14-pflag", "PFlag", "sources/pflag/pflag.go"}} {
		f := parse(p.rel)
		// a: routing table
		tab, ok := routingTable(methodDecl(f, "Set", "registerFlags"))
		if !ok {
			miss(p.id+"a", p.rel+" registerFlags: the three routing switches inside the loop over the translated fields")
		}
		var ents []string
		for _, e := range tab {
			ents = append(ents, "("+leanStr(e.label)+", "+leanStr(e.ctor)+")")
		}
		emit("/-- %sa: routing table of %s registerFlags: (case label, registering constructor), in source order -/\ndef flagTable%s : List (String × String) := [%s]\n\n",
			p.id, p.rel, p.lean, strings.Join(ents, ", "))

		// b: Value
		visit := ""
		checked := false
		ptrConv := false
		if fd := methodDecl(f, "Set", "Value"); fd != nil {
			ast.Inspect(fd, func(n ast.Node) bool {
				ce, ok := n.(*ast.CallExpr)
				if !ok {
					return true
				}
				fn := src(ce.Fun)
				if (fn == "s.Flags.Visit" || fn == "s.Flags.VisitAll") && len(ce.Args) == 1 {
					fl, ok := ce.Args[0].(*ast.FuncLit)
					if !ok {
						return true
					}
					visit = strings.TrimPrefix(fn, "s.Flags.")
					// willOverflow guard with an early return, positioned before the Convert call
					var guardPos, convPos token.Pos
					ast.Inspect(fl, func(m ast.Node) bool {
						switch x := m.(type) {
						case *ast.IfStmt:
							if c, ok := x.Cond.(*ast.CallExpr); ok && src(c.Fun) == "willOverflow" && len(x.Body.List) > 0 {
								if _, isRet := x.Body.List[len(x.Body.List)-1].(*ast.ReturnStmt); isRet {
									hasErr := false
									for _, st := range x.Body.List {
										if as, ok := st.(*ast.AssignStmt); ok && len(as.Lhs) == 1 && src(as.Lhs[0]) == "setErr" {
											hasErr = true
										}
									}
									if hasErr && guardPos == token.NoPos {
										guardPos = x.Pos()
									}
								}
							}
						case *ast.CallExpr:
							// the narrowing Convert is the one to the field's (pointer-stripped) element type
							if se, ok := x.Fun.(*ast.SelectorExpr); ok && se.Sel.Name == "Convert" && convPos == token.NoPos &&
								len(x.Args) == 1 && strings.Contains(src(x.Args[0]), "stripTypePtr") {
								convPos = x.Pos()
							}
						}
						// a getter that hands back a pointer convertible to the field's pointer type is assigned
						// through a pointer conversion (user-defined complex types)
						if is, ok := m.(*ast.IfStmt); ok && strings.Contains(src(is.Cond), "fval.Type().ConvertibleTo(ffield.Type())") &&
							strings.Contains(src(is.Cond), "fval.Kind() == reflect.Ptr") && len(is.Body.List) > 0 {
							if _, isRet := is.Body.List[len(is.Body.List)-1].(*ast.ReturnStmt); isRet {
								ptrConv = true
							}
						}
						return true
					})
					checked = guardPos != token.NoPos && convPos != token.NoPos && guardPos < convPos
					return false
				}
				return true
			})
		}
		if visit == "" {
			miss(p.id+"b", p.rel+" Value: s.Flags.Visit(func …)")
		}
		// the error recorded by the guard must be returned before ReverseTranslate
		if checked {
			returned := false
			if fd := methodDecl(f, "Set", "Value"); fd != nil {
				for _, st := range fd.Body.List {
					if is, ok := st.(*ast.IfStmt); ok && src(is.Cond) == "setErr != nil" && len(is.Body.List) == 1 {
						if rs, ok := is.Body.List[0].(*ast.ReturnStmt); ok && len(rs.Results) == 2 && src(rs.Results[1]) == "setErr" {
							returned = true
						}
					}
				}
			}
			checked = returned
		}
		emit("/-- %sb: the FlagSet visitor used by Value (`Visit` = only the flags that were set on the command line) -/\ndef flagVisit%s : String := %s\n\n", p.id, p.lean, leanStr(visit))
		emit("/-- %sb: Value consults willOverflow (recording an error that is returned) before the narrowing Convert -/\ndef flagOverflowChecked%s : Bool := %v\n\n", p.id, p.lean, checked)
		emit("/-- %sb: Value assigns a getter's pointer through a pointer conversion when it is convertible to the field's pointer type (pflag keeps a pointer of the field's own type, so it needs none) -/\ndef flagPtrConvert%s : Bool := %v\n\n", p.id, p.lean, ptrConv)

		// c: mkname
		var order []string
		if fd := methodDecl(f, "Set", "mkname"); fd != nil {
			for _, st := range fd.Body.List {
				is, ok := st.(*ast.IfStmt)
				if !ok || is.Init == nil || len(is.Body.List) != 1 {
					continue
				}
				as, ok := is.Init.(*ast.AssignStmt)
				if !ok || len(as.Rhs) != 1 || len(as.Lhs) != 2 {
					continue
				}
				ce, ok := as.Rhs[0].(*ast.CallExpr)
				if !ok || src(ce.Fun) != "sf.Tag.Lookup" || len(ce.Args) != 1 {
					continue
				}
				rs, ok := is.Body.List[0].(*ast.ReturnStmt)
				if !ok || len(rs.Results) != 1 || src(rs.Results[0]) != src(as.Lhs[0]) || src(is.Cond) != src(as.Lhs[1]) {
					continue
				}
				order = append(order, leanStr(argStr(ce.Args[0])))
			}
		}
		if len(order) == 0 {
			miss(p.id+"c", p.rel+" mkname: if name, ok := sf.Tag.Lookup(<tag>); ok { return name } …")
		}
		emit("/-- %sc: mkname returns the value of the first of these tags that is present -/\ndef flagMkname%s : List String := [%s]\n\n", p.id, p.lean, strings.Join(order, ", "))

		// d: skip guards of registerFlags, in order
		var guards []string
		if fd := methodDecl(f, "Set", "registerFlags"); fd != nil {
			ast.Inspect(fd, func(n ast.Node) bool {
				fs, isFor := n.(*ast.ForStmt)
				if !isFor {
					return true
				}
				for _, st := range fs.Body.List {
					is, ok := st.(*ast.IfStmt)
					if !ok || len(is.Body.List) != 1 {
						continue
					}
					if bs, ok := is.Body.List[0].(*ast.BranchStmt); !ok || bs.Tok != token.CONTINUE {
						continue
					}
					c := src(is.Cond)
					if c == "s.Flags.Lookup(name) != nil" {
						guards = append(guards, leanStr("registered"))
						continue
					}
					if as, ok := is.Init.(*ast.AssignStmt); ok && len(as.Rhs) == 1 && len(as.Lhs) == 2 {
						if ce, ok := as.Rhs[0].(*ast.CallExpr); ok && src(ce.Fun) == "sf.Tag.Lookup" && len(ce.Args) == 1 {
							v, okv := src(as.Lhs[0]), src(as.Lhs[1])
							if c == okv+" && ("+v+" == \"-\")" || c == okv+" && "+v+" == \"-\"" {
								guards = append(guards, leanStr("dash:"+argStr(ce.Args[0])))
							}
						}
					}
				}
				return false
			})
		}
		if len(guards) != 2 {
			miss(p.id+"d", p.rel+" registerFlags: `if s.Flags.Lookup(name) != nil { continue }` and `if t, ok := sf.Tag.Lookup(<source tag>); ok && (t == \"-\") { continue }`")
		}
		emit("/-- %sd: skip guards of registerFlags, in order (`registered` = a flag of that name exists already; `dash:<tag>` = that tag has the value \"-\") -/\ndef flagSkips%s : List String := [%s]\n\n", p.id, p.lean, strings.Join(guards, ", "))
	}

	// e: helper Set methods
	type hsp struct{ rel, recv string }
	var hs []string
	allOK := true
	for _, h := range []hsp{
		{"sources/flag/flaghelper/strings.go", "StringSliceFlag"}, {"sources/flag/flaghelper/strings.go", "StringSetFlag"},
		{"sources/flag/flaghelper/strings.go", "MapStringStringSliceFlag"}, {"sources/flag/flaghelper/strings.go", "MapStringStringFlag"},
		{"sources/flag/flaghelper/ints.go", "SignedIntegralSliceFlag"}, {"sources/flag/flaghelper/uints.go", "UnsignedIntegralSliceFlag"},
	} {
		fd := methodDecl(parse(h.rel), h.recv, "Set")
		replaces := false
		if fd != nil {
			for _, st := range fd.Body.List {
				is, ok := st.(*ast.IfStmt)
				if !ok || !strings.Contains(src(is.Cond), "v.defaulted") || strings.Contains(src(is.Cond), "!v.defaulted") {
					continue
				}
				assign, clear, ret := false, false, false
				for _, b := range is.Body.List {
					switch x := b.(type) {
					case *ast.AssignStmt:
						if len(x.Lhs) == 1 && len(x.Rhs) == 1 && x.Tok == token.ASSIGN {
							l, r := src(x.Lhs[0]), src(x.Rhs[0])
							if (l == "v.s" && r == "&parsed") || (l == "*v.s" && (r == "parsed" || r == "castParsed")) {
								assign = true
							}
							if l == "v.defaulted" && r == "false" {
								clear = true
							}
						}
					case *ast.ReturnStmt:
						ret = len(x.Results) == 1 && src(x.Results[0]) == "nil"
					}
				}
				replaces = assign && clear && ret
				break
			}
		}
		if !replaces {
			allOK = false
		}
		hs = append(hs, "("+leanStr(h.recv)+", "+boolStr(replaces)+")")
	}
	if !allOK {
		miss("F14e", "flaghelper Set methods: `if … v.defaulted { <target> = parsed; v.defaulted = false; return nil }`")
	}
	emit("/-- F14e: flaghelper Set methods: the first occurrence replaces the default (then `defaulted` is cleared) -/\ndef helperFirstReplaces : List (String × Bool) := [%s]\n\n", strings.Join(hs, ", "))

	// f: willOverflow
	okInt, okUint := false, false
	if fd := funcDecl(parse("sources/flag/flag.go"), "willOverflow"); fd != nil {
		ast.Inspect(fd, func(n ast.Node) bool {
			cc, ok := n.(*ast.CaseClause)
			if !ok {
				return true
			}
			var labs []string
			for _, l := range cc.List {
				labs = append(labs, src(l))
			}
			body := ""
			for _, b := range cc.Body {
				body += src(b) + ";"
			}
			ls := strings.Join(labs, ",")
			if ls == "reflect.Int,reflect.Int8,reflect.Int16,reflect.Int32,reflect.Int64" && strings.Contains(body, "return target.OverflowInt(v)") && strings.Contains(body, "v := val.Int()") {
				okInt = true
			}
			if ls == "reflect.Uint,reflect.Uint8,reflect.Uint16,reflect.Uint32,reflect.Uint64" && strings.Contains(body, "return target.OverflowUint(v)") && strings.Contains(body, "v := val.Uint()") {
				okUint = true
			}
			return true
		})
	}
	if !okInt || !okUint {
		miss("F14f", "sources/flag/flag.go willOverflow: OverflowInt / OverflowUint of the target on the signed / unsigned kinds")
	}
	emit("/-- F14f: willOverflow asks the target's OverflowInt / OverflowUint for every signed / unsigned integer kind -/\ndef flagWillOverflowInts : Bool := %v\n\n", okInt && okUint)
}

func boolStr(b bool) string {
	if b {
		return "true"
	}
	return "false"
}

// factFlagParseGuard (F14p): Value parses the flag set only when it has not been parsed yet
// (`if !s.Flags.Parsed() { … s.parse() … }` as a statement of Value itself, in both packages), so a flag set the
// application parsed before asking dials for the value is not parsed a second time - a second parse would hand every
// accumulating flag each of its occurrences again.
func factFlagParseGuard() {
	ok := map[string]bool{}
	for _, rel := range []string{"sources/flag/flag.go", "sources/pflag/pflag.go"} {
		f := parse(rel)
		fd := methodDecl(f, "Set", "Value")
		if fd == nil {
			continue
		}
		guarded, unguarded := false, false
		for _, st := range fd.Body.List {
			switch x := st.(type) {
			case *ast.IfStmt:
				if src(x.Cond) == "!s.Flags.Parsed()" && strings.Contains(src(x.Body), "s.parse()") {
					guarded = true
				}
			default:
				if strings.Contains(src(st), "s.parse()") || strings.Contains(src(st), "ParseFunc()") {
					unguarded = true
				}
			}
		}
		// the guard must not have moved into parse() (where it would only cover one branch)
		if pd := methodDecl(f, "Set", "parse"); pd != nil && strings.Contains(src(pd.Body), "Parsed()") {
			unguarded = true
		}
		ok[rel] = guarded && !unguarded
	}
	if len(ok) != 2 {
		miss("F14p", "sources/flag/flag.go and sources/pflag/pflag.go: method (*Set).Value")
	}
	emit("/-- F14p: both flag sources parse the flag set in Value only under `if !s.Flags.Parsed()` -/\ndef flagParseOnlyIfUnparsed : Bool := %v\n\n", ok["sources/flag/flag.go"] && ok["sources/pflag/pflag.go"])
}

// factFlagMapBeforeSkips (F14m): in the standard-library source's registerFlags loop the flag-name -> field-name entry
// (`s.flagFieldName[name] = sf.Name`) is recorded BEFORE the statements that skip registration (`continue` for a flag
// that exists already / a `dialsflag:"-"` tag): Value looks every visited flag up in that map, so a flag that the
// application - or an earlier Set over the same FlagSet - registered still sets its field.
func factFlagMapBeforeSkips() {
	f := parse("sources/flag/flag.go")
	fd := methodDecl(f, "Set", "registerFlags")
	before, found := false, false
	if fd != nil {
		ast.Inspect(fd, func(n ast.Node) bool {
			fs, ok := n.(*ast.ForStmt)
			if !ok {
				return true
			}
			mapAt, firstSkip := -1, -1
			for i, st := range fs.Body.List {
				if as, ok := st.(*ast.AssignStmt); ok && len(as.Lhs) == 1 && strings.HasPrefix(src(as.Lhs[0]), "s.flagFieldName[") && mapAt < 0 {
					mapAt = i
				}
				if is, ok := st.(*ast.IfStmt); ok && firstSkip < 0 {
					for _, b := range is.Body.List {
						if br, ok := b.(*ast.BranchStmt); ok && br.Tok == token.CONTINUE {
							firstSkip = i
						}
					}
				}
			}
			if mapAt >= 0 {
				found = true
				before = firstSkip < 0 || mapAt < firstSkip
			}
			return true
		})
	}
	if !found {
		miss("F14m", "sources/flag/flag.go registerFlags: `s.flagFieldName[name] = sf.Name` as a statement of the field loop")
	}
	emit("/-- F14m: registerFlags (sources/flag) records the flag-name -> field-name entry before any statement that skips registration -/\ndef flagMapRecordedBeforeSkips : Bool := %v\n\n", before)
}
