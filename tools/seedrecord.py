#!/usr/bin/env python3
"""seedrecord.py <seed dir> <seed id> <property id> [more ids]: run seedtest.py on an independently written
seeded change and file it under /verif/seeded/<seed id>/ (patch.diff, demo_test.go.txt, README.md, meta.json)."""
import json, os, shutil, subprocess, sys
V = os.path.dirname(os.path.dirname(os.path.abspath(__file__)))
d, sid, props = sys.argv[1], sys.argv[2], sys.argv[3:]
p = subprocess.run([os.path.join(V, "tools/seedtest.py"), d] + props, stdout=subprocess.PIPE, stderr=subprocess.PIPE, text=True)
try:
    r = json.loads(p.stdout[p.stdout.index("{"):])
except Exception:
    print(p.stdout[-2000:], p.stderr[-2000:]); sys.exit(2)
dst = os.path.join(V, "seeded", sid)
os.makedirs(dst, exist_ok=True)
shutil.copy(os.path.join(d, "patch.diff"), dst)
for f in os.listdir(d):
    if f.endswith("_test.go"): shutil.copy(os.path.join(d, f), os.path.join(dst, "demo_test.go.txt"))
    if f == "README.md": shutil.copy(os.path.join(d, f), dst)
readme = open(os.path.join(d, "README.md")).read() if os.path.exists(os.path.join(d, "README.md")) else ""
meta = {"property": props[0], "seed": sid,
        "origin": "written by an independent sub-agent that was given only the property text and a scratch worktree of /repo",
        "confirmed": {k: r.get(k) for k in ("patch_applies", "existing_tests_pass_with_change", "demo_fails_with_change", "demo_passes_without_change", "demo_package_dir", "demo_output_with_change")},
        "what_was_run": "tools/seedtest.py: scratch worktree of /repo (git worktree add), git apply patch.diff, go build + go test ./... (existing suite), demo test with and without the change; then ./check <id> quick from a private copy of /verif with VERIF_REPO=<patched worktree>",
        "checks": {k: {"exit": v["exit"], "violation_lines": v["lines"], "what": v["what"]} for k, v in r["checks"].items()},
        "detected_by": r["detected_by"],
        "note": "demo_test.go.txt is the demonstration (renamed so that it is not compiled with the harness); copy it as <package dir>/zz_demo_test.go"}
json.dump(meta, open(os.path.join(dst, "meta.json"), "w"), indent=1)
print(sid, "confirmed:", meta["confirmed"]["existing_tests_pass_with_change"], meta["confirmed"]["demo_fails_with_change"], meta["confirmed"]["demo_passes_without_change"], "detected_by:", meta["detected_by"])
for k, v in meta["checks"].items(): print("  ", k, v["exit"], v["violation_lines"], v["what"][:300])
