#!/usr/bin/env python3
"""seedtest.py <seed dir (patch.diff, demo_test.go, README.md)> <property id> [more property ids to run]

1. confirms the seeded change in a scratch worktree: patch applies, library builds, existing tests pass,
   the demonstration fails with the change and passes without it;
2. applies the patch to /repo, runs ./check <id> quick for each given id, undoes the patch;
3. prints a JSON summary (for seeded/<id>/meta.json).
"""
import json, os, re, shutil, subprocess, sys, tempfile
ENV = dict(os.environ, GOFLAGS="-mod=mod", GOPROXY="off", GOSUMDB="off", GOTOOLCHAIN="local")

def sh(cmd, cwd=None, timeout=1800):
    p = subprocess.run(cmd, cwd=cwd, env=ENV, shell=isinstance(cmd, str), stdout=subprocess.PIPE, stderr=subprocess.STDOUT, text=True, timeout=timeout)
    return p.returncode, p.stdout

def main():
    d, props = sys.argv[1], sys.argv[2:]
    patch = os.path.join(d, "patch.diff")
    demo = [f for f in os.listdir(d) if f.endswith("_test.go")]
    readme = open(os.path.join(d, "README.md")).read() if os.path.exists(os.path.join(d, "README.md")) else ""
    out = {"dir": d, "properties_checked": props}
    wt = tempfile.mkdtemp(prefix="wtv-", dir="/tmp")
    os.rmdir(wt)
    sh(["git", "-C", "/repo", "worktree", "add", "-q", "--detach", wt, "HEAD"])
    try:
        # where does the demo go?  package clause decides: dials / dials_test -> root; else search README for a directory
        pkgdir = "."
        if demo:
            src = open(os.path.join(d, demo[0])).read()
            m = re.search(r"^package\s+(\w+)", src, re.M)
            pkg = m.group(1) if m else "dials"
            base = pkg[:-5] if pkg.endswith("_test") else pkg
            if base != "dials":
                # find a directory whose package name matches
                # (second pass: directories that hold only test files, e.g. integrationtests)
                for testonly in (False, True):
                    for root, _, files in os.walk(wt):
                        if ".git" in root: continue
                        for f in files:
                            if f.endswith(".go") and (testonly or not f.endswith("_test.go")):
                                mm = re.search(r"^package\s+(\w+)", open(os.path.join(root, f)).read(), re.M)
                                if mm and mm.group(1) in (base, pkg):
                                    pkgdir = os.path.relpath(root, wt); break
                        if pkgdir != ".": break
                    if pkgdir != ".": break
        out["demo_package_dir"] = pkgdir
        rc, o = sh(["git", "-C", wt, "apply", "--check", patch]); out["patch_applies"] = rc == 0
        sh(["git", "-C", wt, "apply", patch])
        rc, o = sh("go build ./... && go test -vet=off -count=1 ./...", cwd=wt); out["existing_tests_pass_with_change"] = rc == 0
        if rc != 0: out["existing_tests_output"] = o[-1500:]
        def rundemo():
            if not demo: return None, ""
            dst = os.path.join(wt, pkgdir, "zz_seed_demo_test.go")
            shutil.copy(os.path.join(d, demo[0]), dst)
            names = re.findall(r"^func (Test\w+)\(", open(dst).read(), re.M)
            rc, o = sh(["go", "test", "-vet=off", "-count=1", "-timeout", "120s", "-run", "^(" + "|".join(names) + ")$", "./" + pkgdir], cwd=wt, timeout=300)
            os.remove(dst)
            return rc, o
        rc, o = rundemo(); out["demo_fails_with_change"] = (rc not in (0, None)); out["demo_output_with_change"] = o[-800:]
        sh(["git", "-C", wt, "checkout", "--", "."]); sh(["git", "-C", wt, "clean", "-fdq"])
        rc, o = rundemo(); out["demo_passes_without_change"] = (rc == 0); out["demo_output_without_change"] = o[-300:]
    finally:
        sh(["git", "-C", "/repo", "worktree", "remove", "--force", wt])
    # run our checks against a scratch worktree with the patch applied, from a private copy of /verif
    # (so that /repo and /verif stay usable meanwhile)
    results = {}
    wt2 = tempfile.mkdtemp(prefix="wts-", dir="/tmp"); os.rmdir(wt2)
    vcopy = tempfile.mkdtemp(prefix="verif-", dir="/tmp")
    sh(["git", "-C", "/repo", "worktree", "add", "-q", "--detach", wt2, "HEAD"])
    sh(["rsync", "-a", "--exclude", ".work", "--exclude", ".git", "/verif/", vcopy + "/"])
    try:
        sh(["git", "-C", wt2, "apply", patch])
        env = dict(ENV, VERIF_REPO=wt2)
        for p in props:
            pr = subprocess.run(["./check", p, "quick"], cwd=vcopy, env=env, stdout=subprocess.PIPE, stderr=subprocess.STDOUT, text=True, timeout=3600)
            rc, o = pr.returncode, pr.stdout
            lines = [l for l in o.splitlines() if l.startswith("VIOLATION") or l.startswith("KNOWN-FINDING")]
            detail = ""
            for l in lines:
                m = re.search(r"replay=(\S+)", l)
                if m and os.path.exists(os.path.join(vcopy, m.group(1))):
                    rp = json.load(open(os.path.join(vcopy, m.group(1))))
                    v = rp.get("violation") or {}
                    detail = (v.get("what") or "") or json.dumps(rp.get("no_longer_checks", ""))[:600]
            results[p] = {"exit": rc, "lines": [l for l in lines if l.startswith("VIOLATION")], "what": detail[:700], "summary": o.splitlines()[-1] if o.splitlines() else ""}
    finally:
        sh(["git", "-C", "/repo", "worktree", "remove", "--force", wt2])
        shutil.rmtree(vcopy, ignore_errors=True)
    out["checks"] = results
    out["detected_by"] = [p for p, r in results.items() if r["exit"] == 1 and r["lines"]]
    print(json.dumps(out, indent=1))

main()
