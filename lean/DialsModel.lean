import DialsModel.Gen.Facts
import DialsModel.Model.Basic
import DialsModel.Model.Proto
import DialsModel.Model.CaseConv
