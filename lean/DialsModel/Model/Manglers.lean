/-
Models of the library's field manglers (package transform and tagformat) as instances of
`Tf.Mangler`:

  alias                 transform/alias_mangler.go
  flatten               transform/flatten_mangler.go          (flattenStruct / getTag / populateStruct)
  anonymous-flatten     transform/anonymous_flatten_mangler.go
  set → slice           transform/set_slice_mangler.go
  type substitution     transform/single_type_substitution_mangler.go   (time.Duration ↔ ParsingDuration)
  string casting        transform/string_casting_mangler.go   (unmangle = parse.String, a parameter here)
  text unmarshaler      transform/text_unmarshaler_mangler.go (UnmarshalText is external: the text is kept)
  tag copy              tagformat/expand_tags.go
  tag reformat          tagformat/reformat_tags.go

Names and tag values go through the case-conversion model (C19).
-/
import DialsModel.Model.Tf
import DialsModel.Model.CaseConv

namespace Dials.Tf

open Dials.CaseConv (Scheme)

def strOf (s : List Char) : String := String.ofList s
def wordsOf (ws : List String) : List (List Char) := ws.map String.toList

/-- an EncodeCasingFunc applied to a word list -/
def encode (sc : Scheme) (ws : List String) : String := strOf (sc.encode (wordsOf ws))

/-! ### alias -/

def aliasFieldSuffix : String := "_alias9wr876rw3"

def aliasMangle (tags : List String) (h : Hdr) (t : Ty) : Outcome (List FT) :=
  let found := tags.filterMap fun tag => (tagGet h.tags (tag ++ "alias")).map fun a => (tag, a)
  if found.isEmpty then .ok [(h, t)]
  else
    let srcTags := found.foldl (fun acc p => tagDel acc (p.1 ++ "alias")) h.tags
    let aTags := found.foldl (fun acc p => tagSet (tagDel acc (p.1 ++ "alias")) p.1 p.2) h.tags
    -- the alias field answers to the alias names only: source-specific name tags (every tag but the
    -- base one) without an alias of their own are dropped from it
    let aTags := (tags.drop 1).foldl (fun acc tag => if found.any (·.1 == tag) then acc else tagDel acc tag) aTags
    let desc := (tagGet aTags "dialsdesc").getD "base dialsdesc unset"
    let setAliases := (found.map fun p => p.1 ++ "=" ++ (tagGet h.tags p.1).getD "")
    let sorted := setAliases.mergeSort (fun a b => a ≤ b)
    let aTags := tagSet aTags "dialsdesc" (desc ++ " (alias of " ++ " ".intercalate sorted ++ ")")
    -- the alias copy of an embedded field is never embedded itself (since the repair of P10:
    -- `aliasField.Anonymous = false`; both copies promoted the same names before); the primary keeps `h.anon`
    .ok [({ h with tags := srcTags }, t), ({ h with name := h.name ++ aliasFieldSuffix, tags := aTags, anon := false }, t)]

mutual
/-- transform/alias_mangler.go isUnset: IsNil for the nillable kinds, IsZero for the others (the fields of
structs held in collections are not pointerified).  Floats and complex numbers are carried as their
text (`"0"`, `"(0+0i)"` are the zero values' canonical texts); a text-unmarshalable struct's zero
value is `nilv`. -/
def isUnsetAt : Ty → Val → Bool
  | _, .nilv => true
  | .basic .bool _, .b x => !x
  | .basic .str _, .s x => x == ""
  | .basic (.int _) _, .i x => x == 0
  | .basic .f32 _, .s x => x == "0"
  | .basic .f64 _, .s x => x == "0"
  | .basic .c64 _, .s x => x == "(0+0i)"
  | .basic .c128 _, .s x => x == "(0+0i)"
  | .dur, .i x => x == 0
  | .pdur, .i x => x == 0
  | .array _ e, .list vs => listUnsetAt e vs
  | .struct fs, .struct vs => fieldsUnsetAt fs vs
  | _, _ => false
def listUnsetAt : Ty → List Val → Bool
  | _, [] => true
  | e, v :: vs => isUnsetAt e v && listUnsetAt e vs
def fieldsUnsetAt : Fields → List Val → Bool
  | .cons _ _ _ t r, v :: vs => isUnsetAt t v && fieldsUnsetAt r vs
  | _, _ => true
end

@[simp] theorem isUnsetAt_nilv (t : Ty) : isUnsetAt t .nilv = true := by
  unfold isUnsetAt; rfl

/-- on the nillable kinds (every field of a pointerified config type) "unset" is "nil" -/
theorem isUnsetAt_ptr (e : Ty) (v : Val) : isUnsetAt (.ptr e) v = v.isNil := by
  cases v <;> simp [isUnsetAt, Val.isNil]
theorem isUnsetAt_slice (e : Ty) (v : Val) : isUnsetAt (.slice e) v = v.isNil := by
  cases v <;> simp [isUnsetAt, Val.isNil]
theorem isUnsetAt_map (k e : Ty) (v : Val) : isUnsetAt (.map k e) v = v.isNil := by
  cases v <;> simp [isUnsetAt, Val.isNil]
theorem isUnsetAt_set (k : Ty) (v : Val) : isUnsetAt (.set k) v = v.isNil := by
  cases v <;> simp [isUnsetAt, Val.isNil]

def aliasUnmangle (h : Hdr) (t : Ty) (fvs : List (FT × Val)) : Outcome Val :=
  match fvs with
  | [(_, v)] => .ok v
  | [(_, v1), (_, v2)] =>
    if !isUnsetAt t v1 && !isUnsetAt t v2 then .err ("both alias and original set for field " ++ h.name)
    else if !isUnsetAt t v1 then .ok v1
    else if !isUnsetAt t v2 then .ok v2
    else .ok v1
  | _ => .err "expected 1 or 2 tuples"

def aliasMangler (tags : List String) : Mangler :=
  { mangle := aliasMangle tags, unmangle := aliasUnmangle, recurse := true }

/-! ### flatten -/

structure FlattenCfg where
  tag : String
  nameEnc : Scheme
  tagEnc : Scheme

def stripPtrs : Ty → Ty
  | .ptr e => stripPtrs e
  | t => t

def ptrDepth : Ty → Nat
  | .ptr e => ptrDepth e + 1
  | _ => 0

/-- getTag: the field's new tag list and the accumulated tag words -/
def flattenGetTag (cfg : FlattenCfg) (h : Hdr) (words : List String) (path : List String) :
    Outcome (List (String × String) × List String) :=
  let wordsR : Outcome (List String) :=
    match tagGet h.tags cfg.tag with
    | some tv => .ok (words ++ [tv])
    | none =>
      if h.anon then .ok words
      else match CaseConv.decodeGoCamel h.name.toList with
        | some ws => .ok (words ++ ws.map strOf)
        | none => .err "error decoding field name"
  match wordsR with
  | .ok ws =>
    let tv := encode cfg.tagEnc ws
    .ok (tagSet (tagSet h.tags cfg.tag tv) "dialsfieldpath" (",".intercalate path), ws)
  | .err c => .err c
  | .panic c => .panic c

def flattenStruct (cfg : FlattenCfg) : Nat → List String → List String → List String → List FT → Outcome (List FT)
  | 0, _, _, _, _ => .err "fuel"
  | _ + 1, _, _, _, [] => .ok []
  | fuel + 1, names, words, path, (nh, nt) :: rest =>
    let fNames := if nh.anon then names else names ++ [nh.name]
    let fPath := path ++ [nh.name]
    match flattenGetTag cfg nh words fPath with
    | .err c => .err c
    | .panic c => .panic c
    | .ok (tags, words') =>
      let here : Outcome (List FT) :=
        match stripPtrs nt with
        | .struct ifs => flattenStruct cfg fuel fNames words' fPath ifs.toList
        | _ => .ok [({ name := encode cfg.nameEnc fNames, tags := tags, anon := false }, nt)]
      match here, flattenStruct cfg fuel names words path rest with
      | .ok a, .ok b => .ok (a ++ b)
      | .err c, _ => .err c
      | .panic c, _ => .panic c
      | _, .err c => .err c
      | _, .panic c => .panic c

def isNilableTy : Ty → Bool
  | .ptr _ => true
  | .slice _ => true
  | .map _ _ => true
  | .set _ => true
  | _ => false

def flattenMangle (cfg : FlattenCfg) (fuel : Nat) (h : Hdr) (t : Ty) : Outcome (List FT) :=
  if !isNilableTy t then .err "flattenMangler: programmer error: expected pointerized fields"
  else match flattenGetTag cfg h [] [h.name] with
    | .err c => .err c
    | .panic c => .panic c
    | .ok (tags, words) =>
      match stripPtrs t with
      | .struct ifs => flattenStruct cfg fuel (if h.anon then [] else [h.name]) words [h.name] ifs.toList
      | _ => .ok [({ name := encode cfg.nameEnc [h.name], tags := tags, anon := false }, t)]

def wrapPtrs : Nat → Val → Val
  | 0, v => v
  | n + 1, v => .ptr (wrapPtrs n v)

/-- populateStruct: returns (value for this position, remaining input values, anyChildSet).  When a
child was set the rebuilt struct is wrapped in the declared pointer levels; a struct held by value
(`ptrDepth t = 0`: not pointerified, a field of a struct behind `**T`) receives the rebuilt struct
itself (since the repair of P02: `setVal.Elem()`; `reflect.Set` of a `*struct` into a struct panicked
before).  When no child was set the position keeps its zero value (`nilv`: the nil pointer, or the zero
struct for a by-value field). -/
def populate : Nat → Ty → List Val → Outcome (Val × List Val × Bool)
  | 0, _, _ => .err "fuel"
  | fuel + 1, t, vals =>
    match stripPtrs t with
    | .struct ifs =>
      let rec fields (fl : Nat) (fs : List FT) (vals : List Val) (acc : List Val) (any : Bool) :
          Outcome (List Val × List Val × Bool) :=
        match fl, fs with
        | 0, _ => .err "fuel"
        | _ + 1, [] => .ok (acc, vals, any)
        | fl + 1, (_, nt) :: rest =>
          match stripPtrs nt with
          | .struct _ =>
            match populate fuel nt vals with
            | .ok (v, vals', a) => fields fl rest vals' (acc ++ [v]) (any || a)
            | .err c => .err c
            | .panic c => .panic c
          | _ =>
            match vals with
            | [] => .panic "index out of range"
            | v :: vals' => fields fl rest vals' (acc ++ [v]) (any || !v.isNil)
      match fields (ifs.toList.length + 1) ifs.toList vals [] false with
      | .ok (fvs, vals', any) =>
        if any then .ok (wrapPtrs (ptrDepth t) (.struct fvs), vals', true)
        else .ok (.nilv, vals', false)
      | .err c => .err c
      | .panic c => .panic c
    | _ =>
      match vals with
      | [] => .panic "index out of range"
      | v :: vals' => .ok (v, vals', !v.isNil)

def flattenUnmangle (fuel : Nat) (_ : Hdr) (t : Ty) (fvs : List (FT × Val)) : Outcome Val :=
  match populate fuel t (fvs.map (·.2)) with
  | .ok (v, rest, _) => if rest.isEmpty then .ok v else .err "number of input values not equal to number of struct fields"
  | .err c => .err c
  | .panic c => .panic c

def flattenMangler (cfg : FlattenCfg) (fuel : Nat) : Mangler :=
  { mangle := flattenMangle cfg fuel, unmangle := flattenUnmangle fuel, recurse := false }

/-! ### anonymous flatten -/

/-- Mangle: only embedded structs and embedded pointers to structs are hoisted.  An embedded pointer whose
pointee is not a struct (a named scalar that Pointerify wrapped, a `*string` left by the text-unmarshaler
mangler, and also `**struct`: `Type.Elem().Kind()` is Ptr there) is passed through unchanged (since the
repair of P08; the pointer was stripped and the recursion returned the field with the stripped type
before). -/
def anonMangle : Nat → Hdr → Ty → Outcome (List FT)
  | 0, _, _ => .err "fuel"
  | fuel + 1, h, t =>
    if !h.anon then .ok [(h, t)]
    else match t with
      | .ptr (.struct ifs) => anonMangle fuel h (.struct ifs)
      | .struct ifs => .ok ifs.toList
      | _ => .ok [(h, t)]

/-- Unmangle: the mirror image of `anonMangle`; an embedded pointer to a non-struct (including `**struct`)
forwards its single value (`fvs[0].Value`) like every non-hoisted field (since the repair of P08;
`NumField` of the non-struct pointee panicked before, and the model rebuilt a `*struct` for every
pointer). -/
def anonUnmangle (h : Hdr) (t : Ty) (fvs : List (FT × Val)) : Outcome Val :=
  if !h.anon then
    match fvs with
    | (_, v) :: _ => .ok v
    | [] => .panic "index out of range"
  else match t with
    | .ptr (.struct _) =>
      let vs := fvs.map (·.2)
      if vs.all Val.isNil then .ok .nilv else .ok (.ptr (.struct vs))
    | .struct _ => .ok (.struct (fvs.map (·.2)))
    | _ =>
      match fvs with
      | (_, v) :: _ => .ok v
      | [] => .panic "index out of range"

def anonMangler (fuel : Nat) : Mangler :=
  { mangle := anonMangle fuel, unmangle := anonUnmangle, recurse := true }

/-! ### set → slice -/

def setSliceMangler : Mangler :=
  { mangle := fun h t => match t with
      | .set k => .ok [(h, .slice k)]
      | _ => .ok [(h, t)],
    unmangle := fun _ t fvs =>
      match fvs with
      | [] => .panic "index out of range"
      | (_, v) :: _ =>
        match t with
        | .set _ =>
          match v with
          | .nilv => .ok .nilv
          | .list vs => .ok (.setv vs)
          | _ => .err "expected slice to unmangle"
        | _ => .ok v,
    recurse := true }

/-! ### type substitution time.Duration → ParsingDuration -/

def subType : Ty → Ty
  | .dur => .pdur
  | .ptr e => .ptr (subType e)
  | .slice e => .slice (subType e)
  | .array n e => .array n (subType e)
  | .map k v => .map (subType k) (subType v)
  | t => t

/-- values of Duration and ParsingDuration are the same numbers: the substitution is the identity on
untyped values -/
def durSubMangler : Mangler :=
  { mangle := fun h t => .ok [(h, subType t)],
    unmangle := fun _ _ fvs => match fvs with
      | (_, v) :: _ => .ok v
      | [] => .panic "index out of range",
    recurse := true }

/-! ### string casting and text unmarshaler -/

def strPtrTy : Ty := .ptr (.basic .str false)

/-- the reflect kinds with a `Type.Elem()` (pointer, slice, array, map; `.set` is a map) -/
@[simp] def hasElemTy : Ty → Bool
  | .ptr _ | .slice _ | .array _ _ | .map _ _ | .set _ => true
  | _ => false

/-- `parse` = parse.String(text, castTo) -/
def stringCastMangler (parse : String → Ty → Outcome Val) : Mangler :=
  { mangle := fun h _ => .ok [(h, strPtrTy)],
    unmangle := fun _ t fvs =>
      match fvs with
      | [] => .panic "index out of range"
      | (_, v) :: _ =>
        match v with
        | .nilv => .ok .nilv
        | .ptr (.s str) =>
          -- castTo is `sf.Type.Elem()` for everything but slices and maps.  A type without an element type
          -- (a scalar or struct that Pointerify did not wrap: the fields of a struct behind `**T`) is
          -- rejected with an error (since the repair of P02; Type.Elem() panicked before); for an array
          -- castTo is the element type and the parsed pointer is rejected downstream as not assignable
          -- (an error either way)
          if !hasElemTy t then .err "cannot cast a string to a field that is not a pointer, slice or map" else
          let castTo := match t with
            | .slice _ => t
            | .map _ _ => t
            | .set _ => t
            | .ptr e => e
            | other => other
          -- parse.String returns slices and maps as they are: boxed for a pointer-to-collection field
          let boxed := match t with
            | .ptr (.slice _) => true
            | .ptr (.map _ _) => true
            | .ptr (.set _) => true
            | _ => false
          match parse str castTo with
          | .ok v => .ok (if boxed then .ptr v else v)
          | .err c => .err c
          | .panic c => .panic c
        | _ => .panic "not a *string",
    recurse := true }

def isTU : Ty → Bool
  | .tu _ => true
  | .ptr (.tu _) => true
  | _ => false

/-- UnmarshalText is external: the unmangled value keeps the text -/
def textUnmarshalerMangler : Mangler :=
  { mangle := fun h t => .ok [(h, if isTU t then strPtrTy else t)],
    unmangle := fun _ t fvs =>
      match fvs with
      | [] => .panic "index out of range"
      | (_, v) :: _ =>
        if isTU t then
          match v with
          | .nilv => .ok .nilv
          | .ptr (.s str) => .ok (.ptr (.s str))
          | _ => .panic "not a *string"
        else .ok v,
    recurse := true }

/-! ### tag copy / tag reformat -/

def tagCopyMangler (src new : String) : Mangler :=
  { mangle := fun h t =>
      match tagGet h.tags src with
      | some sv =>
        if sv == "" then .ok [(h, t)]
        else match tagGet h.tags new with
          | some nv => if nv != "" then .ok [(h, t)] else .ok [({ h with tags := h.tags ++ [(new, sv)] }, t)]
          | none => .ok [({ h with tags := h.tags ++ [(new, sv)] }, t)]
      | none => .ok [(h, t)],
    unmangle := fun _ _ fvs => match fvs with
      | (_, v) :: _ => .ok v
      | [] => .panic "index out of range",
    recurse := true }

/-- `dec` = the tag's DecodeCasingFunc (DecodeGoCamelCase is used for the field name fallback) -/
def tagReformatMangler (tag : String) (dec : List Char → Option (List (List Char))) (enc : Scheme) : Mangler :=
  { mangle := fun h t =>
      let (nameVal, dcf) := match tagGet h.tags tag with
        | some v => if v == "" then (h.name, CaseConv.decodeGoCamel) else (v, dec)
        | none => (h.name, CaseConv.decodeGoCamel)
      match dcf nameVal.toList with
      | some ws => .ok [({ h with tags := tagSet h.tags tag (strOf (enc.encode ws)) }, t)]
      | none => .err "case decoding failed",
    unmangle := fun _ _ fvs => match fvs with
      | (_, v) :: _ => .ok v
      | [] => .panic "index out of range",
    recurse := true }

end Dials.Tf
