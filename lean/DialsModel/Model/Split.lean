/-
Token-level models of /repo/parse/split_string_slice.go (splitStringsSlice) and
/repo/parse/split_map.go (splitMap) and of the collection parsers built on them
(StringSlice, StringSet, Map for string→string, StringStringSliceMap).

text/scanner and strconv.Unquote are external: the state machines consume the *token stream*
the real scanner produced (logged by the verif hook), string tokens already unquoted
(`none` = Unquote failed).  That the text the flag helpers print scans to the canonical token
stream (`canonSlice`, `canonMap`) is the stated assumption, sampled by the correspondence.
-/
import DialsModel.Model.Basic

namespace Dials.Parse

abbrev S := List Char

inductive Tok where
  | str (unq : Option S)      -- scanner.String / scanner.RawString after strconv.Unquote
  | word (txt : S)            -- scanner.Ident / Int / Float: the token text itself
  | comma
  | colon
  | other                     -- any other token (char literal, stray punctuation)
  | eof
  | scanErr                   -- the scanner reported an error (ErrorCount != 0): the loop stops
deriving Repr, DecidableEq, Inhabited

/-- splitStringsSlice: the values added, in order, or an error -/
def splitSlice : List Tok → Bool → List S → Outcome (List S)
  | [], _, acc => .ok acc
  | t :: ts, inValue, acc =>
    match t with
    | .str none => .err "unquote"
    | .str (some txt) => if inValue then splitSlice ts false (acc ++ [txt]) else .err "unexpected string literal"
    | .word txt => if inValue then splitSlice ts false (acc ++ [txt]) else .err "unexpected string literal"
    | .comma => splitSlice ts true acc
    | .eof => .ok acc
    | .scanErr => .err "parsing failed"
    | _ => .err "unexpected token"

/-- StringSlice(s): the empty input is the empty slice without scanning -/
def stringSlice (empty : Bool) (toks : List Tok) : Outcome (List S) :=
  if empty then .ok [] else splitSlice toks true []

/-- StringSet: the add callback rejects a value that is already present.  (The callback's error
surfaces as the split error; `acc` doubles as the set.) -/
def splitSet : List Tok → Bool → List S → Outcome (List S)
  | [], _, acc => .ok acc
  | t :: ts, inValue, acc =>
    match t with
    | .str none => .err "unquote"
    | .str (some txt) =>
      if inValue then (if acc.contains txt then .err "already present" else splitSet ts false (acc ++ [txt]))
      else .err "unexpected string literal"
    | .word txt =>
      if inValue then (if acc.contains txt then .err "already present" else splitSet ts false (acc ++ [txt]))
      else .err "unexpected string literal"
    | .comma => splitSet ts true acc
    | .eof => .ok acc
    | .scanErr => .err "parsing failed"
    | _ => .err "unexpected token"

def stringSet (empty : Bool) (toks : List Tok) : Outcome (List S) :=
  if empty then .ok [] else splitSet toks true []

structure MapSt where
  inKey : Bool := true
  inValue : Bool := false
  curKey : S := []
  curVal : S := []
  acc : List (S × S) := []       -- key/value pairs handed to addKV, in order

/-- splitMap with the add callback `add` (returns the new accumulator or an error class) -/
def splitMapWith (add : List (S × S) → S → S → Outcome (List (S × S))) : List Tok → MapSt → Outcome (List (S × S))
  | [], st => .ok st.acc            -- (the real loop only ends on EOF or a scanner error)
  | t :: ts, st =>
    let lit (txt : S) : Outcome (List (S × S)) :=
      if st.inKey then splitMapWith add ts { st with curKey := txt }
      else if st.inValue && !st.curKey.isEmpty then splitMapWith add ts { st with curVal := txt }
      else .err "unexpected string literal"
    match t with
    | .str none => .err "unquote"
    | .str (some txt) => lit txt
    | .word txt => lit txt
    | .comma =>
      if !st.curKey.isEmpty then
        match add st.acc st.curKey st.curVal with
        | .ok acc' => splitMapWith add ts { inKey := true, inValue := false, curKey := [], curVal := [], acc := acc' }
        | .err c => .err c
        | .panic c => .panic c
      else splitMapWith add ts { st with inKey := true, inValue := false, curKey := [], curVal := [] }
    | .colon =>
      if st.inValue || st.curKey.isEmpty then .err "unexpected colon"
      else splitMapWith add ts { st with inKey := false, inValue := true }
    | .eof =>
      if !st.curKey.isEmpty then add st.acc st.curKey st.curVal else .ok st.acc
    | .scanErr => .err "parsing failed"
    | .other => splitMapWith add ts st        -- splitMap's switch has no default: other tokens are ignored

/-- parse.Map for map[string]string: duplicate keys are rejected -/
def addUnique (acc : List (S × S)) (k v : S) : Outcome (List (S × S)) :=
  if acc.any (fun p => p.1 == k) then .err "duplicate key" else .ok (acc ++ [(k, v)])

def mapStringString (toks : List Tok) : Outcome (List (S × S)) := splitMapWith addUnique toks {}

/-- StringStringSliceMap: values accumulate per key; the pair list in order is the canonical form -/
def addMulti (acc : List (S × S)) (k v : S) : Outcome (List (S × S)) := .ok (acc ++ [(k, v)])

def mapStringStringSlice (toks : List Tok) : Outcome (List (S × S)) := splitMapWith addMulti toks {}

/-! ### canonical token streams of what the flag helpers print -/

/-- `"a","b","c"` -/
def canonSlice : List S → List Tok
  | [] => [.eof]
  | [x] => [.str (some x), .eof]
  | x :: xs => .str (some x) :: .comma :: canonSlice xs

/-- `"k":"v","k2":"v2"` -/
def canonMap : List (S × S) → List Tok
  | [] => [.eof]
  | [(k, v)] => [.str (some k), .colon, .str (some v), .eof]
  | (k, v) :: rest => .str (some k) :: .colon :: .str (some v) :: .comma :: canonMap rest

end Dials.Parse
