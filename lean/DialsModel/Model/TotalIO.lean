/-
Driver op for C16 (outcome classes of the parse.String model):

  c16 pstr <hex text> <k> tok*k <m> tok*m <ty>      → ok | err | panic <class>
      k tokens of splitStringsSlice's scanner and m tokens of splitMap's scanner over the text
      (the real scanner's streams, as in `tf env`), then the type in the Tf grammar.
-/
import DialsModel.Model.TfIO

namespace Dials.Tf

def handleC16 : List String → String
  | "pstr" :: h :: k :: rest =>
    match hexStr h, k.toNat? with
    | some text, some k =>
      match takeToks k rest with
      | some (st, m :: r2) =>
        match m.toNat? with
        | some m =>
          match takeToks m r2 with
          | some (mt, tyToks) =>
            match parseTy (tyToks.length + 1) tyToks with
            | some (ty, []) =>
              match parseString (fun _ => (st, mt)) text ty with
              | .ok _ => "ok"
              | .err _ => "err"
              | .panic c => "panic " ++ c
            | _ => "bad-type"
          | none => "bad-toks"
        | none => "bad-op"
      | _ => "bad-toks"
    | _, _ => "bad-op"
  | _ => "bad-op"

end Dials.Tf
