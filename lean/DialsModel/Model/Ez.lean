/-
Model of /repo/ez/ez.go `ConfigFileEnvFlagDecoderFactoryParams` (all other entry points are thin
wrappers that only choose the decoder factory) as the FIXED SCRIPT it executes on the runtime model
of Model/Runtime.lean.

The script is not written down here: it is the regenerated list `Facts.ezMainOps` (library calls of
the function body in statement order; `Facts.ezNoFileOps` for the `!filepathSet` branch), interpreted
by `execTok` / `Cfg.step` below; the parameters of `dials.Params`, the order of the sources handed to `Params.Config`,
the source `SetSource` is called on and the set of operations whose error is returned at once are
regenerated facts too (`Facts.ezDelay`, `ezSuppress`, `ezSkipInitial`, `ezSources`, `ezSetSourceOn`,
`ezChecked`, `ezNoFileChecked`).

Data level.  Exactly as in the runtime model a config IS the slot snapshot it was stacked from: one
value per source, in the order of `Facts.ezSources`.  The Blank source contributes the empty layer
(`blankV`); what the file at a path decodes to, what `ConfigPath` answers on a config, whether a
snapshot stacks and verifies are the explicit inputs `Env` (external behaviour: OS, decoders, the
user's ConfigPath/Verify methods).  That a snapshot [file, env, flag] means
"defaults < file < environment < flags" leaf by leaf is C01.

Concurrency.  ez's caller is client 0 of the runtime model; the monitor and the callback goroutine
run concurrently with it.  Wherever a real race exists the order is chosen by `Sched` (which
goroutine reaches its select first, whether EnableVerification's request is queued or handed over
directly, before or after the monitor submits the new-config event, and when the callback goroutine
handles that event); the theorems quantify over all 36 values of `Sched`.  Scheduling attempts that
are not enabled are skipped (`Run.attempt`); while one of ez's calls is blocked only the monitor runs
(`monUntilRet`): the callback goroutine's steps are taken before or after the call.  The caller's context (context 0, the one handed to
Config) is assumed not to be cancelled while ez runs.
-/
import DialsModel.Model.Runtime

namespace Dials.Ez
open Dials Dials.Runtime

/-- what one call of an ez entry point depends on -/
structure Env where
  W : World                       -- which slot snapshots stack / verify
  envV : Nat                      -- value of the environment source
  flagV : Nat                     -- value of the flag source
  path : Slots → Option Nat       -- `ConfigPath()` of a config: none = ("", false)
  decoder : Nat → Bool            -- the decoder factory returns a non-nil decoder for this path
  file : Nat → Option Nat         -- what the file source's `Value` yields for a path: none = open/decode error
  watch : Bool                    -- `Params.WatchConfigFile`

/-- the value of a Blank source without inner source: the empty layer -/
def blankV : Nat := 0

/-- the `dials.Params` literal of ez.go (regenerated) -/
def ezParams : Params :=
  { skipInitial := Facts.ezSkipInitial, delay := Facts.ezDelay, suppress := Facts.ezSuppress }

def srcVal (E : Env) : Facts.EzSrc → Nat
  | .blank => blankV
  | .env => E.envV
  | .flag => E.flagV
  | .other => 0

/-- the slot snapshot `Params.Config` stacks: one slot per source, in the order of the call -/
def slots₀ (E : Env) : Slots := Facts.ezSources.map (srcVal E)

/-- only `sourcewrap.Blank` implements `dials.Watcher` among ez's sources -/
def watching₀ : List Bool := Facts.ezSources.map (fun k => k == .blank)

/-- the slot the file's value is reported into: the position of the source SetSource is called on -/
def fileSlot : Nat := Facts.ezSources.idxOf Facts.ezSetSourceOn

/-- how EnableVerification's request meets the monitor, which is about to submit the new-config event -/
inductive Race where
  | handoff        -- monitor submits the event and blocks in its select; the request is handed over directly
  | queuedAfter    -- monitor submits the event; the request is queued; the monitor dequeues it
  | queuedBefore   -- the request is queued before the monitor submits the event
deriving Repr, DecidableEq, Inhabited

/-- when the callback goroutine handles the new-config event of the file's install -/
inductive CbWhen where
  | later | early | beforeDrain
deriving Repr, DecidableEq, Inhabited

structure Sched where
  monParked : Bool := true     -- the monitor reaches its select before ez's first call after Config
  cbParked : Bool := true      -- so does the callback goroutine
  race : Race := .handoff
  cbWhen : CbWhen := .later
deriving Repr, DecidableEq, Inhabited

inductive EzErr where
  | config                 -- Params.Config failed (stacking the file-less sources)
  | noDecoder              -- "decoderFactory provided a nil decoder"
  | fileValue              -- "failed to integrate file source: initial call to Value failed"
  | integrate (r : Res)    -- "failed to integrate file source: failed to propagate change"
  | verify                 -- "initial configuration verification failed"
  | stuck                  -- the script cannot proceed (a call would block forever)
deriving Repr, DecidableEq, Inhabited

/-- interpreter state: the runtime state plus ez's local variables -/
structure Run where
  st : State
  started : Bool := false          -- Config has returned d
  base : Option Slots := none      -- basecfg := d.View()
  path : Option Nat := none        -- cfgPath
  doneOnExit : Bool := false       -- `defer blank.Done(ctx)` is armed
deriving Repr, Inhabited

/-! The interpreter is written in a first-order, call-by-value style (named stage functions instead of
continuations in lambdas, fuelled loops over an explicit configuration): `simp` then evaluates the
script on symbolic data without ever unfolding a step function on a state it does not know yet. -/

def Run.withSt (r : Run) (s : State) : Run := { r with st := s }

def Run.step (W : World) (r : Run) (l : Label) : Option Run :=
  (Runtime.step W r.st l).map r.withSt

/-- `Run.step` with the run last (for partial application) -/
def Run.stepL (W : World) (l : Label) (r : Run) : Option Run := r.step W l

/-- a scheduling attempt: a step that is not enabled is skipped -/
def Run.attempt (W : World) (r : Run) (l : Label) : Run := (r.step W l).getD r

def Run.attempts (W : World) (r : Run) (ls : List Label) : Run := ls.foldl (Run.attempt W) r

def isReturned : CSt → Bool
  | .returned _ => true
  | _ => false

/-- let the monitor run until client 0's call has returned -/
def monUntilRet (W : World) : Nat → Run → Option Run
  | 0, _ => none
  | n + 1, r =>
    if isReturned (getC r.st.clients 0) then some r
    else (r.step W (.runMon 0)).bind (monUntilRet W n)

/-- take the result of client 0's returned call -/
def callFinish (W : World) (r : Run) : Option (Run × Res) :=
  match getC r.st.clients 0 with
  | .returned res => (r.step W (.ack 0)).map (fun r' => (r', res))
  | _ => none

/-- one API call of ez's goroutine: begin, run up to the first block, let the monitor work until the
call returns, take the result -/
def call (W : World) (r : Run) (op : Op) : Option (Run × Res) :=
  (((r.step W (.begin 0 op 0)).bind (Run.stepL W (.runClient 0 0))).bind (monUntilRet W 8)).bind (callFinish W)

def cbSteps : List Label := [.runCb, .runCb, .runCb]

def enablePre (sch : Sched) : List Label :=
  let cbEarly := if sch.cbWhen = .early then cbSteps else []
  match sch.race with
  | .handoff => [Label.runMon 0] ++ cbEarly ++ [Label.runMon 0]
  | .queuedAfter => [Label.runMon 0] ++ cbEarly
  | .queuedBefore => []

def drainPre (sch : Sched) : List Label :=
  if sch.cbWhen = .beforeDrain ∨ (sch.cbWhen = .early ∧ sch.race = .queuedBefore) then cbSteps else []

inductive Next where
  | cont (r : Run)
  | exit (e : Option EzErr) (r : Run)

/-- one operation of the script; `checked`: its failure is returned at once -/
def execTok (E : Env) (sch : Sched) (r : Run) (checked : Bool) : Facts.EzTok → Next
  | .config =>
    match configInit E.W ezParams (slots₀ E) with
    | .ok _ =>
      let r : Run := { st := initState ezParams (slots₀ E) watching₀, started := true }
      let r := if sch.monParked then r.attempt E.W (.runMon 0) else r
      let r := if sch.cbParked then r.attempt E.W .runCb else r
      .cont r
    | _ => if checked then .exit (some .config) r else .exit (some .stuck) r
  | .deferDone => if r.started then .cont { r with doneOnExit := !E.watch } else .exit (some .stuck) r
  | .view =>
    if !r.started then .exit (some .stuck) r else
    match call E.W r .view with
    | some (r, .version v) => .cont { r with base := some v.cfg }
    | _ => .exit (some .stuck) r
  | .configPath =>
    match r.base with
    | some b => .cont { r with path := E.path b }
    | none => .exit (some .stuck) r
  | .decoder =>
    match r.path with
    | some p => if E.decoder p || !checked then .cont r else .exit (some .noDecoder) r
    | none => .exit (some .stuck) r
  | .fileSource => .cont r
  | .setSource =>
    if !r.started then .exit (some .stuck) r else
    match r.path with
    | none => .exit (some .stuck) r
    | some p =>
      match E.file p with
      | none => if checked then .exit (some .fileValue) r else .cont r
      | some v =>
        match call E.W r (.report fileSlot v true) with
        | some (r, .okNil) => .cont r
        | some (r, res) => if checked then .exit (some (.integrate res)) r else .cont r
        | none => .exit (some .stuck) r
  | .enable =>
    if !r.started then .exit (some .stuck) r else
    match call E.W (r.attempts E.W (enablePre sch)) .enable with
    | some (r, .enableOk _) => .cont r
    | some (r, _) => if checked then .exit (some .verify) r else .cont r
    | none => .exit (some .stuck) r
  | .drain =>
    if !r.started then .exit (some .stuck) r else
    match call E.W (r.attempts E.W (drainPre sch)) .events with
    | some (r, .event _) => .cont r
    | _ => .exit (some .stuck) r          -- `<-d.Events()` on an empty channel blocks forever

/-- interpreter configuration: the run, the operations still to do on the current path, the
operations whose error is checked on that path, and the result once the function has returned -/
structure Cfg where
  r : Run
  ts : List Facts.EzTok
  chk : List Facts.EzTok
  res : Option (Option EzErr) := none

/-- what follows an operation: after `configPath` the `!filepathSet` branch runs `Facts.ezNoFileOps`
and returns -/
def Cfg.next (c : Cfg) (t : Facts.EzTok) (ts : List Facts.EzTok) : Next → Cfg
  | .exit e r => { c with r := r, ts := [], res := some e }
  | .cont r =>
    if t = .configPath ∧ r.path = none then { r := r, ts := Facts.ezNoFileOps, chk := Facts.ezNoFileChecked }
    else { c with r := r, ts := ts }

/-- one operation; falling off the end is `return d, nil` -/
def Cfg.step (E : Env) (sch : Sched) (c : Cfg) : Cfg :=
  match c.res with
  | some _ => c
  | none =>
    match c.ts with
    | [] => { c with res := some none }
    | t :: ts => c.next t ts (execTok E sch c.r (c.chk.contains t) t)

def Cfg.run (E : Env) (sch : Sched) : Nat → Cfg → Cfg
  | 0, c => c
  | n + 1, c => Cfg.run E sch n (c.step E sch)

structure Out where
  err : Option EzErr          -- none: ez returned (d, nil)
  st : Option State           -- the runtime state when ez returns; none when Config itself failed
  path : Option Nat           -- the path handed to the file source (if ez got that far)
deriving Repr

/-- the deferred `blank.Done(ctx)` -/
def finish (E : Env) (r : Run) : Run :=
  if r.doneOnExit then ((call E.W r (.done fileSlot)).map Prod.fst).getD r else r

def Out.of (E : Env) (c : Cfg) : Out :=
  match c.res with
  | none => { err := some .stuck, st := none, path := none }     -- out of fuel: cannot happen (script length)
  | some e =>
    if c.r.started then { err := e, st := some (finish E c.r).st, path := c.r.path }
    else { err := e, st := none, path := none }

/-- more than the number of operations of both paths -/
def fuel : Nat := Facts.ezMainOps.length + Facts.ezNoFileOps.length + 1

def ezRun (E : Env) (sch : Sched) : Out :=
  Out.of E (Cfg.run E sch fuel { r := { st := initState ezParams [] [] }, ts := Facts.ezMainOps, chk := Facts.ezChecked })

/-! ### after ez has returned -/

/-- the monitor works until it blocks in its select (or has exited) -/
def monQuiesce (W : World) : Nat → State → State
  | 0, s => s
  | n + 1, s => (step W s (.runMon 0)).elim s (monQuiesce W n)

/-- the callback goroutine works until it blocks in its select (or waits in a callback) -/
def cbQuiesce (W : World) : Nat → State → State
  | 0, s => s
  | n + 1, s => (step W s .runCb).elim s (cbQuiesce W n)

def stepL (W : World) (l : Label) (s : State) : Option State := step W s l

/-- a later report of the watching file source (client 1, `ReportNewValue`: not blocking) and the
monitor's handling of it -/
def laterReport (W : World) (s : State) (v : Nat) : Option State :=
  (((step W (monQuiesce W 4 s) (.begin 1 (.report fileSlot v false) 0)).bind (stepL W (.runClient 1 0))).map
    (monQuiesce W 8)).bind (stepL W (.ack 1))

/-! ### projections of the ghost log used by the property -/

/-- the `Verify()` calls, oldest first: (receiver, result) -/
def verifyCalls (s : State) : List (Slots × Bool) :=
  s.log.reverse.filterMap fun o => match o with | .verify cfg ok _ => some (cfg, ok) | _ => none

/-- the global callbacks entered (OnNewConfig / OnWatchedError), oldest first -/
def globalCalls (s : State) : List Call :=
  s.log.reverse.filterMap fun o =>
    match o with
    | .enter (.onNew a b c) => some (.onNew a b c)
    | .enter (.onErr a b c) => some (.onErr a b c)
    | _ => none

/-- values received from `Events()` so far, oldest first -/
def eventsReceived (s : State) : List Version :=
  s.log.reverse.filterMap fun o => match o with | .evRecv _ v => some v | _ => none

end Dials.Ez
