/-
Model of the two flag sources, /repo/sources/flag/flag.go and /repo/sources/pflag/pflag.go
(`registerFlags`, `mkname`, `Value`, `willOverflow`), of the dials flag helpers
(/repo/sources/flag/flaghelper/*.go: `Set` of the string-slice / string-set / string-map /
string→string-slice-map / integral-slice flags) and of `transform.GetField`
(/repo/transform/flatten_mangler.go), on top of the transformer model (Tf / Manglers / Sources).

What is regenerated from the source on every run (facts F12, F14) and drives this model:
  * the mangler chains `Facts.chainFlag` / `Facts.chainPFlag`, whose flatten entry carries the
    placeholders `$FieldNameEncodeCasing` / `$TagEncodeCasing` (instantiated from the NameConfig);
  * the kind → constructor routing tables `Facts.flagTableStd` / `Facts.flagTablePFlag`;
  * the tag order of `mkname`, the skip guards of `registerFlags`, the FlagSet visitor used by `Value`,
    whether `willOverflow` guards the narrowing `Convert`, and that the helpers' first `Set` replaces
    the default.

External (inputs of the model, never proved):
  * the argument-list grammar of `flag` / `pflag`: the model consumes the ordered list of
    (flag name, text) OCCURRENCES the package feeds to the flags' `Set` methods;
  * strconv.ParseFloat / ParseComplex, time.ParseDuration, time.Time / TextUnmarshaler.UnmarshalText:
    an occurrence carries what the external parser made of its text (`ExtRes`);
  * text/scanner tokenisation of collection texts (`TokTable`, as in C11 / C15);
  * pflag's own slice flags (`StringSliceP`): route `native`, not modelled (marker value).
-/
import DialsModel.Model.Sources

namespace Dials.FlagSrc
open Dials.Tf Dials.Parse

inductive Pkg where
  | std | pflag
deriving Repr, DecidableEq, Inhabited

def Pkg.table : Pkg → List (String × String)
  | .std => Facts.flagTableStd
  | .pflag => Facts.flagTablePFlag

def Pkg.mknameTags : Pkg → List String
  | .std => Facts.flagMknameStd
  | .pflag => Facts.flagMknamePFlag

def Pkg.skips : Pkg → List String
  | .std => Facts.flagSkipsStd
  | .pflag => Facts.flagSkipsPFlag

/-- `willOverflow` is consulted (and its error returned) before the narrowing `Convert` -/
def Pkg.checked : Pkg → Bool
  | .std => Facts.flagOverflowCheckedStd && Facts.flagWillOverflowInts
  | .pflag => Facts.flagOverflowCheckedPFlag && Facts.flagWillOverflowInts

/-- `Value` walks every registered flag instead of only the ones that occurred -/
def Pkg.visitAll : Pkg → Bool
  | .std => Facts.flagVisitStd != "Visit"
  | .pflag => Facts.flagVisitPFlag != "Visit"

def Pkg.chainSpecs : Pkg → List (List String)
  | .std => Facts.chainFlag
  | .pflag => Facts.chainPFlag

/-! ### NameConfig and the chain -/

/-- instantiate the NameConfig placeholders of the regenerated chain -/
def instSpecs (nameEnc tagEnc : String) (specs : List (List String)) : List (List String) :=
  specs.map fun sp => sp.map fun w =>
    if w == "$FieldNameEncodeCasing" then nameEnc else if w == "$TagEncodeCasing" then tagEnc else w

/-- DefaultFlagNameConfig -/
def defaultNameEnc : String := "EncodeUpperCamelCase"
def defaultTagEnc : String := "EncodeKebabCase"

def noParser : String → Ty → Outcome Val := fun _ _ => .err "no parser"

def flagChain (fuel : Nat) (p : Pkg) (nameEnc tagEnc : String) : Option (List Mangler) :=
  chainOfSpecs fuel noParser (instSpecs nameEnc tagEnc p.chainSpecs)

/-! ### (a) flag names -/

/-- mkname: the first tag of the list that is present; the Go code panics when none is -/
def mknameFrom : List String → Hdr → Outcome String
  | [], h => .panic ("expected dials tag name for struct field " ++ h.name)
  | t :: ts, h =>
    match tagGet h.tags t with
    | some n => .ok n
    | none => mknameFrom ts h

def mkname (p : Pkg) (h : Hdr) : Outcome String := mknameFrom p.mknameTags h

/-! ### (b) routing -/

inductive Route where
  | int (signed : Bool) (bits : Nat) (k : IntKind)  -- strconv.ParseInt / ParseUint (text, 0, bits); leaf kind k
  | bool                                            -- strconv.ParseBool
  | str
  | ext (ctor : String)                             -- float / complex / duration / time.Time / TextUnmarshaler: external parser
  | strSlice | strSet | mapSS | mapSSlice           -- dials helper flags
  | intSlice (k : IntKind)                          -- dials integral-slice helper, element kind k
  | native                                          -- a slice flag of the flag package itself (pflag StringSliceP): not modelled
  | unreg                                           -- no flag is registered for the field
deriving Repr, DecidableEq, Inhabited

def intLabel : IntKind → String
  | .i8 => "Int8" | .i16 => "Int16" | .i32 => "Int32" | .i64 => "Int64" | .int => "Int"
  | .u8 => "Uint8" | .u16 => "Uint16" | .u32 => "Uint32" | .u64 => "Uint64" | .uint => "Uint" | .uintptr => "Uintptr"

def sliceLabel : IntKind → String
  | .i8 => "int8SliceType" | .i16 => "int16SliceType" | .i32 => "int32SliceType" | .i64 => "int64SliceType" | .int => "intSliceType"
  | .u8 => "uint8SliceType" | .u16 => "uint16SliceType" | .u32 => "uint32SliceType" | .u64 => "uint64SliceType" | .uint => "uintSliceType"
  | .uintptr => "uintptrSliceType"

def plainStr : Ty := .basic .str false

/-- the case labels a (pointer-stripped) field type can match, in the order the Go switches test them
(`tu 1` is time.Time; user-defined named slice / map types match none of the `switch ft` cases) -/
def labelsOf : Ty → List String
  | .tu n => (if n == 1 then ["time.Time"] else []) ++ ["TextUnmarshaler"]
  | .dur => ["time.Duration"]
  | .basic .str _ => ["String"]
  | .basic .bool _ => ["Bool"]
  | .basic .f32 _ => ["Float32"]
  | .basic .f64 _ => ["Float64"]
  | .basic .c64 _ => ["Complex64"]
  | .basic .c128 _ => ["Complex128"]
  | .basic (.int k) _ => [intLabel k]
  | .slice (.basic .str false) => ["stringSlice"]
  | .slice (.basic (.int k) false) => [sliceLabel k]
  | .map (.basic .str false) (.slice (.basic .str false)) => ["mapStringStringSlice"]
  | .map (.basic .str false) (.basic .str false) => ["mapStringString"]
  | .set (.basic .str false) => ["stringSet"]
  | _ => []

def leafIntKind : Ty → Option IntKind
  | .basic (.int k) _ => some k
  | _ => none

def elemIntKind : Ty → Option IntKind
  | .slice (.basic (.int k) false) => some k
  | _ => none

/-- what a registering constructor means: the std `Int` / `Uint` flags parse with strconv.IntSize (64 on this
platform), `Int64` / `Uint64` with 64; pflag's `IntNP` / `UintNP` parse with N bits (`IntP` / `UintP`: 64) -/
def ctorRoute (ctor : String) (t : Ty) : Route :=
  let intR (sg : Bool) (bits : Nat) : Route :=
    match leafIntKind t with
    | some k => .int sg bits k
    | none => .unreg
  let sliceR : Route :=
    match elemIntKind t with
    | some k => .intSlice k
    | none => .unreg
  if ctor == "Int" || ctor == "IntP" || ctor == "Int64" || ctor == "Int64P" then intR true 64
  else if ctor == "Int8P" then intR true 8
  else if ctor == "Int16P" then intR true 16
  else if ctor == "Int32P" then intR true 32
  else if ctor == "Uint" || ctor == "UintP" || ctor == "Uint64" || ctor == "Uint64P" then intR false 64
  else if ctor == "Uint8P" then intR false 8
  else if ctor == "Uint16P" then intR false 16
  else if ctor == "Uint32P" then intR false 32
  else if ctor == "String" || ctor == "StringP" then .str
  else if ctor == "Bool" || ctor == "BoolP" then .bool
  else if ctor == "Float64" || ctor == "Float64P" || ctor == "Float32P" || ctor == "Duration" || ctor == "DurationP"
    || ctor == "flaghelper.NewComplex64Var" || ctor == "flaghelper.NewComplex128Var"
    || ctor == "flaghelper.NewTimeWrapper" || ctor == "flaghelper.NewMarshalWrapper" then .ext ctor
  else if ctor == "flaghelper.NewStringSliceFlag" then .strSlice
  else if ctor == "flaghelper.NewStringSetFlag" then .strSet
  else if ctor == "flaghelper.NewMapStringStringFlag" then .mapSS
  else if ctor == "flaghelper.NewMapStringStringSliceFlag" then .mapSSlice
  else if ctor == "flaghelper.NewSignedIntegralSlice" || ctor == "flaghelper.NewUnsignedIntegralSlice" then sliceR
  else if ctor == "StringSliceP" then .native
  else .unreg

def lookupCtor (tab : List (String × String)) (l : String) : Option String := (tab.find? (·.1 == l)).map (·.2)

/-- the route of a translated field's type (registerFlags strips every pointer level first) -/
def routeOf (p : Pkg) (t : Ty) : Route :=
  match (labelsOf (stripPtrs t)).findSome? (lookupCtor p.table) with
  | some ctor => ctorRoute ctor (stripPtrs t)
  | none => .unreg

/-! ### (d) transform.GetField and the advertised defaults -/

def stripVal : Val → Val
  | .ptr v => stripVal v
  | v => v

/-- reflect.New(t).Elem() of a pointer-stripped leaf type, in the harness's rendering of values
(external kinds: the text of their zero value; collections: nil) -/
def zeroOf : Ty → Val
  | .basic .bool _ => .b false
  | .basic .str _ => .s ""
  | .basic (.int _) _ => .i 0
  | .basic .f32 _ => .s "0"
  | .basic .f64 _ => .s "0"
  | .basic .c64 _ => .s "(0+0i)"
  | .basic .c128 _ => .s "(0+0i)"
  | .dur => .s "0s"
  | .pdur => .s "0s"
  | .tu _ => .s ""
  | _ => .nilv

def fieldIdx (fs : List FT) (name : String) : Option Nat := fs.findIdx? (·.1.name == name)

/-- GetField along the `dialsfieldpath`: `none` = "not populated" (an intermediate or the final pointer is
nil), for which the Go code returns the zero value.  `t` is the (pointerified) type, `v` the template's value
(the caller's own struct: pointers only where the user declared them). -/
def getField : List String → Ty → Val → Outcome (Option Val)
  | [], _, v =>
    match stripVal v with
    | .nilv => .ok none
    | v' => .ok (some v')
  | n :: rest, t, v =>
    match stripPtrs t, stripVal v with
    | .struct fs, .struct vs =>
      match fieldIdx fs.toList n with
      | some i =>
        match fs.toList[i]?, vs[i]? with
        | some f, some fv => getField rest f.2 fv
        | _, _ => .panic "reflect: Field index out of range"
      | none => .panic "reflect: call of FieldByName on zero Value"
    | _, .nilv => .ok none
    | _, _ => .panic "reflect: call of FieldByName on non-struct Value"

def fieldPath (h : Hdr) : Option (List String) :=
  match tagGet h.tags "dialsfieldpath" with
  | none => none
  | some "" => none
  | some p => some (p.splitOn ",")

/-- the advertised default of a registered flag, in a form whose rendering needs only strconv.Quote -/
inductive DefForm where
  | text (s : String)                          -- the default string itself
  | quoted (items : List String)               -- strconv.Quote of each item, joined by ','
  | quotedPairs (kvs : List (String × String)) -- Quote(k) ':' Quote(v), joined by ','
  | external                                   -- formatting not modelled (floats, complex, durations, time, text marshalers, native)
deriving Repr, DecidableEq, Inhabited

def strOfVal : Val → String
  | .s x => x
  | _ => ""

def valStrs : Val → List String
  | .list vs => vs.map strOfVal
  | .setv vs => vs.map strOfVal
  | _ => []

def valPairs : Val → List (String × String)
  | .mapv kvs => kvs.map fun p => (strOfVal p.1, strOfVal p.2)
  | _ => []

def valInts : Val → List Int
  | .list vs => vs.map fun v => match v with
    | .i x => x
    | _ => 0
  | _ => []

def sortStrs (xs : List String) : List String := xs.mergeSort (fun a b => a ≤ b)
/-- stable sort by key: the values of one key keep their order -/
def sortPairs (kvs : List (String × String)) : List (String × String) := kvs.mergeSort (fun a b => a.1 ≤ b.1)

/-- `String()` of the flag value holding the template's value `d` -/
def defaultOf (r : Route) (d : Val) : DefForm :=
  match r, d with
  | .int _ _ _, .i v => .text (String.ofList (formatInt v))
  | .bool, .b x => .text (if x then "true" else "false")
  | .str, .s x => .text x
  | .strSlice, d => .quoted (valStrs d)
  | .strSet, d => .quoted (sortStrs (valStrs d))
  | .mapSS, d => .quotedPairs (sortPairs (valPairs d))
  | .mapSSlice, d => .quotedPairs (sortPairs (valPairs d))
  | .intSlice _, d => .text (String.ofList (joinComma ((valInts d).map formatInt)))
  | _, _ => .external

/-! ### registration -/

structure Reg where
  hdr : Hdr          -- the translated field
  ty : Ty
  name : String      -- mkname
  route : Route      -- `.unreg`: no flag was registered for this field
  dflt : Val         -- GetField (zero value when not populated)

def skipGuard (seen : List String) (h : Hdr) (name : String) (g : String) : Bool :=
  if g == "registered" then seen.contains name
  else if g.startsWith "dash:" then tagGet h.tags (g.drop 5).toString == some "-"
  else false

/-- `seen` = names of the flags registered so far (s.Flags.Lookup) -/
def registerLoop (p : Pkg) (top : Ty) (tmpl : Val) : List FT → List String → Outcome (List Reg)
  | [], _ => .ok []
  | (h, t) :: rest, seen =>
    match mkname p h with
    | .err c => .err c
    | .panic c => .panic c
    | .ok name =>
      let route := if p.skips.any (skipGuard seen h name) then Route.unreg else routeOf p t
      match fieldPath h with
      | none => .panic "dialsfieldpath tag not set"
      | some path =>
        -- GetField is evaluated only for fields that get past the skip guards
        let d : Outcome Val :=
          if p.skips.any (skipGuard seen h name) then .ok (zeroOf (stripPtrs t))
          else match getField path top tmpl with
            | .ok (some v) => .ok v
            | .ok none => .ok (zeroOf (stripPtrs t))
            | .err c => .err c
            | .panic c => .panic c
        match d with
        | .err c => .err c
        | .panic c => .panic c
        | .ok dv =>
          match registerLoop p top tmpl rest (if route != .unreg then name :: seen else seen) with
          | .ok regs => .ok ({ hdr := h, ty := t, name := name, route := route, dflt := dv } :: regs)
          | .err c => .err c
          | .panic c => .panic c

/-- registerFlags after Translate: `fs` = the pointerified config type's fields, `tmpl` = the template -/
def register (p : Pkg) (fs : List FT) (tmpl : Val) (tfs : List FT) : Outcome (List Reg) :=
  registerLoop p (.struct (Fields.ofList fs)) tmpl tfs []

/-! ### (b) per-flag semantics of a sequence of occurrences -/

/-- what the external parser of an `ext` / `native` route made of an occurrence's text -/
inductive ExtRes where
  | rejected                 -- parse error
  | overflow                 -- std float32 only: parsed as float64, outside float32 (caught by willOverflow at Value time)
  | ok (canon : String)      -- accepted; the canonical rendering of the parsed value
deriving Repr, DecidableEq, Inhabited

structure Occ where
  name : String
  text : String
  ext : ExtRes := .ok ""
deriving Repr, DecidableEq, Inhabited

/-- the value a flag holds -/
inductive Acc where
  | i (v : Int)
  | b (x : Bool)
  | s (x : String)                        -- strings and external texts
  | extOverflow
  | strs (xs : List String)               -- []string / set elements in insertion order
  | pairs (kvs : List (String × String))  -- string maps; map[string][]string as (key, element) pairs in order
  | ints (xs : List Int)
  | nativeV
deriving Repr, DecidableEq, Inhabited

structure FSt where
  cur : Acc
  defaulted : Bool := true
deriving Repr, DecidableEq, Inhabited

def Acc.strsOf : Acc → List String
  | .strs xs => xs
  | _ => []
def Acc.pairsOf : Acc → List (String × String)
  | .pairs kvs => kvs
  | _ => []
def Acc.intsOf : Acc → List Int
  | .ints xs => xs
  | _ => []

/-- the flag's initial value from the template -/
def accOfVal (r : Route) (d : Val) : Acc :=
  match r, d with
  | .int _ _ _, .i v => .i v
  | .bool, .b x => .b x
  | .str, .s x => .s x
  | .ext _, .s x => .s x
  | .strSlice, d => .strs (valStrs d)
  | .strSet, d => .strs (valStrs d)
  | .mapSS, d => .pairs (valPairs d)
  | .mapSSlice, d => .pairs (valPairs d)
  | .intSlice _, d => .ints (valInts d)
  | .native, _ => .nativeV
  | _, _ => .s ""

def helperReplaces (helper : String) : Bool := ((Facts.helperFirstReplaces.find? (·.1 == helper)).map (·.2)).getD false

/-- set union in insertion order (`(*v.s)[x] = struct{}{}` for every parsed element) -/
def unionStrs (acc new : List String) : List String :=
  new.foldl (fun a x => if a.contains x then a else a ++ [x]) acc

/-- map merge: a later value replaces the earlier one of the same key (`(*v.s)[k] = val`) -/
def putPair (acc : List (String × String)) (kv : String × String) : List (String × String) :=
  if acc.any (·.1 == kv.1) then acc.map fun p => if p.1 == kv.1 then kv else p else acc ++ [kv]
def mergePairs (acc new : List (String × String)) : List (String × String) := new.foldl putPair acc

def ofS (it : S) : String := String.ofList it
def ofPair (p : S × S) : String × String := (String.ofList p.1, String.ofList p.2)

/-- the numeric text of an integer flag: strconv.ParseInt / ParseUint with base 0 and the flag's bit size -/
def parseFlagInt (signed : Bool) (bits : Nat) (text : String) : Option Int :=
  if signed then parseInt bits text.toList else (parseUint bits text.toList).map Int.ofNat

/-- one `Set(text)` call of the flag's value -/
def setOne (toks : TokTable) (r : Route) (st : FSt) (o : Occ) : Outcome FSt :=
  match r with
  | .int sg bits _ =>
    match parseFlagInt sg bits o.text with
    | some v => .ok ⟨.i v, false⟩
    | none => .err "number"
  | .bool =>
    match parseBool o.text with
    | some x => .ok ⟨.b x, false⟩
    | none => .err "ParseBool"
  | .str => .ok ⟨.s o.text, false⟩
  | .ext _ =>
    match o.ext with
    | .ok c => .ok ⟨.s c, false⟩
    | .overflow => .ok ⟨.extOverflow, false⟩
    | .rejected => .err "external parser"
  | .native =>
    match o.ext with
    | .rejected => .err "external parser"
    | _ => .ok ⟨.nativeV, false⟩
  | .strSlice =>
    match stringSlice (o.text == "") (toks o.text).1 with
    | .ok items =>
      let new := items.map ofS
      .ok ⟨.strs (if st.defaulted && helperReplaces "StringSliceFlag" then new else st.cur.strsOf ++ new), false⟩
    | .err c => .err c
    | .panic c => .panic c
  | .strSet =>
    match stringSet (o.text == "") (toks o.text).1 with
    | .ok items =>
      let new := items.map ofS
      .ok ⟨.strs (if st.defaulted && helperReplaces "StringSetFlag" then new else unionStrs st.cur.strsOf new), false⟩
    | .err c => .err c
    | .panic c => .panic c
  | .mapSS =>
    match mapStringString (toks o.text).2 with
    | .ok ps =>
      let new := ps.map ofPair
      .ok ⟨.pairs (if st.defaulted && helperReplaces "MapStringStringFlag" then new else mergePairs st.cur.pairsOf new), false⟩
    | .err c => .err c
    | .panic c => .panic c
  | .mapSSlice =>
    match mapStringStringSlice (toks o.text).2 with
    | .ok ps =>
      let new := ps.map ofPair
      .ok ⟨.pairs (if st.defaulted && helperReplaces "MapStringStringSliceFlag" then new else st.cur.pairsOf ++ new), false⟩
    | .err c => .err c
    | .panic c => .panic c
  | .intSlice k =>
    match parseIntSlice k o.text.toList with
    | .ok vs =>
      .ok ⟨.ints (if st.defaulted && helperReplaces (if k.signed then "SignedIntegralSliceFlag" else "UnsignedIntegralSliceFlag") then vs
                  else st.cur.intsOf ++ vs), false⟩
    | .err c => .err c
    | .panic c => .panic c
  | .unreg => .err "flag provided but not defined"

/-- the occurrences of one flag, in command-line order; the first failing `Set` aborts the parse -/
def runFlag (toks : TokTable) (r : Route) : FSt → List Occ → Outcome FSt
  | st, [] => .ok st
  | st, o :: os =>
    match setOne toks r st o with
    | .ok st' => runFlag toks r st' os
    | .err c => .err c
    | .panic c => .panic c

/-- two's-complement narrowing of an out-of-range value (what `Convert` does without the guard) -/
def wrapInt (k : IntKind) (v : Int) : Int :=
  if k.signed then (v + 2 ^ (k.bits - 1)) % 2 ^ k.bits - 2 ^ (k.bits - 1) else v % 2 ^ k.bits

def strVal (x : String) : Val := .s x

/-- `Value`: what the visited flag hands to its translated field (before the pointer wrap) -/
def finish (checked : Bool) (r : Route) (a : Acc) : Outcome Val :=
  match r, a with
  | .int _ _ k, .i v =>
    if k.inRange v then .ok (.i v)
    else if checked then .err "overflow"
    else .ok (.i (wrapInt k v))
  | .ext _, .extOverflow => if checked then .err "overflow" else .ok (.s "+Inf")
  | .strSlice, a => .ok (.list (a.strsOf.map strVal))
  | .strSet, a => .ok (.setv (a.strsOf.map strVal))
  | .mapSS, a => .ok (.mapv (a.pairsOf.map fun p => (.s p.1, .s p.2)))
  | .mapSSlice, a => .ok (.mapv (a.pairsOf.map fun p => (.s p.1, .s p.2)))
  | .intSlice _, a => .ok (.list (a.intsOf.map Val.i))
  | .native, _ => .ok (.s "native")
  | _, .b x => .ok (.b x)
  | _, .s x => .ok (.s x)
  | _, .i v => .ok (.i v)
  | _, _ => .ok (.s "")

/-- one occurrence of an integer flag followed by Value's narrowing step (what a single `-f text` gives) -/
def intFlagValue (checked : Bool) (sg : Bool) (bits : Nat) (k : IntKind) (text : String) : Outcome Int :=
  match parseFlagInt sg bits text with
  | some v =>
    if k.inRange v then .ok v
    else if checked then .err "overflow"
    else .ok (wrapInt k v)
  | none => .err "number"

def occsOf (n : String) (occs : List Occ) : List Occ := occs.filter (·.name == n)

/-- std only: `Complex64Var.Get` / `Complex128Var.Get` return the `*complexN` pointer.  `Value` assigns it when the
translated field's type is exactly that pointer type; for a user-defined named complex type it assigns it through a
pointer conversion (regenerated fact F14b `flagPtrConvertStd`; repair D29).  Without that branch the code falls
through to `fval.Convert(<named type>)` on the POINTER, which panics in reflect.  pflag keeps its own `flagValues`
pointer of the field's type and is not affected. -/
def getterMismatch (p : Pkg) (r : Route) (t : Ty) : Bool :=
  p == .std && !Facts.flagPtrConvertStd &&
  (match r with
   | .ext c => c == "flaghelper.NewComplex64Var" || c == "flaghelper.NewComplex128Var"
   | _ => false) &&
  (match stripPtrs t with
   | .basic _ true => true
   | _ => false)

/-- the value a registered flag contributes: `none` = the flag was not visited -/
def flagResult (p : Pkg) (toks : TokTable) (reg : Reg) (occs : List Occ) : Outcome (Option Val) :=
  if reg.route == .unreg then .ok none
  else if (occsOf reg.name occs).isEmpty && !p.visitAll then .ok none
  else
    match runFlag toks reg.route ⟨accOfVal reg.route reg.dflt, true⟩ (occsOf reg.name occs) with
    | .ok st =>
      if getterMismatch p reg.route reg.ty then .panic "reflect.Value.Convert: value of type *complexN cannot be converted to the named type"
      else
      match finish p.checked reg.route st.cur with
      | .ok v => .ok (some v)
      | .err c => .err c
      | .panic c => .panic c
    | .err c => .err c
    | .panic c => .panic c

/-! ### (c) Value -/

/-- the translated field a flag's value is written to: `flagFieldName[name]` is overwritten by every
translated field, so the LAST field of that name -/
def lastIdxOf (names : List String) (n : String) : Option Nat :=
  (names.zipIdx.filter (·.1 == n)).getLast?.map (·.2)

/-- the field whose type and default registered the flag: the FIRST registered one of that name -/
def regIdxOf (regs : List Reg) (n : String) : Option Nat :=
  regs.findIdx? fun r => r.route != .unreg && r.name == n

/-- ffield.Set: scalars sit behind the pointerified field's pointer; nil-able collections are assigned as they are -/
def wrapFor (t : Ty) (v : Val) : Outcome Val :=
  match t with
  | .ptr (.ptr _) => .err "OOD: pointer to pointer leaf"
  | .ptr _ => .ok (.ptr v)
  | _ => .ok v

/-- the value of translated field `j` after the visit -/
def fieldVal (regs : List Reg) (results : List (Option Val)) (j : Nat) (rj : Reg) : Outcome Val :=
  match regIdxOf regs rj.name with
  | none => .ok .nilv
  | some i =>
    match results[i]? with
    | some (some v) =>
      if lastIdxOf (regs.map (·.name)) rj.name == some j then
        -- the flag's value lands in the last field of that name; with distinct names that is field i itself
        if i == j then wrapFor rj.ty v else .err "OOD: duplicate flag names"
      else .ok .nilv
    | _ => .ok .nilv

/-- the flag is walked by `Value` -/
def flagVisited (p : Pkg) (reg : Reg) (occs : List Occ) : Bool :=
  reg.route != .unreg && (!(occsOf reg.name occs).isEmpty || p.visitAll)

/-- parse time (`ParseFunc`): every occurrence of the flag is handed to its `Set`; only success matters here -/
def flagParse (toks : TokTable) (reg : Reg) (occs : List Occ) : Outcome Unit :=
  if reg.route == .unreg then .ok ()
  else
    match runFlag toks reg.route ⟨accOfVal reg.route reg.dflt, true⟩ (occsOf reg.name occs) with
    | .ok _ => .ok ()
    | .err c => .err c
    | .panic c => .panic c

/-- `Value`: first the whole command line is parsed (any rejected occurrence fails the source before anything is
visited); then the visit: a panic (a getter/field type mismatch, see `getterMismatch`) ends it on the spot, whereas the overflow error is only recorded and
returned after the walk — so a panic wins over an overflow error wherever the two flags sit. -/
def fieldVals (p : Pkg) (toks : TokTable) (regs : List Reg) (occs : List Occ) : Outcome (List Val) :=
  match mapM' (fun reg => flagParse toks reg occs) regs with
  | .err c => .err c
  | .panic c => .panic c
  | .ok _ =>
    if regs.any (fun reg => flagVisited p reg occs && getterMismatch p reg.route reg.ty) then
      .panic "reflect.Value.Convert: value of type *complexN cannot be converted to the named type"
    else
      match mapM' (fun reg => flagResult p toks reg occs) regs with
      | .ok results => mapM' (fun (x : Reg × Nat) => fieldVal regs results x.2 x.1) regs.zipIdx
      | .err c => .err c
      | .panic c => .panic c

def isRegistered (regs : List Reg) (n : String) : Bool := regs.any fun r => r.route != .unreg && r.name == n

/-- translate + registerFlags -/
def registration (fuel : Nat) (p : Pkg) (nameEnc tagEnc : String) (fs : List FT) (tmpl : Val) : Outcome (List Reg) :=
  match flagChain fuel p nameEnc tagEnc with
  | none => .err "bad chain"
  | some chain =>
    match translate fuel chain fs with
    | .ok tfs => register p fs tmpl tfs
    | .err c => .err c
    | .panic c => .panic c

/-- NewSetWithArgs + Value: the pointerified struct's field values -/
def flagValue (fuel : Nat) (p : Pkg) (nameEnc tagEnc : String) (toks : TokTable) (fs : List FT) (tmpl : Val)
    (occs : List Occ) : Outcome (List Val) :=
  match flagChain fuel p nameEnc tagEnc with
  | none => .err "bad chain"
  | some chain =>
    match registration fuel p nameEnc tagEnc fs tmpl with
    | .err c => .err c
    | .panic c => .panic c
    | .ok regs =>
      if occs.any (fun o => !isRegistered regs o.name) then .err "flag provided but not defined"
      else
        match fieldVals p toks regs occs with
        | .ok vals => reverse fuel chain fs vals
        | .err c => .err c
        | .panic c => .panic c

end Dials.FlagSrc
