/-
Specification vocabulary for C01: well-typedness, paths, what a base value holds at a path and what
a layer sets at a path.
-/
import DialsModel.Model.Overlay

namespace Dials.Overlay

def Ty.isColl : Ty → Bool
  | .slice _ => true
  | .map _ => true
  | _ => false

mutual
/-- the value is a well-formed inhabitant of the type -/
def Val.HasTy : Val → Ty → Bool
  | .scalar n _, .scalar m => n == m
  | .coll t _, t' => t.isColl && t == t'
  | .tuv n _, .tu m => n == m
  | .ptr e none, .ptr e' => e == e'
  | .ptr e (some v), .ptr e' => e == e' && Val.HasTy v e
  | .struct fs vs, .struct fs' => Fields.beq fs fs' && Vals.HasTys vs fs
  | .opaque t _, t' => t.isChanFunc && t == t'
  | _, _ => false
def Vals.HasTys : Vals → Fields → Bool
  | .nil, .nil => true
  | .cons v vs, .cons _ t fs => Val.HasTy v t && Vals.HasTys vs fs
  | _, _ => false
end

def Fields.get? : Fields → Nat → Option (FieldKind × Ty)
  | .nil, _ => none
  | .cons k t _, 0 => some (k, t)
  | .cons _ _ r, n + 1 => r.get? n

def Vals.get? : Vals → Nat → Option Val
  | .nil, _ => none
  | .cons v _, 0 => some v
  | .cons _ r, n + 1 => r.get? n

/-- a field that is not configuration: omitted by OmitField, or a chan/func -/
def skippedField (k : FieldKind) (t : Ty) : Bool := omitField k || t.isChanFunc

/-- index of base field `i` in the pointerified struct (number of kept fields before it) -/
def ovIndex : Fields → Nat → Nat
  | .nil, _ => 0
  | .cons _ _ _, 0 => 0
  | .cons k t r, n + 1 => (if skippedField k t then 0 else 1) + ovIndex r n

/-- the fields of a struct type or of a pointer-to-struct type -/
def Ty.structFields : Ty → Option Fields
  | .struct fs => some fs
  | .ptr (.struct fs) => some fs
  | _ => none

/-- the field values of a struct value or of a non-nil pointer to one; `none` for a nil pointer -/
def Val.structVals : Val → Option Vals
  | .struct _ vs => some vs
  | .ptr _ (some (.struct _ vs)) => some vs
  | _ => none

/-- `p` (base field indices) leads to a configuration leaf of `t`: every field on the way is kept,
the inner ones are structs or pointers to structs, the last one is anything else
(scalar, array, string, text-unmarshaler, slice, map, pointer to a non-struct) -/
def LeafPath : Ty → List Nat → Bool
  | t, [] => t.structFields.isNone && !t.isChanFunc
  | t, i :: p =>
    match t.structFields with
    | none => false
    | some fs =>
      match fs.get? i with
      | none => false
      | some (k, ft) => !skippedField k ft && LeafPath ft p

/-- `p` leads to a skipped field (unexported, `dials:"-"`, chan, func) through kept struct fields -/
def SkippedPath : Ty → List Nat → Bool
  | _, [] => false
  | t, [i] =>
    match t.structFields with
    | none => false
    | some fs => match fs.get? i with
      | none => false
      | some (k, ft) => skippedField k ft
  | t, i :: p =>
    match t.structFields with
    | none => false
    | some fs =>
      match fs.get? i with
      | none => false
      | some (k, ft) => !skippedField k ft && SkippedPath ft p

/-- `p` leads to a pointer-to-struct field through kept struct fields -/
def StructPtrPath : Ty → List Nat → Bool
  | t, [] => match t with | .ptr (.struct _) => true | _ => false
  | t, i :: p =>
    match t.structFields with
    | none => false
    | some fs =>
      match fs.get? i with
      | none => false
      | some (k, ft) => !skippedField k ft && StructPtrPath ft p

/-- what a (base-typed) value holds at `p`; below a nil struct pointer everything reads as zero -/
def readB : Ty → Val → List Nat → Option Val
  | _, v, [] => some v
  | t, v, i :: p =>
    match t.structFields with
    | none => none
    | some fs =>
      match fs.get? i with
      | none => none
      | some (_, ft) =>
        match v.structVals with
        | none => readB ft (zero ft) p
        | some vs =>
          match vs.get? i with
          | none => none
          | some fv => readB ft fv p

/-- is every struct pointer on the way to `p` (and at `p`) non-nil in this base-typed value? -/
def presentB : Ty → Val → List Nat → Bool
  | _, v, [] => !v.isNil
  | t, v, i :: p =>
    match t.structFields, v.structVals with
    | some fs, some vs =>
      match fs.get? i, vs.get? i with
      | some (_, ft), some fv => presentB ft fv p
      | _, _ => false
    | _, _ => false

/-- what a layer (a value of the pointerified type) sets at base path `p` of base type `t`,
as a value of the base leaf type; `none` when the layer leaves it unset -/
def readO : Ty → Val → List Nat → Option Val
  | t, o, [] =>
    match t with
    | .scalar _ => (match o with | .ptr _ (some x) => some x | _ => none)
    | .tu _ => (match o with | .ptr _ (some x) => some x | _ => none)
    | .chan => none
    | .func => none
    | .struct _ => none
    | .ptr (.struct _) => none
    | _ => if o.isNil then none else some o
  | t, o, i :: p =>
    match t.structFields with
    | none => none
    | some fs =>
      match fs.get? i with
      | none => none
      | some (k, ft) =>
        if skippedField k ft then none
        else match o.structVals with
          | none => none
          | some ovs =>
            match ovs.get? (ovIndex fs i) with
            | none => none
            | some ov => readO ft ov p

/-- does the layer have every struct pointer on the way to `p` (and at `p`) present? -/
def presentO : Ty → Val → List Nat → Bool
  | _, o, [] => !o.isNil
  | t, o, i :: p =>
    match t.structFields, o.structVals with
    | some fs, some ovs =>
      match fs.get? i with
      | some (k, ft) =>
        if skippedField k ft then false
        else match ovs.get? (ovIndex fs i) with
          | some ov => presentO ft ov p
          | none => false
      | none => false
    | _, _ => false

/-- a layer as `compose` accepts it: the pointerified struct or a pointer to it -/
def IsLayer (fs : Fields) (l : Val) : Bool :=
  l.HasTy (ptrify (.struct fs)) || (l.HasTy (.ptr (ptrify (.struct fs))) && !l.isNil)

end Dials.Overlay
