/-
Heap-level executable model of /repo/overlay.go (`overlayField`, `overlayStruct`) and of the loop of
`compose` in /repo/dials.go, over the heap vocabulary of Model/Heap.lean.

The tree-level model (Model/Overlay.lean, property C01) says WHICH value every leaf gets; this model
says WHERE the bytes go: it is the same branch structure (it reuses the type universe `Overlay.Ty`, the
omission rule `Overlay.omitField` and the regenerated facts F9/F10), but base and overlay are *locations*
in a heap, so that

  * `base.Set(overlay)` on a pointer / map / slice field copies a REFERENCE: afterwards the base shares
    the pointee / map / backing array with the overlay value;
  * `base.Set(reflect.New(T))` allocates a fresh zero struct cell and stores a pointer to it;
  * `overlayStruct(base.Elem(), overlay.Elem())` on a non-nil base pointer writes IN PLACE into the
    pointee cell the base pointer designates (whoever else holds that pointer sees the writes);
  * `base.Elem().Set(overlay)` (non-nil pointer to a text-unmarshaler struct) also writes in place;
  * text-unmarshaler structs and all other non-struct kinds are assigned as a whole (shallow).

A location `Loc` is a pointee cell plus a path of field indices through inline struct values, every step
through a field whose exported flag is set (reflect can only `Set` through exported fields, and
overlayStruct skips the others: F9a/F9d).  Every read happens at the moment the Go code reads
(`overlay.Elem()` after `base.Set(reflect.New(..))` re-reads the overlay location), so the model is
faithful also when base and overlay share cells.

Every exit returns the heap reached so far: the error and panic exits of overlay.go happen *after*
some writes may already have been made, and C02's "inputs are never modified" has to hold for them
too.  `stuck` marks inputs outside the typed universe (the heap value at a location does not have the
shape its type says, an unexported flag on a path); well-typed inputs never get there.

Outside the model: interface-typed fields (`overlayInterface`; `Overlay.Ty` has no interface
constructor, as for C01), interior pointers, slices at a non-zero offset of their array.
-/
import DialsModel.Model.Heap
import DialsModel.Model.Overlay

namespace Dials.Heap
open Dials.Overlay (Ty Fields FieldKind omitField)

/-- how a run of overlayField / overlayStruct / compose ended -/
inductive St where
  | ok
  | err (c : String)          -- Go `error` return
  | panic (c : String)        -- Go panic (explicit or inside reflect)
  | stuck (c : String)        -- input outside the typed universe (never for well-typed inputs)
deriving Repr, DecidableEq, Inhabited

def St.tag : St → String
  | .ok => "ok"
  | .err _ => "err"
  | .panic _ => "panic"
  | .stuck c => "stuck:" ++ c

/-- an addressable place: pointee cell `addr`, then down the inline struct fields `path` -/
structure Loc where
  addr : Nat
  path : List Nat
deriving Repr, DecidableEq

/-- `v.Field(i)` of the struct at a location -/
def Loc.field (l : Loc) (i : Nat) : Loc := ⟨l.addr, l.path ++ [i]⟩

/-- field `i` of a struct value, provided its exported flag is set -/
def fsGet : HFs → Nat → Option HV
  | .nil, _ => none
  | .cons ex v _, 0 => if ex then some v else none
  | .cons _ _ r, i + 1 => fsGet r i

def fsSet : HFs → Nat → HV → HFs
  | .nil, _, _ => .nil
  | .cons ex _ r, 0, w => .cons ex w r
  | .cons ex v r, i + 1, w => .cons ex v (fsSet r i w)

def getPath : HV → List Nat → Option HV
  | v, [] => some v
  | .st fs, i :: p =>
    match fsGet fs i with
    | some v => getPath v p
    | none => none
  | _, _ :: _ => none

def setPath : HV → List Nat → HV → Option HV
  | _, [], w => some w
  | .st fs, i :: p, w =>
    match fsGet fs i with
    | some v =>
      match setPath v p w with
      | some v' => some (.st (fsSet fs i v'))
      | none => none
    | none => none
  | _, _ :: _, _ => none

/-- read the value stored at a location -/
def readLoc (h : Heap) (l : Loc) : Option HV :=
  match h[l.addr]? with
  | some (.val v) => getPath v l.path
  | _ => none

/-- store a value at a location (`reflect.Value.Set` on an addressable value): one cell update -/
def writeLoc (h : Heap) (l : Loc) (w : HV) : Option Heap :=
  match h[l.addr]? with
  | some (.val v) =>
    match setPath v l.path w with
    | some v' => some (h.set l.addr (.val v'))
    | none => none
  | _ => none

/-! ### zero values (`reflect.New`) -/

/-- zero values of the opaque leaf types (`scalar n`: numbers, strings, arrays …; `tu n`: text-unmarshaler
structs), by type tag; supplied by the caller because `Ty` does not carry their shape.  Only
reference-free values are accepted (a Go zero value holds no references); the default is `sc 0`. -/
abbrev Zeros := List (Nat × HV)

mutual
def pureV : HV → Bool
  | .sc _ => true
  | .nil => true
  | .ptr _ => false
  | .mp _ => false
  | .sl _ _ => false
  | .st fs => pureFs fs
  | .ar es => pureFs es
  | .ifc d => pureV d
def pureFs : HFs → Bool
  | .nil => true
  | .cons _ v rest => pureV v && pureFs rest
end

def zeroTag (z : Zeros) (n : Nat) : HV :=
  match z.find? (·.1 == n) with
  | some p => if pureV p.2 then p.2 else .sc 0
  | none => .sc 0

mutual
/-- `reflect.Zero(t)` -/
def zeroH (z : Zeros) : Ty → HV
  | .scalar n => zeroTag z n
  | .tu n => zeroTag z n
  | .slice _ => .nil
  | .map _ => .nil
  | .ptr _ => .nil
  | .chan => .sc 0
  | .func => .sc 0
  | .struct fs => .st (zeroFs z fs)
def zeroFs (z : Zeros) : Fields → HFs
  | .nil => .nil
  | .cons k t r => .cons (decide (k ≠ .unexported)) (zeroH z t) (zeroFs z r)
end

/-! ### overlay -/

/-- kinds for which overlayField starts with `if overlay.IsNil() { return nil }` (Slice, Ptr, Interface, Map) -/
def nilableTy : Ty → Bool
  | .slice _ => true
  | .map _ => true
  | .ptr _ => true
  | _ => false

def isNilHV : HV → Bool
  | .nil => true
  | _ => false

/-- `base.Set(v)` where `v` has type `vt`: reflect panics unless the types are identical -/
def setLoc (h : Heap) (bt vt : Ty) (bl : Loc) (v : HV) : Heap × St :=
  if vt == bt then
    match writeLoc h bl v with
    | some h' => (h', .ok)
    | none => (h, .stuck "base location")
  else (h, .panic "reflect.Set: value not assignable")

/-- `overlay.Elem()` of a non-nil pointer stored at `ol`: the location of its pointee -/
def elemLoc (h : Heap) (ol : Loc) : Option Loc :=
  match readLoc h ol with
  | some (.ptr c) =>
    match h[c]? with
    | some (.val _) => some ⟨c, []⟩
    | _ => none
  | _ => none

/-- `base.Set(overlay.Elem())`: `ol` holds a non-nil pointer to a value of type `oe` -/
def setFromElem (h : Heap) (bt oe : Ty) (bl ol : Loc) : Heap × St :=
  match elemLoc h ol with
  | some el =>
    match readLoc h el with
    | some pv => setLoc h bt oe bl pv
    | none => (h, .stuck "overlay pointee")
  | none => (h, .stuck "overlay pointer")

/-- the field is not overlaid: `ptrify.OmitField` (F9d) or chan/func (F9e) -/
def skipField (k : FieldKind) (t : Ty) : Bool :=
  (Facts.overlayUsesOmitField && omitField k) || (Facts.overlaySkipsChanFunc && t.isChanFunc)

mutual
/-- `overlayField(base, overlay)` with `base` at `bl` (type `bt`), `overlay` at `ol` (type `ot`);
`settable` = `base.CanSet()` -/
def overlayFieldH (z : Zeros) (settable : Bool) : Ty → Ty → Heap → Loc → Loc → Heap × St
  | .ptr (.struct bfs), ot, h, bl, ol =>
    match readLoc h ol with
    | none => (h, .stuck "overlay location")
    | some ov =>
    if nilableTy ot && isNilHV ov then (h, .ok)
    else if !settable then (h, .err "cannot set field")
    else
    match readLoc h bl with
    | some .nil =>
      match Overlay.tyElem ot with
      | .panic c => (h, .panic c)
      | .err c => (h, .err c)
      | .ok oe =>
        if Ty.struct bfs == oe then setLoc h (.ptr (.struct bfs)) ot bl ov
        else
          -- base.Set(reflect.New(base.Type().Elem()))
          match writeLoc (h ++ [.val (.st (zeroFs z bfs))]) bl (.ptr h.length) with
          | none => (h, .stuck "base location")
          | some h2 =>
            -- overlayStruct(base.Elem(), overlay.Elem())
            match ot with
            | .ptr (.struct ofs) =>
              match elemLoc h2 ol with
              | some el => overlayStructH z bfs ofs h2 ⟨h.length, []⟩ el 0 0
              | none => (h2, .stuck "overlay pointer")
            | .ptr _ => (h2, .panic "non-struct call: overlay")
            | _ => (h2, .panic "reflect: call of Elem on non-pointer Value")
    | some (.ptr c) =>
      -- both pointers are non-nil: merge in place into the base's pointee
      match ot with
      | .ptr (.struct ofs) =>
        match h[c]?, elemLoc h ol with
        | some (.val _), some el => overlayStructH z bfs ofs h ⟨c, []⟩ el 0 0
        | _, _ => (h, .stuck "pointee")
      | .ptr _ => (h, .panic "non-struct call: overlay")
      | _ => (h, .panic "reflect: call of Elem on non-pointer Value")
    | _ => (h, .stuck "base pointer")
  | .ptr (.tu n), ot, h, bl, ol =>
    match readLoc h ol with
    | none => (h, .stuck "overlay location")
    | some ov =>
    if nilableTy ot && isNilHV ov then (h, .ok)
    else if !settable then (h, .err "cannot set field")
    else
    match readLoc h bl with
    | some .nil =>
      match Overlay.tyElem ot with
      | .panic c => (h, .panic c)
      | .err c => (h, .err c)
      | .ok oe =>
        if Ty.tu n == oe then setLoc h (.ptr (.tu n)) ot bl ov
        else (h, .err "unexpected shallow-copy-struct as pointer target")
    | some (.ptr c) =>
      if ot == .ptr (.tu n) then setLoc h (.ptr (.tu n)) ot bl ov
      else if ot == .tu n then
        -- base.Elem().Set(overlay): in place, through the base pointer
        match h[c]? with
        | some (.val _) => setLoc h (.tu n) ot ⟨c, []⟩ ov
        | _ => (h, .stuck "pointee")
      else (h, .ok)
    | _ => (h, .stuck "base pointer")
  | .ptr be, ot, h, bl, ol =>
    match readLoc h ol with
    | none => (h, .stuck "overlay location")
    | some ov =>
    if nilableTy ot && isNilHV ov then (h, .ok)
    else if !settable then (h, .err "cannot set field")
    else
    match readLoc h bl with
    | some .nil =>
      match Overlay.tyElem ot with
      | .panic c => (h, .panic c)
      | .err c => (h, .err c)
      | .ok oe =>
        if be == oe then setLoc h (.ptr be) ot bl ov
        else (h, .err "unexpected kind for mangled pointer target")
    | some (.ptr _) =>
      -- F10: a user-declared pointer to a non-struct type is replaced
      if Facts.overlayReplacesNonStructPtr then setLoc h (.ptr be) ot bl ov
      else (h, .panic "non-struct call: base")
    | _ => (h, .stuck "base pointer")
  | .tu n, ot, h, bl, ol =>
    match readLoc h ol with
    | none => (h, .stuck "overlay location")
    | some ov =>
    if nilableTy ot && isNilHV ov then (h, .ok)
    else if !settable then (h, .err "cannot set field")
    else
    match ot with
    | .ptr oe => setFromElem h (.tu n) oe bl ol
    | .tu m => if m == n then setLoc h (.tu n) (.tu m) bl ov else (h, .err "struct type not assignable")
    | .struct _ => (h, .err "struct type not assignable")
    | _ => (h, .err "type not assignable")
  | .struct bfs, ot, h, bl, ol =>
    match readLoc h ol with
    | none => (h, .stuck "overlay location")
    | some ov =>
    if nilableTy ot && isNilHV ov then (h, .ok)
    else if !settable then (h, .err "cannot set field")
    else
    match ot with
    | .ptr (.struct ofs) =>
      match elemLoc h ol with
      | some el => overlayStructH z bfs ofs h bl el 0 0
      | none => (h, .stuck "overlay pointer")
    | .ptr _ => (h, .panic "non-struct call: overlay")
    | .struct ofs => overlayStructH z bfs ofs h bl ol 0 0
    | _ => (h, .panic "non-struct call: overlay")
  | bt, ot, h, bl, ol =>
    -- scalar, slice, map (chan, func): the value is assigned as a whole
    match readLoc h ol with
    | none => (h, .stuck "overlay location")
    | some ov =>
    if nilableTy ot && isNilHV ov then (h, .ok)
    else if !settable then (h, .err "cannot set field")
    else
    match ot with
    | .ptr oe => setFromElem h bt oe bl ol
    | _ => setLoc h bt ot bl ov

/-- `overlayStruct(base, overlay)`: base fields from index `i` on (types `bfs`) against overlay fields
from index `j` on (types `ofs`) -/
def overlayStructH (z : Zeros) : Fields → Fields → Heap → Loc → Loc → Nat → Nat → Heap × St
  | .nil, _, h, _, _, _, _ => (h, .ok)
  | .cons k t r, ofs, h, bl, ol, i, j =>
    if skipField k t then overlayStructH z r ofs h bl ol (i + 1) j
    else
      match ofs with
      | .nil => (h, .panic "reflect: Field index out of range")
      | .cons _ ot ofs' =>
        match overlayFieldH z (decide (k ≠ .unexported)) t ot h (bl.field i) (ol.field j) with
        | (h', .ok) => overlayStructH z r ofs' h' bl ol (i + 1) (j + 1)
        | (h', .err c) => (h', .err c)
        | (h', .panic c) => (h', .panic c)
        | (h', .stuck c) => (h', .stuck c)
end

/-! ### one source of `compose`; `VerifOverlay` -/

/-- `sv := o.dc.deepCopyValue(s)` (F8b/F8c: own copier) followed by `o.overlayStruct(value, sv)`.
`v` is the source's value after compose's automatic dereference: `.ptr c` = the addressable struct in
cell `c` (the copier registers the pair (&s, &sv), which is the pointer memo entry of the model),
`.st fs` = a plain struct value.  `deepCopyValue` puts the copy into a fresh variable
(`reflect.New(T).Elem()`): the cell the overlay location points to.
`none` = the copier ran out of fuel (C03: it never does on well-formed input with enough fuel). -/
def overlayLayerH (z : Zeros) (fuel : Nat) (bfs ofs : Fields) (h : Heap) (b : Nat) (v : HV) : Option (Heap × St) :=
  match v with
  | .ptr c =>
    match (if Facts.composeCopiesSources then deepCopy fuel h (.ptr c) else some (h, .ptr c)) with
    | none => none
    | some (h1, .ptr c') => some (overlayStructH z bfs ofs h1 ⟨b, []⟩ ⟨c', []⟩ 0 0)
    | some (h1, _) => some (h1, .stuck "copy of a pointer is not a pointer")
  | .st fs =>
    match (if Facts.composeCopiesSources then deepCopy fuel h (.st fs) else some (h, .st fs)) with
    | none => none
    | some (h1, sv) => some (overlayStructH z bfs ofs (h1 ++ [.val sv]) ⟨b, []⟩ ⟨h1.length, []⟩ 0 0)
  | .nil => some (h, .panic "reflect: call of Type on zero Value")
  | _ => some (h, .panic "non-struct call: overlay")

/-- `dials.VerifOverlay(base, overlay)`: base = the settable struct in cell `b` -/
def verifOverlayH (z : Zeros) (fuel : Nat) (bfs ofs : Fields) (h : Heap) (b : Nat) (v : HV) : Option (Heap × St) :=
  overlayLayerH z fuel bfs ofs h b v

/-- the loop of `compose` over the source values (each with its pointerified type) -/
def composeLoop (z : Zeros) (fuel : Nat) (bfs : Fields) (b : Nat) : Heap → List (Fields × HV) → Option (Heap × St)
  | h, [] => some (h, .ok)
  | h, (ofs, v) :: rest =>
    match overlayLayerH z fuel bfs ofs h b v with
    | none => none
    | some (h', .ok) => composeLoop z fuel bfs b h' rest
    | some (h', st) => some (h', st)

/-- `compose(t, sources)`: `d` = the pointer `t` to the defaults; result = heap, status and the pointer
compose returns (`value.Addr()`; meaningful when the status is `ok` — Go returns `nil, err` otherwise).
F8a: the defaults are deep-copied first. -/
def composeR (z : Zeros) (fuel : Nat) (bfs : Fields) (h : Heap) (d : HV) (vs : List (Fields × HV)) :
    Option (Heap × St × HV) :=
  match (if Facts.composeCopiesDefaults then deepCopy fuel h d else some (h, d)) with
  | none => none
  | some (h1, .ptr b) =>
    match h1[b]? with
    | some (.val _) =>
      match composeLoop z fuel bfs b h1 vs with
      | none => none
      | some (h', st) => some (h', st, .ptr b)
    | _ => some (h1, .stuck "defaults pointer", .ptr b)
  | some (h1, r) => some (h1, .panic "reflect: call of Elem on non-pointer Value", r)

end Dials.Heap
