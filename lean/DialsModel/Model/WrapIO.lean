/-
Text protocol for the wrapper models (C20).

  wr val src|dec <t> <i> <r>      one Value / Decode call; each of <t> (TranslateType), <i> (inner Value/Decode),
                                  <r> (ReverseTranslate) is  ok | e:<hex msg> | p:<hex msg>
                                  → ok | err <hex msg> | panic <hex msg>
  wr watch <t> <i>                one Watch call of a wrapped watcher → same
  wr iswatcher 0|1                → 0|1
  wr upd <call>*                  calls of the inner watcher on the wrapped args:
                                    r:<n>:<rev>  ReportNewValue of value n, b:<n>:<rev> the blocking one (<rev> as above),
                                    d  Done,  x:<hex> ReportError
                                  → per call  <msgs>/<ret>  with msgs ⊆ {V:<0|1>:<n>, RAW:<0|1>:<n>, D, E:<hex>} joined by ","
                                    ("-" if none) and ret = ok | err:<hex> | panic
  bk <op>*                        operations on a fresh Blank:  v  Value,  w  Watch,  d  Done,
                                    s:nil:<rep>, s:<id>:<watcher><valueOk><watchOk>:<rep>   (bits 0/1)
                                  → per op  <ret>|<evs>  with ret = nil | err | panic | zero | inner:<id>:<0|1>,
                                    evs ⊆ {V<id>, R<id>b, R<id>n, W<id>, D} joined by "," ("-" if none);
                                    then  ;inner=<id|->,wa=<0|1>,t=<0|1>
-/
import DialsModel.Model.Wrap
import DialsModel.Model.Proto

namespace Dials.Wrap
open Dials.Proto

def parseOutcome (s : String) : Option (Outcome Unit) :=
  if s == "ok" then some (.ok ())
  else if s.startsWith "e:" then (hexDecode (s.drop 2).toString).map fun m => .err (String.ofList m)
  else if s.startsWith "p:" then (hexDecode (s.drop 2).toString).map fun m => .panic (String.ofList m)
  else none

def showOutcome : Outcome Unit → String
  | .ok _ => "ok"
  | .err m => "err " ++ hexEnc m.toList
  | .panic m => "panic " ++ hexEnc m.toList

/-- the driver's transformer: the three outcomes are the request's -/
def ioX (t r : Outcome Unit) : Xf Unit Unit Unit Unit where
  translate := fun _ => t
  reverse := fun _ _ => r

/-- mangled values of the update protocol: an index and the outcome of reverse-translating it -/
abbrev IOVal' := Nat × Outcome Unit

def updX : Xf Unit Unit Nat IOVal' where
  translate := fun _ => .ok ()
  reverse := fun _ v' => match v'.2 with
    | .ok _ => .ok v'.1
    | .err m => .err m
    | .panic m => .panic m

def parseCall (s : String) : Option (Call IOVal') :=
  if s == "d" then some .done
  else if s.startsWith "x:" then (hexDecode (s.drop 2).toString).map fun m => .reportError (String.ofList m)
  else
    match s.splitOn ":" with
    | k :: n :: rest =>
      if k == "r" || k == "b" then do
        let n ← n.toNat?
        let o ← parseOutcome (":".intercalate rest)
        pure (.report (k == "b") (n, o))
      else none
    | _ => none

def bit (b : Bool) : String := if b then "1" else "0"

def showMsg : Msg Nat IOVal' → String
  | .value b n => s!"V:{bit b}:{n}"
  | .raw b v' => s!"RAW:{bit b}:{v'.1}"
  | .done => "D"
  | .error e => "E:" ++ hexEnc e.toList

def showRet : Outcome Unit → String
  | .ok _ => "ok"
  | .err m => "err:" ++ hexEnc m.toList
  | .panic _ => "panic"

def commaOr (xs : List String) : String := if xs.isEmpty then "-" else ",".intercalate xs

def parseBit (c : Char) : Option Bool := if c == '1' then some true else if c == '0' then some false else none

def parseOp (s : String) : Option Op :=
  if s == "v" then some .value
  else if s == "w" then some .watch
  else if s == "d" then some .done
  else
    match s.splitOn ":" with
    | ["s", "nil", rep] => (rep.toList.head?.bind parseBit).map fun r => .setSource none r
    | ["s", id, flags, rep] => do
      let id ← id.toNat?
      let r ← rep.toList.head?.bind parseBit
      match flags.toList with
      | [a, b, c] =>
        let a ← parseBit a
        let b ← parseBit b
        let c ← parseBit c
        pure (.setSource (some ⟨id, a, b, c⟩) r)
      | _ => none
    | _ => none

def showEv : Ev → String
  | .innerValue id => s!"V{id}"
  | .report id b => s!"R{id}" ++ (if b then "b" else "n")
  | .innerWatch id => s!"W{id}"
  | .doneFwd => "D"

def showBRet : Ret → String
  | .nil => "nil"
  | .error _ => "err"
  | .panic _ => "panic"
  | .zeroValue => "zero"
  | .innerResult id ok => s!"inner:{id}:{bit ok}"

def handleWr : List String → String
  | ["val", kind, t, i, r] =>
    match parseOutcome t, parseOutcome i, parseOutcome r with
    | some t, some i, some r =>
      let R := if kind == "dec" then decRules else srcRules
      showOutcome (wrappedValue R (ioX t r) (fun _ => i) ())
    | _, _, _ => "bad-op"
  | ["watch", t, i] =>
    match parseOutcome t, parseOutcome i with
    | some t, some i => showOutcome (wrappedWatch (ioX t (.ok ())) (fun _ => i) ())
    | _, _ => "bad-op"
  | ["iswatcher", w] => bit (wrappedIsWatcher (w == "1"))
  | "upd" :: calls =>
    match calls.mapM parseCall with
    | some cs =>
      " ".intercalate (cs.map fun c =>
        let r := wrappedCall watchOverrides updX () (fun _ => .ok ()) c
        commaOr (r.1.map showMsg) ++ "/" ++ showRet r.2)
    | none => "bad-op"
  | _ => "bad-op"

def handleBk (ops : List String) : String :=
  match (ops.filter (· ≠ "")).mapM parseOp with
  | some ops =>
    let r := run code {} ops
    let per := r.2.map fun x => showBRet x.2 ++ "|" ++ commaOr (x.1.map showEv)
    let inner := match r.1.inner with | some s => toString s.id | none => "-"
    " ".intercalate per ++ s!" ;inner={inner},wa={bit r.1.wa},t={bit r.1.t}"
  | none => "bad-op"

end Dials.Wrap
