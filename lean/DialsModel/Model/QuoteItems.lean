/-
strconv.Quote on ARBITRARY byte strings, with the two things the model does not compute supplied as input: how the
bytes split into UTF-8 sequences and whether a rune is printable (utf8.DecodeRuneInString, strconv.IsPrint - computed by
the harness with the real functions and compared on every run).  A string is given as its list of ITEMS; what Quote writes
for each item, and the bytes the item stands for, are modelled here.  Strings are bytes: one `Char` below 256 per byte.
-/
import DialsModel.Model.Scan

namespace Dials.Parse

inductive QItem where
  | ascii (c : Char)        -- an ASCII character (escaped or not as `quoteChar` says)
  | bad (b : Nat)           -- a byte ≥ 0x80 that does not start a valid UTF-8 sequence: written `\xNN`
  | print (r : Nat)         -- a correctly encoded rune ≥ 0x80 that strconv.IsPrint accepts: written as its UTF-8 bytes
  | esc (r : Nat)           -- a correctly encoded rune ≥ 0x80 that is not printable: written `\uXXXX` / `\UXXXXXXXX`
deriving Repr, DecidableEq

/-- `k` lower-case hexadecimal digits of `v`, most significant first -/
def hexDigitsL : Nat → Nat → List Char
  | 0, _ => []
  | k + 1, v => hexDigitsL k (v / 16) ++ [hexDigitL (v % 16)]

/-- the bytes of the string the item stands for -/
def QItem.bytes : QItem → List Char
  | .ascii c => [c]
  | .bad b => [Char.ofNat b]
  | .print r => encodeRune r
  | .esc r => encodeRune r

/-- what strconv.Quote writes for the item -/
def QItem.quoted : QItem → List Char
  | .ascii c => quoteChar c
  | .bad b => '\\' :: 'x' :: hexDigitsL 2 b
  | .print r => encodeRune r
  | .esc r => if r < 0x10000 then '\\' :: 'u' :: hexDigitsL 4 r else '\\' :: 'U' :: hexDigitsL 8 r

def QItem.ok : QItem → Prop
  | .ascii c => isAscii c = true
  | .bad b => 128 ≤ b ∧ b < 256
  | .print r => 128 ≤ r ∧ validRune r = true
  | .esc r => 128 ≤ r ∧ validRune r = true

def itemsBytes (is : List QItem) : List Char := is.flatMap QItem.bytes

def quoteItems (is : List QItem) : List Char := '"' :: (is.flatMap QItem.quoted ++ ['"'])

end Dials.Parse
