/-
Text protocol for the flag-source model (driver op `fs`).

  fs <std|pflag> <nameEnc> <tagEnc> <fields> <val> <n> occ*n
        → <status> | <reg>* | <result>
  <nameEnc>, <tagEnc> ::= names of caseconversion encoders (EncodeKebabCase …)
  <fields> ::= the pointerified config type in the grammar of Model/TfIO.lean
  <val>    ::= the template (the caller's struct) in the value grammar of TfIO (`valStr`)
  occ      ::= O <namehex> <texthex> <ext> <k> tok*k <m> tok*m      (token streams of the text: slice scanner, map scanner)
  <ext>    ::= - | r | v | c:<hex>        (not applicable / rejected / float32 overflow / accepted with canonical text)
  <reg>    ::= <fieldnamehex>:<flagnamehex>:<route>:<default>        one per translated field, in order
  <default>::= t=<hex> | q=<hexlist> | p=<hexk>=<hexv>,… | x
  <result> ::= ok <val>* | err | panic <class> | ood
-/
import DialsModel.Model.FlagSrc
import DialsModel.Model.TfIO

namespace Dials.FlagSrc
open Dials.Tf Dials.Proto

mutual
def parseVal : Nat → List String → Option (Val × List String)
  | 0, _ => none
  | _ + 1, [] => none
  | fuel + 1, t :: rest =>
    if t == "n" then some (.nilv, rest)
    else if t == "b0" then some (.b false, rest)
    else if t == "b1" then some (.b true, rest)
    else if t == "&" then (parseVal fuel rest).map fun (v, r) => (.ptr v, r)
    else if t == "[" then (parseVals fuel "]" rest).map fun (vs, r) => (.list vs, r)
    else if t == "(" then (parseVals fuel ")" rest).map fun (vs, r) => (.setv vs, r)
    else if t == "{" then (parseVals fuel "}" rest).map fun (vs, r) => (.struct vs, r)
    else if t == "<" then (parsePairs fuel rest).map fun (kvs, r) => (.mapv kvs, r)
    else if t.startsWith "i" then ((t.drop 1).toString.toInt?).map fun x => (.i x, rest)
    else if t.startsWith "s" then (hexStr (t.drop 1).toString).map fun x => (.s x, rest)
    else none
def parseVals : Nat → String → List String → Option (List Val × List String)
  | 0, _, _ => none
  | _ + 1, _, [] => none
  | fuel + 1, close, t :: rest =>
    if t == close then some ([], rest)
    else
      match parseVal fuel (t :: rest) with
      | some (v, r) => (parseVals fuel close r).map fun (vs, r') => (v :: vs, r')
      | none => none
def parsePairs : Nat → List String → Option (List (Val × Val) × List String)
  | 0, _ => none
  | _ + 1, [] => none
  | fuel + 1, t :: rest =>
    if t == ">" then some ([], rest)
    else
      match parseVal fuel (t :: rest) with
      | some (k, r) =>
        match parseVal fuel r with
        | some (v, r') => (parsePairs fuel r').map fun (kvs, r'') => ((k, v) :: kvs, r'')
        | none => none
      | none => none
end

def parseExt (t : String) : Option ExtRes :=
  if t == "-" then some (.ok "")
  else if t == "r" then some .rejected
  else if t == "v" then some .overflow
  else if t.startsWith "c:" then (hexStr (t.drop 2).toString).map ExtRes.ok
  else none

structure OccE where
  occ : Occ
  sliceToks : List Parse.Tok
  mapToks : List Parse.Tok

def parseOccs : Nat → List String → Option (List OccE)
  | 0, [] => some []
  | n + 1, "O" :: nm :: tx :: ex :: k :: r => do
    let nm ← hexStr nm
    let tx ← hexStr tx
    let ex ← parseExt ex
    let k ← k.toNat?
    let (st, r1) ← takeToks k r
    match r1 with
    | m :: r2 => do
      let m ← m.toNat?
      let (mt, r3) ← takeToks m r2
      let rest ← parseOccs n r3
      some ({ occ := { name := nm, text := tx, ext := ex }, sliceToks := st, mapToks := mt } :: rest)
    | [] => none
  | _, _ => none

def occTokTable (es : List OccE) : TokTable := fun text =>
  match es.find? (·.occ.text == text) with
  | some e => (e.sliceToks, e.mapToks)
  | none => ([.scanErr], [.scanErr])

def routeStr : Route → String
  | .int sg bits k => s!"int{if sg then "s" else "u"}{bits}/{bkStr (.int k)}"
  | .bool => "bool"
  | .str => "str"
  | .ext c => "ext/" ++ c
  | .strSlice => "strSlice"
  | .strSet => "strSet"
  | .mapSS => "mapSS"
  | .mapSSlice => "mapSSlice"
  | .intSlice k => "intSlice/" ++ bkStr (.int k)
  | .native => "native"
  | .unreg => "unreg"

def defStr : DefForm → String
  | .text s => "t=" ++ strHex s
  | .quoted items => "q=" ++ (if items.isEmpty then "." else ",".intercalate (items.map strHex))
  | .quotedPairs kvs => "p=" ++ (if kvs.isEmpty then "." else ",".intercalate (kvs.map fun p => strHex p.1 ++ "=" ++ strHex p.2))
  | .external => "x"

def regStr (r : Reg) : String :=
  strHex r.hdr.name ++ ":" ++ strHex r.name ++ ":" ++ routeStr r.route ++ ":" ++
    (if r.route == .unreg then "x" else defStr (defaultOf r.route r.dflt))

def pkgOf : String → Option Pkg
  | "std" => some .std
  | "pflag" => some .pflag
  | _ => none

def resultStr : Outcome (List Val) → String
  | .ok vs => "ok " ++ valsStr 1000 vs
  | .err c => if c.startsWith "OOD" then "ood" else "err"
  | .panic c => "panic " ++ c

def handleFs : List String → String
  | pk :: ne :: te :: toks =>
    match pkgOf pk, parseTop toks with
    | some p, some (fs, r1) =>
      match parseVal (r1.length + 1) r1 with
      | some (tmpl, n :: r2) =>
        match n.toNat? with
        | some n =>
          match parseOccs n r2 with
          | some es =>
            let fuel := fuelFor toks
            let regs := registration fuel p ne te fs.toList tmpl
            let regsS := match regs with
              | .ok rs => "ok | " ++ " ".intercalate (rs.map regStr)
              | .err _ => "err |"
              | .panic c => "panic " ++ c ++ " |"
            regsS ++ " | " ++ resultStr (flagValue fuel p ne te (occTokTable es) fs.toList tmpl (es.map (·.occ)))
          | none => "bad-occ"
        | none => "bad-op"
      | _ => "bad-val"
    | _, _ => "bad-op"
  | _ => "bad-op"

end Dials.FlagSrc
