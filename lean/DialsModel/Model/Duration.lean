/-
Executable models of time.Duration.String (what the flag helpers and `fmt` print for a duration leaf) and of
time.ParseDuration (what parse.String calls for a duration leaf), over BYTES (a `Char` below 256 per byte: the
micro sign of "µs" is the two bytes C2 B5), and of strconv.ParseBool / FormatBool.

Outside the model (`ood`): a fraction whose contribution is not an exact integer - more fractional digits than the unit
has decimal places below it, where time.ParseDuration rounds through float64 - or with more than 18 digits (where
leadingFraction stops accumulating).  Duration.String never prints such a fraction.
leadingInt's stepwise overflow test (`x > 1<<63/10`, then `x*10+d > 1<<63`) is modelled by its meaning: the digits'
value exceeds 1<<63 (the prefix values only grow, so one of the two tests fires exactly in that case).
-/
import DialsModel.Model.ParseInt

namespace Dials.Parse

def two63 : Nat := 9223372036854775808

/-- consume leading decimal digits: value and count accumulated onto (v, k), and the rest -/
def leadDigits : Str → Nat → Nat → Nat × Nat × Str
  | [], v, k => (v, k, [])
  | c :: cs, v, k => if isDigitA c then leadDigits cs (v * 10 + (c.toNat - 48)) (k + 1) else (v, k, c :: cs)

def microSign : Str := [Char.ofNat 0xC2, Char.ofNat 0xB5]
def greekMu : Str := [Char.ofNat 0xCE, Char.ofNat 0xBC]

/-- time.unitMap -/
def unitOf (u : Str) : Option Nat :=
  if u = ['n', 's'] then some 1
  else if u = ['u', 's'] ∨ u = microSign ++ ['s'] ∨ u = greekMu ++ ['s'] then some 1000
  else if u = ['m', 's'] then some 1000000
  else if u = ['s'] then some 1000000000
  else if u = ['m'] then some 60000000000
  else if u = ['h'] then some 3600000000000
  else none

/-- the unit: everything up to the next '.' or digit -/
def spanUnit : Str → Str × Str
  | [] => ([], [])
  | c :: cs => if c == '.' || isDigitA c then ([], c :: cs) else let r := spanUnit cs; (c :: r.1, r.2)

inductive CompR where
  | ok (v : Nat) (rest : Str)
  | err
  | ood
deriving Repr, DecidableEq

/-- one `[0-9]*(\.[0-9]*)?[a-z]+` group of time.ParseDuration: its value in nanoseconds -/
def parseComp (s : Str) : CompR :=
  match s with
  | [] => .err
  | c :: _ =>
    if !(c == '.' || isDigitA c) then .err else
    let r1 := leadDigits s 0 0
    if r1.1 > two63 then .err else
    let pre := r1.2.1 != 0
    let fr : Nat × Nat × Str := match r1.2.2 with
      | [] => (0, 0, [])
      | c :: t => if c == '.' then leadDigits t 0 0 else (0, 0, c :: t)
    if !pre && fr.2.1 == 0 then .err else
    let us := spanUnit fr.2.2
    if us.1.isEmpty then .err else
    match unitOf us.1 with
    | none => .err
    | some unit =>
      if r1.1 > two63 / unit then .err else
      if fr.1 > 0 then
        if 18 < fr.2.1 || unit % 10 ^ fr.2.1 != 0 then .ood
        else if r1.1 * unit + fr.1 * (unit / 10 ^ fr.2.1) > two63 then .err
        else .ok (r1.1 * unit + fr.1 * (unit / 10 ^ fr.2.1)) us.2
      else .ok (r1.1 * unit) us.2

inductive DurN where
  | ok (d : Nat)
  | err
  | ood
deriving Repr, DecidableEq

def parseLoop : Nat → Str → Nat → DurN
  | 0, _, _ => .err                       -- unreachable with fuel > length: every group consumes a character
  | fuel + 1, s, d =>
    if s.isEmpty then .ok d else
    match parseComp s with
    | .err => .err
    | .ood => .ood
    | .ok v rest => if d + v > two63 then .err else parseLoop fuel rest (d + v)

inductive DurR where
  | ok (d : Int)
  | err
  | ood
deriving Repr, DecidableEq

/-- time.ParseDuration after the sign -/
def parseDurationCore (neg : Bool) (s1 : Str) : DurR :=
  if s1 = ['0'] then .ok 0
  else if s1.isEmpty then .err
  else match parseLoop (s1.length + 1) s1 0 with
    | .err => .err
    | .ood => .ood
    | .ok d => if neg then .ok (-(d : Int)) else if d > two63 - 1 then .err else .ok d

/-- time.ParseDuration -/
def parseDuration (s : Str) : DurR :=
  parseDurationCore (s.head? == some '-') (if s.head? == some '-' || s.head? == some '+' then s.tail else s)

/-! ### Duration.String -/

/-- exactly `p` digits of `v` (most significant first, zero padded) -/
def fullDigits : Nat → Nat → Str
  | 0, _ => []
  | p + 1, v => fullDigits p (v / 10) ++ [Char.ofNat (48 + v % 10)]

/-- fmtFrac's digits: the `p` low digits of `v` without the trailing zeros -/
def trimDigits : Nat → Nat → Str
  | 0, _ => []
  | p + 1, v => if v % 10 = 0 then trimDigits p (v / 10) else fullDigits (p + 1) v

def fracStr (p v : Nat) : Str :=
  let ds := trimDigits p v
  if ds.isEmpty then [] else '.' :: ds

def fmtDurationNat (u : Nat) : Str :=
  if u = 0 then ['0', 's']
  else if u < 1000 then formatNat u ++ ['n', 's']
  else if u < 1000000 then formatNat (u / 1000) ++ fracStr 3 u ++ microSign ++ ['s']
  else if u < 1000000000 then formatNat (u / 1000000) ++ fracStr 6 u ++ ['m', 's']
  else
    let secs := u / 1000000000
    let sPart := formatNat (secs % 60) ++ fracStr 9 u ++ ['s']
    let mins := secs / 60
    if mins = 0 then sPart
    else
      let mPart := formatNat (mins % 60) ++ ['m']
      let hours := mins / 60
      if hours = 0 then mPart ++ sPart else formatNat hours ++ ['h'] ++ mPart ++ sPart

/-- time.Duration.String (d within int64) -/
def fmtDuration (d : Int) : Str :=
  if d < 0 then '-' :: fmtDurationNat d.natAbs else fmtDurationNat d.natAbs

/-! ### strconv.ParseBool / FormatBool -/

def parseBool (s : Str) : Option Bool :=
  if s = ['1'] ∨ s = ['t'] ∨ s = ['T'] ∨ s = "TRUE".toList ∨ s = "true".toList ∨ s = "True".toList then some true
  else if s = ['0'] ∨ s = ['f'] ∨ s = ['F'] ∨ s = "FALSE".toList ∨ s = "false".toList ∨ s = "False".toList then some false
  else none

def formatBool (b : Bool) : Str := if b then "true".toList else "false".toList

end Dials.Parse
