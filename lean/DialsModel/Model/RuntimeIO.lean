/-
Text protocol for the runtime model: label parsing and canonical observation rendering.
The harness renders the implementation's observable state in exactly the same format.
-/
import DialsModel.Model.Runtime

namespace Dials.Runtime

def cfgStr (c : Slots) : String := if c.isEmpty then "e" else String.intercalate "." (c.map toString)
def ocfgStr : Option Slots → String
  | some c => cfgStr c
  | none => "-"
def b01 (b : Bool) : String := if b then "1" else "0"

def parseCfg (s : String) : Option Slots :=
  if s == "e" then some [] else (s.splitOn ".").mapM String.toNat?
def parseOCfg (s : String) : Option (Option Slots) :=
  if s == "-" then some none else (parseCfg s).map some

def errStr : ErrK → String
  | .stack => "stack"
  | .verify => "verify"
  | .source e => s!"src{e}"

def evStr : CbEv → String
  | .newCfg old new supp => s!"new:{cfgStr old}:{new.serial}:{cfgStr new.cfg}:{b01 supp}"
  | .watchErr k old new => s!"werr:{errStr k}:{cfgStr old}:{ocfgStr new}"
  | .reg h ser cfg => s!"reg:{h}:{ser}:{ocfgStr cfg}"
  | .unreg h _ _ => s!"unreg:{h}"

def callStr : Call → String
  | .onNew old new _ => s!"onNew:{cfgStr old}:{cfgStr new}"
  | .onErr k old new => s!"onErr:{errStr k}:{cfgStr old}:{ocfgStr new}"
  | .user h old new _ _ => s!"user:{h}:{cfgStr old}:{cfgStr new}"

def resStr : Res → String
  | .okNil => "nil" | .errStack => "stackErr" | .errVerify => "verifyErr" | .ctxErr => "ctxErr"
  | .version v => s!"ver:{v.serial}:{cfgStr v.cfg}"
  | .noEvent => "noev" | .event c => s!"ev:{cfgStr c}"
  | .regOk _ => "regOk" | .regFail => "regFail" | .unregTrue => "unregTrue" | .unregFalse => "unregFalse"
  | .enableOk v => s!"enOk:{v.serial}:{cfgStr v.cfg}" | .enableErr => "enErr"

def errKStr : ErrK → String
  | .stack => "stackErr"
  | .verify => "verifyErr"
  | .source _ => "sourceErr"

def monStr (s : State) : String :=
  match s.mon with
  | .top => s!"top:{b01 s.skipVerify}"
  | .sel => "blocked"
  | .gotValue src v reply => s!"got:value:{src}:{v}:{b01 reply.isSome}"
  | .verifyUpd slots' _ => s!"verify:{cfgStr slots'}"
  | .verifyEnable _ _ => s!"verify:{cfgStr s.view.cfg}"
  | .submitErr k _ _ => s!"submit:{errKStr k}"
  | .replyErr k _ => s!"reply:{errKStr k}"
  | .store slots' _ => s!"store:{Facts.nextSerial s.view.serial}:{cfgStr slots'}"
  | .events _ _ => "events"
  | .replyOk _ _ => "reply:ok"
  | .submitNew _ => "submit:newConfig"
  | .gotSrcErr e => s!"got:error:{e}"
  | .submitSrcErr _ => "submit:sourceErr"
  | .gotDone src => s!"got:done:{src}"
  | .gotEnable _ _ => "got:enable"
  | .enableReply _ _ ok noop => s!"enableReply:{if noop then "noop" else if ok then "ok" else "err"}"
  | .exit => "exit"
  | .finished => "finished"

def cbStr (s : State) : String :=
  match s.cb with
  | .top => "top"
  | .sel => "blocked"
  | .got ev => s!"got:{evStr ev}"
  | .calls (c :: _) _ => s!"call:{callStr c}"
  | .calls [] _ => "call:?"
  | .exit => "exit"
  | .finished => "finished"

def cstStr : CSt → String
  | .idle => "idle"
  | .ready _ _ => "ready"
  | .returned r => s!"ret:{resStr r}"
  | _ => "blocked"

def insertSorted (p : Nat × CSt) : List (Nat × CSt) → List (Nat × CSt)
  | [] => [p]
  | q :: qs => if p.1 ≤ q.1 then p :: q :: qs else q :: insertSorted p qs

def obsStr (s : State) : String :=
  let cl := (s.clients.foldr insertSorted []).filter (fun p => p.2 != .idle)
  let cs := cl.map (fun p => s!"C{p.1}={cstStr p.2}")
  s!"mon={monStr s} cb={cbStr s} view={s.view.serial}:{cfgStr s.view.cfg} ev={if s.events.isSome then 1 else 0} q={s.cbch.length}/{s.monCtl.length}" ++
    (if cs.isEmpty then "" else " " ++ String.intercalate " " cs)

def parseBool (s : String) : Option Bool :=
  if s == "1" then some true else if s == "0" then some false else none

def parseOp : List String → Option (Op × List String)
  | "view" :: r => some (.view, r)
  | "events" :: r => some (.events, r)
  | "report" :: src :: v :: b :: r => do some (.report (← src.toNat?) (← v.toNat?) (← parseBool b), r)
  | "reportErr" :: src :: e :: r => do some (.reportErr (← src.toNat?) (← e.toNat?), r)
  | "done" :: src :: r => do some (.done (← src.toNat?), r)
  | "register" :: h :: ser :: cfg :: r => do some (.register (← h.toNat?) (← ser.toNat?) (← parseOCfg cfg), r)
  | "unregister" :: h :: r => do some (.unregister (← h.toNat?), r)
  | "enable" :: r => some (.enable, r)
  | _ => none

def parseLabel : List String → Option Label
  | "begin" :: c :: rest => do
    let (op, r) ← parseOp rest
    match r with
    | [ctx] => some (.begin (← c.toNat?) op (← ctx.toNat?))
    | _ => none
  | ["ack", c] => do some (.ack (← c.toNat?))
  | ["mon", k] => do some (.runMon (← k.toNat?))
  | ["cb"] => some .runCb
  | ["cli", c, k] => do some (.runClient (← c.toNat?) (← k.toNat?))
  | ["cancel", ctx] => do some (.cancel (← ctx.toNat?))
  | _ => none

/-- the harness's world: a slot value v is unstackable when v % 4 = 2 and invalid when v % 4 = 1 -/
def harnessWorld : World :=
  { stackOk := fun sl => sl.all (fun v => v % 4 != 2), valid := fun sl => sl.all (fun v => v % 4 != 1) }

/-- one request of the `rt` protocol against the session state -/
def handleRt (st : Option State) (args : List String) : Option State × String :=
  match args with
  | ["init", si, dl, su, slots, watching] =>
    match parseBool si, parseBool dl, parseBool su, parseCfg slots, parseCfg watching with
    | some si, some dl, some su, some sl, some w =>
      match configInit harnessWorld ⟨si, dl, su⟩ sl with
      | .ok _ =>
        let s := initState ⟨si, dl, su⟩ sl (w.map (· != 0))
        (some s, "ok " ++ obsStr s)
      | .err c => (none, "configErr " ++ c)
      | .panic c => (none, "panic " ++ c)
    | _, _, _, _, _ => (st, "bad-op")
  | ["nowatch", si, dl, su, slots] =>
    match parseBool si, parseBool dl, parseBool su, parseCfg slots with
    | some si, some dl, some su, some sl =>
      match configInit harnessWorld ⟨si, dl, su⟩ sl with
      | .ok v =>
        let (r, vs) := enableNoWatch harnessWorld ⟨si, dl, su⟩ v
        (st, s!"ok {resStr r} verifies={vs.length}")
      | .err c => (st, "configErr " ++ c)
      | .panic c => (st, "panic " ++ c)
    | _, _, _, _ => (st, "bad-op")
  | "peek" :: l =>
    match st, parseLabel l with
    | some s, some lab =>
      match step harnessWorld s lab with
      | some s' => (st, "ok " ++ obsStr s')
      | none => (st, "disabled")
    | _, _ => (st, "bad-op")
  | "do" :: l =>
    match st, parseLabel l with
    | some s, some lab =>
      match step harnessWorld s lab with
      | some s' => (some s', "ok " ++ obsStr s')
      | none => (st, "disabled")
    | _, _ => (st, "bad-op")
  | ["obs"] =>
    match st with
    | some s => (st, "ok " ++ obsStr s)
    | none => (st, "bad-op")
  | ["state"] =>
    match st with
    | some s => (st, "ok " ++ toString (repr { s with log := [] }))
    | none => (st, "bad-op")
  | ["log"] =>
    match st with
    | some s => (st, "ok " ++ toString (repr s.log.reverse))
    | none => (st, "bad-op")
  | _ => (st, "bad-op")

end Dials.Runtime
