/-
Model of /repo/transform/transformer.go: the Transformer's positional bookkeeping
(TranslateType / ReverseTranslate with per-field output counts, running offset, and recursion into
struct-typed fields behind pointer / slice / array), over an explicit universe of config field
types, struct fields (name, tags, anonymous) and untyped values.

Simplifications (stated in DESIGN §5 C10): values carry no Go type, so reflect's
assignability/convertibility panics are not visible here (C16 observes panics on the
implementation); the Transformer's recorded state (`mState`) is recomputed from the (pure) `mangle`
functions instead of being stored — the counts and offsets are the same numbers; all fields are
exported (Pointerify has removed the others before any source sees the type).
-/
import DialsModel.Model.Basic
import DialsModel.Model.ParseInt

namespace Dials.Tf

/-- kinds parse.String can produce -/
inductive BK where
  | bool | str | f32 | f64 | c64 | c128
  | int (k : Parse.IntKind)
deriving Repr, DecidableEq, Inhabited

mutual
inductive Ty where
  | basic (k : BK) (named : Bool)     -- predeclared or user-defined named scalar type
  | dur                               -- time.Duration
  | pdur                              -- jsontypes.ParsingDuration
  | tu (n : Nat)                      -- a struct type implementing encoding.TextUnmarshaler (time.Time, …)
  | ptr (e : Ty)
  | slice (e : Ty)
  | array (n : Nat) (e : Ty)
  | map (k v : Ty)
  | set (k : Ty)                      -- map[k]struct{}
  | struct (fs : Fields)
inductive Fields where
  | nil
  | cons (name : String) (tags : List (String × String)) (anon : Bool) (t : Ty) (rest : Fields)
end

structure Hdr where
  name : String
  tags : List (String × String)
  anon : Bool := false
deriving Repr, DecidableEq, Inhabited

abbrev FT := Hdr × Ty

def Fields.toList : Fields → List FT
  | .nil => []
  | .cons n tg a t r => (⟨n, tg, a⟩, t) :: r.toList

def Fields.ofList : List FT → Fields
  | [] => .nil
  | (h, t) :: r => .cons h.name h.tags h.anon t (Fields.ofList r)

/-- untyped values; the type comes from the context -/
inductive Val where
  | nilv                                  -- nil pointer / slice / map / unset
  | b (x : Bool)
  | i (x : Int)
  | s (x : String)                        -- strings, and the text of externally parsed scalars (floats, complex, durations)
  | ptr (v : Val)
  | list (vs : List Val)                  -- slice, array
  | setv (vs : List Val)                  -- map[T]struct{} (order of first insertion)
  | mapv (kvs : List (Val × Val))
  | struct (vs : List Val)
deriving Repr, Inhabited

def Val.isNil : Val → Bool
  | .nilv => true
  | _ => false

/-! ### tags -/

def tagGet (tags : List (String × String)) (k : String) : Option String := (tags.find? (·.1 == k)).map (·.2)

/-- structtag.Set: replace in place or append -/
def tagSet : List (String × String) → String → String → List (String × String)
  | [], k, v => [(k, v)]
  | (k', v') :: r, k, v => if k' == k then (k, v) :: r else (k', v') :: tagSet r k v

def tagDel (tags : List (String × String)) (k : String) : List (String × String) := tags.filter (·.1 != k)

/-! ### the Mangler interface -/

structure Mangler where
  mangle : Hdr → Ty → Outcome (List FT)
  unmangle : Hdr → Ty → List (FT × Val) → Outcome Val
  recurse : Bool

/-- isStructishTypedField + "not a TextUnmarshaler": the inner struct's fields and the re-wrapper -/
def structish : Ty → Option (Fields × (Ty → Ty))
  | .struct fs => some (fs, id)
  | .ptr (.struct fs) => some (fs, Ty.ptr)
  | .slice (.struct fs) => some (fs, Ty.slice)
  | .array n (.struct fs) => some (fs, Ty.array n)
  | _ => none

def mapM' {α β} (f : α → Outcome β) : List α → Outcome (List β)
  | [] => .ok []
  | a :: as =>
    match f a with
    | .ok b =>
      match mapM' f as with
      | .ok bs => .ok (b :: bs)
      | .err c => .err c
      | .panic c => .panic c
    | .err c => .err c
    | .panic c => .panic c

mutual
/-- one mangler over one layer of fields (TranslateType's inner loop + maybeRecursivelyMangle) -/
def mangleLayer : Nat → Mangler → List FT → Outcome (List FT)
  | 0, _, _ => .err "fuel"
  | fuel + 1, m, fs =>
    match mapM' (fun (f : FT) =>
      match m.mangle f.1 f.2 with
      | .ok outs => mapM' (recurseType fuel m) outs
      | .err c => .err c
      | .panic c => .panic c) fs with
    | .ok groups => .ok groups.flatten
    | .err c => .err c
    | .panic c => .panic c
/-- maybeRecursivelyMangle for one output field -/
def recurseType : Nat → Mangler → FT → Outcome FT
  | 0, _, _ => .err "fuel"
  | fuel + 1, m, (h, t) =>
    if !m.recurse then .ok (h, t)
    else match structish t with
      | none => .ok (h, t)
      | some (ifs, wrap) =>
        match mangleLayer fuel m ifs.toList with
        | .ok r => .ok (h, wrap (.struct (Fields.ofList r)))
        | .err c => .err c
        | .panic c => .panic c
end

/-- TranslateType: the manglers in order -/
def translate (fuel : Nat) : List Mangler → List FT → Outcome (List FT)
  | [], fs => .ok fs
  | m :: ms, fs =>
    match mangleLayer fuel m fs with
    | .ok fs' => translate fuel ms fs'
    | .err c => .err c
    | .panic c => .panic c

/-- split `vals` according to `counts` (ReverseTranslate's running offset) -/
def splitCounts {α} : List Nat → List α → List (List α)
  | [], _ => []
  | n :: ns, vs => vs.take n :: splitCounts ns (vs.drop n)

mutual
/-- one mangler, backwards, over one layer: `fs` are the layer's INPUT fields, `vals` the values of
its OUTPUT fields -/
def unmangleLayer : Nat → Mangler → List FT → List Val → Outcome (List Val)
  | 0, _, _, _ => .err "fuel"
  | fuel + 1, m, fs, vals =>
    -- recompute each field's outputs (the Go code recorded them in mState)
    match mapM' (fun (f : FT) => m.mangle f.1 f.2) fs with
    | .err c => .err c
    | .panic c => .panic c
    | .ok outss =>
      let groups := splitCounts (outss.map List.length) vals
      mapM' (fun (x : FT × List FT × List Val) =>
        let (f, outs, gvals) := x
        if outs.length != gvals.length then .panic "slice bounds out of range"
        else
          -- maybeRecursivelyUnmangle, then Unmangle
          match mapM' (fun (p : FT × Val) => recurseVal fuel m p.1 p.2) (outs.zip gvals) with
          | .ok vs =>
            -- the field handed to Unmangle carries the recursively mangled type
            match mapM' (recurseType fuel m) outs with
            | .ok outs' => m.unmangle f.1 f.2 (outs'.zip vs)
            | .err c => .err c
            | .panic c => .panic c
          | .err c => .err c
          | .panic c => .panic c) (fs.zip (outss.zip groups))
/-- maybeRecursivelyUnmangle for one output field's value -/
def recurseVal : Nat → Mangler → FT → Val → Outcome Val
  | 0, _, _, _ => .err "fuel"
  | fuel + 1, m, (_, t), v =>
    if !m.recurse then .ok v
    else match structish t with
      | none => .ok v
      | some (ifs, _) =>
        let inner (sv : Val) : Outcome Val :=
          match sv with
          | .struct vs =>
            match unmangleLayer fuel m ifs.toList vs with
            | .ok r => .ok (.struct r)
            | .err c => .err c
            | .panic c => .panic c
          | _ => .panic "ReverseTranslate of a non-struct"
        match t, v with
        | .ptr _, .nilv => .ok .nilv
        | .ptr _, .ptr sv => (inner sv).bind fun r => .ok (.ptr r)
        | .struct _, sv => inner sv
        | .slice _, .nilv => .ok .nilv
        | .slice _, .list vs => (mapM' inner vs).bind fun r => .ok (.list r)
        | .array _ _, .list vs => (mapM' inner vs).bind fun r => .ok (.list r)
        | _, _ => .panic "unexpected value kind in recursive unmangle"
end

/-- the field lists entering each mangler: L₀ = fs, Lᵢ₊₁ = mangleLayer mᵢ Lᵢ -/
def layers (fuel : Nat) : List Mangler → List FT → Outcome (List (Mangler × List FT))
  | [], _ => .ok []
  | m :: ms, fs =>
    match mangleLayer fuel m fs with
    | .ok fs' =>
      match layers fuel ms fs' with
      | .ok r => .ok ((m, fs) :: r)
      | .err c => .err c
      | .panic c => .panic c
    | .err c => .err c
    | .panic c => .panic c

/-- ReverseTranslate: the manglers in reverse order -/
def reverse (fuel : Nat) (ms : List Mangler) (fs : List FT) (vals : List Val) : Outcome (List Val) :=
  match layers fuel ms fs with
  | .err c => .err c
  | .panic c => .panic c
  | .ok ls =>
    ls.foldr (fun (l : Mangler × List FT) acc =>
      match acc with
      | .ok vs => unmangleLayer fuel l.1 l.2 vs
      | e => e) (.ok vals)
      |> fun r => r

end Dials.Tf
