/-
Character-level model (ASCII) of what stands between the TEXT of a collection flag and the token
stream consumed by `Model/Split.lean`:

* `quote`      – strconv.Quote, as called by the flag helpers' `String()` (flaghelper/strings.go);
* `scanText`   – text/scanner as configured by splitStringsSlice / splitMap (Mode = ScanStrings |
                 ScanRawStrings | ScanIdents | ScanChars, the two custom `IsIdentRune`s, default
                 white space, one character of look-ahead, loop `tok != EOF && ErrorCount == 0`),
                 followed by strconv.Unquote on String / RawString tokens;
* `printSlice`, `printMap` – the texts the flag helpers print;
* `sliceText`, `setText`, `mapText`, `multiMapText` – the parsers from text to value.

Domain: every character of the TEXT is ASCII (< 0x80).  The VALUE of a quoted string is a byte string (a `Char`
below 256 per byte): `\xNN` and octal escapes denote one byte each, whatever its value; a `\u` / `\U` escape denotes
the UTF-8 encoding of its rune.  (`scanText` keeps its `Option`: since `\u` escapes are encoded it never answers `none`
on ASCII text; the driver answers "outside" for non-ASCII TEXT before calling it.)

The scanner is a per-character state machine (structural recursion, no fuel); the token loop
carries fuel (`length + 1` always suffices: every token consumes a character).
-/
import DialsModel.Model.Split
import DialsModel.Gen.Facts

namespace Dials.Parse

def NUL : Char := Char.ofNat 0

/-- scanner.GoWhitespace -/
def isWs (c : Char) : Bool := c == '\t' || c == '\n' || c == '\r' || c == ' '

/-- unicode.IsPrint / strconv.IsPrint on ASCII -/
def isPrintA (c : Char) : Bool := 0x20 ≤ c.toNat && c.toNat ≤ 0x7e

/-- the custom `IsIdentRune` (ASCII): the deny list first, then the allow list, then "not white space below
' ' and printable".  The two lists per function are regenerated facts (F13s). -/
def identRune (mapMode : Bool) (c : Char) : Bool :=
  let deny := if mapMode then Facts.mapIdentDeny else Facts.sliceIdentDeny
  let allow := if mapMode then Facts.mapIdentAllow else Facts.sliceIdentAllow
  if deny.contains c.toNat then false
  else if allow.contains c.toNat then true
  else if c.toNat < 0x20 && isWs c then false
  else isPrintA c

def hexValS (c : Char) : Option Nat :=
  if 48 ≤ c.toNat ∧ c.toNat ≤ 57 then some (c.toNat - 48)
  else if 97 ≤ c.toNat ∧ c.toNat ≤ 102 then some (c.toNat - 87)
  else if 65 ≤ c.toNat ∧ c.toNat ≤ 70 then some (c.toNat - 55)
  else none

def digitOK (base : Nat) (c : Char) : Bool :=
  match hexValS c with
  | some v => v < base
  | none => false

/-- the one-character escapes (value of `\c`) common to the scanner and strconv -/
def simpleEsc (c : Char) : Option Char :=
  if c == 'a' then some (Char.ofNat 7) else if c == 'b' then some (Char.ofNat 8)
  else if c == 'f' then some (Char.ofNat 12) else if c == 'n' then some '\n'
  else if c == 'r' then some '\r' else if c == 't' then some '\t'
  else if c == 'v' then some (Char.ofNat 11) else if c == '\\' then some '\\'
  else none

/-! ### text/scanner: scanString / scanEscape / scanDigits as a state machine -/

inductive EscSt where
  | normal
  | bs                                  -- just after a backslash
  | dig (base k : Nat)                  -- k more digits of the given base are required
deriving Repr, DecidableEq

inductive ScanStep where
  | close                               -- the closing quote
  | err                                 -- "literal not terminated" / "invalid char escape"
  | next (st : EscSt) (inc : Nat)       -- consumed; `inc` = 1 when a denoted character is complete
deriving Repr, DecidableEq

/-- one character of scanString / scanEscape / scanDigits -/
def scanStep (q : Char) : EscSt → Char → ScanStep
  | .normal, c =>
    if c == q then .close
    else if c == '\n' then .err
    else if c == '\\' then .next .bs 0
    else .next .normal 1
  | .bs, c =>
    if (simpleEsc c).isSome || c == q then .next .normal 1
    else if digitOK 8 c then .next (.dig 8 2) 0
    else if c == 'x' then .next (.dig 16 2) 0
    else if c == 'u' then .next (.dig 16 4) 0
    else if c == 'U' then .next (.dig 16 8) 0
    else .err
  | .dig base k, c =>
    if digitOK base c then (if k ≤ 1 then .next .normal 1 else .next (.dig base (k - 1)) 0)
    else .err

/-- scans the literal's body after the opening quote: the body text (without the closing quote), the
number of characters it denotes (an escape counts once) and what follows the closing quote;
`none` = the scanner reported an error ("literal not terminated", "invalid char escape") -/
def scanStrBody (q : Char) : EscSt → Nat → List Char → Option (List Char × Nat × List Char)
  | _, _, [] => none
  | st, n, c :: cs =>
    match scanStep q st c with
    | .close => some ([], n, cs)
    | .err => none
    | .next st' inc => (scanStrBody q st' (n + inc) cs).map fun r => (c :: r.1, r.2)

/-! ### strconv.Unquote on a scanned literal's body -/

/-- result of unquoting: the string (bytes) or a syntax error -/
inductive Unq where
  | ok (s : S)
  | bad
deriving Repr, DecidableEq

/-- put the bytes `cs` in front of a result -/
def Unq.app (cs : List Char) : Unq → Unq
  | .ok s => .ok (cs ++ s)
  | .bad => .bad

/-- utf8.ValidRune -/
def validRune (v : Nat) : Bool := v < 0xD800 || (0xDFFF < v && v ≤ 0x10FFFF)

/-- utf8.AppendRune for a valid rune: its UTF-8 encoding, one `Char` below 256 per byte -/
def encodeRune (v : Nat) : List Char :=
  if v < 0x80 then [Char.ofNat v]
  else if v < 0x800 then [Char.ofNat (0xC0 + v / 64), Char.ofNat (0x80 + v % 64)]
  else if v < 0x10000 then [Char.ofNat (0xE0 + v / 4096), Char.ofNat (0x80 + v / 64 % 64), Char.ofNat (0x80 + v % 64)]
  else [Char.ofNat (0xF0 + v / 262144), Char.ofNat (0x80 + v / 4096 % 64), Char.ofNat (0x80 + v / 64 % 64), Char.ofNat (0x80 + v % 64)]

inductive UnqSt where
  | normal
  | bs
  | dig (kind : Char) (base k acc : Nat)     -- kind: 'x', 'u', 'U' or 'o' (octal)
deriving Repr, DecidableEq

inductive UnqStep where
  | err
  | next (st : UnqSt) (emit : List Char)              -- the bytes this step adds to the value (often none)
deriving Repr, DecidableEq

/-- one character of strconv.UnquoteChar inside a literal quoted with `q` -/
def unqStep (q : Char) : UnqSt → Char → UnqStep
  | .normal, c =>
    if c == q || c == '\n' then .err
    else if c == '\\' then .next .bs []
    else .next .normal [c]
  | .bs, c =>
    match simpleEsc c with
    | some v => .next .normal [v]
    | none =>
      if c == '\'' || c == '"' then (if c == q then .next .normal [c] else .err)
      else if digitOK 8 c then .next (.dig 'o' 8 2 ((hexValS c).getD 0)) []
      else if c == 'x' then .next (.dig 'x' 16 2 0) []
      else if c == 'u' then .next (.dig 'u' 16 4 0) []
      else if c == 'U' then .next (.dig 'U' 16 8 0) []
      else .err
  | .dig kind base k acc, c =>
    if digitOK base c then
      let acc' := acc * base + (hexValS c).getD 0
      if k ≤ 1 then
        (if kind == 'x' then .next .normal [Char.ofNat acc']                       -- one byte, whatever its value
         else if kind == 'o' then (if acc' > 255 then .err else .next .normal [Char.ofNat acc'])
         else (if validRune acc' then .next .normal (encodeRune acc') else .err))   -- a rune: its UTF-8 bytes
      else .next (.dig kind base (k - 1) acc') []
    else .err

/-- strconv.Unquote's loop over UnquoteChar for a double-quoted literal (`q = '"'`); the body comes from the
scanner, so it holds no unescaped quote and no newline -/
def unqBody (q : Char) : UnqSt → List Char → Unq
  | .normal, [] => .ok []
  | _, [] => .bad
  | st, c :: cs =>
    match unqStep q st c with
    | .err => .bad
    | .next st' e => (unqBody q st' cs).app e

/-! ### one token -/

inductive TokR where
  | tok (t : Tok) (rest : List Char)
  | err                                 -- the scanner reported an error while scanning this token
deriving Repr

/-- scanRawString: up to the next back quote -/
def scanRaw : List Char → Option (List Char × List Char)
  | [] => none
  | c :: cs => if c == '`' then some ([], cs) else (scanRaw cs).map fun r => (c :: r.1, r.2)

def spanIdent (mapMode : Bool) : List Char → List Char × List Char
  | [] => ([], [])
  | c :: cs => if identRune mapMode c then let r := spanIdent mapMode cs; (c :: r.1, r.2) else ([], c :: cs)

/-- Scanner.Scan's switch on the first character `c` of the token (white space already skipped) -/
def scanTok (mapMode : Bool) (c : Char) (cs : List Char) : TokR :=
  if identRune mapMode c then
    let r := spanIdent mapMode cs
    .tok (.word (c :: r.1)) r.2
  else if c == '"' then
    match scanStrBody '"' .normal 0 cs with
    | none => .err
    | some (body, _, rest) =>
      match unqBody '"' .normal body with
      | .ok s => .tok (.str (some s)) rest
      | .bad => .tok (.str none) rest
  else if c == '\'' then
    match scanStrBody '\'' .normal 0 cs with
    | none => .err
    | some (_, n, rest) => if n == 1 then .tok .other rest else .err     -- "invalid char literal"
  else if c == '`' then
    match scanRaw cs with
    | none => .err
    | some (body, rest) => .tok (.str (some (body.filter (· != '\r')))) rest
  else if c == ',' then .tok .comma cs
  else if c == ':' then .tok .colon cs
  else .tok .other cs

def skipWs : List Char → List Char
  | [] => []
  | c :: cs => if isWs c then skipWs cs else c :: cs

/-- the token stream seen by the split loop, ending in `eof` or - as soon as the scanner has reported an error -
`scanErr`.  A NUL character is an error at the moment it is READ, and the scanner reads one character ahead:
a token whose text or look-ahead character is NUL is never seen by the loop. -/
def scanAllF (mapMode : Bool) : Nat → List Char → Option (List Tok)
  | 0, _ => some [.scanErr]             -- unreachable with fuel > length
  | fuel + 1, cs =>
    match skipWs cs with
    | [] => some [.eof]
    | c :: rest =>
      match scanTok mapMode c rest with
      | .err => some [.scanErr]
      | .tok t rest' =>
        if (cs.take (cs.length - rest'.length + 1)).contains NUL then some [.scanErr]
        else (scanAllF mapMode fuel rest').map (t :: ·)

def scanText (mapMode : Bool) (cs : List Char) : Option (List Tok) := scanAllF mapMode (cs.length + 1) cs

/-! ### strconv.Quote (ASCII) and the flag helpers' String() -/

def hexDigitL (n : Nat) : Char := if n < 10 then Char.ofNat (48 + n) else Char.ofNat (87 + n)

/-- appendEscapedRune with quote '"' -/
def quoteChar (c : Char) : List Char :=
  if c == '"' || c == '\\' then ['\\', c]
  else if isPrintA c then [c]
  else if c.toNat == 7 then ['\\', 'a'] else if c.toNat == 8 then ['\\', 'b']
  else if c.toNat == 12 then ['\\', 'f'] else if c.toNat == 10 then ['\\', 'n']
  else if c.toNat == 13 then ['\\', 'r'] else if c.toNat == 9 then ['\\', 't']
  else if c.toNat == 11 then ['\\', 'v']
  else ['\\', 'x', hexDigitL (c.toNat / 16), hexDigitL (c.toNat % 16)]

def quoteBody (s : S) : List Char := s.flatMap quoteChar

def quote (s : S) : List Char := '"' :: (quoteBody s ++ ['"'])

/-- StringSliceFlag.String / StringSetFlag.String (the set's elements in the order printed) -/
def printSlice : List S → List Char
  | [] => []
  | [x] => quote x
  | x :: xs => quote x ++ ',' :: printSlice xs

/-- MapStringStringFlag.String / MapStringStringSliceFlag.String (pairs in the order printed) -/
def printMap : List (S × S) → List Char
  | [] => []
  | [(k, v)] => quote k ++ ':' :: quote v
  | (k, v) :: rest => quote k ++ ':' :: (quote v ++ ',' :: printMap rest)

/-! ### from text to value -/

/-- parse.StringSlice on a text (`none`: outside the model) -/
def sliceText (cs : List Char) : Option (Outcome (List S)) :=
  if cs.isEmpty then some (.ok []) else (scanText false cs).map fun toks => stringSlice false toks

def setText (cs : List Char) : Option (Outcome (List S)) :=
  if cs.isEmpty then some (.ok []) else (scanText false cs).map fun toks => stringSet false toks

def mapText (cs : List Char) : Option (Outcome (List (S × S))) := (scanText true cs).map mapStringString

def multiMapText (cs : List Char) : Option (Outcome (List (S × S))) := (scanText true cs).map mapStringStringSlice

end Dials.Parse
