/-
Model of the four file decoders (/repo/decoders/{json,yaml,toml,cue}), of the manglers they chain
(tagformat.TagCopyingMangler, transform.SingleTypeSubstitutionMangler[time.Duration, jsontypes.ParsingDuration],
transform.AnonymousFlattenMangler), of the set→slice wrapper (sourcewrap.NewTransformingDecoder with
transform.SetSliceMangler) and of jsontypes.ParsingDuration.UnmarshalJSON.

What is dials' own code is modelled executably:
  * the mangler chains (regenerated from each decoder's source: Facts.decChainJSON …), applied in order by
    `translate` the way transform.Transformer.TranslateType does (one pass per mangler; a pass rewrites every
    field and then recurses into struct-typed fields behind at most one pointer or slice — `isStructishTypedField`);
  * `reverse` (Transformer.ReverseTranslate): passes undone in reverse order against the recorded types;
  * `decode`: translate, hand the all-nil translated value to the third-party library, propagate its error
    with an invalid value (`Outcome.err`: no value at all), reverse translate.
The third-party parser + filler is a PARAMETER `fill : KTy → Doc → Outcome Val` on the *keyed view* of the
translated type (`view`: each field seen through the struct tag the library consults); what is assumed of it is
the explicit structure `FillContract`; `refFill` is an inhabitant (non-vacuity, and the driver's filler).
Documents are abstract trees (`Doc`); bytes, tokenisation and syntax errors are outside the model.

Values are untyped trees: converting between time.Duration and jsontypes.ParsingDuration, or between a struct
type and its re-tagged copy, does not change the tree, so `Unmangle` of the tag-copy and substitution manglers
is the identity here (reflect's conversions are sampled by the correspondence harness, not proved).
-/
import DialsModel.Model.Basic
import DialsModel.Gen.Facts

namespace Dials.Decode

/-! ### formats, types, documents, values -/

inductive Fmt where
  | json | yaml | toml | cue
deriving DecidableEq, Repr, Inhabited

/-- the struct tag each third-party library consults (a fact about the libraries, not about dials:
    encoding/json and cue's Decode read `json`, yaml.v2 reads `yaml`, go-toml reads `toml`) -/
def Fmt.libTag : Fmt → String
  | .json => "json"
  | .yaml => "yaml"
  | .toml => "toml"
  | .cue => "json"

/-- scalar kinds -/
inductive SK where
  | bool
  | int (bits : Nat)
  | uint (bits : Nat)
  | float
  | str
deriving DecidableEq, Repr, Inhabited

/-- opaque leaf types implementing encoding.TextUnmarshaler: time.Time (a struct kind, pointerified to
    *time.Time) and net.IP (a slice kind, nil-able as it is) -/
inductive TK where
  | time | ip
deriving DecidableEq, Repr, Inhabited

/-- a struct tag in conventional format, as the ordered list of its key:"value" pairs -/
abbrev Tags := List (String × String)

/-- `reflect.StructTag.Lookup` -/
def Tags.lookup (ts : Tags) (k : String) : Option String := List.lookup k ts

/-- `reflect.StructTag.Get`: first pair with the key, "" when there is none -/
def Tags.get (ts : Tags) (k : String) : String := (Tags.lookup ts k).getD ""

mutual
inductive Ty where
  | scalar (k : SK)
  | dur                       -- time.Duration
  | pdur                      -- jsontypes.ParsingDuration (exists only after the substitution)
  | text (k : TK)
  | slice (e : Ty)
  | map (e : Ty)              -- map[string]e
  | set                       -- map[string]struct{}
  | ptr (e : Ty)
  | struct (fs : Fields)
inductive Fields where
  | nil
  | cons (name : String) (anon : Bool) (tags : Tags) (t : Ty) (rest : Fields)
end

def Fields.append : Fields → Fields → Fields
  | .nil, ys => ys
  | .cons n a tg t r, ys => .cons n a tg t (Fields.append r ys)

def Fields.length : Fields → Nat
  | .nil => 0
  | .cons _ _ _ _ r => Fields.length r + 1

/-! keyed view of a type: what a library sees of it through its struct tag -/
mutual
inductive KTy where
  | scalar (k : SK)
  | dur
  | pdur
  | text (k : TK)
  | slice (e : KTy)
  | map (e : KTy)
  | set
  | ptr (e : KTy)
  | struct (fs : KFields)
inductive KFields where
  | nil
  | cons (key : String) (anon : Bool) (t : KTy) (rest : KFields)
end

inductive Scalar where
  | str (s : String)
  | int (i : Int)
  | bool (b : Bool)
  | float (r : String)        -- a number token with fraction or exponent, identified by its canonical text
  | time (s : String)         -- TOML's native datetime literal
deriving DecidableEq, Repr, Inhabited

/-- abstract document: key → scalar | list | map -/
inductive Doc where
  | sc (s : Scalar)
  | list (ds : List Doc)
  | map (kvs : List (String × Doc))
deriving Repr, Inhabited

/-- untyped value trees; `nil` is the nil pointer / slice / map -/
inductive Val where
  | nil
  | bool (b : Bool)
  | int (i : Int)
  | float (r : String)
  | str (s : String)
  | dur (ns : Int)
  | text (s : String)         -- a text-unmarshaled value, identified by its canonical text
  | list (vs : List Val)
  | map (kvs : List (String × Val))
  | set (ks : List String)
  | ptr (v : Val)
  | struct (vs : List Val)    -- positional
deriving Repr, Inhabited

/-- the one error class of this model: any Go `error` of a decoder -/
def decErr : String := "decode"

/-! ### Outcome helpers -/

def omap {α β} (f : α → β) : Outcome α → Outcome β
  | .ok a => .ok (f a)
  | .err c => .err c
  | .panic c => .panic c

def obind {α β} (x : Outcome α) (f : α → Outcome β) : Outcome β :=
  match x with
  | .ok a => f a
  | .err c => .err c
  | .panic c => .panic c

@[simp] theorem omap_ok {α β} (f : α → β) (a : α) : omap f (.ok a) = .ok (f a) := rfl
@[simp] theorem obind_ok {α β} (a : α) (f : α → Outcome β) : obind (.ok a) f = f a := rfl
@[simp] theorem obind_err {α β} (c : String) (f : α → Outcome β) : obind (.err c : Outcome α) f = .err c := rfl
@[simp] theorem obind_panic {α β} (c : String) (f : α → Outcome β) : obind (.panic c : Outcome α) f = .panic c := rfl

/-- map a fallible function over a list, first failure wins -/
def mapO {α β} (f : α → Outcome β) : List α → Outcome (List β)
  | [] => .ok []
  | a :: r => obind (f a) fun b => omap (b :: ·) (mapO f r)

def lookupD (k : String) : List (String × Doc) → Option Doc
  | [] => none
  | (k', d) :: r => if k' = k then some d else lookupD k r

/-! ### external behaviour (explicit inputs of the model) -/

structure Ext where
  /-- time.ParseDuration -/
  parseDur : String → Option Int
  /-- a text for a duration (Duration.String) -/
  durText : Int → String
  /-- UnmarshalText of time.Time / net.IP; the result is identified by its canonical text -/
  parseText : TK → String → Option String
  /-- go-toml's native datetime literal → canonical time text -/
  parseTime : String → Option String

/-! ### manglers on types -/

inductive Mangler where
  | tagCopy (src new : String)
  | durSub
  | setSlice
  | anonFlatten
  | unknown (name : String)
deriving DecidableEq, Repr, Inhabited

/-- `TagCopyingMangler.Mangle` on a field's tag (guards regenerated: Facts.tagCopySkipsSrc / tagCopyKeeps) -/
def copyTags (src new : String) (ts : Tags) : Tags :=
  let srcVal := Tags.get ts src
  if Facts.tagCopySkipsSrc srcVal then ts
  else if Facts.tagCopyKeeps (Tags.get ts new) then ts
  else ts ++ [(new, srcVal)]

/-- `SingleTypeSubstitutionMangler.subType` for F = time.Duration, T = jsontypes.ParsingDuration:
    through pointers, maps, slices; stops at struct types ("handled by the Transformer recursing") -/
def subTy : Ty → Ty
  | .dur => .pdur
  | .ptr e => .ptr (subTy e)
  | .map e => .map (subTy e)
  | .slice e => .slice (subTy e)
  | t => t

/-- `SetSliceMangler.Mangle`: only the field's own type -/
def setSliceLeaf : Ty → Ty
  | .set => .slice (.scalar .str)
  | t => t

/-- a one-to-one mangler: what it does to a field's tag and to a field's (non-struct-ish) type -/
structure Pass where
  tags : Tags → Tags
  leaf : Ty → Ty

def Pass.tagCopy (src new : String) : Pass := ⟨copyTags src new, id⟩
def Pass.durSub : Pass := ⟨id, subTy⟩
def Pass.setSlice : Pass := ⟨id, setSliceLeaf⟩
def Pass.idle : Pass := ⟨id, id⟩

mutual
/-- one Transformer pass on a field type: `Mangle` on the field, then `maybeRecursivelyMangle`
    (struct, or pointer / slice whose element is a struct).  TextUnmarshaler types are not recursed into: the
    test is made on the field type and, since the repair of finding D34, again on the element type after the
    pointer / slice is stripped (Facts.textSkipBeforeStrip, Facts.textSkipAfterStrip); without the second test a
    `[]time.Time` field is recursed into and rebuilt from time.Time's exported fields, i.e. as `[]struct{}` -/
def passTy (P : Pass) : Ty → Ty
  | .struct fs => .struct (passFields P fs)
  | .ptr (.struct fs) => .ptr (.struct (passFields P fs))
  | .slice (.struct fs) => .slice (.struct (passFields P fs))
  | .slice (.text .time) => if Facts.textSkipAfterStrip then P.leaf (.slice (.text .time)) else .slice (.struct .nil)
  | t => P.leaf t
def passFields (P : Pass) : Fields → Fields
  | .nil => .nil
  | .cons n a tg t r => .cons n a (P.tags tg) (passTy P t) (passFields P r)
end

mutual
/-- the AnonymousFlattenMangler pass on a field type -/
def flatTy : Ty → Ty
  | .struct fs => .struct (flatFields fs)
  | .ptr (.struct fs) => .ptr (.struct (flatFields fs))
  | .slice (.struct fs) => .slice (.struct (flatFields fs))
  | .slice (.text .time) => if Facts.textSkipAfterStrip then .slice (.text .time) else .slice (.struct .nil)
  | t => t
/-- anonymous struct / pointer-to-struct fields are replaced by their fields (one level: a hoisted field
    that is itself anonymous is not hoisted again; the Transformer only recurses into its type) -/
def flatFields : Fields → Fields
  | .nil => .nil
  | .cons _ true _ (.struct ifs) r => Fields.append (hoist ifs) (flatFields r)
  | .cons _ true _ (.ptr (.struct ifs)) r => Fields.append (hoist ifs) (flatFields r)
  | .cons n a tg t r => .cons n a tg (flatTy t) (flatFields r)
def hoist : Fields → Fields
  | .nil => .nil
  | .cons n a tg t r => .cons n a tg (flatTy t) (hoist r)
end

def Mangler.ty : Mangler → Ty → Ty
  | .tagCopy s n => passTy (Pass.tagCopy s n)
  | .durSub => passTy Pass.durSub
  | .setSlice => passTy Pass.setSlice
  | .anonFlatten => flatTy
  | .unknown _ => id

/-- `Transformer.TranslateType`: manglers in order -/
def translate (ms : List Mangler) (T : Ty) : Ty := ms.foldl (fun t m => m.ty t) T

/-! ### manglers on values (ReverseTranslate) -/

def dedupe : List String → List String
  | [] => []
  | k :: r => if r.contains k then dedupe r else k :: dedupe r

def strsOf : List Val → Option (List String)
  | [] => some []
  | .str s :: r => (strsOf r).map (s :: ·)
  | _ :: _ => none

/-- `SetSliceMangler.Unmangle` for a field of the original type `t` -/
def unSetLeaf (t : Ty) (v : Val) : Outcome Val :=
  match t with
  | .set =>
    match v with
    | .nil => if Facts.setSliceNilStaysNil then .ok .nil else .ok (.set [])
    | .list vs =>
      match strsOf vs with
      | some ks => .ok (.set (dedupe ks))
      | none => .err decErr       -- "expected slice elem to be …"
    | _ => .err decErr            -- "expected slice to unmangle"
  | _ => .ok v

mutual
/-- undo one one-to-one pass on a field value (`maybeRecursivelyUnmangle`, then `Unmangle`);
    `leaf` is the mangler's Unmangle on non-struct-ish fields -/
def unpassTy (leaf : Ty → Val → Outcome Val) : Ty → Val → Outcome Val
  | .struct fs, .struct vs => omap .struct (unpassFields leaf fs vs)
  | .struct _, _ => .panic "reverse: struct value expected"
  | .ptr (.struct _), .nil => .ok .nil
  | .ptr (.struct fs), .ptr (.struct vs) => omap (fun ws => .ptr (.struct ws)) (unpassFields leaf fs vs)
  | .ptr (.struct _), _ => .panic "reverse: pointer to struct expected"
  | .slice (.struct _), .nil => .ok .nil
  | .slice (.struct fs), .list vs =>
    omap .list (mapO (fun v => match v with
      | .struct ws => omap .struct (unpassFields leaf fs ws)
      | _ => .panic "reverse: struct element expected") vs)
  | .slice (.struct _), _ => .panic "reverse: slice of struct expected"
  | t, v => leaf t v
def unpassFields (leaf : Ty → Val → Outcome Val) : Fields → List Val → Outcome (List Val)
  | .nil, _ => .ok []
  | .cons _ _ _ _ _, [] => .panic "reverse: field value missing"
  | .cons _ _ _ t r, v :: vs => obind (unpassTy leaf t v) fun w => omap (w :: ·) (unpassFields leaf r vs)
end

def Val.isNil : Val → Bool
  | .nil => true
  | _ => false

def innerFields : Ty → Option Fields
  | .struct ifs => some ifs
  | .ptr (.struct ifs) => some ifs
  | _ => none

mutual
/-- undo the flatten pass on a field value -/
def unflatTy : Ty → Val → Outcome Val
  | .struct fs, .struct vs => omap .struct (unflatFields fs vs)
  | .struct _, _ => .panic "reverse: struct value expected"
  | .ptr (.struct _), .nil => .ok .nil
  | .ptr (.struct fs), .ptr (.struct vs) => omap (fun ws => .ptr (.struct ws)) (unflatFields fs vs)
  | .ptr (.struct _), _ => .panic "reverse: pointer to struct expected"
  | .slice (.struct _), .nil => .ok .nil
  | .slice (.struct fs), .list vs =>
    omap .list (mapO (fun v => match v with
      | .struct ws => omap .struct (unflatFields fs ws)
      | _ => .panic "reverse: struct element expected") vs)
  | .slice (.struct _), _ => .panic "reverse: slice of struct expected"
  | _, v => .ok v
/-- `AnonymousFlattenMangler.Unmangle`: an anonymous struct field takes back as many values as it gave
    fields; a pointer stays nil when all of them are nil -/
def unflatFields : Fields → List Val → Outcome (List Val)
  | .nil, _ => .ok []
  | .cons _ true _ (.struct ifs) r, vs =>
    obind (unhoist ifs (vs.take (Fields.length ifs))) fun ws =>
      omap (.struct ws :: ·) (unflatFields r (vs.drop (Fields.length ifs)))
  | .cons _ true _ (.ptr (.struct ifs)) r, vs =>
    obind (unhoist ifs (vs.take (Fields.length ifs))) fun ws =>
      omap ((if ws.all Val.isNil then .nil else .ptr (.struct ws)) :: ·) (unflatFields r (vs.drop (Fields.length ifs)))
  | .cons _ _ _ _ _, [] => .panic "reverse: field value missing"
  | .cons _ _ _ t r, v :: rest => obind (unflatTy t v) fun w => omap (w :: ·) (unflatFields r rest)
def unhoist : Fields → List Val → Outcome (List Val)
  | .nil, _ => .ok []
  | .cons _ _ _ _ _, [] => .panic "reverse: index out of range"
  | .cons _ _ _ t r, v :: vs => obind (unflatTy t v) fun w => omap (w :: ·) (unhoist r vs)
end

/-- undo one mangler; `T` is the type the mangler was applied to -/
def Mangler.rev : Mangler → Ty → Val → Outcome Val
  | .tagCopy _ _, _, v => .ok v
  | .durSub, _, v => .ok v
  | .setSlice, T, v => unpassTy unSetLeaf T v
  | .anonFlatten, T, v => unflatTy T v
  | .unknown _, _, v => .ok v

/-- `Transformer.ReverseTranslate`: last mangler first, each against the type it had been given -/
def reverse : List Mangler → Ty → Val → Outcome Val
  | [], _, v => .ok v
  | m :: ms, T, v => obind (reverse ms (m.ty T) v) fun w => m.rev T w

/-! ### the keyed view -/

mutual
/-- `kv keyf sub ss`: the type seen with each field's key computed by `keyf` from its tag, optionally with
    every time.Duration read as jsontypes.ParsingDuration (`sub`) and every set as a list of strings (`ss`) -/
def kvTy (keyf : Tags → String) (sub ss : Bool) : Ty → KTy
  | .scalar k => .scalar k
  | .dur => if sub then .pdur else .dur
  | .pdur => .pdur
  | .text k => .text k
  | .slice e => .slice (kvTy keyf sub ss e)
  | .map e => .map (kvTy keyf sub ss e)
  | .set => if ss then .slice (.scalar .str) else .set
  | .ptr e => .ptr (kvTy keyf sub ss e)
  | .struct fs => .struct (kvFields keyf sub ss fs)
def kvFields (keyf : Tags → String) (sub ss : Bool) : Fields → KFields
  | .nil => .nil
  | .cons _ a tg t r => .cons (keyf tg) a (kvTy keyf sub ss t) (kvFields keyf sub ss r)
end

/-- what the library consulting `tag` sees of a (translated) type -/
def view (tag : String) (T : Ty) : KTy := kvTy (fun tg => Tags.get tg tag) false false T

/-! ### jsontypes.ParsingDuration.UnmarshalJSON (dials' code, called by encoding/json and by cue's decoder) -/

def inInt64 (i : Int) : Bool := decide (-(2 ^ 63 : Int) ≤ i) && decide (i < (2 ^ 63 : Int))

def pdurUnmarshal (E : Ext) : Doc → Outcome Val
  | .sc (.str s) =>
    if Facts.pdurAcceptsString then
      match E.parseDur s with
      | some n => .ok (.dur n)
      | none => .err decErr
    else .err decErr
  | .sc (.int i) =>
    if Facts.pdurAcceptsNumber then (if inInt64 i then .ok (.dur i) else .err decErr) else .err decErr
  | _ => .err decErr        -- fractions / exponents fail json.Number.Int64; bool, delimiters: "unexpected JSON token-type"

/-! ### scalars -/

def inRange : SK → Int → Bool
  | .int b, i => decide (-(2 ^ (b - 1) : Int) ≤ i) && decide (i < (2 ^ (b - 1) : Int))
  | .uint b, i => decide (0 ≤ i) && decide (i < (2 ^ b : Int))
  | _, _ => false

/-- cue v0.6.0 cannot decode math.MinInt64 into a 64-bit signed integer (`Value.Int64` tests the magnitude with
    `Coeff.IsInt64`): observed, finding D35; the contract leaves this one token unspecified for Cue -/
def cueMinInt (fmt : Fmt) (bits : Nat) (i : Int) : Bool :=
  fmt == .cue && bits == 64 && i == -(2 ^ 63 : Int)

/-- go-toml v1.9.5 cannot unmarshal an EMPTY array into a slice of structs (it wants an array of tables):
    observed, finding D36; the contract leaves this one document unspecified for TOML -/
def tomlEmptyStructs (fmt : Fmt) (e : KTy) (len : Nat) : Bool :=
  fmt == .toml && len == 0 && (match e with | .struct _ => true | _ => false)

/-- what every one of the four libraries does with a scalar token at a scalar field: `some` = all agree
    (observed; part of the contract), `none` = format-dependent leniency (yaml.v2 puts numbers into strings and
    truncates fractions into integers, go-toml refuses an integer for a float …): not specified -/
def scalarFill (fmt : Fmt) : SK → Scalar → Option (Outcome Val)
  | .bool, .bool b => some (.ok (.bool b))
  | .bool, _ => some (.err decErr)
  | .int b, .int i =>
    if cueMinInt fmt b i then none
    else some (if inRange (.int b) i then .ok (.int i) else .err decErr)
  | .int _, .float _ => none
  | .int _, _ => some (.err decErr)
  | .uint b, .int i => some (if inRange (.uint b) i then .ok (.int i) else .err decErr)
  | .uint _, .float _ => none
  | .uint _, _ => some (.err decErr)
  | .float, .float r => some (.ok (.float r))
  | .float, .int _ => none
  | .float, _ => some (.err decErr)
  | .str, .str s => some (.ok (.str s))
  | .str, _ => none

def zeroTime : String := "0001-01-01T00:00:00Z"

mutual
/-- the zero value a library leaves in a field it does not touch (`reflect.New(type).Elem()`) -/
def zeroK : KTy → Val
  | .scalar .bool => .bool false
  | .scalar (.int _) => .int 0
  | .scalar (.uint _) => .int 0
  | .scalar .float => .float "0"
  | .scalar .str => .str ""
  | .dur => .dur 0
  | .pdur => .dur 0
  | .text .time => .text zeroTime
  | .text .ip => .nil
  | .slice _ => .nil
  | .map _ => .nil
  | .set => .nil
  | .ptr _ => .nil
  | .struct fs => .struct (zerosK fs)
def zerosK : KFields → List Val
  | .nil => []
  | .cons _ _ t r => zeroK t :: zerosK r
end

/-- does the library promote the fields of an untagged anonymous struct field into the parent?
    encoding/json and cue do (also through a pointer); yaml.v2 needs `,inline`; go-toml does it for struct-typed
    fields only, never for the pointers Pointerify produces.  Outside the contract (used by `refFill` only). -/
def Fmt.promotes : Fmt → Bool
  | .json => true
  | .cue => true
  | _ => false

mutual
def anyKey : KFields → List (String × Doc) → Bool
  | .nil, _ => false
  | .cons key a t r, kvs =>
    (if key = "" then (if a then anyKeyTy t kvs else false) else (lookupD key kvs).isSome) || anyKey r kvs
def anyKeyTy : KTy → List (String × Doc) → Bool
  | .struct fs, kvs => anyKey fs kvs
  | .ptr (.struct fs), kvs => anyKey fs kvs
  | _, _ => false
end

/-! ### the reference filler -/

/-- one field of a struct: the key's document when present, else the zero value -/
def fillField (rec : KTy → Doc → Outcome Val) (key : String) (t : KTy) (kvs : List (String × Doc)) : Outcome Val :=
  match lookupD key kvs with
  | none => .ok (zeroK t)
  | some d => rec t d

/-- fields of a struct filled from a map document (keys non-empty: no promotion) -/
def fillFields (rec : KTy → Doc → Outcome Val) : KFields → List (String × Doc) → Outcome (List Val)
  | .nil, _ => .ok []
  | .cons key _ t r, kvs => obind (fillField rec key t kvs) fun v => omap (v :: ·) (fillFields rec r kvs)

def fillMap (f : Doc → Outcome Val) (kvs : List (String × Doc)) : Outcome (List (String × Val)) :=
  mapO (fun kd => omap (fun v => (kd.1, v)) (f kd.2)) kvs

def durFill (E : Ext) (fmt : Fmt) : Doc → Outcome Val
  | .sc (.int i) => if inInt64 i then .ok (.dur i) else .err decErr
  | .sc (.str s) =>
    match fmt with
    | .json => .err decErr                 -- encoding/json: a string is not a number
    | .cue => .err decErr
    | _ =>                                  -- yaml.v2 and go-toml parse duration strings themselves
      match E.parseDur s with
      | some n => .ok (.dur n)
      | none => .err decErr
  | _ => .err decErr

def textFill (E : Ext) (fmt : Fmt) (k : TK) : Doc → Outcome Val
  | .sc (.str s) =>
    if fmt = .toml ∧ k = .time then .err decErr      -- go-toml wants a native datetime for time.Time
    else match E.parseText k s with
      | some c => .ok (.text c)
      | none => .err decErr
  | .sc (.time s) =>
    if fmt = .toml ∧ k = .time then
      match E.parseTime s with
      | some c => .ok (.text c)
      | none => .err decErr
    else .err decErr
  | _ => .err decErr

mutual
def refFill (E : Ext) (fmt : Fmt) : KTy → Doc → Outcome Val
  | .scalar k, .sc s => (scalarFill fmt k s).getD (.err decErr)
  | .scalar _, _ => .err decErr
  | .dur, d => durFill E fmt d
  | .pdur, d => pdurUnmarshal E d
  | .text k, d => textFill E fmt k d
  | .slice e, .list ds =>
    if tomlEmptyStructs fmt e ds.length then .err decErr else omap .list (mapO (refFill E fmt e) ds)
  | .slice _, _ => .err decErr
  | .map e, .map kvs => omap .map (fillMap (refFill E fmt e) kvs)
  | .map _, _ => .err decErr
  | .set, _ => .err decErr
  | .ptr e, d => omap .ptr (refFill E fmt e d)
  | .struct fs, .map kvs => omap .struct (refFields E fmt fs kvs)
  | .struct _, _ => .err decErr
def refFields (E : Ext) (fmt : Fmt) : KFields → List (String × Doc) → Outcome (List Val)
  | .nil, _ => .ok []
  | .cons key a t r, kvs =>
    obind
      (if key = "" then
        (if a && fmt.promotes then
          match t with
          | .struct ifs => omap .struct (refFields E fmt ifs kvs)
          | .ptr (.struct ifs) =>
            if anyKey ifs kvs then omap (fun ws => .ptr (.struct ws)) (refFields E fmt ifs kvs) else .ok .nil
          | _ => .ok (zeroK t)
        else .ok (zeroK t))
      else
        match lookupD key kvs with
        | none => .ok (zeroK t)
        | some d => refFill E fmt t d)
      fun v => omap (v :: ·) (refFields E fmt r kvs)
end

/-! ### the decoders -/

def manglerOf : String × List String → Mangler
  | ("TagCopyingMangler", [s, n]) => .tagCopy s n
  | ("SingleTypeSubstitutionMangler", ["time.Duration", "jsontypes.ParsingDuration"]) => .durSub
  | ("SetSliceMangler", []) => .setSlice
  | ("AnonymousFlattenMangler", []) => .anonFlatten
  | (n, _) => .unknown n

/-- the mangler chain of a decoder, regenerated from its source (constructor + arguments, in order) -/
def chainOf (fmt : Fmt) (flatten : Bool) : List Mangler :=
  match fmt with
  | .json => Facts.decChainJSON.map manglerOf
  | .yaml => (Facts.decChainYAML ++ (if flatten then Facts.decChainYAMLFlatten else [])).map manglerOf
  | .toml => Facts.decChainTOML.map manglerOf
  | .cue => Facts.decChainCUE.map manglerOf

/-- does the decoder return `reflect.Value{}, err` when the library's unmarshal call fails? (regenerated) -/
def checksErr : Fmt → Bool
  | .json => Facts.jsonChecksErr
  | .yaml => Facts.yamlChecksErr
  | .toml => Facts.tomlChecksErr
  | .cue => Facts.cueChecksErr

/-- the manglers of the set→slice wrapper `sourcewrap.NewTransformingDecoder(dec, &transform.SetSliceMangler{})` -/
def wrapChain (wrap : Bool) : List Mangler := if wrap then [.setSlice] else []

/-- a third-party library: its filler and what it has written into the value when it fails half-way -/
structure Lib where
  fill : KTy → Doc → Outcome Val
  partialFill : KTy → Doc → Val

/-- `Decoder.Decode` of format `fmt` (inside the wrapper when `wrap`): the value handed back to dials -/
def decode (fmt : Fmt) (flatten wrap : Bool) (L : Lib) (T : Ty) (d : Doc) : Outcome Val :=
  let T1 := translate (wrapChain wrap) T
  let ch := chainOf fmt flatten
  let K := view fmt.libTag (translate ch T1)
  let filled : Outcome Val :=
    match L.fill K d with
    | .ok v => .ok v
    | .err c => if checksErr fmt then .err c else .ok (L.partialFill K d)
    | .panic c => .panic c
  let inner := obind filled fun v2 => reverse ch T1 v2
  -- transformingDecoder.Decode: inner error ⇒ `reflect.Value{}` and a wrapped error (regenerated guard)
  let inner' : Outcome Val :=
    match inner with
    | .err c => if wrap && !Facts.wrapChecksInnerErr then .ok .nil else .err c
    | o => o
  obind inner' fun v1 => reverse (wrapChain wrap) T v1

def refLib (E : Ext) (fmt : Fmt) : Lib := ⟨refFill E fmt, fun K _ => zeroK K⟩

/-! ### the specification side: where the data of a config type lives in a document -/

/-- the key of a field in format `fmt`: the format's own tag when it has one, else the `dials` tag -/
def keyRule (fmt : Fmt) (tg : Tags) : String :=
  if Tags.get tg fmt.libTag ≠ "" then Tags.get tg fmt.libTag else Tags.get tg "dials"

def Fmt.subs : Fmt → Bool
  | .json => true
  | .cue => true
  | _ => false

/-- the keyed type a document of format `fmt` is read against, by the rule of the property -/
def kview (fmt : Fmt) (wrap : Bool) (T : Ty) : KTy := kvTy (keyRule fmt) fmt.subs wrap T

mutual
/-- render data (a value of the keyed type; `nil` fields are absent keys) as a document -/
def renderK (E : Ext) (fmt : Fmt) (intDur : Int → Bool) : KTy → Val → Doc
  | .scalar _, .bool b => .sc (.bool b)
  | .scalar _, .int i => .sc (.int i)
  | .scalar _, .float r => .sc (.float r)
  | .scalar _, .str s => .sc (.str s)
  | .dur, .dur n => .sc (.str (E.durText n))
  | .pdur, .dur n => if intDur n then .sc (.int n) else .sc (.str (E.durText n))
  | .text .time, .text s => if fmt = .toml then .sc (.time s) else .sc (.str s)
  | .text .ip, .text s => .sc (.str s)
  | .slice e, .list vs => .list (vs.map (renderK E fmt intDur e))
  | .map e, .map kvs => .map (kvs.map fun kv => (kv.1, renderK E fmt intDur e kv.2))
  | .ptr e, .ptr v => renderK E fmt intDur e v
  | .struct fs, .struct vs => .map (renderFields E fmt intDur fs vs)
  | _, _ => .sc (.str "")
def renderFields (E : Ext) (fmt : Fmt) (intDur : Int → Bool) : KFields → List Val → List (String × Doc)
  | .nil, _ => []
  | .cons _ _ _ _, [] => []
  | .cons key _ t r, v :: vs =>
    match v with
    | .nil => renderFields E fmt intDur r vs
    | _ => (key, renderK E fmt intDur t v) :: renderFields E fmt intDur r vs
end

/-- sets are written as lists -/
def setAsList : Val → Val
  | .set ks => .list (ks.map .str)
  | v => v

mutual
/-- the value with every field-level set replaced by the list that is written for it -/
def fwdSet : Ty → Val → Val
  | .set, v => setAsList v
  | .struct fs, .struct vs => .struct (fwdSets fs vs)
  | .ptr (.struct fs), .ptr (.struct vs) => .ptr (.struct (fwdSets fs vs))
  | .slice (.struct fs), .list vs => .list (vs.map fun v => match v with
      | .struct ws => .struct (fwdSets fs ws)
      | w => w)
  | _, v => v
def fwdSets : Fields → List Val → List Val
  | .nil, _ => []
  | .cons _ _ _ _ _, [] => []
  | .cons _ _ _ t r, v :: vs => fwdSet t v :: fwdSets r vs
end

/-- the document of format `fmt` that expresses the data `x` of config type `T` -/
def render (E : Ext) (fmt : Fmt) (wrap : Bool) (intDur : Int → Bool) (T : Ty) (x : Val) : Doc :=
  renderK E fmt intDur (kview fmt wrap T) (if wrap then fwdSet T x else x)

end Dials.Decode
