/-
Line-protocol helpers for the driver (hex-encoded byte strings, splitting).
-/
import DialsModel.Model.Basic

namespace Dials.Proto

def hexDigit (n : Nat) : Char :=
  if n < 10 then Char.ofNat (48 + n) else Char.ofNat (87 + n)

def hexVal (c : Char) : Option Nat :=
  if '0' ≤ c ∧ c ≤ '9' then some (c.toNat - 48)
  else if 'a' ≤ c ∧ c ≤ 'f' then some (c.toNat - 87)
  else none

/-- bytes are represented as `Char`s below 256 -/
def hexEncode (s : List Char) : String :=
  String.ofList (s.flatMap fun c => [hexDigit (c.toNat / 16 % 16), hexDigit (c.toNat % 16)])

def hexDecodeL : List Char → Option (List Char)
  | [] => some []
  | [_] => none
  | a :: b :: rest => do
    let x ← hexVal a
    let y ← hexVal b
    let r ← hexDecodeL rest
    pure (Char.ofNat (x * 16 + y) :: r)

/-- "-" encodes the empty string so that fields never vanish when splitting -/
def hexDecode (s : String) : Option (List Char) :=
  if s == "-" then some [] else hexDecodeL s.toList

def hexEnc (s : List Char) : String := if s.isEmpty then "-" else hexEncode s

/-- comma-separated list of hex strings; "." is the empty list -/
def hexListDecode (s : String) : Option (List (List Char)) :=
  if s == "." then some [] else (s.splitOn ",").mapM hexDecode

def hexListEnc (ws : List (List Char)) : String :=
  if ws.isEmpty then "." else String.intercalate "," (ws.map hexEnc)

def allAscii (s : List Char) : Bool := s.all isAscii

end Dials.Proto
