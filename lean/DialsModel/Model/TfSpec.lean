/-
Specification vocabulary for C10 / C14 / C11 over the transformer model.
-/
import DialsModel.Model.Sources

namespace Dials.Tf

/-- a field list as every source sees it: Pointerify has made every field nil-able -/
def Pointerified (fs : List FT) : Prop := ∀ f ∈ fs, isNilableTy f.2 = true

/-- unmangling the all-nil filling of a field's outputs gives the unset value -/
def NilPreserving (m : Mangler) (Dom : FT → Prop) : Prop :=
  ∀ f, Dom f → ∀ outs, m.mangle f.1 f.2 = .ok outs →
    ∀ vals : List Val, vals.length = outs.length → (∀ v ∈ vals, v = Val.nilv) →
      m.unmangle f.1 f.2 (outs.zip vals) = .ok Val.nilv

/-- the values held at the flattened leaf positions of a value of type `t`, in flatten order
(depth-first; an unset intermediate struct contributes unset leaves) -/
def flatLeaves : Nat → Ty → Val → List Val
  | 0, _, _ => []
  | fuel + 1, t, v =>
    match stripPtrs t with
    | .struct ifs =>
      let rec go (fl : Nat) (fs : List FT) (vs : Option (List Val)) : List Val :=
        match fl, fs with
        | 0, _ => []
        | _ + 1, [] => []
        | fl + 1, (_, nt) :: rest =>
          let (hd, tl) := match vs with
            | some (x :: xs) => (x, some xs)
            | _ => (Val.nilv, none)
          flatLeaves fuel nt hd ++ go fl rest tl
      -- strip the pointers of the value
      let rec strip (n : Nat) (v : Val) : Option (List Val) :=
        match n, v with
        | _, .struct vs => some vs
        | n + 1, .ptr p => strip n p
        | _, _ => none
      go (ifs.toList.length + 1) ifs.toList (strip (ptrDepth t) v)
    | _ => [v]

/-- number of flattened leaves of a type -/
def leafCount : Nat → Ty → Nat
  | 0, _ => 0
  | fuel + 1, t =>
    match stripPtrs t with
    | .struct ifs => (ifs.toList.map fun f => leafCount fuel f.2).sum
    | _ => 1

mutual
/-- size of a type (number of constructors and fields): any fuel above it suffices for the flatten
mangler's recursions on that type -/
def tySize : Ty → Nat
  | .ptr e => tySize e + 1
  | .slice e => tySize e + 1
  | .array _ e => tySize e + 1
  | .map k v => tySize k + tySize v + 1
  | .set k => tySize k + 1
  | .struct fs => fieldsSize fs + 1
  | _ => 1
def fieldsSize : Fields → Nat
  | .nil => 1
  | .cons _ _ _ t rest => tySize t + fieldsSize rest + 1
end

def Ty.isStructTy : Ty → Bool
  | .struct _ => true
  | _ => false

def nils (n : Nat) : List Val := List.replicate n Val.nilv

/-- the chain a list of regenerated constructor specs denotes (F12), with `parse` for string casting -/
def chainOf (fuel : Nat) (parse : String → Ty → Outcome Val) (specs : List (List String)) : List Mangler :=
  (chainOfSpecs fuel parse specs).getD []

end Dials.Tf
