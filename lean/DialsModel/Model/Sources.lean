/-
Models of the environment source (/repo/sources/env/env.go) on top of the transformer model:
the mangler chain (regenerated from the source: F12), variable lookup by the `dialsenv` tag of each
translated field (with the optional prefix), and reverse translation.
-/
import DialsModel.Model.Manglers
import DialsModel.Model.ParseString

namespace Dials.Tf
open Dials.CaseConv (Scheme)

def schemeOfName : String → Option Scheme
  | "EncodeUpperCamelCase" => some .upperCamel
  | "EncodeLowerCamelCase" => some .lowerCamel
  | "EncodeLowerSnakeCase" => some .lowerSnake
  | "EncodeUpperSnakeCase" => some .upperSnake
  | "EncodeKebabCase" => some .kebab
  | "EncodeCasePreservingSnakeCase" => some .casePreservingSnake
  | _ => none

def decoderOfName : String → Option (List Char → Option (List (List Char)))
  | "DecodeGoTags" => some CaseConv.decodeGoTags
  | "DecodeGoCamelCase" => some CaseConv.decodeGoCamel
  | "DecodeUpperCamelCase" => some CaseConv.decodeUpperCamel
  | "DecodeLowerCamelCase" => some CaseConv.decodeLowerCamel
  | "DecodeLowerSnakeCase" => some CaseConv.decodeLowerSnake
  | "DecodeUpperSnakeCase" => some CaseConv.decodeUpperSnake
  | "DecodeKebabCase" => some CaseConv.decodeKebab
  | "DecodeCasePreservingSnakeCase" => some CaseConv.decodeCasePreservingSnake
  | _ => none

/-- a mangler from its regenerated constructor spec (F12), e.g. `["flatten", "dials", "EncodeUpperCamelCase", "EncodeUpperCamelCase"]` -/
def manglerOfSpec (fuel : Nat) (parse : String → Ty → Outcome Val) : List String → Option Mangler
  | "alias" :: tags => some (aliasMangler tags)
  | ["flatten", tag, ne, te] => do
    let n ← schemeOfName ne
    let t ← schemeOfName te
    some (flattenMangler ⟨tag, n, t⟩ fuel)
  | ["reformat", tag, dec, enc] => do
    let d ← decoderOfName dec
    let e ← schemeOfName enc
    some (tagReformatMangler tag d e)
  | ["copy", src, new] => some (tagCopyMangler src new)
  | ["stringcast"] => some (stringCastMangler parse)
  | ["setslice"] => some setSliceMangler
  | ["anonflatten"] => some (anonMangler fuel)
  | ["dursub"] => some durSubMangler
  | ["textunmarshaler"] => some textUnmarshalerMangler
  | _ => none

def chainOfSpecs (fuel : Nat) (parse : String → Ty → Outcome Val) (specs : List (List String)) : Option (List Mangler) :=
  specs.mapM (manglerOfSpec fuel parse)

/-- env.Source.Value: `lookup` is os.LookupEnv -/
def envValue (fuel : Nat) (chain : List Mangler) (pfx : String) (fs : List FT) (lookup : String → Option String) :
    Outcome (List Val) :=
  match translate fuel chain fs with
  | .err c => .err c
  | .panic c => .panic c
  | .ok tfs =>
    match mapM' (fun (f : FT) =>
      match tagGet f.1.tags "dialsenv" with
      | none => Outcome.err "empty dialsenv tag"       -- an error since the repair of P05 (was: explicit panic)
      | some "" => Outcome.err "empty dialsenv tag"
      | some name =>
        let full := if pfx == "" then name else pfx ++ "_" ++ name
        match lookup full with
        | some v => .ok (Val.ptr (.s v))
        | none => .ok Val.nilv) tfs with
    | .ok vals => reverse fuel chain fs vals
    | .err c => .err c
    | .panic c => .panic c

/-- the environment variable consulted for each translated field, in order -/
def envNames (fuel : Nat) (chain : List Mangler) (pfx : String) (fs : List FT) : Outcome (List String) :=
  match translate fuel chain fs with
  | .err c => .err c
  | .panic c => .panic c
  | .ok tfs => .ok (tfs.map fun f =>
      let name := (tagGet f.1.tags "dialsenv").getD ""
      if pfx == "" then name else pfx ++ "_" ++ name)

end Dials.Tf
