/-
Runtime model of /repo/dials.go (monitor goroutine, API calls) and /repo/cb_mgr.go (callback
goroutine) as a labelled transition system over *scheduler steps*.

Granularity.  With `-tags verif` every library goroutine parks at each `verifPoint` (and inside
the harness-owned `Verify` method and callbacks); client goroutines park before a call and after
it returned.  The harness scheduler releases one parked actor at a time and waits until every
goroutine is parked or blocked again.  One model step = one such release: the released actor runs
its code segment up to its next park or block, and every goroutine it wakes on the way (channel
rendezvous, reply, close) runs up to *its* next park or block.  Go's own random choice in a
`select` with several ready cases is resolved by the `choice` carried in the label (the harness
derives it from what it observed).

Data.  A config is the slot snapshot it was stacked from (`Slots`, one value per source);
stacking and `Verify` are an abstract world `W` (`stackOk`, `valid`).  The data-level half
("compose is a function of defaults and slots") is C01/C02.

Channels are taken as sequentially consistent atomic steps (DESIGN §2).  Capacities come from
`Facts` (regenerated from the source).
-/
import DialsModel.Model.Basic
import DialsModel.Gen.Facts

namespace Dials.Runtime

structure Params where
  skipInitial : Bool := false
  delay : Bool := false
  suppress : Bool := false
deriving Repr, DecidableEq, Inhabited

abbrev Slots := List Nat

structure Version where
  serial : Nat
  cfg : Slots
deriving Repr, DecidableEq, Inhabited

structure World where
  stackOk : Slots → Bool
  valid : Slots → Bool

inductive ErrK where
  | stack | verify | source (e : Nat)
deriving Repr, DecidableEq, Inhabited

/-- events on the callback channel `cbch` -/
inductive CbEv where
  | newCfg (old : Slots) (new : Version) (suppressed : Bool)
  | watchErr (k : ErrK) (old : Slots) (new : Option Slots)
  | reg (h : Nat) (ser : Nat) (cfg : Option Slots)
  | unreg (h : Nat) (c : Nat) (tok : Nat)   -- c: the waiting client, tok: identifies the call (its context id)
deriving Repr, DecidableEq, Inhabited

/-- messages on the (unbuffered) watcher channel -/
inductive Msg where
  | value (src v : Nat) (reply : Option Nat)
  | srcErr (src e : Nat)
  | done (src : Nat)
deriving Repr, DecidableEq, Inhabited

inductive Res where
  | okNil | errStack | errVerify | ctxErr
  | version (v : Version)
  | noEvent | event (cfg : Slots)
  | regOk (h : Nat) | regFail | unregTrue | unregFalse
  | enableOk (v : Version) | enableErr
deriving Repr, DecidableEq, Inhabited

inductive Op where
  | view | events
  | report (src v : Nat) (blocking : Bool)
  | reportErr (src e : Nat)
  | done (src : Nat)
  | register (h ser : Nat) (cfg : Option Slots)
  | unregister (h : Nat)
  | enable
deriving Repr, DecidableEq, Inhabited

inductive CSt where
  | idle
  | ready (op : Op) (ctx : Nat)
  | sendW (m : Msg) (ctx : Nat)
  | waitReply (ctx : Nat)
  | sendCb (ev : CbEv) (ctx : Nat)
  | waitDone (ctx : Nat)
  | sendCtl (ctx : Nat)
  | waitResp (ctx : Nat)
  | returned (r : Res)
deriving Repr, DecidableEq, Inhabited

/-- a callback invocation -/
inductive Call where
  | onNew (old new : Slots) (ser : Nat)
  | onErr (k : ErrK) (old : Slots) (new : Option Slots)
  | user (h : Nat) (old new : Slots) (ser : Nat) (catchUp : Bool)
deriving Repr, DecidableEq, Inhabited

inductive CbPc where
  | top | sel
  | got (ev : CbEv)
  | calls (cs : List Call) (ev : CbEv)     -- parked at the entry of `cs.head`, processing `ev`
  | exit | finished
deriving Repr, DecidableEq, Inhabited

inductive MonPc where
  | top | sel
  | gotValue (src v : Nat) (reply : Option Nat)
  | verifyUpd (slots' : Slots) (reply : Option Nat)
  | submitErr (k : ErrK) (new : Option Slots) (reply : Option Nat)
  | replyErr (k : ErrK) (c : Nat)
  | store (slots' : Slots) (reply : Option Nat)
  | events (old : Slots) (reply : Option Nat)
  | replyOk (old : Slots) (c : Nat)
  | submitNew (old : Slots)
  | gotSrcErr (e : Nat)
  | submitSrcErr (e : Nat)
  | gotDone (src : Nat)
  | gotEnable (c tok : Nat)
  | verifyEnable (c tok : Nat)
  | enableReply (c tok : Nat) (ok noop : Bool)
  | exit | finished
deriving Repr, DecidableEq, Inhabited

/-- ghost observations (never read by `step`) -/
inductive Obs where
  | install (v : Version) (skip : Bool)               -- monitor stored v; skip = skipVerify at that time
  | verify (cfg : Slots) (ok : Bool) (byEnable : Bool)
  | reject (k : ErrK) (cause : Option Nat)           -- an update was rejected (cause = blocking reporter)
  | enter (c : Call)                                 -- callback entered
  | queued (ev : CbEv) (skip : Bool) | dropped (ev : CbEv)       -- skip = skipVerify when the monitor submitted ev
  | gotUpd (src v : Nat) (reply : Option Nat)          -- the monitor received a value update
  | replied (c : Nat) (r : Res)                        -- the monitor answered blocking reporter c
  | enableCalled (c : Nat)                             -- EnableVerification was called (delay mode)
  | withheld (ev : CbEv) (skip : Bool)               -- a global callback was not made for ev
  | srcErrIgnored (e : Nat) (skip : Bool)
  | ret (c : Nat) (r : Res)
  | seen (c : Nat) (v : Version)                     -- a reader obtained v from View/ViewVersion
  | evRecv (c : Nat) (v : Version)
  | enabled (ok : Bool) (v : Version)
  | monExit
  | unregProcessed (h : Nat)
  | regProcessed (h : Nat) (ser : Nat) (lastSerial : Nat)
deriving Repr, DecidableEq, Inhabited

structure State where
  P : Params
  view : Version
  slots : Slots
  watching : List Bool
  skipVerify : Bool
  mon : MonPc
  cb : CbPc
  handles : List (Nat × Nat)        -- (handle, minSerial), in registration order
  lastSerial : Nat
  lastVersion : Option Slots
  cbch : List CbEv                  -- oldest first
  monCtl : List (Nat × Nat)         -- (client, call token) of the queued enable requests
  events : Option Version           -- the Events channel (capacity 1)
  clients : List (Nat × CSt)
  cancelled : List Nat              -- context ids that are done; 0 is the Config context
  monDone : Bool
  log : List Obs                    -- newest first
deriving Repr, Inhabited

inductive Label where
  | begin (c : Nat) (op : Op) (ctx : Nat)
  | ack (c : Nat)
  | runMon (choice : Nat)
  | runCb
  | runClient (c : Nat) (choice : Nat)
  | cancel (ctx : Nat)
deriving Repr, DecidableEq, Inhabited

/-! ### small helpers -/

def setSlot : Slots → Nat → Nat → Slots
  | [], _, _ => []
  | _ :: xs, 0, v => v :: xs
  | x :: xs, n + 1, v => x :: setSlot xs n v

def setFalse : List Bool → Nat → List Bool
  | [], _ => []
  | _ :: xs, 0 => false :: xs
  | x :: xs, n + 1 => x :: setFalse xs n

def getC (cs : List (Nat × CSt)) (c : Nat) : CSt :=
  match cs.find? (·.1 == c) with
  | some p => p.2
  | none => .idle

def setC : List (Nat × CSt) → Nat → CSt → List (Nat × CSt)
  | [], c, st => [(c, st)]
  | (d, x) :: rest, c, st => if d == c then (d, st) :: rest else (d, x) :: setC rest c st

def State.isCancelled (s : State) (ctx : Nat) : Bool := s.cancelled.contains ctx
def State.logAdd (s : State) (o : Obs) : State := { s with log := o :: s.log }
def State.setClient (s : State) (c : Nat) (st : CSt) : State := { s with clients := setC s.clients c st }
/-- a client blocks in a channel send: Go's sender queues are FIFO, so the entry moves to the end of
the client table (`find?` then yields the longest-blocked sender) -/
def State.blockClient (s : State) (c : Nat) (st : CSt) : State :=
  { s with clients := s.clients.filter (fun p => p.1 != c) ++ [(c, st)] }
def State.ret (s : State) (c : Nat) (r : Res) : State :=
  { s with clients := setC s.clients c (.returned r), log := .ret c r :: s.log }

/-- after its send completed the caller waits in a second select; with its context already done
that select returns at once -/
def State.waitOr (s : State) (c : Nat) (ctx : Nat) (st : CSt) (fail : Res) : State :=
  if s.isCancelled ctx then s.ret c fail else s.setClient c st

def capCbch : Nat := Facts.capCbch
def capMonCtl : Nat := Facts.capMonCtl

/-! ### callback goroutine -/

/-- the calls made for an event, given the goroutine-local state (cb_mgr.go runCBs) -/
def callsFor (handles : List (Nat × Nat)) (lastSerial : Nat) (lastVersion : Option Slots) : CbEv → List Call
  | .watchErr k old new => [.onErr k old new]
  | .newCfg old new suppressed =>
    (if Facts.globalGate suppressed then [.onNew old new.cfg new.serial] else []) ++
      (handles.filter (fun h => !(Facts.cbSkip h.2 new.serial))).map (fun h => Call.user h.1 old new.cfg new.serial false)
  | .reg h ser cfg =>
    match cfg with
    | some c => if Facts.catchUp ser lastSerial then [.user h c (lastVersion.getD []) lastSerial true] else []
    | none => []
  | .unreg _ _ _ => []

/-- effects of finishing an event (after all its calls returned) -/
def finishEv (s : State) : CbEv → State
  | .newCfg _ _ _ => s
  | .watchErr _ _ _ => s
  | .reg h ser _ => { s with handles := s.handles ++ [(h, ser)] }
  | .unreg h c tok =>
    let s := { s with handles := s.handles.filter (fun x => x.1 != h), log := .unregProcessed h :: s.log }
    match getC s.clients c with
    | .waitDone k => if k == tok then s.ret c .unregTrue else s
    | _ => s

/-- the callback goroutine has just dequeued `ev` (it parks at cb.got) -/
def cbTake (s : State) (ev : CbEv) : State := { s with cb := .got ev }

/-- if the callback goroutine is blocked in its select, hand it `ev` directly; otherwise queue it -/
def enqueueCb (s : State) (ev : CbEv) : State :=
  match s.cb with
  | .sel => cbTake s ev
  | _ => { s with cbch := s.cbch ++ [ev] }

/-- can a send on cbch proceed right now? -/
def cbRoom (s : State) : Bool :=
  match s.cb with
  | .sel => true
  | _ => s.cbch.length < capCbch

/-- after a dequeue, the first client blocked sending on cbch (if any) completes its send -/
def admitCbSender (s : State) : State :=
  match s.clients.find? (fun p => match p.2 with | .sendCb _ _ => true | _ => false) with
  | some (c, .sendCb ev ctx) =>
    let s := { s with cbch := s.cbch ++ [ev] }
    match ev with
    | .unreg _ _ _ => s.waitOr c ctx (.waitDone ctx) .unregFalse
    | .reg h _ _ => s.ret c (.regOk h)
    | _ => s.ret c (.regOk 0)
  | _ => s

def runCb (s : State) : Option State :=
  match s.cb with
  | .top =>
    match s.cbch with
    | ev :: rest => some (admitCbSender (cbTake { s with cbch := rest } ev))
    | [] => if s.monDone then some { s with cb := .exit } else some { s with cb := .sel }
  | .got ev =>
    let s := match ev with
      | .newCfg _ new _ => { s with lastSerial := new.serial, lastVersion := some new.cfg }
      | .reg h ser _ => s.logAdd (.regProcessed h ser s.lastSerial)
      | _ => s
    let s := match ev with
      | .newCfg _ _ suppressed => if Facts.globalGate suppressed then s else s.logAdd (.withheld ev s.skipVerify)
      | _ => s
    match callsFor s.handles s.lastSerial s.lastVersion ev with
    | [] => some { (finishEv s ev) with cb := .top }
    | c :: cs => some ({ s with cb := .calls (c :: cs) ev }.logAdd (.enter c))
  | .calls (_ :: c :: cs) ev => some ({ s with cb := .calls (c :: cs) ev }.logAdd (.enter c))
  | .calls [_] ev => some { (finishEv s ev) with cb := .top }
  | .calls [] _ => none
  | .exit => some { s with cb := .finished }
  | .sel => none
  | .finished => none

/-! ### monitor goroutine -/

/-- `submitEvent`: non-blocking send on cbch.  With the Config context done and room in the
channel Go picks at random; `choice = 1` means the event was not sent. -/
def trySubmit (s : State) (ev : CbEv) (choice : Nat) : State :=
  if cbRoom s && !(s.isCancelled 0 && choice == 1) then (enqueueCb s ev).logAdd (.queued ev s.skipVerify)
  else s.logAdd (.dropped ev)

def replyTo (s : State) (c : Nat) (r : Res) : State :=
  let s := s.logAdd (.replied c r)
  match getC s.clients c with
  | .waitReply _ => s.ret c r
  | _ => s           -- the reporter gave up (context); the buffered reply is never read

/-- the inputs the monitor's select can take right now -/
inductive MonIn where
  | ctx | ctl (c tok : Nat) | msg (c : Nat) (m : Msg)
deriving Repr, DecidableEq, Inhabited

def readyIns (s : State) : List MonIn :=
  (if s.isCancelled 0 then [MonIn.ctx] else []) ++
  (match s.monCtl with | (c, tok) :: _ => [MonIn.ctl c tok] | [] => []) ++
  s.clients.filterMap (fun p => match p.2 with | .sendW m _ => some (MonIn.msg p.1 m) | _ => none)

/-- after a dequeue from monCtl, the first client blocked sending on it completes its send -/
def admitCtlSender (s : State) : State :=
  match s.clients.find? (fun p => match p.2 with | .sendCtl _ => true | _ => false) with
  | some (c, .sendCtl ctx) => { s with monCtl := s.monCtl ++ [(c, ctx)] }.waitOr c ctx (.waitResp ctx) .ctxErr
  | _ => s

/-- the monitor takes input `i` (it parks at mon.got, or at mon.exit for the context) -/
def monTake (s : State) : MonIn → State
  | .ctx => { s with mon := .exit }
  | .ctl c tok => admitCtlSender { s with mon := .gotEnable c tok, monCtl := s.monCtl.drop 1 }
  | .msg c m =>
    let s := match m with
      | .value src v reply => { s with mon := .gotValue src v reply }
      | .srcErr _ e => { s with mon := .gotSrcErr e }
      | .done src => { s with mon := .gotDone src }
    match m, getC s.clients c with
    | .value _ _ (some _), .sendW _ ctx => s.waitOr c ctx (.waitReply ctx) .ctxErr
    | _, _ => s.ret c .okNil

def suppressedNow (s : State) : Bool := Facts.suppressNew s.skipVerify s.P.suppress

def runMon (W : World) (s : State) (choice : Nat) : Option State :=
  match s.mon with
  | .top =>
    match readyIns s with
    | [] => some { s with mon := .sel }
    | ins => (ins[choice]?).map (monTake s)
  | .sel => none
  | .gotValue src v reply =>
    let slots' := setSlot s.slots src v
    let s := { s with slots := slots' }.logAdd (.gotUpd src v reply)
    if !W.stackOk slots' then some { s with mon := .submitErr .stack none reply }
    else if Facts.verifyOnUpdate s.skipVerify then some { s with mon := .verifyUpd slots' reply }
    else some { s with mon := .store slots' reply }
  | .verifyUpd slots' reply =>
    if W.valid slots' then some ({ s with mon := .store slots' reply }.logAdd (.verify slots' true false))
    else some ({ s with mon := .submitErr .verify (some slots') reply }.logAdd (.verify slots' false false))
  | .submitErr k new reply =>
    let s := (trySubmit s (.watchErr k s.view.cfg new) choice).logAdd (.reject k reply)
    match reply with
    | some c => some { s with mon := .replyErr k c }
    | none => some { s with mon := .top }
  | .replyErr k c =>
    some { (replyTo s c (match k with | .stack => .errStack | _ => .errVerify)) with mon := .top }
  | .store slots' reply =>
    let v : Version := ⟨Facts.nextSerial s.view.serial, slots'⟩
    some ({ s with view := v, mon := .events s.view.cfg reply }.logAdd (.install v s.skipVerify))
  | .events old reply =>
    let s := match s.events with
      | none => { s with events := some s.view }
      | some _ => s
    match reply with
    | some c => some { s with mon := .replyOk old c }
    | none => some { s with mon := .submitNew old }
  | .replyOk old c => some { (replyTo s c .okNil) with mon := .submitNew old }
  | .submitNew old =>
    some { (trySubmit s (.newCfg old s.view (suppressedNow s)) choice) with mon := .top }
  | .gotSrcErr e =>
    if Facts.deliverSrcErr s.skipVerify s.P.suppress then some { s with mon := .submitSrcErr e }
    else some ({ s with mon := .top }.logAdd (.srcErrIgnored e s.skipVerify))
  | .submitSrcErr e =>
    some { (trySubmit s (.watchErr (.source e) s.view.cfg none) choice) with mon := .top }
  | .gotDone src =>
    let w := setFalse s.watching src
    if w.any id then some { s with watching := w, mon := .top }
    else some { s with watching := w, mon := .exit }
  | .gotEnable c tok =>
    if !s.skipVerify then some { s with mon := .enableReply c tok true true }
    else some { s with mon := .verifyEnable c tok }
  | .verifyEnable c tok =>
    let ok := W.valid s.view.cfg
    some ({ s with mon := .enableReply c tok ok false }.logAdd (.verify s.view.cfg ok true))
  | .enableReply c tok ok noop =>
    let s := if noop then s else { s with skipVerify := !ok }.logAdd (.enabled ok s.view)
    let r := if ok then Res.enableOk s.view else Res.enableErr
    let s := match getC s.clients c with
      | .waitResp k => if k == tok then s.ret c r else s
      | _ => s
    some { s with mon := .top }
  | .exit =>
    -- close(monDone): every register/unregister blocked on cbch or on its done channel fails;
    -- the callback goroutine, if blocked in its select, proceeds to exit
    let clients := s.clients.map (fun p => match p.2 with
      | .sendCb (.unreg _ _ _) _ => (p.1, CSt.returned .unregFalse)
      | .sendCb _ _ => (p.1, CSt.returned .regFail)
      | .waitDone _ => (p.1, CSt.returned .unregFalse)
      | _ => p)
    let cb := match s.cb with | .sel => CbPc.exit | x => x
    some ({ s with mon := .finished, monDone := true, clients := clients, cb := cb }.logAdd .monExit)
  | .finished => none

/-! ### API calls (client goroutines) -/

/-- a message is offered on the unbuffered watcher channel -/
def offerW (s : State) (c : Nat) (m : Msg) (ctx : Nat) (choice : Nat) : State :=
  let canSend := s.mon == .sel
  let cancelled := s.isCancelled ctx
  if canSend && !(cancelled && choice == 1) then monTake (s.setClient c (.sendW m ctx)) (.msg c m)
  else if cancelled then s.ret c .ctxErr
  else s.blockClient c (.sendW m ctx)

/-- `submitEventBlocking` -/
def offerCb (s : State) (c : Nat) (ev : CbEv) (ctx : Nat) (choice : Nat) : State :=
  let fail : Res := match ev with | .unreg _ _ _ => .unregFalse | _ => .regFail
  if s.monDone then s.ret c fail
  else
    let cancelled := s.isCancelled ctx
    if cbRoom s && !(cancelled && choice == 1) then
      let s := enqueueCb s ev
      match ev with
      | .unreg _ _ _ => s.waitOr c ctx (.waitDone ctx) .unregFalse
      | .reg h _ _ => s.ret c (.regOk h)
      | _ => s.ret c (.regOk 0)
    else if cancelled then s.ret c fail
    else s.blockClient c (.sendCb ev ctx)

def runClient (s : State) (c : Nat) (choice : Nat) : Option State :=
  match getC s.clients c with
  | .ready op ctx =>
    match op with
    | .view => some ((s.ret c (.version s.view)).logAdd (.seen c s.view))
    | .events =>
      match s.events with
      | some v => some (({ s with events := none }.ret c (.event v.cfg)).logAdd (.evRecv c v))
      | none => some (s.ret c .noEvent)
    | .report src v blocking => some (offerW s c (.value src v (if blocking then some c else none)) ctx choice)
    | .reportErr src e => some (offerW s c (.srcErr src e) ctx choice)
    | .done src => some (offerW s c (.done src) ctx choice)
    | .register h ser cfg => some (offerCb s c (.reg h ser cfg) ctx choice)
    | .unregister h => some (offerCb s c (.unreg h c ctx) ctx choice)
    | .enable =>
      if !s.P.delay then some (s.ret c (.enableOk s.view))
      else
        let cancelled := s.isCancelled ctx
        let room := s.mon == .sel || s.monCtl.length < capMonCtl
        let s := s.logAdd (.enableCalled c)
        if room && !(cancelled && choice == 1) then
          let s := s.waitOr c ctx (.waitResp ctx) .ctxErr
          if s.mon == .sel then some { s with mon := .gotEnable c ctx }
          else some { s with monCtl := s.monCtl ++ [(c, ctx)] }
        else if cancelled then some (s.ret c .ctxErr)
        else some (s.blockClient c (.sendCtl ctx))
  | _ => none

/-- a context is cancelled: every goroutine blocked in a select on it wakes up -/
def cancelCtx (s : State) (ctx : Nat) : State :=
  let s := { s with cancelled := if s.cancelled.contains ctx then s.cancelled else ctx :: s.cancelled }
  let wake : Nat × CSt → Nat × CSt := fun p =>
    match p.2 with
    | .sendW _ k => if k == ctx then (p.1, .returned .ctxErr) else p
    | .waitReply k => if k == ctx then (p.1, .returned .ctxErr) else p
    | .sendCb (.unreg _ _ _) k => if k == ctx then (p.1, .returned .unregFalse) else p
    | .sendCb _ k => if k == ctx then (p.1, .returned .regFail) else p
    | .waitDone k => if k == ctx then (p.1, .returned .unregFalse) else p
    | .sendCtl k => if k == ctx then (p.1, .returned .ctxErr) else p
    | .waitResp k => if k == ctx then (p.1, .returned .ctxErr) else p
    | _ => p
  let s := { s with clients := s.clients.map wake }
  if ctx == 0 && s.mon == .sel then { s with mon := .exit } else s

def step (W : World) (s : State) : Label → Option State
  | .begin c op ctx =>
    match getC s.clients c with
    | .idle => some (s.setClient c (.ready op ctx))
    | _ => none
  | .ack c =>
    match getC s.clients c with
    | .returned _ => some (s.setClient c .idle)
    | _ => none
  | .runMon choice => runMon W s choice
  | .runCb => runCb s
  | .runClient c choice => runClient s c choice
  | .cancel ctx => some (cancelCtx s ctx)

/-- `Params.Config` up to the point where the goroutines are started (watching sources present). -/
def initState (P : Params) (slots : Slots) (watching : List Bool) : State :=
  { P := P, view := ⟨0, slots⟩, slots := slots, watching := watching, skipVerify := Facts.initialSkipVerify P.delay,
    mon := .top, cb := .top, handles := [], lastSerial := 0, lastVersion := none, cbch := [], monCtl := [],
    events := none, clients := [], cancelled := [], monDone := false, log := [] }

/-- the outcome of `Params.Config` itself -/
def configInit (W : World) (P : Params) (slots : Slots) : Outcome Version :=
  if !W.stackOk slots then .err "stack"
  else if Facts.initialVerify P.skipInitial P.delay && !W.valid slots then .err "verify"
  else .ok ⟨0, slots⟩

/-- `EnableVerification` when `Config` started no monitor (no watching source): the call verifies
the installed config itself (dials.go, the `d.monCtl == nil` branch).  Returns the result and the
Verify calls made. -/
def enableNoWatch (W : World) (P : Params) (v : Version) : Res × List Obs :=
  if !P.delay then (.enableOk v, [])
  else if W.valid v.cfg then (.enableOk v, [.verify v.cfg true true])
  else (.enableErr, [.verify v.cfg false true])

def run (W : World) : State → List Label → Option State
  | s, [] => some s
  | s, l :: ls => (step W s l).bind (run W · ls)

end Dials.Runtime
