/-
Specification vocabulary for the runtime properties C04–C09: reachability and projections of the
ghost log.
-/
import DialsModel.Model.Runtime

namespace Dials.Runtime

/-- states reachable from `Params.Config` returning successfully with watching sources -/
def Reachable (W : World) (P : Params) (slots₀ : Slots) (watching : List Bool) (s : State) : Prop :=
  ∃ ls : List Label, run W (initState P slots₀ watching) ls = some s

/-- the log in chronological order -/
def State.history (s : State) : List Obs := s.log.reverse

/-- installed versions, oldest first -/
def installsOf (h : List Obs) : List Version :=
  h.filterMap fun o => match o with | .install v _ => some v | _ => none

def State.installs (s : State) : List Version := installsOf s.history

/-- every version a program could have observed: the initial one and the installed ones -/
def State.versions (s : State) (slots₀ : Slots) : List Version := ⟨0, slots₀⟩ :: s.installs

/-- the monitor is between two updates (parked at the top of its loop, or blocked in its select) -/
def MonPc.idle : MonPc → Bool
  | .top => true
  | .sel => true
  | _ => false

/-- `i`-th element precedes `j`-th in chronological order -/
def Before (h : List Obs) (a b : Obs) : Prop :=
  ∃ l1 l2 l3, h = l1 ++ a :: l2 ++ b :: l3

/-- handle ids used in RegisterCallback calls of a label trace -/
def regHandles (ls : List Label) : List Nat :=
  ls.filterMap fun l => match l with | .begin _ (.register h _ _) _ => some h | _ => none

/-- every RegisterCallback call uses a fresh handle id (a handle denotes one registration) -/
def RegsUnique (ls : List Label) : Prop := (regHandles ls).Nodup

/-- an unregister function is only ever called after the RegisterCallback call that produced it has
returned it (non-nil) -/
def UnregOwned (W : World) (P : Params) (sl : Slots) (w : List Bool) (ls : List Label) : Prop :=
  ∀ l1 l2 c h ctx, ls = l1 ++ Label.begin c (.unregister h) ctx :: l2 →
    ∃ s1 c', run W (initState P sl w) l1 = some s1 ∧ Obs.ret c' (.regOk h) ∈ s1.log

def isInstall : Obs → Bool
  | .install _ _ => true
  | _ => false

def isGotUpd : Obs → Bool
  | .gotUpd _ _ _ => true
  | _ => false

end Dials.Runtime
