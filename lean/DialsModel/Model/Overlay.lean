/-
Model of /repo/ptrify/ptrify.go (Pointerify) and /repo/overlay.go (overlayField / overlayStruct) and
of `compose` in /repo/dials.go on *tree values* (no aliasing; pointers are inline).

The model is "reflect-like": values carry their types and every branch of overlayField is
reproduced, including the branches that return an error and the reflect operations that panic
(`Set` with a different type, `Elem` on a non-pointer, `Field(j)` out of range, the explicit
non-struct panics of overlayStruct).  Interface-typed fields are outside this universe
(`Ty` has no interface constructor); the property C01 quantifies over config types without them.

Type identity: `scalar n`, `slice n`, `map n`, `tu n` are opaque named types; two are the same Go type
iff the tags are equal (arrays, strings, durations, all integer widths … are `scalar`s).
-/
import DialsModel.Model.Basic
import DialsModel.Gen.Facts

namespace Dials.Overlay

/-- why a field is not configuration -/
inductive FieldKind where
  | normal        -- exported, no `dials:"-"`
  | unexported
  | dash          -- exported with `dials:"-"`
deriving Repr, DecidableEq, Inhabited

mutual
inductive Ty where
  | scalar (n : Nat)
  | slice (n : Nat)
  | map (n : Nat)
  | tu (n : Nat)                 -- struct type implementing encoding.TextUnmarshaler
  | ptr (e : Ty)
  | struct (fs : Fields)
  | chan
  | func
inductive Fields where
  | nil
  | cons (k : FieldKind) (t : Ty) (rest : Fields)
end

mutual
def Ty.beq : Ty → Ty → Bool
  | .scalar a, .scalar b => a == b
  | .slice a, .slice b => a == b
  | .map a, .map b => a == b
  | .tu a, .tu b => a == b
  | .ptr a, .ptr b => Ty.beq a b
  | .struct a, .struct b => Fields.beq a b
  | .chan, .chan => true
  | .func, .func => true
  | _, _ => false
def Fields.beq : Fields → Fields → Bool
  | .nil, .nil => true
  | .cons k t r, .cons k' t' r' => k == k' && Ty.beq t t' && Fields.beq r r'
  | _, _ => false
end

instance : BEq Ty := ⟨Ty.beq⟩

def Ty.isStruct : Ty → Bool
  | .struct _ => true
  | _ => false
def Ty.isTU : Ty → Bool
  | .tu _ => true
  | _ => false
def Ty.isChanFunc : Ty → Bool
  | .chan => true
  | .func => true
  | _ => false

/-! ### values -/

mutual
inductive Val where
  | scalar (n : Nat) (x : Nat)            -- value x of scalar type n
  | coll (t : Ty) (c : Option Nat)        -- slice or map (t = .slice n / .map n): nil or contents id
  | tuv (n : Nat) (x : Nat)               -- value of text-unmarshaler struct type n
  | ptr (e : Ty) (p : Option Val)         -- pointer to e: nil or pointee
  | struct (fs : Fields) (vs : Vals)
  | opaque (t : Ty) (x : Nat)             -- chan / func value (x = 0: nil)
inductive Vals where
  | nil
  | cons (v : Val) (rest : Vals)
end

def Val.ty : Val → Ty
  | .scalar n _ => .scalar n
  | .coll t _ => t
  | .tuv n _ => .tu n
  | .ptr e _ => .ptr e
  | .struct fs _ => .struct fs
  | .opaque t _ => t

mutual
def zero : Ty → Val
  | .scalar n => .scalar n 0
  | .slice n => .coll (.slice n) none
  | .map n => .coll (.map n) none
  | .tu n => .tuv n 0
  | .ptr e => .ptr e none
  | .struct fs => .struct fs (zeros fs)
  | .chan => .opaque .chan 0
  | .func => .opaque .func 0
def zeros : Fields → Vals
  | .nil => .nil
  | .cons _ t r => .cons (zero t) (zeros r)
end

/-! ### Pointerify -/

/-- `ptrify.OmitField` (F9: which field kinds it omits) -/
def omitField (k : FieldKind) : Bool :=
  match k with
  | .normal => false
  | .unexported => Facts.omitUnexported
  | .dash => Facts.omitDash

mutual
/-- `pointerifyField`: the pointerified field type, or none when the field is dropped (chan/func) -/
def ptrifyField : Ty → Option Ty
  | .slice n => some (.slice n)
  | .map n => some (.map n)
  | .ptr (.struct fs) => some (.ptr (.struct (ptrifyFields fs)))
  | .ptr (.tu n) => some (.ptr (.tu n))
  | .ptr e => some (.ptr e)
  | .struct fs => some (.ptr (.struct (ptrifyFields fs)))
  | .tu n => some (.ptr (.tu n))
  | .chan => if Facts.ptrifyDropsChanFunc then none else some (.ptr .chan)
  | .func => if Facts.ptrifyDropsChanFunc then none else some (.ptr .func)
  | .scalar n => some (.ptr (.scalar n))
/-- `Pointerify` on the field list of a struct type -/
def ptrifyFields : Fields → Fields
  | .nil => .nil
  | .cons k t r =>
    if omitField k then ptrifyFields r
    else match ptrifyField t with
      | some t' => .cons k t' (ptrifyFields r)
      | none => ptrifyFields r
end

def ptrify : Ty → Ty
  | .struct fs => .struct (ptrifyFields fs)
  | t => t

/-! ### overlay -/

def Val.isNilable : Val → Bool
  | .coll _ _ => true
  | .ptr _ _ => true
  | _ => false

def Val.isNil : Val → Bool
  | .coll _ none => true
  | .ptr _ none => true
  | _ => false

/-- `reflect.Value.Set`: panics unless the types are identical -/
def setVal (baseTy : Ty) (v : Val) : Outcome Val :=
  if v.ty == baseTy then .ok v else .panic "reflect.Set: value not assignable"

/-- `overlay.Elem()` on a pointer -/
def elemOf : Val → Outcome Val
  | .ptr _ (some p) => .ok p
  | .ptr _ none => .panic "Elem of nil pointer used as struct"
  | _ => .panic "reflect: call of Elem on non-pointer Value"

/-- `overlay.Type().Elem()` -/
def tyElem : Ty → Outcome Ty
  | .ptr e => .ok e
  | .slice n => .ok (.scalar (n + 1000000))     -- element types of collections are never struct types here
  | .map n => .ok (.scalar (n + 2000000))
  | .chan => .ok (.scalar 3000000)
  | _ => .panic "reflect: Elem of invalid type"

mutual
/-- overlayField(base, overlay); `settable` = base.CanSet() (false for unexported fields) -/
def overlayField (settable : Bool) (base overlay : Val) : Outcome Val :=
  if overlay.isNilable && overlay.isNil then .ok base
  else if !settable then .err "cannot set field"
  else match base with
    | .ptr be none =>
      match tyElem overlay.ty with
      | .panic c => .panic c
      | .err c => .err c
      | .ok oe =>
        if be == oe then setVal (.ptr be) overlay
        else match be with
          | .struct bfs =>
            match overlay with
            | .ptr _ (some (.struct _ ovs)) =>
              match overlayStruct bfs (zeros bfs) ovs with
              | .ok vs => .ok (.ptr be (some (.struct bfs vs)))
              | .err c => .err c
              | .panic c => .panic c
            | .ptr _ (some _) => .panic "non-struct call: overlay"
            | .ptr _ none => .panic "Elem of nil pointer used as struct"
            | _ => .panic "reflect: call of Elem on non-pointer Value"
          | .tu _ => .err "unexpected shallow-copy-struct as pointer target"
          | _ => .err "unexpected kind for mangled pointer target"
    | .ptr be (some bp) =>
      if be.isTU then
        if overlay.ty == .ptr be then .ok overlay
        else if overlay.ty == be then .ok (.ptr be (some overlay))
        else .ok base
      else match be, bp with
        | .struct bfs, .struct _ bvs =>
          match overlay with
          | .ptr _ (some (.struct _ ovs)) =>
            match overlayStruct bfs bvs ovs with
            | .ok vs => .ok (.ptr be (some (.struct bfs vs)))
            | .err c => .err c
            | .panic c => .panic c
          | .ptr _ (some _) => .panic "non-struct call: overlay"
          | .ptr _ none => .panic "Elem of nil pointer used as struct"
          | _ => .panic "reflect: call of Elem on non-pointer Value"
        | .struct _, _ => .panic "ill-formed base"
        | _, _ =>
          if Facts.overlayReplacesNonStructPtr then setVal (.ptr be) overlay
          else .panic "non-struct call: base"
    | .tuv n _ =>
      match overlay with
      | .ptr _ (some p) => setVal (.tu n) p
      | .ptr _ none => .panic "Elem of nil"
      | .tuv m x => if m == n then .ok (.tuv m x) else .err "struct type not assignable"
      | .struct _ _ => .err "struct type not assignable"
      | _ => .err "type not assignable"
    | .struct bfs bvs =>
      match overlay with
      | .ptr _ (some (.struct _ ovs)) =>
        match overlayStruct bfs bvs ovs with
        | .ok vs => .ok (.struct bfs vs)
        | .err c => .err c
        | .panic c => .panic c
      | .ptr _ (some _) => .panic "non-struct call: overlay"
      | .ptr _ none => .panic "non-struct call: overlay (invalid)"
      | .struct _ ovs =>
        match overlayStruct bfs bvs ovs with
        | .ok vs => .ok (.struct bfs vs)
        | .err c => .err c
        | .panic c => .panic c
      | _ => .panic "non-struct call: overlay"
    | b =>
      match overlay with
      | .ptr _ (some p) => setVal b.ty p
      | .ptr _ none => .panic "Set of invalid Value"
      | o => setVal b.ty o
termination_by (sizeOf overlay, 0)
decreasing_by all_goals (simp_wf; first | (apply Prod.Lex.left; omega) | skip)

/-- overlayStruct: walk the base fields (index i) against the overlay fields (index j), skipping
omitted fields and chan/func fields of the base (F9: the skip rules of *this* function) -/
def overlayStruct : Fields → Vals → Vals → Outcome Vals
  | .nil, _, _ => .ok .nil
  | .cons _ _ _, .nil, _ => .panic "ill-formed base value"
  | .cons k t r, .cons b bs, os =>
    if (Facts.overlayUsesOmitField && omitField k) || (Facts.overlaySkipsChanFunc && t.isChanFunc) then
      match overlayStruct r bs os with
      | .ok vs => .ok (.cons b vs)
      | .err c => .err c
      | .panic c => .panic c
    else match os with
      | .nil => .panic "reflect: Field index out of range"
      | .cons o os' =>
        match overlayField (k != .unexported) b o with
        | .ok b' =>
          match overlayStruct r bs os' with
          | .ok vs => .ok (.cons b' vs)
          | .err c => .err c
          | .panic c => .panic c
        | .err c => .err c
        | .panic c => .panic c
termination_by fs _ os => (sizeOf os, sizeOf fs)
decreasing_by all_goals (simp_wf; first | (apply Prod.Lex.left; omega) | (apply Prod.Lex.right; omega) | skip)
end

/-- one layer: `compose` dereferences a pointer source value, then overlayStruct -/
def overlayLayer (base : Val) (layer : Val) : Outcome Val :=
  let l := match layer with
    | .ptr _ (some p) => p
    | v => v
  match base, l with
  | .struct bfs bvs, .struct _ ovs =>
    match overlayStruct bfs bvs ovs with
    | .ok vs => .ok (.struct bfs vs)
    | .err c => .err c
    | .panic c => .panic c
  | .struct _ _, _ => .panic "non-struct call: overlay"
  | _, _ => .panic "non-struct call: base"

/-- `compose`: the defaults copy overlaid by every source value in order (deep copies are the
identity on tree values; their aliasing behaviour is C02/C03) -/
def compose (d : Val) : List Val → Outcome Val
  | [] => .ok d
  | l :: ls =>
    match overlayLayer d l with
    | .ok d' => compose d' ls
    | .err c => .err c
    | .panic c => .panic c

end Dials.Overlay
