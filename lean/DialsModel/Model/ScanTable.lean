/-
The token table of the parse.String model (`Tf.TokTable`: what the two scanners make of a text) instantiated with the
character-level scanner model instead of the token streams logged from the real scanner.  A text outside the scanner
model's domain (non-ASCII string value) is given as a scanner error here; the theorems using this table are about ASCII
texts inside the domain.
-/
import DialsModel.Model.ParseString
import DialsModel.Model.Scan

namespace Dials.Tf

def scanTable : TokTable := fun s =>
  ((Parse.scanText false s.toList).getD [.scanErr], (Parse.scanText true s.toList).getD [.scanErr])

end Dials.Tf
