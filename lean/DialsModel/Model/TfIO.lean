/-
Text protocol for the transformer / mangler / source models.

  fields ::= { field* }          field ::= <namehex> <anon 0|1> <ntags> (<keyhex> <valhex>)* ty
  ty     ::= b | s | f32 | f64 | c64 | c128 | i8 … uintptr   (prefix N = user-defined named type)
           | D | PD | T<n> | P ty | L ty | A<n> ty | M ty ty | Z ty | fields
  val    ::= n | b0 | b1 | i<int> | s<hex> | & val | [ val* ] | ( val* ) | < (val val)* > | { val* }

  tf translate <chain> <fields>                 → ok <fields> | err | panic        (tags sorted by key)
  tf env <chain> <prefixhex> <fields> <n> (E <namehex> <valhex> <k> tok*k <m> tok*m)*n
                                                → ok <val>* | err | panic
  tf envnames <chain> <prefixhex> <fields>      → ok <namehex>*
  <chain> ::= a name defined in Gen/Facts (chainEnv …)
-/
import DialsModel.Model.Sources
import DialsModel.Model.ParseIO

namespace Dials.Tf
open Dials.Proto

def bkOf (s : String) : Option BK :=
  match s with
  | "b" => some .bool | "s" => some .str | "f32" => some .f32 | "f64" => some .f64 | "c64" => some .c64 | "c128" => some .c128
  | k => (Parse.kindOf k).map BK.int

def bkStr : BK → String
  | .bool => "b" | .str => "s" | .f32 => "f32" | .f64 => "f64" | .c64 => "c64" | .c128 => "c128"
  | .int k => match k with
    | .i8 => "i8" | .i16 => "i16" | .i32 => "i32" | .i64 => "i64" | .int => "int" | .u8 => "u8" | .u16 => "u16"
    | .u32 => "u32" | .u64 => "u64" | .uint => "uint" | .uintptr => "uintptr"

def hexStr (h : String) : Option String := (hexDecode h).map String.ofList
def strHex (s : String) : String := hexEnc s.toList

def parseTags : Nat → List String → Option (List (String × String) × List String)
  | 0, r => some ([], r)
  | n + 1, k :: v :: r => do
    let k ← hexStr k
    let v ← hexStr v
    let (rest, r') ← parseTags n r
    some ((k, v) :: rest, r')
  | _, _ => none

mutual
def parseTy : Nat → List String → Option (Ty × List String)
  | 0, _ => none
  | _ + 1, [] => none
  | fuel + 1, t :: rest =>
    if t == "D" then some (.dur, rest)
    else if t == "PD" then some (.pdur, rest)
    else if t == "P" then (parseTy fuel rest).map fun (e, r) => (.ptr e, r)
    else if t == "L" then (parseTy fuel rest).map fun (e, r) => (.slice e, r)
    else if t == "Z" then (parseTy fuel rest).map fun (e, r) => (.set e, r)
    else if t == "M" then
      match parseTy fuel rest with
      | some (k, r) => (parseTy fuel r).map fun (v, r') => (.map k v, r')
      | none => none
    else if t == "{" then (parseFields fuel rest).map fun (fs, r) => (.struct fs, r)
    else if t.startsWith "T" && (t.drop 1).toString.toNat?.isSome then some (.tu ((t.drop 1).toString.toNat?.getD 0), rest)
    else if t.startsWith "A" && (t.drop 1).toString.toNat?.isSome then
      (parseTy fuel rest).map fun (e, r) => (.array ((t.drop 1).toString.toNat?.getD 0) e, r)
    else if t.startsWith "N" then (bkOf (t.drop 1).toString).map fun k => (.basic k true, rest)
    else (bkOf t).map fun k => (.basic k false, rest)
def parseFields : Nat → List String → Option (Fields × List String)
  | 0, _ => none
  | _ + 1, [] => none
  | fuel + 1, t :: rest =>
    if t == "}" then some (.nil, rest)
    else
      match rest with
      | anon :: nt :: rest' =>
        match hexStr t, nt.toNat? with
        | some name, some n =>
          match parseTags n rest' with
          | some (tags, r) =>
            match parseTy fuel r with
            | some (ty, r') => (parseFields fuel r').map fun (fs, r'') => (.cons name tags (anon == "1") ty fs, r'')
            | none => none
          | none => none
        | _, _ => none
      | _ => none
end

def sortTags (tags : List (String × String)) : List (String × String) := tags.mergeSort (fun a b => a.1 ≤ b.1)

mutual
def tyToks : Ty → List String
  | .basic k named => [(if named then "N" else "") ++ bkStr k]
  | .dur => ["D"]
  | .pdur => ["PD"]
  | .tu n => [s!"T{n}"]
  | .ptr e => "P" :: tyToks e
  | .slice e => "L" :: tyToks e
  | .array n e => s!"A{n}" :: tyToks e
  | .map k v => "M" :: (tyToks k ++ tyToks v)
  | .set k => "Z" :: tyToks k
  | .struct fs => "{" :: fieldsToks fs
def fieldsToks : Fields → List String
  | .nil => ["}"]
  | .cons name tags anon t rest =>
    let tg := sortTags tags
    [strHex name, (if anon then "1" else "0"), toString tg.length] ++ (tg.flatMap fun p => [strHex p.1, strHex p.2]) ++ tyToks t ++ fieldsToks rest
end

def insertSortedStr (s : String) : List String → List String
  | [] => [s]
  | x :: xs => if s ≤ x then s :: x :: xs else x :: insertSortedStr s xs

/-- a set value is a list of members up to order and repetition: rendered sorted, without duplicates -/
def insertSetStr (s : String) : List String → List String
  | [] => [s]
  | x :: xs => if s == x then x :: xs else if s ≤ x then s :: x :: xs else x :: insertSetStr s xs

mutual
def valStr : Nat → Val → String
  | 0, _ => "?"
  | _ + 1, .nilv => "n"
  | _ + 1, .b x => if x then "b1" else "b0"
  | _ + 1, .i x => s!"i{x}"
  | _ + 1, .s x => "s" ++ strHex x
  | f + 1, .ptr v => "& " ++ valStr f v
  | f + 1, .list vs => "[ " ++ valsStr f vs ++ "]"
  | f + 1, .setv vs => "( " ++ String.join (((vs.map (valStr f)).foldr insertSetStr []).map (· ++ " ")) ++ ")"
  | f + 1, .mapv kvs => "< " ++ String.join (((kvs.map fun p => valStr f p.1 ++ " " ++ valStr f p.2).foldr insertSortedStr []).map (· ++ " ")) ++ ">"
  | f + 1, .struct vs => "{ " ++ valsStr f vs ++ "}"
def valsStr : Nat → List Val → String
  | 0, _ => ""
  | _ + 1, [] => ""
  | f + 1, v :: vs => valStr f v ++ " " ++ valsStr f vs
end

def pairVals : List Val → List (Val × Val)
  | k :: v :: r => (k, v) :: pairVals r
  | _ => []

mutual
def parseVal : Nat → List String → Option (Val × List String)
  | 0, _ => none
  | _ + 1, [] => none
  | fuel + 1, t :: rest =>
    if t == "n" then some (.nilv, rest)
    else if t == "b0" then some (.b false, rest)
    else if t == "b1" then some (.b true, rest)
    else if t == "&" then (parseVal fuel rest).map fun (v, r) => (.ptr v, r)
    else if t == "[" then (parseVals fuel "]" rest).map fun (vs, r) => (.list vs, r)
    else if t == "(" then (parseVals fuel ")" rest).map fun (vs, r) => (.setv vs, r)
    else if t == "{" then (parseVals fuel "}" rest).map fun (vs, r) => (.struct vs, r)
    else if t == "<" then (parseVals fuel ">" rest).map fun (vs, r) => (.mapv (pairVals vs), r)
    else if t.startsWith "i" then ((t.drop 1).toString.toInt?).map fun x => (.i x, rest)
    else if t.startsWith "s" then (hexStr (t.drop 1).toString).map fun x => (.s x, rest)
    else none
def parseVals : Nat → String → List String → Option (List Val × List String)
  | 0, _, _ => none
  | _ + 1, _, [] => none
  | fuel + 1, close, t :: rest =>
    if t == close then some ([], rest)
    else match parseVal fuel (t :: rest) with
      | some (v, r) => (parseVals fuel close r).map fun (vs, r') => (v :: vs, r')
      | none => none
end

def chainSpecs : String → Option (List (List String))
  | "chainEnv" => some Facts.chainEnv
  | "chainFlag" => some Facts.chainFlag
  | "chainPFlag" => some Facts.chainPFlag
  | "chainJSON" => some Facts.chainJSON
  | "chainTOML" => some Facts.chainTOML
  | "chainCue" => some Facts.chainCue
  | _ => none

/-- custom chains: `spec|spec|…` with `,`-separated words, e.g. `alias,dials|setslice` -/
def customSpecs (s : String) : List (List String) := (s.splitOn "|").map (·.splitOn ",")

def specsOf (name : String) : Option (List (List String)) :=
  match chainSpecs name with
  | some c => some c
  | none => if name.startsWith "custom:" then some (customSpecs (name.drop 7).toString) else none

structure EnvEntry where
  name : String
  val : String
  sliceToks : List Parse.Tok
  mapToks : List Parse.Tok

def takeToks : Nat → List String → Option (List Parse.Tok × List String)
  | 0, r => some ([], r)
  | n + 1, t :: r => do
    let tok ← Parse.parseTok t
    let (rest, r') ← takeToks n r
    some (tok :: rest, r')
  | _, [] => none

def parseEnvEntries : Nat → List String → Option (List EnvEntry)
  | 0, [] => some []
  | n + 1, "E" :: nm :: v :: k :: r => do
    let nm ← hexStr nm
    let v ← hexStr v
    let k ← k.toNat?
    let (st, r1) ← takeToks k r
    match r1 with
    | m :: r2 => do
      let m ← m.toNat?
      let (mt, r3) ← takeToks m r2
      let rest ← parseEnvEntries n r3
      some ({ name := nm, val := v, sliceToks := st, mapToks := mt } :: rest)
    | [] => none
  | _, _ => none

def tokTableOf (es : List EnvEntry) : TokTable := fun text =>
  match es.find? (·.val == text) with
  | some e => (e.sliceToks, e.mapToks)
  | none => ([.scanErr], [.scanErr])

def fuelFor (toks : List String) : Nat := 40 + toks.length

/-- a top-level field list `{ … }` -/
def parseTop (toks : List String) : Option (Fields × List String) :=
  match parseTy (toks.length + 1) toks with
  | some (.struct fs, r) => some (fs, r)
  | _ => none

def handleTf : List String → String
  | "translate" :: chain :: toks =>
    match specsOf chain, parseTop toks with
    | some specs, some (fs, []) =>
      match chainOfSpecs (fuelFor toks) (fun _ _ => .err "no parser") specs with
      | some ms =>
        match translate (fuelFor toks) ms fs.toList with
        | .ok r => "ok { " ++ " ".intercalate (fieldsToks (Fields.ofList r))
        | .err c => "err " ++ c
        | .panic c => "panic " ++ c
      | none => "bad-chain"
    | _, _ => "bad-op"
  | "env" :: chain :: pfx :: toks =>
    match specsOf chain, hexStr pfx, parseTop toks with
    | some specs, some pfx, some (fs, n :: rest) =>
      match n.toNat? with
      | some n =>
        match parseEnvEntries n rest with
        | some es =>
          let parse := parseString (tokTableOf es)
          match chainOfSpecs (fuelFor toks) parse specs with
          | some ms =>
            match envValue (fuelFor toks) ms pfx fs.toList (fun nm => (es.find? (·.name == nm)).map (·.val)) with
            | .ok vs => "ok " ++ valsStr 1000 vs
            | .err _ => "err"
            | .panic c => "panic " ++ c
          | none => "bad-chain"
        | none => "bad-env"
      | none => "bad-op"
    | _, _, _ => "bad-op"
  | "reverse" :: chain :: toks =>
    -- tf reverse <chain> <fields> { <val>* } <n> <env-style entries giving the scanner tokens of string fills>
    match specsOf chain, parseTop toks with
    | some specs, some (fs, r) =>
      match parseVal (r.length + 1) r with
      | some (.struct vals, n :: rest) =>
        match n.toNat? with
        | some n =>
          match parseEnvEntries n rest with
          | some es =>
            match chainOfSpecs (fuelFor toks) (parseString (tokTableOf es)) specs with
            | some ms =>
              match reverse (fuelFor toks) ms fs.toList vals with
              | .ok vs => "ok " ++ valsStr 1000 vs
              | .err _ => "err"
              | .panic c => "panic " ++ c
            | none => "bad-chain"
          | none => "bad-env"
        | none => "bad-op"
      | _ => "bad-val"
    | _, _ => "bad-op"
  | "envnames" :: chain :: pfx :: toks =>
    match specsOf chain, hexStr pfx, parseTop toks with
    | some specs, some pfx, some (fs, []) =>
      match chainOfSpecs (fuelFor toks) (fun _ _ => .err "no parser") specs with
      | some ms =>
        match envNames (fuelFor toks) ms pfx fs.toList with
        | .ok ns => "ok " ++ " ".intercalate (ns.map strHex)
        | .err _ => "err"
        | .panic c => "panic " ++ c
      | none => "bad-chain"
    | _, _, _ => "bad-op"
  | _ => "bad-op"

end Dials.Tf
