/-
Executable model of ONE iteration of `watchLoop` in sources/file/file.go (and of `Source.Value`, which
it calls), as a pure function of the loop's state and of what the iteration READ from the OS.

State kept by the code            | here
----------------------------------+---------------------------------------------------------------
`s.lastHMACSHA256`                | `lastSum : Option Bytes` — the checksum is modelled as the content
                                  |  itself (HMAC-SHA256 with a per-process key assumed injective)
`watchingFile`                    | `watchingFile`
`resolvedCfgPath`                 | `resolved`
fsnotify's path → watch table     | `watches` — the paths the loop has asked fsnotify to watch (ghost: the
                                  |  kernel additionally drops a watch by itself when its inode goes away)

What an iteration reads           | here
----------------------------------+---------------------------------------------------------------
`os.Open(s.path)` fails           | `Read.openErr isNotExist isSyscall` (os.IsNotExist(err) / dynamic type *os.SyscallError)
the decoder consumed bytes `b`    | `Read.content b`; the decoder is a parameter `dec : Bytes → Option V`
`filepath.EvalSymlinks`           | `Env.resolved : Option Path`
results of watcher.Add / Remove   | `Env.addFileOk / addDirOk / rmFileOk / rmDirOk`

The statement orders and classifications the model depends on are regenerated facts (F15*, Gen/Facts.lean).
Paths are clean absolute paths (`filepath.Clean` / `EvalSymlinks` results); `dirOf` is `filepath.Dir` on those.
-/
import DialsModel.Gen.Facts
import DialsModel.Model.Basic

namespace Dials.Watch

abbrev Bytes := List Char
abbrev Path := List Char

/-- `filepath.Dir` on a clean absolute path: everything before the last separator; "/" for a top-level name. -/
def dirOf (p : Path) : Path :=
  let r := (p.reverse.dropWhile (· ≠ '/')).drop 1
  if r.isEmpty then (if p.contains '/' then ['/'] else ['.']) else r.reverse

/-- `filepath.Join(dir, name)` for a clean absolute `dir` and a plain name. -/
def joinPath (dir : Path) (name : List Char) : Path :=
  if dir == ['/'] then '/' :: name else dir ++ '/' :: name

/-- What `Source.Value` read in one call. -/
inductive Read where
  /-- `os.Open` failed; `isNotExist` = `os.IsNotExist(err)`, `isSyscall` = the error is an `*os.SyscallError` -/
  | openErr (isNotExist isSyscall : Bool)
  /-- the file was opened and the decoder consumed exactly these bytes through the checksumming reader -/
  | content (b : Bytes)
deriving Repr, DecidableEq

/-- The (value, error) pair returned by `Source.Value`, by the dynamic type of the error. -/
inductive VRes (V : Type) where
  | ok (v : V)                                   -- nil error
  | unchanged                                    -- *unchangedCSumErr
  | decErr                                       -- *DecoderErr
  | openErr (isNotExist isSyscall : Bool)        -- the error of os.Open, returned as is
deriving Repr, DecidableEq

/-- `os.IsNotExist(parseErr)`: only an error of `os.Open` can satisfy it (`*DecoderErr` and
`*unchangedCSumErr` are not unwrapped by `os.IsNotExist`). -/
def VRes.isNotExist {V} : VRes V → Bool
  | .openErr ne _ => ne
  | _ => false

/-- `Source.Value`: new remembered checksum and result.  F15o: an open error returns at once.  F15a: the
decode-error exit comes before `lastHMACNew` (`fileDecodeErrBeforeChecksum`), so bytes that do not decode
leave the remembered checksum alone.  F15b/c: the checksum is stored unconditionally and the answer is
"unchanged" exactly when it equals the previous one. -/
def value {V} (dec : Bytes → Option V) (last : Option Bytes) : Read → Option Bytes × VRes V
  | .openErr ne sc => (last, .openErr ne sc)
  | .content b =>
    match dec b with
    | none => (if Facts.fileDecodeErrBeforeChecksum then last else some b, .decErr)
    | some v =>
      (some b, if decide (last = some b) == Facts.fileUnchangedWhenEqual then .unchanged else .ok v)

/-- Everything else one iteration learns from the OS. -/
structure Env where
  /-- `filepath.EvalSymlinks(cleanedPath)` (consulted only when the config exists) -/
  resolved : Option Path
  /-- `watcher.Remove(cleanedPath)` succeeded (consulted only when the file is missing and was watched) -/
  rmFileOk : Bool := true
  /-- `watcher.Add(cleanedPath)` succeeded (consulted only when the file is found and was not watched) -/
  addFileOk : Bool := true
  /-- `watcher.Add(newResolvedDir)` succeeded (consulted only when the resolved directory changed) -/
  addDirOk : Bool := true
  /-- `watcher.Remove(oldResolvedDir)` succeeded (consulted only after a successful add) -/
  rmDirOk : Bool := true
deriving Repr, DecidableEq

structure IterRead where
  val : Read
  env : Env
deriving Repr, DecidableEq

inductive ErrKind where
  | decoder   -- *DecoderErr
  | openE     -- the error of os.Open
deriving Repr, DecidableEq

/-- Externally visible effects of an iteration, in program order.  `addWatch`/`removeWatch` are the CALLS
with their results (a failed call is only logged by the code). -/
inductive Action (V : Type) where
  | report (v : V)                      -- args.ReportNewValue
  | reportErr (k : ErrKind)             -- args.ReportError
  | addWatch (p : Path) (ok : Bool)     -- ws.watcher.Add(p)
  | removeWatch (p : Path) (ok : Bool)  -- ws.watcher.Remove(p)
deriving Repr, DecidableEq

structure Cfg where
  /-- `filepath.Clean(ws.path)` -/
  cleaned : Path
deriving Repr, DecidableEq

structure WState where
  lastSum : Option Bytes
  watchingFile : Bool
  resolved : Path
  watches : List Path
deriving Repr, DecidableEq

/-- fsnotify's table after one call: a successful Add inserts the path, a failed one changes nothing,
Remove drops the path whether or not the kernel still knew the watch. -/
def applyWatch {V} (w : List Path) : Action V → List Path
  | .addWatch p true => if p ∈ w then w else w ++ [p]
  | .removeWatch p _ => w.filter (· ≠ p)
  | _ => w

def applyWatches {V} (w : List Path) (as : List (Action V)) : List Path := as.foldl applyWatch w

/-- The arm of `switch t := parseErr.(type)` (F15l: `watchArm*` codes: 0 nothing, 1 ReportNewValue,
2 ReportError, 3 ReportError unless the error is a not-exist error). -/
def armAction {V} (code : Nat) (v : Option V) (k : ErrKind) (isNotExist : Bool) : List (Action V) :=
  match code with
  | 1 => match v with
    | some v => [.report v]
    | none => []
  | 2 => [.reportErr k]
  | 3 => if isNotExist then [] else [.reportErr k]
  | _ => []

def classify {V} : VRes V → List (Action V)
  | .ok v => armAction Facts.watchArmNil (some v) .openE false
  | .unchanged => armAction Facts.watchArmUnchanged none .openE false
  | .decErr => armAction Facts.watchArmDefault none .decoder false
  | .openErr ne sc =>
    if sc then armAction Facts.watchArmSyscall none .openE ne else armAction Facts.watchArmDefault none .openE ne

/-- The "file is missing" branch (F15d/e): drop the file watch if it was held, report nothing. -/
def missingStep {V} (c : Cfg) (watchingFile : Bool) (e : Env) : Bool × List (Action V) :=
  if watchingFile && Facts.watchMissingRemovesFileWatch then (false, [.removeWatch c.cleaned e.rmFileOk])
  else (watchingFile, [])

/-- `if !watchingFile { if Add(cleanedPath) fails {log} else {watchingFile = true} }` -/
def fileWatchStep {V} (c : Cfg) (watchingFile : Bool) (e : Env) : Bool × List (Action V) :=
  if watchingFile then (true, []) else (e.addFileOk, [.addWatch c.cleaned e.addFileOk])

/-- `updateDirWatches(own, old, new)` (F15f1–4): nothing when the directory did not change; otherwise the new
directory's watch is added first; if that fails the old one is kept; the old one is removed unless it is the
config file's own directory `own = filepath.Dir(cleanedPath)`, which stays watched for as long as the loop runs. -/
def dirWatchStep {V} (own old new : Path) (e : Env) : List (Action V) :=
  if old = new && Facts.dirWatchSkipWhenEqual then []
  else if Facts.dirWatchAddBeforeRemove then
    (if e.addDirOk then
       (if old = own && Facts.dirWatchKeepsOwnDir then [.addWatch new true]
        else [.addWatch new true, .removeWatch old e.rmDirOk])
     else if Facts.dirWatchKeepOldOnAddErr then [.addWatch new false]
     else [.addWatch new false, .removeWatch old e.rmDirOk])
  else
    [.removeWatch old e.rmDirOk, .addWatch new e.addDirOk]

/-- The result of `updateDirWatches` (F15r): a watch on a new directory was added. -/
def newDirWatched (old new : Path) (e : Env) : Bool :=
  !(decide (old = new) && Facts.dirWatchSkipWhenEqual) && e.addDirOk

/-- The file was found by this read (anything but a not-exist error of `os.Open`). -/
def found : Read → Bool
  | .openErr true _ => false
  | _ => true

/-- One PASS through the loop body: from the label `REREAD` (`ws.Value(ctx, t)`) to the end of the report switch.
A wake-up of the select makes one pass, plus one more for every pass that added a watch on a new directory
(`rereadAfter`, `wake`). -/
def iter {V} (dec : Bytes → Option V) (c : Cfg) (s : WState) (r : IterRead) : WState × List (Action V) :=
  let vr := value dec s.lastSum r.val
  if vr.2.isNotExist && Facts.watchSkipsMissing then
    let m : Bool × List (Action V) := missingStep c s.watchingFile r.env
    ({ s with lastSum := vr.1, watchingFile := m.1, watches := applyWatches s.watches m.2 }, m.2)
  else
    let resolved' := r.env.resolved.getD s.resolved   -- kept when EvalSymlinks fails
    let f : Bool × List (Action V) := fileWatchStep c s.watchingFile r.env
    let d : List (Action V) := dirWatchStep (dirOf c.cleaned) (dirOf s.resolved) (dirOf resolved') r.env
    ({ lastSum := vr.1, watchingFile := f.1, resolved := resolved', watches := applyWatches s.watches (f.2 ++ d) },
     f.2 ++ d ++ classify vr.2)

/-- `if newDirWatched { goto REREAD }` (F15r): after this pass the loop reads the file again at once, without waiting
for a wake-up: the file was read before its new directory was watched, so a write in between produced no event. -/
def rereadAfter (_c : Cfg) (s : WState) (r : IterRead) : Bool :=
  Facts.watchRereadsAfterNewDirWatch && Facts.watchSkipsMissing && found r.val &&
    newDirWatched (dirOf s.resolved) (dirOf (r.env.resolved.getD s.resolved)) r.env

/-- One wake-up of the select: passes over the supplied reads until a pass does not ask for a re-read (or the supplied
reads are used up); returns the state, the actions and the reads that were not consumed. -/
def wake {V} (dec : Bytes → Option V) (c : Cfg) (s : WState) : List IterRead → WState × List (Action V) × List IterRead
  | [] => (s, [], [])
  | r :: rs =>
    let i := iter dec c s r
    if rereadAfter c s r then
      let k := wake dec c i.1 rs
      (k.1, i.2 ++ k.2.1, k.2.2)
    else (i.1, i.2, rs)

/-- A run of the loop over a finite history of reads (one per pass, however the passes are grouped into wake-ups);
the actions of all passes in order. -/
def run {V} (dec : Bytes → Option V) (c : Cfg) (s : WState) : List IterRead → WState × List (Action V)
  | [] => (s, [])
  | r :: rs =>
    let i := iter dec c s r
    let k := run dec c i.1 rs
    (k.1, i.2 ++ k.2)

/-- The state in which `Watch` starts the loop (F15w): the file, its directory and — when the path
resolves elsewhere — the directory of the resolved path are watched. -/
def watchInit (c : Cfg) (lastSum : Option Bytes) (resolved0 : Path) : WState :=
  { lastSum := lastSum, watchingFile := true, resolved := resolved0,
    watches := applyWatches (V := Unit) []
      ([.addWatch c.cleaned true, .addWatch (dirOf c.cleaned) true] ++
        (if c.cleaned ≠ resolved0 then [.addWatch (dirOf resolved0) true] else [])) }

/-- The reported values of an action list, oldest first. -/
def reports {V} : List (Action V) → List V
  | [] => []
  | .report v :: as => v :: reports as
  | _ :: as => reports as

/-- The value a consumer holds after these actions when it held `v0` before: the last reported one. -/
def lastReported {V} (v0 : V) (as : List (Action V)) : V := (reports as).getLast?.getD v0

def errorsReported {V} : List (Action V) → List ErrKind
  | [] => []
  | .reportErr k :: as => k :: errorsReported as
  | _ :: as => errorsReported as

/-- Does an fsnotify event with this name pass the loop's filter (F15g/F15k)? -/
def eventPasses (c : Cfg) (resolved : Path) (name : Path) : Bool :=
  Facts.watchEventFilterCodes.any fun code =>
    match code with
    | 0 => name == resolved
    | 1 => name == c.cleaned
    | 2 => name == dirOf c.cleaned
    | 3 => name == joinPath (dirOf c.cleaned) Facts.k8sIntermediateSymlinkDirChars
    | 4 => name == dirOf resolved
    | 5 => name == joinPath (dirOf c.cleaned) Facts.legacyIntermediateSymlinkDirChars
    | _ => false

/-- What can wake the loop's `select` (F15s). -/
inductive Wakeup where
  | tick                       -- the poll ticker
  | reload                     -- the Reload channel
  | event (name : Path)        -- an fsnotify event
  | error                      -- an fsnotify error (documented: the kernel's event queue overflowed, events were lost)
  | eventsClosed | errorsClosed  -- the watcher was closed under the loop
  | ctxDone
deriving Repr, DecidableEq

inductive SelectArm where
  | pass   -- falls through to `REREAD: ws.Value(...)`
  | skip   -- `continue MAINLOOP`: back to the select without reading
  | exit   -- `return` (the deferred Close / WG.Done run)
deriving Repr, DecidableEq

/-- The arm of the select taken for a wake-up (F15g filter, F15e2/F15e3 fall-through arms, F15i). -/
def selectArm (c : Cfg) (resolved : Path) : Wakeup → SelectArm
  | .tick | .reload => if Facts.watchTickReloadFallThrough then .pass else .skip
  | .event n => if eventPasses c resolved n then .pass else .skip
  | .error => if Facts.watchErrorsFallThrough then .pass else .skip
  | .eventsClosed | .errorsClosed => .exit
  | .ctxDone => if Facts.watchLoopReturnsOnCtxDone then .exit else .skip

/-- One turn of `MAINLOOP`: the select, then — if the arm falls through — a wake-up's passes over the supplied reads.
Returns the state, the actions, the reads not consumed and whether the loop goes on. -/
def loopTurn {V} (dec : Bytes → Option V) (c : Cfg) (s : WState) (w : Wakeup) (rs : List IterRead) :
    WState × List (Action V) × List IterRead × Bool :=
  match selectArm c s.resolved w with
  | .pass => let k := wake dec c s rs; (k.1, k.2.1, k.2.2, true)
  | .skip => (s, [], rs, true)
  | .exit => (s, [], rs, false)

end Dials.Watch
