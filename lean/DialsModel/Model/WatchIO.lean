/-
Text protocol for the watch-loop model (C17).  Values are identified with the bytes they were decoded
from (`V := Bytes`, `dec b = some b` when the harness says the content decodes).

  wt value <last> <read> <decok>                                  → ok <last'> <res>
  wt init  <cleaned> <last> <resolved0>                           → ok <last> <wf> <resolved> <watches>
  wt iter  <cleaned> <last> <wf> <resolved> <watches> <read> <decok> <envres> <flags>
                                                                  → ok <last> <wf> <resolved> <watches> <actions> <reread 0/1>
  wt pass  <cleaned> <resolved> <name>                            → ok 0|1
  wt arm   <cleaned> <resolved> <wake>                            → ok pass|skip|exit     wake ::= T | L | X | D | N<hex name>

  last, envres ::= N | S<hex>        read ::= E<notExist 0/1><syscall 0/1> | C<hex>
  wf, decok ::= 0 | 1                flags ::= <rmFileOk><addFileOk><addDirOk><rmDirOk> (0/1 each)
  watches ::= hex list (Proto)       res ::= ok | unchanged | decerr | openerr<ne><sc>
  actions ::= . | comma-separated  R<hex> | Ed | Eo | A<ok><hex> | D<ok><hex>
-/
import DialsModel.Model.Watch
import DialsModel.Model.Proto

namespace Dials.Watch
open Dials.Proto

def bit? : Char → Option Bool
  | '0' => some false
  | '1' => some true
  | _ => none

def bitS (b : Bool) : String := if b then "1" else "0"

def parseOptBytes (t : String) : Option (Option Bytes) :=
  match t.toList with
  | ['N'] => some none
  | 'S' :: rest => (hexDecode (String.ofList rest)).map some
  | _ => none

def optBytesS : Option Bytes → String
  | none => "N"
  | some b => "S" ++ hexEnc b

def parseRead (t : String) : Option Read :=
  match t.toList with
  | ['E', a, b] => do
    let ne ← bit? a
    let sc ← bit? b
    pure (.openErr ne sc)
  | 'C' :: rest => (hexDecode (String.ofList rest)).map .content
  | _ => none

def parseBit (t : String) : Option Bool :=
  match t.toList with
  | [c] => bit? c
  | _ => none

def parseEnv (res flags : String) : Option Env := do
  let r ← parseOptBytes res
  match flags.toList with
  | [a, b, c, d] =>
    let rf ← bit? a
    let af ← bit? b
    let ad ← bit? c
    let rd ← bit? d
    pure { resolved := r, rmFileOk := rf, addFileOk := af, addDirOk := ad, rmDirOk := rd }
  | _ => none

def actionS : Action Bytes → String
  | .report v => "R" ++ hexEnc v
  | .reportErr .decoder => "Ed"
  | .reportErr .openE => "Eo"
  | .addWatch p ok => "A" ++ bitS ok ++ hexEnc p
  | .removeWatch p ok => "D" ++ bitS ok ++ hexEnc p

def actionsS (as : List (Action Bytes)) : String :=
  if as.isEmpty then "." else String.intercalate "," (as.map actionS)

def stateS (s : WState) : String :=
  optBytesS s.lastSum ++ " " ++ bitS s.watchingFile ++ " " ++ hexEnc s.resolved ++ " " ++ hexListEnc s.watches

def resS : VRes Bytes → String
  | .ok _ => "ok"
  | .unchanged => "unchanged"
  | .decErr => "decerr"
  | .openErr ne sc => "openerr" ++ bitS ne ++ bitS sc

def decOf (ok : Bool) : Bytes → Option Bytes := fun b => if ok then some b else none

def handleWt : List String → String
  | ["value", last, read, decok] =>
    match parseOptBytes last, parseRead read, parseBit decok with
    | some l, some r, some d =>
      let v := value (decOf d) l r
      "ok " ++ optBytesS v.1 ++ " " ++ resS v.2
    | _, _, _ => "bad-op"
  | ["init", cleaned, last, res0] =>
    match hexDecode cleaned, parseOptBytes last, hexDecode res0 with
    | some c, some l, some p => "ok " ++ stateS (watchInit ⟨c⟩ l p)
    | _, _, _ => "bad-op"
  | ["iter", cleaned, last, wf, resolved, watches, read, decok, envres, flags] =>
    match hexDecode cleaned, parseOptBytes last, parseBit wf, hexDecode resolved, hexListDecode watches,
          parseRead read, parseBit decok, parseEnv envres flags with
    | some c, some l, some w, some p, some ws, some r, some d, some e =>
      let s : WState := { lastSum := l, watchingFile := w, resolved := p, watches := ws }
      let o := iter (decOf d) ⟨c⟩ s ⟨r, e⟩
      "ok " ++ stateS o.1 ++ " " ++ actionsS o.2 ++ " " ++ bitS (rereadAfter ⟨c⟩ s ⟨r, e⟩)
    | _, _, _, _, _, _, _, _ => "bad-op"
  | ["pass", cleaned, resolved, name] =>
    match hexDecode cleaned, hexDecode resolved, hexDecode name with
    | some c, some p, some n => "ok " ++ bitS (eventPasses ⟨c⟩ p n)
    | _, _, _ => "bad-op"
  | ["arm", cleaned, resolved, wake] =>
    let w? : Option Wakeup := match wake.toList with
      | ['T'] => some .tick
      | ['L'] => some .reload
      | ['X'] => some .error
      | ['D'] => some .ctxDone
      | 'N' :: rest => (hexDecode (String.ofList rest)).map .event
      | _ => none
    match hexDecode cleaned, hexDecode resolved, w? with
    | some c, some p, some w =>
      match selectArm ⟨c⟩ p w with
      | .pass => "ok pass"
      | .skip => "ok skip"
      | .exit => "ok exit"
    | _, _, _ => "bad-op"
  | _ => "bad-op"

end Dials.Watch
