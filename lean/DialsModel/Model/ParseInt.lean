/-
Executable model of strconv.ParseInt / ParseUint with base 0 (sign, 0b/0o/0x/0 prefixes, `_`
separators per the Go rules, range check for a bit size), of strconv.FormatInt(·, 10), of
`parseNumber` for the integer kinds (/repo/parse/number.go: parse with 64 bits, then
OverflowInt/OverflowUint for the concrete width) and of the integral-slice parsers
(/repo/parse/integral_slice.go: split on ',', TrimSpace, parse with the element's bit size).

Values are unbounded `Nat`/`Int`; "never wrapped, truncated or saturated" is the statement that a
result, when there is one, is this mathematical value and lies in the target range.
Strings are ASCII `List Char`.
-/
import DialsModel.Model.Basic
import DialsModel.Gen.Facts

namespace Dials.Parse

abbrev Str := List Char

/-- value of a digit character in bases up to 36 (strconv: '0'-'9', 'a'-'z', 'A'-'Z') -/
def digitVal (c : Char) : Option Nat :=
  if isDigitA c then some (c.toNat - 48)
  else if isLowerA c then some (c.toNat - 97 + 10)
  else if isUpperA c then some (c.toNat - 65 + 10)
  else none

def isB (c : Char) : Bool := c == 'b' || c == 'B'
def isO (c : Char) : Bool := c == 'o' || c == 'O'
def isX (c : Char) : Bool := c == 'x' || c == 'X'

/-- base-0 prefix detection of ParseUint: (base, remaining digits) -/
def splitPrefix : Str → Nat × Str
  | '0' :: c :: d :: rest =>
    if isB c then (2, d :: rest) else if isO c then (8, d :: rest) else if isX c then (16, d :: rest)
    else (8, c :: d :: rest)
  | '0' :: rest => (8, rest)
  | s => (10, s)

/-- the digit loop: accumulates the value, skips underscores (reporting whether one was seen) -/
def digitsLoop (base : Nat) : Str → Nat → Bool → Option (Nat × Bool)
  | [], n, us => some (n, us)
  | c :: cs, n, us =>
    if c == '_' then digitsLoop base cs n true
    else match digitVal c with
      | some d => if d < base then digitsLoop base cs (n * base + d) us else none
      | none => none

/-- strconv.underscoreOK on the unsigned text: '^' start, '0' digit or prefix, '_' underscore, '!' other -/
def usLoop (hex : Bool) : Str → Char → Bool
  | [], i => i != '_'
  | c :: cs, i =>
    if isDigitA c || (hex && (('a' ≤ c ∧ c ≤ 'f') || ('A' ≤ c ∧ c ≤ 'F'))) then usLoop hex cs '0'
    else if c == '_' then (if i != '0' then false else usLoop hex cs '_')
    else if i == '_' then false
    else usLoop hex cs '!'

def underscoreOK (s : Str) : Bool :=
  let s := match s with
    | '-' :: r => r
    | '+' :: r => r
    | r => r
  match s with
  | '0' :: c :: rest => if isB c || isO c || isX c then usLoop (isX c) rest '0' else usLoop false s '^'
  | _ => usLoop false s '^'

/-- ParseUint(s, 0, ·) without the range check: the mathematical value, `none` = syntax error -/
def parseUintLit (s : Str) : Option Nat :=
  if s.isEmpty then none
  else
    let (base, body) := splitPrefix s
    match digitsLoop base body 0 false with
    | some (n, us) => if us && !underscoreOK s then none else some n
    | none => none

/-- ParseInt(s, 0, ·) without the range check -/
def parseIntLit (s : Str) : Option Int :=
  match s with
  | [] => none
  | '+' :: r => (parseUintLit r).map Int.ofNat
  | '-' :: r => (parseUintLit r).map fun n => -(Int.ofNat n)
  | r => (parseUintLit r).map Int.ofNat

/-- strconv.ParseUint(s, 0, bits) -/
def parseUint (bits : Nat) (s : Str) : Option Nat :=
  match parseUintLit s with
  | some n => if n < 2 ^ bits then some n else none
  | none => none

/-- strconv.ParseInt(s, 0, bits) -/
def parseInt (bits : Nat) (s : Str) : Option Int :=
  match parseIntLit s with
  | some v => if -(2 ^ (bits - 1) : Int) ≤ v ∧ v < (2 ^ (bits - 1) : Int) then some v else none
  | none => none

/-! ### integer kinds -/

inductive IntKind where
  | i8 | i16 | i32 | i64 | int | u8 | u16 | u32 | u64 | uint | uintptr
deriving Repr, DecidableEq, Inhabited

def IntKind.signed : IntKind → Bool
  | .i8 | .i16 | .i32 | .i64 | .int => true
  | _ => false

def IntKind.bits : IntKind → Nat
  | .i8 | .u8 => 8
  | .i16 | .u16 => 16
  | .i32 | .u32 => 32
  | _ => 64

def IntKind.inRange (k : IntKind) (v : Int) : Bool :=
  if k.signed then decide (-(2 ^ (k.bits - 1) : Int) ≤ v ∧ v < (2 ^ (k.bits - 1) : Int))
  else decide (0 ≤ v ∧ v < (2 ^ k.bits : Int))

/-- `parseNumber` for an integer kind: parse with `Facts.parseIntBits` (= 64) bits, then the
Overflow check of the concrete width. -/
def parseNumber (k : IntKind) (s : Str) : Outcome Int :=
  if k.signed then
    match parseInt Facts.parseNumberBits s with
    | some v => if k.inRange v then .ok v else .err "overflow"
    | none => .err "number"
  else
    match parseUint Facts.parseNumberBits s with
    | some n => if k.inRange (Int.ofNat n) then .ok (Int.ofNat n) else .err "overflow"
    | none => .err "number"

/-! ### FormatInt / FormatUint base 10 -/

def natDigits : Nat → Nat → Str → Str
  | 0, _, acc => acc
  | fuel + 1, n, acc =>
    let acc := Char.ofNat (48 + n % 10) :: acc
    if n / 10 = 0 then acc else natDigits fuel (n / 10) acc

def formatNat (n : Nat) : Str := natDigits (n + 1) n []

def formatInt (v : Int) : Str :=
  if v < 0 then '-' :: formatNat v.natAbs else formatNat v.natAbs

/-! ### integral slices -/

def isSpaceA (c : Char) : Bool :=
  c == ' ' || c == '\t' || c == '\n' || c.toNat == 11 || c.toNat == 12 || c == '\r'

def trimLeft : Str → Str
  | [] => []
  | c :: cs => if isSpaceA c then trimLeft cs else c :: cs

def trimSpace (s : Str) : Str := (trimLeft (trimLeft s).reverse).reverse

/-- strings.Split(s, ",") -/
def splitComma : Str → Str → List Str
  | [], cur => [cur]
  | c :: cs, cur => if c == ',' then cur :: splitComma cs [] else splitComma cs (cur ++ [c])

/-- SignedIntegralSlice / UnsignedIntegralSlice for element kind k -/
def parseIntSlice (k : IntKind) (s : Str) : Outcome (List Int) :=
  if Facts.intSliceEmptyOk && s.isEmpty then .ok []
  else
    (splitComma s []).foldr (fun p acc =>
      match acc with
      | .ok vs =>
        let t := trimSpace p
        if k.signed then
          match parseInt k.bits t with
          | some v => .ok (v :: vs)
          | none => .err "element"
        else
          match parseUint k.bits t with
          | some n => .ok (Int.ofNat n :: vs)
          | none => .err "element"
      | e => e) (.ok [])

def joinComma : List Str → Str
  | [] => []
  | [w] => w
  | w :: ws => w ++ ',' :: joinComma ws

end Dials.Parse
