/-
Text protocol for the decoder model (space-separated tokens; strings are hex-encoded byte strings).

  ty    ::= b | i<bits> | u<bits> | f | s | D | PD | Tt | Ti | L ty | M ty | S | P ty | { field* }
  field ::= F <hexname> a|n <ntags> (<hexkey> <hexval>)* ty
  doc   ::= s:<hex> | i:<int> | B0 | B1 | f:<hex> | t:<hex> | [ doc* ] | { (<hexkey> doc)* }
  val   ::= - | B0 | B1 | i:<int> | f:<hex> | s:<hex> | d:<int> | x:<hex> | [ val* ] ]
          | m{ (<hexkey> val)* } | S{ <hexkey>* } | & val | ( val* )
  ext   ::= E entry* .      entry ::= pd <hex> <int> | dt <int> <hex> | pt t|i <hex> <hexcanon> | tm <hex> <hexcanon> | di <int>
  kty   ::= like ty, fields as  K <hexkey> a|n kty

  dc dec <fmt> <flatten 0/1> <wrap 0/1> ty doc ext      → ok val | err | panic        (maps and sets printed sorted)
  dc render <fmt> <wrap 0/1> ty val ext                 → ok doc
  dc view <fmt> <flatten 0/1> <wrap 0/1> ty             → ok kty      (what the library sees after translation)
  dc kview <fmt> <wrap 0/1> ty                          → ok kty      (the rule of the property)
-/
import DialsModel.Model.Decode
import DialsModel.Model.Proto

namespace Dials.Decode
open Dials.Proto

def strOfHex (h : String) : Option String := (hexDecode h).map String.ofList
def hexOfStr (s : String) : String := hexEnc s.toList

def fmtOf : String → Option Fmt
  | "json" => some .json
  | "yaml" => some .yaml
  | "toml" => some .toml
  | "cue" => some .cue
  | _ => none

def parseTags : Nat → List String → Option (Tags × List String)
  | 0, r => some ([], r)
  | n + 1, k :: v :: r =>
    match strOfHex k, strOfHex v, parseTags n r with
    | some k, some v, some (ts, r') => some ((k, v) :: ts, r')
    | _, _, _ => none
  | _ + 1, _ => none

mutual
def parseTy : Nat → List String → Option (Ty × List String)
  | 0, _ => none
  | _ + 1, [] => none
  | fuel + 1, t :: rest =>
    if t == "b" then some (.scalar .bool, rest)
    else if t == "f" then some (.scalar .float, rest)
    else if t == "s" then some (.scalar .str, rest)
    else if t == "D" then some (.dur, rest)
    else if t == "PD" then some (.pdur, rest)
    else if t == "Tt" then some (.text .time, rest)
    else if t == "Ti" then some (.text .ip, rest)
    else if t == "S" then some (.set, rest)
    else if t == "L" then (parseTy fuel rest).map fun (e, r) => (.slice e, r)
    else if t == "M" then (parseTy fuel rest).map fun (e, r) => (.map e, r)
    else if t == "P" then (parseTy fuel rest).map fun (e, r) => (.ptr e, r)
    else if t == "{" then (parseFields fuel rest).map fun (fs, r) => (.struct fs, r)
    else if t.startsWith "i" then ((t.drop 1).toNat?).map fun n => (.scalar (.int n), rest)
    else if t.startsWith "u" then ((t.drop 1).toNat?).map fun n => (.scalar (.uint n), rest)
    else none
def parseFields : Nat → List String → Option (Fields × List String)
  | 0, _ => none
  | _ + 1, [] => none
  | fuel + 1, t :: rest =>
    if t == "}" then some (.nil, rest)
    else if t == "F" then
      match rest with
      | hn :: an :: nt :: r1 =>
        match strOfHex hn, nt.toNat? with
        | some name, some n =>
          match parseTags n r1 with
          | some (tags, r2) =>
            match parseTy fuel r2 with
            | some (ty, r3) =>
              match parseFields fuel r3 with
              | some (fs, r4) => some (.cons name (an == "a") tags ty fs, r4)
              | none => none
            | none => none
          | none => none
        | _, _ => none
      | _ => none
    else none
end

def parseScalarTok (t : String) : Option Scalar :=
  if t == "B0" then some (.bool false)
  else if t == "B1" then some (.bool true)
  else if t.startsWith "s:" then (strOfHex (t.drop 2).toString).map .str
  else if t.startsWith "f:" then (strOfHex (t.drop 2).toString).map .float
  else if t.startsWith "t:" then (strOfHex (t.drop 2).toString).map .time
  else if t.startsWith "i:" then ((t.drop 2).toString.toInt?).map .int
  else none

mutual
def parseDoc : Nat → List String → Option (Doc × List String)
  | 0, _ => none
  | _ + 1, [] => none
  | fuel + 1, t :: rest =>
    if t == "[" then (parseDocs fuel rest).map fun (ds, r) => (.list ds, r)
    else if t == "{" then (parseKDocs fuel rest).map fun (kvs, r) => (.map kvs, r)
    else (parseScalarTok t).map fun s => (.sc s, rest)
def parseDocs : Nat → List String → Option (List Doc × List String)
  | 0, _ => none
  | _ + 1, [] => none
  | fuel + 1, t :: rest =>
    if t == "]" then some ([], rest)
    else match parseDoc fuel (t :: rest) with
      | some (d, r) => (parseDocs fuel r).map fun (ds, r') => (d :: ds, r')
      | none => none
def parseKDocs : Nat → List String → Option (List (String × Doc) × List String)
  | 0, _ => none
  | _ + 1, [] => none
  | fuel + 1, t :: rest =>
    if t == "}" then some ([], rest)
    else match strOfHex t, parseDoc fuel rest with
      | some k, some (d, r) => (parseKDocs fuel r).map fun (kvs, r') => ((k, d) :: kvs, r')
      | _, _ => none
end

def parseStrs : Nat → List String → Option (List String × List String)
  | 0, _ => none
  | _ + 1, [] => none
  | fuel + 1, t :: rest =>
    if t == "}" then some ([], rest)
    else match strOfHex t, parseStrs fuel rest with
      | some k, some (ks, r) => some (k :: ks, r)
      | _, _ => none

mutual
def parseVal : Nat → List String → Option (Val × List String)
  | 0, _ => none
  | _ + 1, [] => none
  | fuel + 1, t :: rest =>
    if t == "-" then some (.nil, rest)
    else if t == "B0" then some (.bool false, rest)
    else if t == "B1" then some (.bool true, rest)
    else if t == "[" then (parseVals fuel "]" rest).map fun (vs, r) => (.list vs, r)
    else if t == "(" then (parseVals fuel ")" rest).map fun (vs, r) => (.struct vs, r)
    else if t == "m{" then (parseKVals fuel rest).map fun (kvs, r) => (.map kvs, r)
    else if t == "S{" then (parseStrs fuel rest).map fun (ks, r) => (.set ks, r)
    else if t == "&" then (parseVal fuel rest).map fun (v, r) => (.ptr v, r)
    else if t.startsWith "s:" then (strOfHex (t.drop 2).toString).map fun s => (.str s, rest)
    else if t.startsWith "f:" then (strOfHex (t.drop 2).toString).map fun s => (.float s, rest)
    else if t.startsWith "x:" then (strOfHex (t.drop 2).toString).map fun s => (.text s, rest)
    else if t.startsWith "i:" then ((t.drop 2).toString.toInt?).map fun i => (.int i, rest)
    else if t.startsWith "d:" then ((t.drop 2).toString.toInt?).map fun i => (.dur i, rest)
    else none
def parseVals : Nat → String → List String → Option (List Val × List String)
  | 0, _, _ => none
  | _ + 1, _, [] => none
  | fuel + 1, close, t :: rest =>
    if t == close then some ([], rest)
    else match parseVal fuel (t :: rest) with
      | some (v, r) => (parseVals fuel close r).map fun (vs, r') => (v :: vs, r')
      | none => none
def parseKVals : Nat → List String → Option (List (String × Val) × List String)
  | 0, _ => none
  | _ + 1, [] => none
  | fuel + 1, t :: rest =>
    if t == "}" then some ([], rest)
    else match strOfHex t, parseVal fuel rest with
      | some k, some (v, r) => (parseKVals fuel r).map fun (kvs, r') => ((k, v) :: kvs, r')
      | _, _ => none
end

structure ExtTab where
  pd : List (String × Int) := []
  dt : List (Int × String) := []
  pt : List ((TK × String) × String) := []
  tm : List (String × String) := []
  di : List Int := []

def ExtTab.ext (x : ExtTab) : Ext where
  parseDur s := x.pd.lookup s
  durText n := (x.dt.lookup n).getD "?"
  parseText k s := x.pt.lookup (k, s)
  parseTime s := x.tm.lookup s

def parseExtEntries : Nat → ExtTab → List String → Option (ExtTab × List String)
  | 0, _, _ => none
  | _ + 1, _, [] => none
  | fuel + 1, x, t :: rest =>
    if t == "." then some (x, rest)
    else match t, rest with
      | "pd", h :: n :: r =>
        match strOfHex h, n.toInt? with
        | some s, some i => parseExtEntries fuel { x with pd := (s, i) :: x.pd } r
        | _, _ => none
      | "dt", n :: h :: r =>
        match n.toInt?, strOfHex h with
        | some i, some s => parseExtEntries fuel { x with dt := (i, s) :: x.dt } r
        | _, _ => none
      | "pt", k :: h :: c :: r =>
        match strOfHex h, strOfHex c with
        | some s, some cs => parseExtEntries fuel { x with pt := ((if k == "t" then TK.time else TK.ip, s), cs) :: x.pt } r
        | _, _ => none
      | "tm", h :: c :: r =>
        match strOfHex h, strOfHex c with
        | some s, some cs => parseExtEntries fuel { x with tm := (s, cs) :: x.tm } r
        | _, _ => none
      | "di", n :: r =>
        match n.toInt? with
        | some i => parseExtEntries fuel { x with di := i :: x.di } r
        | none => none
      | _, _ => none

def parseExt : List String → Option (ExtTab × List String)
  | "E" :: rest => parseExtEntries (rest.length + 1) {} rest
  | _ => none

/-! printing -/

def scalarTok : Scalar → String
  | .str s => "s:" ++ hexOfStr s
  | .int i => s!"i:{i}"
  | .bool b => if b then "B1" else "B0"
  | .float r => "f:" ++ hexOfStr r
  | .time s => "t:" ++ hexOfStr s

def Doc.toks : Doc → List String
  | .sc s => [scalarTok s]
  | .list ds => "[" :: toksL ds
  | .map kvs => "{" :: toksM kvs
where
  toksL : List Doc → List String
    | [] => ["]"]
    | d :: r => d.toks ++ toksL r
  toksM : List (String × Doc) → List String
    | [] => ["}"]
    | (k, d) :: r => hexOfStr k :: (d.toks ++ toksM r)

def sortStrs (ks : List String) : List String := ks.mergeSort (fun a b => decide (a ≤ b))

/-- insertion of a pair by key (stable): canonical order of map entries -/
def insertKV {α} (k : String) (v : α) : List (String × α) → List (String × α)
  | [] => [(k, v)]
  | (k', v') :: r => if k < k' then (k, v) :: (k', v') :: r else (k', v') :: insertKV k v r

def sortKV {α} : List (String × α) → List (String × α)
  | [] => []
  | (k, v) :: r => insertKV k v (sortKV r)

def Val.toks : Val → List String
  | .nil => ["-"]
  | .bool b => [if b then "B1" else "B0"]
  | .int i => [s!"i:{i}"]
  | .float r => ["f:" ++ hexOfStr r]
  | .str s => ["s:" ++ hexOfStr s]
  | .dur n => [s!"d:{n}"]
  | .text s => ["x:" ++ hexOfStr s]
  | .list vs => "[" :: toksL vs ++ ["]"]
  | .map kvs => "m{" :: (sortKV (toksM kvs)).flatMap (fun kt => hexOfStr kt.1 :: kt.2) ++ ["}"]
  | .set ks => "S{" :: (sortStrs ks).map hexOfStr ++ ["}"]
  | .ptr v => "&" :: v.toks
  | .struct vs => "(" :: toksL vs ++ [")"]
where
  toksL : List Val → List String
    | [] => []
    | v :: r => v.toks ++ toksL r
  toksM : List (String × Val) → List (String × List String)
    | [] => []
    | (k, v) :: r => (k, v.toks) :: toksM r

def skTok : SK → String
  | .bool => "b"
  | .int n => s!"i{n}"
  | .uint n => s!"u{n}"
  | .float => "f"
  | .str => "s"

mutual
def ktyToks : KTy → List String
  | .scalar k => [skTok k]
  | .dur => ["D"]
  | .pdur => ["PD"]
  | .text .time => ["Tt"]
  | .text .ip => ["Ti"]
  | .slice e => "L" :: ktyToks e
  | .map e => "M" :: ktyToks e
  | .set => ["S"]
  | .ptr e => "P" :: ktyToks e
  | .struct fs => "{" :: kfieldsToks fs
def kfieldsToks : KFields → List String
  | .nil => ["}"]
  | .cons key a t r => "K" :: hexOfStr key :: (if a then "a" else "n") :: (ktyToks t ++ kfieldsToks r)
end

def join (ts : List String) : String := String.intercalate " " ts

def outVal : Outcome Val → String
  | .ok v => "ok " ++ join v.toks
  | .err _ => "err"
  | .panic _ => "panic"

def handleDc : List String → String
  | "dec" :: f :: fl :: w :: toks =>
    match fmtOf f, parseTy (toks.length + 1) toks with
    | some fmt, some (T, r1) =>
      match parseDoc (r1.length + 1) r1 with
      | some (d, r2) =>
        match parseExt r2 with
        | some (x, []) => outVal (decode fmt (fl == "1") (w == "1") (refLib x.ext fmt) T d)
        | _ => "bad-op"
      | none => "bad-op"
    | _, _ => "bad-op"
  | "render" :: f :: w :: toks =>
    match fmtOf f, parseTy (toks.length + 1) toks with
    | some fmt, some (T, r1) =>
      match parseVal (r1.length + 1) r1 with
      | some (v, r2) =>
        match parseExt r2 with
        | some (x, []) => "ok " ++ join (render x.ext fmt (w == "1") (fun n => x.di.contains n) T v).toks
        | _ => "bad-op"
      | none => "bad-op"
    | _, _ => "bad-op"
  | "view" :: f :: fl :: w :: toks =>
    match fmtOf f, parseTy (toks.length + 1) toks with
    | some fmt, some (T, []) =>
      "ok " ++ join (ktyToks (view fmt.libTag (translate (chainOf fmt (fl == "1")) (translate (wrapChain (w == "1")) T))))
    | _, _ => "bad-op"
  | "kview" :: f :: w :: toks =>
    match fmtOf f, parseTy (toks.length + 1) toks with
    | some fmt, some (T, []) => "ok " ++ join (ktyToks (kview fmt (w == "1") T))
    | _, _ => "bad-op"
  | _ => "bad-op"

end Dials.Decode
