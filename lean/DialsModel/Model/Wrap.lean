/-
Models of the source wrappers in /repo/sourcewrap (C20).

(a) `transformingSourceNoWatch.Value`, `transformingDecoder.Decode`, `transformingSourceWithWatch.Watch`
    and `wrappedWatchArgs` (transforming_source.go) over an ABSTRACT transformer
    (`translate : Ty → Outcome Ty'`, `reverse : Ty → Val' → Outcome Val`: what
    `transform.Transformer.TranslateType` / `ReverseTranslate` do for the mangler list is not
    looked into here; C10 is about that).  Which errors are returned, with which prefix, and which
    `WatchArgs` methods the wrapper overrides come from the regenerated facts F16*.
(b) `sourcewrap.Blank` (blank.go) as a state machine with the operations `Value`, `Watch`,
    `SetSource`, `Done`; statement order and guards from the regenerated facts F18*.
-/
import DialsModel.Gen.Facts
import DialsModel.Model.Basic

namespace Dials.Wrap

/-! ## (a) transforming wrappers -/

/-- The transformer `transform.NewTransformer(typ, manglers...)` of one mangler list, abstractly:
`translate T` is `tfm.TranslateType()` for `typ = T`; `reverse T v'` is `tfm.ReverseTranslate(v')`
of the transformer that was built for `T`. -/
structure Xf (Ty Ty' Val Val' : Type) where
  translate : Ty → Outcome Ty'
  reverse : Ty → Val' → Outcome Val

/-- `x, err := call; if err != nil { return zero, wrap(err) }; rest`.
`rule = some p`: the error is returned with prefix `p` (`&wrappedErr{prefix: p, err: err}` or
`fmt.Errorf(p+"%w", err)`; `p = ""`: returned as is).  `rule = none`: the code does not return the
error, so it goes on with the zero value.  A Go panic of the callee unwinds through the wrapper. -/
def guard {α β : Type} [Inhabited α] (rule : Option String) (x : Outcome α) (rest : α → Outcome β) : Outcome β :=
  match x with
  | .ok a => rest a
  | .panic c => .panic c
  | .err c =>
    match rule with
    | some p => .err (p ++ c)
    | none => rest default

/-- treatment of the three possible errors of a `Value` / `Decode` call -/
structure Rules where
  translate : Option String
  inner : Option String
  reverse : Option String
deriving Repr

def srcRules : Rules := ⟨Facts.wrapValueTranslateErr, Facts.wrapValueInnerErr, Facts.wrapValueReverseErr⟩
def decRules : Rules := ⟨Facts.wrapDecodeTranslateErr, Facts.wrapDecodeInnerErr, Facts.wrapDecodeReverseErr⟩

section
variable {Ty Ty' Val Val' : Type} [Inhabited Ty'] [Inhabited Val'] [Inhabited Val]

/-- `transformingSourceNoWatch.Value(ctx, T)` (with `R = srcRules`, `inner = t.src.Value(ctx, ·)`) and
`transformingDecoder.Decode(reader, T)` (with `R = decRules`, `inner = t.inner.Decode(reader, ·)`):
translate the type, ask the inner source/decoder for a value of the TRANSLATED type, reverse-translate
the answer. -/
def wrappedValue (R : Rules) (X : Xf Ty Ty' Val Val') (inner : Ty' → Outcome Val') (T : Ty) : Outcome Val :=
  guard R.translate (X.translate T) fun T' =>
  guard R.inner (inner T') fun v' =>
  guard R.reverse (X.reverse T v') fun v => .ok v

/-- `transformingSourceWithWatch.Watch(ctx, T, args)`: translate the type, call the inner watcher's
`Watch` with the translated type (and the wrapping args, fact F16e). -/
def wrappedWatch (X : Xf Ty Ty' Val Val') (innerWatch : Ty' → Outcome Unit) (T : Ty) : Outcome Unit :=
  guard Facts.wrapWatchTranslateErr (X.translate T) fun T' =>
  guard Facts.wrapWatchInnerErr (innerWatch T') fun _ => .ok ()

/-- `NewTransformingSource(src, …)` implements `dials.Watcher` iff … -/
def wrappedIsWatcher (innerIsWatcher : Bool) : Bool := Facts.wrapKeepsWatcher && innerIsWatcher

/-- A call made by the inner watcher on the `WatchArgs` it was given. -/
inductive Call (Val' : Type) where
  | report (blocking : Bool) (v' : Val')   -- ReportNewValue / BlockingReportNewValue
  | done
  | reportError (e : String)
deriving Repr, DecidableEq

/-- What reaches the underlying `WatchArgs` (dials' own, or a Blank's). -/
inductive Msg (Val Val' : Type) where
  | value (blocking : Bool) (v : Val)      -- a value of the type dials asked for
  | raw (blocking : Bool) (v' : Val')      -- a value still of the TRANSLATED type (repaired defect 205231d)
  | done
  | error (e : String)
deriving Repr, DecidableEq

def reportName (blocking : Bool) : String :=
  if blocking then "BlockingReportNewValue" else "ReportNewValue"

/-- the entry of the method-set fact for a method name -/
def overrideOf (ov : List (String × String × Option String)) (m : String) : Option (String × Option String) :=
  (ov.find? (fun e => e.1 == m)).map (·.2)

/-- One call on `wrappedWatchArgs`: the messages delivered to the underlying args (at most one) and
what the caller gets back; `under` is the underlying args' answer to a delivered message.
A method that is not declared on `wrappedWatchArgs` is promoted from the embedded interface: its
arguments reach the underlying args unchanged. -/
def wrappedCall (ov : List (String × String × Option String)) (X : Xf Ty Ty' Val Val') (T : Ty)
    (under : Msg Val Val' → Outcome Unit) : Call Val' → List (Msg Val Val') × Outcome Unit
  | .report b v' =>
    match overrideOf ov (reportName b) with
    | none => ([.raw b v'], under (.raw b v'))
    | some (target, rule) =>
      let fwd (v : Val) : List (Msg Val Val') × Outcome Unit :=
        if target == "ReportNewValue" then ([.value false v], under (.value false v))
        else if target == "BlockingReportNewValue" then ([.value true v], under (.value true v))
        else ([], .panic "wrappedWatchArgs: override of unrecognised shape")
      match X.reverse T v' with
      | .ok v => fwd v
      | .panic c => ([], .panic c)
      | .err c =>
        match rule with
        | some p => ([], .err (p ++ c))
        | none => fwd default
  | .done =>
    match overrideOf ov "Done" with
    | none => ([.done], under .done)
    | some _ => ([], .panic "wrappedWatchArgs: Done overridden")
  | .reportError e =>
    match overrideOf ov "ReportError" with
    | none => ([.error e], under (.error e))
    | some _ => ([], .panic "wrappedWatchArgs: ReportError overridden")

/-- The method set in force for the args the inner watcher holds: `wrappedWatchArgs`' (fact F16) when `Watch` hands the
inner watcher the wrapping args (fact F16e); nothing is overridden if it hands over dials' own args. -/
def watchOverrides : List (String × String × Option String) :=
  if Facts.wrapWatchPassesWrappedArgs then Facts.wrapOverrides else []

/-- the message sequence reaching the underlying args for a sequence of calls by the inner watcher -/
def delivered (ov : List (String × String × Option String)) (X : Xf Ty Ty' Val Val') (T : Ty)
    (under : Msg Val Val' → Outcome Unit) (calls : List (Call Val')) : List (Msg Val Val') :=
  calls.flatMap fun c => (wrappedCall ov X T under c).1

/-- Reference: what a source that produces values of the requested type natively would send for the
same logical call (a value that cannot be reverse-translated has no native counterpart). -/
def native (X : Xf Ty Ty' Val Val') (T : Ty) : Call Val' → Option (Msg Val Val')
  | .report b v' => match X.reverse T v' with
    | .ok v => some (.value b v)
    | _ => none
  | .done => some .done
  | .reportError e => some (.error e)

end

/-! ## (b) Blank -/

/-- An inner source handed to `SetSource`, as far as the Blank can tell sources apart. -/
structure Src where
  id : Nat
  watcher : Bool        -- implements dials.Watcher
  valueOk : Bool        -- its Value(ctx, b.t) returns a nil error
  watchOk : Bool        -- its Watch(b.watchCtx, b.t, b.wa) returns a nil error (watchers only)
deriving DecidableEq, Repr, Inhabited

/-- The fields of `sourcewrap.Blank` (the mutex is held by every operation, so operations are atomic). -/
structure Blank where
  inner : Option Src := none
  wa : Bool := false      -- b.wa != nil
  t : Bool := false       -- b.t != nil
deriving DecidableEq, Repr, Inhabited

def Blank.innerIsWatcher (b : Blank) : Bool :=
  match b.inner with
  | some s => s.watcher
  | none => false

inductive Op where
  | value
  | watch
  /-- `s = none`: a nil source; `reportOk`: the answer `b.wa.<Report>` gives if it is called
  (it is dials' monitor that decides: C07) -/
  | setSource (s : Option Src) (reportOk : Bool)
  | done
deriving DecidableEq, Repr

/-- Calls the Blank makes on its inner source and on its WatchArgs, in order. -/
inductive Ev where
  | innerValue (id : Nat)                   -- <source id>.Value
  | report (id : Nat) (blocking : Bool)     -- b.wa.(Blocking)ReportNewValue(value of source id)
  | innerWatch (id : Nat)                   -- <source id>.Watch(b.watchCtx, b.t, b.wa)
  | doneFwd                                 -- b.wa.Done
deriving DecidableEq, Repr

inductive Ret where
  | nil                                     -- nil error / plain return
  | error (cls : String)
  | panic (cls : String)
  | zeroValue                               -- Value: reflect.New(t.Type()), nil
  | innerResult (id : Nat) (ok : Bool)      -- Value: whatever <source id>.Value returned
deriving DecidableEq, Repr

/-- The parts of blank.go's statement structure the model depends on (regenerated: facts F18*). -/
structure BlankCode where
  valueDelegates : Bool
  watchOnce : Bool
  nilRefused : Bool
  refusesWatcher : Bool
  valueErr : Option String
  assignPos : Nat
  reportBlocking : Bool
  reportErr : Option String
  watchErr : Option String
  doneChecksWatcher : Bool
  doneChecksNil : Bool
deriving Repr

def code : BlankCode where
  valueDelegates := Facts.blankValueDelegates
  watchOnce := Facts.blankWatchOnce
  nilRefused := Facts.blankNilRefused
  refusesWatcher := Facts.blankRefusesWatcher
  valueErr := Facts.blankValueErr
  assignPos := Facts.blankAssignPos
  reportBlocking := Facts.blankReportMethod == "BlockingReportNewValue"
  reportErr := Facts.blankReportErr
  watchErr := Facts.blankWatchErr
  doneChecksWatcher := Facts.blankDoneChecksWatcher
  doneChecksNil := Facts.blankDoneChecksNil

/-- `b.inner = s` if the assignment stands at position `pos` -/
def assignAt (C : BlankCode) (pos : Nat) (s : Src) (b : Blank) : Blank :=
  if C.assignPos == pos then { b with inner := some s } else b

/-- The tail of SetSource after the report: `if w, ok := s.(dials.Watcher); ok { wErr := w.Watch(…) … }; return nil` -/
def setSourceWatch (C : BlankCode) (s : Src) (b : Blank) (evs : List Ev) : Blank × List Ev × Ret :=
  let b := assignAt C 2 s b
  if s.watcher then
    let evs := evs ++ [.innerWatch s.id]
    if !s.watchOk && C.watchErr.isSome then (b, evs, .error "call to Watch failed")
    else (assignAt C 3 s b, evs, .nil)
  else (assignAt C 3 s b, evs, .nil)

/-- One operation on a Blank: new state, calls made, result. -/
def step (C : BlankCode) (b : Blank) : Op → Blank × List Ev × Ret
  | .value =>
    match b.inner with
    | some s => if C.valueDelegates then (b, [.innerValue s.id], .innerResult s.id s.valueOk) else (b, [], .zeroValue)
    | none => (b, [], .zeroValue)
  | .watch =>
    if C.watchOnce && b.t then (b, [], .error "blank has already been used")
    else ({ b with t := true, wa := true }, [], .nil)
  | .setSource none _ =>
    -- fmt.Errorf("cannot pass a nil source … with type %s", b.t.Type()): b.t is nil before Watch
    if C.nilRefused then (if b.t then (b, [], .error "nil source") else (b, [], .panic "nil *dials.Type"))
    else (b, [], .panic "nil source dereferenced")
  | .setSource (some s) reportOk =>
    if C.refusesWatcher && b.innerIsWatcher then (b, [], .error "disallowed attempt to replace Watcher Source")
    else
      let b := assignAt C 0 s b
      let evs := [Ev.innerValue s.id]
      if !s.valueOk && C.valueErr.isSome then (b, evs, .error "initial call to Value failed")
      else
        let b := assignAt C 1 s b
        if !b.wa then (b, evs, .panic "nil WatchArgs")           -- SetSource before Watch: b.wa is a nil interface
        else
          let evs := evs ++ [.report s.id C.reportBlocking]
          -- a non-blocking report returns nil once the value is handed over, whatever becomes of it
          if C.reportBlocking && !reportOk && C.reportErr.isSome then (b, evs, .error "failed to propagate change")
          else setSourceWatch C s b evs
  | .done =>
    if C.doneChecksWatcher && b.innerIsWatcher then (b, [], .nil)
    else if !b.wa then (if C.doneChecksNil then (b, [], .nil) else (b, [], .panic "nil WatchArgs"))
    else (b, [.doneFwd], .nil)

/-- a finite sequence of operations: final state and, per operation, the calls made and the result -/
def run (C : BlankCode) : Blank → List Op → Blank × List (List Ev × Ret)
  | b, [] => (b, [])
  | b, op :: ops =>
    let r := step C b op
    let rest := run C r.1 ops
    (rest.1, (r.2.1, r.2.2) :: rest.2)

def final (C : BlankCode) (b : Blank) (ops : List Op) : Blank := (run C b ops).1

/-! ### History-level specification (independent of the state machine) -/

/-- the sources whose `Value` succeeded when they were handed to `SetSource`, in order -/
def candidates : List Op → List Src
  | [] => []
  | .setSource (some s) _ :: ops => if s.valueOk then s :: candidates ops else candidates ops
  | _ :: ops => candidates ops

def Op.isWatch : Op → Bool
  | .watch => true
  | _ => false

/-- `Watch` was called -/
def watched (ops : List Op) : Bool := ops.any Op.isWatch

/-- who holds the slot after the candidates: the first watcher among them, else the most recent one -/
def holder (cands : List Src) : Option Src :=
  match cands.find? (·.watcher) with
  | some w => some w
  | none => cands.getLast?

end Dials.Wrap
