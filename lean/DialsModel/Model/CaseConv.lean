/-
Model of /repo/tagformat/caseconversion/case_conversion.go over ASCII `List Char`.

Every Go loop is a structural recursion over the remaining characters carrying the
characters since `lastBoundary` (`cur`).  `none` stands for the Go `error` return
(the decoders have no other failure mode and contain no panicking operation on ASCII).
`cases.Title(language.English, cases.NoLower)` is modelled as "upper-case the first
character", which is its behaviour on words over [a-z0-9] (external; sampled by the tie).
-/
import DialsModel.Model.Basic
import DialsModel.Gen.Facts

namespace Dials.CaseConv

abbrev Str := List Char
abbrev Words := List Str

def isAlnum (c : Char) : Bool := isLetterA c || isDigitA c

/-- first-rune guard shared by most decoders: empty (RuneError) or digit is rejected -/
def badStart : Str → Bool
  | [] => true
  | c :: _ => isDigitA c

/-! ### decodeCamelCase / DecodeUpperCamelCase / DecodeLowerCamelCase -/

def camelLoop : Str → Str → Option Words
  | [], cur => some [lowerS cur]
  | c :: cs, cur =>
    if !isAlnum c then none
    else if isUpperA c then
      match camelLoop cs [c] with
      | none => none
      | some ws => some (if cur.isEmpty then ws else lowerS cur :: ws)
    else camelLoop cs (cur ++ [c])

def decodeCamel (s : Str) : Option Words :=
  if badStart s then none else camelLoop s []

def decodeUpperCamel (s : Str) : Option Words :=
  match s with
  | [] => none
  | c :: _ => if isUpperA c then decodeCamel s else none

def decodeLowerCamel (s : Str) : Option Words :=
  match s with
  | [] => none
  | c :: _ => if isLowerA c then decodeCamel s else none

/-! ### split-character decoders -/

/-- `ok c` = character allowed inside a word; `keepEmptyTail` = the final flush is unconditional
(case-preserving snake case) -/
def splitLoop (split : Char) (ok : Char → Bool) (keepEmptyTail : Bool) : Str → Str → Option Words
  | [], cur => some (if cur.isEmpty && !keepEmptyTail then [] else [lowerS cur])
  | c :: cs, cur =>
    if c == split then
      match splitLoop split ok keepEmptyTail cs [] with
      | none => none
      | some ws => some (if cur.isEmpty then ws else lowerS cur :: ws)
    else if !ok c then none
    else splitLoop split ok keepEmptyTail cs (cur ++ [c])

def lowerOk (c : Char) : Bool := isLowerA c || isDigitA c
def upperOk (c : Char) : Bool := isUpperA c || isDigitA c

def decodeLowerSnake (s : Str) : Option Words :=
  if badStart s then none else splitLoop '_' lowerOk false s []
def decodeKebab (s : Str) : Option Words :=
  if badStart s then none else splitLoop '-' lowerOk false s []
def decodeUpperSnake (s : Str) : Option Words :=
  if badStart s then none else splitLoop '_' upperOk false s []
def decodeCasePreservingSnake (s : Str) : Option Words :=
  if badStart s then none else splitLoop '_' isAlnum true s []

/-! ### extractInitialisms (scan order, as in the code) -/

def initialisms : List Str := Facts.initialisms.map String.toList

def scanOnce : List Str → Str → Words → Bool → Str × Words × Bool
  | [], s, w, f => (s, w, f)
  | i :: is, s, w, f =>
    if i.isPrefixOf s then scanOnce is (s.drop i.length) (w ++ [lowerS i]) true
    else scanOnce is s w f

def finishExtract (s : Str) (w : Words) : Words := if s.isEmpty then w else w ++ [lowerS s]

def extractLoop (inits : List Str) : Nat → Str → Words → Words
  | 0, s, w => finishExtract s w
  | n + 1, s, w =>
    match scanOnce inits s w false with
    | (s', w', true) => extractLoop inits n s' w'
    | (s', w', false) => finishExtract s' w'

def extractInitialismsWith (inits : List Str) (s : Str) : Words := extractLoop inits (s.length + 1) s []
def extractInitialisms (s : Str) : Words := extractInitialismsWith initialisms s

/-! ### decodeGoCamelCase -/

def allUpper (w : Str) : Bool := w == upperS w

def flushWord (inits : List Str) (acc : Words) (cur : Str) : Words :=
  if cur.isEmpty then acc
  else if allUpper cur then acc ++ extractInitialismsWith inits cur
  else acc ++ [lowerS cur]

def prevLower : Option Char → Bool
  | some p => isLowerA p
  | none => false

def firstAfterInitialism (c : Char) : Str → Bool
  | r2 :: _ :: _ => isUpperA c && isLowerA r2
  | _ => false

def goLoop (inits : List Str) (isB : Char → Bool) : Option Char → Str → Str → Words → Words
  | _, [], cur, acc => if cur.isEmpty then acc else acc ++ [lowerS cur]
  | prev, c :: rest, cur, acc =>
    if (isUpperA c && prevLower prev) || firstAfterInitialism c rest || isB c then
      goLoop inits isB (some c) rest (if isB c then [] else [c]) (flushWord inits acc cur)
    else if rest.isEmpty && isUpperA c then
      if !cur.isEmpty && allUpper (cur ++ [c]) then acc ++ extractInitialismsWith inits (cur ++ [c])
      else goLoop inits isB (some c) rest [c] acc     -- NB: `cur` is dropped, as in the code
    else goLoop inits isB (some c) rest (cur ++ [c]) acc

def goKeywords : List String :=
  ["break","case","chan","const","continue","default","defer","else","fallthrough","for","func","go",
   "goto","if","import","interface","map","package","range","return","select","struct","switch",
   "type","var"]

def isIdentifier (s : Str) : Bool :=
  match s with
  | [] => false
  | c :: cs =>
    (isLetterA c || c == '_') && cs.all (fun d => isLetterA d || d == '_' || isDigitA d) &&
      !(goKeywords.contains (String.ofList s))

def decodeGoCamelWith (inits : List Str) (s : Str) : Option Words :=
  if isIdentifier s then some (goLoop inits (fun c => c == '_') none s [] []) else none
def decodeGoCamel (s : Str) : Option Words := decodeGoCamelWith initialisms s

def decodeGoTags (s : Str) : Option Words :=
  some (goLoop initialisms (fun c => c == '_' || c == '-') none s [] [])

/-! ### encoders -/

def title : Str → Str
  | [] => []
  | c :: cs => toUpperA c :: cs

def joinWith (sep : Char) : Words → Str
  | [] => []
  | [w] => w
  | w :: ws => w ++ sep :: joinWith sep ws

def encodeUpperCamel (ws : Words) : Str := (ws.map title).flatten
def encodeLowerCamel : Words → Str
  | [] => []
  | w :: ws => w ++ (ws.map title).flatten
def encodeKebab (ws : Words) : Str := joinWith '-' ws
def encodeLowerSnake (ws : Words) : Str := joinWith '_' (ws.map lowerS)
def encodeUpperSnake (ws : Words) : Str := joinWith '_' (ws.map upperS)
def encodeCasePreservingSnake (ws : Words) : Str := joinWith '_' ws

/-- The six schemes that have both an encoder and a decoder. -/
inductive Scheme where
  | upperCamel | lowerCamel | lowerSnake | upperSnake | kebab | casePreservingSnake
deriving Repr, DecidableEq

def Scheme.encode : Scheme → Words → Str
  | .upperCamel => encodeUpperCamel
  | .lowerCamel => encodeLowerCamel
  | .lowerSnake => encodeLowerSnake
  | .upperSnake => encodeUpperSnake
  | .kebab => encodeKebab
  | .casePreservingSnake => encodeCasePreservingSnake

def Scheme.decode : Scheme → Str → Option Words
  | .upperCamel => decodeUpperCamel
  | .lowerCamel => decodeLowerCamel
  | .lowerSnake => decodeLowerSnake
  | .upperSnake => decodeUpperSnake
  | .kebab => decodeKebab
  | .casePreservingSnake => decodeCasePreservingSnake

end Dials.CaseConv
