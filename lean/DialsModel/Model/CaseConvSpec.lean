/-
Specification vocabulary for the Go-identifier half of C19: identifiers assembled from
capitalised words and initialisms, and the decidable side conditions (`GoodIdent`) under which
`decodeGoCamelCase` is proved to return exactly the tokens.
-/
import DialsModel.Model.CaseConv

namespace Dials.CaseConv

inductive Tok where
  | word (w : Str)   -- a capitalised word [A-Z][a-z]+
  | init (i : Str)   -- an initialism: a non-empty string of upper-case letters
deriving Repr, DecidableEq

def Tok.str : Tok → Str
  | .word w => w
  | .init i => i

def render (ts : List Tok) : Str := (ts.map Tok.str).flatten
def expected (ts : List Tok) : Words := ts.map fun t => lowerS t.str

/-- [A-Z][a-z]+ -/
def isCapWord : Str → Bool
  | c :: d :: rest => isUpperA c && isLowerA d && rest.all isLowerA
  | _ => false

def isInitStr (i : Str) : Bool := !i.isEmpty && i.all isUpperA

def Tok.wf : Tok → Bool
  | .word w => isCapWord w
  | .init i => isInitStr i

/-- the maximal runs of adjacent initialism tokens, in order -/
def initRunsAux : List Tok → List Str → List (List Str)
  | [], cur => if cur.isEmpty then [] else [cur]
  | .init i :: ts, cur => initRunsAux ts (cur ++ [i])
  | .word _ :: ts, cur => (if cur.isEmpty then [] else [cur]) ++ initRunsAux ts []

def initRuns (ts : List Tok) : List (List Str) := initRunsAux ts []

/-- every maximal run of adjacent initialisms is one the scan-order matcher tokenises as intended
(decidable; false e.g. for [HTTPS] and [UID]: finding D11) -/
def runsOk (inits : List Str) (ts : List Tok) : Bool :=
  (initRuns ts).all fun r => extractInitialismsWith inits r.flatten == r.map lowerS

/-- no capitalised word shorter than three characters directly after an initialism at the very end
(the code keeps `URLs` one word: finding D14) -/
def tailOk : List Tok → Bool
  | [] => true
  | [_] => true
  | [.init _, .word w] => decide (3 ≤ w.length)
  | _ :: t :: ts => tailOk (t :: ts)

def GoodIdent (inits : List Str) (ts : List Tok) : Bool :=
  !ts.isEmpty && ts.all Tok.wf && runsOk inits ts && tailOk ts

end Dials.CaseConv
