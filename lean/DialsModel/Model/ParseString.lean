/-
Model of /repo/parse/parse_string.go `String(str, t)` on the Tf universe (kind routing, element
casting, map kinds).  Integers use the ParseInt model; text/scanner tokenisation of slice and map
text is supplied by the caller (`toks`: the real scanner's token streams, C15); floats, complex
numbers and durations are external: they are accepted as given and carried as their text.
-/
import DialsModel.Model.Tf
import DialsModel.Model.Split

namespace Dials.Tf
open Dials.Parse (Tok)

/-- the two token streams of a text: (splitStringsSlice's scanner, splitMap's scanner) -/
abbrev TokTable := String → List Tok × List Tok

def parseBool (s : String) : Option Bool :=
  if ["1", "t", "T", "TRUE", "true", "True"].contains s then some true
  else if ["0", "f", "F", "FALSE", "false", "False"].contains s then some false
  else none

/-- scalars: parse.String returns a pointer to the parsed value -/
def parseScalar (str : String) : Ty → Outcome Val
  | .basic .str _ => .ok (.ptr (.s str))
  | .basic .bool _ =>
    match parseBool str with
    | some b => .ok (.ptr (.b b))
    | none => .err "ParseBool"
  | .basic (.int k) _ =>
    if k == .uintptr then .err "cannot be translated to kind uintptr"
    else match Parse.parseNumber k str.toList with
      | .ok v => .ok (.ptr (.i v))
      | .err c => .err c
      | .panic c => .panic c
  | .basic _ _ => .ok (.ptr (.s str))        -- floats / complex: external, carried as text
  | .dur => .ok (.ptr (.s str))               -- time.ParseDuration: external
  | .pdur =>                                  -- jsontypes.ParsingDuration: a named int64 like any other
    match Parse.parseNumber .i64 str.toList with
      | .ok v => .ok (.ptr (.i v))
      | .err c => .err c
      | .panic c => .panic c
  | _ => .err "cannot be translated"

def scalarKindSupported : Ty → Bool
  | .basic (.int k) _ => k != .uintptr
  | .basic _ _ => true
  | .dur => true                              -- kind Int64
  | .pdur => true                             -- kind Int64
  | _ => false

def isPlainString : Ty → Bool
  | .basic .str false => true
  | _ => false

def derefVal : Val → Outcome Val
  | .ptr v => .ok v
  | _ => .panic "reflect: call of reflect.Value.Elem on non-pointer Value"

def parseString (toks : TokTable) (str : String) : Ty → Outcome Val
  | .slice e =>
    match Parse.stringSlice (str == "") (toks str).1 with
    | .ok items =>
      if isPlainString e then .ok (.list (items.map fun it => .s (String.ofList it)))
      else
        match Tf.mapM' (fun it =>
          match e with
          | .slice _ | .map _ _ | .set _ =>
            -- nested collections re-scan their element text: outside this model (the element's token
            -- stream is not supplied); the harness does not generate them
            Outcome.err "nested collection: outside the model"
          | _ => (parseScalar (String.ofList it) e).bind derefVal) items with
        | .ok vs => .ok (.list vs)
        | .err c => .err c
        | .panic c => .panic c
    | .err c => .err c
    | .panic c => .panic c
  | .set k =>
    if isPlainString k then
      match Parse.stringSet (str == "") (toks str).1 with
      | .ok items => .ok (.setv (items.map fun it => .s (String.ofList it)))
      | .err c => .err c
      | .panic c => .panic c
    else .err "unsupported map type"
  | .map k v =>
    if isPlainString k && (match v with | .slice e => isPlainString e | _ => false) then
      match Parse.mapStringStringSlice (toks str).2 with
      | .ok ps => .ok (.mapv (ps.map fun p => (.s (String.ofList p.1), .s (String.ofList p.2))))   -- pairs in order; grouped by the reader
      | .err c => .err c
      | .panic c => .panic c
    else if scalarKindSupported k && scalarKindSupported v then
      -- parse.Map: cast key, reject duplicates (after casting), cast value
      let add (acc : List (String × String)) (ks vs : List Char) : Outcome (List (String × String)) := .ok (acc ++ [(String.ofList ks, String.ofList vs)])
      match Parse.splitMapWith (fun acc a b => (add (acc.map fun p => (String.ofList p.1, String.ofList p.2)) a b).bind fun r => .ok (r.map fun p => (p.1.toList, p.2.toList))) (toks str).2 {} with
      | .ok ps =>
        -- cast in order, detecting duplicate keys on the CAST key
        ps.foldl (fun acc p =>
          match acc with
          | .ok (.mapv kvs) =>
            match (parseScalar (String.ofList p.1) k).bind derefVal with
            | .ok kv =>
              if kvs.any (fun q => reprStr q.1 == reprStr kv) then .err "duplicate key"
              else match (parseScalar (String.ofList p.2) v).bind derefVal with
                | .ok vv => .ok (.mapv (kvs ++ [(kv, vv)]))
                | .err _ => .err "Error casting map val"
                | .panic c => .panic c
            | .err _ => .err "Error casting map key"
            | .panic c => .panic c
          | e => e) (.ok (.mapv []))
      | .err c => .err c
      | .panic c => .panic c
    else .err "unsupported map type"
  | t => parseScalar str t

end Dials.Tf
