/-
Text protocol for the ez model (driver op `ez`).

  ez run <watch> <monParked> <cbParked> <race> <cbWhen> <envV> <flagV> <path|-> <decoder> <file|-> <unstackable> <invalid> <later>

`unstackable` / `invalid`: `;`-separated slot snapshots (`a.b.c`) that do not stack / do not verify
(`-` for none); `path`: what ConfigPath answers on the file-less stack (`-`: no file); `file`: the
value of the file at that path (`-`: unreadable); `later`: comma-separated values reported by the
watching file source after ez returned (`-` for none).

Reply: `ok err=… path=… view=… ev=… verifies=… globals=… received=…` followed, per later report, by
` | view=… verifies=… globals=…` (after the monitor and the callback goroutine have worked it off).
-/
import DialsModel.Model.Ez
import DialsModel.Model.RuntimeIO

namespace Dials.Ez
open Dials Dials.Runtime

def parseSnaps (s : String) : Option (List Slots) :=
  if s == "-" then some [] else (s.splitOn ";").mapM parseCfg

def parseONat (s : String) : Option (Option Nat) :=
  if s == "-" then some none else s.toNat?.map some

def parseNats (s : String) : Option (List Nat) :=
  if s == "-" then some [] else (s.splitOn ",").mapM String.toNat?

def errStrEz : Option EzErr → String
  | none => "none"
  | some .config => "config"
  | some .noDecoder => "noDecoder"
  | some .fileValue => "fileValue"
  | some (.integrate r) => "integrate:" ++ resStr r
  | some .verify => "verify"
  | some .stuck => "stuck"

def joinOr (xs : List String) : String := if xs.isEmpty then "." else String.intercalate "," xs

def verifiesStr (s : State) : String :=
  joinOr ((verifyCalls s).map fun p => cfgStr p.1 ++ ":" ++ b01 p.2)

def globalsStr (s : State) : String := joinOr ((globalCalls s).map callStr)

def receivedStr (s : State) : String :=
  joinOr ((eventsReceived s).map fun v => s!"{v.serial}:{cfgStr v.cfg}")

def viewStr (s : State) : String := s!"{s.view.serial}:{cfgStr s.view.cfg}"

def raceOf : Nat → Race
  | 0 => .handoff
  | 1 => .queuedAfter
  | _ => .queuedBefore

def cbWhenOf : Nat → CbWhen
  | 0 => .later
  | 1 => .early
  | _ => .beforeDrain

/-- the later reports, each followed by the callback goroutine working off its queue -/
def laterAll (W : World) : State → List Nat → String → String
  | _, [], acc => acc
  | s, v :: vs, acc =>
    match laterReport W s v with
    | none => acc ++ " | stuck"
    | some s' =>
      let s' := cbQuiesce W 8 s'
      laterAll W s' vs (acc ++ s!" | view={viewStr s'} verifies={verifiesStr s'} globals={globalsStr s'}")

def handleEz : List String → String
  | ["run", w, mp, cp, race, cw, e, f, path, dec, file, unst, inv, later] =>
    match parseBool w, parseBool mp, parseBool cp, race.toNat?, cw.toNat?, e.toNat?, f.toNat?, parseONat path,
      parseBool dec, parseONat file, parseSnaps unst, parseSnaps inv, parseNats later with
    | some w, some mp, some cp, some race, some cw, some e, some f, some path, some dec, some file, some unst, some inv,
      some later =>
      let W : World := { stackOk := fun sl => !unst.contains sl, valid := fun sl => !inv.contains sl }
      let E : Env := { W := W, envV := e, flagV := f, path := fun _ => path, decoder := fun _ => dec, file := fun _ => file, watch := w }
      let o := ezRun E { monParked := mp, cbParked := cp, race := raceOf race, cbWhen := cbWhenOf cw }
      let head := s!"ok err={errStrEz o.err} path={match o.path with | some p => toString p | none => "-"}"
      match o.st with
      | none => head ++ " view=- ev=- verifies=. globals=. received=."
      | some s =>
        let s0 := cbQuiesce W 8 s
        let body := head ++ s!" view={viewStr s} ev={if s.events.isSome then 1 else 0} verifies={verifiesStr s} globals={globalsStr s0} received={receivedStr s}"
        if o.err.isNone && w then laterAll W s0 later body else body
    | _, _, _, _, _, _, _, _, _, _, _, _, _ => "bad-op"
  | _ => "bad-op"

end Dials.Ez
