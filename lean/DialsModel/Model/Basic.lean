/-
Shared vocabulary of the dials models (core Lean only; no Mathlib).

`Outcome` distinguishes a Go `error` return from a Go `panic`.  A model function returns
`.panic` exactly where the Go code would panic; "never panics" theorems are statements
about this constructor being unreachable.
-/
namespace Dials

inductive Outcome (α : Type) where
  | ok (a : α)
  | err (cls : String)
  | panic (cls : String)
deriving Repr, DecidableEq, Inhabited

namespace Outcome
@[inline] def bind {α β} (x : Outcome α) (f : α → Outcome β) : Outcome β :=
  match x with
  | .ok a => f a
  | .err c => .err c
  | .panic c => .panic c

instance : Monad Outcome where
  pure := .ok
  bind := bind

def isOk {α} : Outcome α → Bool
  | .ok _ => true
  | _ => false

def isPanic {α} : Outcome α → Bool
  | .panic _ => true
  | _ => false

def toOption {α} : Outcome α → Option α
  | .ok a => some a
  | _ => none

@[simp] theorem bind_ok {α β} (a : α) (f : α → Outcome β) : (Outcome.ok a >>= f) = f a := rfl
@[simp] theorem bind_err {α β} (c : String) (f : α → Outcome β) :
    ((Outcome.err c : Outcome α) >>= f) = .err c := rfl
@[simp] theorem bind_panic {α β} (c : String) (f : α → Outcome β) :
    ((Outcome.panic c : Outcome α) >>= f) = .panic c := rfl
end Outcome

/-! ASCII character classes (the string models are over ASCII; see DESIGN §2). -/

def isUpperA (c : Char) : Bool := 'A'.toNat ≤ c.toNat && c.toNat ≤ 'Z'.toNat
def isLowerA (c : Char) : Bool := 'a'.toNat ≤ c.toNat && c.toNat ≤ 'z'.toNat
def isDigitA (c : Char) : Bool := '0'.toNat ≤ c.toNat && c.toNat ≤ '9'.toNat
def isLetterA (c : Char) : Bool := isUpperA c || isLowerA c
def isAscii (c : Char) : Bool := c.toNat < 128

def toLowerA (c : Char) : Char := if isUpperA c then Char.ofNat (c.toNat + 32) else c
def toUpperA (c : Char) : Char := if isLowerA c then Char.ofNat (c.toNat - 32) else c

def lowerS (s : List Char) : List Char := s.map toLowerA
def upperS (s : List Char) : List Char := s.map toUpperA

end Dials
