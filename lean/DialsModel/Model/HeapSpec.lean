/-
Specification vocabulary for C02/C03: well-formed heaps, reachability through exported fields,
and the graph-isomorphism relation between an input and its copy.
-/
import DialsModel.Model.Heap

namespace Dials.Heap

mutual
/-- every reference syntactically inside the value designates a cell of the right kind -/
def okV (h : Heap) : HV → Bool
  | .sc _ => true
  | .nil => true
  | .ptr a => match h[a]? with | some (.val _) => true | _ => false
  | .mp a => match h[a]? with | some (.mapc _) => true | _ => false
  | .sl a len => match h[a]? with | some (.arr es) => decide (len ≤ es.length) | _ => false
  | .st fs => okFs h fs
  | .ar es => okFs h es
  | .ifc d => okV h d
def okFs (h : Heap) : HFs → Bool
  | .nil => true
  | .cons _ v rest => okV h v && okFs h rest
end

def okCell (h : Heap) : Cell → Bool
  | .val v => okV h v
  | .mapc es => es.all fun p => okV h p.1 && okV h p.2
  | .arr es => es.all (okV h)

/-- well-formed: no dangling or ill-kinded reference anywhere -/
def WF (h : Heap) (v : HV) : Bool := okV h v && h.all (okCell h)

mutual
/-- all slice references syntactically inside the value (not crossing pointers or maps) point below `a` -/
def slicesBelow (a : Nat) : HV → Bool
  | .sl b _ => decide (b < a)
  | .st fs => slicesBelowFs a fs
  | .ar es => slicesBelowFs a es
  | .ifc d => slicesBelow a d
  | _ => true
def slicesBelowFs (a : Nat) : HFs → Bool
  | .nil => true
  | .cons _ v rest => slicesBelow a v && slicesBelowFs a rest
end

/-- no slice contains itself without passing through a pointer or a map (slices are not memoised by
the copier; Go programs can only build such a slice through an interface value: finding D17).
Sufficient syntactic form: a backing array only holds slices of lower-numbered backing arrays. -/
def SliceOrdered (h : Heap) : Prop :=
  ∀ a es, h[a]? = some (.arr es) → ∀ v ∈ es, slicesBelow a v = true

mutual
/-- address `b` is reachable from the value through exported fields -/
inductive ReachV (h : Heap) : HV → Nat → Prop
  | ptrHere (a : Nat) : ReachV h (.ptr a) a
  | ptrIn (a : Nat) (v : HV) (b : Nat) : h[a]? = some (.val v) → ReachV h v b → ReachV h (.ptr a) b
  | mpHere (a : Nat) : ReachV h (.mp a) a
  | mpKey (a : Nat) (es : List (HV × HV)) (k v : HV) (b : Nat) :
      h[a]? = some (.mapc es) → (k, v) ∈ es → ReachV h k b → ReachV h (.mp a) b
  | mpVal (a : Nat) (es : List (HV × HV)) (k v : HV) (b : Nat) :
      h[a]? = some (.mapc es) → (k, v) ∈ es → ReachV h v b → ReachV h (.mp a) b
  | slHere (a len : Nat) : ReachV h (.sl a len) a
  | slIn (a len : Nat) (es : List HV) (v : HV) (b : Nat) :
      h[a]? = some (.arr es) → v ∈ es → ReachV h v b → ReachV h (.sl a len) b
  | st (fs : HFs) (b : Nat) : ReachFs h fs b → ReachV h (.st fs) b
  | ar (es : HFs) (b : Nat) : ReachFs h es b → ReachV h (.ar es) b
  | ifc (d : HV) (b : Nat) : ReachV h d b → ReachV h (.ifc d) b
inductive ReachFs (h : Heap) : HFs → Nat → Prop
  | here (v : HV) (rest : HFs) (b : Nat) : ReachV h v b → ReachFs h (.cons true v rest) b
  | there (ex : Bool) (v : HV) (rest : HFs) (b : Nat) : ReachFs h rest b → ReachFs h (.cons ex v rest) b
end

mutual
/-- `v'` (in heap `h'`) is the image of `v` (in heap `h`) under the address translation `pm` for pointee
cells and `mm` for map cells: same shape and payloads, pointers and maps translated by the maps
(so identical pointer/map references have identical images), slices elementwise (fresh array, same
length and capacity), unexported fields verbatim. -/
inductive Sim (h h' : Heap) (pm mm : List (Nat × Nat)) : HV → HV → Prop
  | sc (n : Nat) : Sim h h' pm mm (.sc n) (.sc n)
  | nil : Sim h h' pm mm .nil .nil
  | ptr (a a' : Nat) : lookup pm a = some a' → Sim h h' pm mm (.ptr a) (.ptr a')
  | mp (a a' : Nat) : lookup mm a = some a' → Sim h h' pm mm (.mp a) (.mp a')
  | sl (a a' len : Nat) (es es' : List HV) : h[a]? = some (.arr es) → h'[a']? = some (.arr es') →
      SimList h h' pm mm es es' → Sim h h' pm mm (.sl a len) (.sl a' len)
  | st (fs fs' : HFs) : SimFs h h' pm mm fs fs' → Sim h h' pm mm (.st fs) (.st fs')
  | ar (es es' : HFs) : SimFs h h' pm mm es es' → Sim h h' pm mm (.ar es) (.ar es')
  | ifc (d d' : HV) : Sim h h' pm mm d d' → Sim h h' pm mm (.ifc d) (.ifc d')
inductive SimFs (h h' : Heap) (pm mm : List (Nat × Nat)) : HFs → HFs → Prop
  | nil : SimFs h h' pm mm .nil .nil
  | consE (v v' : HV) (r r' : HFs) : Sim h h' pm mm v v' → SimFs h h' pm mm r r' →
      SimFs h h' pm mm (.cons true v r) (.cons true v' r')
  | consU (v : HV) (r r' : HFs) : SimFs h h' pm mm r r' → SimFs h h' pm mm (.cons false v r) (.cons false v r')
inductive SimList (h h' : Heap) (pm mm : List (Nat × Nat)) : List HV → List HV → Prop
  | nil : SimList h h' pm mm [] []
  | cons (v v' : HV) (r r' : List HV) : Sim h h' pm mm v v' → SimList h h' pm mm r r' →
      SimList h h' pm mm (v :: r) (v' :: r')
end

/-- the translated cells correspond: every translated pointee cell holds the image of the original
pointee, every translated map cell holds the images of the original entries in order -/
def CellsSim (h h' : Heap) (pm mm : List (Nat × Nat)) : Prop :=
  (∀ a a', lookup pm a = some a' → ∃ v v', h[a]? = some (.val v) ∧ h'[a']? = some (.val v') ∧ Sim h h' pm mm v v') ∧
  (∀ a a', lookup mm a = some a' → ∃ es es', h[a]? = some (.mapc es) ∧ h'[a']? = some (.mapc es') ∧
      es.length = es'.length ∧ ∀ i (hi : i < es.length) (hi' : i < es'.length),
        Sim h h' pm mm (es[i]).1 (es'[i]).1 ∧ Sim h h' pm mm (es[i]).2 (es'[i]).2)

/-- the translation is one-to-one: distinct cells have distinct images -/
def Injective (m : List (Nat × Nat)) : Prop :=
  ∀ a b c, lookup m a = some c → lookup m b = some c → a = b

/-- every cell of the heap is well-formed -/
def HeapOK (h : Heap) : Bool := h.all (okCell h)

/-- Locality of the overlay step (heap-level effect of overlayStruct on the copied base and the copied
source value) — the hypothesis of the abstract C02 theorems.  The real overlay.go is modelled in
Model/HeapOverlay.lean and proved to satisfy these laws on well-formed heaps
(`overlayLocalWF_ovReal`, Lemmas/HeapOverlay.lean); the `_real` theorems of Props/C02.lean need no
such hypothesis:
when everything the base and the overlay value reach (through exported fields) lies at or above
`mark`, the step leaves every cell below `mark` alone, never shrinks the heap, keeps it
well-formed, and its result again reaches only cells at or above `mark`. -/
structure OverlayLocal (ov : Heap → HV → HV → Heap × HV) : Prop where
  grows : ∀ h b o, h.length ≤ (ov h b o).1.length
  frame : ∀ h b o mark, (∀ a, ReachV h b a → mark ≤ a) → (∀ a, ReachV h o a → mark ≤ a) →
    ∀ a, a < mark → (ov h b o).1[a]? = h[a]?
  reach : ∀ h b o mark, mark ≤ h.length → (∀ a, ReachV h b a → mark ≤ a) → (∀ a, ReachV h o a → mark ≤ a) →
    ∀ a, ReachV (ov h b o).1 (ov h b o).2 a → mark ≤ a
  wf : ∀ h b o, HeapOK h = true → okV h b = true → okV h o = true →
    HeapOK (ov h b o).1 = true ∧ okV (ov h b o).1 (ov h b o).2 = true

mutual
/-- a simple concrete overlay (field-wise: a nil overlay field keeps the base field, anything else
replaces it; nested struct values merge) — the inhabitant showing `OverlayLocal` is satisfiable -/
def mergeV : HV → HV → HV
  | b, .nil => b
  | .st bs, .st os => .st (mergeFs bs os)
  | _, o => o
def mergeFs : HFs → HFs → HFs
  | .cons ex b bs, .cons _ o os => .cons ex (mergeV b o) (mergeFs bs os)
  | bs, _ => bs
end

def simpleOverlay (h : Heap) (b o : HV) : Heap × HV := (h, mergeV b o)

end Dials.Heap
