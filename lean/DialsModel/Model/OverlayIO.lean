/-
Text protocol for the overlay model: types and (type-directed) values as space-separated tokens.

  ty   ::= S<n> | L<n> | M<n> | T<n> | C | F | P ty | { (e|u|d ty)* }
  val  ::= <x>                (scalar, text-unmarshaler struct, chan/func)
         | - | <c>            (slice/map: nil or contents id)
         | - | & val          (pointer)
         | ( val* )           (struct)
-/
import DialsModel.Model.Overlay

namespace Dials.Overlay

def natOfTail (s : String) : Option Nat := (s.drop 1).toNat?

mutual
def parseTy : Nat → List String → Option (Ty × List String)
  | 0, _ => none
  | _ + 1, [] => none
  | fuel + 1, t :: rest =>
    if t == "C" then some (.chan, rest)
    else if t == "F" then some (.func, rest)
    else if t == "P" then
      match parseTy fuel rest with
      | some (e, r) => some (.ptr e, r)
      | none => none
    else if t == "{" then
      match parseFields fuel rest with
      | some (fs, r) => some (.struct fs, r)
      | none => none
    else if t.startsWith "S" then (natOfTail t).map fun n => (.scalar n, rest)
    else if t.startsWith "L" then (natOfTail t).map fun n => (.slice n, rest)
    else if t.startsWith "M" then (natOfTail t).map fun n => (.map n, rest)
    else if t.startsWith "T" then (natOfTail t).map fun n => (.tu n, rest)
    else none
def parseFields : Nat → List String → Option (Fields × List String)
  | 0, _ => none
  | _ + 1, [] => none
  | fuel + 1, t :: rest =>
    if t == "}" then some (.nil, rest)
    else
      let k : Option FieldKind := if t == "e" then some .normal else if t == "u" then some .unexported else if t == "d" then some .dash else none
      match k with
      | none => none
      | some k =>
        match parseTy fuel rest with
        | none => none
        | some (ty, r) =>
          match parseFields fuel r with
          | some (fs, r') => some (.cons k ty fs, r')
          | none => none
end

mutual
def parseVal : Nat → Ty → List String → Option (Val × List String)
  | 0, _, _ => none
  | _ + 1, _, [] => none
  | fuel + 1, ty, t :: rest =>
    match ty with
    | .scalar n => t.toNat?.map fun x => (.scalar n x, rest)
    | .tu n => t.toNat?.map fun x => (.tuv n x, rest)
    | .chan => t.toNat?.map fun x => (.opaque .chan x, rest)
    | .func => t.toNat?.map fun x => (.opaque .func x, rest)
    | .slice n => if t == "-" then some (.coll (.slice n) none, rest) else t.toNat?.map fun x => (.coll (.slice n) (some x), rest)
    | .map n => if t == "-" then some (.coll (.map n) none, rest) else t.toNat?.map fun x => (.coll (.map n) (some x), rest)
    | .ptr e =>
      if t == "-" then some (.ptr e none, rest)
      else if t == "&" then
        match parseVal fuel e rest with
        | some (v, r) => some (.ptr e (some v), r)
        | none => none
      else none
    | .struct fs =>
      if t == "(" then
        match parseVals fuel fs rest with
        | some (vs, r) => some (.struct fs vs, r)
        | none => none
      else none
def parseVals : Nat → Fields → List String → Option (Vals × List String)
  | 0, _, _ => none
  | fuel + 1, .nil, t :: rest => if t == ")" then some (.nil, rest) else none
  | _ + 1, .nil, [] => none
  | fuel + 1, .cons _ ty fs, toks =>
    match parseVal fuel ty toks with
    | none => none
    | some (v, r) =>
      match parseVals fuel fs r with
      | some (vs, r') => some (.cons v vs, r')
      | none => none
end

mutual
def tyToks : Ty → List String
  | .scalar n => [s!"S{n}"]
  | .slice n => [s!"L{n}"]
  | .map n => [s!"M{n}"]
  | .tu n => [s!"T{n}"]
  | .chan => ["C"]
  | .func => ["F"]
  | .ptr e => "P" :: tyToks e
  | .struct fs => "{" :: fieldsToks fs
def fieldsToks : Fields → List String
  | .nil => ["}"]
  | .cons k t r => (match k with | .normal => "e" | .unexported => "u" | .dash => "d") :: (tyToks t ++ fieldsToks r)
end

mutual
def valToks : Val → List String
  | .scalar _ x => [toString x]
  | .tuv _ x => [toString x]
  | .opaque _ x => [toString x]
  | .coll _ none => ["-"]
  | .coll _ (some c) => [toString c]
  | .ptr _ none => ["-"]
  | .ptr _ (some v) => "&" :: valToks v
  | .struct _ vs => "(" :: valsToks vs
def valsToks : Vals → List String
  | .nil => [")"]
  | .cons v r => valToks v ++ valsToks r
end

def outStr : Outcome Val → String
  | .ok v => "ok " ++ String.intercalate " " (valToks v)
  | .err _ => "err"
  | .panic _ => "panic"

/-- `layers` = remaining tokens: repeated (ty val) -/
def parseLayers : Nat → List String → Option (List Val)
  | 0, _ => none
  | _ + 1, [] => some []
  | fuel + 1, toks =>
    match parseTy (toks.length + 1) toks with
    | none => none
    | some (ty, r) =>
      match parseVal (r.length + 1) ty r with
      | none => none
      | some (v, r') =>
        match parseLayers fuel r' with
        | some vs => some (v :: vs)
        | none => none

def handleOv : List String → String
  | "ptrify" :: toks =>
    match parseTy (toks.length + 1) toks with
    | some (ty, []) => "ok " ++ String.intercalate " " (tyToks (ptrify ty))
    | _ => "bad-op"
  | "compose" :: toks =>
    match parseTy (toks.length + 1) toks with
    | some (ty, r) =>
      match parseVal (r.length + 1) ty r with
      | some (d, r') =>
        match parseLayers (r'.length + 1) r' with
        | some ls => outStr (compose d ls)
        | none => "bad-op"
      | none => "bad-op"
    | none => "bad-op"
  | _ => "bad-op"

end Dials.Overlay
