/-
Heap-level model of /repo/deep_copy.go (deepCopier) and of the copy structure of `compose`.

Values hold addresses into an append-only heap of cells, so that aliasing, sharing and cycles are
expressible and "fresh" is simply "address ≥ heap size at the start".

  HV   a Go value as stored in a variable, field, element or map slot
  Cell what an address designates: a pointee, a map's entries, a slice's backing array

deepCopy mirrors the Go code after the repairs D2 (pointers and maps held in interfaces go through
the memos): pointers and maps are memoised (sharing and cycles preserved), slices are not (each
slice value gets a fresh backing array holding the *whole* capacity), unexported struct fields are
copied verbatim (`out.Set(in)`) and not descended into.  Interior pointers (`&s.F`), slices with a
non-zero offset into their array, channels and functions (opaque scalars) are outside the model.

The recursion carries fuel; `none` = out of fuel, which is how the model exhibits the genuine
non-termination on a slice that contains itself through an interface (finding D17).
-/
import DialsModel.Model.Basic
import DialsModel.Gen.Facts

namespace Dials.Heap

mutual
inductive HV where
  | sc (n : Nat)                    -- scalar / string / chan / func: no references
  | nil                             -- nil pointer, map, slice or interface
  | ptr (a : Nat)                   -- pointer to the pointee cell `a`
  | mp (a : Nat)                    -- map whose entries live in cell `a`
  | sl (a : Nat) (len : Nat)        -- slice over the backing array in cell `a` (capacity = its length)
  | st (fs : HFs)                   -- struct value
  | ar (es : HFs)                   -- array value (every element counts as exported)
  | ifc (dyn : HV)                  -- non-nil interface value holding `dyn`
inductive HFs where
  | nil
  | cons (exported : Bool) (v : HV) (rest : HFs)
end

inductive Cell where
  | val (v : HV)
  | mapc (es : List (HV × HV))
  | arr (es : List HV)
deriving Inhabited

abbrev Heap := List Cell

structure CS where
  heap : Heap
  pmemo : List (Nat × Nat)          -- input pointee cell ↦ output pointee cell
  mmemo : List (Nat × Nat)          -- input map cell ↦ output map cell

def lookup (m : List (Nat × Nat)) (a : Nat) : Option Nat := (m.find? (·.1 == a)).map (·.2)

def setCell (h : Heap) (a : Nat) (c : Cell) : Heap := h.set a c

/-- append an entry to the map cell `a` -/
def addEntry (h : Heap) (a : Nat) (k v : HV) : Heap :=
  match h[a]? with
  | some (.mapc es) => h.set a (.mapc (es ++ [(k, v)]))
  | _ => h

/-- store element `i` of the backing array `a` -/
def setElem (h : Heap) (a i : Nat) (v : HV) : Heap :=
  match h[a]? with
  | some (.arr es) => h.set a (.arr (es.set i v))
  | _ => h

mutual
/-- `deepCopier.deepCopy` -/
def copyV : Nat → CS → HV → Option (CS × HV)
  | 0, _, _ => none
  | _ + 1, s, .sc n => some (s, .sc n)
  | _ + 1, s, .nil => some (s, .nil)
  | f + 1, s, .ptr a =>
    match lookup s.pmemo a with
    | some a' => some (s, .ptr a')
    | none =>
      match s.heap[a]? with
      | some (.val v) =>
        let a' := s.heap.length
        let s1 : CS := { s with heap := s.heap ++ [.val .nil], pmemo := (a, a') :: s.pmemo }
        match copyV f s1 v with
        | some (s2, v') => some ({ s2 with heap := setCell s2.heap a' (.val v') }, .ptr a')
        | none => none
      | _ => some (s, .ptr a)          -- dangling / ill-typed address: left alone (not reachable from well-formed input)
  | f + 1, s, .mp a =>
    match lookup s.mmemo a with
    | some a' => some (s, .mp a')
    | none =>
      match s.heap[a]? with
      | some (.mapc es) =>
        let a' := s.heap.length
        let s1 : CS := { s with heap := s.heap ++ [.mapc []], mmemo := (a, a') :: s.mmemo }
        match copyEntries f s1 a' es with
        | some s2 => some (s2, .mp a')
        | none => none
      | _ => some (s, .mp a)
  | f + 1, s, .sl a len =>
    match s.heap[a]? with
    | some (.arr es) =>
      let a' := s.heap.length
      let s1 : CS := { s with heap := s.heap ++ [.arr (es.map fun _ => .nil)] }
      match copyElems f s1 a' 0 es with
      | some s2 => some (s2, .sl a' len)
      | none => none
    | _ => some (s, .sl a len)
  | f + 1, s, .st fs =>
    match copyFs f s fs with
    | some (s', fs') => some (s', .st fs')
    | none => none
  | f + 1, s, .ar es =>
    match copyFs f s es with
    | some (s', es') => some (s', .ar es')
    | none => none
  | f + 1, s, .ifc dyn =>
    match copyV f s dyn with
    | some (s', d') => some (s', .ifc d')
    | none => none
/-- `deepCopyStruct` / `deepCopyArray` on a value: exported fields are copied, others kept verbatim -/
def copyFs : Nat → CS → HFs → Option (CS × HFs)
  | 0, _, _ => none
  | _ + 1, s, .nil => some (s, .nil)
  | f + 1, s, .cons ex v rest =>
    if ex then
      match copyV f s v with
      | some (s1, v') =>
        match copyFs f s1 rest with
        | some (s2, rest') => some (s2, .cons ex v' rest')
        | none => none
      | none => none
    else
      match copyFs f s rest with
      | some (s2, rest') => some (s2, .cons ex v rest')
      | none => none
/-- `deepCopyMap`'s loop: copy key and value, insert into the new map cell `a'` -/
def copyEntries : Nat → CS → Nat → List (HV × HV) → Option CS
  | 0, _, _, _ => none
  | _ + 1, s, _, [] => some s
  | f + 1, s, a', (k, v) :: rest =>
    match copyV f s k with
    | some (s1, k') =>
      match copyV f s1 v with
      | some (s2, v') => copyEntries f { s2 with heap := addEntry s2.heap a' k' v' } a' rest
      | none => none
    | none => none
/-- `deepCopyArray` over a slice's whole backing array into the new array cell `a'` -/
def copyElems : Nat → CS → Nat → Nat → List HV → Option CS
  | 0, _, _, _, _ => none
  | _ + 1, s, _, _, [] => some s
  | f + 1, s, a', i, v :: rest =>
    match copyV f s v with
    | some (s1, v') => copyElems f { s1 with heap := setElem s1.heap a' i v' } a' (i + 1) rest
    | none => none
end

/-- `deepCopyValue`: a fresh copier (empty memos) per call -/
def deepCopy (fuel : Nat) (h : Heap) (v : HV) : Option (Heap × HV) :=
  (copyV fuel { heap := h, pmemo := [], mmemo := [] } v).map fun p => (p.1.heap, p.2)

/-- the copy structure of `compose` (F8): the defaults are deep-copied, every source value is
deep-copied with its own copier, the copy is overlaid.  `ov` is the overlay step
(heap-level effect of overlayStruct), a parameter whose locality is a stated hypothesis. -/
def composeH (ov : Heap → HV → HV → Heap × HV) (fuel : Nat) (h : Heap) (d : HV) : List HV → Option (Heap × HV)
  | vs =>
    let start := if Facts.composeCopiesDefaults then deepCopy fuel h d else some (h, d)
    vs.foldl (fun acc v =>
      match acc with
      | none => none
      | some (h1, b) =>
        match (if Facts.composeCopiesSources then deepCopy fuel h1 v else some (h1, v)) with
        | none => none
        | some (h2, v') => some (ov h2 b v')) start

end Dials.Heap
