/-
Text protocol for the heap model.

  hv   ::= s<n> | n | p<a> | m<a> | l<a>:<len> | { (e|u hv)* } | [ hv* ] | i hv
  cell ::= V hv | M ( (hv hv)* ) | A ( hv* )
  request:  hp copy <cell>* ; <root hv>
  reply:    ok <canonical graph of the copy> fresh=<0|1> frozen=<0|1>   |   fuel

The canonical graph numbers cells in depth-first first-visit order, so two graphs are isomorphic
(same values, same sharing, same cycles) iff their renderings are equal.
-/
import DialsModel.Model.Heap

namespace Dials.Heap

mutual
def parseHV : Nat → List String → Option (HV × List String)
  | 0, _ => none
  | _ + 1, [] => none
  | fuel + 1, t :: rest =>
    if t == "n" then some (.nil, rest)
    else if t == "i" then (parseHV fuel rest).map fun (v, r) => (.ifc v, r)
    else if t == "{" then (parseHFs fuel true rest).map fun (fs, r) => (.st fs, r)
    else if t == "[" then (parseHFs fuel false rest).map fun (fs, r) => (.ar fs, r)
    else if t.startsWith "s" then ((t.drop 1).toNat?).map fun n => (.sc n, rest)
    else if t.startsWith "p" then ((t.drop 1).toNat?).map fun n => (.ptr n, rest)
    else if t.startsWith "m" then ((t.drop 1).toNat?).map fun n => (.mp n, rest)
    else if t.startsWith "l" then
      match (t.drop 1).toString.splitOn ":" with
      | [a, l] => match a.toNat?, l.toNat? with
        | some a, some l => some (.sl a l, rest)
        | _, _ => none
      | _ => none
    else none
/-- `flags` = struct syntax (each field preceded by e|u); otherwise array syntax -/
def parseHFs : Nat → Bool → List String → Option (HFs × List String)
  | 0, _, _ => none
  | _ + 1, _, [] => none
  | fuel + 1, flags, t :: rest =>
    if flags then
      if t == "}" then some (.nil, rest)
      else if t == "e" || t == "u" then
        match parseHV fuel rest with
        | some (v, r) => (parseHFs fuel flags r).map fun (fs, r') => (.cons (t == "e") v fs, r')
        | none => none
      else none
    else
      if t == "]" then some (.nil, rest)
      else match parseHV fuel (t :: rest) with
        | some (v, r) => (parseHFs fuel flags r).map fun (fs, r') => (.cons true v fs, r')
        | none => none
end

def parseHVList : Nat → List String → Option (List HV × List String)
  | 0, _ => none
  | _ + 1, [] => none
  | fuel + 1, t :: rest =>
    if t == ")" then some ([], rest)
    else match parseHV (rest.length + 2) (t :: rest) with
      | some (v, r) => (parseHVList fuel r).map fun (vs, r') => (v :: vs, r')
      | none => none

def pairUp : List HV → List (HV × HV)
  | k :: v :: rest => (k, v) :: pairUp rest
  | _ => []

def parseCells : Nat → List String → Option (List Cell × List String)
  | 0, _ => none
  | _ + 1, [] => none
  | fuel + 1, t :: rest =>
    if t == ";" then some ([], rest)
    else if t == "V" then
      match parseHV (rest.length + 1) rest with
      | some (v, r) => (parseCells fuel r).map fun (cs, r') => (.val v :: cs, r')
      | none => none
    else if t == "M" || t == "A" then
      match rest with
      | "(" :: rest' =>
        match parseHVList (rest'.length + 1) rest' with
        | some (vs, r) =>
          (parseCells fuel r).map fun (cs, r') => ((if t == "M" then Cell.mapc (pairUp vs) else Cell.arr vs) :: cs, r')
        | none => none
      | _ => none
    else none

/-- canonical rendering: `seen` maps addresses to their first-visit number -/
structure RS where
  seen : List (Nat × Nat)
  out : List String

def RS.emit (r : RS) (s : String) : RS := { r with out := s :: r.out }

mutual
def renderV : Nat → Heap → RS → HV → RS
  | 0, _, r, _ => r.emit "…"
  | _ + 1, _, r, .sc n => r.emit s!"s{n}"
  | _ + 1, _, r, .nil => r.emit "n"
  | f + 1, h, r, .ptr a =>
    match lookup r.seen a with
    | some k => r.emit s!"p#{k}"
    | none =>
      let k := r.seen.length
      let r := { r with seen := (a, k) :: r.seen }.emit s!"p#{k}="
      match h[a]? with
      | some (.val v) => renderV f h r v
      | _ => r.emit "?"
  | f + 1, h, r, .mp a =>
    match lookup r.seen a with
    | some k => r.emit s!"m#{k}"
    | none =>
      let k := r.seen.length
      let r := { r with seen := (a, k) :: r.seen }.emit s!"m#{k}=("
      match h[a]? with
      | some (.mapc es) => (renderEntries f h r es).emit ")"
      | _ => r.emit "?"
  | f + 1, h, r, .sl a len =>
    -- slices have no identity of their own in the rendering (the copier gives every slice value a
    -- fresh backing array); the whole capacity is shown
    match h[a]? with
    | some (.arr es) => (renderList f h (r.emit s!"l:{len}=(") es).emit ")"
    | _ => r.emit "l?"
  | f + 1, h, r, .st fs => (renderFs f h (r.emit "{") fs true).emit "}"
  | f + 1, h, r, .ar es => (renderFs f h (r.emit "[") es false).emit "]"
  | f + 1, h, r, .ifc d => renderV f h (r.emit "i") d
def renderFs : Nat → Heap → RS → HFs → Bool → RS
  | 0, _, r, _, _ => r
  | _ + 1, _, r, .nil, _ => r
  | f + 1, h, r, .cons ex v rest, flags =>
    let r := if flags then r.emit (if ex then "e" else "u") else r
    renderFs f h (renderV f h r v) rest flags
def renderEntries : Nat → Heap → RS → List (HV × HV) → RS
  | 0, _, r, _ => r
  | _ + 1, _, r, [] => r
  | f + 1, h, r, (k, v) :: rest => renderEntries f h (renderV f h (renderV f h r k) v) rest
def renderList : Nat → Heap → RS → List HV → RS
  | 0, _, r, _ => r
  | _ + 1, _, r, [] => r
  | f + 1, h, r, v :: rest => renderList f h (renderV f h r v) rest
end

def canon (h : Heap) (v : HV) : String × List Nat :=
  let r := renderV 100000 h { seen := [], out := [] } v
  (String.intercalate " " r.out.reverse, r.seen.map (·.1))

mutual
/-- addresses reachable through exported fields (what C02/C03 call reachable) -/
def reachE : Nat → Heap → List Nat → HV → List Nat
  | 0, _, acc, _ => acc
  | _ + 1, _, acc, .sc _ => acc
  | _ + 1, _, acc, .nil => acc
  | f + 1, h, acc, .ptr a =>
    if acc.contains a then acc else
    match h[a]? with
    | some (.val v) => reachE f h (a :: acc) v
    | _ => a :: acc
  | f + 1, h, acc, .mp a =>
    if acc.contains a then acc else
    match h[a]? with
    | some (.mapc es) => reachEs f h (a :: acc) (es.flatMap fun p => [p.1, p.2])
    | _ => a :: acc
  | f + 1, h, acc, .sl a _ =>
    if acc.contains a then acc else
    match h[a]? with
    | some (.arr es) => reachEs f h (a :: acc) es
    | _ => a :: acc
  | f + 1, h, acc, .st fs => reachFs f h acc fs
  | f + 1, h, acc, .ar es => reachFs f h acc es
  | f + 1, h, acc, .ifc d => reachE f h acc d
def reachFs : Nat → Heap → List Nat → HFs → List Nat
  | 0, _, acc, _ => acc
  | _ + 1, _, acc, .nil => acc
  | f + 1, h, acc, .cons ex v rest => reachFs f h (if ex then reachE f h acc v else acc) rest
def reachEs : Nat → Heap → List Nat → List HV → List Nat
  | 0, _, acc, _ => acc
  | _ + 1, _, acc, [] => acc
  | f + 1, h, acc, v :: rest => reachEs f h (reachE f h acc v) rest
end

def cellStr (h : Heap) (c : Cell) : String :=
  match c with
  | .val v => "V " ++ (canon h v).1
  | .mapc es => "M" ++ toString es.length
  | .arr es => "A" ++ toString es.length

def handleHp : List String → String
  | "copy" :: toks =>
    match parseCells (toks.length + 1) toks with
    | some (cells, r) =>
      match parseHV (r.length + 1) r with
      | some (root, []) =>
        let fuel := 200 + 40 * (toks.length)
        match deepCopy fuel cells root with
        | none => "fuel"
        | some (h', v') =>
          let (txt, _) := canon h' v'
          let reach := reachE 100000 h' [] v'
          let fresh := reach.all (fun a => cells.length ≤ a)
          let before := (canon cells root).1
          let after := (canon (h'.take cells.length) root).1
          s!"ok {txt} fresh={if fresh then 1 else 0} frozen={if before == after then 1 else 0}"
      | _ => "bad-op"
    | none => "bad-op"
  | _ => "bad-op"

end Dials.Heap
