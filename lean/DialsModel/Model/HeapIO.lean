/-
Text protocol for the heap model.

  hv   ::= s<n> | n | p<a> | m<a> | l<a>:<len> | { (e|u hv)* } | [ hv* ] | i hv
  cell ::= V hv | M ( (hv hv)* ) | A ( hv* )
  request:  hp copy <cell>* ; <root hv>
  reply:    ok <canonical graph of the copy> fresh=<0|1> frozen=<0|1>   |   fuel

  zeros ::= (z <type tag> <hv>)*          zero values of the opaque leaf types (Model/HeapOverlay.lean)
  ty    ::= the type grammar of Model/OverlayIO.lean
  request:  hp overlay <zeros> T <base struct ty> T <overlay struct ty> H <cell>* ; <base cell> <overlay root hv>
            (dials.VerifOverlay: the overlay root is `p<c>` = the addressable struct in cell c, or a struct value;
             it is deep-copied with the copier model, then overlaid in place onto the struct in the base cell)
  request:  hp compose <zeros> T <base struct ty> H <cell>* ; <defaults hv> (L T <overlay struct ty> <root hv>)*
            (compose: defaults copy, then every layer copied and overlaid)
  reply:    <ok|err|panic|stuck:…> <canonical graph of the result, slices with identity> | mod <a>=<cell> ; … | fresh=<0|1>
            mod = the cells of the request whose contents changed (new contents, shallow; addresses allocated
            during the run print as *); fresh = everything the result newly reaches was allocated during the run

The canonical graph numbers cells in depth-first first-visit order, so two graphs are isomorphic
(same values, same sharing, same cycles) iff their renderings are equal.
-/
import DialsModel.Model.Heap
import DialsModel.Model.HeapOverlay
import DialsModel.Model.OverlayIO

namespace Dials.Heap

mutual
def parseHV : Nat → List String → Option (HV × List String)
  | 0, _ => none
  | _ + 1, [] => none
  | fuel + 1, t :: rest =>
    if t == "n" then some (.nil, rest)
    else if t == "i" then (parseHV fuel rest).map fun (v, r) => (.ifc v, r)
    else if t == "{" then (parseHFs fuel true rest).map fun (fs, r) => (.st fs, r)
    else if t == "[" then (parseHFs fuel false rest).map fun (fs, r) => (.ar fs, r)
    else if t.startsWith "s" then ((t.drop 1).toNat?).map fun n => (.sc n, rest)
    else if t.startsWith "p" then ((t.drop 1).toNat?).map fun n => (.ptr n, rest)
    else if t.startsWith "m" then ((t.drop 1).toNat?).map fun n => (.mp n, rest)
    else if t.startsWith "l" then
      match (t.drop 1).toString.splitOn ":" with
      | [a, l] => match a.toNat?, l.toNat? with
        | some a, some l => some (.sl a l, rest)
        | _, _ => none
      | _ => none
    else none
/-- `flags` = struct syntax (each field preceded by e|u); otherwise array syntax -/
def parseHFs : Nat → Bool → List String → Option (HFs × List String)
  | 0, _, _ => none
  | _ + 1, _, [] => none
  | fuel + 1, flags, t :: rest =>
    if flags then
      if t == "}" then some (.nil, rest)
      else if t == "e" || t == "u" then
        match parseHV fuel rest with
        | some (v, r) => (parseHFs fuel flags r).map fun (fs, r') => (.cons (t == "e") v fs, r')
        | none => none
      else none
    else
      if t == "]" then some (.nil, rest)
      else match parseHV fuel (t :: rest) with
        | some (v, r) => (parseHFs fuel flags r).map fun (fs, r') => (.cons true v fs, r')
        | none => none
end

def parseHVList : Nat → List String → Option (List HV × List String)
  | 0, _ => none
  | _ + 1, [] => none
  | fuel + 1, t :: rest =>
    if t == ")" then some ([], rest)
    else match parseHV (rest.length + 2) (t :: rest) with
      | some (v, r) => (parseHVList fuel r).map fun (vs, r') => (v :: vs, r')
      | none => none

def pairUp : List HV → List (HV × HV)
  | k :: v :: rest => (k, v) :: pairUp rest
  | _ => []

def parseCells : Nat → List String → Option (List Cell × List String)
  | 0, _ => none
  | _ + 1, [] => none
  | fuel + 1, t :: rest =>
    if t == ";" then some ([], rest)
    else if t == "V" then
      match parseHV (rest.length + 1) rest with
      | some (v, r) => (parseCells fuel r).map fun (cs, r') => (.val v :: cs, r')
      | none => none
    else if t == "M" || t == "A" then
      match rest with
      | "(" :: rest' =>
        match parseHVList (rest'.length + 1) rest' with
        | some (vs, r) =>
          (parseCells fuel r).map fun (cs, r') => ((if t == "M" then Cell.mapc (pairUp vs) else Cell.arr vs) :: cs, r')
        | none => none
      | _ => none
    else none

/-- canonical rendering: `seen` maps addresses to their first-visit number -/
structure RS where
  seen : List (Nat × Nat)
  out : List String
  sid : Bool := false      -- number slices' backing arrays too (identity of slices is rendered)

def RS.emit (r : RS) (s : String) : RS := { r with out := s :: r.out }

mutual
def renderV : Nat → Heap → RS → HV → RS
  | 0, _, r, _ => r.emit "…"
  | _ + 1, _, r, .sc n => r.emit s!"s{n}"
  | _ + 1, _, r, .nil => r.emit "n"
  | f + 1, h, r, .ptr a =>
    match lookup r.seen a with
    | some k => r.emit s!"p#{k}"
    | none =>
      let k := r.seen.length
      let r := { r with seen := (a, k) :: r.seen }.emit s!"p#{k}="
      match h[a]? with
      | some (.val v) => renderV f h r v
      | _ => r.emit "?"
  | f + 1, h, r, .mp a =>
    match lookup r.seen a with
    | some k => r.emit s!"m#{k}"
    | none =>
      let k := r.seen.length
      let r := { r with seen := (a, k) :: r.seen }.emit s!"m#{k}=("
      match h[a]? with
      | some (.mapc es) => (renderEntries f h r es).emit ")"
      | _ => r.emit "?"
  | f + 1, h, r, .sl a len =>
    -- slices have no identity of their own in the rendering (the copier gives every slice value a
    -- fresh backing array); the whole capacity is shown
    if r.sid then
      match lookup r.seen a with
      | some k => r.emit s!"l#{k}:{len}"
      | none =>
        let k := r.seen.length
        let r := { r with seen := (a, k) :: r.seen }.emit s!"l#{k}:{len}=("
        match h[a]? with
        | some (.arr es) => (renderList f h r es).emit ")"
        | _ => r.emit "?"
    else
    match h[a]? with
    | some (.arr es) => (renderList f h (r.emit s!"l:{len}=(") es).emit ")"
    | _ => r.emit "l?"
  | f + 1, h, r, .st fs => (renderFs f h (r.emit "{") fs true).emit "}"
  | f + 1, h, r, .ar es => (renderFs f h (r.emit "[") es false).emit "]"
  | f + 1, h, r, .ifc d => renderV f h (r.emit "i") d
def renderFs : Nat → Heap → RS → HFs → Bool → RS
  | 0, _, r, _, _ => r
  | _ + 1, _, r, .nil, _ => r
  | f + 1, h, r, .cons ex v rest, flags =>
    let r := if flags then r.emit (if ex then "e" else "u") else r
    renderFs f h (renderV f h r v) rest flags
def renderEntries : Nat → Heap → RS → List (HV × HV) → RS
  | 0, _, r, _ => r
  | _ + 1, _, r, [] => r
  | f + 1, h, r, (k, v) :: rest => renderEntries f h (renderV f h (renderV f h r k) v) rest
def renderList : Nat → Heap → RS → List HV → RS
  | 0, _, r, _ => r
  | _ + 1, _, r, [] => r
  | f + 1, h, r, v :: rest => renderList f h (renderV f h r v) rest
end

def canon (h : Heap) (v : HV) : String × List Nat :=
  let r := renderV 100000 h { seen := [], out := [] } v
  (String.intercalate " " r.out.reverse, r.seen.map (·.1))

mutual
/-- addresses reachable through exported fields (what C02/C03 call reachable) -/
def reachE : Nat → Heap → List Nat → HV → List Nat
  | 0, _, acc, _ => acc
  | _ + 1, _, acc, .sc _ => acc
  | _ + 1, _, acc, .nil => acc
  | f + 1, h, acc, .ptr a =>
    if acc.contains a then acc else
    match h[a]? with
    | some (.val v) => reachE f h (a :: acc) v
    | _ => a :: acc
  | f + 1, h, acc, .mp a =>
    if acc.contains a then acc else
    match h[a]? with
    | some (.mapc es) => reachEs f h (a :: acc) (es.flatMap fun p => [p.1, p.2])
    | _ => a :: acc
  | f + 1, h, acc, .sl a _ =>
    if acc.contains a then acc else
    match h[a]? with
    | some (.arr es) => reachEs f h (a :: acc) es
    | _ => a :: acc
  | f + 1, h, acc, .st fs => reachFs f h acc fs
  | f + 1, h, acc, .ar es => reachFs f h acc es
  | f + 1, h, acc, .ifc d => reachE f h acc d
def reachFs : Nat → Heap → List Nat → HFs → List Nat
  | 0, _, acc, _ => acc
  | _ + 1, _, acc, .nil => acc
  | f + 1, h, acc, .cons ex v rest => reachFs f h (if ex then reachE f h acc v else acc) rest
def reachEs : Nat → Heap → List Nat → List HV → List Nat
  | 0, _, acc, _ => acc
  | _ + 1, _, acc, [] => acc
  | f + 1, h, acc, v :: rest => reachEs f h (reachE f h acc v) rest
end

def cellStr (h : Heap) (c : Cell) : String :=
  match c with
  | .val v => "V " ++ (canon h v).1
  | .mapc es => "M" ++ toString es.length
  | .arr es => "A" ++ toString es.length

/-- canonical graph in which slices have identity too (their backing arrays are numbered) -/
def canonS (h : Heap) (v : HV) : String :=
  let r := renderV 100000 h { seen := [], out := [], sid := true } v
  String.intercalate " " r.out.reverse

mutual
/-- shallow text of a value in the request grammar; addresses `≥ n` (allocated during the run) print as `*` -/
def showHV (n : Nat) : HV → List String
  | .sc k => [s!"s{k}"]
  | .nil => ["n"]
  | .ptr a => [if a < n then s!"p{a}" else "p*"]
  | .mp a => [if a < n then s!"m{a}" else "m*"]
  | .sl a len => [if a < n then s!"l{a}:{len}" else s!"l*:{len}"]
  | .st fs => "{" :: (showHFs n true fs ++ ["}"])
  | .ar es => "[" :: (showHFs n false es ++ ["]"])
  | .ifc d => "i" :: showHV n d
def showHFs (n : Nat) (flags : Bool) : HFs → List String
  | .nil => []
  | .cons ex v rest => (if flags then [if ex then "e" else "u"] else []) ++ (showHV n v ++ showHFs n flags rest)
end

def showCell (n : Nat) : Option Cell → String
  | some (.val v) => "V " ++ String.intercalate " " (showHV n v)
  | some (.mapc es) => "M ( " ++ String.intercalate " " (es.flatMap fun p => showHV n p.1 ++ showHV n p.2) ++ " )"
  | some (.arr es) => "A ( " ++ String.intercalate " " (es.flatMap (showHV n)) ++ " )"
  | none => "?"

/-- the cells of the request heap `h0` whose contents differ in `h'` -/
def modified (h0 h' : Heap) : List String :=
  (List.range h0.length).filterMap fun a =>
    let after := showCell h0.length h'[a]?
    if after == showCell h0.length h0[a]? then none else some s!"{a}={after}"

/-- reply of the overlay / compose ops; `before` = what the base reached before the run -/
def report (h0 h' : Heap) (st : St) (r : HV) (before : List Nat) : String :=
  let fresh := (reachE 100000 h' [] r).all fun a => before.contains a || h0.length ≤ a
  s!"{st.tag} {canonS h' r} | mod {String.intercalate " ; " (modified h0 h')} | fresh={if fresh then 1 else 0}"

def parseZeros : Nat → List String → Option (Zeros × List String)
  | 0, _ => none
  | fuel + 1, "z" :: n :: rest =>
    match n.toNat?, parseHV (rest.length + 1) rest with
    | some n, some (v, r) => (parseZeros fuel r).map fun (z, r') => ((n, v) :: z, r')
    | _, _ => none
  | _ + 1, toks => some ([], toks)

/-- (L T <struct ty> <root hv>)* -/
def parseLayersH : Nat → List String → Option (List (Overlay.Fields × HV))
  | 0, _ => none
  | _ + 1, [] => some []
  | fuel + 1, "L" :: "T" :: rest =>
    match Overlay.parseTy (rest.length + 1) rest with
    | some (.struct ofs, r) =>
      match parseHV (r.length + 1) r with
      | some (v, r') => (parseLayersH fuel r').map fun vs => (ofs, v) :: vs
      | none => none
    | _ => none
  | _ + 1, _ => none

def handleHp : List String → String
  | "copy" :: toks =>
    match parseCells (toks.length + 1) toks with
    | some (cells, r) =>
      match parseHV (r.length + 1) r with
      | some (root, []) =>
        let fuel := 200 + 40 * (toks.length)
        match deepCopy fuel cells root with
        | none => "fuel"
        | some (h', v') =>
          let (txt, _) := canon h' v'
          let reach := reachE 100000 h' [] v'
          let fresh := reach.all (fun a => cells.length ≤ a)
          let before := (canon cells root).1
          let after := (canon (h'.take cells.length) root).1
          s!"ok {txt} fresh={if fresh then 1 else 0} frozen={if before == after then 1 else 0}"
      | _ => "bad-op"
    | none => "bad-op"
  | "overlay" :: toks =>
    match parseZeros (toks.length + 1) toks with
    | some (z, "T" :: r1) =>
      match Overlay.parseTy (r1.length + 1) r1 with
      | some (.struct bfs, "T" :: r2) =>
        match Overlay.parseTy (r2.length + 1) r2 with
        | some (.struct ofs, "H" :: r3) =>
          match parseCells (r3.length + 1) r3 with
          | some (cells, bt :: r4) =>
            match bt.toNat?, parseHV (r4.length + 1) r4 with
            | some b, some (root, []) =>
              match verifOverlayH z (200 + 40 * toks.length) bfs ofs cells b root with
              | none => "fuel"
              | some (h', st) => report cells h' st (.ptr b) (reachE 100000 cells [] (.ptr b))
            | _, _ => "bad-op"
          | _ => "bad-op"
        | _ => "bad-op"
      | _ => "bad-op"
    | _ => "bad-op"
  | "compose" :: toks =>
    match parseZeros (toks.length + 1) toks with
    | some (z, "T" :: r1) =>
      match Overlay.parseTy (r1.length + 1) r1 with
      | some (.struct bfs, "H" :: r2) =>
        match parseCells (r2.length + 1) r2 with
        | some (cells, r3) =>
          match parseHV (r3.length + 1) r3 with
          | some (d, r4) =>
            match parseLayersH (r4.length + 1) r4 with
            | some vs =>
              match composeR z (200 + 40 * toks.length) bfs cells d vs with
              | none => "fuel"
              | some (h', st, r) => report cells h' st r []
            | none => "bad-op"
          | none => "bad-op"
        | none => "bad-op"
      | _ => "bad-op"
    | _ => "bad-op"
  | _ => "bad-op"

end Dials.Heap
