/-
Specification vocabulary for C13 (file decoders agree): the contract assumed of the third-party parsers,
the decidable domain predicates of the theorems, and well-typedness of data.
-/
import DialsModel.Model.Decode

namespace Dials.Decode

/-! ### keys -/

def keysOf : KFields → List String
  | .nil => []
  | .cons key _ _ r => key :: keysOf r

def keysNonEmpty : KFields → Bool
  | .nil => true
  | .cons key _ _ r => (key != "") && keysNonEmpty r

def nodupS : List String → Bool
  | [] => true
  | k :: r => !(r.contains k) && nodupS r

def docKeys : List (String × Doc) → List String
  | [] => []
  | (k, _) :: r => k :: docKeys r

/-- the keys of a map document are pairwise different (what a duplicate key does differs between the libraries) -/
def nodupKeys (kvs : List (String × Doc)) : Bool := nodupS (docKeys kvs)

mutual
/-- every struct of the keyed type has non-empty, pairwise different keys -/
def keysOK : KTy → Bool
  | .struct fs => keysNonEmpty fs && nodupS (keysOf fs) && fieldsKeysOK fs
  | .slice e => keysOK e
  | .map e => keysOK e
  | .ptr e => keysOK e
  | _ => true
def fieldsKeysOK : KFields → Bool
  | .nil => true
  | .cons _ _ t r => keysOK t && fieldsKeysOK r
end

/-! ### shapes: a complete value of a type -/

def nilableK : KTy → Bool
  | .ptr _ => true
  | .slice _ => true
  | .map _ => true
  | .set => true
  | .text .ip => true
  | _ => false

mutual
/-- `v` is a complete value of the keyed type (every struct has all its fields, nil only where Go has nil) -/
def shapeK : KTy → Val → Bool
  | .scalar .bool, .bool _ => true
  | .scalar (.int _), .int _ => true
  | .scalar (.uint _), .int _ => true
  | .scalar .float, .float _ => true
  | .scalar .str, .str _ => true
  | .dur, .dur _ => true
  | .pdur, .dur _ => true
  | .text _, .text _ => true
  | .text .ip, .nil => true
  | .slice _, .nil => true
  | .slice e, .list vs => vs.all (shapeK e)
  | .map _, .nil => true
  | .map e, .map kvs => kvs.all fun kv => shapeK e kv.2
  | .set, .nil => true
  | .set, .set _ => true
  | .ptr _, .nil => true
  | .ptr e, .ptr v => shapeK e v
  | .struct fs, .struct vs => shapesK fs vs
  | _, _ => false
def shapesK : KFields → List Val → Bool
  | .nil, [] => true
  | .cons _ _ t r, v :: vs => shapeK t v && shapesK r vs
  | _, _ => false
end

/-- a complete value of a config type (tags play no role; a duration and its substitute have the same values) -/
def shape (T : Ty) (v : Val) : Bool := shapeK (kvTy (fun _ => "") false false T) v

/-! ### the contract assumed of a third-party parser + filler -/

/--
What the theorems assume of the library of format `fmt` (encoding/json, yaml.v2, go-toml, cue), stated on the
keyed view of the type it is handed.  `refFill` satisfies it (`refFill_contract`).  Not covered, hence not
assumed: bytes → document (syntax), duplicate keys, `null`, keys differing only in case, untagged fields
(field-name matching), promotion of anonymous fields, number ↔ string / fraction → integer leniency.
-/
structure FillContract (E : Ext) (fmt : Fmt) (fill : KTy → Doc → Outcome Val) : Prop where
  /-- a struct is filled from a map document: each field from the document found under the field's key (the
      value of the library's struct tag); a field whose key is absent keeps its zero value (nil for pointers,
      slices, maps); the first failing field fails the whole -/
  struct_map : ∀ fs kvs, keysNonEmpty fs = true → nodupKeys kvs = true →
    fill (.struct fs) (.map kvs) = omap .struct (fillFields fill fs kvs)
  struct_scalar : ∀ fs s, fill (.struct fs) (.sc s) = .err decErr
  struct_list : ∀ fs ds, fill (.struct fs) (.list ds) = .err decErr
  /-- a nil pointer is allocated and its target filled -/
  ptr : ∀ t d, fill (.ptr t) d = omap .ptr (fill t d)
  slice_list : ∀ e ds, tomlEmptyStructs fmt e ds.length = false →
    fill (.slice e) (.list ds) = omap .list (mapO (fill e) ds)
  slice_scalar : ∀ e s, fill (.slice e) (.sc s) = .err decErr
  slice_map : ∀ e kvs, fill (.slice e) (.map kvs) = .err decErr
  map_map : ∀ e kvs, nodupKeys kvs = true → fill (.map e) (.map kvs) = omap .map (fillMap (fill e) kvs)
  map_scalar : ∀ e s, fill (.map e) (.sc s) = .err decErr
  map_list : ∀ e ds, fill (.map e) (.list ds) = .err decErr
  /-- scalar tokens at scalar fields, where all four libraries do the same (`scalarFill`): the token's value when
      the kinds match and it is in range, an error for a token of another kind -/
  scalar : ∀ k s r, scalarFill fmt k s = some r → fill (.scalar k) (.sc s) = r
  scalar_list : ∀ k ds, fill (.scalar k) (.list ds) = .err decErr
  scalar_map : ∀ k kvs, fill (.scalar k) (.map kvs) = .err decErr
  /-- time.Duration: integer nanoseconds everywhere; a string only where the library parses durations itself
      (yaml.v2, go-toml) — encoding/json and cue refuse it, which is why dials substitutes the type -/
  dur_scalar_int : ∀ i, fill .dur (.sc (.int i)) = durFill E fmt (.sc (.int i))
  dur_scalar_str : ∀ s, fill .dur (.sc (.str s)) = durFill E fmt (.sc (.str s))
  dur_list : ∀ ds, fill .dur (.list ds) = .err decErr
  dur_map : ∀ kvs, fill .dur (.map kvs) = .err decErr
  /-- jsontypes.ParsingDuration implements json.Unmarshaler: encoding/json and cue hand it the raw value -/
  pdur : fmt.subs = true → ∀ d, fill .pdur d = pdurUnmarshal E d
  /-- encoding.TextUnmarshaler leaves (time.Time, net.IP) get the string's text; go-toml wants its native
      datetime for time.Time -/
  text_str : ∀ k s, fill (.text k) (.sc (.str s)) = textFill E fmt k (.sc (.str s))
  text_time : ∀ k s, fill (.text k) (.sc (.time s)) = textFill E fmt k (.sc (.time s))
  text_list : ∀ k ds, fill (.text k) (.list ds) = .err decErr
  /-- a filler that reports success has produced a complete value of the type it was given -/
  shape : ∀ K d v, fill K d = .ok v → shapeK K v = true
  /-- the libraries recover their own panics: a failure is always an error value -/
  total : ∀ K d c, fill K d ≠ .panic c

/-! ### the domain of the theorems: where tag copying and the substitution reach -/

/-- no struct and no set inside (a type the Transformer does not recurse into) -/
def plainTy : Ty → Bool
  | .struct _ => false
  | .set => false
  | .slice e => plainTy e
  | .map e => plainTy e
  | .ptr e => plainTy e
  | _ => true

mutual
/-- every struct type is the type of a field, or sits behind exactly one pointer or one slice of a field
    (what `isStructishTypedField` recurses into); sets are field types; no field carries
    the format's own tag with an empty value (`json:""` would shadow the copied tag) -/
def reachTy (fmt : Fmt) : Ty → Bool
  | .struct fs => reachFields fmt fs
  | .ptr (.struct fs) => reachFields fmt fs
  | .slice (.struct fs) => reachFields fmt fs
  | .set => true
  | t => plainTy t
def reachFields (fmt : Fmt) : Fields → Bool
  | .nil => true
  | .cons _ _ tg t r => (Tags.lookup tg fmt.libTag != some "") && reachTy fmt t && reachFields fmt r
end

mutual
/-- no anonymous (embedded) fields -/
def noAnon : Ty → Bool
  | .struct fs => noAnonFields fs
  | .slice e => noAnon e
  | .map e => noAnon e
  | .ptr e => noAnon e
  | _ => true
def noAnonFields : Fields → Bool
  | .nil => true
  | .cons _ a _ t r => !a && noAnon t && noAnonFields r
end

/-! ### well-typed data -/

mutual
/-- `x` is data of the keyed type that format `fmt` can express: values in range, map keys pairwise different,
    durations and text leaves whose text the external parsers read back (checked per leaf: `E` is an input) -/
def wt (E : Ext) (fmt : Fmt) : KTy → Val → Bool
  | .scalar .bool, .bool _ => true
  | .scalar (.int b), .int i => inRange (.int b) i && !cueMinInt fmt b i
  | .scalar (.uint b), .int i => inRange (.uint b) i
  | .scalar .float, .float _ => true
  | .scalar .str, .str _ => true
  | .dur, .dur n => !fmt.subs && (E.parseDur (E.durText n) == some n)
  | .pdur, .dur n => fmt.subs && inInt64 n && (E.parseDur (E.durText n) == some n)
  | .text .time, .text s => if fmt = .toml then E.parseTime s == some s else E.parseText .time s == some s
  | .text .ip, .text s => E.parseText .ip s == some s
  | .slice e, .list vs => !tomlEmptyStructs fmt e vs.length && vs.all (wt E fmt e)
  | .map e, .map kvs => nodupS (kvs.map (·.1)) && kvs.all fun kv => wt E fmt e kv.2
  | .ptr e, .ptr v => wt E fmt e v
  | .struct fs, .struct vs => wtFields E fmt fs vs
  | _, _ => false
/-- fields: `nil` (an absent key) where the field can be nil, else well-typed data -/
def wtFields (E : Ext) (fmt : Fmt) : KFields → List Val → Bool
  | .nil, [] => true
  | .cons _ _ t r, .nil :: vs => nilableK t && wtFields E fmt r vs
  | .cons _ _ t r, v :: vs => wt E fmt t v && wtFields E fmt r vs
  | _, _ => false
end

mutual
/-- the sets of `x` are duplicate-free and `x` has the struct skeleton of `T` (what the set→slice wrapper
    turns back exactly) -/
def setsOK : Ty → Val → Bool
  | .set, .nil => true
  | .set, .set ks => nodupS ks
  | .set, _ => false
  | .struct fs, .struct vs => setsOKFields fs vs
  | .struct _, _ => false
  | .ptr (.struct _), .nil => true
  | .ptr (.struct fs), .ptr (.struct vs) => setsOKFields fs vs
  | .ptr (.struct _), _ => false
  | .slice (.struct _), .nil => true
  | .slice (.struct fs), .list vs => vs.all fun v => match v with
      | .struct ws => setsOKFields fs ws
      | _ => false
  | .slice (.struct _), _ => false
  | _, _ => true
def setsOKFields : Fields → List Val → Bool
  | .nil, [] => true
  | .cons _ _ _ t r, v :: vs => setsOK t v && setsOKFields r vs
  | _, _ => false
end

/-- the hypotheses on a config type under which the four decoders are proved to agree -/
def supported (fmt : Fmt) (wrap : Bool) (T : Ty) : Bool :=
  reachTy fmt T && keysOK (kview fmt wrap T)

/-- `x` is data of config type `T` expressible in format `fmt` -/
def wtData (E : Ext) (fmt : Fmt) (wrap : Bool) (T : Ty) (x : Val) : Bool :=
  wt E fmt (kview fmt wrap T) (if wrap then fwdSet T x else x) && (!wrap || setsOK T x)

/-! ### field access by position -/

def Fields.get? : Fields → Nat → Option (Tags × Ty)
  | .nil, _ => none
  | .cons _ _ tg t _, 0 => some (tg, t)
  | .cons _ _ _ _ r, n + 1 => Fields.get? r n

def nilableTy : Ty → Bool
  | .ptr _ => true
  | .slice _ => true
  | .map _ => true
  | .set => true
  | .text .ip => true
  | _ => false

/-! ### YAML's FlattenAnonymous option: what the library is handed, and the forward image of a value -/

def tagKeys (keyf : Tags → String) : Fields → List String
  | .nil => []
  | .cons _ _ tg _ r => keyf tg :: tagKeys keyf r

/-- keys at one struct level when the fields of anonymous struct / pointer-to-struct fields take the place of
    the anonymous field -/
def spliceKeys (keyf : Tags → String) : Fields → List String
  | .nil => []
  | .cons _ true _ (.struct ifs) r => tagKeys keyf ifs ++ spliceKeys keyf r
  | .cons _ true _ (.ptr (.struct ifs)) r => tagKeys keyf ifs ++ spliceKeys keyf r
  | .cons _ _ tg _ r => keyf tg :: spliceKeys keyf r

mutual
/-- the value of the flattened type that carries the same data as `x` (hoisted fields in place of the embedded
    struct; a nil embedded pointer gives nil for each of its fields) -/
def flatVal : Ty → Val → Val
  | .struct fs, .struct vs => .struct (flatVals fs vs)
  | .ptr (.struct fs), .ptr (.struct vs) => .ptr (.struct (flatVals fs vs))
  | .slice (.struct fs), .list vs => .list (vs.map fun v => match v with
      | .struct ws => .struct (flatVals fs ws)
      | w => w)
  | _, v => v
def flatVals : Fields → List Val → List Val
  | .nil, _ => []
  | .cons _ _ _ _ _, [] => []
  | .cons _ true _ (.struct ifs) r, (.struct ws) :: vs => hoistVals ifs ws ++ flatVals r vs
  | .cons _ true _ (.ptr (.struct ifs)) r, (.ptr (.struct ws)) :: vs => hoistVals ifs ws ++ flatVals r vs
  | .cons _ true _ (.ptr (.struct ifs)) r, .nil :: vs => List.replicate (Fields.length ifs) .nil ++ flatVals r vs
  | .cons _ _ _ t r, v :: vs => flatVal t v :: flatVals r vs
def hoistVals : Fields → List Val → List Val
  | .nil, _ => []
  | .cons _ _ _ _ _, [] => []
  | .cons _ _ _ t r, v :: vs => flatVal t v :: hoistVals r vs
end

mutual
/-- `x` has the struct skeleton of `T`, and an embedded pointer-to-struct is either nil or has at least one
    non-nil field (an all-nil one is not distinguishable from nil after flattening: AnonymousFlattenMangler
    returns nil for it) -/
def flatOKVal : Ty → Val → Bool
  | .struct fs, .struct vs => flatOKVals fs vs
  | .struct _, _ => false
  | .ptr (.struct _), .nil => true
  | .ptr (.struct fs), .ptr (.struct vs) => flatOKVals fs vs
  | .ptr (.struct _), _ => false
  | .slice (.struct _), .nil => true
  | .slice (.struct fs), .list vs => vs.all fun v => match v with
      | .struct ws => flatOKVals fs ws
      | _ => false
  | .slice (.struct _), _ => false
  | _, _ => true
def flatOKVals : Fields → List Val → Bool
  | .nil, [] => true
  | .cons _ true _ (.struct ifs) r, (.struct ws) :: vs => hoistOKVals ifs ws && flatOKVals r vs
  | .cons _ true _ (.struct _) _, _ => false
  | .cons _ true _ (.ptr (.struct ifs)) r, (.ptr (.struct ws)) :: vs =>
    hoistOKVals ifs ws && !(ws.all Val.isNil) && flatOKVals r vs
  | .cons _ true _ (.ptr (.struct _)) r, .nil :: vs => flatOKVals r vs
  | .cons _ true _ (.ptr (.struct _)) _, _ => false
  | .cons _ _ _ t r, v :: vs => flatOKVal t v && flatOKVals r vs
  | _, _ => false
def hoistOKVals : Fields → List Val → Bool
  | .nil, [] => true
  | .cons _ _ _ t r, v :: vs => flatOKVal t v && hoistOKVals r vs
  | _, _ => false
end

/-- no field of (non-pointer) struct type at this level -/
def noStructField : Fields → Bool
  | .nil => true
  | .cons _ _ _ (.struct _) _ => false
  | .cons _ _ _ _ r => noStructField r

mutual
/-- wherever the flatten pass reaches, an embedded POINTER-to-struct has no field of plain struct type: such a
    field cannot be nil, but a nil embedded pointer is represented after flattening by nil in each of its hoisted
    fields (`flatVals`), and `unflatTy (.struct _) .nil` is a panic.  (Hypothesis of C13_flatten_lossless; config
    types that went through Pointerify satisfy it: their struct-typed fields are pointers.) -/
def ptrEmbedOK : Ty → Bool
  | .struct fs => ptrEmbedOKFields fs
  | .ptr (.struct fs) => ptrEmbedOKFields fs
  | .slice (.struct fs) => ptrEmbedOKFields fs
  | _ => true
def ptrEmbedOKFields : Fields → Bool
  | .nil => true
  | .cons _ true _ (.struct ifs) r => ptrEmbedOKInner ifs && ptrEmbedOKFields r
  | .cons _ true _ (.ptr (.struct ifs)) r => noStructField ifs && ptrEmbedOKInner ifs && ptrEmbedOKFields r
  | .cons _ _ _ t r => ptrEmbedOK t && ptrEmbedOKFields r
/-- the hoisted fields: the pass only recurses into their types -/
def ptrEmbedOKInner : Fields → Bool
  | .nil => true
  | .cons _ _ _ t r => ptrEmbedOK t && ptrEmbedOKInner r
end

/-! ### concrete types used by counterexample theorems and non-vacuity examples -/

/-- `struct{ MS map[string]struct{ Y string \`dials:"why"\` } \`dials:"ms"\` }` -/
def msType : Ty :=
  .struct (.cons "MS" false [("dials", "ms")]
    (.map (.struct (.cons "Y" false [("dials", "why")] (.scalar .str) .nil))) .nil)

/-- `struct{ LT []time.Time \`dials:"lt"\` }` (finding D34, repaired: the element type is a text leaf) -/
def sliceTimeTy : Ty :=
  .struct (.cons "LT" false [("dials", "lt")] (.slice (.text .time)) .nil)

/-- a pointerified config type with a format-specific tag, a duration, a set and a nested struct -/
def exTy : Ty :=
  .struct (.cons "A" false [("dials", "a"), ("json", "aj")] (.ptr (.scalar (.int 64)))
    (.cons "D" false [("dials", "d")] (.ptr .dur)
    (.cons "S" false [("dials", "s")] .set
    (.cons "In" false [("dials", "in"), ("toml", "inT")]
      (.ptr (.struct (.cons "X" false [("dials", "x")] (.ptr (.scalar .str)) .nil))) .nil))))

def exExt : Ext where
  parseDur s := if s = "1s" then some 1000000000 else none
  durText _ := "1s"
  parseText _ s := some s
  parseTime s := some s

/-- data for `exTy`: `In` absent -/
def exVal : Val :=
  .struct [.ptr (.int 5), .ptr (.dur 1000000000), .set ["p", "q"], .nil]

/-- `struct{ *E }` with `E = struct{ I struct{} \`dials:"i"\` }`: an embedded pointer whose struct has a field of
    plain struct type (outside `ptrEmbedOK`) -/
def embStructTy : Ty :=
  .struct (.cons "E" true [] (.ptr (.struct (.cons "I" false [("dials", "i")] (.struct .nil) .nil))) .nil)

/-- the fields of `embTy` -/
def embFields : Fields :=
  .cons "E" true []
      (.ptr (.struct (.cons "X" false [("dials", "x")] (.ptr (.scalar .str))
        (.cons "Y" false [("dials", "y")] (.ptr (.scalar (.int 64))) .nil))))
    (.cons "F" true [] (.struct (.cons "W" false [("dials", "w")] (.ptr (.scalar .str)) .nil))
    (.cons "Z" false [("dials", "z")] (.ptr (.scalar .str)) .nil))

/-- `struct{ *E; F; Z *string \`dials:"z"\` }` with `E = struct{ X *string \`dials:"x"\`; Y *int64 \`dials:"y"\` }`
    and `F = struct{ W *string \`dials:"w"\` }` -/
def embTy : Ty := .struct embFields

end Dials.Decode
