/-
Text protocol for the parse models.

  ps int <kind> <hex text>           → ok <int> | err
  ps intslice <kind> <hex text>      → ok <int>,<int>… | ok . | err
  ps fmt <int>                       → ok <hex text>
  ps slice|set <empty 0/1> <tok>*    → ok <hex>,… | ok . | err
  ps map|mmap <tok>*                 → ok <hexk>=<hexv>,… | ok . | err
  tok ::= s:<hex> | S | w:<hex> | , | : | o | e | x
  ps scan slice|map <hex text>       → toks <tok>* | ood        (character-level scanner model, ASCII text)
  ps quote <hex text>                → ok <hex text> | ood      (strconv.Quote, ASCII)
  ps dur <hex text>                  → ok <int> | err | ood     (time.ParseDuration, bytes)
  ps durfmt <int>                    → ok <hex text>            (time.Duration.String)
  ps bool <hex text>                 → ok true|false | err      (strconv.ParseBool)
  ps qitems <item>*                  → ok <hex quoted> <hex bytes>   item ::= a<dec> | b<dec> | p<dec> | e<dec>  (strconv.Quote on items)
  ps unqtok <hex text>               → ok <tok> <rest length> | err  (one string literal at the start of a byte text)
  ps text slice|set|map|mmap <hex>   → ok … | err | ood         (text to value: scanner model, then the state machines)
-/
import DialsModel.Model.ParseInt
import DialsModel.Model.Split
import DialsModel.Model.Scan
import DialsModel.Model.Duration
import DialsModel.Model.QuoteItems
import DialsModel.Model.Proto

namespace Dials.Parse
open Dials.Proto

def kindOf : String → Option IntKind
  | "i8" => some .i8 | "i16" => some .i16 | "i32" => some .i32 | "i64" => some .i64 | "int" => some .int
  | "u8" => some .u8 | "u16" => some .u16 | "u32" => some .u32 | "u64" => some .u64 | "uint" => some .uint
  | "uintptr" => some .uintptr
  | _ => none

def parseTok (t : String) : Option Tok :=
  if t == "," then some .comma
  else if t == ":" then some .colon
  else if t == "o" then some .other
  else if t == "e" then some .eof
  else if t == "x" then some .scanErr
  else if t == "S" then some (.str none)
  else if t.startsWith "s:" then (hexDecode (t.drop 2).toString).map fun s => .str (some s)
  else if t.startsWith "w:" then (hexDecode (t.drop 2).toString).map .word
  else none

def tokOut : Tok → String
  | .str none => "S"
  | .str (some s) => "s:" ++ hexEnc s
  | .word w => "w:" ++ hexEnc w
  | .comma => ","
  | .colon => ":"
  | .other => "o"
  | .eof => "e"
  | .scanErr => "x"

def listOut : Outcome (List S) → String
  | .ok ws => "ok " ++ hexListEnc ws
  | _ => "err"

def pairsOut : Outcome (List (S × S)) → String
  | .ok [] => "ok ."
  | .ok ps => "ok " ++ String.intercalate "," (ps.map fun p => hexEnc p.1 ++ "=" ++ hexEnc p.2)
  | _ => "err"

def handlePs : List String → String
  | ["int", k, h] =>
    match kindOf k, hexDecode h with
    | some k, some s =>
      if !allAscii s then "ood" else
      match parseNumber k s with
      | .ok v => s!"ok {v}"
      | _ => "err"
    | _, _ => "bad-op"
  | ["intslice", k, h] =>
    match kindOf k, hexDecode h with
    | some k, some s =>
      if !allAscii s then "ood" else
      match parseIntSlice k s with
      | .ok [] => "ok ."
      | .ok vs => "ok " ++ String.intercalate "," (vs.map toString)
      | _ => "err"
    | _, _ => "bad-op"
  | ["fmt", v] =>
    match v.toInt? with
    | some v => "ok " ++ hexEnc (formatInt v)
    | none => "bad-op"
  | "slice" :: e :: toks =>
    match toks.mapM parseTok with
    | some ts => listOut (stringSlice (e == "1") ts)
    | none => "bad-op"
  | "set" :: e :: toks =>
    match toks.mapM parseTok with
    | some ts => listOut (stringSet (e == "1") ts)
    | none => "bad-op"
  | "map" :: toks =>
    match toks.mapM parseTok with
    | some ts => pairsOut (mapStringString ts)
    | none => "bad-op"
  | "mmap" :: toks =>
    match toks.mapM parseTok with
    | some ts => pairsOut (mapStringStringSlice ts)
    | none => "bad-op"
  | ["scan", what, h] =>
    match hexDecode h with
    | some s =>
      if !allAscii s then "ood" else
      match scanText (what == "map") s with
      | some ts => "toks " ++ String.intercalate " " (ts.map tokOut)
      | none => "ood"
    | none => "bad-op"
  | ["text", what, h] =>
    match hexDecode h with
    | some s =>
      if !allAscii s then "ood" else
      match what with
      | "slice" => (sliceText s).elim "ood" listOut
      | "set" => (setText s).elim "ood" listOut
      | "map" => (mapText s).elim "ood" pairsOut
      | "mmap" => (multiMapText s).elim "ood" pairsOut
      | _ => "bad-op"
    | none => "bad-op"
  | "qitems" :: items =>
    let parse1 (t : String) : Option QItem :=
      match t.toList with
      | 'a' :: r => (String.ofList r).toNat?.map fun n => QItem.ascii (Char.ofNat n)
      | 'b' :: r => (String.ofList r).toNat?.map QItem.bad
      | 'p' :: r => (String.ofList r).toNat?.map QItem.print
      | 'e' :: r => (String.ofList r).toNat?.map QItem.esc
      | _ => none
    match items.mapM parse1 with
    | some is => "ok " ++ hexEnc (quoteItems is) ++ " " ++ hexEnc (itemsBytes is)
    | none => "bad-op"
  | ["unqtok", h] =>
    match hexDecode h with
    | some (c :: cs) =>
      if c != '"' then "bad-op" else
      match scanTok false '"' cs with
      | .tok t rest => s!"ok {tokOut t} {rest.length}"
      | .err => "err"
    | _ => "bad-op"
  | ["dur", h] =>
    match hexDecode h with
    | some s =>
      match parseDuration s with
      | .ok d => s!"ok {d}"
      | .err => "err"
      | .ood => "ood"
    | none => "bad-op"
  | ["durfmt", v] =>
    match v.toInt? with
    | some v => "ok " ++ hexEnc (fmtDuration v)
    | none => "bad-op"
  | ["bool", h] =>
    match hexDecode h with
    | some s =>
      match parseBool s with
      | some b => s!"ok {b}"
      | none => "err"
    | none => "bad-op"
  | ["quote", h] =>
    match hexDecode h with
    | some s => if allAscii s then "ok " ++ hexEnc (quote s) else "ood"
    | none => "bad-op"
  | _ => "bad-op"

end Dials.Parse
