/-
Symbolic execution of the ez script: the early error exits (Config fails, no decoder, the file
cannot be read, the file's value does not stack).  See EzExec.lean.
-/
import DialsModel.Lemmas.EzExec

namespace Dials.Ez
open Dials Dials.Runtime

set_option maxRecDepth 8000
set_option linter.unusedSimpArgs false
set_option maxHeartbeats 1600000

/-- Params.Config fails on the file-less sources: nothing was started -/
theorem ezRun_configErr (E : Env) (sch : Sched) (h0 : E.W.stackOk (baseCfg E) = false) :
    summary E.W (ezRun E sch) =
      { err := some .config, view := none, events := none, skip := none
        verifies := [], globals := [], later := [], received := [], path := none
        slots := none, idle := none, quiet := none, room := none } := by
  simp only [baseCfg, blankV] at h0
  ez_exec [h0]

/-- the decoder factory has no decoder for the path -/
theorem ezRun_noDecoder (E : Env) (sch : Sched) (p : Nat)
    (h0 : E.W.stackOk (baseCfg E) = true) (hp : E.path (baseCfg E) = some p) (hd : E.decoder p = false) :
    summary E.W (ezRun E sch) =
      { err := some .noDecoder, view := some ⟨0, baseCfg E⟩, events := some none, skip := some true
        verifies := [], globals := [], later := [], received := [], path := some p
        slots := some (baseCfg E), idle := some E.watch, quiet := some true, room := some true } := by
  simp only [baseCfg, blankV] at hp h0 ⊢
  obtain ⟨mp, cp, race, cw⟩ := sch
  rcases Bool.eq_false_or_eq_true E.watch with hw | hw <;>
  cases mp <;> cases cp <;> ez_exec [hp, hd, h0, hw]

/-- the file cannot be opened or decoded -/
theorem ezRun_fileErr (E : Env) (sch : Sched) (p : Nat)
    (h0 : E.W.stackOk (baseCfg E) = true) (hp : E.path (baseCfg E) = some p) (hd : E.decoder p = true)
    (hf : E.file p = none) :
    summary E.W (ezRun E sch) =
      { err := some .fileValue, view := some ⟨0, baseCfg E⟩, events := some none, skip := some true
        verifies := [], globals := [], later := [], received := [], path := some p
        slots := some (baseCfg E), idle := some E.watch, quiet := some true, room := some true } := by
  simp only [baseCfg, blankV] at hp h0 ⊢
  obtain ⟨mp, cp, race, cw⟩ := sch
  rcases Bool.eq_false_or_eq_true E.watch with hw | hw <;>
  cases mp <;> cases cp <;> ez_exec [hp, hd, hf, h0, hw]

/-- the file's value does not stack on the other sources: SetSource fails, nothing is installed; the
callback goroutine, when it gets to the queued error event, calls OnWatchedError with the file-less
config as `oldConfig` (`later`): stack-error events are never withheld -/
theorem ezRun_stackErr (E : Env) (sch : Sched) (p v : Nat)
    (h0 : E.W.stackOk (baseCfg E) = true) (hp : E.path (baseCfg E) = some p) (hd : E.decoder p = true)
    (hf : E.file p = some v) (h1 : E.W.stackOk (fullCfg E v) = false) :
    summary E.W (ezRun E sch) =
      { err := some (.integrate .errStack), view := some ⟨0, baseCfg E⟩, events := some none, skip := some true
        verifies := [], globals := [], later := [.onErr .stack (baseCfg E) none], received := [], path := some p
        slots := some (fullCfg E v), idle := some E.watch, quiet := some true, room := some true } := by
  simp only [baseCfg, fullCfg, blankV] at hp h0 h1 ⊢
  obtain ⟨mp, cp, race, cw⟩ := sch
  rcases Bool.eq_false_or_eq_true E.watch with hw | hw <;>
  cases mp <;> cases cp <;> ez_exec [hp, hd, hf, h0, h1, hw]

end Dials.Ez
