/-
Every byte string - valid UTF-8 or not, printable or not - comes back from its quoted form: the quoted form of any
item list is scanned as one string token whose value is the items' bytes (Model/QuoteItems.lean).
-/
import DialsModel.Model.QuoteItems
import DialsModel.Lemmas.Scan

namespace Dials.Parse
open Dials

theorem toNat_ofNat_lt (n : Nat) (h : n < 0xD800) : (Char.ofNat n).toNat = n := by
  have : n.isValidChar := by left; omega
  simp [Char.ofNat, this, Char.ofNatAux, Char.toNat]

/-! ### bytes ≥ 0x80 pass through both machines -/

theorem high_ne (c d : Char) (hc : 128 ≤ c.toNat) (hd : d.toNat < 128) : (c == d) = false := by
  rw [beq_eq_false_iff_ne]
  intro h; subst h; omega

theorem scanStep_high (c : Char) (hc : 128 ≤ c.toNat) : scanStep '"' .normal c = .next .normal 1 := by
  simp [scanStep, high_ne c '"' hc (by decide), high_ne c '\n' hc (by decide), high_ne c '\\' hc (by decide)]

theorem unqStep_high (c : Char) (hc : 128 ≤ c.toNat) : unqStep '"' .normal c = .next .normal [c] := by
  simp [unqStep, high_ne c '"' hc (by decide), high_ne c '\n' hc (by decide), high_ne c '\\' hc (by decide)]

theorem run_high (l : List Char) (h : ∀ c ∈ l, 128 ≤ c.toNat) :
    runScan '"' .normal l = some (.normal, l.length) ∧ runUnq '"' .normal l = some (.normal, l) := by
  induction l with
  | nil => simp [runScan, runUnq]
  | cons c cs ih =>
    have hc := h c (by simp)
    have := ih (fun x hx => h x (by simp [hx]))
    simp [runScan, runUnq, scanStep_high c hc, unqStep_high c hc, this.1, this.2, Nat.add_comm]

theorem encodeRune_high (r : Nat) (h : 128 ≤ r) (hv : validRune r = true) : ∀ c ∈ encodeRune r, 128 ≤ c.toNat := by
  have hr : r ≤ 0x10FFFF := by
    simp only [validRune, Bool.or_eq_true, Bool.and_eq_true, decide_eq_true_eq] at hv
    omega
  intro c hc
  unfold encodeRune at hc
  have h0 : ¬ r < 0x80 := by omega
  simp only [h0, if_false] at hc
  split at hc
  · simp only [List.mem_cons, List.not_mem_nil, or_false] at hc
    rcases hc with rfl | rfl <;> rw [toNat_ofNat_lt _ (by omega)] <;> omega
  · split at hc
    · simp only [List.mem_cons, List.not_mem_nil, or_false] at hc
      rcases hc with rfl | rfl | rfl <;> rw [toNat_ofNat_lt _ (by omega)] <;> omega
    · simp only [List.mem_cons, List.not_mem_nil, or_false] at hc
      rcases hc with rfl | rfl | rfl | rfl <;> rw [toNat_ofNat_lt _ (by omega)] <;> omega

/-! ### hexadecimal escapes -/

theorem hexDigit_table : ∀ d : Fin 16, hexValS (hexDigitL d.val) = some d.val ∧ digitOK 16 (hexDigitL d.val) = true := by
  decide +kernel

theorem hexDigit_val (d : Nat) (h : d < 16) : hexValS (hexDigitL d) = some d ∧ digitOK 16 (hexDigitL d) = true :=
  hexDigit_table ⟨d, h⟩

/-- the scanner over `k` hexadecimal digits when `k + j` are still required (`j ≥ 1`: more follow) -/
theorem runScan_hex (k : Nat) : ∀ (j v : Nat), 1 ≤ j →
    runScan '"' (.dig 16 (k + j)) (hexDigitsL k v) = some (.dig 16 j, 0) := by
  induction k with
  | zero => intro j v _; simp [hexDigitsL, runScan]
  | succ k ih =>
    intro j v hj
    have h1 := ih (j + 1) (v / 16) (by omega)
    have hd := (hexDigit_val (v % 16) (by omega)).2
    have h2 : runScan '"' (.dig 16 (j + 1)) [hexDigitL (v % 16)] = some (.dig 16 j, 0) := by
      simp [runScan, scanStep, hd, show ¬ j + 1 ≤ 1 from by omega]
    have h1' : runScan '"' (.dig 16 (k + 1 + j)) (hexDigitsL k (v / 16)) = some (.dig 16 (j + 1), 0) := by
      rw [show k + 1 + j = k + (j + 1) from by omega]; exact h1
    have := runScan_append '"' _ _ _ _ _ _ _ h1' h2
    simpa [hexDigitsL] using this

/-- the unquoter over `k` hexadecimal digits when `k + j` are still required: the accumulator takes them in -/
theorem runUnq_hex (kind : Char) (k : Nat) : ∀ (j v acc : Nat), 1 ≤ j →
    runUnq '"' (.dig kind 16 (k + j) acc) (hexDigitsL k v) = some (.dig kind 16 j (acc * 16 ^ k + v % 16 ^ k), []) := by
  induction k with
  | zero => intro j v acc _; simp [hexDigitsL, runUnq, Nat.mod_one]
  | succ k ih =>
    intro j v acc hj
    have h1 := ih (j + 1) (v / 16) acc (by omega)
    have hd := hexDigit_val (v % 16) (by omega)
    have h2 : runUnq '"' (.dig kind 16 (j + 1) (acc * 16 ^ k + v / 16 % 16 ^ k)) [hexDigitL (v % 16)]
        = some (.dig kind 16 j ((acc * 16 ^ k + v / 16 % 16 ^ k) * 16 + v % 16), []) := by
      simp [runUnq, unqStep, hd.1, hd.2, show ¬ j + 1 ≤ 1 from by omega]
    have h1' : runUnq '"' (.dig kind 16 (k + 1 + j) acc) (hexDigitsL k (v / 16))
        = some (.dig kind 16 (j + 1) (acc * 16 ^ k + v / 16 % 16 ^ k), []) := by
      rw [show k + 1 + j = k + (j + 1) from by omega]; exact h1
    have := runUnq_append '"' _ _ _ _ _ _ _ h1' h2
    have harith : (acc * 16 ^ k + v / 16 % 16 ^ k) * 16 + v % 16 = acc * 16 ^ (k + 1) + v % 16 ^ (k + 1) := by
      have hm : v % 16 ^ (k + 1) = v % 16 + 16 * (v / 16 % 16 ^ k) := by
        rw [Nat.pow_succ, Nat.mul_comm, Nat.mod_mul]
      rw [hm, Nat.pow_succ]
      generalize 16 ^ k = P
      generalize v / 16 % P = Q
      rw [Nat.add_mul, Nat.mul_assoc]
      omega
    rw [harith] at this
    simpa [hexDigitsL] using this

/-- a whole escape of `K + 1` hexadecimal digits: the scanner is back in the normal state, one character denoted -/
theorem runScan_hex_all (K v : Nat) :
    runScan '"' (.dig 16 (K + 1)) (hexDigitsL (K + 1) v) = some (.normal, 1) := by
  have h1 := runScan_hex K 1 (v / 16) (by omega)
  have hd := (hexDigit_val (v % 16) (by omega)).2
  have h2 : runScan '"' (.dig 16 1) [hexDigitL (v % 16)] = some (.normal, 1) := by
    simp [runScan, scanStep, hd]
  have := runScan_append '"' _ _ _ _ _ _ _ h1 h2
  simpa [hexDigitsL] using this

/-- ... and the unquoter has the value `v mod 16^(K+1)` in its accumulator when it finishes the escape -/
theorem runUnq_hex_x (K v : Nat) :
    runUnq '"' (.dig 'x' 16 (K + 1) 0) (hexDigitsL (K + 1) v) = some (.normal, [Char.ofNat (v % 16 ^ (K + 1))]) := by
  have h1 := runUnq_hex 'x' K 1 (v / 16) 0 (by omega)
  have hd := hexDigit_val (v % 16) (by omega)
  have hm : v % 16 ^ (K + 1) = v % 16 + 16 * (v / 16 % 16 ^ K) := by
    rw [Nat.pow_succ, Nat.mul_comm, Nat.mod_mul]
  have h2 : runUnq '"' (.dig 'x' 16 1 (0 * 16 ^ K + v / 16 % 16 ^ K)) [hexDigitL (v % 16)]
      = some (.normal, [Char.ofNat (v % 16 ^ (K + 1))]) := by
    simp [runUnq, unqStep, hd.1, hd.2, hm]
    congr 1; omega
  have := runUnq_append '"' _ _ _ _ _ _ _ h1 h2
  simpa [hexDigitsL] using this

theorem runUnq_hex_u (kind : Char) (hk : kind = 'u' ∨ kind = 'U') (K v : Nat) (hv : validRune (v % 16 ^ (K + 1)) = true) :
    runUnq '"' (.dig kind 16 (K + 1) 0) (hexDigitsL (K + 1) v) = some (.normal, encodeRune (v % 16 ^ (K + 1))) := by
  have h1 := runUnq_hex kind K 1 (v / 16) 0 (by omega)
  have hd := hexDigit_val (v % 16) (by omega)
  have hm : v % 16 ^ (K + 1) = v % 16 + 16 * (v / 16 % 16 ^ K) := by
    rw [Nat.pow_succ, Nat.mul_comm, Nat.mod_mul]
  have hval : (0 * 16 ^ K + v / 16 % 16 ^ K) * 16 + v % 16 = v % 16 ^ (K + 1) := by rw [hm]; omega
  have hkx : (kind == 'x') = false := by rcases hk with rfl | rfl <;> decide
  have hko : (kind == 'o') = false := by rcases hk with rfl | rfl <;> decide
  have h2 : runUnq '"' (.dig kind 16 1 (0 * 16 ^ K + v / 16 % 16 ^ K)) [hexDigitL (v % 16)]
      = some (.normal, encodeRune (v % 16 ^ (K + 1))) := by
    simp only [runUnq, unqStep, hd.2, if_true, hd.1, Option.getD_some, Nat.le_refl, hkx, hko, Bool.false_eq_true, if_false, hval, hv,
      Option.map_some, List.append_nil]
  have := runUnq_append '"' _ _ _ _ _ _ _ h1 h2
  simpa [hexDigitsL] using this

/-! ### one item -/

theorem hexDigit_noNUL : ∀ d : Fin 16, (hexDigitL d.val == NUL) = false := by decide +kernel

theorem hexDigitsL_noNUL (k : Nat) : ∀ v, (hexDigitsL k v).contains NUL = false := by
  induction k with
  | zero => intro v; simp [hexDigitsL]
  | succ k ih =>
    intro v
    have h1 := ih (v / 16)
    have h2 := hexDigit_noNUL ⟨v % 16, by omega⟩
    simp only [List.contains_eq_mem, decide_eq_false_iff_not] at h1
    simp only [hexDigitsL, List.contains_eq_mem, List.mem_append, List.mem_singleton, decide_eq_false_iff_not]
    intro h
    rcases h with h | h
    · exact h1 h
    · rw [← h] at h2; simp at h2

theorem item_run (i : QItem) (h : i.ok) :
    (∃ n, runScan '"' .normal i.quoted = some (.normal, n)) ∧ runUnq '"' .normal i.quoted = some (.normal, i.bytes) ∧
      i.quoted.contains NUL = false := by
  cases i with
  | ascii c => exact ⟨⟨1, quoteChar_scan c h⟩, quoteChar_unq c h, quoteChar_noNUL c h⟩
  | bad b =>
    obtain ⟨h1, h2⟩ := h
    have hs := runScan_hex_all 1 b
    have hu := runUnq_hex_x 1 b
    have hb : b % 16 ^ (1 + 1) = b := Nat.mod_eq_of_lt (by omega)
    rw [hb] at hu
    refine ⟨⟨1, ?_⟩, ?_, ?_⟩
    · simp only [QItem.quoted, runScan, scanStep]
      simp [simpleEsc, digitOK, hexValS, hs]
    · simp only [QItem.quoted, QItem.bytes, runUnq, unqStep]
      simp [simpleEsc, digitOK, hexValS, hu]
    · have := hexDigitsL_noNUL 2 b
      simp only [List.contains_eq_mem, decide_eq_false_iff_not] at this
      simp only [QItem.quoted, List.contains_eq_mem, List.mem_cons, decide_eq_false_iff_not]
      intro hx
      rcases hx with hx | hx | hx
      · exact absurd hx (by decide)
      · exact absurd hx (by decide)
      · exact this hx
  | print r =>
    obtain ⟨h1, h2⟩ := h
    have hh := encodeRune_high r h1 h2
    have := run_high (encodeRune r) hh
    refine ⟨⟨_, this.1⟩, this.2, ?_⟩
    simp only [QItem.quoted, List.contains_eq_mem, decide_eq_false_iff_not]
    intro hx
    have := hh NUL hx
    simp [NUL] at this
  | esc r =>
    obtain ⟨h1, h2⟩ := h
    have hr : r ≤ 0x10FFFF := by
      simp only [validRune, Bool.or_eq_true, Bool.and_eq_true, decide_eq_true_eq] at h2
      omega
    by_cases hs : r < 0x10000
    · have hm : r % 16 ^ (3 + 1) = r := Nat.mod_eq_of_lt (by omega)
      have hsc := runScan_hex_all 3 r
      have hu := runUnq_hex_u 'u' (Or.inl rfl) 3 r (by rw [hm]; exact h2)
      rw [hm] at hu
      refine ⟨⟨1, ?_⟩, ?_, ?_⟩
      · simp only [QItem.quoted, hs, if_true, runScan, scanStep]
        simp [simpleEsc, digitOK, hexValS, hsc]
      · simp only [QItem.quoted, QItem.bytes, hs, if_true, runUnq, unqStep]
        simp [simpleEsc, digitOK, hexValS, hu]
      · have := hexDigitsL_noNUL 4 r
        simp only [List.contains_eq_mem, decide_eq_false_iff_not] at this
        simp only [QItem.quoted, hs, if_true, List.contains_eq_mem, List.mem_cons, decide_eq_false_iff_not]
        intro hx
        rcases hx with hx | hx | hx
        · exact absurd hx (by decide)
        · exact absurd hx (by decide)
        · exact this hx
    · have hm : r % 16 ^ (7 + 1) = r := Nat.mod_eq_of_lt (by omega)
      have hsc := runScan_hex_all 7 r
      have hu := runUnq_hex_u 'U' (Or.inr rfl) 7 r (by rw [hm]; exact h2)
      rw [hm] at hu
      refine ⟨⟨1, ?_⟩, ?_, ?_⟩
      · simp only [QItem.quoted, hs, if_false, runScan, scanStep]
        simp [simpleEsc, digitOK, hexValS, hsc]
      · simp only [QItem.quoted, QItem.bytes, hs, if_false, runUnq, unqStep]
        simp [simpleEsc, digitOK, hexValS, hu]
      · have := hexDigitsL_noNUL 8 r
        simp only [List.contains_eq_mem, decide_eq_false_iff_not] at this
        simp only [QItem.quoted, hs, if_false, List.contains_eq_mem, List.mem_cons, decide_eq_false_iff_not]
        intro hx
        rcases hx with hx | hx | hx
        · exact absurd hx (by decide)
        · exact absurd hx (by decide)
        · exact this hx

/-! ### every item list -/

theorem items_run (is : List QItem) (h : ∀ i ∈ is, i.ok) :
    (∃ n, runScan '"' .normal (is.flatMap QItem.quoted) = some (.normal, n)) ∧
      runUnq '"' .normal (is.flatMap QItem.quoted) = some (.normal, itemsBytes is) ∧
      (is.flatMap QItem.quoted).contains NUL = false := by
  induction is with
  | nil => simp [runScan, runUnq, itemsBytes]
  | cons i is ih =>
    obtain ⟨⟨n1, hs1⟩, hu1, hn1⟩ := item_run i (h i (by simp))
    obtain ⟨⟨n2, hs2⟩, hu2, hn2⟩ := ih (fun x hx => h x (by simp [hx]))
    refine ⟨⟨n1 + n2, ?_⟩, ?_, ?_⟩
    · simpa using runScan_append '"' _ _ _ _ _ _ _ hs1 hs2
    · simpa [itemsBytes] using runUnq_append '"' _ _ _ _ _ _ _ hu1 hu2
    · simp only [List.flatMap_cons, List.contains_eq_mem, List.mem_append, decide_eq_false_iff_not] at *
      intro hx
      rcases hx with hx | hx
      · exact hn1 hx
      · exact hn2 hx

/-- the quoted form of ANY byte string, followed by anything, is scanned as one string token whose value is the string -/
theorem scanTok_quoteItems (m : Bool) (is : List QItem) (h : ∀ i ∈ is, i.ok) (rest : List Char) :
    ∃ cs, quoteItems is ++ rest = '"' :: cs ∧ scanTok m '"' cs = .tok (.str (some (itemsBytes is))) rest := by
  obtain ⟨⟨n, hs⟩, hu, _⟩ := items_run is h
  refine ⟨is.flatMap QItem.quoted ++ '"' :: rest, by simp [quoteItems], ?_⟩
  have h1 : scanStrBody '"' .normal 0 (is.flatMap QItem.quoted ++ '"' :: rest) = some (is.flatMap QItem.quoted, 0 + n, rest) := by
    rw [scanStrBody_run '"' _ _ _ _ _ _ hs]
    simp [scanStrBody, scanStep]
  have h2 := unqBody_run_end '"' _ _ _ hu
  simp [scanTok, identRune_quote, h1, h2]

theorem quoteItems_noNUL (is : List QItem) (h : ∀ i ∈ is, i.ok) : (quoteItems is).contains NUL = false := by
  obtain ⟨_, _, hn⟩ := items_run is h
  simp only [List.contains_eq_mem, decide_eq_false_iff_not] at hn
  simp only [quoteItems, List.contains_eq_mem, List.mem_cons, List.mem_append, decide_eq_false_iff_not]
  intro hx
  rcases hx with hx | hx | hx
  · exact absurd hx (by decide)
  · exact hn hx
  · rcases hx with hx | hx
    · exact absurd hx (by decide)
    · simp at hx

/-- for an ASCII string the items are its characters and `quoteItems` is `quote` -/
theorem quoteItems_ascii (s : S) : quoteItems (s.map QItem.ascii) = quote s ∧ itemsBytes (s.map QItem.ascii) = s := by
  constructor
  · simp [quoteItems, quote, quoteBody, List.flatMap_map, QItem.quoted]
  · induction s with
    | nil => rfl
    | cons c cs ih => simp [itemsBytes, QItem.bytes] at ih ⊢; exact ih

end Dials.Parse
