/- Lemmas about the ParseInt / Split models used by the C15 properties. -/
import DialsModel.Model.ParseInt
import DialsModel.Model.Split
import DialsModel.Lemmas.Chars

namespace Dials.Parse
open Dials

/-! ### token machines -/

theorem canonSlice_cons2 (x y : S) (ys : List S) :
    canonSlice (x :: y :: ys) = .str (some x) :: .comma :: canonSlice (y :: ys) := rfl

theorem splitSlice_canon_step (x : S) (xs : List S) (acc : List S) :
    splitSlice (canonSlice (x :: xs)) true acc = splitSlice (canonSlice xs) true (acc ++ [x]) := by
  cases xs with
  | nil => simp [canonSlice, splitSlice]
  | cons y ys => simp [canonSlice_cons2, splitSlice]

theorem splitSlice_canon (zs : List S) : ∀ acc, splitSlice (canonSlice zs) true acc = .ok (acc ++ zs) := by
  induction zs with
  | nil => intro acc; simp [canonSlice, splitSlice]
  | cons x xs ih => intro acc; rw [splitSlice_canon_step, ih]; simp

theorem splitSet_canon_step (x : S) (xs : List S) (acc : List S) (hx : x ∉ acc) :
    splitSet (canonSlice (x :: xs)) true acc = splitSet (canonSlice xs) true (acc ++ [x]) := by
  cases xs with
  | nil => simp [canonSlice, splitSet, hx]
  | cons y ys => simp [canonSlice_cons2, splitSet, hx]

theorem splitSet_canon_dup (x : S) (xs : List S) (acc : List S) (hx : x ∈ acc) :
    splitSet (canonSlice (x :: xs)) true acc = .err "already present" := by
  cases xs with
  | nil => simp [canonSlice, splitSet, hx]
  | cons y ys => simp [canonSlice_cons2, splitSet, hx]

theorem splitSet_canon (zs : List S) :
    ∀ acc, zs.Nodup → (∀ z ∈ zs, z ∉ acc) → splitSet (canonSlice zs) true acc = .ok (acc ++ zs) := by
  induction zs with
  | nil => intro acc _ _; simp [canonSlice, splitSet]
  | cons x xs ih =>
    intro acc hnd hdis
    rw [List.nodup_cons] at hnd
    rw [splitSet_canon_step x xs acc (hdis x (by simp)), ih _ hnd.2]
    · simp
    · intro z hz hmem
      rw [List.mem_append] at hmem
      rcases hmem with h | h
      · exact hdis z (by simp [hz]) h
      · simp at h; subst h; exact hnd.1 hz

theorem splitSet_canon_reject (zs : List S) :
    ∀ acc, ¬ (zs.Nodup ∧ ∀ z ∈ zs, z ∉ acc) → ∃ e, splitSet (canonSlice zs) true acc = .err e := by
  induction zs with
  | nil => intro acc h; exact absurd ⟨List.nodup_nil, by simp⟩ h
  | cons x xs ih =>
    intro acc h
    by_cases hx : x ∈ acc
    · exact ⟨_, splitSet_canon_dup x xs acc hx⟩
    · rw [splitSet_canon_step x xs acc hx]
      apply ih
      intro ⟨hnd, hdis⟩
      apply h
      refine ⟨List.nodup_cons.2 ⟨?_, hnd⟩, ?_⟩
      · intro hmem; exact hdis x hmem (by simp)
      · intro z hz
        rw [List.mem_cons] at hz
        rcases hz with rfl | hz
        · exact hx
        · intro hmem; exact hdis z hz (by simp [hmem])

/-- the state after a completed pair -/
def st0 (acc : List (S × S)) : MapSt :=
  { inKey := true, inValue := false, curKey := [], curVal := [], acc := acc }

theorem st0_nil : ({} : MapSt) = st0 [] := rfl

theorem canonMap_cons2 (k v : S) (p : S × S) (rest : List (S × S)) :
    canonMap ((k, v) :: p :: rest) = .str (some k) :: .colon :: .str (some v) :: .comma :: canonMap (p :: rest) := by
  cases p; rfl

theorem splitMap_canon_step (add : List (S × S) → S → S → Outcome (List (S × S)))
    (k v : S) (rest : List (S × S)) (acc acc' : List (S × S)) (hk : k ≠ [])
    (hadd : add acc k v = .ok acc') :
    splitMapWith add (canonMap ((k, v) :: rest)) (st0 acc) = splitMapWith add (canonMap rest) (st0 acc') := by
  have hk' : k.isEmpty = false := by cases k <;> simp_all
  cases rest with
  | nil => simp [canonMap, splitMapWith, st0, hk', hadd]
  | cons p rest => simp [canonMap_cons2, splitMapWith, st0, hk', hadd]

theorem splitMap_multi (kvs : List (S × S)) :
    ∀ acc, (∀ p ∈ kvs, p.1 ≠ []) → splitMapWith addMulti (canonMap kvs) (st0 acc) = .ok (acc ++ kvs) := by
  induction kvs with
  | nil => intro acc _; simp [canonMap, splitMapWith, st0]
  | cons p rest ih =>
    intro acc hne
    obtain ⟨k, v⟩ := p
    rw [splitMap_canon_step addMulti k v rest acc (acc ++ [(k, v)]) (hne (k, v) (by simp)) rfl,
      ih _ (fun p hp => hne p (by simp [hp]))]
    simp

theorem splitMap_unique (kvs : List (S × S)) :
    ∀ acc, (kvs.map (·.1)).Nodup → (∀ p ∈ kvs, p.1 ≠ []) → (∀ p ∈ kvs, ∀ q ∈ acc, q.1 ≠ p.1) →
      splitMapWith addUnique (canonMap kvs) (st0 acc) = .ok (acc ++ kvs) := by
  induction kvs with
  | nil => intro acc _ _ _; simp [canonMap, splitMapWith, st0]
  | cons p rest ih =>
    intro acc hnd hne hdis
    obtain ⟨k, v⟩ := p
    simp only [List.map_cons, List.nodup_cons] at hnd
    have hadd : addUnique acc k v = .ok (acc ++ [(k, v)]) := by
      have : acc.any (fun p => p.1 == k) = false := by
        rw [List.any_eq_false]
        intro q hq
        have := hdis (k, v) (by simp) q hq
        simpa using this
      simp [addUnique, this]
    rw [splitMap_canon_step addUnique k v rest acc _ (hne (k, v) (by simp)) hadd,
      ih _ hnd.2 (fun p hp => hne p (by simp [hp]))]
    · simp
    · intro p hp q hq
      rw [List.mem_append] at hq
      rcases hq with hq | hq
      · exact hdis p (by simp [hp]) q hq
      · simp at hq; subst hq
        intro heq
        apply hnd.1
        simp only at heq
        rw [heq]
        exact List.mem_map_of_mem hp

/-! ### decimal digits -/

def digit (d : Nat) : Char := Char.ofNat (48 + d)

theorem digit_toNat (d : Nat) (h : d < 10) : (digit d).toNat = 48 + d :=
  toNat_ofNat_small _ (by omega)

theorem digit_isDigit (d : Nat) (h : d < 10) : isDigitA (digit d) = true := by
  rw [isDigitA_iff, digit_toNat d h]; omega

theorem digitVal_digit (d : Nat) (h : d < 10) : digitVal (digit d) = some d := by
  simp [digitVal, digit_isDigit d h, digit_toNat d h]

theorem digit_ne_zero (d : Nat) (h : d < 10) (h0 : d ≠ 0) : digit d ≠ '0' := by
  apply ne_of_toNat_ne; rw [digit_toNat d h]; simp; omega

theorem isDigit_ne {c : Char} (h : isDigitA c = true) (d : Char) (hd : d.toNat < 48 ∨ 57 < d.toNat) : c ≠ d := by
  have ⟨h1, h2⟩ := (isDigitA_iff c).1 h
  apply ne_of_toNat_ne; omega

theorem isDigit_not_space {c : Char} (h : isDigitA c = true) : isSpaceA c = false := by
  have ⟨h1, h2⟩ := (isDigitA_iff c).1 h
  have a1 := isDigit_ne h ' ' (by decide)
  have a2 := isDigit_ne h '\t' (by decide)
  have a3 := isDigit_ne h '\n' (by decide)
  have a4 := isDigit_ne h '\r' (by decide)
  simp [isSpaceA, a1, a2, a3, a4]
  omega

theorem natDigits_eq (n : Nat) : ∀ fuel acc, n < fuel → natDigits fuel n acc = natDigits (n + 1) n [] ++ acc := by
  induction n using Nat.strongRecOn with
  | _ n ih =>
    intro fuel acc hf
    cases fuel with
    | zero => omega
    | succ f =>
      simp only [natDigits]
      by_cases h : n / 10 = 0
      · simp [h]
      · simp only [h, if_false]
        have hlt : n / 10 < n := by omega
        rw [ih (n / 10) hlt f _ (by omega), ih (n / 10) hlt n _ hlt]
        simp

theorem formatNat_lt (n : Nat) (h : n < 10) : formatNat n = [digit n] := by
  have h0 : n / 10 = 0 := by omega
  have h1 : n % 10 = n := by omega
  simp [formatNat, natDigits, h0, h1, digit]

theorem formatNat_ge (n : Nat) (h : 10 ≤ n) : formatNat n = formatNat (n / 10) ++ [digit (n % 10)] := by
  have h0 : ¬ n / 10 = 0 := by omega
  have hlt : n / 10 < n := by omega
  unfold formatNat
  simp only [natDigits, h0, if_false]
  rw [natDigits_eq (n / 10) n _ hlt]
  rfl


theorem formatNat_shape (n : Nat) :
    ∃ d rest, formatNat n = digit d :: rest ∧ d < 10 ∧ (0 < n → d ≠ 0) := by
  induction n using Nat.strongRecOn with
  | _ n ih =>
    by_cases h : n < 10
    · exact ⟨n, [], formatNat_lt n h, h, by omega⟩
    · obtain ⟨d, rest, he, hd, h0⟩ := ih (n / 10) (by omega)
      refine ⟨d, rest ++ [digit (n % 10)], ?_, hd, fun _ => h0 (by omega)⟩
      rw [formatNat_ge n (by omega), he]; rfl

theorem formatNat_last (n : Nat) : ∃ init, formatNat n = init ++ [digit (n % 10)] := by
  by_cases h : n < 10
  · refine ⟨[], ?_⟩
    have : n % 10 = n := by omega
    rw [this, formatNat_lt n h]; rfl
  · exact ⟨_, formatNat_ge n (by omega)⟩

theorem formatNat_digits (n : Nat) : ∀ c ∈ formatNat n, isDigitA c = true := by
  induction n using Nat.strongRecOn with
  | _ n ih =>
    by_cases h : n < 10
    · rw [formatNat_lt n h]; intro c hc; simp at hc; subst hc; exact digit_isDigit n h
    · rw [formatNat_ge n (by omega)]
      intro c hc
      rw [List.mem_append] at hc
      rcases hc with hc | hc
      · exact ih (n / 10) (by omega) c hc
      · simp at hc; subst hc; exact digit_isDigit _ (by omega)

theorem digitsLoop_append (base : Nat) (xs ys : Str) : ∀ n us,
    digitsLoop base (xs ++ ys) n us =
      match digitsLoop base xs n us with
      | some (m, u) => digitsLoop base ys m u
      | none => none := by
  induction xs with
  | nil => intro n us; simp [digitsLoop]
  | cons c cs ih =>
    intro n us
    simp only [List.cons_append, digitsLoop]
    by_cases hc : (c == '_') = true
    · simp only [hc, if_true]; exact ih _ _
    · simp only [hc]
      cases hd : digitVal c with
      | none => simp
      | some d =>
        by_cases hb : d < base
        · simp only [hb, if_true]; exact ih _ _
        · simp [hb]

theorem digitsLoop_digit (d n : Nat) (us : Bool) (h : d < 10) :
    digitsLoop 10 [digit d] n us = some (n * 10 + d, us) := by
  have hu : (digit d == '_') = false := digit_ne_underscore _ (digit_isDigit d h)
  simp [digitsLoop, hu, digitVal_digit d h, h]

theorem digitsLoop_formatNat (n : Nat) : digitsLoop 10 (formatNat n) 0 false = some (n, false) := by
  induction n using Nat.strongRecOn with
  | _ n ih =>
    by_cases h : n < 10
    · rw [formatNat_lt n h, digitsLoop_digit n 0 false h]; simp
    · rw [formatNat_ge n (by omega), digitsLoop_append, ih (n / 10) (by omega)]
      simp only
      rw [digitsLoop_digit _ _ _ (by omega)]
      congr 2; omega

theorem splitPrefix_of_ne (c : Char) (r : Str) (h : c ≠ '0') : splitPrefix (c :: r) = (10, c :: r) := by
  unfold splitPrefix
  split <;> simp_all

theorem parseUintLit_formatNat (n : Nat) : parseUintLit (formatNat n) = some n := by
  by_cases h0 : n = 0
  · subst h0; decide
  · obtain ⟨d, rest, he, hd, hd0⟩ := formatNat_shape n
    have hl := digitsLoop_formatNat n
    rw [he] at hl
    rw [he]
    simp [parseUintLit, splitPrefix_of_ne _ rest (digit_ne_zero d hd (hd0 (by omega))), hl]

theorem parseIntLit_of_ne (c : Char) (r : Str) (h1 : c ≠ '+') (h2 : c ≠ '-') :
    parseIntLit (c :: r) = (parseUintLit (c :: r)).map Int.ofNat := by
  unfold parseIntLit
  split <;> simp_all

theorem parseUintLit_plus (r : Str) : parseUintLit ('+' :: r) = none := by
  simp [parseUintLit, splitPrefix_of_ne '+' r (by decide), digitsLoop, digitVal, isDigitA, isLowerA, isUpperA]

theorem parseUintLit_minus (r : Str) : parseUintLit ('-' :: r) = none := by
  simp [parseUintLit, splitPrefix_of_ne '-' r (by decide), digitsLoop, digitVal, isDigitA, isLowerA, isUpperA]

theorem parseIntLit_formatInt (v : Int) : parseIntLit (formatInt v) = some v := by
  unfold formatInt
  by_cases hv : v < 0
  · simp only [hv, if_true]
    show (parseUintLit (formatNat v.natAbs)).map (fun n => -(Int.ofNat n)) = some v
    rw [parseUintLit_formatNat]; simp; omega
  · simp only [hv, if_false]
    obtain ⟨d, rest, he, hd, _⟩ := formatNat_shape v.natAbs
    have hdig := digit_isDigit d hd
    have := parseUintLit_formatNat v.natAbs
    rw [he] at this ⊢
    rw [parseIntLit_of_ne _ _ (isDigit_ne hdig '+' (by decide)) (isDigit_ne hdig '-' (by decide)), this]
    simp; omega


/-! ### trimming and splitting -/

theorem trimLeft_of_not_space (c : Char) (r : Str) (h : isSpaceA c = false) : trimLeft (c :: r) = c :: r := by
  simp [trimLeft, h]

theorem trimLeft_spaces_append (pre r : Str) (h : pre.all isSpaceA = true) : trimLeft (pre ++ r) = trimLeft r := by
  induction pre with
  | nil => rfl
  | cons c cs ih =>
    simp only [List.all_cons, Bool.and_eq_true] at h
    simp only [List.cons_append, trimLeft, h.1, if_true]
    exact ih h.2

theorem trimSpace_pad (pre post init r : Str) (c e : Char) (w : Str)
    (hw1 : w = c :: r) (hw2 : w = init ++ [e]) (hc : isSpaceA c = false) (he : isSpaceA e = false)
    (hpre : pre.all isSpaceA = true) (hpost : post.all isSpaceA = true) :
    trimSpace (pre ++ w ++ post) = w := by
  unfold trimSpace
  rw [List.append_assoc, trimLeft_spaces_append _ _ hpre]
  have h1 : trimLeft (w ++ post) = w ++ post := by
    rw [hw1]; exact trimLeft_of_not_space c _ hc
  rw [h1, List.reverse_append, trimLeft_spaces_append _ _ (by simpa using hpost)]
  have h2 : w.reverse = e :: init.reverse := by rw [hw2]; simp
  rw [h2, trimLeft_of_not_space e _ he, ← h2, List.reverse_reverse]

theorem splitComma_nocomma (w t : Str) (h : ∀ c ∈ w, c ≠ ',') : ∀ cur,
    splitComma (w ++ t) cur = splitComma t (cur ++ w) := by
  induction w with
  | nil => intro cur; simp
  | cons c cs ih =>
    intro cur
    have hc : (c == ',') = false := by simpa using h c (by simp)
    simp only [List.cons_append, splitComma, hc, Bool.false_eq_true, if_false]
    rw [ih (fun c hc => h c (by simp [hc]))]
    simp

theorem splitComma_single (w : Str) (h : ∀ c ∈ w, c ≠ ',') : splitComma w [] = [w] := by
  have := splitComma_nocomma w [] h []
  simpa [splitComma] using this

theorem splitComma_join (ws : List Str) (hne : ws ≠ []) (h : ∀ w ∈ ws, ∀ c ∈ w, c ≠ ',') :
    splitComma (joinComma ws) [] = ws := by
  induction ws with
  | nil => exact absurd rfl hne
  | cons w ws ih =>
    cases ws with
    | nil => exact splitComma_single w (h w (by simp))
    | cons w2 ws2 =>
      show splitComma (w ++ ',' :: joinComma (w2 :: ws2)) [] = _
      rw [splitComma_nocomma w _ (h w (by simp))]
      simp only [List.nil_append, splitComma]
      simp only [beq_self_eq_true, if_true]
      rw [ih (by simp) (fun w hw => h w (by simp [hw]))]

/-! ### shape of formatInt -/

/-- characters of a formatted integer -/
def intChar (c : Char) : Prop := c = '-' ∨ isDigitA c = true

theorem intChar_not_space {c : Char} (h : intChar c) : isSpaceA c = false := by
  rcases h with rfl | h
  · decide
  · exact isDigit_not_space h

theorem intChar_ne_comma {c : Char} (h : intChar c) : c ≠ ',' := by
  rcases h with rfl | h
  · decide
  · exact isDigit_ne h ',' (by decide)

theorem formatInt_chars (v : Int) : ∀ c ∈ formatInt v, intChar c := by
  intro c hc
  unfold formatInt at hc
  split at hc
  · rw [List.mem_cons] at hc
    rcases hc with rfl | hc
    · exact Or.inl rfl
    · exact Or.inr (formatNat_digits _ c hc)
  · exact Or.inr (formatNat_digits _ c hc)

theorem formatInt_shape (v : Int) :
    ∃ c r init e, formatInt v = c :: r ∧ formatInt v = init ++ [e] ∧ isSpaceA c = false ∧ isSpaceA e = false := by
  obtain ⟨init, hl⟩ := formatNat_last v.natAbs
  obtain ⟨d, rest, hs, hd, _⟩ := formatNat_shape v.natAbs
  have he : isSpaceA (digit (v.natAbs % 10)) = false :=
    isDigit_not_space (digit_isDigit _ (by omega))
  unfold formatInt
  split
  · exact ⟨'-', _, '-' :: init, _, rfl, by rw [hl]; rfl, by decide, he⟩
  · exact ⟨digit d, rest, init, _, hs, hl, isDigit_not_space (digit_isDigit d hd), he⟩

theorem trimSpace_formatInt_pad (v : Int) (pre post : Str)
    (hpre : pre.all isSpaceA = true) (hpost : post.all isSpaceA = true) :
    trimSpace (pre ++ formatInt v ++ post) = formatInt v := by
  obtain ⟨c, r, init, e, h1, h2, hc, he⟩ := formatInt_shape v
  exact trimSpace_pad pre post init r c e _ h1 h2 hc he hpre hpost

theorem trimSpace_formatInt (v : Int) : trimSpace (formatInt v) = formatInt v := by
  have := trimSpace_formatInt_pad v [] [] rfl rfl
  simpa using this


/-! ### ranges -/

theorem parseInt_eq_some {b : Nat} {s : Str} {v : Int} (h : parseInt b s = some v) :
    parseIntLit s = some v ∧ -(2 ^ (b - 1) : Int) ≤ v ∧ v < (2 ^ (b - 1) : Int) := by
  unfold parseInt at h
  split at h
  · split at h
    · cases h; exact ⟨by assumption, by assumption⟩
    · cases h
  · cases h

theorem parseUint_eq_some {b : Nat} {s : Str} {n : Nat} (h : parseUint b s = some n) :
    parseUintLit s = some n ∧ n < 2 ^ b := by
  unfold parseUint at h
  split at h
  · split at h
    · cases h; exact ⟨by assumption, by assumption⟩
    · cases h
  · cases h

theorem parseInt_formatInt (b : Nat) (v : Int) (h : -(2 ^ (b - 1) : Int) ≤ v ∧ v < (2 ^ (b - 1) : Int)) :
    parseInt b (formatInt v) = some v := by
  simp [parseInt, parseIntLit_formatInt, h]

theorem parseUint_formatInt (b : Nat) (v : Int) (h0 : 0 ≤ v) (h : v.natAbs < 2 ^ b) :
    parseUint b (formatInt v) = some v.natAbs := by
  have : ¬ v < 0 := by omega
  simp [parseUint, formatInt, this, parseUintLit_formatNat, h]

theorem parseIntLit_of_parseUintLit {s : Str} {n : Nat} (h : parseUintLit s = some n) :
    parseIntLit s = some (Int.ofNat n) := by
  cases s with
  | nil => simp [parseUintLit] at h
  | cons c r =>
    by_cases h1 : c = '+'
    · subst h1; rw [parseUintLit_plus] at h; cases h
    · by_cases h2 : c = '-'
      · subst h2; rw [parseUintLit_minus] at h; cases h
      · rw [parseIntLit_of_ne c r h1 h2, h]; rfl

theorem inRange_signed {k : IntKind} (hk : k.signed = true) (v : Int) :
    k.inRange v = true ↔ -(2 ^ (k.bits - 1) : Int) ≤ v ∧ v < (2 ^ (k.bits - 1) : Int) := by
  simp [IntKind.inRange, hk]

theorem inRange_unsigned {k : IntKind} (hk : k.signed = false) (v : Int) :
    k.inRange v = true ↔ 0 ≤ v ∧ v.natAbs < 2 ^ k.bits := by
  simp only [IntKind.inRange, hk, Bool.false_eq_true, if_false, decide_eq_true_eq]
  constructor
  · intro ⟨h0, h1⟩
    refine ⟨h0, ?_⟩
    have hv : (v.natAbs : Int) = v := by omega
    have hp : ((2 ^ k.bits : Nat) : Int) = (2 : Int) ^ k.bits := by simp
    rw [← hv, ← hp] at h1
    exact Int.ofNat_lt.1 h1
  · intro ⟨h0, h1⟩
    refine ⟨h0, ?_⟩
    have hv : (v.natAbs : Int) = v := by omega
    have hp : ((2 ^ k.bits : Nat) : Int) = (2 : Int) ^ k.bits := by simp
    have := Int.ofNat_lt.2 h1
    rw [hp, hv] at this
    exact this

theorem inRange_signed_64 {k : IntKind} (hk : k.signed = true) {v : Int} (h : k.inRange v = true) :
    -(2 ^ (Facts.parseNumberBits - 1) : Int) ≤ v ∧ v < (2 ^ (Facts.parseNumberBits - 1) : Int) := by
  have h' := (inRange_signed hk v).1 h
  cases k <;> simp [IntKind.signed, IntKind.bits, Facts.parseNumberBits] at hk h' ⊢ <;> omega

theorem inRange_unsigned_64 {k : IntKind} (hk : k.signed = false) {v : Int} (h : k.inRange v = true) :
    0 ≤ v ∧ v.natAbs < 2 ^ Facts.parseNumberBits := by
  have h' := (inRange_unsigned hk v).1 h
  cases k <;> simp [IntKind.signed, IntKind.bits, Facts.parseNumberBits] at hk h' ⊢ <;> omega

/-! ### slices -/

/-- one step of the `foldr` in `parseIntSlice` -/
def sliceStep (k : IntKind) (p : Str) (acc : Outcome (List Int)) : Outcome (List Int) :=
  match acc with
  | .ok vs =>
    let t := trimSpace p
    if k.signed then
      match parseInt k.bits t with
      | some v => .ok (v :: vs)
      | none => .err "element"
    else
      match parseUint k.bits t with
      | some n => .ok (Int.ofNat n :: vs)
      | none => .err "element"
  | e => e

theorem parseIntSlice_eq (k : IntKind) (s : Str) :
    parseIntSlice k s =
      if Facts.intSliceEmptyOk && s.isEmpty then .ok [] else (splitComma s []).foldr (sliceStep k) (.ok []) := rfl

theorem parseIntSlice_nonempty (k : IntKind) (s : Str) (h : s ≠ []) :
    parseIntSlice k s = (splitComma s []).foldr (sliceStep k) (.ok []) := by
  have : s.isEmpty = false := by cases s <;> simp_all
  simp [parseIntSlice_eq, this]

theorem sliceStep_elem (k : IntKind) (v : Int) (hv : k.inRange v = true) (p : Str) (vs : List Int)
    (hp : trimSpace p = formatInt v) :
    sliceStep k p (.ok vs) = .ok (v :: vs) := by
  cases hk : k.signed with
  | true =>
    have := parseInt_formatInt k.bits v ((inRange_signed hk v).1 hv)
    simp [sliceStep, hk, hp, this]
  | false =>
    have ⟨h0, h1⟩ := (inRange_unsigned hk v).1 hv
    have := parseUint_formatInt k.bits v h0 h1
    simp [sliceStep, hk, hp, this]
    omega

theorem foldr_sliceStep_format (k : IntKind) (vs : List Int) (hv : ∀ v ∈ vs, k.inRange v = true) :
    (vs.map formatInt).foldr (sliceStep k) (.ok []) = .ok vs := by
  induction vs with
  | nil => rfl
  | cons v vs ih =>
    simp only [List.map_cons, List.foldr_cons]
    rw [ih (fun w hw => hv w (by simp [hw]))]
    exact sliceStep_elem k v (hv v (by simp)) _ _ (trimSpace_formatInt v)

theorem foldr_sliceStep_sound (k : IntKind) (parts : List Str) :
    ∀ vs, parts.foldr (sliceStep k) (.ok []) = .ok vs → ∀ v ∈ vs, k.inRange v = true := by
  induction parts with
  | nil => intro vs h; simp at h; subst h; simp
  | cons p ps ih =>
    intro vs h
    simp only [List.foldr_cons] at h
    cases hacc : ps.foldr (sliceStep k) (.ok []) with
    | ok vs' =>
      rw [hacc] at h
      have ih' := ih vs' hacc
      cases hk : k.signed with
      | true =>
        simp only [sliceStep, hk, if_true] at h
        cases hp : parseInt k.bits (trimSpace p) with
        | none => rw [hp] at h; cases h
        | some v =>
          rw [hp] at h
          simp only [Outcome.ok.injEq] at h
          subst h
          intro w hw
          rw [List.mem_cons] at hw
          rcases hw with rfl | hw
          · exact (inRange_signed hk _).2 (parseInt_eq_some hp).2
          · exact ih' w hw
      | false =>
        simp only [sliceStep, hk, Bool.false_eq_true, if_false] at h
        cases hp : parseUint k.bits (trimSpace p) with
        | none => rw [hp] at h; cases h
        | some n =>
          rw [hp] at h
          simp only [Outcome.ok.injEq] at h
          subst h
          intro w hw
          rw [List.mem_cons] at hw
          rcases hw with rfl | hw
          · exact (inRange_unsigned hk _).2 ⟨Int.natCast_nonneg n, (parseUint_eq_some hp).2⟩
          · exact ih' w hw
    | err c => rw [hacc] at h; simp [sliceStep] at h
    | panic c => rw [hacc] at h; simp [sliceStep] at h

theorem formatInt_ne_nil (v : Int) : formatInt v ≠ [] := by
  obtain ⟨c, r, _, _, h, _⟩ := formatInt_shape v
  rw [h]; simp

theorem joinComma_ne_nil (w : Str) (ws : List Str) (h : w ≠ []) : joinComma (w :: ws) ≠ [] := by
  cases ws with
  | nil => exact h
  | cons w2 ws2 =>
    show w ++ ',' :: joinComma (w2 :: ws2) ≠ []
    simp


/-! ### parseNumber case analysis -/

theorem parseNumber_signed_some {k : IntKind} {s : Str} {v : Int} (hs : k.signed = true)
    (hp : parseInt Facts.parseNumberBits s = some v) :
    parseNumber k s = if k.inRange v then .ok v else .err "overflow" := by
  simp only [parseNumber, hs, hp, if_true]

theorem parseNumber_signed_none {k : IntKind} {s : Str} (hs : k.signed = true)
    (hp : parseInt Facts.parseNumberBits s = none) : parseNumber k s = .err "number" := by
  simp only [parseNumber, hs, hp, if_true]

theorem parseNumber_unsigned_some {k : IntKind} {s : Str} {n : Nat} (hs : k.signed = false)
    (hp : parseUint Facts.parseNumberBits s = some n) :
    parseNumber k s = if k.inRange (Int.ofNat n) then .ok (Int.ofNat n) else .err "overflow" := by
  simp only [parseNumber, hs, hp, Bool.false_eq_true, if_false]

theorem parseNumber_unsigned_none {k : IntKind} {s : Str} (hs : k.signed = false)
    (hp : parseUint Facts.parseNumberBits s = none) : parseNumber k s = .err "number" := by
  simp only [parseNumber, hs, hp, Bool.false_eq_true, if_false]

end Dials.Parse
