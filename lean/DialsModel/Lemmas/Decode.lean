/-
Helper lemmas for Props/C13.lean (model: Model/Decode.lean, Model/DecodeSpec.lean).
-/
import DialsModel.Model.DecodeSpec

namespace Dials.Decode

/-! ### outcomes, lists -/

@[simp] theorem omap_err {α β} (f : α → β) (c : String) : omap f (.err c : Outcome α) = .err c := rfl
@[simp] theorem omap_panic {α β} (f : α → β) (c : String) : omap f (.panic c : Outcome α) = .panic c := rfl

/-! ### tags -/

theorem lookup_append_single (k v : String) (l : List (String × String)) :
    List.lookup k (l ++ [(k, v)]) = match List.lookup k l with | some w => some w | none => some v := by
  induction l with
  | nil => simp [List.lookup]
  | cons a r ih =>
    obtain ⟨k', v'⟩ := a
    simp only [List.cons_append, List.lookup]
    cases hk : (k == k') <;> simp [ih]

theorem key_rule (fmt : Fmt) (tg : Tags) (h : Tags.lookup tg fmt.libTag ≠ some "") :
    Tags.get (copyTags "dials" fmt.libTag tg) fmt.libTag = keyRule fmt tg := by
  unfold copyTags keyRule
  simp only [Facts.tagCopySkipsSrc, Facts.tagCopyKeeps]
  by_cases h1 : Tags.get tg "dials" = ""
  · simp [h1]
  · by_cases h2 : Tags.get tg fmt.libTag = ""
    · simp [h1, h2]
      unfold Tags.get Tags.lookup at *
      rw [lookup_append_single]
      cases h3 : List.lookup fmt.libTag tg with
      | none => simp
      | some w =>
        simp [h3] at h2 h
        exact absurd h2 h
    · simp [h1, h2]

/-! ### leaf-level field types: the fallthrough case of `passTy` -/

/-- a field type the Transformer does not recurse into (`[]time.Time` included, since the repair of D34) -/
def isLeaf : Ty → Bool
  | .struct _ => false
  | .ptr (.struct _) => false
  | .slice (.struct _) => false
  | _ => true

theorem isLeaf_cases (t : Ty) :
    (∃ fs, t = .struct fs) ∨ (∃ fs, t = .ptr (.struct fs)) ∨ (∃ fs, t = .slice (.struct fs)) ∨
    isLeaf t = true := by
  cases t with
  | struct fs => exact .inl ⟨fs, rfl⟩
  | ptr e => cases e <;> simp [isLeaf]
  | slice e => cases e <;> simp [isLeaf]
  | _ => simp [isLeaf]

theorem isLeaf_not (t : Ty) (h : isLeaf t = true) :
    (∀ fs, t = .struct fs → False) ∧ (∀ fs, t = .ptr (.struct fs) → False) ∧
    (∀ fs, t = .slice (.struct fs) → False) := by
  refine ⟨?_, ?_, ?_⟩ <;> (intros; subst_vars; simp [isLeaf] at h)

theorem passTy_leaf (P : Pass) (t : Ty) (h : isLeaf t = true) : passTy P t = P.leaf t := by
  obtain ⟨h1, h2, h3⟩ := isLeaf_not t h
  by_cases h4 : t = .slice (.text .time)
  · subst h4; simp [passTy, Facts.textSkipAfterStrip]
  · exact passTy.eq_5 P t h1 h2 h3 h4

theorem flatTy_leaf (t : Ty) (h : isLeaf t = true) : flatTy t = t := by
  obtain ⟨h1, h2, h3⟩ := isLeaf_not t h
  by_cases h4 : t = .slice (.text .time)
  · subst h4; simp [flatTy, Facts.textSkipAfterStrip]
  · exact flatTy.eq_5 t h1 h2 h3 h4

theorem reachTy_leaf (fmt : Fmt) (t : Ty) (h : isLeaf t = true) (hr : reachTy fmt t = true) :
    t = .set ∨ plainTy t = true := by
  obtain ⟨h1, h2, h3⟩ := isLeaf_not t h
  by_cases h5 : t = .set
  · exact .inl h5
  · right
    rw [reachTy.eq_5 fmt t h1 h2 h3 h5] at hr
    exact hr

/-- induction over types following the Transformer's recursion: struct, pointer to struct, slice of struct,
    and the leaf-level field types -/
theorem ty_ind {motive : Ty → Prop} {motiveF : Fields → Prop}
    (struct : ∀ fs, motiveF fs → motive (.struct fs))
    (ptrStruct : ∀ fs, motiveF fs → motive (.ptr (.struct fs)))
    (sliceStruct : ∀ fs, motiveF fs → motive (.slice (.struct fs)))
    (leaf : ∀ t, isLeaf t = true → motive t)
    (nil : motiveF .nil)
    (cons : ∀ n a tg t r, motive t → motiveF r → motiveF (.cons n a tg t r)) :
    (∀ t, motive t) ∧ (∀ fs, motiveF fs) := by
  have key : ∀ t, motive t ∧ ∀ fs, t = .struct fs → motiveF fs := by
    intro t
    refine Ty.rec (motive_1 := fun t => motive t ∧ ∀ fs, t = .struct fs → motiveF fs) (motive_2 := motiveF)
      ?_ ?_ ?_ ?_ ?_ ?_ ?_ ?_ ?_ ?_ ?_ t
    · intro k; exact ⟨leaf _ rfl, fun fs h => by cases h⟩
    · exact ⟨leaf _ rfl, fun fs h => by cases h⟩
    · exact ⟨leaf _ rfl, fun fs h => by cases h⟩
    · intro k; exact ⟨leaf _ rfl, fun fs h => by cases h⟩
    · intro e ih
      refine ⟨?_, fun fs h => by cases h⟩
      rcases isLeaf_cases (.slice e) with ⟨fs, h⟩ | ⟨fs, h⟩ | ⟨fs, h⟩ | h
      · cases h
      · cases h
      · cases h; exact sliceStruct fs (ih.2 fs rfl)
      · exact leaf _ h
    · intro e _; exact ⟨leaf _ rfl, fun fs h => by cases h⟩
    · exact ⟨leaf _ rfl, fun fs h => by cases h⟩
    · intro e ih
      refine ⟨?_, fun fs h => by cases h⟩
      rcases isLeaf_cases (.ptr e) with ⟨fs, h⟩ | ⟨fs, h⟩ | ⟨fs, h⟩ | h
      · cases h
      · cases h; exact ptrStruct fs (ih.2 fs rfl)
      · cases h
      · exact leaf _ h
    · intro fs ih; exact ⟨struct fs ih, fun fs' h => by cases h; exact ih⟩
    · exact nil
    · intro n a tg t r iht ihr; exact cons n a tg t r iht.1 ihr
  refine ⟨fun t => (key t).1, fun fs => (key (.struct fs)).2 fs rfl⟩

/-! ### plain types -/

theorem plain_kv (keyf keyf' : Tags → String) (sub ss ss' : Bool) :
    ∀ t, plainTy t = true → kvTy keyf sub ss t = kvTy keyf' sub ss' t := by
  intro t
  refine Ty.rec (motive_1 := fun t => plainTy t = true → kvTy keyf sub ss t = kvTy keyf' sub ss' t)
    (motive_2 := fun _ => True) ?_ ?_ ?_ ?_ ?_ ?_ ?_ ?_ ?_ ?_ ?_ t
  all_goals (intros; simp_all [kvTy, plainTy])

theorem plain_sub_kv (keyf : Tags → String) (ss : Bool) :
    ∀ t, plainTy t = true → kvTy keyf false ss (subTy t) = kvTy keyf true ss t := by
  intro t
  refine Ty.rec (motive_1 := fun t => plainTy t = true → kvTy keyf false ss (subTy t) = kvTy keyf true ss t)
    (motive_2 := fun _ => True) ?_ ?_ ?_ ?_ ?_ ?_ ?_ ?_ ?_ ?_ ?_ t
  all_goals (intros; simp_all [kvTy, plainTy, subTy])

theorem plain_subTy : ∀ t, plainTy t = true → plainTy (subTy t) = true := by
  intro t
  refine Ty.rec (motive_1 := fun t => plainTy t = true → plainTy (subTy t) = true)
    (motive_2 := fun _ => True) ?_ ?_ ?_ ?_ ?_ ?_ ?_ ?_ ?_ ?_ ?_ t
  all_goals (intros; simp_all [plainTy, subTy])

theorem isLeaf_subTy (t : Ty) (h : isLeaf t = true) : isLeaf (subTy t) = true := by
  cases t with
  | ptr e => cases e <;> simp_all [isLeaf, subTy]
  | slice e => cases e <;> simp_all [isLeaf, subTy]
  | _ => simp_all [isLeaf, subTy]

theorem reachTy_plain (fmt : Fmt) (t : Ty) (h : isLeaf t = true) (hp : plainTy t = true) :
    reachTy fmt t = true := by
  obtain ⟨h1, h2, h3⟩ := isLeaf_not t h
  rw [reachTy.eq_5 fmt t h1 h2 h3 (by intro h5; subst h5; simp [plainTy] at hp)]
  exact hp

/-! ### one Transformer pass seen through the keyed view -/

theorem kv_pass (fmt : Fmt) (P : Pass) (keyf keyf' : Tags → String) (sub ss sub' ss' : Bool)
    (hk : ∀ tg, Tags.lookup tg fmt.libTag ≠ some "" → keyf (P.tags tg) = keyf' tg)
    (hl : ∀ t, isLeaf t = true → reachTy fmt t = true → kvTy keyf sub ss (P.leaf t) = kvTy keyf' sub' ss' t) :
    (∀ t, reachTy fmt t = true → kvTy keyf sub ss (passTy P t) = kvTy keyf' sub' ss' t) ∧
    (∀ fs, reachFields fmt fs = true → kvFields keyf sub ss (passFields P fs) = kvFields keyf' sub' ss' fs) := by
  apply ty_ind
  · intro fs ih h; simp only [reachTy] at h; simp [passTy, kvTy, ih h]
  · intro fs ih h; simp only [reachTy] at h; simp [passTy, kvTy, ih h]
  · intro fs ih h; simp only [reachTy] at h; simp [passTy, kvTy, ih h]
  · intro t hl' h; rw [passTy_leaf P t hl']; exact hl t hl' h
  · intro _; simp [passFields, kvFields]
  · intro n a tg t r iht ihr h
    simp only [reachFields, Bool.and_eq_true, bne_iff_ne, ne_eq] at h
    simp [passFields, kvFields, iht h.1.2, ihr h.2, hk tg h.1.1]

theorem reach_pass (fmt : Fmt) (P : Pass) (hk : ∀ tg, P.tags tg = tg)
    (hl : ∀ t, isLeaf t = true → reachTy fmt t = true → reachTy fmt (P.leaf t) = true) :
    (∀ t, reachTy fmt t = true → reachTy fmt (passTy P t) = true) ∧
    (∀ fs, reachFields fmt fs = true → reachFields fmt (passFields P fs) = true) := by
  apply ty_ind
  · intro fs ih h; simp only [reachTy] at h; simp [passTy, reachTy, ih h]
  · intro fs ih h; simp only [reachTy] at h; simp [passTy, reachTy, ih h]
  · intro fs ih h; simp only [reachTy] at h; simp [passTy, reachTy, ih h]
  · intro t hl' h; rw [passTy_leaf P t hl']; exact hl t hl' h
  · intro _; simp [passFields, reachFields]
  · intro n a tg t r iht ihr h
    simp only [reachFields, Bool.and_eq_true] at h
    simp [passFields, reachFields, iht h.1.2, ihr h.2, hk tg, h.1.1]

/-! ### the concrete passes -/

theorem setSliceLeaf_plain (t : Ty) (h : plainTy t = true) : setSliceLeaf t = t := by
  cases t <;> simp_all [setSliceLeaf, plainTy]

theorem kv_setSlice (fmt : Fmt) (keyf : Tags → String) (sub : Bool) (T : Ty) (h : reachTy fmt T = true) :
    kvTy keyf sub false (passTy Pass.setSlice T) = kvTy keyf sub true T := by
  refine (kv_pass fmt Pass.setSlice keyf keyf sub false sub true (fun _ _ => rfl) ?_).1 T h
  intro t hl hr
  rcases reachTy_leaf fmt t hl hr with rfl | hp
  · simp [Pass.setSlice, setSliceLeaf, kvTy]
  · simp only [Pass.setSlice, setSliceLeaf_plain t hp]
    exact plain_kv keyf keyf sub false true t hp

theorem reach_setSlice (fmt : Fmt) (T : Ty) (h : reachTy fmt T = true) :
    reachTy fmt (passTy Pass.setSlice T) = true := by
  refine (reach_pass fmt Pass.setSlice (fun _ => rfl) ?_).1 T h
  intro t hl hr
  rcases reachTy_leaf fmt t hl hr with rfl | hp
  · simp [Pass.setSlice, setSliceLeaf, reachTy, plainTy]
  · simp only [Pass.setSlice, setSliceLeaf_plain t hp]; exact hr

theorem kv_durSub (fmt : Fmt) (keyf : Tags → String) (ss : Bool) (T : Ty) (h : reachTy fmt T = true) :
    kvTy keyf false ss (passTy Pass.durSub T) = kvTy keyf true ss T := by
  refine (kv_pass fmt Pass.durSub keyf keyf false ss true ss (fun _ _ => rfl) ?_).1 T h
  intro t hl hr
  rcases reachTy_leaf fmt t hl hr with rfl | hp
  · simp [Pass.durSub, subTy, kvTy]
  · exact plain_sub_kv keyf ss t hp

theorem reach_durSub (fmt : Fmt) (T : Ty) (h : reachTy fmt T = true) :
    reachTy fmt (passTy Pass.durSub T) = true := by
  refine (reach_pass fmt Pass.durSub (fun _ => rfl) ?_).1 T h
  intro t hl hr
  rcases reachTy_leaf fmt t hl hr with rfl | hp
  · simp [Pass.durSub, subTy, reachTy]
  · exact reachTy_plain fmt _ (isLeaf_subTy t hl) (plain_subTy t hp)

theorem kv_tagCopy (fmt : Fmt) (T : Ty) (h : reachTy fmt T = true) :
    kvTy (fun tg => Tags.get tg fmt.libTag) false false (passTy (Pass.tagCopy "dials" fmt.libTag) T)
      = kvTy (keyRule fmt) false false T := by
  refine (kv_pass fmt (Pass.tagCopy "dials" fmt.libTag) _ (keyRule fmt) false false false false
    (fun tg htg => key_rule fmt tg htg) ?_).1 T h
  intro t hl hr
  rcases reachTy_leaf fmt t hl hr with rfl | hp
  · simp [Pass.tagCopy, kvTy]
  · exact plain_kv _ _ false false false t hp

theorem wrap_step (fmt : Fmt) (wrap : Bool) (T : Ty) (h : reachTy fmt T = true) :
    reachTy fmt (translate (wrapChain wrap) T) = true ∧
    ∀ keyf sub, kvTy keyf sub false (translate (wrapChain wrap) T) = kvTy keyf sub wrap T := by
  cases wrap
  · simp [wrapChain, translate, h]
  · simp only [wrapChain, translate, if_true, List.foldl, Mangler.ty]
    exact ⟨reach_setSlice fmt T h, fun keyf sub => kv_setSlice fmt keyf sub T h⟩

theorem chain_json : chainOf .json false = [.durSub, .tagCopy "dials" "json"] := by decide
theorem chain_cue : chainOf .cue false = [.durSub, .tagCopy "dials" "json"] := by decide
theorem chain_yaml : chainOf .yaml false = [.tagCopy "dials" "yaml"] := by decide
theorem chain_toml : chainOf .toml false = [.tagCopy "dials" "toml"] := by decide

theorem chain_step (fmt : Fmt) (T : Ty) (h : reachTy fmt T = true) :
    view fmt.libTag (translate (chainOf fmt false) T) = kvTy (keyRule fmt) fmt.subs false T := by
  cases fmt
  · rw [chain_json]
    simp only [translate, List.foldl, Mangler.ty, view]
    rw [show "json" = Fmt.libTag .json from rfl, kv_tagCopy .json _ (reach_durSub .json T h)]
    exact kv_durSub .json _ false T h
  · rw [chain_yaml]
    simp only [translate, List.foldl, Mangler.ty, view]
    exact kv_tagCopy .yaml T h
  · rw [chain_toml]
    simp only [translate, List.foldl, Mangler.ty, view]
    exact kv_tagCopy .toml T h
  · rw [chain_cue]
    simp only [translate, List.foldl, Mangler.ty, view]
    rw [show "json" = Fmt.libTag .cue from rfl, kv_tagCopy .cue _ (reach_durSub .cue T h)]
    exact kv_durSub .cue _ false T h

theorem key_path (fmt : Fmt) (wrap : Bool) (T : Ty) (hT : reachTy fmt T = true) :
    view fmt.libTag (translate (chainOf fmt false) (translate (wrapChain wrap) T)) = kview fmt wrap T := by
  obtain ⟨h1, h2⟩ := wrap_step fmt wrap T hT
  rw [chain_step fmt _ h1, h2]
  rfl



theorem flat_idle :
    (∀ t, noAnon t = true → flatTy t = passTy Pass.idle t) ∧
    (∀ fs, noAnonFields fs = true → flatFields fs = passFields Pass.idle fs) := by
  apply ty_ind
  · intro fs ih h; simp only [noAnon] at h; simp [flatTy, passTy, ih h]
  · intro fs ih h; simp only [noAnon] at h; simp [flatTy, passTy, ih h]
  · intro fs ih h; simp only [noAnon] at h; simp [flatTy, passTy, ih h]
  · intro t hl _
    rw [passTy_leaf _ t hl, flatTy_leaf t hl]; rfl
  · intro _; simp [flatFields, passFields]
  · intro n a tg t r iht ihr h
    simp only [noAnonFields, Bool.and_eq_true, Bool.not_eq_true'] at h
    obtain ⟨⟨rfl, h2⟩, h3⟩ := h
    simp [flatFields, passFields, iht h2, ihr h3, Pass.idle]

theorem idle_id :
    (∀ t, passTy Pass.idle t = t) ∧
    (∀ fs, passFields Pass.idle fs = fs) := by
  apply ty_ind
  · intro fs ih; simp [passTy, ih]
  · intro fs ih; simp [passTy, ih]
  · intro fs ih; simp [passTy, ih]
  · intro t hl; rw [passTy_leaf _ t hl]; rfl
  · simp [passFields]
  · intro n a tg t r iht ihr
    simp only [passFields, iht, ihr]; rfl

theorem flatten_noop (T : Ty) (h : noAnon T = true) : flatTy T = T := by
  rw [flat_idle.1 T h, idle_id.1 T]


/-! ### outcome inversion, `mapO` -/

theorem obind_ok_inv {α β} {x : Outcome α} {f : α → Outcome β} {b : β} (h : obind x f = .ok b) :
    ∃ a, x = .ok a ∧ f a = .ok b := by
  cases x <;> simp_all [obind]

theorem omap_ok_inv {α β} {x : Outcome α} {f : α → β} {b : β} (h : omap f x = .ok b) :
    ∃ a, x = .ok a ∧ b = f a := by
  cases x <;> simp_all [omap]

theorem obind_panic_inv {α β} {x : Outcome α} {f : α → Outcome β} {c : String} (h : obind x f = .panic c) :
    x = .panic c ∨ ∃ a, x = .ok a ∧ f a = .panic c := by
  cases x <;> simp_all [obind]

theorem omap_panic_inv {α β} {x : Outcome α} {f : α → β} {c : String} (h : omap f x = .panic c) :
    x = .panic c := by
  cases x <;> simp_all [omap]

theorem mapO_ok_all {α β} (f : α → Outcome β) (P : β → Prop) :
    ∀ (l : List α) (ws : List β), (∀ a ∈ l, ∀ b, f a = .ok b → P b) → mapO f l = .ok ws → ∀ b ∈ ws, P b := by
  intro l
  induction l with
  | nil => intro ws _ h; simp [mapO] at h; subst h; simp
  | cons a r ih =>
    intro ws hP h
    simp only [mapO] at h
    obtain ⟨b, hb, h⟩ := obind_ok_inv h
    obtain ⟨bs, hbs, rfl⟩ := omap_ok_inv h
    intro b' hb'
    rcases List.mem_cons.1 hb' with rfl | hb'
    · exact hP a (List.mem_cons_self) _ hb
    · exact ih bs (fun a' ha' => hP a' (List.mem_cons_of_mem _ ha')) hbs b' hb'

theorem mapO_panic {α β} (f : α → Outcome β) (c : String) :
    ∀ (l : List α), mapO f l = .panic c → ∃ a ∈ l, f a = .panic c := by
  intro l
  induction l with
  | nil => intro h; simp [mapO] at h
  | cons a r ih =>
    intro h
    simp only [mapO] at h
    rcases obind_panic_inv h with h | ⟨b, _, h⟩
    · exact ⟨a, List.mem_cons_self, h⟩
    · obtain ⟨a', ha', h'⟩ := ih (omap_panic_inv h)
      exact ⟨a', List.mem_cons_of_mem _ ha', h'⟩

theorem kfields_ind {motive : KFields → Prop} (nil : motive .nil)
    (cons : ∀ key a t r, motive r → motive (.cons key a t r)) : ∀ fs, motive fs := by
  intro fs
  exact KFields.rec (motive_1 := fun _ => True) (motive_2 := motive)
    (fun _ => trivial) trivial trivial (fun _ => trivial) (fun _ _ => trivial) (fun _ _ => trivial) trivial
    (fun _ _ => trivial) (fun _ _ => trivial) nil (fun key a t r _ ih => cons key a t r ih) fs

theorem fields_ind {motive : Fields → Prop} (nil : motive .nil)
    (cons : ∀ n a tg t r, motive r → motive (.cons n a tg t r)) : ∀ fs, motive fs := by
  intro fs
  exact Fields.rec (motive_1 := fun _ => True) (motive_2 := motive)
    (fun _ => trivial) trivial trivial (fun _ => trivial) (fun _ _ => trivial) (fun _ _ => trivial) trivial
    (fun _ _ => trivial) (fun _ _ => trivial) nil (fun n a tg t r _ ih => cons n a tg t r ih) fs

theorem kty_ind {motive : KTy → Prop} {motiveF : KFields → Prop}
    (scalar : ∀ k, motive (.scalar k)) (dur : motive .dur) (pdur : motive .pdur) (text : ∀ k, motive (.text k))
    (slice : ∀ e, motive e → motive (.slice e)) (map : ∀ e, motive e → motive (.map e)) (set : motive .set)
    (ptr : ∀ e, motive e → motive (.ptr e)) (struct : ∀ fs, motiveF fs → motive (.struct fs))
    (nil : motiveF .nil) (cons : ∀ key a t r, motive t → motiveF r → motiveF (.cons key a t r)) :
    (∀ t, motive t) ∧ (∀ fs, motiveF fs) :=
  ⟨fun t => KTy.rec (motive_1 := motive) (motive_2 := motiveF) scalar dur pdur text slice map set ptr struct nil cons t,
   fun fs => KFields.rec (motive_1 := motive) (motive_2 := motiveF) scalar dur pdur text slice map set ptr struct nil cons fs⟩

/-! ### the reference filler satisfies the contract -/

theorem refFields_eq_fillFields (E : Ext) (fmt : Fmt) (kvs : List (String × Doc)) :
    ∀ fs, keysNonEmpty fs = true → refFields E fmt fs kvs = fillFields (refFill E fmt) fs kvs := by
  apply kfields_ind
  · intro _; simp [refFields, fillFields]
  · intro key a t r ih h
    simp only [keysNonEmpty, Bool.and_eq_true, bne_iff_ne, ne_eq] at h
    rw [refFields.eq_def]
    simp [fillFields, ih h.2, h.1, fillField]

theorem zero_shape : (∀ K, shapeK K (zeroK K) = true) ∧ (∀ fs, shapesK fs (zerosK fs) = true) := by
  apply kty_ind
  · intro k; cases k <;> simp [zeroK, shapeK]
  · simp [zeroK, shapeK]
  · simp [zeroK, shapeK]
  · intro k; cases k <;> simp [zeroK, shapeK]
  · intro e _; simp [zeroK, shapeK]
  · intro e _; simp [zeroK, shapeK]
  · simp [zeroK, shapeK]
  · intro e _; simp [zeroK, shapeK]
  · intro fs ih; simp [zeroK, shapeK, ih]
  · simp [zerosK, shapesK]
  · intro key a t r iht ihr; simp [zerosK, shapesK, iht, ihr]


theorem durFill_shape (E : Ext) (fmt : Fmt) (d : Doc) (v : Val) (h : durFill E fmt d = .ok v) :
    ∃ n, v = .dur n := by
  unfold durFill at h
  repeat' split at h
  all_goals first | exact ⟨_, (Outcome.ok.inj h).symm⟩ | simp at h

theorem pdur_shape (E : Ext) (d : Doc) (v : Val) (h : pdurUnmarshal E d = .ok v) :
    ∃ n, v = .dur n := by
  unfold pdurUnmarshal at h
  repeat' split at h
  all_goals first | exact ⟨_, (Outcome.ok.inj h).symm⟩ | simp at h

theorem textFill_shape (E : Ext) (fmt : Fmt) (k : TK) (d : Doc) (v : Val) (h : textFill E fmt k d = .ok v) :
    ∃ s, v = .text s := by
  unfold textFill at h
  repeat' split at h
  all_goals first | exact ⟨_, (Outcome.ok.inj h).symm⟩ | simp at h

theorem scalarFill_shape (fmt : Fmt) (k : SK) (s : Scalar) (v : Val)
    (h : (scalarFill fmt k s).getD (.err decErr) = .ok v) : shapeK (.scalar k) v = true := by
  cases k <;> cases s <;> simp only [scalarFill] at h <;> repeat' split at h
  all_goals first | (simp at h; done) | (simp at h; subst h; simp [shapeK])

theorem durFill_total (E : Ext) (fmt : Fmt) (d : Doc) (c : String) : durFill E fmt d ≠ .panic c := by
  intro h
  unfold durFill at h
  repeat' split at h
  all_goals simp at h

theorem pdur_total (E : Ext) (d : Doc) (c : String) : pdurUnmarshal E d ≠ .panic c := by
  intro h
  unfold pdurUnmarshal at h
  repeat' split at h
  all_goals simp at h

theorem textFill_total (E : Ext) (fmt : Fmt) (k : TK) (d : Doc) (c : String) : textFill E fmt k d ≠ .panic c := by
  intro h
  unfold textFill at h
  repeat' split at h
  all_goals simp at h

theorem scalarFill_total (fmt : Fmt) (k : SK) (s : Scalar) (c : String) :
    (scalarFill fmt k s).getD (.err decErr) ≠ .panic c := by
  intro h
  cases k <;> cases s <;> simp only [scalarFill] at h <;> repeat' split at h
  all_goals simp at h


theorem refFill_shape (E : Ext) (fmt : Fmt) :
    (∀ K, ∀ d v, refFill E fmt K d = .ok v → shapeK K v = true) ∧
    (∀ fs, ∀ kvs vs, refFields E fmt fs kvs = .ok vs → shapesK fs vs = true) := by
  apply kty_ind
  · intro k d v h
    cases d <;> simp only [refFill] at h
    · exact scalarFill_shape fmt k _ v h
    all_goals simp at h
  · intro d v h
    simp only [refFill] at h
    obtain ⟨n, rfl⟩ := durFill_shape E fmt d v h; simp [shapeK]
  · intro d v h
    simp only [refFill] at h
    obtain ⟨n, rfl⟩ := pdur_shape E d v h; simp [shapeK]
  · intro k d v h
    simp only [refFill] at h
    obtain ⟨n, rfl⟩ := textFill_shape E fmt k d v h; simp [shapeK]
  · intro e ih d v h
    cases d <;> simp only [refFill] at h
    · simp at h
    · split at h
      · simp at h
      obtain ⟨ws, hws, rfl⟩ := omap_ok_inv h
      simp only [shapeK, List.all_eq_true]
      exact mapO_ok_all _ _ _ ws (fun a _ b hb => ih a b hb) hws
    · simp at h
  · intro e ih d v h
    cases d <;> simp only [refFill] at h
    · simp at h
    · simp at h
    · obtain ⟨ws, hws, rfl⟩ := omap_ok_inv h
      simp only [shapeK, List.all_eq_true]
      refine mapO_ok_all _ (fun kv => shapeK e kv.2 = true) _ ws (fun a _ b hb => ?_) hws
      obtain ⟨w, hw, rfl⟩ := omap_ok_inv hb
      exact ih _ _ hw
  · intro d v h; simp [refFill] at h
  · intro e ih d v h
    simp only [refFill] at h
    obtain ⟨w, hw, rfl⟩ := omap_ok_inv h
    simp [shapeK, ih _ _ hw]
  · intro fs ih d v h
    cases d <;> simp only [refFill] at h
    · simp at h
    · simp at h
    · obtain ⟨ws, hws, rfl⟩ := omap_ok_inv h
      simp [shapeK, ih _ _ hws]
  · intro kvs vs h; simp [refFields] at h; subst h; simp [shapesK]
  · intro key a t r iht ihr kvs vs h
    rw [refFields.eq_def] at h
    simp only at h
    obtain ⟨v, hv, h⟩ := obind_ok_inv h
    obtain ⟨ws, hws, rfl⟩ := omap_ok_inv h
    simp only [shapesK, Bool.and_eq_true]
    refine ⟨?_, ihr _ _ hws⟩
    split at hv
    · split at hv
      · split at hv
        · apply iht (.map kvs); simp only [refFill]; exact hv
        · split at hv
          · apply iht (.map kvs); simp only [refFill]
            obtain ⟨ws', hws', rfl⟩ := omap_ok_inv hv
            simp [hws']
          · simp at hv; subst hv; simp [shapeK]
        · simp at hv; subst hv; exact zero_shape.1 t
      · simp at hv; subst hv; exact zero_shape.1 t
    · split at hv
      · simp at hv; subst hv; exact zero_shape.1 t
      · exact iht _ _ hv


theorem refFill_total (E : Ext) (fmt : Fmt) :
    (∀ K, ∀ d c, refFill E fmt K d ≠ .panic c) ∧
    (∀ fs, ∀ kvs c, refFields E fmt fs kvs ≠ .panic c) := by
  apply kty_ind
  · intro k d c h
    cases d <;> simp only [refFill] at h
    · exact scalarFill_total fmt k _ c h
    all_goals simp at h
  · intro d c h
    simp only [refFill] at h
    exact durFill_total E fmt d c h
  · intro d c h
    simp only [refFill] at h
    exact pdur_total E d c h
  · intro k d c h
    simp only [refFill] at h
    exact textFill_total E fmt k d c h
  · intro e ih d c h
    cases d <;> simp only [refFill] at h
    · simp at h
    · split at h
      · simp at h
      obtain ⟨a, _, ha⟩ := mapO_panic _ c _ (omap_panic_inv h)
      exact ih a c ha
    · simp at h
  · intro e ih d c h
    cases d <;> simp only [refFill] at h
    · simp at h
    · simp at h
    · obtain ⟨a, _, ha⟩ := mapO_panic _ c _ (omap_panic_inv h)
      exact ih _ c (omap_panic_inv ha)
  · intro d c h; simp [refFill] at h
  · intro e ih d c h
    simp only [refFill] at h
    exact ih _ c (omap_panic_inv h)
  · intro fs ih d c h
    cases d <;> simp only [refFill] at h
    · simp at h
    · simp at h
    · exact ih _ c (omap_panic_inv h)
  · intro kvs c h; simp [refFields] at h
  · intro key a t r iht ihr kvs c h
    rw [refFields.eq_def] at h
    simp only at h
    rcases obind_panic_inv h with hv | ⟨v, _, h⟩
    · split at hv
      · split at hv
        · split at hv
          · apply iht (.map kvs) c; simp only [refFill]; exact hv
          · split at hv
            · apply iht (.map kvs) c; simp only [refFill]
              rw [omap_panic_inv hv]; rfl
            · simp at hv
          · simp at hv
        · simp at hv
      · split at hv
        · simp at hv
        · exact iht _ _ hv
    · exact ihr _ c (omap_panic_inv h)

theorem refFill_contract (E : Ext) (fmt : Fmt) : FillContract E fmt (refFill E fmt) where
  struct_map := by
    intro fs kvs h _
    simp only [refFill]
    rw [refFields_eq_fillFields E fmt kvs fs h]
  struct_scalar := by intro fs s; simp [refFill]
  struct_list := by intro fs ds; simp [refFill]
  ptr := by intro t d; simp [refFill]
  slice_list := by intro e ds h; simp [refFill, h]
  slice_scalar := by intro e s; simp [refFill]
  slice_map := by intro e kvs; simp [refFill]
  map_map := by intro e kvs _; simp [refFill]
  map_scalar := by intro e s; simp [refFill]
  map_list := by intro e ds; simp [refFill]
  scalar := by intro k s r h; simp [refFill, h]
  scalar_list := by intro k ds; simp [refFill]
  scalar_map := by intro k kvs; simp [refFill]
  dur_scalar_int := by intro i; simp [refFill]
  dur_scalar_str := by intro s; simp [refFill]
  dur_list := by intro ds; simp [refFill, durFill]
  dur_map := by intro kvs; simp [refFill, durFill]
  pdur := by intro _ d; simp [refFill]
  text_str := by intro k s; simp [refFill]
  text_time := by intro k s; simp [refFill]
  text_list := by intro k ds; simp [refFill, textFill]
  shape := (refFill_shape E fmt).1
  total := (refFill_total E fmt).1


/-! ### rendering and reading back -/

theorem mapO_map_ok {α β} (f : α → Outcome β) (g : β → α) :
    ∀ (l : List β), (∀ b ∈ l, f (g b) = .ok b) → mapO f (l.map g) = .ok l := by
  intro l
  induction l with
  | nil => intro _; simp [mapO]
  | cons b r ih =>
    intro h
    simp [mapO, h b List.mem_cons_self, ih (fun b' hb' => h b' (List.mem_cons_of_mem _ hb'))]

theorem renderFields_nil (E : Ext) (fmt : Fmt) (intDur : Int → Bool) (key : String) (a : Bool) (t : KTy)
    (r : KFields) (vs : List Val) :
    renderFields E fmt intDur (.cons key a t r) (.nil :: vs) = renderFields E fmt intDur r vs := by
  simp [renderFields]

theorem renderFields_cons (E : Ext) (fmt : Fmt) (intDur : Int → Bool) (key : String) (a : Bool) (t : KTy)
    (r : KFields) (v : Val) (vs : List Val) (hv : v.isNil = false) :
    renderFields E fmt intDur (.cons key a t r) (v :: vs)
      = (key, renderK E fmt intDur t v) :: renderFields E fmt intDur r vs := by
  cases v <;> simp [renderFields, Val.isNil] at *

theorem wtFields_nil (E : Ext) (fmt : Fmt) (key : String) (a : Bool) (t : KTy) (r : KFields) (vs : List Val) :
    wtFields E fmt (.cons key a t r) (.nil :: vs) = (nilableK t && wtFields E fmt r vs) := by
  simp [wtFields]

theorem wtFields_cons (E : Ext) (fmt : Fmt) (key : String) (a : Bool) (t : KTy) (r : KFields) (v : Val)
    (vs : List Val) (hv : v.isNil = false) :
    wtFields E fmt (.cons key a t r) (v :: vs) = (wt E fmt t v && wtFields E fmt r vs) := by
  cases v <;> simp [wtFields, Val.isNil] at *

theorem lookupD_none (k : String) : ∀ (kvs : List (String × Doc)), k ∉ docKeys kvs → lookupD k kvs = none := by
  intro kvs
  induction kvs with
  | nil => intro _; rfl
  | cons a r ih =>
    obtain ⟨k', d⟩ := a
    intro h
    simp only [docKeys, List.mem_cons, not_or] at h
    simp only [lookupD]
    rw [if_neg (fun e => h.1 e.symm)]
    exact ih h.2

theorem render_keys_sub (E : Ext) (fmt : Fmt) (intDur : Int → Bool) :
    ∀ fs vs k, k ∈ docKeys (renderFields E fmt intDur fs vs) → k ∈ keysOf fs := by
  apply kfields_ind
  · intro vs k h; simp [renderFields, docKeys] at h
  · intro key a t r ih vs k h
    cases vs with
    | nil => simp [renderFields, docKeys] at h
    | cons v vs =>
      cases hv : v.isNil
      · rw [renderFields_cons _ _ _ _ _ _ _ _ _ hv] at h
        simp only [docKeys, List.mem_cons] at h
        rcases h with h | h
        · simp [keysOf, h]
        · simp [keysOf, ih vs k h]
      · cases v <;> simp [Val.isNil] at hv
        rw [renderFields_nil] at h
        simp [keysOf, ih vs k h]

theorem nodupS_cons (k : String) (r : List String) : nodupS (k :: r) = true ↔ k ∉ r ∧ nodupS r = true := by
  simp [nodupS]

theorem render_nodup (E : Ext) (fmt : Fmt) (intDur : Int → Bool) :
    ∀ fs vs, nodupS (keysOf fs) = true → nodupKeys (renderFields E fmt intDur fs vs) = true := by
  apply kfields_ind
  · intro vs _; simp [renderFields, nodupKeys, docKeys, nodupS]
  · intro key a t r ih vs h
    simp only [keysOf, nodupS_cons] at h
    cases vs with
    | nil => simp [renderFields, nodupKeys, docKeys, nodupS]
    | cons v vs =>
      cases hv : v.isNil
      · rw [renderFields_cons _ _ _ _ _ _ _ _ _ hv]
        simp only [nodupKeys, docKeys, nodupS_cons]
        exact ⟨fun hm => h.1 (render_keys_sub E fmt intDur r vs key hm), ih vs h.2⟩
      · cases v <;> simp [Val.isNil] at hv
        rw [renderFields_nil]
        exact ih vs h.2

/-- the document `kvs` holds, under each field's key, the rendering of the field's value (nothing when it is nil) -/
def agreeK (E : Ext) (fmt : Fmt) (intDur : Int → Bool) : KFields → List Val → List (String × Doc) → Prop
  | .cons key _ t r, v :: vs, kvs =>
    lookupD key kvs = (if v.isNil then none else some (renderK E fmt intDur t v)) ∧ agreeK E fmt intDur r vs kvs
  | _, _, _ => True

theorem agree_push (E : Ext) (fmt : Fmt) (intDur : Int → Bool) (key : String) (d : Doc) (kvs : List (String × Doc)) :
    ∀ fs vs, key ∉ keysOf fs → agreeK E fmt intDur fs vs kvs → agreeK E fmt intDur fs vs ((key, d) :: kvs) := by
  apply kfields_ind
  · intro vs _ _; simp [agreeK]
  · intro key' a t r ih vs hk h
    cases vs with
    | nil => simp [agreeK]
    | cons v vs =>
      simp only [keysOf, List.mem_cons, not_or] at hk
      simp only [agreeK] at h ⊢
      refine ⟨?_, ih vs hk.2 h.2⟩
      simp only [lookupD]
      rw [if_neg hk.1]
      exact h.1

theorem agree_render (E : Ext) (fmt : Fmt) (intDur : Int → Bool) :
    ∀ fs vs, nodupS (keysOf fs) = true → agreeK E fmt intDur fs vs (renderFields E fmt intDur fs vs) := by
  apply kfields_ind
  · intro vs _; simp [agreeK]
  · intro key a t r ih vs h
    simp only [keysOf, nodupS_cons] at h
    cases vs with
    | nil => simp [agreeK]
    | cons v vs =>
      cases hv : v.isNil
      · rw [renderFields_cons _ _ _ _ _ _ _ _ _ hv]
        simp only [agreeK, hv]
        refine ⟨by simp [lookupD], agree_push E fmt intDur key _ _ r vs h.1 (ih vs h.2)⟩
      · cases v <;> simp [Val.isNil] at hv
        rw [renderFields_nil]
        simp only [agreeK, Val.isNil, if_true]
        exact ⟨lookupD_none key _ (fun hm => h.1 (render_keys_sub E fmt intDur r vs key hm)), ih vs h.2⟩

theorem docKeys_map {α} (g : String × α → Doc) :
    ∀ (l : List (String × α)), docKeys (l.map fun kv => (kv.1, g kv)) = l.map (·.1) := by
  intro l
  induction l with
  | nil => rfl
  | cons a r ih => simp [docKeys, ih]

theorem zeroK_nilable (t : KTy) (h : nilableK t = true) : zeroK t = .nil := by
  cases t with
  | text k => cases k <;> simp_all [nilableK, zeroK]
  | _ => simp_all [nilableK, zeroK]


theorem fill_render (E : Ext) (fmt : Fmt) (fill : KTy → Doc → Outcome Val) (hC : FillContract E fmt fill)
    (intDur : Int → Bool) :
    (∀ K, keysOK K = true → ∀ x, wt E fmt K x = true → fill K (renderK E fmt intDur K x) = .ok x) ∧
    (∀ fs, fieldsKeysOK fs = true → ∀ vs kvs, wtFields E fmt fs vs = true → agreeK E fmt intDur fs vs kvs →
      fillFields fill fs kvs = .ok vs) := by
  apply kty_ind
  · intro k hK x hx
    cases k <;> cases x <;> simp [wt] at hx
    · exact hC.scalar _ _ _ rfl
    · rename_i b i
      exact hC.scalar (.int b) (.int i) _ (by simp [scalarFill, hx])
    · rename_i b i
      exact hC.scalar (.uint b) (.int i) _ (by simp [scalarFill, hx])
    · exact hC.scalar _ _ _ rfl
    · exact hC.scalar _ _ _ rfl
  · intro _ x hx
    cases x <;> simp [wt] at hx
    simp only [renderK]
    rw [hC.dur_scalar_str]
    cases fmt <;> simp [Fmt.subs] at hx <;> simp [durFill, hx]
  · intro _ x hx
    cases x <;> simp [wt] at hx
    rename_i n
    simp only [renderK]
    rw [hC.pdur hx.1.1]
    cases intDur n <;> simp [pdurUnmarshal, Facts.pdurAcceptsString, Facts.pdurAcceptsNumber, hx]
  · intro k _ x hx
    cases k <;> cases x <;> simp [wt] at hx
    · simp only [renderK]
      split
      · rename_i h; subst h
        simp at hx
        rw [hC.text_time]; simp [textFill, hx]
      · rename_i h
        simp [h] at hx
        rw [hC.text_str]; simp [textFill, hx, h]
    · simp only [renderK]
      rw [hC.text_str]; simp [textFill, hx]
  · intro e ih hK x hx
    simp only [keysOK] at hK
    cases x <;> simp [wt] at hx
    simp only [renderK]
    rw [hC.slice_list _ _ (by rw [List.length_map]; exact hx.1), mapO_map_ok _ _ _ (fun b hb => ih hK b (hx.2 b hb))]
    rfl
  · intro e ih hK x hx
    simp only [keysOK] at hK
    cases x <;> simp [wt] at hx
    rename_i kvs
    simp only [renderK]
    rw [hC.map_map _ _ (by rw [nodupKeys, docKeys_map]; exact hx.1)]
    simp only [fillMap]
    rw [mapO_map_ok _ (fun kv : String × Val => (kv.1, renderK E fmt intDur e kv.2)) kvs
      (fun b hb => by simp [ih hK b.2 (hx.2 b.1 b.2 hb)])]
    rfl
  · intro _ x hx; cases x <;> simp [wt] at hx
  · intro e ih hK x hx
    simp only [keysOK] at hK
    cases x <;> simp [wt] at hx
    simp only [renderK]
    rw [hC.ptr, ih hK _ hx]; rfl
  · intro fs ih hK x hx
    simp only [keysOK, Bool.and_eq_true] at hK
    cases x <;> simp [wt] at hx
    rename_i vs
    simp only [renderK]
    rw [hC.struct_map _ _ hK.1.1 (render_nodup E fmt intDur fs vs hK.1.2),
      ih hK.2 vs _ hx (agree_render E fmt intDur fs vs hK.1.2)]
    rfl
  · intro _ vs kvs hw _
    cases vs <;> simp [wtFields] at hw
    simp [fillFields]
  · intro key a t r iht ihr hK vs kvs hw hag
    simp only [fieldsKeysOK, Bool.and_eq_true] at hK
    cases vs with
    | nil => simp [wtFields] at hw
    | cons v vs =>
      simp only [agreeK] at hag
      cases hv : v.isNil
      · rw [wtFields_cons _ _ _ _ _ _ _ _ hv, Bool.and_eq_true] at hw
        simp only [hv] at hag
        simp [fillFields, fillField, hag.1, iht hK.1 v hw.1, ihr hK.2 vs kvs hw.2 hag.2]
      · cases v <;> simp [Val.isNil] at hv
        rw [wtFields_nil, Bool.and_eq_true] at hw
        simp only [Val.isNil, if_true] at hag
        simp [fillFields, fillField, hag.1, zeroK_nilable t hw.1, ihr hK.2 vs kvs hw.2 hag.2]


/-! ### the set→slice wrapper: forward on values, back -/

theorem dedupe_nodup : ∀ (ks : List String), nodupS ks = true → dedupe ks = ks := by
  intro ks
  induction ks with
  | nil => intro _; rfl
  | cons k r ih =>
    intro h
    simp [nodupS] at h
    simp [dedupe, h.1, ih h.2]

theorem strsOf_map : ∀ (ks : List String), strsOf (ks.map Val.str) = some ks := by
  intro ks
  induction ks with
  | nil => rfl
  | cons k r ih => simp [strsOf, ih]

theorem fwdSet_leaf (t : Ty) (x : Val) (h : isLeaf t = true) (hs : t ≠ .set) : fwdSet t x = x := by
  obtain ⟨h1, h2, h3⟩ := isLeaf_not t h
  exact fwdSet.eq_5 t x hs (fun fs _ e _ => h1 fs e) (fun fs _ e _ => h2 fs e) (fun fs _ e _ => h3 fs e)

theorem unpassTy_leaf (leaf : Ty → Val → Outcome Val) (t : Ty) (x : Val) (h : isLeaf t = true) :
    unpassTy leaf t x = leaf t x := by
  obtain ⟨h1, h2, h3⟩ := isLeaf_not t h
  exact unpassTy.eq_9 leaf t x h1 h2 h3 (fun fs _ e _ => h1 fs e) (fun fs e _ => h2 fs e)
    (fun fs _ e _ => h2 fs e) (fun fs e _ => h3 fs e) (fun fs _ e _ => h3 fs e)

theorem unSetLeaf_other (t : Ty) (v : Val) (hs : t ≠ .set) : unSetLeaf t v = .ok v := by
  cases t <;> simp [unSetLeaf] at *

theorem set_roundtrip :
    (∀ t, ∀ x, setsOK t x = true → unpassTy unSetLeaf t (fwdSet t x) = .ok x) ∧
    (∀ fs, ∀ vs, setsOKFields fs vs = true → unpassFields unSetLeaf fs (fwdSets fs vs) = .ok vs) := by
  apply ty_ind
  · intro fs ih x h
    cases x <;> simp [setsOK] at h
    simp [fwdSet, unpassTy, ih _ h]
  · intro fs ih x h
    cases x with
    | nil => simp [fwdSet, unpassTy]
    | ptr v =>
      cases v <;> simp [setsOK] at h
      simp [fwdSet, unpassTy, ih _ h]
    | _ => simp [setsOK] at h
  · intro fs ih x h
    cases x with
    | nil => simp [fwdSet, unpassTy]
    | list vs =>
      simp only [setsOK, List.all_eq_true] at h
      simp only [fwdSet, unpassTy]
      rw [mapO_map_ok]
      · rfl
      · intro v hv
        have := h v hv
        cases v <;> simp at this
        simp [ih _ this]
    | _ => simp [setsOK] at h
  · intro t hl x h
    by_cases hs : t = .set
    · subst hs
      cases x <;> simp [setsOK] at h
      · simp [fwdSet, setAsList, unpassTy, unSetLeaf, Facts.setSliceNilStaysNil]
      · simp [fwdSet, setAsList, unpassTy, unSetLeaf, strsOf_map, dedupe_nodup _ h]
    · rw [fwdSet_leaf t x hl hs, unpassTy_leaf _ t x hl, unSetLeaf_other t x hs]
  · intro vs h
    cases vs <;> simp [setsOKFields] at h
    simp [unpassFields]
  · intro n a tg t r iht ihr vs h
    cases vs with
    | nil => simp [setsOKFields] at h
    | cons v vs =>
      simp only [setsOKFields, Bool.and_eq_true] at h
      simp [fwdSets, unpassFields, iht v h.1, ihr vs h.2]


/-! ### the decoders -/

theorem chain_reverse (fmt : Fmt) (T : Ty) (v : Val) : reverse (chainOf fmt false) T v = .ok v := by
  cases fmt
  · rw [chain_json]; simp [reverse, Mangler.rev]
  · rw [chain_yaml]; simp [reverse, Mangler.rev]
  · rw [chain_toml]; simp [reverse, Mangler.rev]
  · rw [chain_cue]; simp [reverse, Mangler.rev]

theorem checksErr_all (fmt : Fmt) : checksErr fmt = true := by cases fmt <;> rfl

/-- `decode` on the supported domain, in terms of the library's filler on the keyed type of the property -/
theorem decode_eq (fmt : Fmt) (wrap : Bool) (L : Lib) (T : Ty) (d : Doc) (hT : reachTy fmt T = true) :
    decode fmt false wrap L T d
      = obind (L.fill (kview fmt wrap T) d) fun v => reverse (wrapChain wrap) T v := by
  unfold decode
  simp only [key_path fmt wrap T hT, checksErr_all, if_true]
  cases h : L.fill (kview fmt wrap T) d with
  | ok v => simp [chain_reverse]
  | err c => simp [Facts.wrapChecksInnerErr]
  | panic c => simp

theorem decode_render (E : Ext) (fmt : Fmt) (wrap : Bool) (L : Lib) (hC : FillContract E fmt L.fill)
    (intDur : Int → Bool) (T : Ty) (x : Val)
    (hT : supported fmt wrap T = true) (hx : wtData E fmt wrap T x = true) :
    decode fmt false wrap L T (render E fmt wrap intDur T x) = .ok x := by
  simp only [supported, Bool.and_eq_true] at hT
  simp only [wtData, Bool.and_eq_true] at hx
  rw [decode_eq fmt wrap L T _ hT.1]
  unfold render
  rw [(fill_render E fmt L.fill hC intDur).1 _ hT.2 _ hx.1]
  cases wrap
  · simp [wrapChain, reverse]
  · simp only [wrapChain, if_true, reverse, obind_ok, Mangler.rev]
    simp at hx
    exact set_roundtrip.1 T x hx.2


/-! ### shapes do not depend on keys or on the duration substitution; undoing the wrapper keeps them -/

theorem ty_rec_ind {motive : Ty → Prop} {motiveF : Fields → Prop}
    (scalar : ∀ k, motive (.scalar k)) (dur : motive .dur) (pdur : motive .pdur) (text : ∀ k, motive (.text k))
    (slice : ∀ e, motive e → motive (.slice e)) (map : ∀ e, motive e → motive (.map e)) (set : motive .set)
    (ptr : ∀ e, motive e → motive (.ptr e)) (struct : ∀ fs, motiveF fs → motive (.struct fs))
    (nil : motiveF .nil) (cons : ∀ n a tg t r, motive t → motiveF r → motiveF (.cons n a tg t r)) :
    (∀ t, motive t) ∧ (∀ fs, motiveF fs) :=
  ⟨fun t => Ty.rec (motive_1 := motive) (motive_2 := motiveF) scalar dur pdur text slice map set ptr struct nil cons t,
   fun fs => Fields.rec (motive_1 := motive) (motive_2 := motiveF) scalar dur pdur text slice map set ptr struct nil cons fs⟩

theorem shape_indep (keyf keyf' : Tags → String) (sub sub' ss : Bool) :
    (∀ t, ∀ v, shapeK (kvTy keyf sub ss t) v = shapeK (kvTy keyf' sub' ss t) v) ∧
    (∀ fs, ∀ vs, shapesK (kvFields keyf sub ss fs) vs = shapesK (kvFields keyf' sub' ss fs) vs) := by
  apply ty_rec_ind
  · intro k v; rfl
  · intro v; cases sub <;> cases sub' <;> cases v <;> simp [kvTy, shapeK]
  · intro v; rfl
  · intro k v; rfl
  · intro e ih v
    have : shapeK (kvTy keyf sub ss e) = shapeK (kvTy keyf' sub' ss e) := funext ih
    cases v <;> simp [kvTy, shapeK, this]
  · intro e ih v
    have : shapeK (kvTy keyf sub ss e) = shapeK (kvTy keyf' sub' ss e) := funext ih
    cases v <;> simp [kvTy, shapeK, this]
  · intro v; rfl
  · intro e ih v
    cases v <;> simp [kvTy, shapeK, ih]
  · intro fs ih v
    cases v <;> simp [kvTy, shapeK, ih]
  · intro vs; rfl
  · intro n a tg t r iht ihr vs
    cases vs <;> simp [kvFields, shapesK, iht, ihr]

theorem mapO_ok_ex {α β} (f : α → Outcome β) (P : β → Prop) :
    ∀ (l : List α), (∀ a ∈ l, ∃ b, f a = .ok b ∧ P b) → ∃ bs, mapO f l = .ok bs ∧ ∀ b ∈ bs, P b := by
  intro l
  induction l with
  | nil => intro _; exact ⟨[], rfl, by simp⟩
  | cons a r ih =>
    intro h
    obtain ⟨b, hb, hP⟩ := h a List.mem_cons_self
    obtain ⟨bs, hbs, hPs⟩ := ih (fun a' ha' => h a' (List.mem_cons_of_mem _ ha'))
    refine ⟨b :: bs, by simp [mapO, hb, hbs], ?_⟩
    intro b' hb'
    rcases List.mem_cons.1 hb' with rfl | hb'
    · exact hP
    · exact hPs b' hb'

theorem slice_mapO_shape {α} (f : α → Outcome Val) (e : KTy) (l : List α)
    (h : ∀ a ∈ l, ∃ b, f a = .ok b ∧ shapeK e b = true) :
    ∃ w, omap Val.list (mapO f l) = .ok w ∧ shapeK (.slice e) w = true := by
  obtain ⟨bs, hbs, hP⟩ := mapO_ok_ex f (fun b => shapeK e b = true) l h
  exact ⟨.list bs, by simp [hbs], by simp only [shapeK, List.all_eq_true]; exact hP⟩

theorem strsOf_of_shape : ∀ (vs : List Val), (∀ v ∈ vs, shapeK (.scalar .str) v = true) → ∃ ks, strsOf vs = some ks := by
  intro vs
  induction vs with
  | nil => intro _; exact ⟨[], rfl⟩
  | cons v r ih =>
    intro h
    obtain ⟨ks, hks⟩ := ih (fun v' hv' => h v' (List.mem_cons_of_mem _ hv'))
    have hv := h v List.mem_cons_self
    cases v <;> simp [shapeK] at hv
    rename_i s
    exact ⟨s :: ks, by simp [strsOf, hks]⟩

theorem unwrap_shape (fmt : Fmt) (keyf : Tags → String) (sub : Bool) :
    (∀ t, reachTy fmt t = true → ∀ v, shapeK (kvTy keyf sub true t) v = true →
      ∃ w, unpassTy unSetLeaf t v = .ok w ∧ shapeK (kvTy keyf sub false t) w = true) ∧
    (∀ fs, reachFields fmt fs = true → ∀ vs, shapesK (kvFields keyf sub true fs) vs = true →
      ∃ ws, unpassFields unSetLeaf fs vs = .ok ws ∧ shapesK (kvFields keyf sub false fs) ws = true) := by
  apply ty_ind
  · intro fs ih hr v hv
    simp only [reachTy] at hr
    cases v <;> simp [kvTy, shapeK] at hv
    obtain ⟨ws, hws, hs⟩ := ih hr _ hv
    exact ⟨.struct ws, by simp [unpassTy, hws], by simp [kvTy, shapeK, hs]⟩
  · intro fs ih hr v hv
    simp only [reachTy] at hr
    cases v with
    | nil => exact ⟨.nil, by simp [unpassTy], by simp [kvTy, shapeK]⟩
    | ptr v' =>
      cases v' <;> simp [kvTy, shapeK] at hv
      obtain ⟨ws, hws, hs⟩ := ih hr _ hv
      exact ⟨.ptr (.struct ws), by simp [unpassTy, hws], by simp [kvTy, shapeK, hs]⟩
    | _ => simp [kvTy, shapeK] at hv
  · intro fs ih hr v hv
    simp only [reachTy] at hr
    cases v with
    | nil => exact ⟨.nil, by simp [unpassTy], by simp [kvTy, shapeK]⟩
    | list vs =>
      simp only [kvTy, shapeK, List.all_eq_true] at hv
      simp only [unpassTy, kvTy]
      apply slice_mapO_shape
      intro a ha
      have := hv a ha
      cases a <;> simp [shapeK] at this
      obtain ⟨ws, hws, hs⟩ := ih hr _ this
      exact ⟨.struct ws, by simp [hws], by simp [shapeK, hs]⟩
    | _ => simp [kvTy, shapeK] at hv
  · intro t hl hr v hv
    rw [unpassTy_leaf _ t v hl]
    rcases reachTy_leaf fmt t hl hr with rfl | hp
    · cases v with
      | nil => exact ⟨.nil, by simp [unSetLeaf, Facts.setSliceNilStaysNil], by simp [kvTy, shapeK]⟩
      | list vs =>
        simp only [kvTy, if_true, shapeK, List.all_eq_true] at hv
        obtain ⟨ks, hks⟩ := strsOf_of_shape vs hv
        exact ⟨.set (dedupe ks), by simp [unSetLeaf, hks], by simp [kvTy, shapeK]⟩
      | _ => simp [kvTy, shapeK] at hv
    · refine ⟨v, unSetLeaf_other t v (by intro h; subst h; simp [plainTy] at hp), ?_⟩
      rw [plain_kv keyf keyf sub false true t hp]; exact hv
  · intro _ vs hv
    cases vs <;> simp [kvFields, shapesK] at hv
    exact ⟨[], by simp [unpassFields], by simp [kvFields, shapesK]⟩
  · intro n a tg t r iht ihr hr vs hv
    simp only [reachFields, Bool.and_eq_true] at hr
    cases vs with
    | nil => simp [kvFields, shapesK] at hv
    | cons v vs =>
      simp only [kvFields, shapesK, Bool.and_eq_true] at hv
      obtain ⟨w, hw, hs⟩ := iht hr.1.2 v hv.1
      obtain ⟨ws, hws, hss⟩ := ihr hr.2 vs hv.2
      exact ⟨w :: ws, by simp [unpassFields, hw, hws], by simp [kvFields, shapesK, hs, hss]⟩

theorem reverse_shape (fmt : Fmt) (wrap : Bool) (T : Ty) (v : Val) (hr : reachTy fmt T = true)
    (hv : shapeK (kview fmt wrap T) v = true) :
    ∃ w, reverse (wrapChain wrap) T v = .ok w ∧ shape T w = true := by
  unfold kview at hv
  unfold shape
  cases wrap
  · refine ⟨v, by simp [wrapChain, reverse], ?_⟩
    rw [← (shape_indep (keyRule fmt) (fun _ => "") fmt.subs false false).1 T v]; exact hv
  · obtain ⟨w, hw, hs⟩ := (unwrap_shape fmt (keyRule fmt) fmt.subs).1 T hr v hv
    refine ⟨w, by simp [wrapChain, reverse, Mangler.rev, hw], ?_⟩
    rw [← (shape_indep (keyRule fmt) (fun _ => "") fmt.subs false false).1 T w]; exact hs

theorem error_or_full (E : Ext) (fmt : Fmt) (wrap : Bool) (L : Lib) (hC : FillContract E fmt L.fill)
    (T : Ty) (d : Doc) (hT : supported fmt wrap T = true) :
    (∃ c, decode fmt false wrap L T d = .err c) ∨
    (∃ v, decode fmt false wrap L T d = .ok v ∧ shape T v = true) := by
  simp only [supported, Bool.and_eq_true] at hT
  rw [decode_eq fmt wrap L T d hT.1]
  cases h : L.fill (kview fmt wrap T) d with
  | ok v =>
    right
    obtain ⟨w, hw, hs⟩ := reverse_shape fmt wrap T v hT.1 (hC.shape _ _ _ h)
    exact ⟨w, by simp [hw], hs⟩
  | err c => left; exact ⟨c, rfl⟩
  | panic c => exact absurd h (hC.total _ _ _)


/-! ### field-wise reading of a struct -/

theorem fillFields_get (fill : KTy → Doc → Outcome Val) (keyf : Tags → String) (sub ss : Bool)
    (kvs : List (String × Doc)) :
    ∀ fs, ∀ (ws : List Val) (i : Nat) (tg : Tags) (t : Ty),
      fillFields fill (kvFields keyf sub ss fs) kvs = .ok ws → Fields.get? fs i = some (tg, t) →
      ∃ w, ws[i]? = some w ∧ fillField fill (keyf tg) (kvTy keyf sub ss t) kvs = .ok w := by
  apply fields_ind
  · intro ws i tg t _ hf; simp [Fields.get?] at hf
  · intro n a tg' t' r ih ws i tg t h hf
    simp only [kvFields, fillFields] at h
    obtain ⟨w, hw, h⟩ := obind_ok_inv h
    obtain ⟨ws', hws', rfl⟩ := omap_ok_inv h
    cases i with
    | zero =>
      simp only [Fields.get?, Option.some.injEq, Prod.mk.injEq] at hf
      obtain ⟨rfl, rfl⟩ := hf
      exact ⟨w, by simp, hw⟩
    | succ j =>
      simp only [Fields.get?] at hf
      obtain ⟨w', hw', hf'⟩ := ih ws' j tg t hws' hf
      exact ⟨w', by simp [hw'], hf'⟩

theorem unpassFields_get (leaf : Ty → Val → Outcome Val) :
    ∀ fs, ∀ (ws vs : List Val) (i : Nat) (tg : Tags) (t : Ty) (w : Val),
      unpassFields leaf fs ws = .ok vs → Fields.get? fs i = some (tg, t) → ws[i]? = some w →
      ∃ v, vs[i]? = some v ∧ unpassTy leaf t w = .ok v := by
  apply fields_ind
  · intro ws vs i tg t w _ hf; simp [Fields.get?] at hf
  · intro n a tg' t' r ih ws vs i tg t w h hf hw
    cases ws with
    | nil => simp at hw
    | cons w0 ws =>
      simp only [unpassFields] at h
      obtain ⟨v0, hv0, h⟩ := obind_ok_inv h
      obtain ⟨vs', hvs', rfl⟩ := omap_ok_inv h
      cases i with
      | zero =>
        simp only [Fields.get?, Option.some.injEq, Prod.mk.injEq] at hf
        obtain ⟨rfl, rfl⟩ := hf
        simp at hw; subst hw
        exact ⟨v0, by simp, hv0⟩
      | succ j =>
        simp only [Fields.get?] at hf
        simp at hw
        obtain ⟨v, hv, hu⟩ := ih ws vs' j tg t w hvs' hf hw
        exact ⟨v, by simp [hv], hu⟩

theorem nilable_kv (keyf : Tags → String) (sub ss : Bool) (t : Ty) (h : nilableTy t = true) :
    nilableK (kvTy keyf sub ss t) = true := by
  cases t with
  | text k => cases k <;> simp_all [nilableTy, nilableK, kvTy]
  | set => cases ss <;> simp [nilableK, kvTy]
  | _ => simp_all [nilableTy, nilableK, kvTy]

theorem unpass_nil (t : Ty) (h : nilableTy t = true) : unpassTy unSetLeaf t .nil = .ok .nil := by
  cases t with
  | ptr e => cases e <;> simp [unpassTy, unSetLeaf]
  | slice e => cases e <;> simp [unpassTy, unSetLeaf]
  | map e => simp [unpassTy, unSetLeaf]
  | set => simp [unpassTy, unSetLeaf, Facts.setSliceNilStaysNil]
  | text k => simp [unpassTy, unSetLeaf]
  | _ => simp [nilableTy] at h

theorem keysNonEmpty_of_supported (fmt : Fmt) (wrap : Bool) (fs : Fields)
    (hT : supported fmt wrap (.struct fs) = true) :
    reachTy fmt (.struct fs) = true ∧ keysNonEmpty (kvFields (keyRule fmt) fmt.subs wrap fs) = true := by
  simp only [supported, kview, kvTy, keysOK, Bool.and_eq_true] at hT
  exact ⟨hT.1, hT.2.1.1⟩

theorem absent_unset (E : Ext) (fmt : Fmt) (wrap : Bool) (L : Lib) (hC : FillContract E fmt L.fill)
    (fs : Fields) (kvs : List (String × Doc)) (vs : List Val)
    (hT : supported fmt wrap (.struct fs) = true) (hk : nodupKeys kvs = true)
    (hdec : decode fmt false wrap L (.struct fs) (.map kvs) = .ok (.struct vs))
    (i : Nat) (tg : Tags) (t : Ty) (hf : Fields.get? fs i = some (tg, t)) (hn : nilableTy t = true)
    (habs : lookupD (keyRule fmt tg) kvs = none) :
    vs[i]? = some .nil := by
  obtain ⟨hr, hne⟩ := keysNonEmpty_of_supported fmt wrap fs hT
  rw [decode_eq fmt wrap L _ _ hr] at hdec
  simp only [kview, kvTy] at hdec
  rw [hC.struct_map _ _ hne hk] at hdec
  obtain ⟨v, hv, hrev⟩ := obind_ok_inv hdec
  obtain ⟨ws, hws, rfl⟩ := omap_ok_inv hv
  obtain ⟨w, hw, hfw⟩ := fillFields_get L.fill (keyRule fmt) fmt.subs wrap kvs fs ws i tg t hws hf
  simp only [fillField, habs] at hfw
  rw [zeroK_nilable _ (nilable_kv _ _ _ t hn)] at hfw
  cases Outcome.ok.inj hfw
  cases wrap
  · simp [wrapChain, reverse] at hrev
    subst hrev; exact hw
  · simp only [wrapChain, if_true, reverse, obind_ok, Mangler.rev, unpassTy] at hrev
    obtain ⟨vs', hvs', hEq⟩ := omap_ok_inv hrev
    cases hEq
    obtain ⟨v, hv, hu⟩ := unpassFields_get unSetLeaf fs ws vs i tg t .nil hvs' hf hw
    rw [unpass_nil t hn] at hu
    cases Outcome.ok.inj hu
    exact hv

theorem field_error_fails_all (E : Ext) (fmt : Fmt) (wrap : Bool) (L : Lib) (hC : FillContract E fmt L.fill)
    (fs : Fields) (kvs : List (String × Doc))
    (hT : supported fmt wrap (.struct fs) = true) (hk : nodupKeys kvs = true)
    (i : Nat) (tg : Tags) (t : Ty) (d : Doc) (hf : Fields.get? fs i = some (tg, t))
    (hl : lookupD (keyRule fmt tg) kvs = some d)
    (herr : ∃ c, L.fill (kvTy (keyRule fmt) fmt.subs wrap t) d = .err c) :
    (decode fmt false wrap L (.struct fs) (.map kvs)).isOk = false := by
  obtain ⟨hr, hne⟩ := keysNonEmpty_of_supported fmt wrap fs hT
  obtain ⟨c, herr⟩ := herr
  rw [decode_eq fmt wrap L _ _ hr]
  simp only [kview, kvTy]
  rw [hC.struct_map _ _ hne hk]
  cases hws : fillFields L.fill (kvFields (keyRule fmt) fmt.subs wrap fs) kvs with
  | ok ws =>
    obtain ⟨w, _, hfw⟩ := fillFields_get L.fill (keyRule fmt) fmt.subs wrap kvs fs ws i tg t hws hf
    simp only [fillField, hl] at hfw
    rw [herr] at hfw
    cases hfw
  | err c => rfl
  | panic c => rfl

/-! ### YAML's FlattenAnonymous option: keys after flattening; un-flattening inverts hoisting -/

/-- `ty_ind` with, at a field, also the fields-level statement for the struct the field's type is (or points
    to): what the flatten pass needs at an embedded field -/
theorem ty_ind2 {motive : Ty → Prop} {motiveF : Fields → Prop}
    (struct : ∀ fs, motiveF fs → motive (.struct fs))
    (ptrStruct : ∀ fs, motiveF fs → motive (.ptr (.struct fs)))
    (sliceStruct : ∀ fs, motiveF fs → motive (.slice (.struct fs)))
    (leaf : ∀ t, isLeaf t = true → motive t)
    (nil : motiveF .nil)
    (cons : ∀ n a tg t r, motive t → (∀ ifs, t = .struct ifs → motiveF ifs) →
      (∀ ifs, t = .ptr (.struct ifs) → motiveF ifs) → motiveF r → motiveF (.cons n a tg t r)) :
    (∀ t, motive t) ∧ (∀ fs, motiveF fs) := by
  have key := ty_ind
    (motive := fun t => motive t ∧ (∀ ifs, t = .struct ifs → motiveF ifs) ∧ (∀ ifs, t = .ptr (.struct ifs) → motiveF ifs))
    (motiveF := motiveF)
    (fun fs ih => ⟨struct fs ih, fun ifs h => (by cases h; exact ih), fun ifs h => (by cases h)⟩)
    (fun fs ih => ⟨ptrStruct fs ih, fun ifs h => (by cases h), fun ifs h => (by cases h; exact ih)⟩)
    (fun fs ih => ⟨sliceStruct fs ih, fun ifs h => (by cases h), fun ifs h => (by cases h)⟩)
    (fun t hl => ⟨leaf t hl, fun ifs h => (by subst h; simp [isLeaf] at hl), fun ifs h => (by subst h; simp [isLeaf] at hl)⟩)
    nil
    (fun n a tg t r iht ihr => cons n a tg t r iht.1 iht.2.1 iht.2.2 ihr)
  exact ⟨fun t => (key.1 t).1, key.2⟩


/-- does the flatten pass replace a field with this anonymous flag and type by the fields of its struct? -/
def embeds (a : Bool) : Ty → Bool
  | .struct _ => a
  | .ptr (.struct _) => a
  | _ => false

theorem embeds_cases (a : Bool) (t : Ty) :
    (a = true ∧ ∃ ifs, t = .struct ifs) ∨ (a = true ∧ ∃ ifs, t = .ptr (.struct ifs)) ∨ embeds a t = false := by
  cases a
  · right; right
    cases t with
    | ptr e => cases e <;> simp [embeds]
    | _ => simp [embeds]
  · cases t with
    | struct fs => exact .inl ⟨rfl, fs, rfl⟩
    | ptr e =>
      cases e with
      | struct fs => exact .inr (.inl ⟨rfl, fs, rfl⟩)
      | _ => simp [embeds]
    | _ => simp [embeds]

theorem embeds_not (a : Bool) (t : Ty) (h : embeds a t = false) :
    (∀ ifs, a = true → t = .struct ifs → False) ∧ (∀ ifs, a = true → t = .ptr (.struct ifs) → False) := by
  refine ⟨?_, ?_⟩ <;> (intro ifs ha ht; subst ha; subst ht; simp [embeds] at h)

theorem flatVal_leaf (t : Ty) (x : Val) (h : isLeaf t = true) : flatVal t x = x := by
  obtain ⟨h1, h2, h3⟩ := isLeaf_not t h
  exact flatVal.eq_4 t x (fun fs _ e _ => h1 fs e) (fun fs _ e _ => h2 fs e) (fun fs _ e _ => h3 fs e)

theorem unflatTy_leaf (t : Ty) (x : Val) (h : isLeaf t = true) : unflatTy t x = .ok x := by
  obtain ⟨h1, h2, h3⟩ := isLeaf_not t h
  exact unflatTy.eq_9 t x h1 h2 h3 (fun fs _ e _ => h1 fs e) (fun fs e _ => h2 fs e)
    (fun fs _ e _ => h2 fs e) (fun fs e _ => h3 fs e) (fun fs _ e _ => h3 fs e)

theorem unflat_nil (t : Ty) (h : ∀ fs, t ≠ .struct fs) : unflatTy t .nil = .ok .nil := by
  cases t with
  | struct fs => exact absurd rfl (h fs)
  | ptr e => cases e <;> simp [unflatTy]
  | slice e => cases e <;> simp [unflatTy]
  | _ => simp [unflatTy]

theorem noStructField_cons (n : String) (a : Bool) (tg : Tags) (t : Ty) (r : Fields) :
    noStructField (.cons n a tg t r) = true ↔ (∀ fs, t ≠ .struct fs) ∧ noStructField r = true := by
  cases t <;> simp [noStructField]

theorem unhoist_nils : ∀ fs, noStructField fs = true →
    unhoist fs (List.replicate (Fields.length fs) .nil) = .ok (List.replicate (Fields.length fs) .nil) := by
  apply fields_ind
  · intro _; simp [unhoist, Fields.length]
  · intro n a tg t r ih h
    rw [noStructField_cons] at h
    simp [Fields.length, List.replicate_succ, unhoist, unflat_nil t h.1, ih h.2]

theorem hoistVals_length : ∀ fs vs, hoistOKVals fs vs = true → (hoistVals fs vs).length = Fields.length fs := by
  apply fields_ind
  · intro vs _; simp [hoistVals, Fields.length]
  · intro n a tg t r ih vs h
    cases vs with
    | nil => simp [hoistOKVals] at h
    | cons v vs =>
      simp only [hoistOKVals, Bool.and_eq_true] at h
      simp [hoistVals, Fields.length, ih vs h.2]

theorem all_nil_replicate (n : Nat) : (List.replicate n Val.nil).all Val.isNil = true := by
  simp [List.all_replicate, Val.isNil]

theorem flatOKVals_nil (n : String) (a : Bool) (tg : Tags) (t : Ty) (r : Fields) :
    flatOKVals (.cons n a tg t r) [] = false := by
  rw [flatOKVals.eq_def]
  split <;> simp_all

theorem flat_roundtrip :
    (∀ t, ∀ x, ptrEmbedOK t = true → flatOKVal t x = true → unflatTy t (flatVal t x) = .ok x) ∧
    (∀ fs,
      (∀ vs, ptrEmbedOKFields fs = true → flatOKVals fs vs = true → unflatFields fs (flatVals fs vs) = .ok vs) ∧
      (∀ vs, ptrEmbedOKInner fs = true → hoistOKVals fs vs = true → unhoist fs (hoistVals fs vs) = .ok vs)) := by
  apply ty_ind2
  · intro fs ih x he h
    cases x <;> simp [flatOKVal] at h
    simp only [ptrEmbedOK] at he
    simp [flatVal, unflatTy, ih.1 _ he h]
  · intro fs ih x he h
    simp only [ptrEmbedOK] at he
    cases x with
    | nil => simp [flatVal, unflatTy]
    | ptr v =>
      cases v <;> simp [flatOKVal] at h
      simp [flatVal, unflatTy, ih.1 _ he h]
    | _ => simp [flatOKVal] at h
  · intro fs ih x he h
    simp only [ptrEmbedOK] at he
    cases x with
    | nil => simp [flatVal, unflatTy]
    | list vs =>
      simp only [flatOKVal, List.all_eq_true] at h
      simp only [flatVal, unflatTy]
      rw [mapO_map_ok]
      · rfl
      · intro v hv
        have := h v hv
        cases v <;> simp at this
        simp [ih.1 _ he this]
    | _ => simp [flatOKVal] at h
  · intro t hl x _ _; rw [flatVal_leaf t x hl, unflatTy_leaf t x hl]
  · refine ⟨?_, ?_⟩
    · intro vs _ h; cases vs <;> simp [flatOKVals] at h; simp [unflatFields]
    · intro vs _ h; cases vs <;> simp [hoistOKVals] at h; simp [unhoist]
  · intro n a tg t r iht hS hP ihr
    refine ⟨?_, ?_⟩
    · intro vs he h
      cases vs with
      | nil => simp [flatOKVals_nil] at h
      | cons v vs =>
        rcases embeds_cases a t with ⟨rfl, ifs, rfl⟩ | ⟨rfl, ifs, rfl⟩ | hne
        · simp only [ptrEmbedOKFields, Bool.and_eq_true] at he
          cases v <;> simp [flatOKVals] at h
          rename_i ws
          have hi := (hS ifs rfl).2 ws he.1 h.1
          have hl := hoistVals_length ifs ws h.1
          simp only [flatVals, unflatFields]
          rw [List.take_left' hl, List.drop_left' hl, hi, ihr.1 vs he.2 h.2]
          rfl
        · simp only [ptrEmbedOKFields, Bool.and_eq_true] at he
          cases v with
          | nil =>
            simp [flatOKVals] at h
            simp only [flatVals, unflatFields]
            rw [List.take_left' (List.length_replicate ..), List.drop_left' (List.length_replicate ..),
              unhoist_nils ifs he.1.1, ihr.1 vs he.2 h]
            simp only [obind_ok, omap_ok, all_nil_replicate, if_true]
          | ptr v' =>
            cases v' <;> simp [flatOKVals] at h
            rename_i ws
            have hi := (hP ifs rfl).2 ws he.1.2 h.1.1
            have hl := hoistVals_length ifs ws h.1.1
            simp only [flatVals, unflatFields]
            rw [List.take_left' hl, List.drop_left' hl, hi, ihr.1 vs he.2 h.2]
            obtain ⟨w, hw, hn⟩ := h.1.2
            have : ws.all Val.isNil = false := by
              simp only [List.all_eq_false]; exact ⟨w, hw, by simp [hn]⟩
            simp only [obind_ok, omap_ok, this]
            rfl
          | _ => simp [flatOKVals] at h
        · obtain ⟨h1, h2⟩ := embeds_not a t hne
          rw [ptrEmbedOKFields.eq_4 n a tg t r h1 h2, Bool.and_eq_true] at he
          rw [flatOKVals.eq_7 n a tg t r v vs (fun ifs _ ha ht _ => h1 ifs ha ht) (fun ifs ha ht => h1 ifs ha ht)
            (fun ifs _ ha ht _ => h2 ifs ha ht) (fun ifs ha ht _ => h2 ifs ha ht) (fun ifs ha ht => h2 ifs ha ht),
            Bool.and_eq_true] at h
          rw [flatVals.eq_6 n a tg t r v vs (fun ifs _ ha ht _ => h1 ifs ha ht)
            (fun ifs _ ha ht _ => h2 ifs ha ht) (fun ifs ha ht _ => h2 ifs ha ht),
            unflatFields.eq_5 n a tg t r _ _ h1 h2, iht v he.1 h.1, ihr.1 vs he.2 h.2]
          rfl
    · intro vs he h
      cases vs with
      | nil => simp [hoistOKVals] at h
      | cons v vs =>
        simp only [ptrEmbedOKInner, Bool.and_eq_true] at he
        simp only [hoistOKVals, Bool.and_eq_true] at h
        simp [hoistVals, unhoist, iht v he.1 h.1, ihr.2 vs he.2 h.2]


/-! keys at one struct level of the flattened type -/

theorem keysOf_append (keyf : Tags → String) (sub ss : Bool) (b : Fields) :
    ∀ a, keysOf (kvFields keyf sub ss (Fields.append a b))
      = keysOf (kvFields keyf sub ss a) ++ keysOf (kvFields keyf sub ss b) := by
  apply fields_ind
  · simp [Fields.append, kvFields, keysOf]
  · intro n a tg t r ih; simp [Fields.append, kvFields, keysOf, ih]

theorem keysOf_hoist (keyf : Tags → String) (sub ss : Bool) :
    ∀ ifs, keysOf (kvFields keyf sub ss (hoist ifs)) = tagKeys keyf ifs := by
  apply fields_ind
  · simp [hoist, kvFields, keysOf, tagKeys]
  · intro n a tg t r ih; simp [hoist, kvFields, keysOf, tagKeys, ih]

theorem keysOf_flat (keyf : Tags → String) (sub ss : Bool) :
    ∀ gs, keysOf (kvFields keyf sub ss (flatFields gs)) = spliceKeys keyf gs := by
  apply fields_ind
  · simp [flatFields, kvFields, keysOf, spliceKeys]
  · intro n a tg t r ih
    rcases embeds_cases a t with ⟨rfl, ifs, rfl⟩ | ⟨rfl, ifs, rfl⟩ | hne
    · simp [flatFields, spliceKeys, keysOf_append, keysOf_hoist, ih]
    · simp [flatFields, spliceKeys, keysOf_append, keysOf_hoist, ih]
    · obtain ⟨h1, h2⟩ := embeds_not a t hne
      rw [flatFields.eq_4 n a tg t r h1 h2, spliceKeys.eq_4 keyf n a tg t r h1 h2]
      simp [kvFields, keysOf, ih]

theorem tagKeys_pass (fmt : Fmt) (P : Pass) (keyf keyf' : Tags → String)
    (hk : ∀ tg, Tags.lookup tg fmt.libTag ≠ some "" → keyf (P.tags tg) = keyf' tg) :
    ∀ fs, reachFields fmt fs = true → tagKeys keyf (passFields P fs) = tagKeys keyf' fs := by
  apply fields_ind
  · intro _; simp [passFields, tagKeys]
  · intro n a tg t r ih h
    simp only [reachFields, Bool.and_eq_true, bne_iff_ne, ne_eq] at h
    simp [passFields, tagKeys, hk tg h.1.1, ih h.2]

theorem embeds_pass (P : Pass) (hleaf : ∀ t, P.leaf t = t) (a : Bool) (t : Ty) (h : embeds a t = false) :
    embeds a (passTy P t) = false := by
  rcases isLeaf_cases t with ⟨fs, rfl⟩ | ⟨fs, rfl⟩ | ⟨fs, rfl⟩ | hl
  · simpa [passTy, embeds] using h
  · simpa [passTy, embeds] using h
  · simp [passTy, embeds]
  · rw [passTy_leaf P t hl, hleaf]; exact h

theorem spliceKeys_pass (fmt : Fmt) (P : Pass) (keyf keyf' : Tags → String)
    (hk : ∀ tg, Tags.lookup tg fmt.libTag ≠ some "" → keyf (P.tags tg) = keyf' tg)
    (hleaf : ∀ t, P.leaf t = t) :
    ∀ fs, reachFields fmt fs = true → spliceKeys keyf (passFields P fs) = spliceKeys keyf' fs := by
  apply fields_ind
  · intro _; simp [passFields, spliceKeys]
  · intro n a tg t r ih h
    simp only [reachFields, Bool.and_eq_true, bne_iff_ne, ne_eq] at h
    rcases embeds_cases a t with ⟨rfl, ifs, rfl⟩ | ⟨rfl, ifs, rfl⟩ | hne
    · simp only [reachTy] at h
      simp [passFields, passTy, spliceKeys, tagKeys_pass fmt P keyf keyf' hk ifs h.1.2, ih h.2]
    · simp only [reachTy] at h
      simp [passFields, passTy, spliceKeys, tagKeys_pass fmt P keyf keyf' hk ifs h.1.2, ih h.2]
    · obtain ⟨h1, h2⟩ := embeds_not a t hne
      obtain ⟨h1', h2'⟩ := embeds_not a _ (embeds_pass P hleaf a t hne)
      rw [passFields, spliceKeys.eq_4 keyf n a _ _ _ h1' h2', spliceKeys.eq_4 keyf' n a tg t r h1 h2,
        hk tg h.1.1, ih h.2]

theorem chain_yaml_flatten : chainOf .yaml true = [.tagCopy "dials" "yaml", .anonFlatten] := by decide

theorem flatten_keys (fs : Fields) (hT : reachFields .yaml fs = true) :
    ∃ kfs, view "yaml" (translate (chainOf .yaml true) (.struct fs)) = .struct kfs ∧
      keysOf kfs = spliceKeys (keyRule .yaml) fs := by
  rw [chain_yaml_flatten]
  refine ⟨kvFields (fun tg => Tags.get tg "yaml") false false
    (flatFields (passFields (Pass.tagCopy "dials" "yaml") fs)), ?_, ?_⟩
  · simp [translate, Mangler.ty, passTy, flatTy, view, kvTy]
  · rw [keysOf_flat]
    exact spliceKeys_pass .yaml (Pass.tagCopy "dials" "yaml") _ (keyRule .yaml)
      (fun tg h => key_rule .yaml tg h) (fun _ => rfl) fs hT

end Dials.Decode
