/-
Helper lemmas for Props/C16 (nothing panics or hangs), part 1: the parsers, the case conversion's
fuel, the manglers' `mangle` functions and `translate`.

`NoPanic o` = the outcome is `.ok` or `.err`, never `.panic`.
-/
import DialsModel.Model.ParseString
import DialsModel.Model.Sources
import DialsModel.Model.TfSpec
import DialsModel.Model.CaseConv

namespace Dials.Total
open Dials Dials.Parse Dials.Tf Dials.CaseConv

/-- the outcome is a value or a Go error, never a Go panic -/
def NoPanic {α : Type} (o : Outcome α) : Prop := ∀ c, o ≠ .panic c

theorem noPanic_ok {α : Type} (a : α) : NoPanic (Outcome.ok a) := by intro c h; cases h
theorem noPanic_err {α : Type} (e : String) : NoPanic (Outcome.err e : Outcome α) := by intro c h; cases h

theorem noPanic_of_eq_ok {α : Type} {o : Outcome α} {a : α} (h : o = .ok a) : NoPanic o := by
  subst h; exact noPanic_ok a

theorem noPanic_of_eq_err {α : Type} {o : Outcome α} {e : String} (h : o = .err e) : NoPanic o := by
  subst h; exact noPanic_err e

/-- `Outcome.bind` of total pieces is total -/
theorem noPanic_bind {α β : Type} {x : Outcome α} {f : α → Outcome β}
    (hx : NoPanic x) (hf : ∀ a, NoPanic (f a)) : NoPanic (x.bind f) := by
  cases x with
  | ok a => exact hf a
  | err c => exact noPanic_err c
  | panic c => exact absurd rfl (hx c)

/-- the explicit pass-through match of total pieces is total -/
theorem noPanic_match {α β : Type} {x : Outcome α} {f : α → Outcome β}
    (hx : NoPanic x) (hf : ∀ a, NoPanic (f a)) :
    NoPanic (match x with | .ok a => f a | .err c => .err c | .panic c => .panic c) := by
  cases x with
  | ok a => exact hf a
  | err c => exact noPanic_err c
  | panic c => exact absurd rfl (hx c)

/-- a `NoPanic` outcome is a value or an error -/
theorem noPanic_cases {α : Type} {o : Outcome α} (h : NoPanic o) :
    (∃ a, o = .ok a) ∨ (∃ e, o = .err e) := by
  cases o with
  | ok a => exact .inl ⟨a, rfl⟩
  | err c => exact .inr ⟨c, rfl⟩
  | panic c => exact absurd rfl (h c)

/-! ### integers and integer slices -/

theorem parseNumber_noPanic (k : IntKind) (s : Parse.Str) : NoPanic (parseNumber k s) := by
  unfold parseNumber
  split
  · split
    · split
      · exact noPanic_ok _
      · exact noPanic_err _
    · exact noPanic_err _
  · split
    · split
      · exact noPanic_ok _
      · exact noPanic_err _
    · exact noPanic_err _

theorem parseIntSlice_foldr_noPanic (k : IntKind) (ps : List Parse.Str) :
    NoPanic (ps.foldr (fun p (acc : Outcome (List Int)) =>
      match acc with
      | .ok vs =>
        let t := trimSpace p
        if k.signed then
          match parseInt k.bits t with
          | some v => .ok (v :: vs)
          | none => .err "element"
        else
          match parseUint k.bits t with
          | some n => .ok (Int.ofNat n :: vs)
          | none => .err "element"
      | e => e) (.ok [])) := by
  induction ps with
  | nil => exact noPanic_ok _
  | cons p ps ih =>
    simp only [List.foldr_cons]
    generalize List.foldr _ _ ps = acc at ih ⊢
    cases acc with
    | ok vs =>
      simp only
      split
      · split
        · exact noPanic_ok _
        · exact noPanic_err _
      · split
        · exact noPanic_ok _
        · exact noPanic_err _
    | err c => exact noPanic_err c
    | panic c => exact absurd rfl (ih c)

theorem parseIntSlice_noPanic (k : IntKind) (s : Parse.Str) : NoPanic (parseIntSlice k s) := by
  unfold parseIntSlice
  split
  · exact noPanic_ok _
  · exact parseIntSlice_foldr_noPanic k _

/-! ### the scanners' state machines: total for ANY token list -/

theorem splitSlice_noPanic (toks : List Tok) (inValue : Bool) (acc : List S) :
    NoPanic (splitSlice toks inValue acc) := by
  induction toks generalizing inValue acc with
  | nil => exact noPanic_ok _
  | cons t ts ih =>
    unfold splitSlice
    split
    · exact noPanic_err _
    · split
      · exact ih _ _
      · exact noPanic_err _
    · split
      · exact ih _ _
      · exact noPanic_err _
    · exact ih _ _
    · exact noPanic_ok _
    · exact noPanic_err _
    · exact noPanic_err _

theorem splitSet_noPanic (toks : List Tok) (inValue : Bool) (acc : List S) :
    NoPanic (splitSet toks inValue acc) := by
  induction toks generalizing inValue acc with
  | nil => exact noPanic_ok _
  | cons t ts ih =>
    unfold splitSet
    split
    · exact noPanic_err _
    · split
      · split
        · exact noPanic_err _
        · exact ih _ _
      · exact noPanic_err _
    · split
      · split
        · exact noPanic_err _
        · exact ih _ _
      · exact noPanic_err _
    · exact ih _ _
    · exact noPanic_ok _
    · exact noPanic_err _
    · exact noPanic_err _

theorem splitMapWith_noPanic (add : List (S × S) → S → S → Outcome (List (S × S)))
    (hadd : ∀ acc k v, NoPanic (add acc k v)) (toks : List Tok) (st : MapSt) :
    NoPanic (splitMapWith add toks st) := by
  induction toks generalizing st with
  | nil => exact noPanic_ok _
  | cons t ts ih =>
    unfold splitMapWith
    simp only
    split
    · exact noPanic_err _
    · split
      · exact ih _
      · split
        · exact ih _
        · exact noPanic_err _
    · split
      · exact ih _
      · split
        · exact ih _
        · exact noPanic_err _
    · split
      · split
        · exact ih _
        · exact noPanic_err _
        · next c h => exact absurd h (hadd _ _ _ c)
      · exact ih _
    · split
      · exact noPanic_err _
      · exact ih _
    · split
      · exact hadd _ _ _
      · exact noPanic_ok _
    · exact noPanic_err _
    · exact ih _

theorem stringSlice_noPanic (e : Bool) (toks : List Tok) : NoPanic (stringSlice e toks) := by
  unfold stringSlice
  split
  · exact noPanic_ok _
  · exact splitSlice_noPanic _ _ _

theorem stringSet_noPanic (e : Bool) (toks : List Tok) : NoPanic (stringSet e toks) := by
  unfold stringSet
  split
  · exact noPanic_ok _
  · exact splitSet_noPanic _ _ _

theorem addUnique_noPanic (acc : List (S × S)) (k v : S) : NoPanic (addUnique acc k v) := by
  unfold addUnique
  split
  · exact noPanic_err _
  · exact noPanic_ok _

theorem addMulti_noPanic (acc : List (S × S)) (k v : S) : NoPanic (addMulti acc k v) := noPanic_ok _

theorem mapStringString_noPanic (toks : List Tok) : NoPanic (mapStringString toks) :=
  splitMapWith_noPanic _ addUnique_noPanic _ _

theorem mapStringStringSlice_noPanic (toks : List Tok) : NoPanic (mapStringStringSlice toks) :=
  splitMapWith_noPanic _ addMulti_noPanic _ _

/-! ### parse.String -/

theorem parseScalar_noPanic (s : String) (t : Ty) : NoPanic (parseScalar s t) := by
  unfold parseScalar
  split
  · exact noPanic_ok _
  · split
    · exact noPanic_ok _
    · exact noPanic_err _
  · split
    · exact noPanic_err _
    · split
      · exact noPanic_ok _
      · exact noPanic_err _
      · next c h => exact absurd h (parseNumber_noPanic _ _ c)
  · exact noPanic_ok _
  · exact noPanic_ok _
  · split
    · exact noPanic_ok _
    · exact noPanic_err _
    · next c h => exact absurd h (parseNumber_noPanic _ _ c)
  · exact noPanic_err _

/-- parse.String returns scalars behind a pointer: the `Elem()` its callers apply is safe -/
theorem parseScalar_ok_ptr (s : String) (t : Ty) (v : Val) (h : parseScalar s t = .ok v) :
    ∃ w, v = .ptr w := by
  unfold parseScalar at h
  split at h
  · cases h; exact ⟨_, rfl⟩
  · split at h
    · cases h; exact ⟨_, rfl⟩
    · cases h
  · split at h
    · cases h
    · split at h
      · cases h; exact ⟨_, rfl⟩
      · cases h
      · cases h
  · cases h; exact ⟨_, rfl⟩
  · cases h; exact ⟨_, rfl⟩
  · split at h
    · cases h; exact ⟨_, rfl⟩
    · cases h
    · cases h
  · cases h

/-- `parse.String(..).Elem()` on a scalar: the pointer is always there -/
theorem parseScalar_deref_noPanic (s : String) (t : Ty) : NoPanic ((parseScalar s t).bind derefVal) := by
  cases h : parseScalar s t with
  | ok v =>
    obtain ⟨w, rfl⟩ := parseScalar_ok_ptr s t v h
    exact noPanic_ok _
  | err c => exact noPanic_err _
  | panic c => exact absurd h (parseScalar_noPanic s t c)

theorem mapM'_noPanic_aux {α β : Type} (f : α → Outcome β) :
    ∀ (xs : List α), (∀ x ∈ xs, NoPanic (f x)) → NoPanic (mapM' f xs) := by
  intro xs
  induction xs with
  | nil => intro _; exact noPanic_ok _
  | cons a as ih =>
    intro h
    unfold mapM'
    split
    · split
      · exact noPanic_ok _
      · exact noPanic_err _
      · next c hc => exact absurd hc (ih (fun x hx => h x (List.mem_cons_of_mem _ hx)) c)
    · exact noPanic_err _
    · next c hc => exact absurd hc (h a List.mem_cons_self c)

/-- a left fold whose step preserves `NoPanic` -/
theorem foldl_noPanic {α β : Type} (step : Outcome β → α → Outcome β)
    (hstep : ∀ acc p, NoPanic acc → NoPanic (step acc p)) :
    ∀ (xs : List α) (acc : Outcome β), NoPanic acc → NoPanic (xs.foldl step acc) := by
  intro xs
  induction xs with
  | nil => intro acc h; exact h
  | cons x xs ih => intro acc h; exact ih _ (hstep _ _ h)

theorem parseString_noPanic (toks : TokTable) (s : String) (t : Ty) : NoPanic (parseString toks s t) := by
  unfold parseString
  split
  · -- slice
    split
    · split
      · exact noPanic_ok _
      · split
        · exact noPanic_ok _
        · exact noPanic_err _
        · next c hc =>
          refine absurd hc (mapM'_noPanic_aux _ _ ?_ c)
          intro it _
          split
          · exact noPanic_err _
          · exact noPanic_err _
          · exact noPanic_err _
          · exact parseScalar_deref_noPanic _ _
    · exact noPanic_err _
    · next c hc => exact absurd hc (stringSlice_noPanic _ _ c)
  · -- set
    split
    · split
      · exact noPanic_ok _
      · exact noPanic_err _
      · next c hc => exact absurd hc (stringSet_noPanic _ _ c)
    · exact noPanic_err _
  · -- map (the first `split` is on the value type inside the condition)
    split
    all_goals
      split
      · split
        · exact noPanic_ok _
        · exact noPanic_err _
        · next c hc => exact absurd hc (mapStringStringSlice_noPanic _ c)
      · split
        · simp only
          split
          · apply foldl_noPanic
            · intro acc p hacc
              split
              · split
                · split
                  · exact noPanic_err _
                  · split
                    · exact noPanic_ok _
                    · exact noPanic_err _
                    · next c hc => exact absurd hc (parseScalar_deref_noPanic _ _ c)
                · exact noPanic_err _
                · next c hc => exact absurd hc (parseScalar_deref_noPanic _ _ c)
              · exact hacc
            · exact noPanic_ok _
          · exact noPanic_err _
          · next c hc =>
            refine absurd hc (splitMapWith_noPanic _ ?_ _ _ c)
            intro acc k v
            exact noPanic_ok _
        · exact noPanic_err _
  · exact parseScalar_noPanic _ _

/-! ### case conversion: the fuel of extractInitialisms suffices -/

/-- one scan over the list never lengthens the text, and shortens it when it strips anything
(no initialism is the empty string) -/
theorem scanOnce_length (inits : List CaseConv.Str) (hne : ([] : CaseConv.Str) ∉ inits) :
    ∀ (s : CaseConv.Str) (w : Words) (f : Bool) (s' : CaseConv.Str) (w' : Words) (f' : Bool),
      scanOnce inits s w f = (s', w', f') →
      s'.length ≤ s.length ∧ (f = false → f' = true → s'.length < s.length) := by
  induction inits with
  | nil =>
    intro s w f s' w' f' h
    simp only [scanOnce, Prod.mk.injEq] at h
    obtain ⟨rfl, rfl, rfl⟩ := h
    exact ⟨Nat.le_refl _, fun h1 h2 => by rw [h1] at h2; cases h2⟩
  | cons i is ih =>
    have hi : i ≠ [] := fun h => hne (h ▸ List.mem_cons_self)
    have hne' : ([] : CaseConv.Str) ∉ is := fun h => hne (List.mem_cons_of_mem _ h)
    intro s w f s' w' f' h
    unfold scanOnce at h
    split at h
    · next hp =>
      have h1 := ih hne' _ _ _ _ _ _ h
      have hle : i.length ≤ s.length := (List.isPrefixOf_iff_prefix.mp hp).length_le
      have hpos : 0 < i.length := List.length_pos_iff.mpr hi
      have hd : (s.drop i.length).length = s.length - i.length := List.length_drop
      rw [hd] at h1
      exact ⟨by omega, fun _ _ => by omega⟩
    · exact ih hne' _ _ _ _ _ _ h

/-- any two fuels above the text length give the same result -/
theorem extractLoop_fuel_stable (inits : List CaseConv.Str) (hne : ([] : CaseConv.Str) ∉ inits) :
    ∀ (n m : Nat) (s : CaseConv.Str) (w : Words), s.length < n → s.length < m →
      extractLoop inits n s w = extractLoop inits m s w := by
  intro n
  induction n with
  | zero => intro m s w h; omega
  | succ n ih =>
    intro m s w hn hm
    cases m with
    | zero => omega
    | succ m =>
      simp only [extractLoop]
      rcases hsc : scanOnce inits s w false with ⟨s', w', f'⟩
      cases f' with
      | false => rfl
      | true =>
        have hlen := (scanOnce_length inits hne s w false s' w' true hsc).2 rfl rfl
        exact ih m s' w' (by omega) (by omega)

/-- the fuel `s.length + 1` used by `extractInitialismsWith` suffices: more fuel changes nothing -/
theorem extractInitialisms_fuel (inits : List CaseConv.Str) (hne : ([] : CaseConv.Str) ∉ inits)
    (s : CaseConv.Str) (n : Nat) (hn : s.length + 1 ≤ n) :
    extractLoop inits n s [] = extractInitialismsWith inits s := by
  unfold extractInitialismsWith
  exact extractLoop_fuel_stable inits hne n (s.length + 1) s [] (by omega) (by omega)

/-- the regenerated initialism list (F11) has no empty entry -/
theorem initialisms_no_empty : ([] : CaseConv.Str) ∉ initialisms := by
  decide

/-! ### the manglers' Mangle and TranslateType -/

/-- a mangler whose `Mangle` never panics -/
def MangleTotal (m : Mangler) : Prop := ∀ h t, NoPanic (m.mangle h t)

theorem mapM'_noPanic {α β : Type} (f : α → Outcome β) :
    ∀ (xs : List α), (∀ x ∈ xs, NoPanic (f x)) → NoPanic (mapM' f xs) :=
  mapM'_noPanic_aux f

theorem flattenGetTag_noPanic (cfg : FlattenCfg) (h : Hdr) (words path : List String) :
    NoPanic (flattenGetTag cfg h words path) := by
  unfold flattenGetTag
  simp only
  split
  · exact noPanic_ok _
  · exact noPanic_err _
  · next c hc =>
    exfalso
    revert hc
    split
    · intro hc; cases hc
    · split
      · intro hc; cases hc
      · split
        · intro hc; cases hc
        · intro hc; cases hc

theorem flattenStruct_noPanic (cfg : FlattenCfg) :
    ∀ (fuel : Nat) (names words path : List String) (fs : List FT),
      NoPanic (flattenStruct cfg fuel names words path fs) := by
  intro fuel
  induction fuel with
  | zero => intro names words path fs; unfold flattenStruct; exact noPanic_err _
  | succ fuel ih =>
    intro names words path fs
    cases fs with
    | nil => unfold flattenStruct; exact noPanic_ok _
    | cons f rest =>
      obtain ⟨nh, nt⟩ := f
      unfold flattenStruct
      simp only
      split
      · exact noPanic_err _
      · next c hc => exact absurd hc (flattenGetTag_noPanic _ _ _ _ c)
      · next tags words' hg =>
        split
        · exact noPanic_ok _
        · exact noPanic_err _
        · next _ _ c hc =>
          exfalso
          revert hc
          split
          · intro hc; exact ih _ _ _ _ c hc
          · intro hc; cases hc
        · exact noPanic_err _
        · next _ _ c hc _ _ => exact absurd hc (ih _ _ _ _ c)

theorem aliasMangler_total (tags : List String) : MangleTotal (aliasMangler tags) := by
  intro h t
  show NoPanic (aliasMangle tags h t)
  unfold aliasMangle
  simp only
  split
  · exact noPanic_ok _
  · exact noPanic_ok _

theorem flattenMangler_total (cfg : FlattenCfg) (fuel : Nat) : MangleTotal (flattenMangler cfg fuel) := by
  intro h t
  show NoPanic (flattenMangle cfg fuel h t)
  unfold flattenMangle
  split
  · exact noPanic_err _
  · split
    · exact noPanic_err _
    · next c hc => exact absurd hc (flattenGetTag_noPanic _ _ _ _ c)
    · split
      · exact flattenStruct_noPanic _ _ _ _ _ _
      · exact noPanic_ok _

theorem anonMangle_noPanic : ∀ (fuel : Nat) (h : Hdr) (t : Ty), NoPanic (anonMangle fuel h t) := by
  intro fuel
  induction fuel with
  | zero => intro h t; unfold anonMangle; exact noPanic_err _
  | succ fuel ih =>
    intro h t
    unfold anonMangle
    split
    · exact noPanic_ok _
    · split
      · exact ih _ _
      · exact noPanic_ok _
      · exact noPanic_ok _

theorem anonMangler_total (fuel : Nat) : MangleTotal (anonMangler fuel) :=
  fun h t => anonMangle_noPanic fuel h t

theorem setSliceMangler_total : MangleTotal setSliceMangler := by
  intro h t
  simp only [setSliceMangler]
  split
  · exact noPanic_ok _
  · exact noPanic_ok _

theorem durSubMangler_total : MangleTotal durSubMangler := fun _ _ => noPanic_ok _

theorem stringCastMangler_total (parse : String → Ty → Outcome Val) :
    MangleTotal (stringCastMangler parse) := fun _ _ => noPanic_ok _

theorem textUnmarshalerMangler_total : MangleTotal textUnmarshalerMangler := fun _ _ => noPanic_ok _

theorem tagCopyMangler_total (src new : String) : MangleTotal (tagCopyMangler src new) := by
  intro h t
  simp only [tagCopyMangler]
  split
  · split
    · exact noPanic_ok _
    · split
      · split
        · exact noPanic_ok _
        · exact noPanic_ok _
      · exact noPanic_ok _
  · exact noPanic_ok _

theorem tagReformatMangler_total (tag : String) (dec : List Char → Option (List (List Char)))
    (enc : CaseConv.Scheme) : MangleTotal (tagReformatMangler tag dec enc) := by
  intro h t
  simp only [tagReformatMangler]
  split
  · exact noPanic_ok _
  · exact noPanic_err _

/-- every shipped mangler (every constructor spec the facts translator can emit) -/
theorem manglerOfSpec_mangleTotal (fuel : Nat) (parse : String → Ty → Outcome Val) (spec : List String)
    (m : Mangler) (h : manglerOfSpec fuel parse spec = some m) : MangleTotal m := by
  unfold manglerOfSpec at h
  split at h
  · cases h; exact aliasMangler_total _
  · next tag ne te =>
    cases hn : schemeOfName ne with
    | none => rw [hn] at h; cases h
    | some n =>
      cases ht : schemeOfName te with
      | none => rw [hn, ht] at h; cases h
      | some t' => rw [hn, ht] at h; cases h; exact flattenMangler_total _ _
  · next tag dec enc =>
    cases hd : decoderOfName dec with
    | none => rw [hd] at h; cases h
    | some d =>
      cases he : schemeOfName enc with
      | none => rw [hd, he] at h; cases h
      | some e => rw [hd, he] at h; cases h; exact tagReformatMangler_total _ _ _
  · cases h; exact tagCopyMangler_total _ _
  · cases h; exact stringCastMangler_total _
  · cases h; exact setSliceMangler_total
  · cases h; exact anonMangler_total _
  · cases h; exact durSubMangler_total
  · cases h; exact textUnmarshalerMangler_total
  · cases h

theorem chainOfSpecs_mangleTotal (fuel : Nat) (parse : String → Ty → Outcome Val)
    (specs : List (List String)) (ms : List Mangler) (h : chainOfSpecs fuel parse specs = some ms) :
    ∀ m ∈ ms, MangleTotal m := by
  unfold chainOfSpecs at h
  induction specs generalizing ms with
  | nil =>
    rw [List.mapM_nil] at h
    cases h
    intro m hm; cases hm
  | cons sp specs ih =>
    rw [List.mapM_cons] at h
    cases h1 : manglerOfSpec fuel parse sp with
    | none => rw [h1] at h; cases h
    | some m1 =>
      cases h2 : specs.mapM (manglerOfSpec fuel parse) with
      | none => rw [h1, h2] at h; cases h
      | some ms' =>
        rw [h1, h2] at h
        cases h
        intro m hm
        rcases List.mem_cons.mp hm with rfl | hm'
        · exact manglerOfSpec_mangleTotal fuel parse sp _ h1
        · exact ih ms' h2 m hm'

/-- the mutual recursion of `mangleLayer` / `recurseType`, both at once -/
theorem mangleLayer_recurseType_noPanic (m : Mangler) (hm : MangleTotal m) :
    ∀ (fuel : Nat), (∀ (fs : List FT), NoPanic (mangleLayer fuel m fs)) ∧
      (∀ (f : FT), NoPanic (recurseType fuel m f)) := by
  intro fuel
  induction fuel with
  | zero =>
    constructor
    · intro fs; unfold mangleLayer; exact noPanic_err _
    · intro f; unfold recurseType; exact noPanic_err _
  | succ fuel ih =>
    obtain ⟨ihL, ihR⟩ := ih
    constructor
    · intro fs
      unfold mangleLayer
      split
      · exact noPanic_ok _
      · exact noPanic_err _
      · next c hc =>
        refine absurd hc (mapM'_noPanic _ _ ?_ c)
        intro f _
        split
        · exact mapM'_noPanic _ _ (fun x _ => ihR x)
        · exact noPanic_err _
        · next c' hc' => exact absurd hc' (hm _ _ c')
    · intro f
      obtain ⟨h, t⟩ := f
      unfold recurseType
      split
      · exact noPanic_ok _
      · split
        · exact noPanic_ok _
        · split
          · exact noPanic_ok _
          · exact noPanic_err _
          · next c hc => exact absurd hc (ihL _ c)

theorem mangleLayer_noPanic (m : Mangler) (hm : MangleTotal m) :
    ∀ (fuel : Nat) (fs : List FT), NoPanic (mangleLayer fuel m fs) :=
  fun fuel => (mangleLayer_recurseType_noPanic m hm fuel).1

theorem recurseType_noPanic (m : Mangler) (hm : MangleTotal m) :
    ∀ (fuel : Nat) (f : FT), NoPanic (recurseType fuel m f) :=
  fun fuel => (mangleLayer_recurseType_noPanic m hm fuel).2

theorem translate_noPanic (fuel : Nat) :
    ∀ (ms : List Mangler), (∀ m ∈ ms, MangleTotal m) → ∀ (fs : List FT), NoPanic (translate fuel ms fs) := by
  intro ms
  induction ms with
  | nil => intro _ fs; unfold translate; exact noPanic_ok _
  | cons m ms ih =>
    intro h fs
    unfold translate
    split
    · exact ih (fun m' hm' => h m' (List.mem_cons_of_mem _ hm')) _
    · exact noPanic_err _
    · next c hc => exact absurd hc (mangleLayer_noPanic m (h m List.mem_cons_self) fuel fs c)

theorem layers_noPanic (fuel : Nat) :
    ∀ (ms : List Mangler), (∀ m ∈ ms, MangleTotal m) → ∀ (fs : List FT), NoPanic (layers fuel ms fs) := by
  intro ms
  induction ms with
  | nil => intro _ fs; unfold layers; exact noPanic_ok _
  | cons m ms ih =>
    intro h fs
    unfold layers
    split
    · split
      · exact noPanic_ok _
      · exact noPanic_err _
      · next c hc => exact absurd hc (ih (fun m' hm' => h m' (List.mem_cons_of_mem _ hm')) _ c)
    · exact noPanic_err _
    · next c hc => exact absurd hc (mangleLayer_noPanic m (h m List.mem_cons_self) fuel fs c)

theorem envNames_noPanic (fuel : Nat) (ms : List Mangler) (h : ∀ m ∈ ms, MangleTotal m) (pfx : String)
    (fs : List FT) : NoPanic (envNames fuel ms pfx fs) := by
  unfold envNames
  split
  · exact noPanic_err _
  · next c hc => exact absurd hc (translate_noPanic fuel ms h fs c)
  · exact noPanic_ok _

end Dials.Total
