/-
Helper lemmas and inductive invariants of the runtime LTS used by the C07 and C09 property theorems.
-/
import DialsModel.Model.RuntimeSpec

namespace Dials.Runtime

/-! ### client table -/

theorem getC_setC_self (cs : List (Nat × CSt)) (c : Nat) (st : CSt) : getC (setC cs c st) c = st := by
  induction cs with
  | nil => simp [setC, getC]
  | cons p rest ih =>
    obtain ⟨d, x⟩ := p
    simp only [setC]
    split
    · rename_i hd
      simp [getC, List.find?, hd]
    · rename_i hd
      have hd' : (d == c) = false := by simpa using hd
      simp only [getC, List.find?, hd'] at ih ⊢
      exact ih

theorem getC_setC_ne (cs : List (Nat × CSt)) (c d : Nat) (st : CSt) (h : d ≠ c) :
    getC (setC cs c st) d = getC cs d := by
  induction cs with
  | nil =>
    have : (c == d) = false := by simp; exact fun e => h e.symm
    simp [setC, getC, List.find?, this]
  | cons p rest ih =>
    obtain ⟨e, x⟩ := p
    simp only [setC]
    split
    · rename_i he
      have hec : e = c := by simpa using he
      have : (e == d) = false := by simp; exact fun e' => h (by omega)
      simp [getC, List.find?, this]
    · by_cases hed : (e == d) = true
      · simp [getC, List.find?, hed]
      · have hed' : (e == d) = false := by simpa using hed
        simp only [getC, List.find?, hed'] at ih ⊢
        exact ih

/-- `getC` through a key-preserving map -/
theorem getC_map (cs : List (Nat × CSt)) (f : Nat × CSt → Nat × CSt) (hf : ∀ p, (f p).1 = p.1) (c : Nat) :
    getC (cs.map f) c = match cs.find? (·.1 == c) with | some p => (f p).2 | none => .idle := by
  induction cs with
  | nil => simp [getC]
  | cons p rest ih =>
    by_cases hp : (p.1 == c) = true
    · have : ((f p).1 == c) = true := by rw [hf]; exact hp
      simp [getC, List.find?, hp, this]
    · have hp' : (p.1 == c) = false := by simpa using hp
      have : ((f p).1 == c) = false := by rw [hf]; exact hp'
      simp only [getC, List.map, List.find?, hp', this] at ih ⊢
      exact ih

theorem getC_eq_find {cs : List (Nat × CSt)} {c : Nat} {st : CSt} (h : getC cs c = st) (hne : st ≠ .idle) :
    ∃ p, cs.find? (·.1 == c) = some p ∧ p.2 = st := by
  unfold getC at h
  split at h
  · rename_i p hp; exact ⟨p, hp, h⟩
  · exact absurd h.symm hne

/-! ### projections of the helper functions -/

macro "proj_tac" : tactic => `(tactic| first
  | rfl
  | ((try unfold State.waitOr); (try unfold finishEv); (try unfold enqueueCb); (try unfold admitCbSender);
     (try unfold trySubmit); (try unfold replyTo); (try unfold admitCtlSender); (try unfold monTake);
     (try unfold cancelCtx);
     (try dsimp only);
     (repeat' (first | split | dsimp only)) <;> first | rfl | simp))

@[simp] theorem logAdd_P (s : State) (o : Obs) : (s.logAdd o).P = s.P := by proj_tac
@[simp] theorem logAdd_view (s : State) (o : Obs) : (s.logAdd o).view = s.view := by proj_tac
@[simp] theorem logAdd_slots (s : State) (o : Obs) : (s.logAdd o).slots = s.slots := by proj_tac
@[simp] theorem logAdd_skipVerify (s : State) (o : Obs) : (s.logAdd o).skipVerify = s.skipVerify := by proj_tac
@[simp] theorem logAdd_watching (s : State) (o : Obs) : (s.logAdd o).watching = s.watching := by proj_tac
@[simp] theorem logAdd_mon (s : State) (o : Obs) : (s.logAdd o).mon = s.mon := by proj_tac
@[simp] theorem logAdd_monCtl (s : State) (o : Obs) : (s.logAdd o).monCtl = s.monCtl := by proj_tac
@[simp] theorem logAdd_cbch (s : State) (o : Obs) : (s.logAdd o).cbch = s.cbch := by proj_tac
@[simp] theorem logAdd_cb (s : State) (o : Obs) : (s.logAdd o).cb = s.cb := by proj_tac
@[simp] theorem logAdd_clients (s : State) (o : Obs) : (s.logAdd o).clients = s.clients := by proj_tac
@[simp] theorem setClient_P (s : State) (c : Nat) (st : CSt) : (s.setClient c st).P = s.P := by proj_tac
@[simp] theorem setClient_view (s : State) (c : Nat) (st : CSt) : (s.setClient c st).view = s.view := by proj_tac
@[simp] theorem setClient_slots (s : State) (c : Nat) (st : CSt) : (s.setClient c st).slots = s.slots := by proj_tac
@[simp] theorem setClient_skipVerify (s : State) (c : Nat) (st : CSt) : (s.setClient c st).skipVerify = s.skipVerify := by proj_tac
@[simp] theorem setClient_watching (s : State) (c : Nat) (st : CSt) : (s.setClient c st).watching = s.watching := by proj_tac
@[simp] theorem setClient_mon (s : State) (c : Nat) (st : CSt) : (s.setClient c st).mon = s.mon := by proj_tac
@[simp] theorem setClient_monCtl (s : State) (c : Nat) (st : CSt) : (s.setClient c st).monCtl = s.monCtl := by proj_tac
@[simp] theorem setClient_cbch (s : State) (c : Nat) (st : CSt) : (s.setClient c st).cbch = s.cbch := by proj_tac
@[simp] theorem setClient_cb (s : State) (c : Nat) (st : CSt) : (s.setClient c st).cb = s.cb := by proj_tac
@[simp] theorem setClient_log (s : State) (c : Nat) (st : CSt) : (s.setClient c st).log = s.log := by proj_tac
@[simp] theorem blockClient_P (s : State) (c : Nat) (st : CSt) : (s.blockClient c st).P = s.P := by proj_tac
@[simp] theorem blockClient_view (s : State) (c : Nat) (st : CSt) : (s.blockClient c st).view = s.view := by proj_tac
@[simp] theorem blockClient_slots (s : State) (c : Nat) (st : CSt) : (s.blockClient c st).slots = s.slots := by proj_tac
@[simp] theorem blockClient_skipVerify (s : State) (c : Nat) (st : CSt) : (s.blockClient c st).skipVerify = s.skipVerify := by proj_tac
@[simp] theorem blockClient_watching (s : State) (c : Nat) (st : CSt) : (s.blockClient c st).watching = s.watching := by proj_tac
@[simp] theorem blockClient_mon (s : State) (c : Nat) (st : CSt) : (s.blockClient c st).mon = s.mon := by proj_tac
@[simp] theorem blockClient_monCtl (s : State) (c : Nat) (st : CSt) : (s.blockClient c st).monCtl = s.monCtl := by proj_tac
@[simp] theorem blockClient_cbch (s : State) (c : Nat) (st : CSt) : (s.blockClient c st).cbch = s.cbch := by proj_tac
@[simp] theorem blockClient_cb (s : State) (c : Nat) (st : CSt) : (s.blockClient c st).cb = s.cb := by proj_tac
@[simp] theorem blockClient_log (s : State) (c : Nat) (st : CSt) : (s.blockClient c st).log = s.log := by proj_tac
@[simp] theorem ret_P (s : State) (c : Nat) (r : Res) : (s.ret c r).P = s.P := by proj_tac
@[simp] theorem ret_view (s : State) (c : Nat) (r : Res) : (s.ret c r).view = s.view := by proj_tac
@[simp] theorem ret_slots (s : State) (c : Nat) (r : Res) : (s.ret c r).slots = s.slots := by proj_tac
@[simp] theorem ret_skipVerify (s : State) (c : Nat) (r : Res) : (s.ret c r).skipVerify = s.skipVerify := by proj_tac
@[simp] theorem ret_watching (s : State) (c : Nat) (r : Res) : (s.ret c r).watching = s.watching := by proj_tac
@[simp] theorem ret_mon (s : State) (c : Nat) (r : Res) : (s.ret c r).mon = s.mon := by proj_tac
@[simp] theorem ret_monCtl (s : State) (c : Nat) (r : Res) : (s.ret c r).monCtl = s.monCtl := by proj_tac
@[simp] theorem ret_cbch (s : State) (c : Nat) (r : Res) : (s.ret c r).cbch = s.cbch := by proj_tac
@[simp] theorem ret_cb (s : State) (c : Nat) (r : Res) : (s.ret c r).cb = s.cb := by proj_tac
@[simp] theorem waitOr_P (s : State) (c ctx : Nat) (st : CSt) (r : Res) : (s.waitOr c ctx st r).P = s.P := by proj_tac
@[simp] theorem waitOr_view (s : State) (c ctx : Nat) (st : CSt) (r : Res) : (s.waitOr c ctx st r).view = s.view := by proj_tac
@[simp] theorem waitOr_slots (s : State) (c ctx : Nat) (st : CSt) (r : Res) : (s.waitOr c ctx st r).slots = s.slots := by proj_tac
@[simp] theorem waitOr_skipVerify (s : State) (c ctx : Nat) (st : CSt) (r : Res) : (s.waitOr c ctx st r).skipVerify = s.skipVerify := by proj_tac
@[simp] theorem waitOr_watching (s : State) (c ctx : Nat) (st : CSt) (r : Res) : (s.waitOr c ctx st r).watching = s.watching := by proj_tac
@[simp] theorem waitOr_mon (s : State) (c ctx : Nat) (st : CSt) (r : Res) : (s.waitOr c ctx st r).mon = s.mon := by proj_tac
@[simp] theorem waitOr_monCtl (s : State) (c ctx : Nat) (st : CSt) (r : Res) : (s.waitOr c ctx st r).monCtl = s.monCtl := by proj_tac
@[simp] theorem waitOr_cbch (s : State) (c ctx : Nat) (st : CSt) (r : Res) : (s.waitOr c ctx st r).cbch = s.cbch := by proj_tac
@[simp] theorem waitOr_cb (s : State) (c ctx : Nat) (st : CSt) (r : Res) : (s.waitOr c ctx st r).cb = s.cb := by proj_tac
@[simp] theorem finishEv_P (s : State) (ev : CbEv) : (finishEv s ev).P = s.P := by proj_tac
@[simp] theorem finishEv_view (s : State) (ev : CbEv) : (finishEv s ev).view = s.view := by proj_tac
@[simp] theorem finishEv_slots (s : State) (ev : CbEv) : (finishEv s ev).slots = s.slots := by proj_tac
@[simp] theorem finishEv_skipVerify (s : State) (ev : CbEv) : (finishEv s ev).skipVerify = s.skipVerify := by proj_tac
@[simp] theorem finishEv_watching (s : State) (ev : CbEv) : (finishEv s ev).watching = s.watching := by proj_tac
@[simp] theorem finishEv_mon (s : State) (ev : CbEv) : (finishEv s ev).mon = s.mon := by proj_tac
@[simp] theorem finishEv_monCtl (s : State) (ev : CbEv) : (finishEv s ev).monCtl = s.monCtl := by proj_tac
@[simp] theorem finishEv_cbch (s : State) (ev : CbEv) : (finishEv s ev).cbch = s.cbch := by proj_tac
@[simp] theorem finishEv_cb (s : State) (ev : CbEv) : (finishEv s ev).cb = s.cb := by proj_tac
@[simp] theorem cbTake_P (s : State) (ev : CbEv) : (cbTake s ev).P = s.P := by proj_tac
@[simp] theorem cbTake_view (s : State) (ev : CbEv) : (cbTake s ev).view = s.view := by proj_tac
@[simp] theorem cbTake_slots (s : State) (ev : CbEv) : (cbTake s ev).slots = s.slots := by proj_tac
@[simp] theorem cbTake_skipVerify (s : State) (ev : CbEv) : (cbTake s ev).skipVerify = s.skipVerify := by proj_tac
@[simp] theorem cbTake_watching (s : State) (ev : CbEv) : (cbTake s ev).watching = s.watching := by proj_tac
@[simp] theorem cbTake_mon (s : State) (ev : CbEv) : (cbTake s ev).mon = s.mon := by proj_tac
@[simp] theorem cbTake_monCtl (s : State) (ev : CbEv) : (cbTake s ev).monCtl = s.monCtl := by proj_tac
@[simp] theorem cbTake_log (s : State) (ev : CbEv) : (cbTake s ev).log = s.log := by proj_tac
@[simp] theorem cbTake_clients (s : State) (ev : CbEv) : (cbTake s ev).clients = s.clients := by proj_tac
@[simp] theorem enqueueCb_P (s : State) (ev : CbEv) : (enqueueCb s ev).P = s.P := by proj_tac
@[simp] theorem enqueueCb_view (s : State) (ev : CbEv) : (enqueueCb s ev).view = s.view := by proj_tac
@[simp] theorem enqueueCb_slots (s : State) (ev : CbEv) : (enqueueCb s ev).slots = s.slots := by proj_tac
@[simp] theorem enqueueCb_skipVerify (s : State) (ev : CbEv) : (enqueueCb s ev).skipVerify = s.skipVerify := by proj_tac
@[simp] theorem enqueueCb_watching (s : State) (ev : CbEv) : (enqueueCb s ev).watching = s.watching := by proj_tac
@[simp] theorem enqueueCb_mon (s : State) (ev : CbEv) : (enqueueCb s ev).mon = s.mon := by proj_tac
@[simp] theorem enqueueCb_monCtl (s : State) (ev : CbEv) : (enqueueCb s ev).monCtl = s.monCtl := by proj_tac
@[simp] theorem enqueueCb_log (s : State) (ev : CbEv) : (enqueueCb s ev).log = s.log := by proj_tac
@[simp] theorem enqueueCb_clients (s : State) (ev : CbEv) : (enqueueCb s ev).clients = s.clients := by proj_tac
@[simp] theorem admitCbSender_P (s : State) : (admitCbSender s).P = s.P := by proj_tac
@[simp] theorem admitCbSender_view (s : State) : (admitCbSender s).view = s.view := by proj_tac
@[simp] theorem admitCbSender_slots (s : State) : (admitCbSender s).slots = s.slots := by proj_tac
@[simp] theorem admitCbSender_skipVerify (s : State) : (admitCbSender s).skipVerify = s.skipVerify := by proj_tac
@[simp] theorem admitCbSender_watching (s : State) : (admitCbSender s).watching = s.watching := by proj_tac
@[simp] theorem admitCbSender_mon (s : State) : (admitCbSender s).mon = s.mon := by proj_tac
@[simp] theorem admitCbSender_monCtl (s : State) : (admitCbSender s).monCtl = s.monCtl := by proj_tac
@[simp] theorem trySubmit_P (s : State) (ev : CbEv) (ch : Nat) : (trySubmit s ev ch).P = s.P := by proj_tac
@[simp] theorem trySubmit_view (s : State) (ev : CbEv) (ch : Nat) : (trySubmit s ev ch).view = s.view := by proj_tac
@[simp] theorem trySubmit_slots (s : State) (ev : CbEv) (ch : Nat) : (trySubmit s ev ch).slots = s.slots := by proj_tac
@[simp] theorem trySubmit_skipVerify (s : State) (ev : CbEv) (ch : Nat) : (trySubmit s ev ch).skipVerify = s.skipVerify := by proj_tac
@[simp] theorem trySubmit_watching (s : State) (ev : CbEv) (ch : Nat) : (trySubmit s ev ch).watching = s.watching := by proj_tac
@[simp] theorem trySubmit_mon (s : State) (ev : CbEv) (ch : Nat) : (trySubmit s ev ch).mon = s.mon := by proj_tac
@[simp] theorem trySubmit_monCtl (s : State) (ev : CbEv) (ch : Nat) : (trySubmit s ev ch).monCtl = s.monCtl := by proj_tac
@[simp] theorem trySubmit_clients (s : State) (ev : CbEv) (ch : Nat) : (trySubmit s ev ch).clients = s.clients := by proj_tac
@[simp] theorem replyTo_P (s : State) (c : Nat) (r : Res) : (replyTo s c r).P = s.P := by proj_tac
@[simp] theorem replyTo_view (s : State) (c : Nat) (r : Res) : (replyTo s c r).view = s.view := by proj_tac
@[simp] theorem replyTo_slots (s : State) (c : Nat) (r : Res) : (replyTo s c r).slots = s.slots := by proj_tac
@[simp] theorem replyTo_skipVerify (s : State) (c : Nat) (r : Res) : (replyTo s c r).skipVerify = s.skipVerify := by proj_tac
@[simp] theorem replyTo_watching (s : State) (c : Nat) (r : Res) : (replyTo s c r).watching = s.watching := by proj_tac
@[simp] theorem replyTo_mon (s : State) (c : Nat) (r : Res) : (replyTo s c r).mon = s.mon := by proj_tac
@[simp] theorem replyTo_monCtl (s : State) (c : Nat) (r : Res) : (replyTo s c r).monCtl = s.monCtl := by proj_tac
@[simp] theorem replyTo_cbch (s : State) (c : Nat) (r : Res) : (replyTo s c r).cbch = s.cbch := by proj_tac
@[simp] theorem replyTo_cb (s : State) (c : Nat) (r : Res) : (replyTo s c r).cb = s.cb := by proj_tac
@[simp] theorem admitCtlSender_P (s : State) : (admitCtlSender s).P = s.P := by proj_tac
@[simp] theorem admitCtlSender_view (s : State) : (admitCtlSender s).view = s.view := by proj_tac
@[simp] theorem admitCtlSender_slots (s : State) : (admitCtlSender s).slots = s.slots := by proj_tac
@[simp] theorem admitCtlSender_skipVerify (s : State) : (admitCtlSender s).skipVerify = s.skipVerify := by proj_tac
@[simp] theorem admitCtlSender_watching (s : State) : (admitCtlSender s).watching = s.watching := by proj_tac
@[simp] theorem admitCtlSender_mon (s : State) : (admitCtlSender s).mon = s.mon := by proj_tac
@[simp] theorem admitCtlSender_cbch (s : State) : (admitCtlSender s).cbch = s.cbch := by proj_tac
@[simp] theorem admitCtlSender_cb (s : State) : (admitCtlSender s).cb = s.cb := by proj_tac
@[simp] theorem monTake_P (s : State) (i : MonIn) : (monTake s i).P = s.P := by proj_tac
@[simp] theorem monTake_view (s : State) (i : MonIn) : (monTake s i).view = s.view := by proj_tac
@[simp] theorem monTake_slots (s : State) (i : MonIn) : (monTake s i).slots = s.slots := by proj_tac
@[simp] theorem monTake_skipVerify (s : State) (i : MonIn) : (monTake s i).skipVerify = s.skipVerify := by proj_tac
@[simp] theorem monTake_watching (s : State) (i : MonIn) : (monTake s i).watching = s.watching := by proj_tac
@[simp] theorem monTake_cbch (s : State) (i : MonIn) : (monTake s i).cbch = s.cbch := by proj_tac
@[simp] theorem monTake_cb (s : State) (i : MonIn) : (monTake s i).cb = s.cb := by proj_tac
@[simp] theorem cancelCtx_P (s : State) (ctx : Nat) : (cancelCtx s ctx).P = s.P := by proj_tac
@[simp] theorem cancelCtx_view (s : State) (ctx : Nat) : (cancelCtx s ctx).view = s.view := by proj_tac
@[simp] theorem cancelCtx_slots (s : State) (ctx : Nat) : (cancelCtx s ctx).slots = s.slots := by proj_tac
@[simp] theorem cancelCtx_skipVerify (s : State) (ctx : Nat) : (cancelCtx s ctx).skipVerify = s.skipVerify := by proj_tac
@[simp] theorem cancelCtx_watching (s : State) (ctx : Nat) : (cancelCtx s ctx).watching = s.watching := by proj_tac
@[simp] theorem cancelCtx_monCtl (s : State) (ctx : Nat) : (cancelCtx s ctx).monCtl = s.monCtl := by proj_tac
@[simp] theorem cancelCtx_cbch (s : State) (ctx : Nat) : (cancelCtx s ctx).cbch = s.cbch := by proj_tac
@[simp] theorem cancelCtx_cb (s : State) (ctx : Nat) : (cancelCtx s ctx).cb = s.cb := by proj_tac
@[simp] theorem cancelCtx_log (s : State) (ctx : Nat) : (cancelCtx s ctx).log = s.log := by proj_tac

/-! ### runs -/

theorem run_inv {W : World} {Inv : State → Prop}
    (hstep : ∀ s l s', Inv s → step W s l = some s' → Inv s') :
    ∀ (ls : List Label) (s0 s : State), Inv s0 → run W s0 ls = some s → Inv s := by
  intro ls
  induction ls with
  | nil => intro s0 s h0 hr; simp only [run, Option.some.injEq] at hr; exact hr ▸ h0
  | cons l ls ih =>
    intro s0 s h0 hr
    simp only [run] at hr
    cases hs : step W s0 l with
    | none => simp [hs] at hr
    | some s1 =>
      simp only [hs, Option.bind] at hr
      exact ih s1 s (hstep s0 l s1 h0 hs) hr

theorem reachable_inv {W : World} {P : Params} {sl : Slots} {w : List Bool} {Inv : State → Prop}
    (h0 : Inv (initState P sl w)) (hstep : ∀ s l s', Inv s → step W s l = some s' → Inv s')
    {s : State} (hr : Reachable W P sl w s) : Inv s := by
  obtain ⟨ls, hls⟩ := hr
  exact run_inv hstep ls _ s h0 hls

/-! ### frame: what the steps of clients and of the callback goroutine can do -/

/-- observations logged by actors other than the monitor's update path -/
def clientObs : Obs → Bool
  | .ret _ _ | .seen _ _ | .evRecv _ _ | .enableCalled _ | .regProcessed _ _ _ | .enter _ | .unregProcessed _ => true
  | .withheld (.newCfg _ _ true) _ => true
  | _ => false

/-- pcs at which the monitor is parked after another actor woke it from its select -/
def monWake : MonPc → Bool
  | .gotValue _ _ _ | .gotSrcErr _ | .gotDone _ | .gotEnable _ _ | .exit => true
  | _ => false

structure Frame (s s' : State) : Prop where
  P : s'.P = s.P
  view : s'.view = s.view
  slots : s'.slots = s.slots
  skip : s'.skipVerify = s.skipVerify
  mon : s'.mon = s.mon ∨ (s.mon.idle = true ∧ (s'.mon.idle = true ∨ monWake s'.mon = true))
  log : ∃ new, s'.log = new ++ s.log ∧ new.all clientObs = true

theorem Frame.refl (s : State) : Frame s s := ⟨rfl, rfl, rfl, rfl, .inl rfl, [], rfl, rfl⟩

theorem Frame.trans {s s' s'' : State} (h1 : Frame s s') (h2 : Frame s' s'') : Frame s s'' := by
  refine ⟨h2.P.trans h1.P, h2.view.trans h1.view, h2.slots.trans h1.slots, h2.skip.trans h1.skip, ?_, ?_⟩
  · rcases h1.mon with e1 | ⟨e1, w1⟩
    · rcases h2.mon with e2 | ⟨e2, w2⟩
      · exact .inl (e2.trans e1)
      · exact .inr ⟨e1 ▸ e2, w2⟩
    · rcases h2.mon with e2 | ⟨_, w2⟩
      · exact .inr ⟨e1, e2 ▸ w1⟩
      · exact .inr ⟨e1, w2⟩
  · obtain ⟨n1, e1, a1⟩ := h1.log
    obtain ⟨n2, e2, a2⟩ := h2.log
    exact ⟨n2 ++ n1, by rw [e2, e1, List.append_assoc], by simp [List.all_append, a1, a2]⟩

/-- a step that leaves the six framed fields alone -/
theorem Frame.of_eq {s s' : State} (hP : s'.P = s.P) (hv : s'.view = s.view) (hs : s'.slots = s.slots)
    (hk : s'.skipVerify = s.skipVerify) (hm : s'.mon = s.mon) (hl : s'.log = s.log) : Frame s s' :=
  ⟨hP, hv, hs, hk, .inl hm, [], by simp [hl], rfl⟩

theorem frame_logAdd (s : State) {o : Obs} (h : clientObs o = true) : Frame s (s.logAdd o) :=
  ⟨rfl, rfl, rfl, rfl, .inl rfl, [o], rfl, by simp [h]⟩

theorem frame_setClient (s : State) (c : Nat) (st : CSt) : Frame s (s.setClient c st) :=
  Frame.of_eq rfl rfl rfl rfl rfl rfl

theorem frame_blockClient (s : State) (c : Nat) (st : CSt) : Frame s (s.blockClient c st) :=
  Frame.of_eq rfl rfl rfl rfl rfl rfl

theorem frame_ret (s : State) (c : Nat) (r : Res) : Frame s (s.ret c r) :=
  ⟨rfl, rfl, rfl, rfl, .inl rfl, [.ret c r], rfl, rfl⟩

theorem frame_waitOr (s : State) (c ctx : Nat) (st : CSt) (r : Res) : Frame s (s.waitOr c ctx st r) := by
  unfold State.waitOr
  split
  · exact frame_ret ..
  · exact frame_setClient ..

theorem frame_finishEv (s : State) (ev : CbEv) : Frame s (finishEv s ev) := by
  unfold finishEv
  split
  · exact Frame.refl s
  · exact Frame.refl s
  · exact Frame.of_eq rfl rfl rfl rfl rfl rfl
  · rename_i h c tok
    dsimp only
    have h1 : Frame s { s with handles := s.handles.filter (fun x => x.1 != h), log := .unregProcessed h :: s.log } :=
      ⟨rfl, rfl, rfl, rfl, .inl rfl, [.unregProcessed h], rfl, rfl⟩
    split
    · split
      · exact h1.trans (frame_ret ..)
      · exact h1
    · exact h1

theorem frame_enqueueCb (s : State) (ev : CbEv) : Frame s (enqueueCb s ev) := by
  unfold enqueueCb
  split <;> exact Frame.of_eq rfl rfl rfl rfl rfl rfl

theorem frame_admitCbSender (s : State) : Frame s (admitCbSender s) := by
  unfold admitCbSender
  split
  · rename_i c ev ctx _
    dsimp only
    have h1 : Frame s { s with cbch := s.cbch ++ [ev] } := Frame.of_eq rfl rfl rfl rfl rfl rfl
    split
    · exact h1.trans (frame_waitOr ..)
    · exact h1.trans (frame_ret ..)
    · exact h1.trans (frame_ret ..)
  · exact Frame.refl s

theorem frame_admitCtlSender (s : State) : Frame s (admitCtlSender s) := by
  unfold admitCtlSender
  split
  · rename_i c ctx _
    have h1 : Frame s { s with monCtl := s.monCtl ++ [(c, ctx)] } := Frame.of_eq rfl rfl rfl rfl rfl rfl
    exact h1.trans (frame_waitOr ..)
  · exact Frame.refl s

theorem frame_monTake (s : State) (i : MonIn) (hm : s.mon.idle = true) : Frame s (monTake s i) := by
  unfold monTake
  split
  · exact ⟨rfl, rfl, rfl, rfl, .inr ⟨hm, .inr rfl⟩, [], rfl, rfl⟩
  · rename_i c tok
    have h1 : Frame s { s with mon := .gotEnable c tok, monCtl := s.monCtl.drop 1 } :=
      ⟨rfl, rfl, rfl, rfl, .inr ⟨hm, .inr rfl⟩, [], rfl, rfl⟩
    exact h1.trans (frame_admitCtlSender _)
  · rename_i c m
    dsimp only
    have h1 : Frame s (match m with
      | .value src v reply => { s with mon := .gotValue src v reply }
      | .srcErr _ e => { s with mon := .gotSrcErr e }
      | .done src => { s with mon := .gotDone src }) := by
      split <;> exact ⟨rfl, rfl, rfl, rfl, .inr ⟨hm, .inr rfl⟩, [], rfl, rfl⟩
    split
    · exact h1.trans (frame_waitOr ..)
    · exact h1.trans (frame_ret ..)

theorem frame_offerW (s : State) (c : Nat) (m : Msg) (ctx ch : Nat) : Frame s (offerW s c m ctx ch) := by
  unfold offerW
  dsimp only
  split
  · rename_i hc
    have hm : s.mon = .sel := by
      simp only [Bool.and_eq_true, beq_iff_eq] at hc
      exact hc.1
    exact (frame_setClient s c _).trans (frame_monTake _ _ (by simp [hm, MonPc.idle]))
  · split
    · exact frame_ret ..
    · exact frame_blockClient ..

theorem frame_offerCb (s : State) (c : Nat) (ev : CbEv) (ctx ch : Nat) : Frame s (offerCb s c ev ctx ch) := by
  unfold offerCb
  dsimp only
  split
  · exact frame_ret ..
  · split
    · split
      · exact (frame_enqueueCb s _).trans (frame_waitOr ..)
      · exact (frame_enqueueCb s _).trans (frame_ret ..)
      · exact (frame_enqueueCb s _).trans (frame_ret ..)
    · split
      · exact frame_ret ..
      · exact frame_blockClient ..

theorem frame_cancelCtx (s : State) (ctx : Nat) : Frame s (cancelCtx s ctx) := by
  unfold cancelCtx
  dsimp only
  split
  · rename_i hc
    simp only [Bool.and_eq_true, beq_iff_eq] at hc
    exact ⟨rfl, rfl, rfl, rfl, .inr ⟨by simp [hc.2, MonPc.idle], .inr rfl⟩, [], rfl, rfl⟩
  · exact Frame.of_eq rfl rfl rfl rfl rfl rfl

theorem frame_runCb {s s' : State} (h : runCb s = some s') : Frame s s' := by
  unfold runCb at h
  split at h
  · split at h
    · injection h with h; subst h
      exact Frame.trans (s' := cbTake { s with cbch := _ } _) (Frame.of_eq rfl rfl rfl rfl rfl rfl) (frame_admitCbSender _)
    · split at h <;> (injection h with h; subst h; exact Frame.of_eq rfl rfl rfl rfl rfl rfl)
  · rename_i ev hev
    have fin : ∀ s2 : State, Frame s s2 → ∀ s3, (match callsFor s2.handles s2.lastSerial s2.lastVersion ev with
        | [] => some { (finishEv s2 ev) with cb := .top }
        | c :: cs => some ({ s2 with cb := .calls (c :: cs) ev }.logAdd (.enter c))) = some s3 → Frame s s3 := by
      intro s2 h12 s3 h
      split at h
      · injection h with h; subst h
        exact h12.trans ((frame_finishEv s2 ev).trans (Frame.of_eq rfl rfl rfl rfl rfl rfl))
      · injection h with h; subst h
        exact h12.trans ⟨rfl, rfl, rfl, rfl, .inl rfl, [.enter _], rfl, rfl⟩
    cases ev with
    | newCfg old new supp =>
      cases supp
      · exact fin { s with lastSerial := new.serial, lastVersion := some new.cfg }
          (Frame.of_eq rfl rfl rfl rfl rfl rfl) _ h
      · exact fin ({ s with lastSerial := new.serial, lastVersion := some new.cfg }.logAdd
            (.withheld (.newCfg old new true) s.skipVerify))
          (Frame.trans (s' := { s with lastSerial := new.serial, lastVersion := some new.cfg })
          (Frame.of_eq rfl rfl rfl rfl rfl rfl) (frame_logAdd _ rfl)) _ h
    | watchErr k old new => exact fin s (Frame.refl s) _ h
    | reg hd ser cfg => exact fin (s.logAdd (.regProcessed hd ser s.lastSerial)) (frame_logAdd _ rfl) _ h
    | unreg hd c tok => exact fin s (Frame.refl s) _ h
  · injection h with h; subst h
    exact ⟨rfl, rfl, rfl, rfl, .inl rfl, [.enter _], rfl, rfl⟩
  · injection h with h; subst h
    exact Frame.trans (frame_finishEv s _) (Frame.of_eq rfl rfl rfl rfl rfl rfl)
  · cases h
  · injection h with h; subst h; exact Frame.of_eq rfl rfl rfl rfl rfl rfl
  · cases h
  · cases h

theorem frame_runClient {s s' : State} {c ch : Nat} (h : runClient s c ch = some s') : Frame s s' := by
  unfold runClient at h
  split at h
  · split at h
    · injection h with h; subst h
      exact (frame_ret s c _).trans (frame_logAdd _ rfl)
    · split at h
      · injection h with h; subst h
        exact Frame.trans (s' := { s with events := none }) (Frame.of_eq rfl rfl rfl rfl rfl rfl)
          ((frame_ret _ c _).trans (frame_logAdd _ rfl))
      · injection h with h; subst h; exact frame_ret ..
    · injection h with h; subst h; exact frame_offerW ..
    · injection h with h; subst h; exact frame_offerW ..
    · injection h with h; subst h; exact frame_offerW ..
    · injection h with h; subst h; exact frame_offerCb ..
    · injection h with h; subst h; exact frame_offerCb ..
    · split at h
      · injection h with h; subst h; exact frame_ret ..
      · dsimp only at h
        have h1 : Frame s (s.logAdd (.enableCalled c)) := frame_logAdd _ rfl
        split at h
        · split at h
          · rename_i hm
            injection h with h; subst h
            refine h1.trans ((frame_waitOr ..).trans ⟨rfl, rfl, rfl, rfl, .inr ⟨?_, .inr rfl⟩, [], rfl, rfl⟩)
            have hm' : s.mon = .sel := by simpa using hm
            simp [hm', MonPc.idle]
          · injection h with h; subst h
            exact h1.trans ((frame_waitOr ..).trans (Frame.of_eq rfl rfl rfl rfl rfl rfl))
        · split at h
          · injection h with h; subst h; exact h1.trans (frame_ret ..)
          · injection h with h; subst h; exact h1.trans (frame_blockClient ..)
  · cases h

theorem frame_step {W : World} {s s' : State} {l : Label} (h : step W s l = some s') (hl : ∀ ch, l ≠ .runMon ch) :
    Frame s s' := by
  cases l with
  | «begin» c op ctx =>
    simp only [step] at h
    split at h
    · injection h with h; subst h; exact frame_setClient ..
    · cases h
  | ack c =>
    simp only [step] at h
    split at h
    · injection h with h; subst h; exact frame_setClient ..
    · cases h
  | runMon ch => exact absurd rfl (hl ch)
  | runCb => exact frame_runCb h
  | runClient c ch => exact frame_runClient h
  | cancel ctx =>
    simp only [step, Option.some.injEq] at h
    subst h; exact frame_cancelCtx ..

theorem frame_runMon_top {W : World} {s s' : State} {ch : Nat} (hm : s.mon = .top) (h : runMon W s ch = some s') :
    Frame s s' := by
  simp only [runMon, hm] at h
  split at h
  · injection h with h; subst h
    exact ⟨rfl, rfl, rfl, rfl, .inr ⟨by simp [hm, MonPc.idle], .inl rfl⟩, [], rfl, rfl⟩
  · simp only [Option.map_eq_some_iff] at h
    obtain ⟨i, _, h⟩ := h
    subst h
    exact frame_monTake s i (by simp [hm, MonPc.idle])

/-! ### predicates on all suffixes of the log -/

/-- `Q o l` holds for every entry `o` of the log and the entries `l` logged before it -/
def AllSuffix (Q : Obs → List Obs → Prop) : List Obs → Prop
  | [] => True
  | o :: l => Q o l ∧ AllSuffix Q l

@[simp] theorem AllSuffix_nil (Q : Obs → List Obs → Prop) : AllSuffix Q [] = True := rfl
@[simp] theorem AllSuffix_cons (Q : Obs → List Obs → Prop) (o : Obs) (l : List Obs) :
    AllSuffix Q (o :: l) = (Q o l ∧ AllSuffix Q l) := rfl

theorem AllSuffix.split {Q : Obs → List Obs → Prop} : ∀ {log : List Obs}, AllSuffix Q log →
    ∀ l1 o l2, log = l1 ++ o :: l2 → Q o l2 := by
  intro log
  induction log with
  | nil => intro _ l1 o l2 h; simp at h
  | cons a log ih =>
    intro hq l1 o l2 h
    cases l1 with
    | nil =>
      simp only [List.nil_append, List.cons.injEq] at h
      obtain ⟨rfl, rfl⟩ := h
      exact hq.1
    | cons b l1 =>
      simp only [List.cons_append, List.cons.injEq] at h
      exact ih hq.2 l1 o l2 h.2

theorem AllSuffix.mem {Q : Obs → List Obs → Prop} {log : List Obs} (h : AllSuffix Q log) {o : Obs} (ho : o ∈ log) :
    ∃ l2, Q o l2 := by
  obtain ⟨l1, l2, e⟩ := List.append_of_mem ho
  exact ⟨l2, h.split l1 o l2 e⟩

theorem AllSuffix.append {Q : Obs → List Obs → Prop} {new log : List Obs} (hn : ∀ o ∈ new, ∀ l, Q o l)
    (h : AllSuffix Q log) : AllSuffix Q (new ++ log) := by
  induction new with
  | nil => exact h
  | cons a new ih =>
    simp only [List.cons_append, AllSuffix_cons]
    exact ⟨hn a (by simp) _, ih (fun o ho => hn o (by simp [ho]))⟩

theorem Frame.mon_eq {s s' : State} (h : Frame s s') (hi : s'.mon.idle = false) (hw : monWake s'.mon = false) :
    s'.mon = s.mon := by
  rcases h.mon with e | ⟨_, e | e⟩
  · exact e
  · rw [hi] at e; cases e
  · rw [hw] at e; cases e


/-! ### effect of the monitor's steps below the top of its loop -/

theorem setC_all {Q : CSt → Prop} {cs : List (Nat × CSt)} {c : Nat} {st : CSt}
    (h : ∀ p ∈ cs, Q p.2) (hst : Q st) : ∀ p ∈ setC cs c st, Q p.2 := by
  induction cs with
  | nil => intro p hp; simp [setC] at hp; subst hp; exact hst
  | cons a rest ih =>
    obtain ⟨d, x⟩ := a
    intro p hp
    simp only [setC] at hp
    split at hp
    · simp only [List.mem_cons] at hp
      rcases hp with rfl | hp
      · exact hst
      · exact h p (by simp [hp])
    · simp only [List.mem_cons] at hp
      rcases hp with rfl | hp
      · exact h _ (by simp)
      · exact ih (fun q hq => h q (by simp [hq])) p hp

/-- clients are only ever moved to `returned` -/
def OnlyReturns (s s' : State) : Prop :=
  ∀ Q : CSt → Prop, (∀ r, Q (.returned r)) → (∀ p ∈ s.clients, Q p.2) → ∀ p ∈ s'.clients, Q p.2

theorem OnlyReturns.of_eq {s s' : State} (h : s'.clients = s.clients) : OnlyReturns s s' := by
  intro Q _ hs; rw [h]; exact hs

theorem OnlyReturns.ret (s : State) (c : Nat) (r : Res) : OnlyReturns s (s.ret c r) := by
  intro Q hq hs
  exact setC_all hs (hq r)

theorem OnlyReturns.trans {s s' s'' : State} (h1 : OnlyReturns s s') (h2 : OnlyReturns s' s'') : OnlyReturns s s'' :=
  fun Q hq hs => h2 Q hq (h1 Q hq hs)

structure MonEff (s s' : State) (view : Version) (slots : Slots) (skip : Bool) (mon : MonPc) (log : List Obs) : Prop where
  P : s'.P = s.P
  view : s'.view = view
  slots : s'.slots = slots
  skip : s'.skipVerify = skip
  mon : s'.mon = mon
  monCtl : s'.monCtl = s.monCtl
  log : s'.log = log
  cl : OnlyReturns s s'

/-- the answer to a rejected blocking report -/
def errRes : ErrK → Res
  | .stack => .errStack
  | _ => .errVerify

theorem trySubmit_eff (s : State) (ev : CbEv) (ch : Nat) :
    ∃ o, (o = .queued ev s.skipVerify ∨ o = .dropped ev) ∧ (trySubmit s ev ch).log = o :: s.log := by
  unfold trySubmit
  split
  · exact ⟨_, .inl rfl, by simp [State.logAdd]⟩
  · exact ⟨_, .inr rfl, rfl⟩

theorem replyTo_eff (s : State) (c : Nat) (r : Res) :
    ∃ new, (replyTo s c r).log = new ++ .replied c r :: s.log ∧ new.all clientObs = true ∧
      OnlyReturns s (replyTo s c r) := by
  unfold replyTo
  dsimp only
  split
  · exact ⟨[.ret c r], rfl, rfl, (OnlyReturns.of_eq rfl).trans (OnlyReturns.ret _ c r)⟩
  · exact ⟨[], rfl, rfl, OnlyReturns.of_eq rfl⟩

theorem runMon_gotValue {W : World} {s s' : State} {ch src v : Nat} {reply : Option Nat}
    (hm : s.mon = .gotValue src v reply) (h : runMon W s ch = some s') :
    MonEff s s' s.view (setSlot s.slots src v) s.skipVerify
      (if !W.stackOk (setSlot s.slots src v) then .submitErr .stack none reply
        else if !s.skipVerify then .verifyUpd (setSlot s.slots src v) reply
        else .store (setSlot s.slots src v) reply)
      (.gotUpd src v reply :: s.log) := by
  simp only [runMon, hm] at h
  split at h
  · rename_i h1
    injection h with h; subst h
    refine ⟨rfl, rfl, rfl, rfl, ?_, rfl, rfl, OnlyReturns.of_eq rfl⟩
    simp [h1]
  · rename_i h1
    split at h
    · rename_i h2
      injection h with h; subst h
      refine ⟨rfl, rfl, rfl, rfl, ?_, rfl, rfl, OnlyReturns.of_eq rfl⟩
      simp only [Facts.verifyOnUpdate, State.logAdd, Bool.true_and] at h2
      simp [h1, h2]
    · rename_i h2
      injection h with h; subst h
      refine ⟨rfl, rfl, rfl, rfl, ?_, rfl, rfl, OnlyReturns.of_eq rfl⟩
      simp only [Facts.verifyOnUpdate, State.logAdd, Bool.true_and] at h2
      simp [h1, h2]

theorem runMon_verifyUpd {W : World} {s s' : State} {ch : Nat} {sl : Slots} {reply : Option Nat}
    (hm : s.mon = .verifyUpd sl reply) (h : runMon W s ch = some s') :
    MonEff s s' s.view s.slots s.skipVerify
      (if W.valid sl then .store sl reply else .submitErr .verify (some sl) reply)
      (.verify sl (W.valid sl) false :: s.log) := by
  simp only [runMon, hm] at h
  split at h
  · rename_i h1
    injection h with h; subst h
    refine ⟨rfl, rfl, rfl, rfl, ?_, rfl, ?_, OnlyReturns.of_eq rfl⟩ <;> simp [h1, State.logAdd]
  · rename_i h1
    injection h with h; subst h
    refine ⟨rfl, rfl, rfl, rfl, ?_, rfl, ?_, OnlyReturns.of_eq rfl⟩ <;> simp [h1, State.logAdd]

theorem runMon_submitErr {W : World} {s s' : State} {ch : Nat} {k : ErrK} {new : Option Slots} {reply : Option Nat}
    (hm : s.mon = .submitErr k new reply) (h : runMon W s ch = some s') :
    ∃ o, (o = .queued (.watchErr k s.view.cfg new) s.skipVerify ∨ o = .dropped (.watchErr k s.view.cfg new)) ∧
    MonEff s s' s.view s.slots s.skipVerify
      (match reply with | some c => .replyErr k c | none => .top)
      (.reject k reply :: o :: s.log) := by
  simp only [runMon, hm] at h
  obtain ⟨o, ho, e⟩ := trySubmit_eff s (.watchErr k s.view.cfg new) ch
  refine ⟨o, ho, ?_⟩
  split at h <;> (injection h with h; subst h) <;>
    exact ⟨by simp, by simp, by simp, by simp, rfl, by simp, by simp [State.logAdd, e], OnlyReturns.of_eq (by simp)⟩

theorem runMon_replyErr {W : World} {s s' : State} {ch : Nat} {k : ErrK} {c : Nat}
    (hm : s.mon = .replyErr k c) (h : runMon W s ch = some s') :
    ∃ new, new.all clientObs = true ∧
    MonEff s s' s.view s.slots s.skipVerify .top (new ++ .replied c (errRes k) :: s.log) := by
  have key : ∀ r, ∃ new, new.all clientObs = true ∧
      MonEff s { (replyTo s c r) with mon := .top } s.view s.slots s.skipVerify .top (new ++ .replied c r :: s.log) := by
    intro r
    obtain ⟨new, e, hn, hc⟩ := replyTo_eff s c r
    exact ⟨new, hn, by simp, by simp, by simp, by simp, rfl, by simp, e, hc⟩
  cases k <;> (simp only [runMon, hm, Option.some.injEq] at h; subst h; exact key _)

theorem runMon_store {W : World} {s s' : State} {ch : Nat} {sl : Slots} {reply : Option Nat}
    (hm : s.mon = .store sl reply) (h : runMon W s ch = some s') :
    MonEff s s' ⟨Facts.nextSerial s.view.serial, sl⟩ s.slots s.skipVerify (.events s.view.cfg reply)
      (.install ⟨Facts.nextSerial s.view.serial, sl⟩ s.skipVerify :: s.log) := by
  simp only [runMon, hm, Option.some.injEq] at h
  subst h
  exact ⟨rfl, rfl, rfl, rfl, rfl, rfl, rfl, OnlyReturns.of_eq rfl⟩

theorem runMon_events {W : World} {s s' : State} {ch : Nat} {old : Slots} {reply : Option Nat}
    (hm : s.mon = .events old reply) (h : runMon W s ch = some s') :
    MonEff s s' s.view s.slots s.skipVerify
      (match reply with | some c => .replyOk old c | none => .submitNew old) s.log := by
  simp only [runMon, hm] at h
  cases he : s.events <;> simp only [he] at h <;> split at h <;> (injection h with h; subst h) <;>
    exact ⟨rfl, rfl, rfl, rfl, rfl, rfl, rfl, OnlyReturns.of_eq rfl⟩

theorem runMon_replyOk {W : World} {s s' : State} {ch : Nat} {old : Slots} {c : Nat}
    (hm : s.mon = .replyOk old c) (h : runMon W s ch = some s') :
    ∃ new, new.all clientObs = true ∧
    MonEff s s' s.view s.slots s.skipVerify (.submitNew old) (new ++ .replied c .okNil :: s.log) := by
  simp only [runMon, hm, Option.some.injEq] at h
  subst h
  obtain ⟨new, e, hn, hc⟩ := replyTo_eff s c .okNil
  exact ⟨new, hn, by simp, by simp, by simp, by simp, rfl, by simp, e, hc⟩

theorem runMon_submitNew {W : World} {s s' : State} {ch : Nat} {old : Slots}
    (hm : s.mon = .submitNew old) (h : runMon W s ch = some s') :
    ∃ o, (o = .queued (.newCfg old s.view (s.skipVerify && s.P.suppress)) s.skipVerify ∨
          o = .dropped (.newCfg old s.view (s.skipVerify && s.P.suppress))) ∧
    MonEff s s' s.view s.slots s.skipVerify .top (o :: s.log) := by
  simp only [runMon, hm, Option.some.injEq, suppressedNow, Facts.suppressNew] at h
  subst h
  obtain ⟨o, ho, e⟩ := trySubmit_eff s (.newCfg old s.view (s.skipVerify && s.P.suppress)) ch
  exact ⟨o, ho, by simp, by simp, by simp, by simp, rfl, by simp, e, OnlyReturns.of_eq (by simp)⟩

theorem runMon_gotSrcErr {W : World} {s s' : State} {ch e : Nat}
    (hm : s.mon = .gotSrcErr e) (h : runMon W s ch = some s') :
    MonEff s s' s.view s.slots s.skipVerify
      (if (s.skipVerify && s.P.suppress) then .top else .submitSrcErr e)
      (if (s.skipVerify && s.P.suppress) then .srcErrIgnored e s.skipVerify :: s.log else s.log) := by
  simp only [runMon, hm] at h
  split at h
  · rename_i h1
    injection h with h; subst h
    simp only [Facts.deliverSrcErr, Bool.not_eq_true'] at h1
    rw [h1]
    exact ⟨rfl, rfl, rfl, rfl, rfl, rfl, rfl, OnlyReturns.of_eq rfl⟩
  · rename_i h1
    injection h with h; subst h
    simp only [Facts.deliverSrcErr, Bool.not_eq_true', Bool.not_eq_false] at h1
    rw [h1]
    exact ⟨rfl, rfl, rfl, rfl, rfl, rfl, rfl, OnlyReturns.of_eq rfl⟩

theorem runMon_submitSrcErr {W : World} {s s' : State} {ch e : Nat}
    (hm : s.mon = .submitSrcErr e) (h : runMon W s ch = some s') :
    ∃ o, (o = .queued (.watchErr (.source e) s.view.cfg none) s.skipVerify ∨
          o = .dropped (.watchErr (.source e) s.view.cfg none)) ∧
    MonEff s s' s.view s.slots s.skipVerify .top (o :: s.log) := by
  simp only [runMon, hm, Option.some.injEq] at h
  subst h
  obtain ⟨o, ho, e⟩ := trySubmit_eff s (.watchErr (.source e) s.view.cfg none) ch
  exact ⟨o, ho, by simp, by simp, by simp, by simp, rfl, by simp, e, OnlyReturns.of_eq (by simp)⟩

theorem runMon_gotDone {W : World} {s s' : State} {ch src : Nat}
    (hm : s.mon = .gotDone src) (h : runMon W s ch = some s') :
    ∃ m, (m = .top ∨ m = .exit) ∧ MonEff s s' s.view s.slots s.skipVerify m s.log := by
  simp only [runMon, hm] at h
  split at h <;> (injection h with h; subst h)
  · exact ⟨_, .inl rfl, rfl, rfl, rfl, rfl, rfl, rfl, rfl, OnlyReturns.of_eq rfl⟩
  · exact ⟨_, .inr rfl, rfl, rfl, rfl, rfl, rfl, rfl, rfl, OnlyReturns.of_eq rfl⟩

theorem runMon_gotEnable {W : World} {s s' : State} {ch c tok : Nat}
    (hm : s.mon = .gotEnable c tok) (h : runMon W s ch = some s') :
    MonEff s s' s.view s.slots s.skipVerify
      (if s.skipVerify then .verifyEnable c tok else .enableReply c tok true true) s.log := by
  simp only [runMon, hm] at h
  split at h
  · rename_i h1
    injection h with h; subst h
    refine ⟨rfl, rfl, rfl, rfl, ?_, rfl, rfl, OnlyReturns.of_eq rfl⟩
    simp at h1; simp [h1]
  · rename_i h1
    injection h with h; subst h
    refine ⟨rfl, rfl, rfl, rfl, ?_, rfl, rfl, OnlyReturns.of_eq rfl⟩
    simp at h1; simp [h1]

theorem runMon_verifyEnable {W : World} {s s' : State} {ch c tok : Nat}
    (hm : s.mon = .verifyEnable c tok) (h : runMon W s ch = some s') :
    MonEff s s' s.view s.slots s.skipVerify (.enableReply c tok (W.valid s.view.cfg) false)
      (.verify s.view.cfg (W.valid s.view.cfg) true :: s.log) := by
  simp only [runMon, hm, Option.some.injEq] at h
  subst h
  exact ⟨rfl, rfl, rfl, rfl, rfl, rfl, rfl, OnlyReturns.of_eq rfl⟩

theorem runMon_enableReply {W : World} {s s' : State} {ch c tok : Nat} {ok noop : Bool}
    (hm : s.mon = .enableReply c tok ok noop) (h : runMon W s ch = some s') :
    ∃ new, new.all clientObs = true ∧
    MonEff s s' s.view s.slots (if noop then s.skipVerify else !ok) .top
      (new ++ (if noop then s.log else .enabled ok s.view :: s.log)) := by
  simp only [runMon, hm] at h
  cases noop
  · simp only [Bool.false_eq_true, if_false] at h
    split at h <;> (try split at h) <;> (injection h with h; subst h)
    · exact ⟨[.ret c _], rfl, rfl, rfl, rfl, rfl, rfl, rfl, rfl,
        (OnlyReturns.of_eq rfl).trans ((OnlyReturns.ret _ c _).trans (OnlyReturns.of_eq rfl))⟩
    · exact ⟨[], rfl, rfl, rfl, rfl, rfl, rfl, rfl, rfl, OnlyReturns.of_eq rfl⟩
    · exact ⟨[], rfl, rfl, rfl, rfl, rfl, rfl, rfl, rfl, OnlyReturns.of_eq rfl⟩
  · simp only [if_true] at h
    split at h <;> (try split at h) <;> (injection h with h; subst h)
    · exact ⟨[.ret c _], rfl, rfl, rfl, rfl, rfl, rfl, rfl, rfl,
        (OnlyReturns.ret _ c _).trans (OnlyReturns.of_eq rfl)⟩
    · exact ⟨[], rfl, rfl, rfl, rfl, rfl, rfl, rfl, rfl, OnlyReturns.of_eq rfl⟩
    · exact ⟨[], rfl, rfl, rfl, rfl, rfl, rfl, rfl, rfl, OnlyReturns.of_eq rfl⟩

theorem runMon_exit {W : World} {s s' : State} {ch : Nat}
    (hm : s.mon = .exit) (h : runMon W s ch = some s') :
    MonEff s s' s.view s.slots s.skipVerify .finished (.monExit :: s.log) := by
  simp only [runMon, hm, Option.some.injEq] at h
  subst h
  refine ⟨rfl, rfl, rfl, rfl, rfl, rfl, rfl, ?_⟩
  intro Q hq hs p hp
  simp only [State.logAdd, List.mem_map] at hp
  obtain ⟨q, hq', rfl⟩ := hp
  split <;> first | exact hq _ | exact hs q hq'

theorem label_cases (l : Label) : (∀ ch, l ≠ .runMon ch) ∨ ∃ ch, l = .runMon ch := by
  cases l <;> simp

/-! ### invariant A: the skipVerify flag, verified installs, suppression marks -/

def QA (W : World) (P : Params) (o : Obs) (l : List Obs) : Prop :=
  match o with
  | .install v skip => (skip = false → W.valid v.cfg = true) ∧ (skip = true → ∀ v', Obs.enabled true v' ∉ l)
  | .queued (.newCfg _ _ supp) skip => supp = (skip && P.suppress)
  | .dropped (.newCfg _ _ supp) => supp = true → P.suppress = true ∧ P.delay = true
  | .srcErrIgnored _ skip => skip = true ∧ P.suppress = true ∧ P.delay = true
  | .withheld ev _ => ∃ old new, ev = .newCfg old new true
  | _ => True

theorem QA_of_clientObs {W : World} {P : Params} {o : Obs} (h : clientObs o = true) (l : List Obs) : QA W P o l := by
  cases o <;> simp [clientObs] at h <;> simp [QA]
  rename_i ev skip
  cases ev with
  | newCfg old new supp => cases supp <;> simp at h; exact ⟨old, new, rfl⟩
  | _ => simp at h

structure InvA (W : World) (P : Params) (s : State) : Prop where
  hP : s.P = P
  skip : s.skipVerify = true → P.delay = true ∧ ∀ v, Obs.enabled true v ∉ s.log
  store : ∀ sl r, s.mon = .store sl r → s.skipVerify = false → W.valid sl = true
  ven : ∀ c tok, s.mon = .verifyEnable c tok → s.skipVerify = true
  ren : ∀ c tok ok, s.mon = .enableReply c tok ok false → s.skipVerify = true
  log : AllSuffix (QA W P) s.log

theorem InvA.init (W : World) (P : Params) (sl : Slots) (w : List Bool) : InvA W P (initState P sl w) := by
  refine ⟨rfl, ?_, ?_, ?_, ?_, ?_⟩ <;> simp [initState, Facts.initialSkipVerify]

theorem InvA.frame {W : World} {P : Params} {s s' : State} (hf : Frame s s') (hi : InvA W P s) : InvA W P s' := by
  obtain ⟨new, hlog, hnew⟩ := hf.log
  refine ⟨hf.P.trans hi.hP, ?_, ?_, ?_, ?_, ?_⟩
  · intro hs
    rw [hf.skip] at hs
    refine ⟨(hi.skip hs).1, fun v hv => ?_⟩
    rw [hlog, List.mem_append] at hv
    rcases hv with hv | hv
    · have := List.all_eq_true.mp hnew _ hv
      simp [clientObs] at this
    · exact (hi.skip hs).2 v hv
  · intro sl r hm
    rw [hf.skip]
    have := hf.mon_eq (by simp [hm, MonPc.idle]) (by simp [hm, monWake])
    exact hi.store sl r (this ▸ hm)
  · intro c tok hm
    rw [hf.skip]
    have := hf.mon_eq (by simp [hm, MonPc.idle]) (by simp [hm, monWake])
    exact hi.ven c tok (this ▸ hm)
  · intro c tok ok hm
    rw [hf.skip]
    have := hf.mon_eq (by simp [hm, MonPc.idle]) (by simp [hm, monWake])
    exact hi.ren c tok ok (this ▸ hm)
  · rw [hlog]
    exact AllSuffix.append (fun o ho l => QA_of_clientObs (List.all_eq_true.mp hnew o ho) l) hi.log

theorem InvA.of_eff {W : World} {P : Params} {s s' : State} {vw : Version} {sl : Slots} {sk : Bool} {m : MonPc}
    {lg : List Obs} (eff : MonEff s s' vw sl sk m lg) (hP : s.P = P)
    (h1 : sk = true → P.delay = true ∧ ∀ v, Obs.enabled true v ∉ lg)
    (h2 : ∀ sl r, m = .store sl r → sk = false → W.valid sl = true)
    (h3 : ∀ c tok, m = .verifyEnable c tok → sk = true)
    (h4 : ∀ c tok ok, m = .enableReply c tok ok false → sk = true)
    (h5 : AllSuffix (QA W P) lg) : InvA W P s' := by
  refine ⟨eff.P.trans hP, ?_, ?_, ?_, ?_, ?_⟩
  · rw [eff.skip, eff.log]; exact h1
  · rw [eff.skip, eff.mon]; exact h2
  · rw [eff.skip, eff.mon]; exact h3
  · rw [eff.skip, eff.mon]; exact h4
  · rw [eff.log]; exact h5

theorem mem_clientObs_append {new l : List Obs} {o : Obs} (hn : new.all clientObs = true) (ho : clientObs o = false) :
    o ∈ new ++ l ↔ o ∈ l := by
  rw [List.mem_append]
  constructor
  · rintro (h | h)
    · have := List.all_eq_true.mp hn o h
      rw [ho] at this; cases this
    · exact h
  · exact .inr

macro "pc_tac" : tactic => `(tactic| (intro hx; (repeat' (split at hx)) <;> cases hx))

theorem InvA.next {W : World} {P : Params} {s s' : State} {l : Label} (hi : InvA W P s) (h : step W s l = some s') :
    InvA W P s' := by
  rcases label_cases l with hl | ⟨ch, rfl⟩
  · exact hi.frame (frame_step h hl)
  simp only [step] at h
  have hP := hi.hP
  have hlog := hi.log
  have hskip := hi.skip
  cases hm : s.mon with
  | top => exact hi.frame (frame_runMon_top hm h)
  | sel => simp [runMon, hm] at h
  | finished => simp [runMon, hm] at h
  | gotValue src v reply =>
    refine InvA.of_eff (runMon_gotValue hm h) hP ?_ ?_ ?_ ?_ ?_
    · simpa using hskip
    · intro sl r; pc_tac
      rename_i hs; intro hs'; simp [hs'] at hs
    · intro c tok; pc_tac
    · intro c tok ok; pc_tac
    · simpa [QA] using hlog
  | verifyUpd sl reply =>
    refine InvA.of_eff (runMon_verifyUpd hm h) hP ?_ ?_ ?_ ?_ ?_
    · simpa using hskip
    · intro sl r; pc_tac
      rename_i hv; intro _; exact hv
    · intro c tok; pc_tac
    · intro c tok ok; pc_tac
    · simpa [QA] using hlog
  | submitErr k new reply =>
    obtain ⟨o, ho, eff⟩ := runMon_submitErr hm h
    refine InvA.of_eff eff hP ?_ ?_ ?_ ?_ ?_
    · rcases ho with rfl | rfl <;> simpa using hskip
    · intro sl r; pc_tac
    · intro c tok; pc_tac
    · intro c tok ok; pc_tac
    · rcases ho with rfl | rfl <;> simpa [QA] using hlog
  | replyErr k c =>
    obtain ⟨new, hn, eff⟩ := runMon_replyErr hm h
    refine InvA.of_eff eff hP ?_ ?_ ?_ ?_ ?_
    · intro hs; refine ⟨(hskip hs).1, fun v hv => ?_⟩
      rw [mem_clientObs_append hn rfl] at hv
      simp only [List.mem_cons, reduceCtorEq, false_or] at hv
      exact (hskip hs).2 v hv
    · intro sl r; pc_tac
    · intro c tok; pc_tac
    · intro c tok ok; pc_tac
    · exact AllSuffix.append (fun o ho l => QA_of_clientObs (List.all_eq_true.mp hn o ho) l) (by simpa [QA] using hlog)
  | store sl reply =>
    refine InvA.of_eff (runMon_store hm h) hP ?_ ?_ ?_ ?_ ?_
    · simpa using hskip
    · intro sl r; pc_tac
    · intro c tok; pc_tac
    · intro c tok ok; pc_tac
    · simp only [AllSuffix_cons, QA]
      exact ⟨⟨hi.store sl reply hm, fun hs => (hskip hs).2⟩, hlog⟩
  | events old reply =>
    refine InvA.of_eff (runMon_events hm h) hP hskip ?_ ?_ ?_ hlog
    · intro sl r; pc_tac
    · intro c tok; pc_tac
    · intro c tok ok; pc_tac
  | replyOk old c =>
    obtain ⟨new, hn, eff⟩ := runMon_replyOk hm h
    refine InvA.of_eff eff hP ?_ ?_ ?_ ?_ ?_
    · intro hs; refine ⟨(hskip hs).1, fun v hv => ?_⟩
      rw [mem_clientObs_append hn rfl] at hv
      simp only [List.mem_cons, reduceCtorEq, false_or] at hv
      exact (hskip hs).2 v hv
    · intro sl r; pc_tac
    · intro c tok; pc_tac
    · intro c tok ok; pc_tac
    · exact AllSuffix.append (fun o ho l => QA_of_clientObs (List.all_eq_true.mp hn o ho) l) (by simpa [QA] using hlog)
  | submitNew old =>
    obtain ⟨o, ho, eff⟩ := runMon_submitNew hm h
    refine InvA.of_eff eff hP ?_ ?_ ?_ ?_ ?_
    · rcases ho with rfl | rfl <;> simpa using hskip
    · intro sl r; pc_tac
    · intro c tok; pc_tac
    · intro c tok ok; pc_tac
    · rcases ho with rfl | rfl
      · simpa [QA, hP] using hlog
      · simp only [AllSuffix_cons, QA, hP]
        refine ⟨fun hx => ?_, hlog⟩
        simp only [Bool.and_eq_true] at hx
        exact ⟨hx.2, (hskip hx.1).1⟩
  | gotSrcErr e =>
    refine InvA.of_eff (runMon_gotSrcErr hm h) hP ?_ ?_ ?_ ?_ ?_
    · intro hs; split <;> simpa using hskip hs
    · intro sl r; pc_tac
    · intro c tok; pc_tac
    · intro c tok ok; pc_tac
    · split
      · rename_i hx
        simp only [Bool.and_eq_true, hP] at hx
        simp only [AllSuffix_cons, QA]
        exact ⟨⟨hx.1, hx.2, (hskip hx.1).1⟩, hlog⟩
      · exact hlog
  | submitSrcErr e =>
    obtain ⟨o, ho, eff⟩ := runMon_submitSrcErr hm h
    refine InvA.of_eff eff hP ?_ ?_ ?_ ?_ ?_
    · rcases ho with rfl | rfl <;> simpa using hskip
    · intro sl r; pc_tac
    · intro c tok; pc_tac
    · intro c tok ok; pc_tac
    · rcases ho with rfl | rfl <;> simpa [QA] using hlog
  | gotDone src =>
    obtain ⟨m, hm', eff⟩ := runMon_gotDone hm h
    refine InvA.of_eff eff hP hskip ?_ ?_ ?_ hlog
    · intro sl r; rcases hm' with rfl | rfl <;> pc_tac
    · intro c tok; rcases hm' with rfl | rfl <;> pc_tac
    · intro c tok ok; rcases hm' with rfl | rfl <;> pc_tac
  | gotEnable c tok =>
    refine InvA.of_eff (runMon_gotEnable hm h) hP hskip ?_ ?_ ?_ hlog
    · intro sl r; pc_tac
    · intro c tok; pc_tac; assumption
    · intro c tok ok; pc_tac
  | verifyEnable c tok =>
    refine InvA.of_eff (runMon_verifyEnable hm h) hP ?_ ?_ ?_ ?_ ?_
    · simpa using hskip
    · intro sl r; pc_tac
    · intro c tok; pc_tac
    · intro c tok ok; pc_tac; exact hi.ven _ _ hm
    · simpa [QA] using hlog
  | enableReply c tok ok noop =>
    obtain ⟨new, hn, eff⟩ := runMon_enableReply hm h
    refine InvA.of_eff eff hP ?_ ?_ ?_ ?_ ?_
    · cases noop
      · have hs := hi.ren c tok ok hm
        intro hok
        simp only [Bool.false_eq_true, if_false, Bool.not_eq_true'] at hok ⊢
        subst hok
        refine ⟨(hskip hs).1, fun v hv => ?_⟩
        rw [mem_clientObs_append hn rfl] at hv
        simp only [List.mem_cons, Obs.enabled.injEq, Bool.true_eq_false, false_and, false_or] at hv
        exact (hskip hs).2 v hv
      · intro hs
        simp only [if_true] at hs ⊢
        refine ⟨(hskip hs).1, fun v hv => ?_⟩
        rw [mem_clientObs_append hn rfl] at hv
        exact (hskip hs).2 v hv
    · intro sl r; pc_tac
    · intro c tok; pc_tac
    · intro c tok ok; pc_tac
    · refine AllSuffix.append (fun o ho l => QA_of_clientObs (List.all_eq_true.mp hn o ho) l) ?_
      split
      · exact hlog
      · simpa [QA] using hlog
  | exit =>
    refine InvA.of_eff (runMon_exit hm h) hP ?_ ?_ ?_ ?_ ?_
    · simpa using hskip
    · intro sl r; pc_tac
    · intro c tok; pc_tac
    · intro c tok ok; pc_tac
    · simpa [QA] using hlog

theorem InvA.reachable {W : World} {P : Params} {sl : Slots} {w : List Bool} {s : State}
    (hr : Reachable W P sl w s) : InvA W P s :=
  reachable_inv (InvA.init W P sl w) (fun _ _ _ hi h => hi.next h) hr

/-- the flag changes only in the monitor's reply step of a verifying enable request -/
theorem skip_step {W : World} {s s' : State} {l : Label} (h : step W s l = some s') :
    s'.skipVerify = s.skipVerify ∨
    ∃ c tok ok ch, s.mon = .enableReply c tok ok false ∧ l = .runMon ch ∧ s'.skipVerify = !ok := by
  rcases label_cases l with hl | ⟨ch, rfl⟩
  · exact .inl (frame_step h hl).skip
  simp only [step] at h
  cases hm : s.mon with
  | top => exact .inl (frame_runMon_top hm h).skip
  | sel => simp [runMon, hm] at h
  | finished => simp [runMon, hm] at h
  | gotValue src v reply => exact .inl (runMon_gotValue hm h).skip
  | verifyUpd sl reply => exact .inl (runMon_verifyUpd hm h).skip
  | submitErr k new reply => obtain ⟨o, _, eff⟩ := runMon_submitErr hm h; exact .inl eff.skip
  | replyErr k c => obtain ⟨o, _, eff⟩ := runMon_replyErr hm h; exact .inl eff.skip
  | store sl reply => exact .inl (runMon_store hm h).skip
  | events old reply => exact .inl (runMon_events hm h).skip
  | replyOk old c => obtain ⟨o, _, eff⟩ := runMon_replyOk hm h; exact .inl eff.skip
  | submitNew old => obtain ⟨o, _, eff⟩ := runMon_submitNew hm h; exact .inl eff.skip
  | gotSrcErr e => exact .inl (runMon_gotSrcErr hm h).skip
  | submitSrcErr e => obtain ⟨o, _, eff⟩ := runMon_submitSrcErr hm h; exact .inl eff.skip
  | gotDone src => obtain ⟨o, _, eff⟩ := runMon_gotDone hm h; exact .inl eff.skip
  | gotEnable c tok => exact .inl (runMon_gotEnable hm h).skip
  | verifyEnable c tok => exact .inl (runMon_verifyEnable hm h).skip
  | enableReply c tok ok noop =>
    obtain ⟨o, _, eff⟩ := runMon_enableReply hm h
    cases noop
    · exact .inr ⟨c, tok, ok, ch, rfl, rfl, by simpa using eff.skip⟩
    · exact .inl (by simpa using eff.skip)
  | exit => exact .inl (runMon_exit hm h).skip

/-! ### invariant C: a blocking report is answered after its value was stacked or rejected -/

/-- entries logged after the latest `gotUpd` (newest first) -/
def sinceUpd (log : List Obs) : List Obs := log.takeWhile (fun o => !isGotUpd o)
/-- the latest `gotUpd` entry -/
def lastUpd (log : List Obs) : Option Obs := (log.dropWhile (fun o => !isGotUpd o)).head?

theorem sinceUpd_cons_not {o : Obs} (h : isGotUpd o = false) (l : List Obs) : sinceUpd (o :: l) = o :: sinceUpd l := by
  simp [sinceUpd, List.takeWhile, h]
theorem lastUpd_cons_not {o : Obs} (h : isGotUpd o = false) (l : List Obs) : lastUpd (o :: l) = lastUpd l := by
  simp [lastUpd, List.dropWhile, h]
@[simp] theorem sinceUpd_cons_upd (a b : Nat) (c : Option Nat) (l : List Obs) : sinceUpd (.gotUpd a b c :: l) = [] := by
  simp [sinceUpd, List.takeWhile, isGotUpd]
@[simp] theorem lastUpd_cons_upd (a b : Nat) (c : Option Nat) (l : List Obs) :
    lastUpd (.gotUpd a b c :: l) = some (.gotUpd a b c) := by
  simp [lastUpd, List.dropWhile, isGotUpd]

/-- neither a received update nor an install -/
def plain (o : Obs) : Bool := !isGotUpd o && !isInstall o

theorem plain_of_clientObs {o : Obs} (h : clientObs o = true) : plain o = true := by
  cases o <;> simp [clientObs] at h <;> rfl
theorem all_plain_of_clientObs {new : List Obs} (h : new.all clientObs = true) : new.all plain = true := by
  rw [List.all_eq_true] at h ⊢
  exact fun o ho => plain_of_clientObs (h o ho)
theorem plain_not_upd {o : Obs} (h : plain o = true) : isGotUpd o = false := by
  simp [plain] at h; exact h.1
theorem plain_not_install {o : Obs} (h : plain o = true) : isInstall o = false := by
  simp [plain] at h; exact h.2

theorem sinceUpd_append_plain {new : List Obs} (hn : new.all plain = true) (l : List Obs) :
    sinceUpd (new ++ l) = new ++ sinceUpd l := by
  induction new with
  | nil => rfl
  | cons a new ih =>
    simp only [List.all_cons, Bool.and_eq_true] at hn
    rw [List.cons_append, sinceUpd_cons_not (plain_not_upd hn.1), ih hn.2, List.cons_append]

theorem lastUpd_append_plain {new : List Obs} (hn : new.all plain = true) (l : List Obs) :
    lastUpd (new ++ l) = lastUpd l := by
  induction new with
  | nil => rfl
  | cons a new ih =>
    simp only [List.all_cons, Bool.and_eq_true] at hn
    rw [List.cons_append, lastUpd_cons_not (plain_not_upd hn.1), ih hn.2]

theorem filter_install_append_plain {new : List Obs} (hn : new.all plain = true) (l : List Obs) :
    (new ++ l).filter isInstall = l.filter isInstall := by
  induction new with
  | nil => rfl
  | cons a new ih =>
    simp only [List.all_cons, Bool.and_eq_true] at hn
    rw [List.cons_append, List.filter_cons, plain_not_install hn.1, ih hn.2]
    simp

theorem split_of_lastUpd {l : List Obs} {o : Obs} (h : lastUpd l = some o) :
    ∃ l2b, l = sinceUpd l ++ o :: l2b ∧ (sinceUpd l).all (fun o => !isGotUpd o) = true := by
  unfold lastUpd at h
  have h1 : l = sinceUpd l ++ l.dropWhile (fun o => !isGotUpd o) := (List.takeWhile_append_dropWhile).symm
  cases hd : l.dropWhile (fun o => !isGotUpd o) with
  | nil => rw [hd] at h; simp at h
  | cons a rest =>
    rw [hd] at h h1
    simp only [List.head?_cons, Option.some.injEq] at h
    subst h
    exact ⟨rest, h1, List.all_takeWhile⟩

theorem setSlot_length (sl : Slots) (src v : Nat) : (setSlot sl src v).length = sl.length := by
  induction sl generalizing src with
  | nil => rfl
  | cons a sl ih => cases src <;> simp [setSlot, ih]

theorem setSlot_get (sl : Slots) (src v : Nat) (h : src < (setSlot sl src v).length) :
    (setSlot sl src v)[src]? = some v := by
  induction sl generalizing src with
  | nil => simp [setSlot] at h
  | cons a sl ih =>
    cases src with
    | zero => simp [setSlot]
    | succ n =>
      simp only [setSlot, List.length_cons, Nat.add_lt_add_iff_right] at h
      simp [setSlot, ih n h]

/-- nothing installed since the update of blocking reporter `c` was received; `sl` is its stack -/
def UpdNo (log : List Obs) (c : Nat) (sl : Slots) : Prop :=
  ∃ src v, lastUpd log = some (.gotUpd src v (some c)) ∧ (sinceUpd log).filter isInstall = [] ∧
    (src < sl.length → sl[src]? = some v)
/-- exactly one version installed since then, holding the reported value -/
def UpdOne (log : List Obs) (c : Nat) : Prop :=
  ∃ src v ver skip, lastUpd log = some (.gotUpd src v (some c)) ∧
    (sinceUpd log).filter isInstall = [.install ver skip] ∧ (src < ver.cfg.length → ver.cfg[src]? = some v)
def UpdErr (log : List Obs) (c : Nat) : Prop :=
  ∃ src v, lastUpd log = some (.gotUpd src v (some c)) ∧ (sinceUpd log).filter isInstall = []

def pcC (m : MonPc) (view : Version) (slots : Slots) (log : List Obs) : Prop :=
  match m with
  | .verifyUpd sl r => sl = slots ∧ ∀ c, r = some c → UpdNo log c sl
  | .store sl r => sl = slots ∧ ∀ c, r = some c → UpdNo log c sl
  | .events _ r => view.cfg = slots ∧ 1 ≤ view.serial ∧ ∀ c, r = some c → UpdOne log c
  | .replyOk _ c => view.cfg = slots ∧ 1 ≤ view.serial ∧ UpdOne log c
  | .submitErr _ _ r => ∀ c, r = some c → UpdErr log c
  | .replyErr k c => UpdErr log c ∧ .reject k (some c) ∈ sinceUpd log
  | _ => True

theorem UpdNo.prepend {log : List Obs} {c : Nat} {sl : Slots} (h : UpdNo log c sl) {new : List Obs}
    (hn : new.all plain = true) : UpdNo (new ++ log) c sl := by
  obtain ⟨src, v, h1, h2, h3⟩ := h
  refine ⟨src, v, ?_, ?_, h3⟩
  · rw [lastUpd_append_plain hn, h1]
  · rw [sinceUpd_append_plain hn, filter_install_append_plain hn, h2]

theorem UpdOne.prepend {log : List Obs} {c : Nat} (h : UpdOne log c) {new : List Obs}
    (hn : new.all plain = true) : UpdOne (new ++ log) c := by
  obtain ⟨src, v, ver, skip, h1, h2, h3⟩ := h
  refine ⟨src, v, ver, skip, ?_, ?_, h3⟩
  · rw [lastUpd_append_plain hn, h1]
  · rw [sinceUpd_append_plain hn, filter_install_append_plain hn, h2]

theorem UpdErr.prepend {log : List Obs} {c : Nat} (h : UpdErr log c) {new : List Obs}
    (hn : new.all plain = true) : UpdErr (new ++ log) c := by
  obtain ⟨src, v, h1, h2⟩ := h
  refine ⟨src, v, ?_, ?_⟩
  · rw [lastUpd_append_plain hn, h1]
  · rw [sinceUpd_append_plain hn, filter_install_append_plain hn, h2]

theorem UpdNo.toErr {log : List Obs} {c : Nat} {sl : Slots} (h : UpdNo log c sl) : UpdErr log c := by
  obtain ⟨src, v, h1, h2, _⟩ := h
  exact ⟨src, v, h1, h2⟩

theorem pcC.prepend {m : MonPc} {view : Version} {slots : Slots} {log : List Obs} (h : pcC m view slots log)
    {new : List Obs} (hn : new.all plain = true) : pcC m view slots (new ++ log) := by
  unfold pcC at h ⊢
  split <;> simp only at h ⊢
  · exact ⟨h.1, fun c hc => (h.2 c hc).prepend hn⟩
  · exact ⟨h.1, fun c hc => (h.2 c hc).prepend hn⟩
  · exact ⟨h.1, h.2.1, fun c hc => (h.2.2 c hc).prepend hn⟩
  · exact ⟨h.1, h.2.1, h.2.2.prepend hn⟩
  · exact fun c hc => (h c hc).prepend hn
  · refine ⟨h.1.prepend hn, ?_⟩
    rw [sinceUpd_append_plain hn]
    exact List.mem_append_right _ h.2

def ConclOk (c : Nat) (l2 : List Obs) : Prop :=
  ∃ l2a l2b src v ver skip, l2 = l2a ++ Obs.gotUpd src v (some c) :: l2b ∧
    l2a.all (fun o => !isGotUpd o) = true ∧ l2a.filter isInstall = [Obs.install ver skip] ∧
    (src < ver.cfg.length → ver.cfg[src]? = some v)

def ConclErr (c : Nat) (r : Res) (l2 : List Obs) : Prop :=
  ∃ l2a l2b src v k, l2 = l2a ++ Obs.gotUpd src v (some c) :: l2b ∧
    l2a.all (fun o => !isGotUpd o) = true ∧ l2a.filter isInstall = [] ∧
    Obs.reject k (some c) ∈ l2a ∧ r = errRes k

def QC (o : Obs) (l : List Obs) : Prop :=
  match o with
  | .replied c r => (r = .okNil → ConclOk c l) ∧ (r ≠ .okNil → ConclErr c r l)
  | _ => True

theorem QC_of_not_replied {o : Obs} (h : ∀ c r, o ≠ .replied c r) (l : List Obs) : QC o l := by
  cases o <;> simp [QC]
  rename_i c r
  exact absurd rfl (h c r)

theorem QC_of_clientObs {o : Obs} (h : clientObs o = true) (l : List Obs) : QC o l := by
  apply QC_of_not_replied
  intro c r e
  subst e
  simp [clientObs] at h

theorem UpdOne.concl {log : List Obs} {c : Nat} (h : UpdOne log c) : ConclOk c log := by
  obtain ⟨src, v, ver, skip, h1, h2, h3⟩ := h
  obtain ⟨l2b, e, ha⟩ := split_of_lastUpd h1
  exact ⟨sinceUpd log, l2b, src, v, ver, skip, e, ha, h2, h3⟩

theorem UpdErr.concl {log : List Obs} {c : Nat} {k : ErrK} (h : UpdErr log c) (hk : .reject k (some c) ∈ sinceUpd log) :
    ConclErr c (errRes k) log := by
  obtain ⟨src, v, h1, h2⟩ := h
  obtain ⟨l2b, e, ha⟩ := split_of_lastUpd h1
  exact ⟨sinceUpd log, l2b, src, v, k, e, ha, h2, hk, rfl⟩

theorem pcC_of_idle_or_wake {m : MonPc} (h : m.idle = true ∨ monWake m = true) (view : Version) (slots : Slots)
    (log : List Obs) : pcC m view slots log := by
  cases m <;> simp [MonPc.idle, monWake] at h <;> simp [pcC]

structure InvC (s : State) : Prop where
  pc : pcC s.mon s.view s.slots s.log
  log : AllSuffix QC s.log

theorem InvC.init (P : Params) (sl : Slots) (w : List Bool) : InvC (initState P sl w) :=
  ⟨by simp [initState, pcC], by simp [initState]⟩

theorem InvC.frame {s s' : State} (hf : Frame s s') (hi : InvC s) : InvC s' := by
  obtain ⟨new, hlog, hnew⟩ := hf.log
  refine ⟨?_, ?_⟩
  · rcases hf.mon with e | ⟨_, e⟩
    · rw [e, hf.view, hf.slots, hlog]
      exact hi.pc.prepend (all_plain_of_clientObs hnew)
    · exact pcC_of_idle_or_wake e _ _ _
  · rw [hlog]
    exact AllSuffix.append (fun o ho l => QC_of_clientObs (List.all_eq_true.mp hnew o ho) l) hi.log

theorem InvC.of_eff {s s' : State} {vw : Version} {sl : Slots} {sk : Bool} {m : MonPc}
    {lg : List Obs} (eff : MonEff s s' vw sl sk m lg) (h1 : pcC m vw sl lg) (h2 : AllSuffix QC lg) : InvC s' := by
  refine ⟨?_, ?_⟩
  · rw [eff.mon, eff.view, eff.slots, eff.log]; exact h1
  · rw [eff.log]; exact h2

theorem InvC.next {W : World} {s s' : State} {l : Label} (hi : InvC s) (h : step W s l = some s') : InvC s' := by
  rcases label_cases l with hl | ⟨ch, rfl⟩
  · exact hi.frame (frame_step h hl)
  simp only [step] at h
  have hlog := hi.log
  have hpc := hi.pc
  cases hm : s.mon with
  | top => exact hi.frame (frame_runMon_top hm h)
  | sel => simp [runMon, hm] at h
  | finished => simp [runMon, hm] at h
  | gotValue src v reply =>
    refine InvC.of_eff (runMon_gotValue hm h) ?_ (by simpa [QC] using hlog)
    have hu : ∀ c, reply = some c → UpdNo (.gotUpd src v reply :: s.log) c (setSlot s.slots src v) := by
      intro c hc; subst hc
      exact ⟨src, v, by simp, by simp, setSlot_get _ _ _⟩
    split
    · exact fun c hc => (hu c hc).toErr
    · split
      · exact ⟨rfl, hu⟩
      · exact ⟨rfl, hu⟩
  | verifyUpd sl reply =>
    rw [hm] at hpc
    simp only [pcC] at hpc
    have hp : [Obs.verify sl (W.valid sl) false].all plain = true := rfl
    refine InvC.of_eff (runMon_verifyUpd hm h) ?_ (by simpa [QC] using hlog)
    split
    · exact ⟨hpc.1, fun c hc => (hpc.2 c hc).prepend hp⟩
    · exact fun c hc => ((hpc.2 c hc).prepend hp).toErr
  | submitErr k new reply =>
    rw [hm] at hpc
    simp only [pcC] at hpc
    obtain ⟨o, ho, eff⟩ := runMon_submitErr hm h
    have hp : [Obs.reject k reply, o].all plain = true := by rcases ho with rfl | rfl <;> rfl
    have hq : AllSuffix QC (Obs.reject k reply :: o :: s.log) := by
      rcases ho with rfl | rfl <;> simpa [QC] using hlog
    refine InvC.of_eff eff ?_ hq
    split
    · rename_i c
      refine ⟨(hpc c rfl).prepend hp, ?_⟩
      have : sinceUpd ([Obs.reject k (some c), o] ++ s.log) = [Obs.reject k (some c), o] ++ sinceUpd s.log :=
        sinceUpd_append_plain hp _
      rw [show Obs.reject k (some c) :: o :: s.log = [Obs.reject k (some c), o] ++ s.log from rfl, this]
      simp
    · trivial
  | replyErr k c =>
    rw [hm] at hpc
    simp only [pcC] at hpc
    obtain ⟨new, hn, eff⟩ := runMon_replyErr hm h
    refine InvC.of_eff eff trivial ?_
    refine AllSuffix.append (fun o ho l => QC_of_clientObs (List.all_eq_true.mp hn o ho) l) ?_
    simp only [AllSuffix_cons, QC]
    refine ⟨⟨fun e => ?_, fun _ => hpc.1.concl hpc.2⟩, hlog⟩
    cases k <;> cases e
  | store sl reply =>
    rw [hm] at hpc
    simp only [pcC] at hpc
    refine InvC.of_eff (runMon_store hm h) ?_ (by simpa [QC] using hlog)
    refine ⟨hpc.1, by simp [Facts.nextSerial], fun c hc => ?_⟩
    obtain ⟨src, v, h1, h2, h3⟩ := hpc.2 c hc
    have hi' : isGotUpd (Obs.install ⟨Facts.nextSerial s.view.serial, sl⟩ s.skipVerify) = false := rfl
    refine ⟨src, v, ⟨Facts.nextSerial s.view.serial, sl⟩, s.skipVerify, ?_, ?_, h3⟩
    · rw [lastUpd_cons_not hi', h1]
    · rw [sinceUpd_cons_not hi', List.filter_cons, h2]; rfl
  | events old reply =>
    rw [hm] at hpc
    simp only [pcC] at hpc
    refine InvC.of_eff (runMon_events hm h) ?_ hlog
    split
    · exact ⟨hpc.1, hpc.2.1, hpc.2.2 _ rfl⟩
    · trivial
  | replyOk old c =>
    rw [hm] at hpc
    simp only [pcC] at hpc
    obtain ⟨new, hn, eff⟩ := runMon_replyOk hm h
    refine InvC.of_eff eff trivial ?_
    refine AllSuffix.append (fun o ho l => QC_of_clientObs (List.all_eq_true.mp hn o ho) l) ?_
    simp only [AllSuffix_cons, QC]
    exact ⟨⟨fun _ => hpc.2.2.concl, fun e => absurd rfl e⟩, hlog⟩
  | submitNew old =>
    obtain ⟨o, ho, eff⟩ := runMon_submitNew hm h
    exact InvC.of_eff eff trivial (by rcases ho with rfl | rfl <;> simpa [QC] using hlog)
  | gotSrcErr e =>
    refine InvC.of_eff (runMon_gotSrcErr hm h) ?_ ?_
    · split <;> trivial
    · split
      · simpa [QC] using hlog
      · exact hlog
  | submitSrcErr e =>
    obtain ⟨o, ho, eff⟩ := runMon_submitSrcErr hm h
    exact InvC.of_eff eff trivial (by rcases ho with rfl | rfl <;> simpa [QC] using hlog)
  | gotDone src =>
    obtain ⟨m, hm', eff⟩ := runMon_gotDone hm h
    exact InvC.of_eff eff (by rcases hm' with rfl | rfl <;> trivial) hlog
  | gotEnable c tok =>
    refine InvC.of_eff (runMon_gotEnable hm h) ?_ hlog
    split <;> trivial
  | verifyEnable c tok =>
    exact InvC.of_eff (runMon_verifyEnable hm h) trivial (by simpa [QC] using hlog)
  | enableReply c tok ok noop =>
    obtain ⟨new, hn, eff⟩ := runMon_enableReply hm h
    refine InvC.of_eff eff trivial ?_
    refine AllSuffix.append (fun o ho l => QC_of_clientObs (List.all_eq_true.mp hn o ho) l) ?_
    split
    · exact hlog
    · simpa [QC] using hlog
  | exit =>
    exact InvC.of_eff (runMon_exit hm h) trivial (by simpa [QC] using hlog)

theorem InvC.reachable {W : World} {P : Params} {sl : Slots} {w : List Bool} {s : State}
    (hr : Reachable W P sl w s) : InvC s :=
  reachable_inv (InvC.init P sl w) (fun _ _ _ hi h => hi.next h) hr

/-! ### invariant B: nothing related to enabling happens before `EnableVerification` is called -/

def notCtl : CSt → Prop
  | .sendCtl _ => False
  | .waitResp _ => False
  | _ => True

def Called (log : List Obs) : Prop := ∃ c, Obs.enableCalled c ∈ log

/-- pcs the monitor cannot be at before the first enable call -/
def monNoEn : MonPc → Bool
  | .verifyUpd _ _ | .gotEnable _ _ | .verifyEnable _ _ | .enableReply _ _ _ _ => false
  | _ => true

def ClOK (s s' : State) : Prop := (∀ p ∈ s.clients, notCtl p.2) → ∀ p ∈ s'.clients, notCtl p.2

structure FB (s s' : State) : Prop where
  grow : ∃ new, s'.log = new ++ s.log
  keep : Called s'.log ∨ (s'.monCtl = s.monCtl ∧ ClOK s s' ∧ (s'.mon = s.mon ∨ monNoEn s'.mon = true))

theorem Called.grow {l new : List Obs} (h : Called l) : Called (new ++ l) := by
  obtain ⟨c, hc⟩ := h
  exact ⟨c, List.mem_append_right _ hc⟩

theorem FB.refl (s : State) : FB s s := ⟨⟨[], rfl⟩, .inr ⟨rfl, id, .inl rfl⟩⟩

theorem FB.trans {s s' s'' : State} (h1 : FB s s') (h2 : FB s' s'') : FB s s'' := by
  obtain ⟨n1, e1⟩ := h1.grow
  obtain ⟨n2, e2⟩ := h2.grow
  refine ⟨⟨n2 ++ n1, by rw [e2, e1, List.append_assoc]⟩, ?_⟩
  rcases h2.keep with c2 | ⟨a2, b2, m2⟩
  · exact .inl c2
  rcases h1.keep with c1 | ⟨a1, b1, m1⟩
  · exact .inl (e2 ▸ c1.grow)
  refine .inr ⟨a2.trans a1, fun h => b2 (b1 h), ?_⟩
  rcases m2 with m2 | m2
  · rcases m1 with m1 | m1
    · exact .inl (m2.trans m1)
    · exact .inr (m2 ▸ m1)
  · exact .inr m2

theorem FB.of_eq {s s' : State} (hl : s'.log = s.log) (hc : s'.monCtl = s.monCtl) (hcl : s'.clients = s.clients)
    (hm : s'.mon = s.mon ∨ monNoEn s'.mon = true) : FB s s' :=
  ⟨⟨[], by simp [hl]⟩, .inr ⟨hc, fun h => hcl ▸ h, hm⟩⟩

theorem fb_logAdd (s : State) (o : Obs) : FB s (s.logAdd o) :=
  ⟨⟨[o], rfl⟩, .inr ⟨rfl, id, .inl rfl⟩⟩

theorem fb_setClient (s : State) (c : Nat) {st : CSt} (h : notCtl st) : FB s (s.setClient c st) :=
  ⟨⟨[], rfl⟩, .inr ⟨rfl, fun hs => setC_all hs h, .inl rfl⟩⟩

theorem fb_blockClient (s : State) (c : Nat) {st : CSt} (h : notCtl st) : FB s (s.blockClient c st) := by
  refine ⟨⟨[], rfl⟩, .inr ⟨rfl, fun hs p hp => ?_, .inl rfl⟩⟩
  simp only [State.blockClient, List.mem_append, List.mem_filter, List.mem_singleton] at hp
  rcases hp with hp | rfl
  · exact hs p hp.1
  · exact h

theorem fb_ret (s : State) (c : Nat) (r : Res) : FB s (s.ret c r) :=
  ⟨⟨[.ret c r], rfl⟩, .inr ⟨rfl, fun hs => setC_all hs trivial, .inl rfl⟩⟩

theorem fb_waitOr (s : State) (c ctx : Nat) {st : CSt} (r : Res) (h : notCtl st) : FB s (s.waitOr c ctx st r) := by
  unfold State.waitOr
  split
  · exact fb_ret ..
  · exact fb_setClient _ _ h

theorem fb_finishEv (s : State) (ev : CbEv) : FB s (finishEv s ev) := by
  unfold finishEv
  split
  · exact FB.refl s
  · exact FB.refl s
  · exact FB.of_eq rfl rfl rfl (.inl rfl)
  · rename_i h c tok
    dsimp only
    have h1 : FB s { s with handles := s.handles.filter (fun x => x.1 != h), log := .unregProcessed h :: s.log } :=
      ⟨⟨[.unregProcessed h], rfl⟩, .inr ⟨rfl, id, .inl rfl⟩⟩
    split
    · split
      · exact h1.trans (fb_ret ..)
      · exact h1
    · exact h1

theorem fb_enqueueCb (s : State) (ev : CbEv) : FB s (enqueueCb s ev) := by
  unfold enqueueCb
  split <;> exact FB.of_eq rfl rfl rfl (.inl rfl)

theorem fb_admitCbSender (s : State) : FB s (admitCbSender s) := by
  unfold admitCbSender
  split
  · rename_i c ev ctx _
    dsimp only
    have h1 : FB s { s with cbch := s.cbch ++ [ev] } := FB.of_eq rfl rfl rfl (.inl rfl)
    split
    · exact h1.trans (fb_waitOr _ _ _ _ trivial)
    · exact h1.trans (fb_ret ..)
    · exact h1.trans (fb_ret ..)
  · exact FB.refl s

theorem fb_monTake_msg (s : State) (c : Nat) (m : Msg) : FB s (monTake s (.msg c m)) := by
  simp only [monTake]
  have h1 : FB s (match m with
    | .value src v reply => { s with mon := .gotValue src v reply }
    | .srcErr _ e => { s with mon := .gotSrcErr e }
    | .done src => { s with mon := .gotDone src }) := by
    split <;> exact FB.of_eq rfl rfl rfl (.inr rfl)
  split
  · exact h1.trans (fb_waitOr _ _ _ _ trivial)
  · exact h1.trans (fb_ret ..)

theorem fb_offerW (s : State) (c : Nat) (m : Msg) (ctx ch : Nat) : FB s (offerW s c m ctx ch) := by
  unfold offerW
  dsimp only
  split
  · exact (fb_setClient s c (st := .sendW m ctx) trivial).trans (fb_monTake_msg _ _ _)
  · split
    · exact fb_ret ..
    · exact fb_blockClient _ _ trivial

theorem fb_offerCb (s : State) (c : Nat) (ev : CbEv) (ctx ch : Nat) : FB s (offerCb s c ev ctx ch) := by
  unfold offerCb
  dsimp only
  split
  · exact fb_ret ..
  · split
    · split
      · exact (fb_enqueueCb s _).trans (fb_waitOr _ _ _ _ trivial)
      · exact (fb_enqueueCb s _).trans (fb_ret ..)
      · exact (fb_enqueueCb s _).trans (fb_ret ..)
    · split
      · exact fb_ret ..
      · exact fb_blockClient _ _ trivial

theorem fb_cancelCtx (s : State) (ctx : Nat) : FB s (cancelCtx s ctx) := by
  have hcl : ClOK s (cancelCtx s ctx) := by
    intro hs p hp
    have : ∃ q ∈ s.clients, p.2 = q.2 ∨ ∃ r, p.2 = .returned r := by
      unfold cancelCtx at hp
      dsimp only at hp
      split at hp <;>
      · simp only [List.mem_map] at hp
        obtain ⟨q, hq, rfl⟩ := hp
        refine ⟨q, hq, ?_⟩
        split <;> (try split) <;> first | exact .inl rfl | exact .inr ⟨_, rfl⟩
    obtain ⟨q, hq, e | ⟨r, e⟩⟩ := this
    · rw [e]; exact hs q hq
    · rw [e]; trivial
  refine ⟨⟨[], by simp⟩, .inr ⟨by simp, hcl, ?_⟩⟩
  unfold cancelCtx
  dsimp only
  split
  · exact .inr rfl
  · exact .inl rfl

theorem waitOr_log_mem (s : State) (c ctx : Nat) (st : CSt) (r : Res) {o : Obs} (h : o ∈ s.log) :
    o ∈ (s.waitOr c ctx st r).log := by
  unfold State.waitOr
  split <;> simp [State.ret, State.setClient, h]

theorem fb_runCb {s s' : State} (h : runCb s = some s') : FB s s' := by
  unfold runCb at h
  split at h
  · split at h
    · injection h with h; subst h
      exact FB.trans (s' := cbTake { s with cbch := _ } _) (FB.of_eq rfl rfl rfl (.inl rfl)) (fb_admitCbSender _)
    · split at h <;> (injection h with h; subst h; exact FB.of_eq rfl rfl rfl (.inl rfl))
  · rename_i ev hev
    have fin : ∀ s2 : State, FB s s2 → ∀ s3, (match callsFor s2.handles s2.lastSerial s2.lastVersion ev with
        | [] => some { (finishEv s2 ev) with cb := .top }
        | c :: cs => some ({ s2 with cb := .calls (c :: cs) ev }.logAdd (.enter c))) = some s3 → FB s s3 := by
      intro s2 h12 s3 h
      split at h
      · injection h with h; subst h
        exact h12.trans ((fb_finishEv s2 ev).trans (FB.of_eq rfl rfl rfl (.inl rfl)))
      · injection h with h; subst h
        exact h12.trans ⟨⟨[.enter _], rfl⟩, .inr ⟨rfl, id, .inl rfl⟩⟩
    cases ev with
    | newCfg old new supp =>
      cases supp
      · exact fin { s with lastSerial := new.serial, lastVersion := some new.cfg }
          (FB.of_eq rfl rfl rfl (.inl rfl)) _ h
      · exact fin ({ s with lastSerial := new.serial, lastVersion := some new.cfg }.logAdd
            (.withheld (.newCfg old new true) s.skipVerify))
          (FB.trans (s' := { s with lastSerial := new.serial, lastVersion := some new.cfg })
          (FB.of_eq rfl rfl rfl (.inl rfl)) (fb_logAdd _ _)) _ h
    | watchErr k old new => exact fin s (FB.refl s) _ h
    | reg hd ser cfg => exact fin (s.logAdd (.regProcessed hd ser s.lastSerial)) (fb_logAdd _ _) _ h
    | unreg hd c tok => exact fin s (FB.refl s) _ h
  · injection h with h; subst h
    exact ⟨⟨[.enter _], rfl⟩, .inr ⟨rfl, id, .inl rfl⟩⟩
  · injection h with h; subst h
    exact FB.trans (fb_finishEv s _) (FB.of_eq rfl rfl rfl (.inl rfl))
  · cases h
  · injection h with h; subst h; exact FB.of_eq rfl rfl rfl (.inl rfl)
  · cases h
  · cases h

theorem fb_runClient {s s' : State} {c ch : Nat} (h : runClient s c ch = some s') : FB s s' := by
  have hf := frame_runClient h
  unfold runClient at h
  split at h
  · split at h
    · injection h with h; subst h
      exact (fb_ret s c _).trans (fb_logAdd _ _)
    · split at h
      · injection h with h; subst h
        exact FB.trans (s' := { s with events := none }) (FB.of_eq rfl rfl rfl (.inl rfl))
          ((fb_ret _ c _).trans (fb_logAdd _ _))
      · injection h with h; subst h; exact fb_ret ..
    · injection h with h; subst h; exact fb_offerW ..
    · injection h with h; subst h; exact fb_offerW ..
    · injection h with h; subst h; exact fb_offerW ..
    · injection h with h; subst h; exact fb_offerCb ..
    · injection h with h; subst h; exact fb_offerCb ..
    · split at h
      · injection h with h; subst h; exact fb_ret ..
      · obtain ⟨new, hnew, _⟩ := hf.log
        refine ⟨⟨new, hnew⟩, .inl ⟨c, ?_⟩⟩
        dsimp only at h
        split at h
        · split at h <;> (injection h with h; subst h; exact waitOr_log_mem _ _ _ _ _ (by simp [State.logAdd]))
        · split at h <;> (injection h with h; subst h; simp [State.logAdd, State.ret, State.blockClient])
  · cases h

theorem fb_step {W : World} {s s' : State} {l : Label} (h : step W s l = some s') (hl : ∀ ch, l ≠ .runMon ch) :
    FB s s' := by
  cases l with
  | «begin» c op ctx =>
    simp only [step] at h
    split at h
    · injection h with h; subst h; exact fb_setClient _ _ trivial
    · cases h
  | ack c =>
    simp only [step] at h
    split at h
    · injection h with h; subst h; exact fb_setClient _ _ trivial
    · cases h
  | runMon ch => exact absurd rfl (hl ch)
  | runCb => exact fb_runCb h
  | runClient c ch => exact fb_runClient h
  | cancel ctx =>
    simp only [step, Option.some.injEq] at h
    subst h; exact fb_cancelCtx ..

theorem fb_runMon_top {W : World} {s s' : State} {ch : Nat} (hm : s.mon = .top) (hctl : s.monCtl = [])
    (h : runMon W s ch = some s') : FB s s' := by
  simp only [runMon, hm] at h
  split at h
  · injection h with h; subst h
    exact FB.of_eq rfl rfl rfl (.inr rfl)
  · simp only [Option.map_eq_some_iff] at h
    obtain ⟨i, hi, h⟩ := h
    subst h
    have hmem : i ∈ readyIns s := List.mem_of_getElem? hi
    cases i with
    | ctx => exact FB.of_eq rfl rfl rfl (.inr rfl)
    | ctl c tok =>
      exfalso
      simp only [readyIns, hctl, List.append_nil, List.mem_append, List.mem_filterMap] at hmem
      rcases hmem with hmem | ⟨p, _, hp⟩
      · split at hmem <;> simp at hmem
      · split at hp <;> simp at hp
    | msg c m => exact fb_monTake_msg s c m

def QB (o : Obs) (l : List Obs) : Prop :=
  match o with
  | .verify _ _ _ => Called l
  | _ => True

theorem QB_of_clientObs {o : Obs} (h : clientObs o = true) (l : List Obs) : QB o l := by
  cases o <;> simp [clientObs] at h <;> simp [QB]

structure Quiet (s : State) : Prop where
  skip : s.skipVerify = true
  ctl : s.monCtl = []
  cl : ∀ p ∈ s.clients, notCtl p.2
  mon : monNoEn s.mon = true

structure InvB (s : State) : Prop where
  quiet : Called s.log ∨ Quiet s
  log : AllSuffix QB s.log

theorem InvB.init (P : Params) (hd : P.delay = true) (sl : Slots) (w : List Bool) : InvB (initState P sl w) :=
  ⟨.inr ⟨by simp [initState, Facts.initialSkipVerify, hd], rfl, by simp [initState], rfl⟩, by simp [initState]⟩

theorem InvB.frame {s s' : State} (hf : Frame s s') (hb : Called s.log ∨ FB s s') (hi : InvB s) : InvB s' := by
  obtain ⟨new, hlog, hnew⟩ := hf.log
  refine ⟨?_, ?_⟩
  · rcases hi.quiet with hc | hq
    · exact .inl (hlog ▸ hc.grow)
    · rcases hb with hc | hb
      · exact .inl (hlog ▸ hc.grow)
      rcases hb.keep with hc | ⟨a, b, m⟩
      · exact .inl hc
      · refine .inr ⟨hf.skip ▸ hq.skip, a ▸ hq.ctl, b hq.cl, ?_⟩
        rcases m with m | m
        · exact m ▸ hq.mon
        · exact m
  · rw [hlog]
    exact AllSuffix.append (fun o ho l => QB_of_clientObs (List.all_eq_true.mp hnew o ho) l) hi.log

theorem InvB.of_eff {s s' : State} {vw : Version} {sl : Slots} {sk : Bool} {m : MonPc} {lg : List Obs}
    (eff : MonEff s s' vw sl sk m lg) (hi : InvB s) (hgrow : ∃ new, lg = new ++ s.log)
    (hq : Quiet s → sk = true ∧ monNoEn m = true) (hl : AllSuffix QB lg) : InvB s' := by
  refine ⟨?_, eff.log ▸ hl⟩
  obtain ⟨new, hnew⟩ := hgrow
  rcases hi.quiet with hc | hqs
  · exact .inl (eff.log ▸ hnew ▸ hc.grow)
  · exact .inr ⟨eff.skip ▸ (hq hqs).1, eff.monCtl ▸ hqs.ctl, eff.cl notCtl (fun _ => trivial) hqs.cl,
      eff.mon ▸ (hq hqs).2⟩

theorem InvB.called_of_mon {s : State} (hi : InvB s) (hm : monNoEn s.mon = false) : Called s.log := by
  rcases hi.quiet with hc | hq
  · exact hc
  · rw [hq.mon] at hm; cases hm

theorem InvB.next {W : World} {s s' : State} {l : Label} (hi : InvB s) (h : step W s l = some s') : InvB s' := by
  rcases label_cases l with hl | ⟨ch, rfl⟩
  · exact hi.frame (frame_step h hl) (.inr (fb_step h hl))
  simp only [step] at h
  have hlog := hi.log
  cases hm : s.mon with
  | top =>
    refine hi.frame (frame_runMon_top hm h) ?_
    rcases hi.quiet with hc | hq
    · exact .inl hc
    · exact .inr (fb_runMon_top hm hq.ctl h)
  | sel => simp [runMon, hm] at h
  | finished => simp [runMon, hm] at h
  | gotValue src v reply =>
    refine InvB.of_eff (runMon_gotValue hm h) hi ⟨[_], rfl⟩ (fun hq => ⟨hq.skip, ?_⟩) (by simpa [QB] using hlog)
    rw [hq.skip]; split <;> rfl
  | verifyUpd sl reply =>
    have hc := hi.called_of_mon (by rw [hm]; rfl)
    refine InvB.of_eff (runMon_verifyUpd hm h) hi ⟨[_], rfl⟩ (fun hq => ?_) (by simpa [QB] using ⟨hc, hlog⟩)
    have := hq.mon; rw [hm] at this; cases this
  | submitErr k new reply =>
    obtain ⟨o, ho, eff⟩ := runMon_submitErr hm h
    refine InvB.of_eff eff hi ⟨[_, _], rfl⟩ (fun hq => ⟨hq.skip, ?_⟩) ?_
    · split <;> rfl
    · rcases ho with rfl | rfl <;> simpa [QB] using hlog
  | replyErr k c =>
    obtain ⟨new, hn, eff⟩ := runMon_replyErr hm h
    refine InvB.of_eff eff hi ⟨new ++ [.replied c (errRes k)], by simp⟩ (fun hq => ⟨hq.skip, rfl⟩) ?_
    exact AllSuffix.append (fun o ho l => QB_of_clientObs (List.all_eq_true.mp hn o ho) l) (by simpa [QB] using hlog)
  | store sl reply =>
    exact InvB.of_eff (runMon_store hm h) hi ⟨[_], rfl⟩ (fun hq => ⟨hq.skip, rfl⟩) (by simpa [QB] using hlog)
  | events old reply =>
    refine InvB.of_eff (runMon_events hm h) hi ⟨[], rfl⟩ (fun hq => ⟨hq.skip, ?_⟩) hlog
    split <;> rfl
  | replyOk old c =>
    obtain ⟨new, hn, eff⟩ := runMon_replyOk hm h
    refine InvB.of_eff eff hi ⟨new ++ [.replied c .okNil], by simp⟩ (fun hq => ⟨hq.skip, rfl⟩) ?_
    exact AllSuffix.append (fun o ho l => QB_of_clientObs (List.all_eq_true.mp hn o ho) l) (by simpa [QB] using hlog)
  | submitNew old =>
    obtain ⟨o, ho, eff⟩ := runMon_submitNew hm h
    refine InvB.of_eff eff hi ⟨[_], rfl⟩ (fun hq => ⟨hq.skip, rfl⟩) ?_
    rcases ho with rfl | rfl <;> simpa [QB] using hlog
  | gotSrcErr e =>
    refine InvB.of_eff (runMon_gotSrcErr hm h) hi ?_ (fun hq => ⟨hq.skip, ?_⟩) ?_
    · split
      · exact ⟨[_], rfl⟩
      · exact ⟨[], rfl⟩
    · split <;> rfl
    · split
      · simpa [QB] using hlog
      · exact hlog
  | submitSrcErr e =>
    obtain ⟨o, ho, eff⟩ := runMon_submitSrcErr hm h
    refine InvB.of_eff eff hi ⟨[_], rfl⟩ (fun hq => ⟨hq.skip, rfl⟩) ?_
    rcases ho with rfl | rfl <;> simpa [QB] using hlog
  | gotDone src =>
    obtain ⟨m, hm', eff⟩ := runMon_gotDone hm h
    refine InvB.of_eff eff hi ⟨[], rfl⟩ (fun hq => ⟨hq.skip, ?_⟩) hlog
    rcases hm' with rfl | rfl <;> rfl
  | gotEnable c tok =>
    refine InvB.of_eff (runMon_gotEnable hm h) hi ⟨[], rfl⟩ (fun hq => ?_) hlog
    have := hq.mon; rw [hm] at this; cases this
  | verifyEnable c tok =>
    have hc := hi.called_of_mon (by rw [hm]; rfl)
    refine InvB.of_eff (runMon_verifyEnable hm h) hi ⟨[_], rfl⟩ (fun hq => ?_) (by simpa [QB] using ⟨hc, hlog⟩)
    have := hq.mon; rw [hm] at this; cases this
  | enableReply c tok ok noop =>
    obtain ⟨new, hn, eff⟩ := runMon_enableReply hm h
    refine InvB.of_eff eff hi ?_ (fun hq => ?_) ?_
    · split
      · exact ⟨new, rfl⟩
      · exact ⟨new ++ [.enabled ok s.view], by simp⟩
    · have := hq.mon; rw [hm] at this; cases this
    · refine AllSuffix.append (fun o ho l => QB_of_clientObs (List.all_eq_true.mp hn o ho) l) ?_
      split
      · exact hlog
      · simpa [QB] using hlog
  | exit =>
    exact InvB.of_eff (runMon_exit hm h) hi ⟨[_], rfl⟩ (fun hq => ⟨hq.skip, rfl⟩) (by simpa [QB] using hlog)

theorem InvB.reachable {W : World} {P : Params} {sl : Slots} {w : List Bool} {s : State}
    (hr : Reachable W P sl w s) (hd : P.delay = true) : InvB s :=
  reachable_inv (InvB.init P hd sl w) (fun _ _ _ hi h => hi.next h) hr

/-- an entry logged before another one precedes it in the history -/
theorem before_of_split {log l1 l2 : List Obs} {a b : Obs} (h : log = l1 ++ b :: l2) (ha : a ∈ l2) :
    Before log.reverse a b := by
  obtain ⟨m1, m2, e⟩ := List.append_of_mem ha
  refine ⟨m2.reverse, m1.reverse, l1.reverse, ?_⟩
  rw [h, e]
  simp

end Dials.Runtime
