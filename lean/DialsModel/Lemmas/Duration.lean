/-
Lemmas about the Duration.String / ParseDuration models (Model/Duration.lean): the printed form of every int64
duration parses back to it.
-/
import DialsModel.Model.Duration
import DialsModel.Lemmas.Parse

namespace Dials.Parse
open Dials

set_option linter.unusedSimpArgs false

/-! ### reading digits -/

theorem leadDigits_digit (d : Nat) (hd : d < 10) (cs : Str) (v k : Nat) :
    leadDigits (digit d :: cs) v k = leadDigits cs (v * 10 + d) (k + 1) := by
  simp [leadDigits, digit_isDigit d hd, digit_toNat d hd]

theorem leadDigits_stop (c : Char) (cs : Str) (hc : isDigitA c = false) (v k : Nat) :
    leadDigits (c :: cs) v k = (v, k, c :: cs) := by
  simp [leadDigits, hc]

/-- where digit reading stops: the end of the text or a character that is no digit -/
def StopsDigits : Str → Prop
  | [] => True
  | c :: _ => isDigitA c = false

theorem leadDigits_stops (rest : Str) (h : StopsDigits rest) (v k : Nat) : leadDigits rest v k = (v, k, rest) := by
  cases rest with
  | nil => rfl
  | cons c cs => exact leadDigits_stop c cs h v k

theorem leadDigits_formatNat (n : Nat) : ∀ (v k : Nat) (rest : Str),
    leadDigits (formatNat n ++ rest) v k
      = leadDigits rest (v * 10 ^ (formatNat n).length + n) (k + (formatNat n).length) := by
  induction n using Nat.strongRecOn with
  | _ n ih =>
    intro v k rest
    by_cases h : n < 10
    · rw [formatNat_lt n h]
      simp [leadDigits_digit n h]
    · have hge : 10 ≤ n := by omega
      rw [formatNat_ge n hge, List.append_assoc, ih (n / 10) (by omega)]
      simp only [List.singleton_append, leadDigits_digit (n % 10) (by omega), List.length_append, List.length_singleton]
      congr 1
      · rw [Nat.pow_succ]
        have := Nat.div_add_mod n 10
        generalize 10 ^ (formatNat (n / 10)).length = P
        rw [Nat.add_mul, Nat.mul_assoc]
        omega

theorem formatNat_length_pos (n : Nat) : 0 < (formatNat n).length := by
  obtain ⟨d, rest, he, _, _⟩ := formatNat_shape n
  simp [he]

/-- the integer part of a group: its digits are read back as its value, whatever non-digit follows -/
theorem leadDigits_int (n : Nat) (rest : Str) (h : StopsDigits rest) :
    ∃ k, 0 < k ∧ leadDigits (formatNat n ++ rest) 0 0 = (n, k, rest) := by
  refine ⟨(formatNat n).length, formatNat_length_pos n, ?_⟩
  rw [leadDigits_formatNat, leadDigits_stops rest h]
  simp

theorem fullDigits_succ (p v : Nat) : fullDigits (p + 1) v = fullDigits p (v / 10) ++ [digit (v % 10)] := rfl

theorem mod_pow_succ (v p : Nat) : v % 10 ^ (p + 1) = v % 10 + 10 * (v / 10 % 10 ^ p) := by
  rw [Nat.pow_succ, Nat.mul_comm, Nat.mod_mul]

theorem leadDigits_fullDigits (p : Nat) : ∀ (v a k : Nat) (rest : Str),
    leadDigits (fullDigits p v ++ rest) a k = leadDigits rest (a * 10 ^ p + v % 10 ^ p) (k + p) := by
  induction p with
  | zero => intro v a k rest; simp [fullDigits, Nat.mod_one]
  | succ p ih =>
    intro v a k rest
    rw [fullDigits_succ, List.append_assoc, ih]
    simp only [List.singleton_append, leadDigits_digit (v % 10) (by omega)]
    congr 1
    · rw [mod_pow_succ, Nat.pow_succ]
      generalize 10 ^ p = P
      generalize v / 10 % P = Q
      rw [Nat.add_mul, Nat.mul_assoc]
      omega

/-- fmtFrac's digits are read back as a numerator `f` over `10^k` with `f * 10^(p-k)` the printed fraction -/
theorem trimDigits_read (p : Nat) : ∀ v, v % 10 ^ p ≠ 0 →
    ∃ k f, 0 < k ∧ k ≤ p ∧ 0 < f ∧ f * 10 ^ (p - k) = v % 10 ^ p ∧ trimDigits p v ≠ [] ∧
      ∀ (rest : Str), StopsDigits rest → leadDigits (trimDigits p v ++ rest) 0 0 = (f, k, rest) := by
  induction p with
  | zero => intro v h; simp [Nat.mod_one] at h
  | succ p ih =>
    intro v h
    by_cases h0 : v % 10 = 0
    · have hm := mod_pow_succ v p
      have hne : v / 10 % 10 ^ p ≠ 0 := by
        intro hz
        rw [hz, h0] at hm
        exact h (by simpa using hm)
      obtain ⟨k, f, hk0, hkp, hf, hval, hnil, hread⟩ := ih (v / 10) hne
      refine ⟨k, f, hk0, by omega, hf, ?_, by simpa [trimDigits, h0] using hnil, ?_⟩
      · rw [hm, h0, ← hval, show p + 1 - k = (p - k) + 1 by omega, Nat.pow_succ]
        generalize 10 ^ (p - k) = P
        rw [← Nat.mul_assoc]
        omega
      · intro rest hs
        simpa [trimDigits, h0] using hread rest hs
    · refine ⟨p + 1, v % 10 ^ (p + 1), by omega, by omega, Nat.pos_of_ne_zero h, by simp, ?_, ?_⟩
      · simp [trimDigits, h0, fullDigits]
      · intro rest hs
        simp only [trimDigits, h0, if_false]
        rw [leadDigits_fullDigits, leadDigits_stops rest hs]
        simp

theorem trimDigits_zero (p : Nat) : ∀ v, v % 10 ^ p = 0 → trimDigits p v = [] := by
  induction p with
  | zero => intro v _; rfl
  | succ p ih =>
    intro v h
    have hm := mod_pow_succ v p
    rw [h] at hm
    have h0 : v % 10 = 0 := by omega
    have h1 : v / 10 % 10 ^ p = 0 := by omega
    simp [trimDigits, h0, ih (v / 10) h1]

/-! ### one group: digits, optional fraction, unit -/

/-- where a unit stops: the end of the text, a digit or a period -/
def StopsUnit : Str → Prop
  | [] => True
  | c :: _ => (c == '.' || isDigitA c) = true

structure UnitSpec where
  name : Str
  unit : Nat
  p : Nat          -- decimal places Duration.String prints below this unit (0: none)

def UnitSpec.ok (U : UnitSpec) : Prop :=
  unitOf U.name = some U.unit ∧ (U.p = 0 ∨ U.unit = 10 ^ U.p) ∧ U.p ≤ 9 ∧ 0 < U.unit ∧
  (∃ c cs, U.name = c :: cs ∧ isDigitA c = false ∧ (c == '.') = false) ∧
  (∀ rest, StopsUnit rest → spanUnit (U.name ++ rest) = (U.name, rest))

theorem spanUnit_stop (rest : Str) (h : StopsUnit rest) : spanUnit rest = ([], rest) := by
  cases rest with
  | nil => rfl
  | cons c cs => simp only [StopsUnit] at h; simp [spanUnit, h]

theorem spanUnit_cons (c : Char) (cs : Str) (h : (c == '.' || isDigitA c) = false) :
    spanUnit (c :: cs) = (c :: (spanUnit cs).1, (spanUnit cs).2) := by
  simp [spanUnit, h]

def uNs : UnitSpec := ⟨['n', 's'], 1, 0⟩
def uUs : UnitSpec := ⟨microSign ++ ['s'], 1000, 3⟩
def uMs : UnitSpec := ⟨['m', 's'], 1000000, 6⟩
def uS : UnitSpec := ⟨['s'], 1000000000, 9⟩
def uM : UnitSpec := ⟨['m'], 60000000000, 0⟩
def uH : UnitSpec := ⟨['h'], 3600000000000, 0⟩

theorem uNs_ok : uNs.ok := by
  refine ⟨by decide, Or.inl rfl, by decide, by decide, ⟨'n', ['s'], rfl, by decide, by decide⟩, ?_⟩
  intro rest h
  simp [uNs, spanUnit_cons 'n' _ (by decide), spanUnit_cons 's' _ (by decide), spanUnit_stop rest h]

theorem uUs_ok : uUs.ok := by
  refine ⟨by decide, Or.inr (by decide), by decide, by decide, ⟨Char.ofNat 0xC2, [Char.ofNat 0xB5, 's'], rfl, by decide, by decide⟩, ?_⟩
  intro rest h
  simp [uUs, microSign, spanUnit_cons (Char.ofNat 0xC2) _ (by decide), spanUnit_cons (Char.ofNat 0xB5) _ (by decide),
    spanUnit_cons 's' _ (by decide), spanUnit_stop rest h]

theorem uMs_ok : uMs.ok := by
  refine ⟨by decide, Or.inr (by decide), by decide, by decide, ⟨'m', ['s'], rfl, by decide, by decide⟩, ?_⟩
  intro rest h
  simp [uMs, spanUnit_cons 'm' _ (by decide), spanUnit_cons 's' _ (by decide), spanUnit_stop rest h]

theorem uS_ok : uS.ok := by
  refine ⟨by decide, Or.inr (by decide), by decide, by decide, ⟨'s', [], rfl, by decide, by decide⟩, ?_⟩
  intro rest h
  simp [uS, spanUnit_cons 's' _ (by decide), spanUnit_stop rest h]

theorem uM_ok : uM.ok := by
  refine ⟨by decide, Or.inl rfl, by decide, by decide, ⟨'m', [], rfl, by decide, by decide⟩, ?_⟩
  intro rest h
  simp [uM, spanUnit_cons 'm' _ (by decide), spanUnit_stop rest h]

theorem uH_ok : uH.ok := by
  refine ⟨by decide, Or.inl rfl, by decide, by decide, ⟨'h', [], rfl, by decide, by decide⟩, ?_⟩
  intro rest h
  simp [uH, spanUnit_cons 'h' _ (by decide), spanUnit_stop rest h]

/-- a printed group - integer digits, fmtFrac's fraction, the unit - is parsed as its value -/
theorem parseComp_group (U : UnitSpec) (hU : U.ok) (v u : Nat) (rest : Str) (hr : StopsUnit rest)
    (hb : v * U.unit + u % 10 ^ U.p * (U.unit / 10 ^ U.p) ≤ two63) :
    parseComp (formatNat v ++ fracStr U.p u ++ U.name ++ rest)
      = .ok (v * U.unit + u % 10 ^ U.p * (U.unit / 10 ^ U.p)) rest := by
  obtain ⟨hunit, hp, hp9, hpos, ⟨c, cs, hname, hcd, hcp⟩, hspan⟩ := hU
  obtain ⟨d, r, hfmt, hd, _⟩ := formatNat_shape v
  have hvle : v * U.unit ≤ two63 := by omega
  have hv1 : v ≤ two63 := by
    have : v * 1 ≤ v * U.unit := Nat.mul_le_mul_left v hpos
    omega
  have hvdiv : ¬ v > two63 / U.unit := by
    have := (Nat.le_div_iff_mul_le hpos).2 hvle
    omega
  have hstopName : StopsDigits (U.name ++ rest) := by rw [hname]; exact hcd
  by_cases hz : u % 10 ^ U.p = 0
  · -- no fraction printed
    have hfrac : fracStr U.p u = [] := by simp [fracStr, trimDigits_zero U.p u hz]
    obtain ⟨k, hk, hread⟩ := leadDigits_int v (U.name ++ rest) hstopName
    have htext : formatNat v ++ fracStr U.p u ++ U.name ++ rest = digit d :: (r ++ (U.name ++ rest)) := by
      rw [hfrac, hfmt]; simp
    have hread' : leadDigits (digit d :: (r ++ (U.name ++ rest))) 0 0 = (v, k, U.name ++ rest) := by
      rw [← hread, hfmt]; simp
    rw [htext]
    simp only [parseComp, digit_isDigit d hd, Bool.or_true, Bool.not_true, Bool.false_eq_true, if_false, hread']
    have hk' : (k != 0) = true := by simp; omega
    simp only [hname, List.cons_append, hcp, Bool.false_eq_true, if_false]
    rw [← List.cons_append, ← hname, hspan rest hr]
    simp [hk', hname, hz, show ¬ v > two63 from by omega]
    rw [← hname, hunit]
    simp [hvdiv]
  · -- a fraction: the unit is 10^p
    have hp0 : U.p ≠ 0 := by
      intro h0; rw [h0] at hz; simp [Nat.mod_one] at hz
    have hu10 : U.unit = 10 ^ U.p := by
      cases hp with
      | inl h => exact absurd h hp0
      | inr h => exact h
    obtain ⟨k, f, hk0, hkp, hf, hval, hnil, hreadf⟩ := trimDigits_read U.p u hz
    have hfrac : fracStr U.p u = '.' :: trimDigits U.p u := by
      simp [fracStr, hnil]
    have hstopDot : StopsDigits ('.' :: (trimDigits U.p u ++ (U.name ++ rest))) := by
      show isDigitA '.' = false
      decide
    obtain ⟨k1, hk1, hread⟩ := leadDigits_int v ('.' :: (trimDigits U.p u ++ (U.name ++ rest))) hstopDot
    have htext : formatNat v ++ fracStr U.p u ++ U.name ++ rest
        = digit d :: (r ++ ('.' :: (trimDigits U.p u ++ (U.name ++ rest)))) := by
      rw [hfrac, hfmt]; simp
    have hread' : leadDigits (digit d :: (r ++ ('.' :: (trimDigits U.p u ++ (U.name ++ rest))))) 0 0
        = (v, k1, '.' :: (trimDigits U.p u ++ (U.name ++ rest))) := by
      rw [← hread, hfmt]; simp
    have hdiv1 : U.unit / 10 ^ U.p = 1 := by rw [hu10]; exact Nat.div_self (Nat.pow_pos (by decide))
    have hdivk : U.unit / 10 ^ k = 10 ^ (U.p - k) := by rw [hu10]; exact Nat.pow_div hkp (by decide)
    have hmodk : U.unit % 10 ^ k = 0 := by
      rw [hu10]; exact Nat.mod_eq_zero_of_dvd (Nat.pow_dvd_pow 10 hkp)
    rw [hdiv1, Nat.mul_one] at hb ⊢
    rw [htext]
    simp only [parseComp, digit_isDigit d hd, Bool.or_true, Bool.not_true, Bool.false_eq_true, if_false, hread']
    have hk' : (k1 != 0) = true := by simp; omega
    simp only [beq_self_eq_true, if_true, hreadf (U.name ++ rest) hstopName, hspan rest hr]
    have h18 : ¬ 18 < k := by omega
    simp [hk', hname, hf, h18, show ¬ v > two63 from by omega]
    rw [← hname, hunit]
    simp [hvdiv, hmodk, hdivk, hval, show ¬ v * U.unit + u % 10 ^ U.p > two63 from by omega]

theorem fracStr_zero (u : Nat) : fracStr 0 u = [] := by simp [fracStr, trimDigits]

/-- a group without a fraction (ns, m, h) -/
theorem parseComp_plain (U : UnitSpec) (hU : U.ok) (hp : U.p = 0) (v : Nat) (rest : Str) (hr : StopsUnit rest)
    (hb : v * U.unit ≤ two63) : parseComp (formatNat v ++ U.name ++ rest) = .ok (v * U.unit) rest := by
  have := parseComp_group U hU v 0 rest hr (by rw [hp]; simpa [Nat.mod_one] using hb)
  simpa [hp, fracStr_zero, Nat.mod_one] using this

/-! ### the loop -/

theorem parseLoop_nil (f d : Nat) : parseLoop (f + 1) [] d = .ok d := by simp [parseLoop]

theorem parseLoop_step (f : Nat) (s : Str) (d v : Nat) (rest : Str) (hs : s ≠ []) (hc : parseComp s = .ok v rest)
    (hb : d + v ≤ two63) : parseLoop (f + 1) s d = parseLoop f rest (d + v) := by
  have : s.isEmpty = false := by cases s <;> simp_all
  simp [parseLoop, this, hc, show ¬ d + v > two63 from by omega]

theorem parseLoop_mono : ∀ (f : Nat) (s : Str) (d r : Nat), parseLoop f s d = .ok r → ∀ g, f ≤ g → parseLoop g s d = .ok r := by
  intro f
  induction f with
  | zero => intro s d r h; simp [parseLoop] at h
  | succ f ih =>
    intro s d r h g hg
    obtain ⟨g', rfl⟩ : ∃ g', g = g' + 1 := ⟨g - 1, by omega⟩
    simp only [parseLoop] at h ⊢
    by_cases he : s.isEmpty = true
    · simpa [he] using h
    · simp only [he, Bool.false_eq_true, if_false] at h ⊢
      cases hc : parseComp s with
      | err => simp [hc] at h
      | ood => simp [hc] at h
      | ok v rest =>
        simp only [hc] at h ⊢
        by_cases hb : d + v > two63
        · simp [hb] at h
        · simp only [hb, if_false] at h ⊢
          exact ih rest (d + v) r h g' (by omega)

theorem formatNat_ne_nil (n : Nat) : formatNat n ≠ [] := by
  obtain ⟨d, rest, he, _, _⟩ := formatNat_shape n
  simp [he]

theorem formatNat_stopsUnit (n : Nat) (tail : Str) : StopsUnit (formatNat n ++ tail) := by
  obtain ⟨d, rest, he, hd, _⟩ := formatNat_shape n
  rw [he]
  simp [StopsUnit, digit_isDigit d hd]

/-- the printed form of a positive duration (in nanoseconds, at most 1<<63) is parsed back to it -/
theorem parseLoop_fmt (u : Nat) (hu : 0 < u) (hle : u ≤ two63) :
    ∃ f0, f0 ≤ (fmtDurationNat u).length + 1 ∧ parseLoop f0 (fmtDurationNat u) 0 = .ok u := by
  have h2 : two63 = 9223372036854775808 := rfl
  unfold fmtDurationNat
  by_cases c0 : u = 0
  · omega
  simp only [c0, if_false]
  by_cases c1 : u < 1000
  · simp only [c1, if_true]
    refine ⟨2, by have := formatNat_length_pos u; simp only [List.length_append, List.length_cons, List.length_nil, microSign]; omega, ?_⟩
    have hc := parseComp_plain uNs uNs_ok rfl u [] trivial (by simp [uNs]; omega)
    simp only [uNs, List.append_nil] at hc
    rw [parseLoop_step 1 _ 0 _ [] (by simp [formatNat_ne_nil]) hc (by omega), parseLoop_nil]
    simp
  simp only [c1, if_false]
  by_cases c2 : u < 1000000
  · simp only [c2, if_true]
    refine ⟨2, by have := formatNat_length_pos (u / 1000); simp only [List.length_append, List.length_cons, List.length_nil, microSign]; omega, ?_⟩
    have hc := parseComp_group uUs uUs_ok (u / 1000) u [] trivial (by simp [uUs]; omega)
    simp only [uUs, List.append_nil] at hc
    rw [List.append_assoc _ microSign, parseLoop_step 1 _ 0 _ [] (by simp [formatNat_ne_nil]) hc (by simp; omega), parseLoop_nil]
    simp; omega
  simp only [c2, if_false]
  by_cases c3 : u < 1000000000
  · simp only [c3, if_true]
    refine ⟨2, by have := formatNat_length_pos (u / 1000000); simp only [List.length_append, List.length_cons, List.length_nil, microSign]; omega, ?_⟩
    have hc := parseComp_group uMs uMs_ok (u / 1000000) u [] trivial (by simp [uMs]; omega)
    simp only [uMs, List.append_nil] at hc
    rw [parseLoop_step 1 _ 0 _ [] (by simp [formatNat_ne_nil]) hc (by simp; omega), parseLoop_nil]
    simp; omega
  simp only [c3, if_false]
  -- at least a second
  have hS := parseComp_group uS uS_ok (u / 1000000000 % 60) u [] trivial (by simp [uS]; omega)
  simp only [uS, List.append_nil] at hS
  by_cases cm : u / 1000000000 / 60 = 0
  · simp only [cm, if_true]
    refine ⟨2, by have := formatNat_length_pos (u / 1000000000 % 60); simp only [List.length_append, List.length_cons, List.length_nil, microSign]; omega, ?_⟩
    rw [parseLoop_step 1 _ 0 _ [] (by simp [formatNat_ne_nil]) hS (by simp; omega), parseLoop_nil]
    simp; omega
  simp only [cm, if_false]
  have hM := parseComp_plain uM uM_ok rfl (u / 1000000000 / 60 % 60)
    (formatNat (u / 1000000000 % 60) ++ fracStr 9 u ++ ['s']) (by
      rw [List.append_assoc]; exact formatNat_stopsUnit _ _) (by simp [uM]; omega)
  simp only [uM] at hM
  by_cases ch : u / 1000000000 / 60 / 60 = 0
  · simp only [ch, if_true]
    refine ⟨3, by
      have := formatNat_length_pos (u / 1000000000 % 60)
      have := formatNat_length_pos (u / 1000000000 / 60 % 60)
      simp only [List.length_append, List.length_cons, List.length_nil, microSign]; omega, ?_⟩
    rw [parseLoop_step 2 _ 0 _ _ (by simp [formatNat_ne_nil]) hM (by simp; omega),
      parseLoop_step 1 _ _ _ [] (by simp [formatNat_ne_nil]) hS (by simp; omega), parseLoop_nil]
    simp; omega
  simp only [ch, if_false]
  have hH := parseComp_plain uH uH_ok rfl (u / 1000000000 / 60 / 60)
    (formatNat (u / 1000000000 / 60 % 60) ++ ['m'] ++ (formatNat (u / 1000000000 % 60) ++ fracStr 9 u ++ ['s'])) (by
      rw [List.append_assoc]; exact formatNat_stopsUnit _ _) (by simp [uH]; omega)
  simp only [uH] at hH
  refine ⟨4, by
    have := formatNat_length_pos (u / 1000000000 % 60)
    have := formatNat_length_pos (u / 1000000000 / 60 % 60)
    have := formatNat_length_pos (u / 1000000000 / 60 / 60)
    simp only [List.length_append, List.length_cons, List.length_nil, microSign]; omega, ?_⟩
  rw [List.append_assoc (formatNat (u / 1000000000 / 60 / 60) ++ ['h']),
    parseLoop_step 3 _ 0 _ _ (by simp [formatNat_ne_nil]) hH (by simp; omega),
    parseLoop_step 2 _ _ _ _ (by simp [formatNat_ne_nil]) hM (by simp; omega),
    parseLoop_step 1 _ _ _ [] (by simp [formatNat_ne_nil]) hS (by simp; omega), parseLoop_nil]
  simp; omega

theorem digit_zero : digit 0 = '0' := rfl

theorem fmtDurationNat_head (u : Nat) : ∃ dd rest, fmtDurationNat u = digit dd :: rest ∧ dd < 10 ∧ rest ≠ [] := by
  have key : ∀ (n : Nat) (tail : Str), tail ≠ [] → ∃ dd rest, formatNat n ++ tail = digit dd :: rest ∧ dd < 10 ∧ rest ≠ [] := by
    intro n tail ht
    obtain ⟨d, r, he, hd, _⟩ := formatNat_shape n
    exact ⟨d, r ++ tail, by rw [he]; rfl, hd, by simp [ht]⟩
  unfold fmtDurationNat
  by_cases c0 : u = 0
  · exact ⟨0, ['s'], by simp [c0, digit_zero], by decide, by simp⟩
  simp only [c0, if_false]
  by_cases c1 : u < 1000
  · simp only [c1, if_true]; exact key _ _ (by simp)
  simp only [c1, if_false]
  by_cases c2 : u < 1000000
  · simp only [c2, if_true, List.append_assoc]; exact key _ _ (by simp)
  simp only [c2, if_false]
  by_cases c3 : u < 1000000000
  · simp only [c3, if_true, List.append_assoc]; exact key _ _ (by simp)
  simp only [c3, if_false]
  by_cases cm : u / 1000000000 / 60 = 0
  · simp only [cm, if_true, List.append_assoc]; exact key _ _ (by simp)
  simp only [cm, if_false]
  by_cases ch : u / 1000000000 / 60 / 60 = 0
  · simp only [ch, if_true, List.append_assoc]; exact key _ _ (by simp)
  simp only [ch, if_false, List.append_assoc]; exact key _ _ (by simp)

/-- time.ParseDuration on the printed form of a magnitude `u ≤ 1<<63`, behind an optional minus sign -/
theorem parseDuration_fmtNat (u : Nat) (hle : u ≤ two63) (neg : Bool) (hpos : neg = false → u < two63) :
    parseDuration (if neg then '-' :: fmtDurationNat u else fmtDurationNat u)
      = .ok (if neg then -(u : Int) else (u : Int)) := by
  obtain ⟨dd, rest, hhead, hdd, hrest⟩ := fmtDurationNat_head u
  have hminus : digit dd ≠ '-' := isDigit_ne (digit_isDigit dd hdd) '-' (by decide)
  have hplus : digit dd ≠ '+' := isDigit_ne (digit_isDigit dd hdd) '+' (by decide)
  have hnot0 : fmtDurationNat u ≠ ['0'] := by rw [hhead]; simp [hrest]
  have hne : (fmtDurationNat u).isEmpty = false := by rw [hhead]; rfl
  by_cases hu : u = 0
  · subst hu
    cases neg <;> decide
  have hloop : parseLoop ((fmtDurationNat u).length + 1) (fmtDurationNat u) 0 = .ok u := by
    obtain ⟨f0, hf0, h⟩ := parseLoop_fmt u (by omega) hle
    exact parseLoop_mono f0 _ 0 u h _ hf0
  cases neg with
  | true =>
    simp only [if_true, parseDuration, parseDurationCore, List.head?_cons, beq_self_eq_true, Bool.true_or, List.tail_cons, hnot0, if_false, hne,
      Bool.false_eq_true, hloop]
  | false =>
    have hlt := hpos rfl
    have h2 : two63 = 9223372036854775808 := rfl
    simp only [Bool.false_eq_true, if_false, parseDuration, parseDurationCore, hhead, List.head?_cons]
    have e1 : (some (digit dd) == some '-') = false := by simp [hminus]
    have e2 : (some (digit dd) == some '+') = false := by simp [hplus]
    simp only [e1, e2, Bool.or_false, Bool.false_eq_true, if_false]
    rw [← hhead]
    simp only [hnot0, if_false, hne, Bool.false_eq_true, hloop]
    simp [show ¬ u > two63 - 1 from by omega]

/-- the running total never exceeds 1<<63 -/
theorem parseLoop_bound : ∀ (f : Nat) (s : Str) (d r : Nat), d ≤ two63 → parseLoop f s d = .ok r → r ≤ two63 := by
  intro f
  induction f with
  | zero => intro s d r _ h; simp [parseLoop] at h
  | succ f ih =>
    intro s d r hd h
    simp only [parseLoop] at h
    by_cases he : s.isEmpty = true
    · simp only [he, if_true, DurN.ok.injEq] at h; omega
    · simp only [he, Bool.false_eq_true, if_false] at h
      cases hc : parseComp s with
      | err => simp [hc] at h
      | ood => simp [hc] at h
      | ok v rest =>
        simp only [hc] at h
        by_cases hb : d + v > two63
        · simp [hb] at h
        · simp only [hb, if_false] at h
          exact ih rest (d + v) r (by omega) h

end Dials.Parse
