/-
Symbolic execution of the ez script, schedule family `race = .queuedBefore` (generated pattern; see EzExec.lean).
-/
import DialsModel.Lemmas.EzExec

namespace Dials.Ez
open Dials Dials.Runtime

set_option maxRecDepth 8000
set_option linter.unusedSimpArgs false
set_option maxHeartbeats 1600000

/-- the file is read, stacks and verifies: ez returns the Dials -/
theorem ezRun_ok_queuedBefore (E : Env) (sch : Sched) (p v : Nat) (hs : sch.race = .queuedBefore)
    (h0 : E.W.stackOk (baseCfg E) = true) (hp : E.path (baseCfg E) = some p) (hd : E.decoder p = true)
    (hf : E.file p = some v) (h1 : E.W.stackOk (fullCfg E v) = true) (h2 : E.W.valid (fullCfg E v) = true) :
    summary E.W (ezRun E sch) =
      { err := none, view := some ⟨1, fullCfg E v⟩, events := some none, skip := some false
        verifies := [(fullCfg E v, true)], globals := [], later := [], received := [⟨1, fullCfg E v⟩], path := some p
        slots := some (fullCfg E v), idle := some E.watch, quiet := some true, room := some true } := by
  simp only [baseCfg, fullCfg, blankV] at hp h0 h1 h2
  obtain ⟨mp, cp, race, cw⟩ := sch
  subst hs
  rcases Bool.eq_false_or_eq_true E.watch with hw | hw <;>
  cases mp <;> cases cp <;> cases cw <;> ez_exec [hp, hd, hf, h0, h1, h2, hw]

end Dials.Ez
