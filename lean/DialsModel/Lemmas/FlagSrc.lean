/-
Helper lemmas for Props/C12.lean (flag sources).
-/
import DialsModel.Model.FlagSrc
import DialsModel.Lemmas.Parse

namespace Dials.FlagSrc
open Dials Dials.Tf Dials.Parse

/-! ### runFlag -/

theorem runFlag_nil (toks : TokTable) (r : Route) (st : FSt) : runFlag toks r st [] = .ok st := rfl

theorem runFlag_cons (toks : TokTable) (r : Route) (st : FSt) (o : Occ) (os : List Occ) :
    runFlag toks r st (o :: os) =
      (match setOne toks r st o with
       | .ok st' => runFlag toks r st' os
       | .err c => .err c
       | .panic c => .panic c) := rfl

theorem runFlag_single (toks : TokTable) (r : Route) (st : FSt) (o : Occ) :
    runFlag toks r st [o] = setOne toks r st o := by
  rw [runFlag_cons]
  cases setOne toks r st o <;> rfl

theorem runFlag_append (toks : TokTable) (r : Route) (xs ys : List Occ) : ∀ st,
    runFlag toks r st (xs ++ ys) =
      (match runFlag toks r st xs with
       | .ok st' => runFlag toks r st' ys
       | .err c => .err c
       | .panic c => .panic c) := by
  induction xs with
  | nil => intro st; rfl
  | cons x xs ih =>
    intro st
    rw [List.cons_append, runFlag_cons, runFlag_cons]
    cases setOne toks r st x with
    | ok st' => exact ih st'
    | err c => rfl
    | panic c => rfl

/-- a property of the flag's state that every accepted `Set` establishes / preserves -/
theorem runFlag_invariant (toks : TokTable) (r : Route) (P : FSt → Prop)
    (hstep : ∀ st o st', P st → setOne toks r st o = .ok st' → P st') :
    ∀ (os : List Occ) (st st' : FSt), P st → runFlag toks r st os = .ok st' → P st' := by
  intro os
  induction os with
  | nil =>
    intro st st' hp h
    rw [runFlag_nil] at h
    cases h
    exact hp
  | cons o os ih =>
    intro st st' hp h
    rw [runFlag_cons] at h
    cases hs : setOne toks r st o with
    | ok st1 =>
      rw [hs] at h
      exact ih st1 st' (hstep st o st1 hp hs) h
    | err c => rw [hs] at h; cases h
    | panic c => rw [hs] at h; cases h

/-- when every occurrence is accepted and acts on the (no longer defaulted) state as `step`, the run is the fold -/
theorem runFlag_fold (toks : TokTable) (r : Route) (step : Acc → Occ → Acc) :
    ∀ (os : List Occ) (a : Acc),
      (∀ o ∈ os, ∀ a, setOne toks r ⟨a, false⟩ o = .ok ⟨step a o, false⟩) →
      runFlag toks r ⟨a, false⟩ os = .ok ⟨os.foldl step a, false⟩ := by
  intro os
  induction os with
  | nil => intro a _; rfl
  | cons o os ih =>
    intro a h
    rw [runFlag_cons, h o (by simp) a, List.foldl_cons]
    exact ih (step a o) (fun x hx => h x (by simp [hx]))

theorem foldl_strs (g : List String → Occ → List String) (os : List Occ) : ∀ acc,
    os.foldl (fun (a : Acc) o => Acc.strs (g a.strsOf o)) (.strs acc) = .strs (os.foldl g acc) := by
  induction os with
  | nil => intro acc; rfl
  | cons o os ih => intro acc; simp only [List.foldl_cons, Acc.strsOf]; exact ih _

theorem foldl_pairs (g : List (String × String) → Occ → List (String × String)) (os : List Occ) : ∀ acc,
    os.foldl (fun (a : Acc) o => Acc.pairs (g a.pairsOf o)) (.pairs acc) = .pairs (os.foldl g acc) := by
  induction os with
  | nil => intro acc; rfl
  | cons o os ih => intro acc; simp only [List.foldl_cons, Acc.pairsOf]; exact ih _

theorem foldl_ints (g : List Int → Occ → List Int) (os : List Occ) : ∀ acc,
    os.foldl (fun (a : Acc) o => Acc.ints (g a.intsOf o)) (.ints acc) = .ints (os.foldl g acc) := by
  induction os with
  | nil => intro acc; rfl
  | cons o os ih => intro acc; simp only [List.foldl_cons, Acc.intsOf]; exact ih _

theorem foldl_append_flatMap {α β} (f : α → List β) (os : List α) : ∀ acc,
    os.foldl (fun a o => a ++ f o) acc = acc ++ os.flatMap f := by
  induction os with
  | nil => intro acc; simp
  | cons o os ih => intro acc; simp [ih, List.append_assoc]

/-! ### the helpers' `Set` on an accepted text -/

theorem helperReplaces_all :
    helperReplaces "StringSliceFlag" = true ∧ helperReplaces "StringSetFlag" = true ∧
    helperReplaces "MapStringStringSliceFlag" = true ∧ helperReplaces "MapStringStringFlag" = true ∧
    helperReplaces "SignedIntegralSliceFlag" = true ∧ helperReplaces "UnsignedIntegralSliceFlag" = true := by
  decide

theorem setOne_strSlice_ok {toks : TokTable} {st : FSt} {o : Occ} {items : List S}
    (h : stringSlice (o.text == "") (toks o.text).1 = .ok items) :
    setOne toks .strSlice st o =
      .ok ⟨.strs (if st.defaulted then items.map ofS else st.cur.strsOf ++ items.map ofS), false⟩ := by
  simp only [setOne, h, helperReplaces_all.1, Bool.and_true]

theorem setOne_strSet_ok {toks : TokTable} {st : FSt} {o : Occ} {items : List S}
    (h : stringSet (o.text == "") (toks o.text).1 = .ok items) :
    setOne toks .strSet st o =
      .ok ⟨.strs (if st.defaulted then items.map ofS else unionStrs st.cur.strsOf (items.map ofS)), false⟩ := by
  simp only [setOne, h, helperReplaces_all.2.1, Bool.and_true]

theorem setOne_mapSSlice_ok {toks : TokTable} {st : FSt} {o : Occ} {ps : List (S × S)}
    (h : mapStringStringSlice (toks o.text).2 = .ok ps) :
    setOne toks .mapSSlice st o =
      .ok ⟨.pairs (if st.defaulted then ps.map ofPair else st.cur.pairsOf ++ ps.map ofPair), false⟩ := by
  simp only [setOne, h, helperReplaces_all.2.2.1, Bool.and_true]

theorem setOne_mapSS_ok {toks : TokTable} {st : FSt} {o : Occ} {ps : List (S × S)}
    (h : mapStringString (toks o.text).2 = .ok ps) :
    setOne toks .mapSS st o =
      .ok ⟨.pairs (if st.defaulted then ps.map ofPair else mergePairs st.cur.pairsOf (ps.map ofPair)), false⟩ := by
  simp only [setOne, h, helperReplaces_all.2.2.2.1, Bool.and_true]

theorem setOne_intSlice_ok {toks : TokTable} {k : IntKind} {st : FSt} {o : Occ} {vs : List Int}
    (h : parseIntSlice k o.text.toList = .ok vs) :
    setOne toks (.intSlice k) st o =
      .ok ⟨.ints (if st.defaulted then vs else st.cur.intsOf ++ vs), false⟩ := by
  have hr : helperReplaces (if k.signed then "SignedIntegralSliceFlag" else "UnsignedIntegralSliceFlag") = true := by
    cases k.signed
    · exact helperReplaces_all.2.2.2.2.2
    · exact helperReplaces_all.2.2.2.2.1
  simp only [setOne, h, hr, Bool.and_true]

theorem isOk_elim {α} {x : Outcome α} (h : x.isOk = true) : ∃ a, x = .ok a := by
  cases x with
  | ok a => exact ⟨a, rfl⟩
  | err c => cases h
  | panic c => cases h

/-! ### set union and map merge -/

theorem putPair_any_key (a : List (String × String)) (kv : String × String) (k : String) :
    (putPair a kv).any (·.1 == k) = (a.any (·.1 == k) || kv.1 == k) := by
  unfold putPair
  by_cases hc : a.any (·.1 == kv.1) = true
  · simp only [hc, if_true]
    have hmap : (a.map fun p => if p.1 == kv.1 then kv else p).any (·.1 == k) = a.any (·.1 == k) := by
      rw [List.any_map]
      congr
      funext p
      by_cases hp : p.1 = kv.1 <;> simp [hp]
    rw [hmap]
    by_cases hk : kv.1 = k
    · subst hk; simp [hc]
    · simp [hk]
  · simp [hc, List.any_append]

/-! ### integer flags -/

theorem intFlagValue_std (k : IntKind) (text : String) :
    intFlagValue true k.signed 64 k text = parseNumber k text.toList := by
  cases hs : k.signed with
  | true =>
    simp only [intFlagValue, parseFlagInt, parseNumber, if_true, Facts.parseNumberBits, hs]
    cases parseInt 64 text.toList with
    | none => rfl
    | some v => cases k.inRange v <;> rfl
  | false =>
    simp only [intFlagValue, parseFlagInt, parseNumber, Bool.false_eq_true, if_false, Facts.parseNumberBits, hs]
    cases parseUint 64 text.toList with
    | none => rfl
    | some n => simp only [Option.map_some]; cases k.inRange (Int.ofNat n) <;> rfl

theorem intFlagValue_not_panic (c sg : Bool) (bits : Nat) (k : IntKind) (text e : String) :
    intFlagValue c sg bits k text ≠ .panic e := by
  unfold intFlagValue
  split
  · split
    · simp
    · split <;> simp
  · simp

theorem bits_le_64 (k : IntKind) : k.bits ≤ 64 := by cases k <;> decide

theorem pow_bits_le (k : IntKind) : (2 : Int) ^ (k.bits - 1) ≤ 2 ^ 63 := by cases k <;> decide

theorem pow_bits_le_nat (k : IntKind) : (2 : Nat) ^ k.bits ≤ 2 ^ 64 := by cases k <;> decide

theorem parseInt_of_lit {b : Nat} {s : Str} {v : Int} (hl : parseIntLit s = some v)
    (hr : -(2 ^ (b - 1) : Int) ≤ v ∧ v < (2 ^ (b - 1) : Int)) : parseInt b s = some v := by
  simp [parseInt, hl, hr]

theorem parseUint_of_lit {b : Nat} {s : Str} {n : Nat} (hl : parseUintLit s = some n)
    (hr : n < 2 ^ b) : parseUint b s = some n := by
  simp [parseUint, hl, hr]

/-- parsing with the leaf's own width: same accepted texts and values as `parseNumber` -/
theorem intFlagValue_own (c : Bool) (k : IntKind) (text : String) :
    (intFlagValue c k.signed k.bits k text).toOption = (parseNumber k text.toList).toOption := by
  cases hs : k.signed with
  | true =>
    simp only [intFlagValue, parseFlagInt, if_true]
    cases hp : parseInt k.bits text.toList with
    | some v =>
      obtain ⟨hl, hrange⟩ := parseInt_eq_some hp
      have hin : k.inRange v = true := (inRange_signed hs v).2 hrange
      rw [parseNumber_signed_some hs (parseInt_of_lit hl (inRange_signed_64 hs hin))]
      simp only [hin, if_true]
    | none =>
      cases hq : parseInt Facts.parseNumberBits text.toList with
      | none => rw [parseNumber_signed_none hs hq]
      | some v =>
        rw [parseNumber_signed_some hs hq]
        have hl := (parseInt_eq_some hq).1
        have hin : ¬ k.inRange v = true := by
          intro hin
          rw [parseInt_of_lit hl ((inRange_signed hs v).1 hin)] at hp
          cases hp
        simp only [hin]
        rfl
  | false =>
    simp only [intFlagValue, parseFlagInt, Bool.false_eq_true, if_false]
    cases hp : parseUint k.bits text.toList with
    | some n =>
      obtain ⟨hl, hrange⟩ := parseUint_eq_some hp
      have hin : k.inRange (Int.ofNat n) = true := (inRange_unsigned hs _).2 ⟨Int.natCast_nonneg n, hrange⟩
      have h64 := (inRange_unsigned_64 hs hin).2
      rw [parseNumber_unsigned_some hs (parseUint_of_lit hl h64)]
      simp only [Option.map_some, hin, if_true]
    | none =>
      cases hq : parseUint Facts.parseNumberBits text.toList with
      | none => rw [parseNumber_unsigned_none hs hq]; rfl
      | some n =>
        rw [parseNumber_unsigned_some hs hq]
        have hl := (parseUint_eq_some hq).1
        have hin : ¬ k.inRange (Int.ofNat n) = true := by
          intro hin
          rw [parseUint_of_lit hl ((inRange_unsigned hs _).1 hin).2] at hp
          cases hp
        simp only [hin]
        rfl

/-! ### Value: which translated field a flag writes to -/

theorem filter_zipIdx_nodup (names : List String) (n : String) : ∀ (j k : Nat), names.Nodup → names[j]? = some n →
    (names.zipIdx k).filter (·.1 == n) = [(n, k + j)] := by
  induction names with
  | nil => intro j k _ h; simp at h
  | cons x xs ih =>
    intro j k hnd h
    obtain ⟨hx, hnd'⟩ := List.nodup_cons.1 hnd
    rw [List.zipIdx_cons]
    cases j with
    | zero =>
      simp only [List.getElem?_cons_zero, Option.some.injEq] at h
      subst h
      have hrest : (xs.zipIdx (k + 1)).filter (·.1 == x) = [] := by
        rw [List.filter_eq_nil_iff]
        intro p hp hpx
        have : p.1 = x := by simpa using hpx
        exact hx (this ▸ List.fst_mem_of_mem_zipIdx hp)
      simp [hrest]
    | succ j' =>
      simp only [List.getElem?_cons_succ] at h
      have hne : x ≠ n := by
        intro he
        subst he
        exact hx (List.mem_of_getElem? h)
      have := ih j' (k + 1) hnd' h
      simp only [List.filter_cons, beq_iff_eq, hne, if_false, this]
      congr 2
      omega

theorem lastIdxOf_nodup (names : List String) (n : String) (j : Nat) (hnd : names.Nodup) (h : names[j]? = some n) :
    lastIdxOf names n = some j := by
  simp [lastIdxOf, filter_zipIdx_nodup names n j 0 hnd h]

theorem regIdxOf_nodup (regs : List Reg) (hnd : (regs.map (·.name)).Nodup) (j : Nat) (rj : Reg)
    (hj : regs[j]? = some rj) (hr : rj.route ≠ .unreg) : regIdxOf regs rj.name = some j := by
  unfold regIdxOf
  rw [List.findIdx?_eq_some_iff_getElem]
  obtain ⟨hlt, hget⟩ := List.getElem?_eq_some_iff.1 hj
  refine ⟨hlt, ?_, ?_⟩
  · rw [hget]; simp [hr]
  · intro i hij hp
    have hil : i < regs.length := by omega
    simp only [Bool.and_eq_true, beq_iff_eq] at hp
    have h1 : (regs.map (·.name))[i]? = some rj.name := by
      rw [List.getElem?_map, List.getElem?_eq_getElem hil]; simp [hp.2]
    have h2 : (regs.map (·.name))[j]? = some rj.name := by
      rw [List.getElem?_map, hj]; rfl
    have := lastIdxOf_nodup _ _ i hnd h1
    rw [lastIdxOf_nodup _ _ j hnd h2] at this
    cases this
    omega

/-! ### flags that were not given -/

theorem mapM'_ok_getElem? {α β} (f : α → Outcome β) : ∀ (xs : List α) (ys : List β), mapM' f xs = .ok ys →
    ∀ (i : Nat) (x : α), xs[i]? = some x → ∃ y, ys[i]? = some y ∧ f x = .ok y := by
  intro xs
  induction xs with
  | nil => intro ys _ i x hx; simp at hx
  | cons a as ih =>
    intro ys h i x hx
    unfold mapM' at h
    cases hfa : f a with
    | ok b =>
      rw [hfa] at h
      cases hrest : mapM' f as with
      | ok bs =>
        rw [hrest] at h
        cases h
        cases i with
        | zero =>
          simp only [List.getElem?_cons_zero, Option.some.injEq] at hx
          subst hx
          exact ⟨b, by simp, hfa⟩
        | succ i' =>
          simp only [List.getElem?_cons_succ] at hx ⊢
          exact ih bs hrest i' x hx
      | err c => rw [hrest] at h; cases h
      | panic c => rw [hrest] at h; cases h
    | err c => rw [hfa] at h; cases h
    | panic c => rw [hfa] at h; cases h

theorem flagResult_not_given (p : Pkg) (toks : TokTable) (reg : Reg) (occs : List Occ)
    (hno : ∀ o ∈ occs, o.name ≠ reg.name) : flagResult p toks reg occs = .ok none := by
  have he : occsOf reg.name occs = [] := by
    simp only [occsOf, List.filter_eq_nil_iff]
    intro o ho
    simpa using hno o ho
  have hv : p.visitAll = false := by cases p <;> decide
  simp [flagResult, he, hv]

theorem fieldVal_not_given (p : Pkg) (toks : TokTable) (regs : List Reg) (occs : List Occ)
    (results : List (Option Val)) (hres : mapM' (fun reg => flagResult p toks reg occs) regs = .ok results)
    (j : Nat) (rj : Reg) (hno : ∀ o ∈ occs, o.name ≠ rj.name) :
    fieldVal regs results j rj = .ok .nilv := by
  unfold fieldVal
  cases hri : regIdxOf regs rj.name with
  | none => rfl
  | some i =>
    simp only []
    unfold regIdxOf at hri
    obtain ⟨hil, hp, _⟩ := List.findIdx?_eq_some_iff_getElem.1 hri
    simp only [Bool.and_eq_true, beq_iff_eq] at hp
    obtain ⟨y, hy, hfy⟩ := mapM'_ok_getElem? _ regs results hres i regs[i] (List.getElem?_eq_getElem hil)
    rw [flagResult_not_given p toks regs[i] occs (by rw [hp.2]; exact hno)] at hfy
    cases hfy
    rw [hy]

/-- a successful `Value` went through the visit: per-flag results, then per-field values -/
theorem fieldVals_ok {p : Pkg} {toks : TokTable} {regs : List Reg} {occs : List Occ} {vals : List Val}
    (h : fieldVals p toks regs occs = .ok vals) :
    ∃ results, mapM' (fun reg => flagResult p toks reg occs) regs = .ok results ∧
      mapM' (fun (x : Reg × Nat) => fieldVal regs results x.2 x.1) regs.zipIdx = .ok vals := by
  unfold fieldVals at h
  split at h
  · cases h
  · cases h
  · split at h
    · cases h
    · split at h
      · exact ⟨_, by assumption, h⟩
      · cases h
      · cases h

/-! ### the flatten mangler's tags -/

theorem tagGet_tagSet_same (tags : List (String × String)) (k v : String) : tagGet (tagSet tags k v) k = some v := by
  induction tags with
  | nil => simp [tagSet, tagGet]
  | cons a r ih =>
    obtain ⟨k', v'⟩ := a
    by_cases hk : k' = k
    · simp [tagSet, hk, tagGet]
    · unfold tagGet at ih
      simp [tagSet, hk, tagGet, ih]

theorem tagGet_tagSet_other (tags : List (String × String)) (k k' v : String) (h : k ≠ k') :
    tagGet (tagSet tags k' v) k = tagGet tags k := by
  induction tags with
  | nil => simp [tagSet, tagGet, Ne.symm h]
  | cons a r ih =>
    obtain ⟨a, b⟩ := a
    unfold tagGet at ih
    by_cases hk : a = k'
    · subst hk
      simp [tagSet, tagGet, Ne.symm h]
    · by_cases hk2 : a = k
      · subst hk2
        simp [tagSet, h, tagGet]
      · simp [tagSet, hk, tagGet, hk2, ih]

/-- the outputs of one field of `flattenStruct` -/
def flatHere (cfg : FlattenCfg) (fuel : Nat) (fNames words' fPath : List String) (tags : List (String × String)) (nt : Ty) :
    Outcome (List FT) :=
  match stripPtrs nt with
  | .struct ifs => flattenStruct cfg fuel fNames words' fPath ifs.toList
  | _ => .ok [({ name := encode cfg.nameEnc fNames, tags := tags, anon := false }, nt)]

theorem flattenStruct_zero (cfg : FlattenCfg) (names words path : List String) (fs : List FT) :
    flattenStruct cfg 0 names words path fs = .err "fuel" := by
  simp only [flattenStruct]

theorem flattenStruct_nil (cfg : FlattenCfg) (fuel : Nat) (names words path : List String) :
    flattenStruct cfg (fuel + 1) names words path [] = .ok [] := by
  simp only [flattenStruct]

theorem flattenStruct_cons (cfg : FlattenCfg) (fuel : Nat) (names words path : List String) (nh : Hdr) (nt : Ty) (rest : List FT) :
    flattenStruct cfg (fuel + 1) names words path ((nh, nt) :: rest) =
      (match flattenGetTag cfg nh words (path ++ [nh.name]) with
       | .err c => .err c
       | .panic c => .panic c
       | .ok (tags, words') =>
         match flatHere cfg fuel (if nh.anon then names else names ++ [nh.name]) words' (path ++ [nh.name]) tags nt,
               flattenStruct cfg fuel names words path rest with
         | .ok a, .ok b => .ok (a ++ b)
         | .err c, _ => .err c
         | .panic c, _ => .panic c
         | _, .err c => .err c
         | _, .panic c => .panic c) := by
  simp only [flattenStruct, flatHere]
  rfl

theorem flattenGetTag_ok (cfg : FlattenCfg) (htag : cfg.tag ≠ "dialsfieldpath") (nh : Hdr) (words path : List String)
    (tags : List (String × String)) (words' : List String)
    (h : flattenGetTag cfg nh words path = .ok (tags, words')) :
    ∃ ws, (match tagGet nh.tags cfg.tag with
           | some tv => some [tv]
           | none => if nh.anon then some [] else (CaseConv.decodeGoCamel nh.name.toList).map (·.map strOf)) = some ws ∧
      words' = words ++ ws ∧ tagGet tags cfg.tag = some (encode cfg.tagEnc words') ∧
      (tagGet tags "dialsfieldpath").isSome = true := by
  unfold flattenGetTag at h
  have key : ∀ w, Outcome.ok (tagSet (tagSet nh.tags cfg.tag (encode cfg.tagEnc w)) "dialsfieldpath" (",".intercalate path), w)
      = Outcome.ok (tags, words') →
      words' = w ∧ tagGet tags cfg.tag = some (encode cfg.tagEnc words') ∧ (tagGet tags "dialsfieldpath").isSome = true := by
    intro w hw
    cases hw
    refine ⟨rfl, ?_, ?_⟩
    · rw [tagGet_tagSet_other _ _ _ _ htag, tagGet_tagSet_same]
    · rw [tagGet_tagSet_same]; rfl
  cases htg : tagGet nh.tags cfg.tag with
  | some tv =>
    rw [htg] at h
    obtain ⟨h1, h2, h3⟩ := key _ h
    exact ⟨[tv], rfl, h1, h2, h3⟩
  | none =>
    rw [htg] at h
    simp only [] at h ⊢
    by_cases ha : nh.anon = true
    · simp only [ha, if_true] at h ⊢
      obtain ⟨h1, h2, h3⟩ := key _ h
      exact ⟨[], rfl, by simpa using h1, h2, h3⟩
    · simp only [ha] at h ⊢
      cases hd : CaseConv.decodeGoCamel nh.name.toList with
      | none => rw [hd] at h; cases h
      | some wl =>
        rw [hd] at h
        obtain ⟨h1, h2, h3⟩ := key _ h
        exact ⟨wl.map strOf, rfl, h1, h2, h3⟩

/-! ### a token table for the non-vacuity examples of Props/C12.lean -/

/-- the texts "ab" and "c" scan to the canonical token streams of ["a","b"] / {a:1,b:2} and ["c"] / {b:3} -/
def exampleToks : TokTable := fun s =>
  if s == "ab" then (canonSlice ["a".toList, "b".toList], canonMap [("a".toList, "1".toList), ("b".toList, "2".toList)])
  else if s == "c" then (canonSlice ["c".toList], canonMap [("b".toList, "3".toList)])
  else ([], [])

end Dials.FlagSrc
