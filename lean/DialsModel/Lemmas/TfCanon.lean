/-
Flatten-canonical values (C10): an explicit description of the values the flatten mangler restores
(`Canon`), the proof that they are in the domain of `losslessFlatten` (`canon_flattenGood`), and the
transport of canonicity through the (recursing) alias layer (`alias_canon`), so that the flag / env
chains' round trip can be stated with hypotheses on the ORIGINAL values only.
-/
import DialsModel.Lemmas.TfChain

namespace Dials.Tf

mutual
/-- `v` is flatten-canonical for a type whose outer `d` pointers have been passed: looking through
pointers and struct fields (slices, arrays, maps are leaves), every struct value sits behind exactly
the pointers of its type, has canonical field values, and is allocated only if one of its fields is
set — otherwise the whole value is nil.  (A leaf holds any value.) -/
def CanonAt : Nat → Ty → Val → Prop
  | d, .ptr e, v => CanonAt (d + 1) e v
  | d, .struct ifs, v =>
    v = .nilv ∨ ∃ fvs, v = wrapPtrs d (.struct fvs) ∧ CanonFs ifs fvs ∧ anySet fvs = true
  | _, _, _ => True
def CanonFs : Fields → List Val → Prop
  | .nil, vs => vs = []
  | .cons _ _ _ t r, vs => ∃ v vs', vs = v :: vs' ∧ CanonAt 0 t v ∧ CanonFs r vs'
end

/-- flatten-canonical values of a field type -/
def Canon (f : FT) (v : Val) : Prop := CanonAt 0 f.2 v

@[simp] theorem CanonFs_nil : CanonFs .nil [] ↔ True := by simp [CanonFs]
@[simp] theorem CanonFs_cons (n : String) (tg : List (String × String)) (a : Bool) (t : Ty) (r : Fields)
    (v : Val) (vs : List Val) : CanonFs (.cons n tg a t r) (v :: vs) ↔ CanonAt 0 t v ∧ CanonFs r vs := by
  simp only [CanonFs]
  constructor
  · rintro ⟨v', vs', h, hc, hr⟩
    cases h
    exact ⟨hc, hr⟩
  · rintro ⟨hc, hr⟩
    exact ⟨v, vs, rfl, hc, hr⟩

theorem CanonFs_All2 : ∀ (fs : Fields) (vs : List Val), CanonFs fs vs → All2 Canon fs.toList vs
  | .nil, vs, h => by simp only [CanonFs] at h; subst h; simp [Fields.toList]
  | .cons n tg a t r, vs, h => by
    simp only [CanonFs] at h
    obtain ⟨v, vs', rfl, hc, hr⟩ := h
    simp only [Fields.toList, All2_cons]
    exact ⟨hc, CanonFs_All2 r vs' hr⟩

theorem All2_CanonFs : ∀ (fs : Fields) (vs : List Val), All2 Canon fs.toList vs → CanonFs fs vs
  | .nil, [], _ => by simp [CanonFs]
  | .nil, _ :: _, h => by simp [Fields.toList] at h
  | .cons n tg a t r, [], h => by simp [Fields.toList] at h
  | .cons n tg a t r, v :: vs, h => by
    simp only [Fields.toList, All2_cons] at h
    simp only [CanonFs]
    exact ⟨v, vs, rfl, h.1, All2_CanonFs r vs h.2⟩

theorem CanonAt_nilv : ∀ (t : Ty) (d : Nat), CanonAt d t .nilv
  | .ptr e, d => by simp only [CanonAt]; exact CanonAt_nilv e (d + 1)
  | .struct _, _ => by simp [CanonAt]
  | .basic _ _, _ => by simp [CanonAt]
  | .dur, _ | .pdur, _ | .tu _, _ | .slice _, _ | .array _ _, _ | .map _ _, _ | .set _, _ => by
    simp [CanonAt]

/-- canonicity in terms of the stripped type and the pointer depth (flatten's view) -/
theorem CanonAt_struct : ∀ (t : Ty) (d : Nat) (ifs : Fields) (v : Val), stripPtrs t = .struct ifs →
    (CanonAt d t v ↔ v = .nilv ∨ ∃ fvs, v = wrapPtrs (d + ptrDepth t) (.struct fvs) ∧ CanonFs ifs fvs ∧
      anySet fvs = true)
  | .ptr e, d, ifs, v, h => by
    simp only [stripPtrs] at h
    simp only [CanonAt, ptrDepth]
    rw [CanonAt_struct e (d + 1) ifs v h]
    have : d + 1 + ptrDepth e = d + (ptrDepth e + 1) := by omega
    rw [this]
  | .struct fs, d, ifs, v, h => by
    simp only [stripPtrs, Ty.struct.injEq] at h
    subst h
    simp [CanonAt, ptrDepth]
  | .basic _ _, _, _, _, h => by simp [stripPtrs] at h
  | .dur, _, _, _, h | .pdur, _, _, _, h | .tu _, _, _, _, h | .slice _, _, _, _, h
  | .array _ _, _, _, _, h | .map _ _, _, _, _, h | .set _, _, _, _, h => by simp [stripPtrs] at h

theorem wrapPtrs_struct_isNil (d : Nat) (fvs : List Val) : (wrapPtrs d (.struct fvs)).isNil = false := by
  cases d <;> simp [wrapPtrs, Val.isNil]

theorem anySet_cons (v : Val) (vs : List Val) : anySet (v :: vs) = (!v.isNil || anySet vs) := by
  simp [anySet]

theorem anySet_nils (n : Nat) : anySet (nils n) = false :=
  (anySet_false_iff _).2 (fun _ hx => mem_nils hx)

/-- the field loop of `populate` on the leaves of canonical field values -/
theorem canon_fields (fuel : Nat)
    (ih : ∀ t, tySize t < fuel + 1 → ∀ v rest, CanonAt 0 t v →
      populate (fuel + 1) t (flatLeaves (fuel + 1) t v ++ rest) = .ok (v, rest, !v.isNil) ∧
        (flatLeaves (fuel + 1) t v).length = leafN t) :
    ∀ (fs : List FT), (∀ f ∈ fs, tySize f.2 < fuel + 1) →
    ∀ fl, fs.length < fl → ∀ (fvs rest acc : List Val) (any : Bool), All2 Canon fs fvs →
      populate.fields (fuel + 1) fl fs (flatLeaves.go (fuel + 1) fl fs (some fvs) ++ rest) acc any =
          .ok (acc ++ fvs, rest, any || anySet fvs) ∧
        (flatLeaves.go (fuel + 1) fl fs (some fvs)).length = (fs.map fun f => leafN f.2).sum := by
  intro fs
  induction fs with
  | nil =>
    intro _ fl hfl fvs rest acc any hc
    cases fl with
    | zero => omega
    | succ fl =>
      cases fvs with
      | nil =>
        constructor
        · unfold flatLeaves.go populate.fields; simp [anySet]
        · unfold flatLeaves.go; rfl
      | cons _ _ => simp at hc
  | cons f fs ihfs =>
    intro hsz fl hfl fvs rest acc any hc
    cases fl with
    | zero => omega
    | succ fl =>
      cases fvs with
      | nil => simp at hc
      | cons x xs =>
        simp only [All2_cons] at hc
        obtain ⟨h1, h1l⟩ := ih f.2 (hsz f (by simp)) x
          (flatLeaves.go (fuel + 1) fl fs (some xs) ++ rest) hc.1
        obtain ⟨h2, h2l⟩ := ihfs (fun g hg => hsz g (by simp [hg])) fl
          (by simp at hfl; omega) xs rest (acc ++ [x]) (any || !x.isNil) hc.2
        constructor
        · rw [go_cons, populate_fields_step, List.append_assoc, h1]
          simp only
          rw [h2]
          simp [anySet_cons, Bool.or_assoc]
        · rw [go_cons, List.length_append, h1l, h2l]
          simp

/-- `populate` restores a canonical value from its leaves (and consumes exactly them) — for every type:
since the repair of P02 a struct held by value (pointer depth 0) is restored like one behind pointers
(no "every struct behind a pointer" hypothesis) -/
theorem populate_canon : ∀ (fuel : Nat) (t : Ty), tySize t < fuel →
    ∀ (v : Val) (rest : List Val), CanonAt 0 t v →
    populate fuel t (flatLeaves fuel t v ++ rest) = .ok (v, rest, !v.isNil) ∧
      (flatLeaves fuel t v).length = leafN t
  | 0, _, h => by omega
  | 1, t, h => by
    exfalso
    cases t <;> simp [tySize] at h
  | fuel + 2, t, h => by
    intro v rest hc
    cases hs : stripPtrs t with
    | struct ifs =>
      rw [CanonAt_struct t 0 ifs v hs] at hc
      rcases hc with rfl | ⟨fvs, rfl, hcf, hany⟩
      · -- unset: all leaves unset
        rw [flatLeaves_nilv (fuel + 2) t h]
        obtain ⟨v', hp, _, hv'⟩ := populate_spec (fuel + 2) t h (nils (leafN t)) rest (nils_length _)
        rw [hv' (fun _ hx => mem_nils hx), anySet_nils] at hp
        exact ⟨by simpa [Val.isNil] using hp, nils_length _⟩
      · have hsz : ∀ f ∈ ifs.toList, tySize f.2 < fuel + 1 := fun f hf => by
          have := tySize_field_lt hs hf; omega
        obtain ⟨hp, hl⟩ := canon_fields fuel (fun t' h' v' rest' hc' => populate_canon (fuel + 1) t' h' v' rest' hc')
          ifs.toList hsz (ifs.toList.length + 1) (by omega) fvs rest [] false
          (CanonFs_All2 ifs fvs hcf)
        simp only [Nat.zero_add]
        rw [flatLeaves_struct hs, strip_wrapPtrs, populate_struct hs, hp]
        simp only [List.nil_append, Bool.false_or, hany, if_true]
        refine ⟨?_, by rw [hl, leafN_of_struct hs]⟩
        simp [wrapPtrs_struct_isNil]
    | _ =>
      have hleaf : ∀ ifs, stripPtrs t ≠ .struct ifs := by intro ifs h'; rw [hs] at h'; cases h'
      rw [flatLeaves_leaf hleaf, populate_leaf hleaf, leafN_of_leaf hleaf]
      simp

/-- canonical values are in the domain of the flatten mangler's losslessness -/
theorem canon_flattenGood (fuel : Nat) (f : FT) (v : Val) (hsz : tySize f.2 < fuel)
    (hc : Canon f v) : flattenGood fuel f v := by
  obtain ⟨hp, hl⟩ := populate_canon fuel f.2 hsz v [] hc
  rw [List.append_nil] at hp
  exact ⟨flatLeaves fuel f.2 v, !v.isNil, hl, hp⟩

/-! ### canonicity passes through the alias layer -/

/-- the translated fields against the encoded groups, with the "some value set" flag -/
theorem canon_groups {S R : FT → Val → Prop} {F : FT → Outcome (List FT)} {eg : FT × Val → List Val}
    (hb : ∀ f v g, R f v → F f = .ok g → All2 S g (eg (f, v)) ∧ anySet (eg (f, v)) = !v.isNil) :
    ∀ (fs : List FT) (vs : List Val) (groups : List (List FT)), mapM' F fs = .ok groups → All2 R fs vs →
      All2 S groups.flatten ((fs.zip vs).map eg).flatten ∧ anySet ((fs.zip vs).map eg).flatten = anySet vs
  | [], [], groups, h, _ => by simp [mapM'] at h; subst h; simp
  | [], _ :: _, _, _, h => by simp at h
  | _ :: _, [], _, _, h => by simp at h
  | f :: fs, v :: vs, groups, h, hr => by
    obtain ⟨g, gs, hg, hgs, rfl⟩ := mapM'_cons_ok h
    simp only [All2_cons] at hr
    obtain ⟨h1, h1a⟩ := hb f v g hr.1 hg
    obtain ⟨h2, h2a⟩ := canon_groups hb fs vs gs hgs hr.2
    simp only [List.zip_cons_cons, List.map_cons, List.flatten_cons]
    exact ⟨All2.append h1 h2, by rw [anySet_append, h1a, h2a, anySet_cons]⟩

theorem recurseType_alias_struct {tags : List String} {fuel : Nat} {h : Hdr} {t : Ty} {ifs : Fields}
    {wrap : Ty → Ty} {o' : FT} (hs : structish t = some (ifs, wrap))
    (ht : recurseType (fuel + 1) (aliasMangler tags) (h, t) = .ok o') :
    ∃ r, mangleLayer fuel (aliasMangler tags) ifs.toList = .ok r ∧ o' = (h, wrap (.struct (Fields.ofList r))) := by
  simp only [recurseType, aliasMangler, hs, Bool.not_true, Bool.false_eq_true, if_false] at ht
  split at ht
  · rename_i r hr
    cases ht
    exact ⟨r, hr, rfl⟩
  · cases ht
  · cases ht

/-- TRANSPORT through alias: the alias encoding of flatten-canonical values is flatten-canonical for
the translated fields (an alias copy is unset, so no struct becomes set or unset) -/
theorem alias_canon (tags : List String) :
    ∀ (fuel : Nat),
      (∀ (fs fs' : List FT) (vs : List Val), mangleLayer fuel (aliasMangler tags) fs = .ok fs' →
        All2 (HG (aliasP tags)) fs vs → All2 Canon fs vs →
        All2 Canon fs' (encLayer (aliasMangler tags) (losslessAlias tags).enc fuel fs vs) ∧
          anySet (encLayer (aliasMangler tags) (losslessAlias tags).enc fuel fs vs) = anySet vs) ∧
      (∀ (o o' : FT) (w : Val), recurseType fuel (aliasMangler tags) o = .ok o' →
        Hered (aliasP tags) o.2 w → Canon o w →
        Canon o' (encVal (aliasMangler tags) (losslessAlias tags).enc fuel o w) ∧
          (encVal (aliasMangler tags) (losslessAlias tags).enc fuel o w).isNil = w.isNil)
  | 0 => by
    constructor
    · intro fs fs' vs hm; simp [mangleLayer] at hm
    · intro o o' w ht; simp [recurseType] at ht
  | fuel + 1 => by
    obtain ⟨ihP, ihQ⟩ := alias_canon tags fuel
    constructor
    · intro fs fs' vs hm hg hc
      obtain ⟨groups, hgr, rfl⟩ := mangleLayer_succ_ok hm
      rw [encLayer_succ]
      have hR : All2 (fun f v => HG (aliasP tags) f v ∧ Canon f v) fs vs :=
        All2.of_mem (All2.length hg) (fun f v hmem => ⟨All2.mem hg f v hmem, All2.mem hc f v hmem⟩)
      refine canon_groups (R := fun f v => HG (aliasP tags) f v ∧ Canon f v) ?_ fs vs groups hgr hR
      intro f v g hr hF
      obtain ⟨hgd, hcn⟩ := hr
      obtain ⟨h, t⟩ := f
      simp only [aliasMangler] at hF
      rcases aliasMangle_shape tags h t with ⟨ha, hs⟩ | ⟨ha, h1, h2, hs⟩
      · rw [hs] at hF
        simp only at hF
        obtain ⟨o', g', ho', hg', rfl⟩ := mapM'_cons_ok hF
        simp [mapM'] at hg'; subst hg'
        obtain ⟨q1, q2⟩ := ihQ (h, t) o' v ho' hgd.2 hcn
        have eg : encGroup (aliasMangler tags) (losslessAlias tags).enc fuel ((h, t), v) =
            [encVal (aliasMangler tags) (losslessAlias tags).enc fuel (h, t) v] := by
          simp [encGroup, aliasMangler, hs, losslessAlias, ha]
        rw [eg]
        exact ⟨by simp [q1], by simp [anySet, q2]⟩
      · rw [hs] at hF
        simp only at hF
        obtain ⟨o1', g', ho1', hg', rfl⟩ := mapM'_cons_ok hF
        obtain ⟨o2', g'', ho2', hg'', rfl⟩ := mapM'_cons_ok hg'
        simp [mapM'] at hg''; subst hg''
        obtain ⟨q1, q2⟩ := ihQ (h1, t) o1' v ho1' hgd.2 hcn
        obtain ⟨r1, r2⟩ := ihQ (h2, t) o2' .nilv ho2' (Hered_nilv _ (hgd.1 ha)) (CanonAt_nilv t 0)
        have eg : encGroup (aliasMangler tags) (losslessAlias tags).enc fuel ((h, t), v) =
            [encVal (aliasMangler tags) (losslessAlias tags).enc fuel (h1, t) v,
             encVal (aliasMangler tags) (losslessAlias tags).enc fuel (h2, t) .nilv] := by
          simp [encGroup, aliasMangler, hs, losslessAlias, ha]
        rw [eg]
        exact ⟨by simp [q1, r1], by rw [anySet_cons, anySet_cons, q2, r2]; simp [anySet, Val.isNil]⟩
    · intro o o' w ht hh hc
      obtain ⟨h, t⟩ := o
      have hrec : (aliasMangler tags).recurse = true := rfl
      cases hs : structish t with
      | none =>
        have : recurseType (fuel + 1) (aliasMangler tags) (h, t) = .ok (h, t) :=
          recurseType_id fuel _ (h, t) (Or.inr hs)
        rw [this] at ht; cases ht
        have : encVal (aliasMangler tags) (losslessAlias tags).enc (fuel + 1) (h, t) w = w := by
          simp [encVal, hrec, hs]
        rw [this]
        exact ⟨hc, rfl⟩
      | some x =>
        obtain ⟨ifs, wrap⟩ := x
        obtain ⟨r, hr, rfl⟩ := recurseType_alias_struct hs ht
        have hin : ∀ svs, HeredFs (aliasP tags) ifs svs → CanonFs ifs svs →
            CanonFs (Fields.ofList r) (encLayer (aliasMangler tags) (losslessAlias tags).enc fuel ifs.toList svs) ∧
              anySet (encLayer (aliasMangler tags) (losslessAlias tags).enc fuel ifs.toList svs) = anySet svs := by
          intro svs h1 h2
          obtain ⟨p1, p2⟩ := ihP ifs.toList r svs hr (HeredFs_All2 _ ifs svs h1) (CanonFs_All2 ifs svs h2)
          exact ⟨All2_CanonFs _ _ (by rw [toList_ofList]; exact p1), p2⟩
        simp only [Canon] at hc ⊢
        simp only at hh
        rcases structish_some hs with rfl | rfl | rfl | ⟨n, rfl⟩
        · simp only [structish, Option.some.injEq, Prod.mk.injEq, true_and] at hs
          subst hs
          simp only [Hered] at hh
          obtain ⟨svs, rfl, hf⟩ := hh
          simp only [CanonAt, wrapPtrs] at hc
          rcases hc with hc | ⟨fvs, he, hcf, hany⟩
          · cases hc
          · cases he
            obtain ⟨p1, p2⟩ := hin svs hf hcf
            simp only [encVal, hrec, structish, Bool.not_true, Bool.false_eq_true, if_false, id, CanonAt, wrapPtrs]
            exact ⟨Or.inr ⟨_, rfl, p1, by rw [p2, hany]⟩, rfl⟩
        · simp only [structish, Option.some.injEq, Prod.mk.injEq, true_and] at hs
          subst hs
          simp only [Hered] at hh
          rcases hh with rfl | ⟨svs, rfl, hf⟩
          · simp only [encVal, hrec, structish, Bool.not_true, Bool.false_eq_true, if_false]
            exact ⟨CanonAt_nilv _ 0, by first | rfl | trivial⟩
          · simp only [CanonAt, wrapPtrs] at hc
            rcases hc with hc | ⟨fvs, he, hcf, hany⟩
            · cases hc
            · cases he
              obtain ⟨p1, p2⟩ := hin svs hf hcf
              simp only [encVal, hrec, structish, Bool.not_true, Bool.false_eq_true, if_false, CanonAt, wrapPtrs]
              exact ⟨Or.inr ⟨_, rfl, p1, by rw [p2, hany]⟩, rfl⟩
        · simp only [structish, Option.some.injEq, Prod.mk.injEq, true_and] at hs
          subst hs
          simp only [Hered] at hh
          rcases hh with rfl | ⟨xs, rfl, _⟩
          · simp [encVal, hrec, structish, CanonAt]
          · simp [encVal, hrec, structish, CanonAt, Val.isNil]
        · simp only [structish, Option.some.injEq, Prod.mk.injEq, true_and] at hs
          subst hs
          simp only [Hered] at hh
          obtain ⟨xs, rfl, _⟩ := hh
          simp [encVal, hrec, structish, CanonAt, Val.isNil]

/-- the alias layer of a flag / env chain: values that are good for alias and flatten-canonical have an
alias encoding that flatten can restore -/
theorem alias_flattenGood (tags : List String) (fuelF fuel : Nat) (fs fs1 : List FT) (vs : List Val)
    (h1 : mangleLayer fuel (aliasMangler tags) fs = .ok fs1)
    (hv : All2 (HG (aliasP tags)) fs vs) (hc : All2 Canon fs vs)
    (hd : ∀ f ∈ fs1, tySize f.2 < fuelF) :
    All2 (flattenGood fuelF) fs1 (encLayer (aliasMangler tags) (losslessAlias tags).enc fuel fs vs) := by
  have hcn := ((alias_canon tags fuel).1 fs fs1 vs h1 hv hc).1
  apply All2.of_mem (All2.length hcn)
  intro f v hmem
  have hf := hd f (List.of_mem_zip hmem).1
  exact canon_flattenGood fuelF f v hf (All2.mem hcn f v hmem)

end Dials.Tf
