/-
Symbolic execution of the ez script, schedule family `race = .handoff` (generated pattern; see EzExec.lean).
-/
import DialsModel.Lemmas.EzExec

namespace Dials.Ez
open Dials Dials.Runtime

set_option maxRecDepth 8000
set_option linter.unusedSimpArgs false
set_option maxHeartbeats 1600000

/-- the file is read and stacks, but the full stack does not verify -/
theorem ezRun_vf_handoff (E : Env) (sch : Sched) (p v : Nat) (hs : sch.race = .handoff)
    (h0 : E.W.stackOk (baseCfg E) = true) (hp : E.path (baseCfg E) = some p) (hd : E.decoder p = true)
    (hf : E.file p = some v) (h1 : E.W.stackOk (fullCfg E v) = true) (h2 : E.W.valid (fullCfg E v) = false) :
    summary E.W (ezRun E sch) =
      { err := some .verify, view := some ⟨1, fullCfg E v⟩, events := some (some ⟨1, fullCfg E v⟩), skip := some true
        verifies := [(fullCfg E v, false)], globals := [], later := [], received := [], path := some p
        slots := some (fullCfg E v), idle := some E.watch, quiet := some true, room := some true } := by
  simp only [baseCfg, fullCfg, blankV] at hp h0 h1 h2
  obtain ⟨mp, cp, race, cw⟩ := sch
  subst hs
  rcases Bool.eq_false_or_eq_true E.watch with hw | hw <;>
  cases mp <;> cases cp <;> cases cw <;> ez_exec [hp, hd, hf, h0, h1, h2, hw]

end Dials.Ez
