/-
The outcome of the ez script for every schedule of the family `Sched` (collected from the per-race
files), and what a later report of the watching file source does to the state ez returned.
-/
import DialsModel.Lemmas.EzReach
import DialsModel.Lemmas.EzErr
import DialsModel.Lemmas.EzOkH
import DialsModel.Lemmas.EzOkA
import DialsModel.Lemmas.EzOkB
import DialsModel.Lemmas.EzVfH
import DialsModel.Lemmas.EzVfA
import DialsModel.Lemmas.EzVfB
import DialsModel.Lemmas.EzNpH
import DialsModel.Lemmas.EzNpA
import DialsModel.Lemmas.EzNpB

namespace Dials.Ez
open Dials Dials.Runtime

set_option maxRecDepth 8000
set_option linter.unusedSimpArgs false

/-- the file is read, stacks and verifies: ez returns the Dials -/
theorem ezRun_ok (E : Env) (sch : Sched) (p v : Nat)
    (h0 : E.W.stackOk (baseCfg E) = true) (hp : E.path (baseCfg E) = some p) (hd : E.decoder p = true)
    (hf : E.file p = some v) (h1 : E.W.stackOk (fullCfg E v) = true) (h2 : E.W.valid (fullCfg E v) = true) :
    summary E.W (ezRun E sch) =
      { err := none, view := some ⟨1, fullCfg E v⟩, events := some none, skip := some false
        verifies := [(fullCfg E v, true)], globals := [], later := [], received := [⟨1, fullCfg E v⟩], path := some p
        slots := some (fullCfg E v), idle := some E.watch, quiet := some true, room := some true } := by
  cases hs : sch.race
  · exact ezRun_ok_handoff E sch p v hs h0 hp hd hf h1 h2
  · exact ezRun_ok_queuedAfter E sch p v hs h0 hp hd hf h1 h2
  · exact ezRun_ok_queuedBefore E sch p v hs h0 hp hd hf h1 h2

/-- the file is read and stacks, but the full stack does not verify -/
theorem ezRun_vf (E : Env) (sch : Sched) (p v : Nat)
    (h0 : E.W.stackOk (baseCfg E) = true) (hp : E.path (baseCfg E) = some p) (hd : E.decoder p = true)
    (hf : E.file p = some v) (h1 : E.W.stackOk (fullCfg E v) = true) (h2 : E.W.valid (fullCfg E v) = false) :
    summary E.W (ezRun E sch) =
      { err := some .verify, view := some ⟨1, fullCfg E v⟩, events := some (some ⟨1, fullCfg E v⟩), skip := some true
        verifies := [(fullCfg E v, false)], globals := [], later := [], received := [], path := some p
        slots := some (fullCfg E v), idle := some E.watch, quiet := some true, room := some true } := by
  cases hs : sch.race
  · exact ezRun_vf_handoff E sch p v hs h0 hp hd hf h1 h2
  · exact ezRun_vf_queuedAfter E sch p v hs h0 hp hd hf h1 h2
  · exact ezRun_vf_queuedBefore E sch p v hs h0 hp hd hf h1 h2

/-- ConfigPath answers "no file": the file-less stack is the full stack and is verified -/
theorem ezRun_nopath (E : Env) (sch : Sched)
    (h0 : E.W.stackOk (baseCfg E) = true) (hp : E.path (baseCfg E) = none) :
    summary E.W (ezRun E sch) =
      { err := if E.W.valid (baseCfg E) then none else some .verify
        view := some ⟨0, baseCfg E⟩, events := some none, skip := some (!E.W.valid (baseCfg E))
        verifies := [(baseCfg E, E.W.valid (baseCfg E))], globals := [], later := [], received := [], path := none
        slots := some (baseCfg E), idle := some E.watch, quiet := some true, room := some true } := by
  cases hs : sch.race
  · exact ezRun_nopath_handoff E sch _ hs h0 hp rfl
  · exact ezRun_nopath_queuedAfter E sch _ hs h0 hp rfl
  · exact ezRun_nopath_queuedBefore E sch _ hs h0 hp rfl

theorem fileSlot_eq : fileSlot = 0 := by
  simp [fileSlot, Facts.ezSources, Facts.ezSetSourceOn]

theorem quiet_iff (s : State) : quiet s = true ↔ s.monCtl = [] ∧ s.cancelled = [] ∧ s.clients = [(0, .idle)] := by
  unfold quiet
  constructor
  · intro h
    simp only [Bool.and_eq_true, List.isEmpty_iff] at h
    obtain ⟨⟨h1, h2⟩, h3⟩ := h
    refine ⟨h1, h2, ?_⟩
    split at h3
    · assumption
    · cases h3
  · rintro ⟨h1, h2, h3⟩
    simp [h1, h2, h3]

/-- what one later report of the watching file source does once ez has returned with verification
switched on: the monitor re-stacks with the new value in the file's slot, verifies, and installs the
next serial or rejects (view unchanged, error event for OnWatchedError) -/
theorem laterReport_spec (W : World) (s : State) (v' : Nat)
    (hidle : s.mon.idle = true) (hq : quiet s = true) (hskip : s.skipVerify = false) (hroom : cbRoom s = true)
    (hev : s.events = none) :
    ∃ s', laterReport W s v' = some s' ∧ s'.slots = setSlot s.slots 0 v' ∧ s'.skipVerify = false ∧
      (W.stackOk (setSlot s.slots 0 v') = true → W.valid (setSlot s.slots 0 v') = true →
        s'.view = ⟨s.view.serial + 1, setSlot s.slots 0 v'⟩ ∧
        verifyCalls s' = verifyCalls s ++ [(setSlot s.slots 0 v', true)] ∧
        Obs.queued (.newCfg s.view.cfg ⟨s.view.serial + 1, setSlot s.slots 0 v'⟩ false) false ∈ s'.log) ∧
      (W.stackOk (setSlot s.slots 0 v') = true → W.valid (setSlot s.slots 0 v') = false →
        s'.view = s.view ∧ verifyCalls s' = verifyCalls s ++ [(setSlot s.slots 0 v', false)] ∧
        Obs.queued (.watchErr .verify s.view.cfg (some (setSlot s.slots 0 v'))) false ∈ s'.log) ∧
      (W.stackOk (setSlot s.slots 0 v') = false →
        s'.view = s.view ∧ verifyCalls s' = verifyCalls s ∧
        Obs.queued (.watchErr .stack s.view.cfg none) false ∈ s'.log) := by
  obtain ⟨hmc, hcan, hcl⟩ := (quiet_iff s).1 hq
  obtain ⟨P, view, slots, watching, skipVerify, mon, cb, handles, lastSerial, lastVersion, cbch, monCtl, events,
    clients, cancelled, monDone, log⟩ := s
  simp only at hmc hcan hcl hskip hev
  subst hmc hcan hcl hskip hev
  simp only [] at hidle hroom
  rcases Bool.eq_false_or_eq_true (W.stackOk (setSlot slots 0 v')) with h1 | h1 <;>
  rcases Bool.eq_false_or_eq_true (W.valid (setSlot slots 0 v')) with h2 | h2 <;>
  cases mon <;> simp [MonPc.idle] at hidle <;>
  cases cb <;> simp only [cbRoom] at hroom <;>
  simp [laterReport, fileSlot_eq, monQuiesce_zero, monQuiesce_succ, stepL_apply, step, runMon, runClient, readyIns,
    State.isCancelled, getC, setC, State.setClient, State.ret, State.logAdd, offerW, monTake, State.waitOr,
    Facts.verifyOnUpdate, Facts.nextSerial, replyTo, trySubmit, cbRoom, enqueueCb, cbTake, suppressedNow, Facts.suppressNew,
    State.blockClient, verifyCalls, h1, h2, hroom]

/-! ### the specification the script is compared with -/

/-- the config `Verify()` has to be called on: the stack with the file included - the file being the
one `ConfigPath` names on the file-less stack - or the file-less stack itself when `ConfigPath`
names no file; none when ez fails before there is such a config -/
def fullStack (E : Env) : Option Slots :=
  match E.path (baseCfg E) with
  | none => some (baseCfg E)
  | some p =>
    if E.decoder p then
      match E.file p with
      | some v => if E.W.stackOk (fullCfg E v) then some (fullCfg E v) else none
      | none => none
    else none

/-- complete description of the `Verify()` calls and of ez's error, for every environment and schedule -/
theorem ezRun_verifies (E : Env) (sch : Sched) (h0 : E.W.stackOk (baseCfg E) = true) :
    (summary E.W (ezRun E sch)).verifies = (match fullStack E with | some c => [(c, E.W.valid c)] | none => []) ∧
    ((summary E.W (ezRun E sch)).err = none ↔ ∃ c, fullStack E = some c ∧ E.W.valid c = true) ∧
    (∀ c, fullStack E = some c → E.W.valid c = false → (summary E.W (ezRun E sch)).err = some .verify) ∧
    (summary E.W (ezRun E sch)).err ≠ some .stuck ∧
    (summary E.W (ezRun E sch)).path = E.path (baseCfg E) ∧
    (summary E.W (ezRun E sch)).globals = [] ∧
    ((summary E.W (ezRun E sch)).err ≠ some (.integrate .errStack) → (summary E.W (ezRun E sch)).later = []) := by
  unfold fullStack
  cases hp : E.path (baseCfg E) with
  | none =>
    rw [ezRun_nopath E sch h0 hp]
    cases hv : E.W.valid (baseCfg E) <;> simp [hv]
  | some p =>
    rcases Bool.eq_false_or_eq_true (E.decoder p) with hd | hd
    · cases hf : E.file p with
      | none => rw [ezRun_fileErr E sch p h0 hp hd hf]; simp [hd, hf]
      | some v =>
        rcases Bool.eq_false_or_eq_true (E.W.stackOk (fullCfg E v)) with h1 | h1
        · rcases Bool.eq_false_or_eq_true (E.W.valid (fullCfg E v)) with h2 | h2
          · rw [ezRun_ok E sch p v h0 hp hd hf h1 h2]; simp [hd, hf, h1, h2]
          · rw [ezRun_vf E sch p v h0 hp hd hf h1 h2]; simp [hd, hf, h1, h2]
        · rw [ezRun_stackErr E sch p v h0 hp hd hf h1]; simp [hd, hf, h1]
    · rw [ezRun_noDecoder E sch p h0 hp hd]; simp [hd]

/-- re-stacking when only the file's slot is ever reported: the other slots keep Config's values -/
theorem foldl_file_only (e f : Nat) (h : List Obs) (hsrc : ∀ src v r, Obs.gotUpd src v r ∈ h → src = 0) (a : Nat) :
    ∃ x, h.foldl (fun acc o => match o with | .gotUpd src v _ => setSlot acc src v | _ => acc) [a, e, f] = [x, e, f] ∧
      (x = a ∨ ∃ r, Obs.gotUpd 0 x r ∈ h) := by
  induction h generalizing a with
  | nil => exact ⟨a, rfl, Or.inl rfl⟩
  | cons o os ih =>
    have hos : ∀ src v r, Obs.gotUpd src v r ∈ os → src = 0 := fun src v r hm => hsrc src v r (List.mem_cons_of_mem _ hm)
    cases o
    case gotUpd src v r =>
      have : src = 0 := hsrc src v r (List.mem_cons_self ..)
      subst this
      obtain ⟨x, hx, hor⟩ := ih hos v
      refine ⟨x, by simpa [List.foldl, setSlot] using hx, ?_⟩
      rcases hor with rfl | ⟨r', hr'⟩
      · exact Or.inr ⟨r, List.mem_cons_self ..⟩
      · exact Or.inr ⟨r', List.mem_cons_of_mem _ hr'⟩
    all_goals
      obtain ⟨x, hx, hor⟩ := ih hos a
      refine ⟨x, by simpa [List.foldl] using hx, ?_⟩
      rcases hor with rfl | ⟨r', hr'⟩
      · exact Or.inl rfl
      · exact Or.inr ⟨r', List.mem_cons_of_mem _ hr'⟩

end Dials.Ez
