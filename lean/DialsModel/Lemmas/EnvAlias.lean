/- Helper lemmas for Props/C14 (alias mangler) and Props/C11 (environment source). -/
import DialsModel.Model.TfSpec
import DialsModel.Lemmas.CaseConv
import DialsModel.Lemmas.GoIdent

namespace Dials.Tf

/-! ### tags: get after set / delete -/

theorem tagGet_nil (k : String) : tagGet [] k = none := rfl

theorem tagGet_cons (k' v' : String) (ts : List (String × String)) (k : String) :
    tagGet ((k', v') :: ts) k = if k' = k then some v' else tagGet ts k := by
  by_cases h : k' = k <;> simp [tagGet, h]

theorem tagDel_cons (k' v' : String) (ts : List (String × String)) (k : String) :
    tagDel ((k', v') :: ts) k = if k' = k then tagDel ts k else (k', v') :: tagDel ts k := by
  by_cases h : k' = k <;> simp [tagDel, h]

theorem tagSet_cons (k' v' : String) (ts : List (String × String)) (k v : String) :
    tagSet ((k', v') :: ts) k v = if k' = k then (k, v) :: ts else (k', v') :: tagSet ts k v := by
  by_cases h : k' = k <;> simp [tagSet, h]

theorem tagGet_tagDel_self (ts : List (String × String)) (k : String) : tagGet (tagDel ts k) k = none := by
  induction ts with
  | nil => rfl
  | cons p ts ih =>
    obtain ⟨k', v'⟩ := p
    rw [tagDel_cons]
    by_cases h : k' = k
    · simp [h, ih]
    · simp [h, tagGet_cons, ih]

theorem tagGet_tagSet_self (ts : List (String × String)) (k v : String) : tagGet (tagSet ts k v) k = some v := by
  induction ts with
  | nil => simp [tagSet, tagGet_cons]
  | cons p ts ih =>
    obtain ⟨k', v'⟩ := p
    rw [tagSet_cons]
    by_cases h : k' = k
    · simp [h, tagGet_cons]
    · simp [h, tagGet_cons, ih]

theorem tagGet_tagSet_ne (ts : List (String × String)) (k v k' : String) (hne : k' ≠ k) :
    tagGet (tagSet ts k v) k' = tagGet ts k' := by
  induction ts with
  | nil => simp [tagSet, tagGet_cons, tagGet_nil, Ne.symm hne]
  | cons p ts ih =>
    obtain ⟨k1, v1⟩ := p
    rw [tagSet_cons]
    by_cases h : k1 = k
    · subst h; simp [tagGet_cons, Ne.symm hne]
    · simp only [h, if_false, tagGet_cons, ih]

theorem tagGet_tagDel_ne (ts : List (String × String)) (k k' : String) (hne : k' ≠ k) :
    tagGet (tagDel ts k) k' = tagGet ts k' := by
  induction ts with
  | nil => rfl
  | cons p ts ih =>
    obtain ⟨k1, v1⟩ := p
    rw [tagDel_cons]
    by_cases h : k1 = k
    · subst h; simp [tagGet_cons, Ne.symm hne, ih]
    · simp only [h, if_false, tagGet_cons, ih]

/-! ### the alias mangler's folds -/

/-- the `(tag, alias value)` pairs the alias mangler finds on a field -/
def aliasFound (tags : List String) (h : Hdr) : List (String × String) :=
  tags.filterMap fun tag => (tagGet h.tags (tag ++ "alias")).map fun a => (tag, a)

/-- tags of the primary field: every found alias tag deleted -/
def delFold (found : List (String × String)) (ts : List (String × String)) : List (String × String) :=
  found.foldl (fun acc p => tagDel acc (p.1 ++ "alias")) ts

/-- tags of the alias field before the description is rewritten -/
def setFold (found : List (String × String)) (ts : List (String × String)) : List (String × String) :=
  found.foldl (fun acc p => tagSet (tagDel acc (p.1 ++ "alias")) p.1 p.2) ts

/-- the source-specific name tags dropped from the alias field: every tag of `l` (the mangler's tag
list without its first, base, tag) that has no alias of its own is deleted -/
def dropFold (l : List String) (found : List (String × String)) (ts : List (String × String)) :
    List (String × String) :=
  l.foldl (fun acc tag => if found.any (·.1 == tag) then acc else tagDel acc tag) ts

/-- tags of the alias field before the description is rewritten: alias values set, un-aliased
source-specific names dropped -/
def aliasTags (tags : List String) (found : List (String × String)) (ts : List (String × String)) :
    List (String × String) :=
  dropFold (tags.drop 1) found (setFold found ts)

/-- the rewritten `dialsdesc` of the alias field -/
def aliasDesc (tags : List String) (found : List (String × String)) (h : Hdr) : String :=
  (tagGet (aliasTags tags found h.tags) "dialsdesc").getD "base dialsdesc unset" ++ " (alias of " ++
    " ".intercalate ((found.map fun p => p.1 ++ "=" ++ (tagGet h.tags p.1).getD "").mergeSort (fun a b => a ≤ b)) ++ ")"

theorem aliasMangle_eq (tags : List String) (h : Hdr) (t : Ty) :
    aliasMangle tags h t =
      if (aliasFound tags h).isEmpty then .ok [(h, t)]
      else .ok [({ h with tags := delFold (aliasFound tags h) h.tags }, t),
        ({ h with name := h.name ++ aliasFieldSuffix,
                  tags := tagSet (aliasTags tags (aliasFound tags h) h.tags) "dialsdesc"
                    (aliasDesc tags (aliasFound tags h) h),
                  anon := false }, t)] := rfl

theorem mem_aliasFound {tags : List String} {h : Hdr} {p : String × String} :
    p ∈ aliasFound tags h ↔ p.1 ∈ tags ∧ tagGet h.tags (p.1 ++ "alias") = some p.2 := by
  obtain ⟨t, a⟩ := p
  simp only [aliasFound, List.mem_filterMap, Option.map_eq_some_iff]
  constructor
  · rintro ⟨tag, htag, a', ha', e⟩
    cases e
    exact ⟨htag, ha'⟩
  · rintro ⟨h1, h2⟩
    exact ⟨t, h1, a, h2, rfl⟩

theorem aliasFound_fst_sublist (tags : List String) (h : Hdr) :
    ((aliasFound tags h).map Prod.fst).Sublist tags := by
  induction tags with
  | nil => exact List.Sublist.slnil
  | cons tag tags ih =>
    unfold aliasFound at ih ⊢
    rw [List.filterMap_cons]
    cases hg : tagGet h.tags (tag ++ "alias") with
    | none => simpa using List.Sublist.cons _ ih
    | some a => simpa using ih

theorem aliasFound_nodup (tags : List String) (h : Hdr) (hn : tags.Nodup) :
    ((aliasFound tags h).map Prod.fst).Nodup := List.Nodup.sublist (aliasFound_fst_sublist tags h) hn

theorem delFold_cons (p : String × String) (f : List (String × String)) (ts : List (String × String)) :
    delFold (p :: f) ts = delFold f (tagDel ts (p.1 ++ "alias")) := rfl

theorem setFold_cons (p : String × String) (f : List (String × String)) (ts : List (String × String)) :
    setFold (p :: f) ts = setFold f (tagSet (tagDel ts (p.1 ++ "alias")) p.1 p.2) := rfl

/-- a deleted (or absent) key stays absent in the primary field -/
theorem tagGet_delFold_none (found : List (String × String)) (ts : List (String × String)) (k : String)
    (h : tagGet ts k = none ∨ ∃ p ∈ found, p.1 ++ "alias" = k) : tagGet (delFold found ts) k = none := by
  induction found generalizing ts with
  | nil =>
    rcases h with h | ⟨p, hp, _⟩
    · exact h
    · cases hp
  | cons p f ih =>
    rw [delFold_cons]
    apply ih
    by_cases hk : p.1 ++ "alias" = k
    · left; rw [← hk]; exact tagGet_tagDel_self _ _
    · rcases h with h | ⟨q, hq, hqk⟩
      · left; rw [tagGet_tagDel_ne _ _ _ (Ne.symm hk)]; exact h
      · rcases List.mem_cons.1 hq with e | hq
        · subst e; exact absurd hqk hk
        · right; exact ⟨q, hq, hqk⟩

/-- a deleted (or absent) key stays absent in the alias field, provided no found tag name is that key -/
theorem tagGet_setFold_none (found : List (String × String)) (ts : List (String × String)) (k : String)
    (hk : ∀ p ∈ found, p.1 ≠ k)
    (h : tagGet ts k = none ∨ ∃ p ∈ found, p.1 ++ "alias" = k) : tagGet (setFold found ts) k = none := by
  induction found generalizing ts with
  | nil =>
    rcases h with h | ⟨p, hp, _⟩
    · exact h
    · cases hp
  | cons p f ih =>
    rw [setFold_cons]
    apply ih _ (fun q hq => hk q (List.mem_cons_of_mem _ hq))
    have hp : k ≠ p.1 := Ne.symm (hk p (List.mem_cons_self))
    rw [tagGet_tagSet_ne _ _ _ _ hp]
    by_cases hkk : p.1 ++ "alias" = k
    · left; rw [← hkk]; exact tagGet_tagDel_self _ _
    · rcases h with h | ⟨q, hq, hqk⟩
      · left; rw [tagGet_tagDel_ne _ _ _ (Ne.symm hkk)]; exact h
      · rcases List.mem_cons.1 hq with e | hq
        · subst e; exact absurd hqk hkk
        · right; exact ⟨q, hq, hqk⟩

/-- a key that is neither a found tag name nor a found alias-tag name is untouched -/
theorem tagGet_setFold_other (found : List (String × String)) (ts : List (String × String)) (k : String)
    (hk : ∀ p ∈ found, p.1 ≠ k ∧ p.1 ++ "alias" ≠ k) : tagGet (setFold found ts) k = tagGet ts k := by
  induction found generalizing ts with
  | nil => rfl
  | cons p f ih =>
    rw [setFold_cons, ih _ (fun q hq => hk q (List.mem_cons_of_mem _ hq))]
    have hp := hk p (List.mem_cons_self)
    rw [tagGet_tagSet_ne _ _ _ _ (Ne.symm hp.1), tagGet_tagDel_ne _ _ _ (Ne.symm hp.2)]

/-- the alias field's `tag` carries the alias value -/
theorem tagGet_setFold_tag (found : List (String × String)) (ts : List (String × String)) (tag a : String)
    (hmem : (tag, a) ∈ found) (hnd : (found.map Prod.fst).Nodup) (hk : ∀ p ∈ found, p.1 ++ "alias" ≠ tag) :
    tagGet (setFold found ts) tag = some a := by
  induction found generalizing ts with
  | nil => cases hmem
  | cons p f ih =>
    rw [setFold_cons]
    simp only [List.map_cons, List.nodup_cons] at hnd
    rcases List.mem_cons.1 hmem with e | hm
    · subst e
      rw [tagGet_setFold_other, tagGet_tagSet_self]
      intro q hq
      refine ⟨?_, hk q (List.mem_cons_of_mem _ hq)⟩
      intro e
      exact hnd.1 (List.mem_map.2 ⟨q, hq, e⟩)
    · exact ih _ hm hnd.2 (fun q hq => hk q (List.mem_cons_of_mem _ hq))

/-- a key that is no found alias-tag name is untouched in the primary field -/
theorem tagGet_delFold_other (found : List (String × String)) (ts : List (String × String)) (k : String)
    (hk : ∀ p ∈ found, p.1 ++ "alias" ≠ k) : tagGet (delFold found ts) k = tagGet ts k := by
  induction found generalizing ts with
  | nil => rfl
  | cons p f ih =>
    rw [delFold_cons, ih _ (fun q hq => hk q (List.mem_cons_of_mem _ hq))]
    exact tagGet_tagDel_ne _ _ _ (Ne.symm (hk p List.mem_cons_self))

/-! ### the alias field's dropped source-specific names -/

theorem dropFold_nil (found : List (String × String)) (ts : List (String × String)) :
    dropFold [] found ts = ts := rfl

theorem dropFold_cons (tag : String) (l : List String) (found : List (String × String))
    (ts : List (String × String)) :
    dropFold (tag :: l) found ts =
      dropFold l found (if found.any (·.1 == tag) then ts else tagDel ts tag) := rfl

/-- deleting a tag never makes an absent key present -/
theorem tagGet_tagDel_none (ts : List (String × String)) (k k' : String) (h : tagGet ts k = none) :
    tagGet (tagDel ts k') k = none := by
  by_cases e : k = k'
  · subst e; exact tagGet_tagDel_self _ _
  · rw [tagGet_tagDel_ne _ _ _ e]; exact h

/-- an absent key stays absent -/
theorem tagGet_dropFold_none (l : List String) (found : List (String × String)) (ts : List (String × String))
    (k : String) (h : tagGet ts k = none) : tagGet (dropFold l found ts) k = none := by
  induction l generalizing ts with
  | nil => exact h
  | cons tag l ih =>
    rw [dropFold_cons]
    apply ih
    split
    · exact h
    · exact tagGet_tagDel_none _ _ _ h

/-- a key that is not a dropped name (not in the list, or with an alias of its own) is untouched -/
theorem tagGet_dropFold_keep (l : List String) (found : List (String × String)) (ts : List (String × String))
    (k : String) (hk : k ∈ l → found.any (·.1 == k) = true) :
    tagGet (dropFold l found ts) k = tagGet ts k := by
  induction l generalizing ts with
  | nil => rfl
  | cons tag l ih =>
    rw [dropFold_cons, ih _ (fun hm => hk (List.mem_cons_of_mem _ hm))]
    split
    · rfl
    · next hany =>
      apply tagGet_tagDel_ne
      intro e
      subst e
      exact hany (hk List.mem_cons_self)

/-- a listed name without an alias of its own is dropped -/
theorem tagGet_dropFold_drop (l : List String) (found : List (String × String)) (ts : List (String × String))
    (k : String) (hm : k ∈ l) (hk : found.any (·.1 == k) = false) :
    tagGet (dropFold l found ts) k = none := by
  induction l generalizing ts with
  | nil => cases hm
  | cons tag l ih =>
    rw [dropFold_cons]
    rcases List.mem_cons.1 hm with e | hm
    · subst e
      apply tagGet_dropFold_none
      rw [hk]
      exact tagGet_tagDel_self _ _
    · exact ih _ hm

/-- an aliased tag is among the found pairs' names -/
theorem aliasFound_any_of_mem {found : List (String × String)} {tag a : String} (h : (tag, a) ∈ found) :
    found.any (·.1 == tag) = true :=
  List.any_eq_true.2 ⟨(tag, a), h, by simp⟩

/-- a tag without an alias of its own is not among the found pairs' names -/
theorem aliasFound_any_false (tags : List String) (h : Hdr) (tag : String)
    (hna : tagGet h.tags (tag ++ "alias") = none) : (aliasFound tags h).any (·.1 == tag) = false := by
  cases hb : (aliasFound tags h).any (·.1 == tag) with
  | false => rfl
  | true =>
    obtain ⟨p, hp, e⟩ := List.any_eq_true.1 hb
    have e' : p.1 = tag := by simpa using e
    have := (mem_aliasFound.1 hp).2
    rw [e', hna] at this
    cases this

/-! ### string facts -/

theorem append_suffix_ne (s suf : String) (h : 0 < suf.length) : s ++ suf ≠ s := by
  intro e
  have := congrArg String.length e
  rw [String.length_append] at this
  omega

theorem ne_append_alias (s : String) : s ≠ s ++ "alias" :=
  fun e => append_suffix_ne s "alias" (by decide) e.symm

theorem dialsdesc_ne_alias (s : String) : s ++ "alias" ≠ "dialsdesc" := by
  intro e
  have := congrArg (fun x => x.toList.reverse.head?) e
  simp [String.toList_append] at this

/-! ### `mapM'` -/

theorem mapM'_congr {α β} (f g : α → Outcome β) (l : List α) (h : ∀ a ∈ l, f a = g a) :
    mapM' f l = mapM' g l := by
  induction l with
  | nil => rfl
  | cons a as ih =>
    simp only [mapM']
    rw [h a List.mem_cons_self, ih (fun b hb => h b (List.mem_cons_of_mem _ hb))]

theorem mapM'_const {α β} (f : α → Outcome β) (c : β) (l : List α) (h : ∀ a ∈ l, f a = .ok c) :
    mapM' f l = .ok (List.replicate l.length c) := by
  induction l with
  | nil => rfl
  | cons a as ih =>
    simp only [mapM']
    rw [h a List.mem_cons_self, ih (fun b hb => h b (List.mem_cons_of_mem _ hb))]
    rfl

theorem flatMap_congr_mem {α β} (l : List α) (f g : α → List β) (h : ∀ a ∈ l, f a = g a) :
    l.flatMap f = l.flatMap g := by
  induction l with
  | nil => rfl
  | cons a as ih =>
    rw [List.flatMap_cons, List.flatMap_cons, h a List.mem_cons_self,
      ih (fun b hb => h b (List.mem_cons_of_mem _ hb))]

/-! ### the environment source, one translated field at a time -/

/-- the variable consulted for one translated field -/
def envKey (pfx : String) (f : FT) : String :=
  if pfx == "" then (tagGet f.1.tags "dialsenv").getD "" else pfx ++ "_" ++ (tagGet f.1.tags "dialsenv").getD ""

/-- the value `envValue` produces for one translated field -/
def envField (pfx : String) (lookup : String → Option String) (f : FT) : Outcome Val :=
  match tagGet f.1.tags "dialsenv" with
  | none => Outcome.err "empty dialsenv tag"
  | some "" => Outcome.err "empty dialsenv tag"
  | some name =>
    let full := if pfx == "" then name else pfx ++ "_" ++ name
    match lookup full with
    | some v => .ok (Val.ptr (.s v))
    | none => .ok Val.nilv

theorem envValue_eq (fuel : Nat) (chain : List Mangler) (pfx : String) (fs : List FT) (lookup : String → Option String) :
    envValue fuel chain pfx fs lookup =
      match translate fuel chain fs with
      | .err c => .err c
      | .panic c => .panic c
      | .ok tfs =>
        match mapM' (envField pfx lookup) tfs with
        | .ok vals => reverse fuel chain fs vals
        | .err c => .err c
        | .panic c => .panic c := rfl

theorem envNames_eq (fuel : Nat) (chain : List Mangler) (pfx : String) (fs : List FT) :
    envNames fuel chain pfx fs =
      match translate fuel chain fs with
      | .err c => .err c
      | .panic c => .panic c
      | .ok tfs => .ok (tfs.map (envKey pfx)) := rfl

theorem envField_congr (pfx : String) (env1 env2 : String → Option String) (f : FT)
    (h : env1 (envKey pfx f) = env2 (envKey pfx f)) : envField pfx env1 f = envField pfx env2 f := by
  unfold envField
  split
  · rfl
  · rfl
  · next name _ heq =>
    have hk : envKey pfx f = (if pfx == "" then name else pfx ++ "_" ++ name) := by simp [envKey, heq]
    rw [hk] at h
    simp only [h]

theorem envField_absent (pfx : String) (env : String → Option String) (f : FT) (name : String)
    (hg : tagGet f.1.tags "dialsenv" = some name) (hne : name ≠ "")
    (h : env (if pfx == "" then name else pfx ++ "_" ++ name) = none) : envField pfx env f = .ok Val.nilv := by
  unfold envField
  split
  · next heq => rw [hg] at heq; cases heq
  · next heq => rw [hg] at heq; injection heq with heq; exact absurd heq hne
  · next name' _ heq =>
    rw [hg] at heq; injection heq with heq; subst heq
    simp only [h]

end Dials.Tf

namespace Dials.CaseConv

/-! ### `goLoop` with the tag boundary predicate: a segment followed by a separator -/

/-- boundary predicate of `DecodeGoTags` -/
abbrev tagB : Char → Bool := fun c => c == '_' || c == '-'

theorem goLoop_nil (inits : List Str) (isB : Char → Bool) (prev : Option Char) (cur : Str) (acc : Words) :
    goLoop inits isB prev [] cur acc = if cur.isEmpty then acc else acc ++ [lowerS cur] := by
  rw [goLoop]

theorem goLoop_cons (inits : List Str) (isB : Char → Bool) (prev : Option Char) (c : Char) (rest cur : Str)
    (acc : Words) :
    goLoop inits isB prev (c :: rest) cur acc =
      if (isUpperA c && prevLower prev) || firstAfterInitialism c rest || isB c then
        goLoop inits isB (some c) rest (if isB c then [] else [c]) (flushWord inits acc cur)
      else if rest.isEmpty && isUpperA c then
        if !cur.isEmpty && allUpper (cur ++ [c]) then acc ++ extractInitialismsWith inits (cur ++ [c])
        else goLoop inits isB (some c) rest [c] acc
      else goLoop inits isB (some c) rest (cur ++ [c]) acc := by
  rw [goLoop]

/-- the look-ahead of a character inside a segment does not see past the separator -/
theorem firstAfter_sep_suffix (c : Char) (tl rest : Str) :
    firstAfterInitialism c (tl ++ '_' :: rest) = firstAfterInitialism c (tl ++ ['_']) := by
  match tl with
  | [] =>
    cases rest with
    | nil => rfl
    | cons x r =>
      have : isLowerA '_' = false := by decide
      simp [firstAfterInitialism, this]
  | [_] => rfl
  | _ :: _ :: _ => rfl

/-- a separator flushes the current word -/
theorem goLoop_sep (inits : List Str) (prev : Option Char) (rest cur : Str) (acc : Words) :
    goLoop inits tagB prev ('_' :: rest) cur acc = goLoop inits tagB (some '_') rest [] (flushWord inits acc cur) := by
  rw [goLoop_cons]
  simp

/-- what follows the separator after a segment does not influence how the segment is decoded -/
theorem goLoop_seg (inits : List Str) (s : Str) (prev : Option Char) (cur : Str) (acc : Words) (rest : Str) :
    goLoop inits tagB prev (s ++ '_' :: rest) cur acc =
      goLoop inits tagB (some '_') rest [] (goLoop inits tagB prev (s ++ ['_']) cur acc) := by
  induction s generalizing prev cur acc with
  | nil =>
    simp only [List.nil_append]
    rw [goLoop_sep, goLoop_sep, goLoop_nil]
    simp
  | cons c tl ih =>
    simp only [List.cons_append]
    rw [goLoop_cons, goLoop_cons inits tagB prev c (tl ++ ['_']), firstAfter_sep_suffix c tl rest]
    have he1 : (tl ++ '_' :: rest).isEmpty = false := by simp
    have he2 : (tl ++ ['_']).isEmpty = false := by simp
    simp only [he1, he2, Bool.false_and, Bool.false_eq_true, if_false]
    split
    · exact ih _ _ _
    · exact ih _ _ _

/-- at the start of a segment the previous character (none, or a separator) is not lower-case -/
theorem goLoop_prev_sep (inits : List Str) (isB : Char → Bool) (s cur : Str) (acc : Words) :
    goLoop inits isB (some '_') s cur acc = goLoop inits isB none s cur acc := by
  cases s with
  | nil => rw [goLoop_nil, goLoop_nil]
  | cons c tl =>
    have : isLowerA '_' = false := by decide
    rw [goLoop_cons, goLoop_cons]
    simp [prevLower, this]

theorem flushWord_acc (inits : List Str) (acc : Words) (cur : Str) :
    flushWord inits acc cur = acc ++ flushWord inits [] cur := by
  unfold flushWord
  split
  · simp
  · split <;> simp

/-- the accumulator is only ever appended to -/
theorem goLoop_acc (inits : List Str) (isB : Char → Bool) (s : Str) (prev : Option Char) (cur : Str) (acc : Words) :
    goLoop inits isB prev s cur acc = acc ++ goLoop inits isB prev s cur [] := by
  induction s generalizing prev cur acc with
  | nil =>
    rw [goLoop_nil, goLoop_nil]
    split <;> simp
  | cons c tl ih =>
    rw [goLoop_cons, goLoop_cons inits isB prev c tl cur []]
    split
    · rw [ih _ _ (flushWord inits acc cur), ih _ _ (flushWord inits [] cur), flushWord_acc inits acc cur]
      simp
    · split
      · split
        · simp
        · exact ih _ _ _
      · exact ih _ _ _

theorem joinWith_cons_ne (sep : Char) (w : Str) (ws : Words) (h : ws ≠ []) :
    joinWith sep (w :: ws) = w ++ sep :: joinWith sep ws := by
  cases ws with
  | nil => exact absurd rfl h
  | cons v vs => rfl

/-- the words `DecodeGoTags` produces (it never fails) -/
def goTagWords (s : Str) : Words := goLoop initialisms tagB none s [] []

theorem decodeGoTags_eq (s : Str) : decodeGoTags s = some (goTagWords s) := rfl

/-- decoding a join: every segment but the last is decoded as if followed by a separator -/
theorem goLoop_join (segs : List Str) (last : Str) (acc : Words) :
    goLoop initialisms tagB none (joinWith '_' (segs ++ [last])) [] acc =
      acc ++ (segs.flatMap fun s => goTagWords (s ++ ['_'])) ++ goTagWords last := by
  induction segs generalizing acc with
  | nil =>
    simp only [List.nil_append, joinWith, List.flatMap_nil, List.append_nil]
    exact goLoop_acc _ _ _ _ _ _
  | cons s segs ih =>
    rw [List.cons_append, joinWith_cons_ne '_' s (segs ++ [last]) (by simp), goLoop_seg, goLoop_prev_sep, ih,
      goLoop_acc initialisms tagB (s ++ ['_']) none [] acc]
    simp [goTagWords]

/-- a segment is separator-stable when a following separator does not change how it is decoded -/
def SepStable (s : Str) : Prop := decodeGoTags (s ++ ['_']) = decodeGoTags s

instance (s : Str) : Decidable (SepStable s) := by unfold SepStable; infer_instance

theorem sepStable_iff (s : Str) : SepStable s ↔ goTagWords (s ++ ['_']) = goTagWords s := by
  simp [SepStable, decodeGoTags_eq]

/-! ### separator-stable classes of segments -/

/-- a character that is neither upper-case nor a separator is appended to the current word -/
theorem goLoop_plain (inits : List Str) (prev : Option Char) (c : Char) (tl cur : Str) (acc : Words)
    (hu : isUpperA c = false) (hb : tagB c = false) :
    goLoop inits tagB prev (c :: tl) cur acc = goLoop inits tagB (some c) tl (cur ++ [c]) acc := by
  rw [goLoop_cons]
  simp only [hu, firstAfter_false_of_not_upper c tl hu, hb]
  simp

theorem goLoop_plain_eos (inits : List Str) (s : Str) (h : ∀ c ∈ s, isUpperA c = false ∧ tagB c = false)
    (prev : Option Char) (cur : Str) (acc : Words) :
    goLoop inits tagB prev s cur acc = if (cur ++ s).isEmpty then acc else acc ++ [lowerS (cur ++ s)] := by
  induction s generalizing prev cur with
  | nil => rw [goLoop_nil]; simp
  | cons c tl ih =>
    have hc := h c List.mem_cons_self
    rw [goLoop_plain inits prev c tl cur acc hc.1 hc.2, ih (fun d hd => h d (List.mem_cons_of_mem _ hd))]
    simp

theorem goLoop_plain_sep (inits : List Str) (s : Str) (h : ∀ c ∈ s, isUpperA c = false ∧ tagB c = false)
    (prev : Option Char) (cur : Str) (acc : Words) :
    goLoop inits tagB prev (s ++ ['_']) cur acc = flushWord inits acc (cur ++ s) := by
  induction s generalizing prev cur with
  | nil => rw [List.nil_append, goLoop_sep, goLoop_nil]; simp
  | cons c tl ih =>
    have hc := h c List.mem_cons_self
    rw [List.cons_append, goLoop_plain inits prev c _ cur acc hc.1 hc.2,
      ih (fun d hd => h d (List.mem_cons_of_mem _ hd))]
    simp

theorem upperS_fixed (s : Str) (e : s = upperS s) : ∀ d ∈ s, toUpperA d = d := by
  induction s with
  | nil => intro d hd; cases hd
  | cons x xs ih =>
    simp only [upperS, List.map_cons, List.cons.injEq] at e
    intro d hd
    rcases List.mem_cons.1 hd with rfl | hd
    · exact e.1.symm
    · exact ih e.2 d hd

theorem allUpper_false_of_lower (s : Str) (h : ∃ c ∈ s, isLowerA c = true) : allUpper s = false := by
  obtain ⟨c, hc, hl⟩ := h
  cases hb : allUpper s with
  | false => rfl
  | true =>
    exfalso
    have e : s = upperS s := by simpa [allUpper] using hb
    exact toUpperA_ne_of_lower c hl (upperS_fixed s e c hc)

theorem lowerS_of_no_upper (s : Str) (h : ∀ c ∈ s, isUpperA c = false) : lowerS s = s := by
  induction s with
  | nil => rfl
  | cons c tl ih =>
    simp only [lowerS, List.map_cons] at *
    rw [toLowerA_of_not_upper c (h c List.mem_cons_self), ih (fun d hd => h d (List.mem_cons_of_mem _ hd))]

/-- segments without upper-case characters and separators that contain a lower-case letter decode
to themselves, with or without a following separator -/
theorem goTagWords_plain (s : Str) (h : ∀ c ∈ s, isUpperA c = false ∧ tagB c = false)
    (hl : ∃ c ∈ s, isLowerA c = true) : goTagWords s = [s] ∧ goTagWords (s ++ ['_']) = [s] := by
  have hne : s.isEmpty = false := by
    obtain ⟨c, hc, _⟩ := hl
    cases s with
    | nil => cases hc
    | cons _ _ => rfl
  have hls := lowerS_of_no_upper s (fun c hc => (h c hc).1)
  constructor
  · unfold goTagWords
    rw [goLoop_plain_eos _ s h]
    simp [hne, hls]
  · unfold goTagWords
    rw [goLoop_plain_sep _ s h]
    simp [flushWord, hne, allUpper_false_of_lower s hl, hls]

theorem word_plain {w : Str} (h : isWord w = true) :
    (∀ c ∈ w, isUpperA c = false ∧ tagB c = false) ∧ ∃ c ∈ w, isLowerA c = true := by
  constructor
  · intro c hc
    have hl := List.all_eq_true.1 (word_all_lowerOk h) c hc
    exact ⟨lowerOk_not_upper hl, by simp [lowerOk_ne_us hl, lowerOk_ne_dash hl]⟩
  · cases w with
    | nil => simp [isWord] at h
    | cons c cs =>
      simp only [isWord, Bool.and_eq_true] at h
      exact ⟨c, List.mem_cons_self, h.1⟩

theorem goTagWords_word {w : Str} (h : isWord w = true) : goTagWords w = [w] :=
  (goTagWords_plain w (word_plain h).1 (word_plain h).2).1

theorem sepStable_plain (s : Str) (h : ∀ c ∈ s, isUpperA c = false ∧ tagB c = false)
    (hl : ∃ c ∈ s, isLowerA c = true) : SepStable s := by
  rw [sepStable_iff, (goTagWords_plain s h hl).1, (goTagWords_plain s h hl).2]

theorem sepStable_word {w : Str} (h : isWord w = true) : SepStable w :=
  sepStable_plain w (word_plain h).1 (word_plain h).2

/-! #### all-upper-case segments -/

theorem upper_ne_dash (c : Char) (h : isUpperA c = true) : (c == '-') = false := by
  have ⟨h1, h2⟩ := (isUpperA_iff c).1 h
  have : c ≠ '-' := ne_of_toNat_ne (by simp; omega)
  simpa using this

theorem upper_tagB (c : Char) (h : isUpperA c = true) : tagB c = false := by
  simp [upper_ne_underscore c h, upper_ne_dash c h]

/-- the head of an upper-case run followed by a separator is not lower-case -/
theorem head_uppers_sep_not_lower (us : Str) (hus : us.all isUpperA = true) :
    ∀ r2 tl, us ++ ['_'] = r2 :: tl → isLowerA r2 = false := by
  intro r2 tl e
  cases us with
  | nil =>
    simp only [List.nil_append, List.cons.injEq] at e
    rw [← e.1]; decide
  | cons q r =>
    simp only [List.cons_append, List.cons.injEq] at e
    simp only [List.all_cons, Bool.and_eq_true] at hus
    rw [← e.1]; exact not_lower_of_upper q hus.1

theorem goLoop_uppers_sep (inits : List Str) (us : Str) (hus : us.all isUpperA = true)
    (prev : Option Char) (hp : prevLower prev = false) (cur : Str) (acc : Words) :
    goLoop inits tagB prev (us ++ ['_']) cur acc = flushWord inits acc (cur ++ us) := by
  induction us generalizing prev cur with
  | nil => rw [List.nil_append, goLoop_sep, goLoop_nil]; simp
  | cons u tl ih =>
    simp only [List.all_cons, Bool.and_eq_true] at hus
    have he : (tl ++ ['_']).isEmpty = false := by simp
    rw [List.cons_append, goLoop_cons]
    simp only [hp, firstAfter_false_of_head u _ (head_uppers_sep_not_lower tl hus.2), upper_tagB u hus.1, he]
    simp only [Bool.and_false, Bool.or_self, Bool.false_and, Bool.false_eq_true, if_false]
    rw [ih hus.2 (some u) (by simp [prevLower, not_lower_of_upper u hus.1])]
    simp

/-- an upper-case run that ends the string (the `tagB` twin of `goLoop_run_eos`) -/
theorem goLoop_uppers_eos (inits : List Str) (us : Str) (hne : us ≠ []) (hus : us.all isUpperA = true)
    (prev : Option Char) (cur : Str) (acc : Words) (hp : prevLower prev = false) (hcn : cur ≠ [])
    (hcu : cur.all isUpperA = true) :
    goLoop inits tagB prev us cur acc = acc ++ extractInitialismsWith inits (cur ++ us) := by
  induction us generalizing prev cur with
  | nil => exact absurd rfl hne
  | cons u us ih =>
    simp only [List.all_cons, Bool.and_eq_true] at hus
    cases us with
    | nil =>
      have hce : cur.isEmpty = false := by cases cur <;> simp_all
      have hall : allUpper (cur ++ [u]) = true :=
        allUpper_of_all_upper _ (all_upper_append hcu (by simp [hus.1]))
      rw [goLoop_cons]
      simp [hp, firstAfterInitialism, upper_ne_underscore u hus.1, upper_ne_dash u hus.1, hus.1, hce, hall]
    | cons q r =>
      have hq : isUpperA q = true := by
        have := hus.2; simp only [List.all_cons, Bool.and_eq_true] at this; exact this.1
      have hfa : firstAfterInitialism u (q :: r) = false :=
        firstAfter_false_of_head u _ (fun r2 tl e => by cases e; exact not_lower_of_upper _ hq)
      rw [goLoop_cons]
      simp only [hp, hfa, upper_tagB u hus.1, List.isEmpty_cons]
      simp only [Bool.and_false, Bool.or_self, Bool.false_and, Bool.false_eq_true, if_false]
      rw [ih (by simp) hus.2 (some u) (cur ++ [u]) (by simp [prevLower, not_lower_of_upper u hus.1])
        (by simp) (all_upper_append hcu (by simp [hus.1]))]
      simp

theorem scanOnce_noprefix (inits : List Str) (s : Str) (w : Words) (f : Bool)
    (h : ∀ i ∈ inits, i.isPrefixOf s = false) : scanOnce inits s w f = (s, w, f) := by
  induction inits generalizing w f with
  | nil => rfl
  | cons i is ih =>
    simp only [scanOnce, h i List.mem_cons_self, Bool.false_eq_true, if_false]
    exact ih w f (fun j hj => h j (List.mem_cons_of_mem _ hj))

theorem initialisms_long : ∀ i ∈ initialisms, 2 ≤ i.length := by decide

/-- no initialism has a single character, so a single upper-case character is one word -/
theorem extract_single (u : Char) : extractInitialismsWith initialisms [u] = [lowerS [u]] := by
  have hnp : ∀ i ∈ initialisms, i.isPrefixOf [u] = false := by
    intro i hi
    have := initialisms_long i hi
    match i, this with
    | a :: b :: r, _ => simp [List.isPrefixOf]
  simp only [extractInitialismsWith, extractLoop, scanOnce_noprefix _ _ _ _ hnp]
  rfl

/-- non-empty all-upper-case segments are separator-stable -/
theorem sepStable_upper (us : Str) (hne : us ≠ []) (hus : us.all isUpperA = true) : SepStable us := by
  rw [sepStable_iff]
  unfold goTagWords
  rw [goLoop_uppers_sep _ us hus none rfl, List.nil_append, flushWord_upper _ _ us hne hus, List.nil_append]
  match us, hne, hus with
  | [u], _, hus =>
    simp only [List.all_cons, Bool.and_eq_true] at hus
    rw [goLoop_cons]
    simp [prevLower, firstAfterInitialism, upper_ne_underscore u hus.1, upper_ne_dash u hus.1, hus.1, extract_single,
      goLoop_nil]
  | u :: v :: tl, _, hus =>
    simp only [List.all_cons, Bool.and_eq_true] at hus
    have hfa : firstAfterInitialism u (v :: tl) = false :=
      firstAfter_false_of_head u _ (fun r2 t e => by cases e; exact not_lower_of_upper _ hus.2.1)
    rw [goLoop_cons]
    simp only [prevLower, hfa, upper_tagB u hus.1, List.isEmpty_cons]
    simp only [Bool.and_false, Bool.or_self, Bool.false_and, Bool.false_eq_true, if_false]
    rw [goLoop_uppers_eos _ (v :: tl) (by simp) (by simp [hus.2.1, hus.2.2]) (some u) _ _
      (by simp [prevLower, not_lower_of_upper u hus.1]) (by simp) (by simp [hus.1])]
    simp

/-! #### capitalised segments: an upper-case letter, a lower-case letter, then no upper-case -/

theorem sepStable_cap (c d : Char) (tl : Str) (hc : isUpperA c = true) (hd : isLowerA d = true)
    (htl : ∀ x ∈ tl, isUpperA x = false ∧ tagB x = false) :
    SepStable (c :: d :: tl) ∧ goTagWords (c :: d :: tl) = [lowerS (c :: d :: tl)] := by
  have hpl : ∀ x ∈ d :: tl, isUpperA x = false ∧ tagB x = false := by
    intro x hx
    rcases List.mem_cons.1 hx with rfl | hx
    · exact ⟨not_upper_of_lower _ hd, by simp [lower_ne_underscore _ hd, lower_ne_dash _ hd]⟩
    · exact htl x hx
  have hau : allUpper (c :: d :: tl) = false :=
    allUpper_false_of_lower _ ⟨d, by simp, hd⟩
  have h1 : goTagWords (c :: d :: tl) = [lowerS (c :: d :: tl)] := by
    unfold goTagWords
    rw [goLoop_cons]
    by_cases hfa : firstAfterInitialism c (d :: tl) = true
    · simp only [hfa, Bool.or_true, Bool.true_or, if_true, upper_tagB c hc, Bool.false_eq_true, if_false,
        flushWord_nil]
      rw [goLoop_plain_eos _ _ hpl]; simp
    · simp only [hfa, prevLower, upper_tagB c hc, List.isEmpty_cons]
      simp only [Bool.and_false, Bool.or_self, Bool.false_and, Bool.false_eq_true, if_false]
      rw [goLoop_plain_eos _ _ hpl]; simp
  have h2 : goTagWords ((c :: d :: tl) ++ ['_']) = [lowerS (c :: d :: tl)] := by
    unfold goTagWords
    have hfa : firstAfterInitialism c (d :: (tl ++ ['_'])) = true :=
      firstAfter_true c d _ hc hd (by simp)
    rw [List.cons_append, List.cons_append, goLoop_cons]
    simp only [hfa, Bool.or_true, Bool.true_or, if_true, upper_tagB c hc, Bool.false_eq_true, if_false,
      flushWord_nil]
    have := goLoop_plain_sep initialisms (d :: tl) hpl (some c) [c] []
    rw [List.cons_append] at this
    rw [this]
    simp [flushWord, hau]
  exact ⟨by rw [sepStable_iff, h1, h2], h1⟩

end Dials.CaseConv
