/-
Helper lemmas for C03: the fuel-driven deep copier of `Model/Heap.lean` is related to a big-step
relation (`Run0`: arbitrary heaps, `Run h`: heaps well-formed w.r.t. the original heap `h`), on which
the frame, freshness, isomorphism and termination arguments are carried out by rule induction.
-/
import DialsModel.Model.HeapSpec

namespace Dials.Heap

/-! ## fuel monotonicity -/

theorem fuel_mono_all (f : Nat) :
    (∀ s v r, copyV f s v = some r → copyV (f + 1) s v = some r) ∧
    (∀ s fs r, copyFs f s fs = some r → copyFs (f + 1) s fs = some r) ∧
    (∀ s a' es r, copyEntries f s a' es = some r → copyEntries (f + 1) s a' es = some r) ∧
    (∀ s a' i es r, copyElems f s a' i es = some r → copyElems (f + 1) s a' i es = some r) := by
  induction f with
  | zero =>
    refine ⟨?_, ?_, ?_, ?_⟩ <;> intros <;> simp_all [copyV, copyFs, copyEntries, copyElems]
  | succ f ih =>
    obtain ⟨ihV, ihFs, ihEn, ihEl⟩ := ih
    refine ⟨?_, ?_, ?_, ?_⟩
    · intro s v r h
      cases v with
      | sc n => simpa [copyV] using h
      | nil => simpa [copyV] using h
      | ptr a =>
        simp only [copyV] at h ⊢
        split at h
        · exact h
        · split at h
          · split at h
            · rename_i s2 v' h2
              rw [ihV _ _ _ h2]; exact h
            · cases h
          · exact h
      | mp a =>
        simp only [copyV] at h ⊢
        split at h
        · exact h
        · split at h
          · split at h
            · rename_i s2 h2
              rw [ihEn _ _ _ _ h2]; exact h
            · cases h
          · exact h
      | sl a len =>
        simp only [copyV] at h ⊢
        split at h
        · split at h
          · rename_i s2 h2
            rw [ihEl _ _ _ _ _ h2]; exact h
          · cases h
        · exact h
      | st fs =>
        simp only [copyV] at h ⊢
        split at h
        · rename_i s2 v' h2
          rw [ihFs _ _ _ h2]; exact h
        · cases h
      | ar fs =>
        simp only [copyV] at h ⊢
        split at h
        · rename_i s2 v' h2
          rw [ihFs _ _ _ h2]; exact h
        · cases h
      | ifc d =>
        simp only [copyV] at h ⊢
        split at h
        · rename_i s2 v' h2
          rw [ihV _ _ _ h2]; exact h
        · cases h
    · intro s fs r h
      cases fs with
      | nil => simpa [copyFs] using h
      | cons ex v rest =>
        cases ex
        · simp only [copyFs, Bool.false_eq_true, ↓reduceIte] at h ⊢
          split at h
          · rename_i s2 r' h2
            rw [ihFs _ _ _ h2]; exact h
          · cases h
        · simp only [copyFs, ↓reduceIte] at h ⊢
          split at h
          · rename_i s1 v' h1
            split at h
            · rename_i s2 r' h2
              rw [ihV _ _ _ h1]; simp only []; rw [ihFs _ _ _ h2]; exact h
            · cases h
          · cases h
    · intro s a' es r h
      cases es with
      | nil => simpa [copyEntries] using h
      | cons p rest =>
        obtain ⟨k, v⟩ := p
        simp only [copyEntries] at h ⊢
        split at h
        · rename_i s1 k' h1
          split at h
          · rename_i s2 v' h2
            rw [ihV _ _ _ h1]; simp only []; rw [ihV _ _ _ h2]; simp only []
            exact ihEn _ _ _ _ h
          · cases h
        · cases h
    · intro s a' i es r h
      cases es with
      | nil => simpa [copyElems] using h
      | cons v rest =>
        simp only [copyElems] at h ⊢
        split at h
        · rename_i s1 v' h1
          rw [ihV _ _ _ h1]; simp only []
          exact ihEl _ _ _ _ _ h
        · cases h


theorem fuel_mono_add (f d : Nat) :
    (∀ s v r, copyV f s v = some r → copyV (f + d) s v = some r) ∧
    (∀ s fs r, copyFs f s fs = some r → copyFs (f + d) s fs = some r) ∧
    (∀ s a' es r, copyEntries f s a' es = some r → copyEntries (f + d) s a' es = some r) ∧
    (∀ s a' i es r, copyElems f s a' i es = some r → copyElems (f + d) s a' i es = some r) := by
  induction d with
  | zero => exact ⟨fun _ _ _ h => h, fun _ _ _ h => h, fun _ _ _ _ h => h, fun _ _ _ _ _ h => h⟩
  | succ d ih =>
    obtain ⟨i1, i2, i3, i4⟩ := ih
    obtain ⟨m1, m2, m3, m4⟩ := fuel_mono_all (f + d)
    exact ⟨fun s v r h => m1 _ _ _ (i1 s v r h), fun s v r h => m2 _ _ _ (i2 s v r h),
      fun s a es r h => m3 _ _ _ _ (i3 s a es r h), fun s a i es r h => m4 _ _ _ _ _ (i4 s a i es r h)⟩

theorem copyV_mono {f f' : Nat} (hle : f ≤ f') {s v r} (h : copyV f s v = some r) : copyV f' s v = some r := by
  obtain ⟨d, rfl⟩ := Nat.exists_eq_add_of_le hle
  exact (fuel_mono_add f d).1 _ _ _ h
theorem copyFs_mono {f f' : Nat} (hle : f ≤ f') {s v r} (h : copyFs f s v = some r) : copyFs f' s v = some r := by
  obtain ⟨d, rfl⟩ := Nat.exists_eq_add_of_le hle
  exact (fuel_mono_add f d).2.1 _ _ _ h
theorem copyEntries_mono {f f' : Nat} (hle : f ≤ f') {s a es r} (h : copyEntries f s a es = some r) :
    copyEntries f' s a es = some r := by
  obtain ⟨d, rfl⟩ := Nat.exists_eq_add_of_le hle
  exact (fuel_mono_add f d).2.2.1 _ _ _ _ h
theorem copyElems_mono {f f' : Nat} (hle : f ≤ f') {s a i es r} (h : copyElems f s a i es = some r) :
    copyElems f' s a i es = some r := by
  obtain ⟨d, rfl⟩ := Nat.exists_eq_add_of_le hle
  exact (fuel_mono_add f d).2.2.2 _ _ _ _ _ h

/-! ## the self-containing slice exhausts any fuel (D17) -/

theorem self_slice_none (f : Nat) : ∀ s : CS, s.heap[0]? = some (.arr [.ifc (.sl 0 1)]) →
    copyV f s (.sl 0 1) = none ∧ copyV f s (.ifc (.sl 0 1)) = none ∧
    ∀ a' i, copyElems f s a' i [.ifc (.sl 0 1)] = none := by
  induction f with
  | zero => intro s _; simp [copyV, copyElems]
  | succ f ih =>
    intro s hs
    have hlen : 0 < s.heap.length := by
      cases hh : s.heap with
      | nil => rw [hh] at hs; simp at hs
      | cons _ _ => simp
    refine ⟨?_, ?_, ?_⟩
    · simp only [copyV, hs]
      have h1 := (ih { s with heap := s.heap ++ [.arr ([HV.ifc (.sl 0 1)].map fun _ => .nil)] }
        (by simp only [List.getElem?_append_left hlen]; exact hs)).2.2 s.heap.length 0
      rw [h1]
    · simp only [copyV, (ih s hs).1]
    · intro a' i
      simp only [copyElems, (ih s hs).2.1]

/-! ## big-step relation -/

inductive Task where
  | v (v : HV)
  | fs (fs : HFs)
  | ents (a' : Nat) (es : List (HV × HV))
  | elems (a' i : Nat) (es : List HV)

/-- results; for the two loops the list of copies is a ghost result -/
inductive Res where
  | v (v : HV)
  | fs (fs : HFs)
  | ents (es : List (HV × HV))
  | elems (es : List HV)

/-- big-step semantics of the copier on arbitrary heaps -/
inductive Run0 : CS → Task → CS → Res → Prop
  | sc (s : CS) (n : Nat) : Run0 s (.v (.sc n)) s (.v (.sc n))
  | nil (s : CS) : Run0 s (.v .nil) s (.v .nil)
  | ptrHit (s : CS) (a a' : Nat) : lookup s.pmemo a = some a' → Run0 s (.v (.ptr a)) s (.v (.ptr a'))
  | ptrNew (s : CS) (a : Nat) (v : HV) (s2 : CS) (v' : HV) : lookup s.pmemo a = none →
      s.heap[a]? = some (.val v) →
      Run0 { s with heap := s.heap ++ [.val .nil], pmemo := (a, s.heap.length) :: s.pmemo } (.v v) s2 (.v v') →
      Run0 s (.v (.ptr a)) { s2 with heap := setCell s2.heap s.heap.length (.val v') } (.v (.ptr s.heap.length))
  | ptrDang (s : CS) (a : Nat) : lookup s.pmemo a = none → (∀ v, s.heap[a]? ≠ some (.val v)) →
      Run0 s (.v (.ptr a)) s (.v (.ptr a))
  | mpHit (s : CS) (a a' : Nat) : lookup s.mmemo a = some a' → Run0 s (.v (.mp a)) s (.v (.mp a'))
  | mpNew (s : CS) (a : Nat) (es : List (HV × HV)) (s2 : CS) (es' : List (HV × HV)) : lookup s.mmemo a = none →
      s.heap[a]? = some (.mapc es) →
      Run0 { s with heap := s.heap ++ [.mapc []], mmemo := (a, s.heap.length) :: s.mmemo }
        (.ents s.heap.length es) s2 (.ents es') →
      Run0 s (.v (.mp a)) s2 (.v (.mp s.heap.length))
  | mpDang (s : CS) (a : Nat) : lookup s.mmemo a = none → (∀ es, s.heap[a]? ≠ some (.mapc es)) →
      Run0 s (.v (.mp a)) s (.v (.mp a))
  | slNew (s : CS) (a len : Nat) (es : List HV) (s2 : CS) (es' : List HV) :
      s.heap[a]? = some (.arr es) →
      Run0 { s with heap := s.heap ++ [.arr (es.map fun _ => .nil)] } (.elems s.heap.length 0 es) s2 (.elems es') →
      Run0 s (.v (.sl a len)) s2 (.v (.sl s.heap.length len))
  | slDang (s : CS) (a len : Nat) : (∀ es, s.heap[a]? ≠ some (.arr es)) →
      Run0 s (.v (.sl a len)) s (.v (.sl a len))
  | st (s : CS) (fs : HFs) (s' : CS) (fs' : HFs) : Run0 s (.fs fs) s' (.fs fs') → Run0 s (.v (.st fs)) s' (.v (.st fs'))
  | ar (s : CS) (fs : HFs) (s' : CS) (fs' : HFs) : Run0 s (.fs fs) s' (.fs fs') → Run0 s (.v (.ar fs)) s' (.v (.ar fs'))
  | ifc (s : CS) (d : HV) (s' : CS) (d' : HV) : Run0 s (.v d) s' (.v d') → Run0 s (.v (.ifc d)) s' (.v (.ifc d'))
  | fsNil (s : CS) : Run0 s (.fs .nil) s (.fs .nil)
  | fsConsE (s : CS) (v : HV) (rest : HFs) (s1 : CS) (v' : HV) (s2 : CS) (rest' : HFs) :
      Run0 s (.v v) s1 (.v v') → Run0 s1 (.fs rest) s2 (.fs rest') →
      Run0 s (.fs (.cons true v rest)) s2 (.fs (.cons true v' rest'))
  | fsConsU (s : CS) (v : HV) (rest : HFs) (s2 : CS) (rest' : HFs) :
      Run0 s (.fs rest) s2 (.fs rest') → Run0 s (.fs (.cons false v rest)) s2 (.fs (.cons false v rest'))
  | entsNil (s : CS) (a' : Nat) : Run0 s (.ents a' []) s (.ents [])
  | entsCons (s : CS) (a' : Nat) (k v : HV) (rest : List (HV × HV)) (s1 : CS) (k' : HV) (s2 : CS) (v' : HV)
      (s3 : CS) (rest' : List (HV × HV)) :
      Run0 s (.v k) s1 (.v k') → Run0 s1 (.v v) s2 (.v v') →
      Run0 { s2 with heap := addEntry s2.heap a' k' v' } (.ents a' rest) s3 (.ents rest') →
      Run0 s (.ents a' ((k, v) :: rest)) s3 (.ents ((k', v') :: rest'))
  | elemsNil (s : CS) (a' i : Nat) : Run0 s (.elems a' i []) s (.elems [])
  | elemsCons (s : CS) (a' i : Nat) (v : HV) (rest : List HV) (s1 : CS) (v' : HV) (s2 : CS) (rest' : List HV) :
      Run0 s (.v v) s1 (.v v') →
      Run0 { s1 with heap := setElem s1.heap a' i v' } (.elems a' (i + 1) rest) s2 (.elems rest') →
      Run0 s (.elems a' i (v :: rest)) s2 (.elems (v' :: rest'))

theorem sound0 (f : Nat) :
    (∀ s v s' v', copyV f s v = some (s', v') → Run0 s (.v v) s' (.v v')) ∧
    (∀ s fs s' fs', copyFs f s fs = some (s', fs') → Run0 s (.fs fs) s' (.fs fs')) ∧
    (∀ s a' es s', copyEntries f s a' es = some s' → ∃ es', Run0 s (.ents a' es) s' (.ents es')) ∧
    (∀ s a' i es s', copyElems f s a' i es = some s' → ∃ es', Run0 s (.elems a' i es) s' (.elems es')) := by
  induction f with
  | zero =>
    refine ⟨?_, ?_, ?_, ?_⟩ <;> intros <;> simp_all [copyV, copyFs, copyEntries, copyElems]
  | succ f ih =>
    obtain ⟨ihV, ihFs, ihEn, ihEl⟩ := ih
    refine ⟨?_, ?_, ?_, ?_⟩
    · intro s v s' r h
      cases v with
      | sc n =>
        simp only [copyV, Option.some.injEq, Prod.mk.injEq] at h
        obtain ⟨rfl, rfl⟩ := h; exact .sc _ _
      | nil =>
        simp only [copyV, Option.some.injEq, Prod.mk.injEq] at h
        obtain ⟨rfl, rfl⟩ := h; exact .nil _
      | ptr a =>
        simp only [copyV] at h
        split at h
        · rename_i a' hl
          simp only [Option.some.injEq, Prod.mk.injEq] at h
          obtain ⟨rfl, rfl⟩ := h; exact .ptrHit _ _ _ hl
        · rename_i hl
          split at h
          · rename_i v hv
            split at h
            · rename_i s2 v' h2
              simp only [Option.some.injEq, Prod.mk.injEq] at h
              obtain ⟨rfl, rfl⟩ := h
              exact .ptrNew _ _ _ _ _ hl hv (ihV _ _ _ _ h2)
            · cases h
          · rename_i hv
            simp only [Option.some.injEq, Prod.mk.injEq] at h
            obtain ⟨rfl, rfl⟩ := h
            exact .ptrDang _ _ hl (fun v hv' => hv v hv')
      | mp a =>
        simp only [copyV] at h
        split at h
        · rename_i a' hl
          simp only [Option.some.injEq, Prod.mk.injEq] at h
          obtain ⟨rfl, rfl⟩ := h; exact .mpHit _ _ _ hl
        · rename_i hl
          split at h
          · rename_i es hv
            split at h
            · rename_i s2 h2
              simp only [Option.some.injEq, Prod.mk.injEq] at h
              obtain ⟨rfl, rfl⟩ := h
              obtain ⟨es', hr⟩ := ihEn _ _ _ _ h2
              exact .mpNew _ _ _ _ _ hl hv hr
            · cases h
          · rename_i hv
            simp only [Option.some.injEq, Prod.mk.injEq] at h
            obtain ⟨rfl, rfl⟩ := h
            exact .mpDang _ _ hl (fun v hv' => hv v hv')
      | sl a len =>
        simp only [copyV] at h
        split at h
        · rename_i es hv
          split at h
          · rename_i s2 h2
            simp only [Option.some.injEq, Prod.mk.injEq] at h
            obtain ⟨rfl, rfl⟩ := h
            obtain ⟨es', hr⟩ := ihEl _ _ _ _ _ h2
            exact .slNew _ _ _ _ _ _ hv hr
          · cases h
        · rename_i hv
          simp only [Option.some.injEq, Prod.mk.injEq] at h
          obtain ⟨rfl, rfl⟩ := h
          exact .slDang _ _ _ (fun v hv' => hv v hv')
      | st fs =>
        simp only [copyV] at h
        split at h
        · rename_i s2 v' h2
          simp only [Option.some.injEq, Prod.mk.injEq] at h
          obtain ⟨rfl, rfl⟩ := h
          exact .st _ _ _ _ (ihFs _ _ _ _ h2)
        · cases h
      | ar fs =>
        simp only [copyV] at h
        split at h
        · rename_i s2 v' h2
          simp only [Option.some.injEq, Prod.mk.injEq] at h
          obtain ⟨rfl, rfl⟩ := h
          exact .ar _ _ _ _ (ihFs _ _ _ _ h2)
        · cases h
      | ifc d =>
        simp only [copyV] at h
        split at h
        · rename_i s2 v' h2
          simp only [Option.some.injEq, Prod.mk.injEq] at h
          obtain ⟨rfl, rfl⟩ := h
          exact .ifc _ _ _ _ (ihV _ _ _ _ h2)
        · cases h
    · intro s fs s' r h
      cases fs with
      | nil =>
        simp only [copyFs, Option.some.injEq, Prod.mk.injEq] at h
        obtain ⟨rfl, rfl⟩ := h; exact .fsNil _
      | cons ex v rest =>
        cases ex
        · simp only [copyFs, Bool.false_eq_true, ↓reduceIte] at h
          split at h
          · rename_i s2 r' h2
            simp only [Option.some.injEq, Prod.mk.injEq] at h
            obtain ⟨rfl, rfl⟩ := h
            exact .fsConsU _ _ _ _ _ (ihFs _ _ _ _ h2)
          · cases h
        · simp only [copyFs, ↓reduceIte] at h
          split at h
          · rename_i s1 v' h1
            split at h
            · rename_i s2 r' h2
              simp only [Option.some.injEq, Prod.mk.injEq] at h
              obtain ⟨rfl, rfl⟩ := h
              exact .fsConsE _ _ _ _ _ _ _ (ihV _ _ _ _ h1) (ihFs _ _ _ _ h2)
            · cases h
          · cases h
    · intro s a' es s' h
      cases es with
      | nil =>
        simp only [copyEntries, Option.some.injEq] at h
        subst h; exact ⟨[], .entsNil _ _⟩
      | cons p rest =>
        obtain ⟨k, v⟩ := p
        simp only [copyEntries] at h
        split at h
        · rename_i s1 k' h1
          split at h
          · rename_i s2 v' h2
            obtain ⟨rest', hr⟩ := ihEn _ _ _ _ h
            exact ⟨_, .entsCons _ _ _ _ _ _ _ _ _ _ _ (ihV _ _ _ _ h1) (ihV _ _ _ _ h2) hr⟩
          · cases h
        · cases h
    · intro s a' i es s' h
      cases es with
      | nil =>
        simp only [copyElems, Option.some.injEq] at h
        subst h; exact ⟨[], .elemsNil _ _ _⟩
      | cons v rest =>
        simp only [copyElems] at h
        split at h
        · rename_i s1 v' h1
          obtain ⟨rest', hr⟩ := ihEl _ _ _ _ _ h
          exact ⟨_, .elemsCons _ _ _ _ _ _ _ _ _ (ihV _ _ _ _ h1) hr⟩
        · cases h


/-! ## completeness of the relation w.r.t. fuel -/

def Exec (f : Nat) (s : CS) (t : Task) (s' : CS) (r : Res) : Prop :=
  match t, r with
  | .v v, .v v' => copyV f s v = some (s', v')
  | .fs fs, .fs fs' => copyFs f s fs = some (s', fs')
  | .ents a' es, .ents _ => copyEntries f s a' es = some s'
  | .elems a' i es, .elems _ => copyElems f s a' i es = some s'
  | _, _ => False

theorem complete0 {s t s' r} (hr : Run0 s t s' r) : ∃ f, ∀ f', f ≤ f' → Exec f' s t s' r := by
  induction hr with
  | sc s n => exact ⟨1, fun f' h => by obtain ⟨g, rfl⟩ : ∃ g, f' = g + 1 := ⟨f' - 1, by omega⟩; simp [Exec, copyV]⟩
  | nil s => exact ⟨1, fun f' h => by obtain ⟨g, rfl⟩ : ∃ g, f' = g + 1 := ⟨f' - 1, by omega⟩; simp [Exec, copyV]⟩
  | ptrHit s a a' hl =>
    exact ⟨1, fun f' h => by obtain ⟨g, rfl⟩ : ∃ g, f' = g + 1 := ⟨f' - 1, by omega⟩; simp [Exec, copyV, hl]⟩
  | ptrNew s a v s2 v' hl hv _ ih =>
    obtain ⟨f, hf⟩ := ih
    refine ⟨f + 1, fun f' h => ?_⟩
    obtain ⟨g, rfl⟩ : ∃ g, f' = g + 1 := ⟨f' - 1, by omega⟩
    have := hf g (by omega)
    simp only [Exec] at this ⊢
    simp only [copyV, hl, hv, this]
  | ptrDang s a hl hv =>
    refine ⟨1, fun f' h => ?_⟩
    obtain ⟨g, rfl⟩ : ∃ g, f' = g + 1 := ⟨f' - 1, by omega⟩
    simp only [Exec, copyV, hl]
  | mpHit s a a' hl =>
    exact ⟨1, fun f' h => by obtain ⟨g, rfl⟩ : ∃ g, f' = g + 1 := ⟨f' - 1, by omega⟩; simp [Exec, copyV, hl]⟩
  | mpNew s a es s2 es' hl hv _ ih =>
    obtain ⟨f, hf⟩ := ih
    refine ⟨f + 1, fun f' h => ?_⟩
    obtain ⟨g, rfl⟩ : ∃ g, f' = g + 1 := ⟨f' - 1, by omega⟩
    have := hf g (by omega)
    simp only [Exec] at this ⊢
    simp only [copyV, hl, hv, this]
  | mpDang s a hl hv =>
    refine ⟨1, fun f' h => ?_⟩
    obtain ⟨g, rfl⟩ : ∃ g, f' = g + 1 := ⟨f' - 1, by omega⟩
    simp only [Exec, copyV, hl]
  | slNew s a len es s2 es' hv _ ih =>
    obtain ⟨f, hf⟩ := ih
    refine ⟨f + 1, fun f' h => ?_⟩
    obtain ⟨g, rfl⟩ : ∃ g, f' = g + 1 := ⟨f' - 1, by omega⟩
    have := hf g (by omega)
    simp only [Exec] at this ⊢
    simp only [copyV, hv, this]
  | slDang s a len hv =>
    refine ⟨1, fun f' h => ?_⟩
    obtain ⟨g, rfl⟩ : ∃ g, f' = g + 1 := ⟨f' - 1, by omega⟩
    simp only [Exec, copyV]
  | st s fs s' fs' _ ih =>
    obtain ⟨f, hf⟩ := ih
    refine ⟨f + 1, fun f' h => ?_⟩
    obtain ⟨g, rfl⟩ : ∃ g, f' = g + 1 := ⟨f' - 1, by omega⟩
    have := hf g (by omega)
    simp only [Exec] at this ⊢
    simp only [copyV, this]
  | ar s fs s' fs' _ ih =>
    obtain ⟨f, hf⟩ := ih
    refine ⟨f + 1, fun f' h => ?_⟩
    obtain ⟨g, rfl⟩ : ∃ g, f' = g + 1 := ⟨f' - 1, by omega⟩
    have := hf g (by omega)
    simp only [Exec] at this ⊢
    simp only [copyV, this]
  | ifc s d s' d' _ ih =>
    obtain ⟨f, hf⟩ := ih
    refine ⟨f + 1, fun f' h => ?_⟩
    obtain ⟨g, rfl⟩ : ∃ g, f' = g + 1 := ⟨f' - 1, by omega⟩
    have := hf g (by omega)
    simp only [Exec] at this ⊢
    simp only [copyV, this]
  | fsNil s => exact ⟨1, fun f' h => by obtain ⟨g, rfl⟩ : ∃ g, f' = g + 1 := ⟨f' - 1, by omega⟩; simp [Exec, copyFs]⟩
  | fsConsE s v rest s1 v' s2 rest' _ _ ih1 ih2 =>
    obtain ⟨f1, hf1⟩ := ih1
    obtain ⟨f2, hf2⟩ := ih2
    refine ⟨f1 + f2 + 1, fun f' h => ?_⟩
    obtain ⟨g, rfl⟩ : ∃ g, f' = g + 1 := ⟨f' - 1, by omega⟩
    have h1 := hf1 g (by omega)
    have h2 := hf2 g (by omega)
    simp only [Exec] at h1 h2 ⊢
    simp only [copyFs, h1, h2, ↓reduceIte]
  | fsConsU s v rest s2 rest' _ ih =>
    obtain ⟨f, hf⟩ := ih
    refine ⟨f + 1, fun f' h => ?_⟩
    obtain ⟨g, rfl⟩ : ∃ g, f' = g + 1 := ⟨f' - 1, by omega⟩
    have := hf g (by omega)
    simp only [Exec] at this ⊢
    simp only [copyFs, this, Bool.false_eq_true, ↓reduceIte]
  | entsNil s a' => exact ⟨1, fun f' h => by obtain ⟨g, rfl⟩ : ∃ g, f' = g + 1 := ⟨f' - 1, by omega⟩; simp [Exec, copyEntries]⟩
  | entsCons s a' k v rest s1 k' s2 v' s3 rest' _ _ _ ih1 ih2 ih3 =>
    obtain ⟨f1, hf1⟩ := ih1
    obtain ⟨f2, hf2⟩ := ih2
    obtain ⟨f3, hf3⟩ := ih3
    refine ⟨f1 + f2 + f3 + 1, fun f' h => ?_⟩
    obtain ⟨g, rfl⟩ : ∃ g, f' = g + 1 := ⟨f' - 1, by omega⟩
    have h1 := hf1 g (by omega)
    have h2 := hf2 g (by omega)
    have h3 := hf3 g (by omega)
    simp only [Exec] at h1 h2 h3 ⊢
    simp only [copyEntries, h1, h2, h3]
  | elemsNil s a' i => exact ⟨1, fun f' h => by obtain ⟨g, rfl⟩ : ∃ g, f' = g + 1 := ⟨f' - 1, by omega⟩; simp [Exec, copyElems]⟩
  | elemsCons s a' i v rest s1 v' s2 rest' _ _ ih1 ih2 =>
    obtain ⟨f1, hf1⟩ := ih1
    obtain ⟨f2, hf2⟩ := ih2
    refine ⟨f1 + f2 + 1, fun f' h => ?_⟩
    obtain ⟨g, rfl⟩ : ∃ g, f' = g + 1 := ⟨f' - 1, by omega⟩
    have h1 := hf1 g (by omega)
    have h2 := hf2 g (by omega)
    simp only [Exec] at h1 h2 ⊢
    simp only [copyElems, h1, h2]


/-! ## memo and heap-operation facts -/

theorem lookup_nil (a : Nat) : lookup [] a = none := rfl

theorem lookup_cons (a b c : Nat) (m : List (Nat × Nat)) :
    lookup ((a, b) :: m) c = if a = c then some b else lookup m c := by
  unfold lookup
  by_cases h : a = c
  · simp [h]
  · simp [h]

/-- memo `m'` extends memo `m` -/
def Ext (m m' : List (Nat × Nat)) : Prop := ∀ a a', lookup m a = some a' → lookup m' a = some a'

theorem Ext.refl (m) : Ext m m := fun _ _ h => h
theorem Ext.trans {m1 m2 m3} (h1 : Ext m1 m2) (h2 : Ext m2 m3) : Ext m1 m3 := fun a a' h => h2 a a' (h1 a a' h)
theorem Ext.cons {m : List (Nat × Nat)} {a b : Nat} (h : lookup m a = none) : Ext m ((a, b) :: m) := by
  intro c c' hc
  rw [lookup_cons]
  by_cases hac : a = c
  · subst hac; rw [h] at hc; cases hc
  · simp [hac, hc]

@[simp] theorem setCell_length (h : Heap) (a c) : (setCell h a c).length = h.length := by simp [setCell]
@[simp] theorem addEntry_length (h : Heap) (a k v) : (addEntry h a k v).length = h.length := by
  unfold addEntry; split <;> simp
@[simp] theorem setElem_length (h : Heap) (a i v) : (setElem h a i v).length = h.length := by
  unfold setElem; split <;> simp

theorem setCell_ne (h : Heap) {a b : Nat} (c) (hne : b ≠ a) : (setCell h b c)[a]? = h[a]? := by
  simp [setCell, List.getElem?_set_ne hne]
theorem addEntry_ne (h : Heap) {a b : Nat} (k v) (hne : b ≠ a) : (addEntry h b k v)[a]? = h[a]? := by
  unfold addEntry; split <;> simp [List.getElem?_set_ne hne]
theorem setElem_ne (h : Heap) {a b : Nat} (i v) (hne : b ≠ a) : (setElem h b i v)[a]? = h[a]? := by
  unfold setElem; split <;> simp [List.getElem?_set_ne hne]

theorem setCell_eq (h : Heap) {a : Nat} (c) (hlt : a < h.length) : (setCell h a c)[a]? = some c := by
  simp [setCell, List.getElem?_set_self hlt]
theorem addEntry_eq (h : Heap) {a : Nat} {es} (k v) (he : h[a]? = some (.mapc es)) :
    (addEntry h a k v)[a]? = some (.mapc (es ++ [(k, v)])) := by
  have hlt : a < h.length := by
    rcases Nat.lt_or_ge a h.length with hlt | hge
    · exact hlt
    · rw [List.getElem?_eq_none hge] at he; cases he
  unfold addEntry; rw [he]; simp [List.getElem?_set_self hlt]
theorem setElem_eq (h : Heap) {a : Nat} {es} (i v) (he : h[a]? = some (.arr es)) :
    (setElem h a i v)[a]? = some (.arr (es.set i v)) := by
  have hlt : a < h.length := by
    rcases Nat.lt_or_ge a h.length with hlt | hge
    · exact hlt
    · rw [List.getElem?_eq_none hge] at he; cases he
  unfold setElem; rw [he]; simp [List.getElem?_set_self hlt]

theorem lt_of_getElem? {α} {l : List α} {a : Nat} {c : α} (h : l[a]? = some c) : a < l.length := by
  rcases Nat.lt_or_ge a l.length with hlt | hge
  · exact hlt
  · rw [List.getElem?_eq_none hge] at h; cases h

/-- `s'` is a later state than `s`: the heap only grew, the memos only grew, and every cell of `s`
other than the explicit write target `x` is unchanged -/
structure Pres (x : Option Nat) (s s' : CS) : Prop where
  len : s.heap.length ≤ s'.heap.length
  pm : Ext s.pmemo s'.pmemo
  mm : Ext s.mmemo s'.mmemo
  keep : ∀ a, a < s.heap.length → x ≠ some a → s'.heap[a]? = s.heap[a]?

theorem Pres.refl (x s) : Pres x s s := ⟨Nat.le_refl _, Ext.refl _, Ext.refl _, fun _ _ _ => rfl⟩
theorem Pres.trans {x s1 s2 s3} (h1 : Pres x s1 s2) (h2 : Pres x s2 s3) : Pres x s1 s3 :=
  ⟨Nat.le_trans h1.len h2.len, h1.pm.trans h2.pm, h1.mm.trans h2.mm,
    fun a ha hx => by rw [h2.keep a (Nat.lt_of_lt_of_le ha h1.len) hx, h1.keep a ha hx]⟩
theorem Pres.weaken {x s1 s2} (h : Pres none s1 s2) : Pres x s1 s2 :=
  ⟨h.len, h.pm, h.mm, fun a ha _ => h.keep a ha (by simp)⟩

def Task.tgt : Task → Option Nat
  | .v _ => none
  | .fs _ => none
  | .ents a' _ => some a'
  | .elems a' _ _ => some a'

theorem Pres.append (s : CS) (c : Cell) (pm mm) (hp : Ext s.pmemo pm) (hm : Ext s.mmemo mm) :
    Pres none s { heap := s.heap ++ [c], pmemo := pm, mmemo := mm } :=
  ⟨by simp, hp, hm, fun a ha _ => by simp [List.getElem?_append_left ha]⟩

theorem run0_pres {s t s' r} (hr : Run0 s t s' r) : Pres t.tgt s s' := by
  induction hr with
  | sc | nil | ptrHit | ptrDang | mpHit | mpDang | slDang | fsNil | entsNil | elemsNil => exact Pres.refl _ _
  | ptrNew s a v s2 v' hl hv _ ih =>
    have h1 := (Pres.append s (.val .nil) ((a, s.heap.length) :: s.pmemo) s.mmemo (Ext.cons hl) (Ext.refl _)).trans ih
    refine ⟨by simpa using h1.len, h1.pm, h1.mm, fun b hb hx => ?_⟩
    simp only
    rw [setCell_ne _ _ (by omega)]
    exact h1.keep b hb hx
  | mpNew s a es s2 es' hl hv _ ih =>
    have h0 := Pres.append s (.mapc []) s.pmemo ((a, s.heap.length) :: s.mmemo) (Ext.refl _) (Ext.cons hl)
    refine ⟨Nat.le_trans h0.len ih.len, h0.pm.trans ih.pm, h0.mm.trans ih.mm, fun b hb hx => ?_⟩
    rw [ih.keep b (Nat.lt_of_lt_of_le hb h0.len) (by simp [Task.tgt]; omega), h0.keep b hb hx]
  | slNew s a len es s2 es' hv _ ih =>
    have h0 := Pres.append s (.arr (es.map fun _ => .nil)) s.pmemo s.mmemo (Ext.refl _) (Ext.refl _)
    refine ⟨Nat.le_trans h0.len ih.len, h0.pm.trans ih.pm, h0.mm.trans ih.mm, fun b hb hx => ?_⟩
    rw [ih.keep b (Nat.lt_of_lt_of_le hb h0.len) (by simp [Task.tgt]; omega), h0.keep b hb hx]
  | st _ _ _ _ _ ih => exact ih
  | ar _ _ _ _ _ ih => exact ih
  | ifc _ _ _ _ _ ih => exact ih
  | fsConsE _ _ _ _ _ _ _ _ _ ih1 ih2 => exact ih1.trans ih2
  | fsConsU _ _ _ _ _ _ ih => exact ih
  | entsCons s a' k v rest s1 k' s2 v' s3 rest' _ _ _ ih1 ih2 ih3 =>
    have hmid : Pres (some a') s2 { s2 with heap := addEntry s2.heap a' k' v' } :=
      ⟨by simp, Ext.refl _, Ext.refl _, fun b _ hx => addEntry_ne _ _ _ (by simpa using hx)⟩
    exact ((ih1.trans ih2).weaken.trans hmid).trans ih3
  | elemsCons s a' i v rest s1 v' s2 rest' _ _ ih1 ih2 =>
    have hmid : Pres (some a') s1 { s1 with heap := setElem s1.heap a' i v' } :=
      ⟨by simp, Ext.refl _, Ext.refl _, fun b _ hx => setElem_ne _ _ _ (by simpa using hx)⟩
    exact (ih1.weaken.trans hmid).trans ih2


/-! ## runs over a well-formed original heap -/

/-- big-step semantics restricted to runs that only ever dereference cells of the original heap `h`
(no dangling references): the dereferenced cell is recorded both in `h` and in the current heap -/
inductive Run (h : Heap) : CS → Task → CS → Res → Prop
  | sc (s : CS) (n : Nat) : Run h s (.v (.sc n)) s (.v (.sc n))
  | nil (s : CS) : Run h s (.v .nil) s (.v .nil)
  | ptrHit (s : CS) (a a' : Nat) : lookup s.pmemo a = some a' → Run h s (.v (.ptr a)) s (.v (.ptr a'))
  | ptrNew (s : CS) (a : Nat) (v : HV) (s2 : CS) (v' : HV) : lookup s.pmemo a = none →
      h[a]? = some (.val v) → s.heap[a]? = some (.val v) →
      Run h { s with heap := s.heap ++ [.val .nil], pmemo := (a, s.heap.length) :: s.pmemo } (.v v) s2 (.v v') →
      Run h s (.v (.ptr a)) { s2 with heap := setCell s2.heap s.heap.length (.val v') } (.v (.ptr s.heap.length))
  | mpHit (s : CS) (a a' : Nat) : lookup s.mmemo a = some a' → Run h s (.v (.mp a)) s (.v (.mp a'))
  | mpNew (s : CS) (a : Nat) (es : List (HV × HV)) (s2 : CS) (es' : List (HV × HV)) : lookup s.mmemo a = none →
      h[a]? = some (.mapc es) → s.heap[a]? = some (.mapc es) →
      Run h { s with heap := s.heap ++ [.mapc []], mmemo := (a, s.heap.length) :: s.mmemo }
        (.ents s.heap.length es) s2 (.ents es') →
      Run h s (.v (.mp a)) s2 (.v (.mp s.heap.length))
  | slNew (s : CS) (a len : Nat) (es : List HV) (s2 : CS) (es' : List HV) :
      h[a]? = some (.arr es) → s.heap[a]? = some (.arr es) →
      Run h { s with heap := s.heap ++ [.arr (es.map fun _ => .nil)] } (.elems s.heap.length 0 es) s2 (.elems es') →
      Run h s (.v (.sl a len)) s2 (.v (.sl s.heap.length len))
  | st (s : CS) (fs : HFs) (s' : CS) (fs' : HFs) : Run h s (.fs fs) s' (.fs fs') → Run h s (.v (.st fs)) s' (.v (.st fs'))
  | ar (s : CS) (fs : HFs) (s' : CS) (fs' : HFs) : Run h s (.fs fs) s' (.fs fs') → Run h s (.v (.ar fs)) s' (.v (.ar fs'))
  | ifc (s : CS) (d : HV) (s' : CS) (d' : HV) : Run h s (.v d) s' (.v d') → Run h s (.v (.ifc d)) s' (.v (.ifc d'))
  | fsNil (s : CS) : Run h s (.fs .nil) s (.fs .nil)
  | fsConsE (s : CS) (v : HV) (rest : HFs) (s1 : CS) (v' : HV) (s2 : CS) (rest' : HFs) :
      Run h s (.v v) s1 (.v v') → Run h s1 (.fs rest) s2 (.fs rest') →
      Run h s (.fs (.cons true v rest)) s2 (.fs (.cons true v' rest'))
  | fsConsU (s : CS) (v : HV) (rest : HFs) (s2 : CS) (rest' : HFs) :
      Run h s (.fs rest) s2 (.fs rest') → Run h s (.fs (.cons false v rest)) s2 (.fs (.cons false v rest'))
  | entsNil (s : CS) (a' : Nat) : Run h s (.ents a' []) s (.ents [])
  | entsCons (s : CS) (a' : Nat) (k v : HV) (rest : List (HV × HV)) (s1 : CS) (k' : HV) (s2 : CS) (v' : HV)
      (s3 : CS) (rest' : List (HV × HV)) :
      Run h s (.v k) s1 (.v k') → Run h s1 (.v v) s2 (.v v') →
      Run h { s2 with heap := addEntry s2.heap a' k' v' } (.ents a' rest) s3 (.ents rest') →
      Run h s (.ents a' ((k, v) :: rest)) s3 (.ents ((k', v') :: rest'))
  | elemsNil (s : CS) (a' i : Nat) : Run h s (.elems a' i []) s (.elems [])
  | elemsCons (s : CS) (a' i : Nat) (v : HV) (rest : List HV) (s1 : CS) (v' : HV) (s2 : CS) (rest' : List HV) :
      Run h s (.v v) s1 (.v v') →
      Run h { s1 with heap := setElem s1.heap a' i v' } (.elems a' (i + 1) rest) s2 (.elems rest') →
      Run h s (.elems a' i (v :: rest)) s2 (.elems (v' :: rest'))

theorem Run.toRun0 {h s t s' r} (hr : Run h s t s' r) : Run0 s t s' r := by
  induction hr with
  | sc => exact .sc _ _
  | nil => exact .nil _
  | ptrHit _ _ _ hl => exact .ptrHit _ _ _ hl
  | ptrNew _ _ _ _ _ hl _ hv _ ih => exact .ptrNew _ _ _ _ _ hl hv ih
  | mpHit _ _ _ hl => exact .mpHit _ _ _ hl
  | mpNew _ _ _ _ _ hl _ hv _ ih => exact .mpNew _ _ _ _ _ hl hv ih
  | slNew _ _ _ _ _ _ _ hv _ ih => exact .slNew _ _ _ _ _ _ hv ih
  | st _ _ _ _ _ ih => exact .st _ _ _ _ ih
  | ar _ _ _ _ _ ih => exact .ar _ _ _ _ ih
  | ifc _ _ _ _ _ ih => exact .ifc _ _ _ _ ih
  | fsNil => exact .fsNil _
  | fsConsE _ _ _ _ _ _ _ _ _ ih1 ih2 => exact .fsConsE _ _ _ _ _ _ _ ih1 ih2
  | fsConsU _ _ _ _ _ _ ih => exact .fsConsU _ _ _ _ _ ih
  | entsNil => exact .entsNil _ _
  | entsCons _ _ _ _ _ _ _ _ _ _ _ _ _ _ ih1 ih2 ih3 => exact .entsCons _ _ _ _ _ _ _ _ _ _ _ ih1 ih2 ih3
  | elemsNil => exact .elemsNil _ _ _
  | elemsCons _ _ _ _ _ _ _ _ _ _ _ ih1 ih2 => exact .elemsCons _ _ _ _ _ _ _ _ _ ih1 ih2

theorem run_pres {h s t s' r} (hr : Run h s t s' r) : Pres t.tgt s s' := run0_pres hr.toRun0

/-- the current heap still contains the original heap `h` as a prefix -/
structure Ctx (h : Heap) (s : CS) : Prop where
  len : h.length ≤ s.heap.length
  agree : ∀ a, a < h.length → s.heap[a]? = h[a]?

theorem Ctx.pres {h s s' x} (hc : Ctx h s) (hp : Pres x s s') (hx : ∀ a', x = some a' → h.length ≤ a') : Ctx h s' :=
  ⟨Nat.le_trans hc.len hp.len, fun a ha => by
    rw [hp.keep a (Nat.lt_of_lt_of_le ha hc.len) (fun he => by have := hx a he; omega), hc.agree a ha]⟩

def okTask (h : Heap) : Task → Prop
  | .v v => okV h v = true
  | .fs fs => okFs h fs = true
  | .ents a' es => h.length ≤ a' ∧ ∀ p ∈ es, okV h p.1 = true ∧ okV h p.2 = true
  | .elems a' _ es => h.length ≤ a' ∧ ∀ v ∈ es, okV h v = true

def CellsOK (h : Heap) : Prop := ∀ (a : Nat) (c : Cell), h[a]? = some c → okCell h c = true

theorem CellsOK.of_all {h : Heap} (hw : h.all (okCell h) = true) : CellsOK h := by
  intro a c hc
  rw [List.all_eq_true] at hw
  exact hw c (List.mem_of_getElem? hc)

theorem okV_ptr {h : Heap} {a} (hk : okV h (.ptr a) = true) : ∃ v, h[a]? = some (.val v) := by
  simp only [okV] at hk; split at hk
  · rename_i v hv; exact ⟨v, hv⟩
  · cases hk
theorem okV_mp {h : Heap} {a} (hk : okV h (.mp a) = true) : ∃ es, h[a]? = some (.mapc es) := by
  simp only [okV] at hk; split at hk
  · rename_i v hv; exact ⟨v, hv⟩
  · cases hk
theorem okV_sl {h : Heap} {a len} (hk : okV h (.sl a len) = true) : ∃ es, h[a]? = some (.arr es) := by
  simp only [okV] at hk; split at hk
  · rename_i v hv; exact ⟨v, hv⟩
  · cases hk

theorem CellsOK.val {h : Heap} (hc : CellsOK h) {a : Nat} {v : HV} (ha : h[a]? = some (.val v)) : okV h v = true := by
  have := hc a _ ha; simpa [okCell] using this
theorem CellsOK.mapc {h : Heap} (hc : CellsOK h) {a : Nat} {es : List (HV × HV)} (ha : h[a]? = some (.mapc es)) :
    ∀ p ∈ es, okV h p.1 = true ∧ okV h p.2 = true := by
  have := hc a _ ha
  simp only [okCell, List.all_eq_true, Bool.and_eq_true] at this
  exact this
theorem CellsOK.arr {h : Heap} (hc : CellsOK h) {a : Nat} {es : List HV} (ha : h[a]? = some (.arr es)) :
    ∀ v ∈ es, okV h v = true := by
  have := hc a _ ha
  simp only [okCell, List.all_eq_true] at this
  exact this

theorem run0_wf {h : Heap} (hcells : CellsOK h) {s t s' r} (hr : Run0 s t s' r) :
    Ctx h s → okTask h t → Run h s t s' r := by
  induction hr with
  | sc => intro _ _; exact .sc _ _
  | nil => intro _ _; exact .nil _
  | ptrHit _ _ _ hl => intro _ _; exact .ptrHit _ _ _ hl
  | ptrNew s a v s2 v' hl hv _ ih =>
    intro hc hk
    obtain ⟨v0, hv0⟩ := okV_ptr hk
    have hv1 : h[a]? = some (.val v) := by rw [← hc.agree a (lt_of_getElem? hv0)]; exact hv
    refine .ptrNew _ _ _ _ _ hl hv1 hv (ih ?_ (hcells.val hv1))
    exact hc.pres (Pres.append s _ _ _ (Ext.cons hl) (Ext.refl _)) (by simp)
  | ptrDang s a hl hv =>
    intro hc hk
    obtain ⟨v0, hv0⟩ := okV_ptr hk
    exact absurd (by rw [hc.agree a (lt_of_getElem? hv0)]; exact hv0) (hv v0)
  | mpHit _ _ _ hl => intro _ _; exact .mpHit _ _ _ hl
  | mpNew s a es s2 es' hl hv _ ih =>
    intro hc hk
    obtain ⟨v0, hv0⟩ := okV_mp hk
    have hv1 : h[a]? = some (.mapc es) := by rw [← hc.agree a (lt_of_getElem? hv0)]; exact hv
    refine .mpNew _ _ _ _ _ hl hv1 hv (ih ?_ ⟨hc.len, hcells.mapc hv1⟩)
    exact hc.pres (Pres.append s _ _ _ (Ext.refl _) (Ext.cons hl)) (by simp)
  | mpDang s a hl hv =>
    intro hc hk
    obtain ⟨v0, hv0⟩ := okV_mp hk
    exact absurd (by rw [hc.agree a (lt_of_getElem? hv0)]; exact hv0) (hv v0)
  | slNew s a len es s2 es' hv _ ih =>
    intro hc hk
    obtain ⟨v0, hv0⟩ := okV_sl hk
    have hv1 : h[a]? = some (.arr es) := by rw [← hc.agree a (lt_of_getElem? hv0)]; exact hv
    refine .slNew _ _ _ _ _ _ hv1 hv (ih ?_ ⟨hc.len, hcells.arr hv1⟩)
    exact hc.pres (Pres.append s _ _ _ (Ext.refl _) (Ext.refl _)) (by simp)
  | slDang s a len hv =>
    intro hc hk
    obtain ⟨v0, hv0⟩ := okV_sl hk
    exact absurd (by rw [hc.agree a (lt_of_getElem? hv0)]; exact hv0) (hv v0)
  | st _ _ _ _ _ ih => intro hc hk; exact .st _ _ _ _ (ih hc (by simpa [okTask, okV] using hk))
  | ar _ _ _ _ _ ih => intro hc hk; exact .ar _ _ _ _ (ih hc (by simpa [okTask, okV] using hk))
  | ifc _ _ _ _ _ ih => intro hc hk; exact .ifc _ _ _ _ (ih hc (by simpa [okTask, okV] using hk))
  | fsNil => intro _ _; exact .fsNil _
  | fsConsE s v rest s1 v' s2 rest' h1 _ ih1 ih2 =>
    intro hc hk
    simp only [okTask, okFs, Bool.and_eq_true] at hk
    exact .fsConsE _ _ _ _ _ _ _ (ih1 hc hk.1) (ih2 (hc.pres (run0_pres h1) (by simp [Task.tgt])) hk.2)
  | fsConsU s v rest s2 rest' _ ih =>
    intro hc hk
    simp only [okTask, okFs, Bool.and_eq_true] at hk
    exact .fsConsU _ _ _ _ _ (ih hc hk.2)
  | entsNil => intro _ _; exact .entsNil _ _
  | entsCons s a' k v rest s1 k' s2 v' s3 rest' h1 h2 _ ih1 ih2 ih3 =>
    intro hc hk
    obtain ⟨hle, hall⟩ := hk
    have hkv := hall (k, v) (by simp)
    have hc1 := hc.pres (run0_pres h1) (by simp [Task.tgt])
    have hc2 := hc1.pres (run0_pres h2) (by simp [Task.tgt])
    have hc3 : Ctx h { s2 with heap := addEntry s2.heap a' k' v' } :=
      ⟨by simpa using hc2.len, fun b hb => by
        simp only; rw [addEntry_ne _ _ _ (by omega)]; exact hc2.agree b hb⟩
    exact .entsCons _ _ _ _ _ _ _ _ _ _ _ (ih1 hc hkv.1) (ih2 hc1 hkv.2)
      (ih3 hc3 ⟨hle, fun p hp => hall p (List.mem_cons_of_mem _ hp)⟩)
  | elemsNil => intro _ _; exact .elemsNil _ _ _
  | elemsCons s a' i v rest s1 v' s2 rest' h1 _ ih1 ih2 =>
    intro hc hk
    obtain ⟨hle, hall⟩ := hk
    have hc1 := hc.pres (run0_pres h1) (by simp [Task.tgt])
    have hc2 : Ctx h { s1 with heap := setElem s1.heap a' i v' } :=
      ⟨by simpa using hc1.len, fun b hb => by
        simp only; rw [setElem_ne _ _ _ (by omega)]; exact hc1.agree b hb⟩
    exact .elemsCons _ _ _ _ _ _ _ _ _ (ih1 hc (hall v (by simp)))
      (ih2 hc2 ⟨hle, fun p hp => hall p (List.mem_cons_of_mem _ hp)⟩)


/-! ## freshness invariant -/

mutual
/-- every reference in an exported position of the value is `≥ m` -/
def frV (m : Nat) : HV → Prop
  | .sc _ => True
  | .nil => True
  | .ptr a => m ≤ a
  | .mp a => m ≤ a
  | .sl a _ => m ≤ a
  | .st fs => frFs m fs
  | .ar es => frFs m es
  | .ifc d => frV m d
def frFs (m : Nat) : HFs → Prop
  | .nil => True
  | .cons ex v rest => (ex = true → frV m v) ∧ frFs m rest
end

def frCell (m : Nat) : Cell → Prop
  | .val v => frV m v
  | .mapc es => ∀ p ∈ es, frV m p.1 ∧ frV m p.2
  | .arr es => ∀ v ∈ es, frV m v

def FreshHeap (m : Nat) (hp : Heap) : Prop := ∀ (a : Nat) (c : Cell), m ≤ a → hp[a]? = some c → frCell m c

def MemoB (m : Nat) (mem : List (Nat × Nat)) (n : Nat) : Prop :=
  ∀ a a', lookup mem a = some a' → m ≤ a' ∧ a' < n

structure Inv (m : Nat) (s : CS) : Prop where
  len : m ≤ s.heap.length
  fresh : FreshHeap m s.heap
  pb : MemoB m s.pmemo s.heap.length
  mb : MemoB m s.mmemo s.heap.length
  pinj : Injective s.pmemo
  minj : Injective s.mmemo

def frRes (m : Nat) : Res → Prop
  | .v v => frV m v
  | .fs fs => frFs m fs
  | .ents es => ∀ p ∈ es, frV m p.1 ∧ frV m p.2
  | .elems es => ∀ v ∈ es, frV m v

def tgtGe (m : Nat) (t : Task) : Prop := ∀ a', t.tgt = some a' → m ≤ a'

theorem FreshHeap.append {m hp} (hf : FreshHeap m hp) {c} (hc : frCell m c) : FreshHeap m (hp ++ [c]) := by
  intro a c' hma hg
  rcases Nat.lt_or_ge a hp.length with hlt | hge
  · rw [List.getElem?_append_left hlt] at hg; exact hf a c' hma hg
  · rw [List.getElem?_append_right hge] at hg
    cases hh : a - hp.length with
    | zero => rw [hh] at hg; simp at hg; subst hg; exact hc
    | succ n => rw [hh] at hg; simp at hg

theorem FreshHeap.set {m hp} (hf : FreshHeap m hp) (a : Nat) {c} (hc : frCell m c) : FreshHeap m (hp.set a c) := by
  intro b c' hmb hg
  rw [List.getElem?_set] at hg
  split at hg
  · split at hg
    · cases hg; exact hc
    · cases hg
  · exact hf b c' hmb hg

theorem FreshHeap.addEntry {m hp} (hf : FreshHeap m hp) {a : Nat} (hma : m ≤ a) {k v} (hk : frV m k) (hv : frV m v) :
    FreshHeap m (addEntry hp a k v) := by
  unfold Dials.Heap.addEntry
  split
  · rename_i es he
    refine hf.set a ?_
    intro p hp'
    rcases List.mem_append.mp hp' with h1 | h1
    · exact hf a _ hma he p h1
    · simp at h1; subst h1; exact ⟨hk, hv⟩
  · exact hf

theorem FreshHeap.setElem {m hp} (hf : FreshHeap m hp) {a : Nat} (hma : m ≤ a) (i : Nat) {v} (hv : frV m v) :
    FreshHeap m (setElem hp a i v) := by
  unfold Dials.Heap.setElem
  split
  · rename_i es he
    refine hf.set a ?_
    intro w hw
    rcases List.mem_or_eq_of_mem_set hw with h1 | h1
    · exact hf a _ hma he w h1
    · subst h1; exact hv
  · exact hf

theorem MemoB.mono {m mem n n'} (h : MemoB m mem n) (hn : n ≤ n') : MemoB m mem n' :=
  fun a a' hl => ⟨(h a a' hl).1, Nat.lt_of_lt_of_le (h a a' hl).2 hn⟩

theorem MemoB.cons {m mem n} (h : MemoB m mem n) (a : Nat) (hmn : m ≤ n) : MemoB m ((a, n) :: mem) (n + 1) := by
  intro b b' hl
  rw [lookup_cons] at hl
  split at hl
  · cases hl; exact ⟨hmn, Nat.lt_succ_self _⟩
  · have := h b b' hl; exact ⟨this.1, Nat.lt_succ_of_lt this.2⟩

theorem Injective.cons {m mem n} (hb : MemoB m mem n) (hi : Injective mem) (a : Nat) : Injective ((a, n) :: mem) := by
  intro x y c hx hy
  rw [lookup_cons] at hx hy
  split at hx <;> split at hy
  · subst_vars; rfl
  · cases hx; have := (hb y _ hy).2; omega
  · cases hy; have := (hb x _ hx).2; omega
  · exact hi x y c hx hy

theorem run_inv {h : Heap} (m : Nat) {s t s' r} (hr : Run h s t s' r) :
    Inv m s → tgtGe m t → Inv m s' ∧ frRes m r := by
  induction hr with
  | sc => intro hi _; exact ⟨hi, trivial⟩
  | nil => intro hi _; exact ⟨hi, trivial⟩
  | ptrHit s a a' hl => intro hi _; exact ⟨hi, (hi.pb a a' hl).1⟩
  | ptrNew s a v s2 v' hl _ hv hrun ih =>
    intro hi _
    have hi1 : Inv m { s with heap := s.heap ++ [.val .nil], pmemo := (a, s.heap.length) :: s.pmemo } :=
      ⟨by simp; exact Nat.le_succ_of_le hi.len, hi.fresh.append (c := .val .nil) trivial,
        by simpa using hi.pb.cons a hi.len, by simpa using hi.mb.mono (Nat.le_succ _),
        Injective.cons hi.pb hi.pinj a, hi.minj⟩
    obtain ⟨hi2, hv'⟩ := ih hi1 (by simp [tgtGe, Task.tgt])
    refine ⟨⟨by simpa using hi2.len, hi2.fresh.set _ (c := .val v') hv', by simpa using hi2.pb,
      by simpa using hi2.mb, hi2.pinj, hi2.minj⟩, hi.len⟩
  | mpHit s a a' hl => intro hi _; exact ⟨hi, (hi.mb a a' hl).1⟩
  | mpNew s a es s2 es' hl _ hv hrun ih =>
    intro hi _
    have hi1 : Inv m { s with heap := s.heap ++ [.mapc []], mmemo := (a, s.heap.length) :: s.mmemo } :=
      ⟨by simp; exact Nat.le_succ_of_le hi.len, hi.fresh.append (c := .mapc []) (by simp [frCell]),
        by simpa using hi.pb.mono (Nat.le_succ _), by simpa using hi.mb.cons a hi.len,
        hi.pinj, Injective.cons hi.mb hi.minj a⟩
    obtain ⟨hi2, _⟩ := ih hi1 (by simp [tgtGe, Task.tgt]; exact hi.len)
    exact ⟨hi2, hi.len⟩
  | slNew s a len es s2 es' _ hv hrun ih =>
    intro hi _
    have hi1 : Inv m { s with heap := s.heap ++ [.arr (es.map fun _ => .nil)] } :=
      ⟨by simp; exact Nat.le_succ_of_le hi.len,
        hi.fresh.append (c := .arr (es.map fun _ => .nil)) (by simp [frCell, frV]),
        by simpa using hi.pb.mono (Nat.le_succ _), by simpa using hi.mb.mono (Nat.le_succ _),
        hi.pinj, hi.minj⟩
    obtain ⟨hi2, _⟩ := ih hi1 (by simp [tgtGe, Task.tgt]; exact hi.len)
    exact ⟨hi2, hi.len⟩
  | st _ _ _ _ _ ih => intro hi _; simpa [frRes, frV] using ih hi (by simp [tgtGe, Task.tgt])
  | ar _ _ _ _ _ ih => intro hi _; simpa [frRes, frV] using ih hi (by simp [tgtGe, Task.tgt])
  | ifc _ _ _ _ _ ih => intro hi _; simpa [frRes, frV] using ih hi (by simp [tgtGe, Task.tgt])
  | fsNil => intro hi _; exact ⟨hi, trivial⟩
  | fsConsE s v rest s1 v' s2 rest' _ _ ih1 ih2 =>
    intro hi _
    obtain ⟨hi1, h1⟩ := ih1 hi (by simp [tgtGe, Task.tgt])
    obtain ⟨hi2, h2⟩ := ih2 hi1 (by simp [tgtGe, Task.tgt])
    exact ⟨hi2, fun _ => h1, h2⟩
  | fsConsU s v rest s2 rest' _ ih =>
    intro hi _
    obtain ⟨hi2, h2⟩ := ih hi (by simp [tgtGe, Task.tgt])
    exact ⟨hi2, fun hf => Bool.noConfusion hf, h2⟩
  | entsNil => intro hi _; exact ⟨hi, by simp [frRes]⟩
  | entsCons s a' k v rest s1 k' s2 v' s3 rest' _ _ _ ih1 ih2 ih3 =>
    intro hi ht
    have hma : m ≤ a' := ht a' rfl
    obtain ⟨hi1, h1⟩ := ih1 hi (by simp [tgtGe, Task.tgt])
    obtain ⟨hi2, h2⟩ := ih2 hi1 (by simp [tgtGe, Task.tgt])
    have hi2' : Inv m { s2 with heap := addEntry s2.heap a' k' v' } :=
      ⟨by simpa using hi2.len, hi2.fresh.addEntry hma h1 h2, by simpa using hi2.pb, by simpa using hi2.mb,
        hi2.pinj, hi2.minj⟩
    obtain ⟨hi3, h3⟩ := ih3 hi2' (by simp [tgtGe, Task.tgt]; exact hma)
    refine ⟨hi3, ?_⟩
    intro p hp
    rcases List.mem_cons.mp hp with rfl | hp
    · exact ⟨h1, h2⟩
    · exact h3 p hp
  | elemsNil => intro hi _; exact ⟨hi, by simp [frRes]⟩
  | elemsCons s a' i v rest s1 v' s2 rest' _ _ ih1 ih2 =>
    intro hi ht
    have hma : m ≤ a' := ht a' rfl
    obtain ⟨hi1, h1⟩ := ih1 hi (by simp [tgtGe, Task.tgt])
    have hi1' : Inv m { s1 with heap := setElem s1.heap a' i v' } :=
      ⟨by simpa using hi1.len, hi1.fresh.setElem hma i h1, by simpa using hi1.pb, by simpa using hi1.mb,
        hi1.pinj, hi1.minj⟩
    obtain ⟨hi2, h2⟩ := ih2 hi1' (by simp [tgtGe, Task.tgt]; exact hma)
    refine ⟨hi2, ?_⟩
    intro p hp
    rcases List.mem_cons.mp hp with rfl | hp
    · exact h1
    · exact h2 p hp


theorem reach_fresh {m : Nat} {hp : Heap} (hf : FreshHeap m hp) {v : HV} {a : Nat} (hr : ReachV hp v a) :
    frV m v → m ≤ a := by
  refine ReachV.rec (h := hp) (motive_1 := fun v a _ => frV m v → m ≤ a)
    (motive_2 := fun fs a _ => frFs m fs → m ≤ a) ?_ ?_ ?_ ?_ ?_ ?_ ?_ ?_ ?_ ?_ ?_ ?_ hr
  · intro a h; exact h
  · intro a v b hc _ ih h
    exact ih (hf a _ h hc)
  · intro a h; exact h
  · intro a es k v b hc hmem _ ih h
    exact ih (hf a _ h hc (k, v) hmem).1
  · intro a es k v b hc hmem _ ih h
    exact ih (hf a _ h hc (k, v) hmem).2
  · intro a len h; exact h
  · intro a len es v b hc hmem _ ih h
    exact ih (hf a _ h hc v hmem)
  · intro fs b _ ih h; exact ih h
  · intro fs b _ ih h; exact ih h
  · intro d b _ ih h; exact ih h
  · intro v rest b _ ih h; exact ih (h.1 rfl)
  · intro ex v rest b _ ih h; exact ih h.2


def CS.init (h : Heap) : CS := { heap := h, pmemo := [], mmemo := [] }

theorem deepCopy_run0 {f : Nat} {h : Heap} {v : HV} {h' : Heap} {v' : HV} (hc : deepCopy f h v = some (h', v')) :
    ∃ s', Run0 (CS.init h) (.v v) s' (.v v') ∧ s'.heap = h' := by
  unfold deepCopy at hc
  cases hcv : copyV f { heap := h, pmemo := [], mmemo := [] } v with
  | none => rw [hcv] at hc; cases hc
  | some p =>
    rw [hcv] at hc
    obtain ⟨s', w⟩ := p
    simp only [Option.map_some, Option.some.injEq, Prod.mk.injEq] at hc
    obtain ⟨rfl, rfl⟩ := hc
    exact ⟨s', (sound0 f).1 _ _ _ _ hcv, rfl⟩

theorem Ctx.init (h : Heap) : Ctx h (CS.init h) := ⟨Nat.le_refl _, fun _ _ => rfl⟩

theorem WF_split {h : Heap} {v : HV} (hwf : WF h v = true) : okV h v = true ∧ CellsOK h := by
  simp only [WF, Bool.and_eq_true] at hwf
  exact ⟨hwf.1, CellsOK.of_all hwf.2⟩

theorem deepCopy_run {f : Nat} {h : Heap} {v : HV} {h' : Heap} {v' : HV} (hwf : WF h v = true)
    (hc : deepCopy f h v = some (h', v')) :
    ∃ s', Run h (CS.init h) (.v v) s' (.v v') ∧ s'.heap = h' := by
  obtain ⟨s', hr, he⟩ := deepCopy_run0 hc
  exact ⟨s', run0_wf (WF_split hwf).2 hr (Ctx.init h) (WF_split hwf).1, he⟩

theorem Inv.init (h : Heap) : Inv h.length (CS.init h) :=
  ⟨Nat.le_refl _, fun a c hle hg => by have := lt_of_getElem? hg; simp [CS.init] at this; omega,
    fun a a' hl => by simp [CS.init, lookup_nil] at hl, fun a a' hl => by simp [CS.init, lookup_nil] at hl,
    fun a b c hl => by simp [CS.init, lookup_nil] at hl, fun a b c hl => by simp [CS.init, lookup_nil] at hl⟩

theorem frozen_main {f : Nat} {h h' : Heap} {v v' : HV} (hc : deepCopy f h v = some (h', v')) :
    h.length ≤ h'.length ∧ ∀ a, a < h.length → h'[a]? = h[a]? := by
  obtain ⟨s', hr, rfl⟩ := deepCopy_run0 hc
  have hp := run0_pres hr
  exact ⟨hp.len, fun a ha => hp.keep a ha (by simp [Task.tgt])⟩

theorem fresh_main {f : Nat} {h h' : Heap} {v v' : HV} (hwf : WF h v = true)
    (hc : deepCopy f h v = some (h', v')) : ∀ a, ReachV h' v' a → h.length ≤ a := by
  obtain ⟨s', hr, rfl⟩ := deepCopy_run hwf hc
  obtain ⟨hi, hv⟩ := run_inv h.length hr (Inv.init h) (by simp [tgtGe, Task.tgt])
  intro a ha
  exact reach_fresh hi.fresh ha hv


/-! ## effect of the two loops on their target cell -/

/-- store `xs` into `cur` from index `i` on -/
def setFrom : List HV → Nat → List HV → List HV
  | cur, _, [] => cur
  | cur, i, x :: xs => setFrom (cur.set i x) (i + 1) xs

theorem setFrom_eq : ∀ (xs cur : List HV) (i : Nat), i + xs.length = cur.length → setFrom cur i xs = cur.take i ++ xs := by
  intro xs
  induction xs with
  | nil => intro cur i h; simp at h; simp [setFrom, h]
  | cons x xs ih =>
    intro cur i h
    simp only [List.length_cons] at h
    rw [setFrom, ih (cur.set i x) (i + 1) (by simp; omega)]
    have hi : i < cur.length := by omega
    rw [List.take_add_one]
    simp [List.getElem?_set_self hi, List.take_set_of_le]

theorem setFrom_full (xs cur : List HV) (h : xs.length = cur.length) : setFrom cur 0 xs = xs := by
  rw [setFrom_eq xs cur 0 (by omega)]; simp

def TgtPost (s : CS) (t : Task) (s' : CS) (r : Res) : Prop :=
  match t, r with
  | .ents a' _, .ents es' => ∀ done, s.heap[a']? = some (.mapc done) → s'.heap[a']? = some (.mapc (done ++ es'))
  | .elems a' i _, .elems es' => ∀ cur, s.heap[a']? = some (.arr cur) → s'.heap[a']? = some (.arr (setFrom cur i es'))
  | _, _ => True

theorem Pres.addEntry (s : CS) (a' : Nat) (k v : HV) : Pres (some a') s { s with heap := addEntry s.heap a' k v } :=
  ⟨by simp, Ext.refl _, Ext.refl _, fun b _ hx => addEntry_ne _ _ _ (by simpa using hx)⟩
theorem Pres.setElem (s : CS) (a' i : Nat) (v : HV) : Pres (some a') s { s with heap := setElem s.heap a' i v } :=
  ⟨by simp, Ext.refl _, Ext.refl _, fun b _ hx => setElem_ne _ _ _ (by simpa using hx)⟩

theorem run_tgt {h : Heap} {s t s' r} (hr : Run h s t s' r) :
    (∀ a', t.tgt = some a' → a' < s.heap.length) → TgtPost s t s' r := by
  induction hr with
  | entsNil s a' => intro _ done hd; simpa using hd
  | entsCons s a' k v rest s1 k' s2 v' s3 rest' h1 h2 _ _ _ ih3 =>
    intro ht done hd
    have hlt : a' < s.heap.length := ht a' rfl
    have p1 := run_pres h1
    have p2 := run_pres h2
    have hd2 : s2.heap[a']? = some (.mapc done) := by
      rw [p2.keep a' (Nat.lt_of_lt_of_le hlt p1.len) (by simp [Task.tgt]), p1.keep a' hlt (by simp [Task.tgt])]
      exact hd
    have := ih3 (by intro b hb; simp [Task.tgt] at hb; subst hb; simp; exact Nat.lt_of_lt_of_le hlt (Nat.le_trans p1.len p2.len))
      (done ++ [(k', v')]) (addEntry_eq _ _ _ hd2)
    simpa using this
  | elemsNil s a' i => intro _ cur hd; simpa [setFrom] using hd
  | elemsCons s a' i v rest s1 v' s2 rest' h1 _ _ ih2 =>
    intro ht cur hd
    have hlt : a' < s.heap.length := ht a' rfl
    have p1 := run_pres h1
    have hd1 : s1.heap[a']? = some (.arr cur) := by
      rw [p1.keep a' hlt (by simp [Task.tgt])]; exact hd
    have := ih2 (by intro b hb; simp [Task.tgt] at hb; subst hb; simp; exact Nat.lt_of_lt_of_le hlt p1.len)
      (cur.set i v') (setElem_eq _ _ _ hd1)
    simpa [setFrom] using this
  | _ => intros; trivial


/-! ## isomorphism invariant -/

inductive SimEnts (h h' : Heap) (pm mm : List (Nat × Nat)) : List (HV × HV) → List (HV × HV) → Prop
  | nil : SimEnts h h' pm mm [] []
  | cons (k k' v v' : HV) (r r' : List (HV × HV)) : Sim h h' pm mm k k' → Sim h h' pm mm v v' →
      SimEnts h h' pm mm r r' → SimEnts h h' pm mm ((k, v) :: r) ((k', v') :: r')

theorem SimList.length_eq {h h' pm mm} : ∀ (es es' : List HV), SimList h h' pm mm es es' → es.length = es'.length := by
  intro es
  induction es with
  | nil => intro es' hs; cases hs; rfl
  | cons x xs ih => intro es' hs; cases hs with | cons _ _ _ _ _ hr => simp [ih _ hr]

theorem SimEnts.index {h h' pm mm} {es es' : List (HV × HV)} (hs : SimEnts h h' pm mm es es') :
    es.length = es'.length ∧ ∀ i (hi : i < es.length) (hi' : i < es'.length),
      Sim h h' pm mm (es[i]).1 (es'[i]).1 ∧ Sim h h' pm mm (es[i]).2 (es'[i]).2 := by
  induction hs with
  | nil => exact ⟨rfl, fun i hi => by simp at hi⟩
  | cons k k' v v' r r' hk hv _ ih =>
    refine ⟨by simp [ih.1], fun i hi hi' => ?_⟩
    cases i with
    | zero => exact ⟨hk, hv⟩
    | succ i => simpa using ih.2 i (by simpa using hi) (by simpa using hi')

/-- a future (final heap and memos) compatible with the run `s → s'`: it extends the memos reached and
agrees with the heap reached on the cells allocated by the run -/
structure Fut (s s' : CS) (h2 : Heap) (pm2 mm2 : List (Nat × Nat)) : Prop where
  pm : Ext s'.pmemo pm2
  mm : Ext s'.mmemo mm2
  agree : ∀ a, s.heap.length ≤ a → a < s'.heap.length → h2[a]? = s'.heap[a]?

def SimRes (h h2 : Heap) (pm mm : List (Nat × Nat)) : Task → Res → Prop
  | .v v, .v v' => Sim h h2 pm mm v v'
  | .fs fs, .fs fs' => SimFs h h2 pm mm fs fs'
  | .ents _ es, .ents es' => SimEnts h h2 pm mm es es'
  | .elems _ _ es, .elems es' => SimList h h2 pm mm es es'
  | _, _ => True

/-- the memo entries created between `s` and `s'` are finished in the future -/
def NewCells (h : Heap) (s s' : CS) (h2 : Heap) (pm2 mm2 : List (Nat × Nat)) : Prop :=
  (∀ a a', lookup s'.pmemo a = some a' → lookup s.pmemo a = none →
    ∃ v v', h[a]? = some (.val v) ∧ h2[a']? = some (.val v') ∧ Sim h h2 pm2 mm2 v v') ∧
  (∀ a a', lookup s'.mmemo a = some a' → lookup s.mmemo a = none →
    ∃ es es', h[a]? = some (.mapc es) ∧ h2[a']? = some (.mapc es') ∧ SimEnts h h2 pm2 mm2 es es')

theorem NewCells.refl (h : Heap) (s : CS) (h2 pm2 mm2) : NewCells h s s h2 pm2 mm2 := by
  constructor
  · intro a a' h1 h0; rw [h0] at h1; cases h1
  · intro a a' h1 h0; rw [h0] at h1; cases h1

theorem NewCells.comp {h : Heap} {s s1 s2 : CS} {h2 pm2 mm2} (n1 : NewCells h s s1 h2 pm2 mm2)
    (n2 : NewCells h s1 s2 h2 pm2 mm2) (ep : Ext s1.pmemo s2.pmemo) (em : Ext s1.mmemo s2.mmemo) :
    NewCells h s s2 h2 pm2 mm2 := by
  constructor
  · intro a a' hl h0
    cases h1 : lookup s1.pmemo a with
    | none => exact n2.1 a a' hl h1
    | some b =>
      have := ep a b h1
      rw [hl] at this; cases this
      exact n1.1 a a' h1 h0
  · intro a a' hl h0
    cases h1 : lookup s1.mmemo a with
    | none => exact n2.2 a a' hl h1
    | some b =>
      have := em a b h1
      rw [hl] at this; cases this
      exact n1.2 a a' h1 h0

theorem Fut.split {s s1 s2 : CS} {h2 pm2 mm2 x} (hF : Fut s s2 h2 pm2 mm2) (hp : Pres x s1 s2)
    (hlen : s.heap.length ≤ s1.heap.length) (hx : ∀ a', x = some a' → a' < s.heap.length) :
    Fut s s1 h2 pm2 mm2 ∧ Fut s1 s2 h2 pm2 mm2 := by
  refine ⟨⟨hp.pm.trans hF.pm, hp.mm.trans hF.mm, fun a h1 h2' => ?_⟩, ⟨hF.pm, hF.mm, fun a h1 h2' => ?_⟩⟩
  · rw [hF.agree a h1 (Nat.lt_of_lt_of_le h2' hp.len)]
    exact hp.keep a h2' (fun he => by have := hx a he; omega)
  · exact hF.agree a (Nat.le_trans hlen h1) h2'

theorem run_iso {h : Heap} {s t s' r} (hr : Run h s t s' r) :
    (∀ a', t.tgt = some a' → a' < s.heap.length) → ∀ h2 pm2 mm2, Fut s s' h2 pm2 mm2 →
      SimRes h h2 pm2 mm2 t r ∧ NewCells h s s' h2 pm2 mm2 := by
  induction hr with
  | sc s n => intro _ h2 pm2 mm2 _; exact ⟨.sc n, NewCells.refl ..⟩
  | nil s => intro _ h2 pm2 mm2 _; exact ⟨.nil, NewCells.refl ..⟩
  | ptrHit s a a' hl => intro _ h2 pm2 mm2 hF; exact ⟨.ptr a a' (hF.pm a a' hl), NewCells.refl ..⟩
  | ptrNew s a v s2 v' hl hv0 hv hrun ih =>
    intro _ h2 pm2 mm2 hF
    have hp := run_pres hrun
    have hlen : s.heap.length + 1 ≤ s2.heap.length := by simpa using hp.len
    have hF1 : Fut { s with heap := s.heap ++ [.val .nil], pmemo := (a, s.heap.length) :: s.pmemo } s2 h2 pm2 mm2 :=
      ⟨hF.pm, hF.mm, fun b hb1 hb2 => by
        simp only [List.length_append, List.length_singleton] at hb1
        rw [hF.agree b (by omega) (by simpa using hb2)]
        exact setCell_ne _ _ (by omega)⟩
    obtain ⟨hsim, hnew⟩ := ih (by simp [Task.tgt]) h2 pm2 mm2 hF1
    have hla : lookup s2.pmemo a = some s.heap.length := hp.pm a _ (by simp [lookup_cons])
    refine ⟨.ptr a _ (hF.pm a _ hla), ?_, ?_⟩
    · intro b b' hb h0
      by_cases hab : a = b
      · subst hab
        have : lookup s2.pmemo a = some b' := hb
        rw [hla] at this; cases this
        refine ⟨v, v', hv0, ?_, hsim⟩
        rw [hF.agree _ (Nat.le_refl _) (by simp; omega)]
        exact setCell_eq _ _ (by omega)
      · exact hnew.1 b b' hb (by simp [lookup_cons, hab, h0])
    · intro b b' hb h0
      exact hnew.2 b b' hb h0
  | mpHit s a a' hl => intro _ h2 pm2 mm2 hF; exact ⟨.mp a a' (hF.mm a a' hl), NewCells.refl ..⟩
  | mpNew s a es s2 es' hl hv0 hv hrun ih =>
    intro _ h2 pm2 mm2 hF
    have hp := run_pres hrun
    have hlen : s.heap.length + 1 ≤ s2.heap.length := by simpa using hp.len
    have hF1 : Fut { s with heap := s.heap ++ [.mapc []], mmemo := (a, s.heap.length) :: s.mmemo } s2 h2 pm2 mm2 :=
      ⟨hF.pm, hF.mm, fun b hb1 hb2 => by
        simp only [List.length_append, List.length_singleton] at hb1
        exact hF.agree b (by omega) hb2⟩
    obtain ⟨hsim, hnew⟩ := ih (by simp [Task.tgt]) h2 pm2 mm2 hF1
    have htg := run_tgt hrun (by simp [Task.tgt]) [] (by simp)
    have hla : lookup s2.mmemo a = some s.heap.length := hp.mm a _ (by simp [lookup_cons])
    refine ⟨.mp a _ (hF.mm a _ hla), ?_, ?_⟩
    · intro b b' hb h0
      exact hnew.1 b b' hb h0
    · intro b b' hb h0
      by_cases hab : a = b
      · subst hab
        rw [hla] at hb; cases hb
        refine ⟨es, es', hv0, ?_, hsim⟩
        rw [hF.agree _ (Nat.le_refl _) (by omega)]
        simpa using htg
      · exact hnew.2 b b' hb (by simp [lookup_cons, hab, h0])
  | slNew s a len es s2 es' hv0 hv hrun ih =>
    intro _ h2 pm2 mm2 hF
    have hp := run_pres hrun
    have hlen : s.heap.length + 1 ≤ s2.heap.length := by simpa using hp.len
    have hF1 : Fut { s with heap := s.heap ++ [.arr (es.map fun _ => .nil)] } s2 h2 pm2 mm2 :=
      ⟨hF.pm, hF.mm, fun b hb1 hb2 => by
        simp only [List.length_append, List.length_singleton] at hb1
        exact hF.agree b (by omega) hb2⟩
    obtain ⟨hsim, hnew⟩ := ih (by simp [Task.tgt]) h2 pm2 mm2 hF1
    have htg := run_tgt hrun (by simp [Task.tgt]) (es.map fun _ => .nil) (by simp)
    have hlen' := SimList.length_eq _ _ hsim
    rw [setFrom_full _ _ (by simp [hlen'])] at htg
    refine ⟨.sl a _ len es es' hv0 ?_ hsim, hnew⟩
    rw [hF.agree _ (Nat.le_refl _) (by omega)]
    exact htg
  | st _ _ _ _ _ ih => intro ht h2 pm2 mm2 hF; exact ⟨.st _ _ (ih ht h2 pm2 mm2 hF).1, (ih ht h2 pm2 mm2 hF).2⟩
  | ar _ _ _ _ _ ih => intro ht h2 pm2 mm2 hF; exact ⟨.ar _ _ (ih ht h2 pm2 mm2 hF).1, (ih ht h2 pm2 mm2 hF).2⟩
  | ifc _ _ _ _ _ ih => intro ht h2 pm2 mm2 hF; exact ⟨.ifc _ _ (ih ht h2 pm2 mm2 hF).1, (ih ht h2 pm2 mm2 hF).2⟩
  | fsNil s => intro _ h2 pm2 mm2 _; exact ⟨.nil, NewCells.refl ..⟩
  | fsConsE s v rest s1 v' s2 rest' h1 h2r ih1 ih2 =>
    intro _ h2 pm2 mm2 hF
    have p1 := run_pres h1
    have p2 := run_pres h2r
    obtain ⟨hF1, hF2⟩ := hF.split p2 p1.len (by simp [Task.tgt])
    obtain ⟨hs1, hn1⟩ := ih1 (by simp [Task.tgt]) h2 pm2 mm2 hF1
    obtain ⟨hs2, hn2⟩ := ih2 (by simp [Task.tgt]) h2 pm2 mm2 hF2
    exact ⟨.consE _ _ _ _ hs1 hs2, hn1.comp hn2 p2.pm p2.mm⟩
  | fsConsU s v rest s2 rest' _ ih =>
    intro ht h2 pm2 mm2 hF
    obtain ⟨hs, hn⟩ := ih (by simp [Task.tgt]) h2 pm2 mm2 hF
    exact ⟨.consU _ _ _ hs, hn⟩
  | entsNil s a' => intro _ h2 pm2 mm2 _; exact ⟨.nil, NewCells.refl ..⟩
  | entsCons s a' k v rest s1 k' s2 v' s3 rest' h1 h2r h3 ih1 ih2 ih3 =>
    intro ht h2 pm2 mm2 hF
    have hlt : a' < s.heap.length := ht a' rfl
    have p1 := run_pres h1
    have p2 := run_pres h2r
    have p3 := run_pres h3
    have pmid := Pres.addEntry s2 a' k' v'
    have hx : ∀ b, some a' = some b → b < s.heap.length := fun b hb => by cases hb; exact hlt
    obtain ⟨hFa, hF3⟩ := hF.split p3 (by simpa using Nat.le_trans p1.len p2.len) hx
    obtain ⟨hFb, _⟩ := hFa.split pmid (Nat.le_trans p1.len p2.len) hx
    obtain ⟨hF1, hF2⟩ := hFb.split p2 p1.len (by simp [Task.tgt])
    obtain ⟨hs1, hn1⟩ := ih1 (by simp [Task.tgt]) h2 pm2 mm2 hF1
    obtain ⟨hs2, hn2⟩ := ih2 (by simp [Task.tgt]) h2 pm2 mm2 hF2
    obtain ⟨hs3, hn3⟩ := ih3 (by intro b hb; simp [Task.tgt] at hb; subst hb; simp; exact Nat.lt_of_lt_of_le hlt (Nat.le_trans p1.len p2.len))
      h2 pm2 mm2 hF3
    exact ⟨.cons _ _ _ _ _ _ hs1 hs2 hs3, (hn1.comp hn2 p2.pm p2.mm).comp hn3 p3.pm p3.mm⟩
  | elemsNil s a' i => intro _ h2 pm2 mm2 _; exact ⟨.nil, NewCells.refl ..⟩
  | elemsCons s a' i v rest s1 v' s2 rest' h1 h2r ih1 ih2 =>
    intro ht h2 pm2 mm2 hF
    have hlt : a' < s.heap.length := ht a' rfl
    have p1 := run_pres h1
    have p2 := run_pres h2r
    have pmid := Pres.setElem s1 a' i v'
    have hx : ∀ b, some a' = some b → b < s.heap.length := fun b hb => by cases hb; exact hlt
    obtain ⟨hFa, hF2⟩ := hF.split p2 (by simpa using p1.len) hx
    obtain ⟨hF1, _⟩ := hFa.split pmid p1.len hx
    obtain ⟨hs1, hn1⟩ := ih1 (by simp [Task.tgt]) h2 pm2 mm2 hF1
    obtain ⟨hs2, hn2⟩ := ih2 (by intro b hb; simp [Task.tgt] at hb; subst hb; simp; exact Nat.lt_of_lt_of_le hlt p1.len)
      h2 pm2 mm2 hF2
    exact ⟨.cons _ _ _ _ hs1 hs2, hn1.comp hn2 p2.pm p2.mm⟩


theorem iso_main {f : Nat} {h h' : Heap} {v v' : HV} (hwf : WF h v = true)
    (hc : deepCopy f h v = some (h', v')) :
    ∃ pm mm, Sim h h' pm mm v v' ∧ CellsSim h h' pm mm ∧ Injective pm ∧ Injective mm ∧
      (∀ a a', lookup pm a = some a' → h.length ≤ a') ∧ (∀ a a', lookup mm a = some a' → h.length ≤ a') := by
  obtain ⟨s', hr, rfl⟩ := deepCopy_run hwf hc
  obtain ⟨hi, _⟩ := run_inv h.length hr (Inv.init h) (by simp [tgtGe, Task.tgt])
  obtain ⟨hsim, hnew⟩ := run_iso hr (by simp [Task.tgt]) s'.heap s'.pmemo s'.mmemo
    ⟨Ext.refl _, Ext.refl _, fun _ _ _ => rfl⟩
  refine ⟨s'.pmemo, s'.mmemo, hsim, ⟨?_, ?_⟩, hi.pinj, hi.minj, fun a a' hl => (hi.pb a a' hl).1,
    fun a a' hl => (hi.mb a a' hl).1⟩
  · intro a a' hl
    exact hnew.1 a a' hl (lookup_nil a)
  · intro a a' hl
    obtain ⟨es, es', h1, h2, h3⟩ := hnew.2 a a' hl (lookup_nil a)
    exact ⟨es, es', h1, h2, h3.index.1, h3.index.2⟩


/-! ## termination -/

/-- number of addresses `< n` not yet in the memo -/
def unmemo (m : List (Nat × Nat)) : Nat → Nat
  | 0 => 0
  | n + 1 => unmemo m n + (if lookup m n = none then 1 else 0)

theorem Ext.none {m m'} (he : Ext m m') {a : Nat} (h : lookup m' a = none) : lookup m a = none := by
  cases h1 : lookup m a with
  | none => rfl
  | some b => rw [he a b h1] at h; cases h

theorem unmemo_mono {m m'} (he : Ext m m') : ∀ n, unmemo m' n ≤ unmemo m n := by
  intro n
  induction n with
  | zero => simp [unmemo]
  | succ n ih =>
    simp only [unmemo]
    by_cases h : lookup m' n = none
    · simp [h, he.none h]; exact ih
    · simp [h]; split <;> omega

theorem unmemo_lt {m m'} (he : Ext m m') {a : Nat} (h0 : lookup m a = none) (h1 : lookup m' a ≠ none) :
    ∀ n, a < n → unmemo m' n < unmemo m n := by
  intro n
  induction n with
  | zero => intro h; omega
  | succ n ih =>
    intro han
    simp only [unmemo]
    by_cases hn : a = n
    · subst hn
      have := unmemo_mono he a
      simp [h0, h1]; omega
    · have := ih (by omega)
      by_cases h : lookup m' n = none
      · simp [h, he.none h]; exact this
      · simp [h]; split <;> omega

def mu (h : Heap) (s : CS) : Nat := unmemo s.pmemo h.length + unmemo s.mmemo h.length

theorem mu_mono {h : Heap} {s s' : CS} {x} (hp : Pres x s s') : mu h s' ≤ mu h s := by
  have := unmemo_mono hp.pm h.length
  have := unmemo_mono hp.mm h.length
  simp only [mu]; omega

noncomputable def Task.size : Task → Nat
  | .v w => sizeOf w
  | .fs ws => sizeOf ws
  | .ents _ es => sizeOf es
  | .elems _ _ es => sizeOf es

def sbTask (k : Nat) : Task → Prop
  | .v v => slicesBelow k v = true
  | .fs fs => slicesBelowFs k fs = true
  | .ents _ es => ∀ p ∈ es, slicesBelow k p.1 = true ∧ slicesBelow k p.2 = true
  | .elems _ _ es => ∀ v ∈ es, slicesBelow k v = true

mutual
theorem okV_slicesBelow (h : Heap) : ∀ v, okV h v = true → slicesBelow h.length v = true
  | .sc _, _ => rfl
  | .nil, _ => rfl
  | .ptr _, _ => rfl
  | .mp _, _ => rfl
  | .sl a len, hk => by
    obtain ⟨es, he⟩ := okV_sl hk
    simp [slicesBelow, lt_of_getElem? he]
  | .st fs, hk => by
    simp only [okV] at hk; simp only [slicesBelow]; exact okFs_slicesBelowFs h fs hk
  | .ar fs, hk => by
    simp only [okV] at hk; simp only [slicesBelow]; exact okFs_slicesBelowFs h fs hk
  | .ifc d, hk => by
    simp only [okV] at hk; simp only [slicesBelow]; exact okV_slicesBelow h d hk
theorem okFs_slicesBelowFs (h : Heap) : ∀ fs, okFs h fs = true → slicesBelowFs h.length fs = true
  | .nil, _ => rfl
  | .cons _ v rest, hk => by
    simp only [okFs, Bool.and_eq_true] at hk
    simp only [slicesBelowFs, Bool.and_eq_true]
    exact ⟨okV_slicesBelow h v hk.1, okFs_slicesBelowFs h rest hk.2⟩
end

theorem okTask_sb {h : Heap} {t : Task} (hk : okTask h t) : sbTask h.length t := by
  cases t with
  | v v => exact okV_slicesBelow h v hk
  | fs fs => exact okFs_slicesBelowFs h fs hk
  | ents a' es => exact fun p hp => ⟨okV_slicesBelow h _ (hk.2 p hp).1, okV_slicesBelow h _ (hk.2 p hp).2⟩
  | elems a' i es => exact fun p hp => okV_slicesBelow h _ (hk.2 p hp)

theorem Run.res_v {h s v s' r} (hr : Run h s (.v v) s' r) : ∃ v', r = .v v' := by
  cases hr <;> exact ⟨_, rfl⟩
theorem Run.res_fs {h s fs s' r} (hr : Run h s (.fs fs) s' r) : ∃ fs', r = .fs fs' := by
  cases hr <;> exact ⟨_, rfl⟩
theorem Run.res_ents {h s a' es s' r} (hr : Run h s (.ents a' es) s' r) : ∃ es', r = .ents es' := by
  cases hr <;> exact ⟨_, rfl⟩
theorem Run.res_elems {h s a' i es s' r} (hr : Run h s (.elems a' i es) s' r) : ∃ es', r = .elems es' := by
  cases hr <;> exact ⟨_, rfl⟩


theorem Ctx.append {h : Heap} {s : CS} (hc : Ctx h s) (c : Cell) (pm mm) :
    Ctx h { heap := s.heap ++ [c], pmemo := pm, mmemo := mm } :=
  ⟨by simp; exact Nat.le_succ_of_le hc.len, fun a ha => by
    simp only; rw [List.getElem?_append_left (Nat.lt_of_lt_of_le ha hc.len)]; exact hc.agree a ha⟩

theorem Task.size_pos (t : Task) : 0 < t.size := by
  cases t with
  | v w => cases w <;> simp [Task.size] <;> omega
  | fs ws => cases ws <;> simp [Task.size] <;> omega
  | ents a' es => cases es <;> simp [Task.size] <;> omega
  | elems a' i es => cases es <;> simp [Task.size] <;> omega

theorem run_exists {h : Heap} (hcells : CellsOK h) (hso : SliceOrdered h) :
    ∀ m k n s t, Ctx h s → okTask h t → mu h s ≤ m → sbTask k t → t.size ≤ n → ∃ s' r, Run h s t s' r := by
  intro m
  induction m using Nat.strongRecOn with
  | ind m ihm =>
  intro k
  induction k using Nat.strongRecOn with
  | ind k ihk =>
  intro n
  induction n with
  | zero => intro s t _ _ _ _ hn; have := t.size_pos; omega
  | succ n ihn =>
  intro s t hc hk hm hsb hn
  cases t with
  | v w =>
    cases w with
    | sc x => exact ⟨_, _, .sc s x⟩
    | nil => exact ⟨_, _, .nil s⟩
    | ptr a =>
      cases hl : lookup s.pmemo a with
      | some a' => exact ⟨_, _, .ptrHit s a a' hl⟩
      | none =>
        obtain ⟨v0, hv0⟩ := okV_ptr hk
        have ha : a < h.length := lt_of_getElem? hv0
        have hvs : s.heap[a]? = some (.val v0) := by rw [hc.agree a ha]; exact hv0
        have hmu : mu h { s with heap := s.heap ++ [.val .nil], pmemo := (a, s.heap.length) :: s.pmemo } < mu h s := by
          have := unmemo_lt (Ext.cons (b := s.heap.length) hl) hl (by simp [lookup_cons]) h.length ha
          simp only [mu]; omega
        have hk0 : okTask h (.v v0) := hcells.val hv0
        obtain ⟨s2, r, hr⟩ := ihm _ (Nat.lt_of_lt_of_le hmu hm) h.length _ _ (.v v0)
          (hc.append _ _ _) hk0 (Nat.le_refl _) (okTask_sb hk0) (Nat.le_refl _)
        obtain ⟨v', rfl⟩ := hr.res_v
        exact ⟨_, _, .ptrNew s a v0 s2 v' hl hv0 hvs hr⟩
    | mp a =>
      cases hl : lookup s.mmemo a with
      | some a' => exact ⟨_, _, .mpHit s a a' hl⟩
      | none =>
        obtain ⟨v0, hv0⟩ := okV_mp hk
        have ha : a < h.length := lt_of_getElem? hv0
        have hvs : s.heap[a]? = some (.mapc v0) := by rw [hc.agree a ha]; exact hv0
        have hmu : mu h { s with heap := s.heap ++ [.mapc []], mmemo := (a, s.heap.length) :: s.mmemo } < mu h s := by
          have := unmemo_lt (Ext.cons (b := s.heap.length) hl) hl (by simp [lookup_cons]) h.length ha
          simp only [mu]; omega
        have hk0 : okTask h (.ents s.heap.length v0) := ⟨hc.len, hcells.mapc hv0⟩
        obtain ⟨s2, r, hr⟩ := ihm _ (Nat.lt_of_lt_of_le hmu hm) h.length _ _ (.ents s.heap.length v0)
          (hc.append _ _ _) hk0 (Nat.le_refl _) (okTask_sb hk0) (Nat.le_refl _)
        obtain ⟨v', rfl⟩ := hr.res_ents
        exact ⟨_, _, .mpNew s a v0 s2 v' hl hv0 hvs hr⟩
    | sl a len =>
      obtain ⟨v0, hv0⟩ := okV_sl hk
      have ha : a < h.length := lt_of_getElem? hv0
      have hvs : s.heap[a]? = some (.arr v0) := by rw [hc.agree a ha]; exact hv0
      have hak : a < k := by simpa [sbTask, slicesBelow] using hsb
      have hk0 : okTask h (.elems s.heap.length 0 v0) := ⟨hc.len, hcells.arr hv0⟩
      obtain ⟨s2, r, hr⟩ := ihk a hak _ { s with heap := s.heap ++ [.arr (v0.map fun _ => .nil)] }
        (.elems s.heap.length 0 v0) (hc.append _ _ _) hk0 hm (hso a v0 hv0) (Nat.le_refl _)
      obtain ⟨v', rfl⟩ := hr.res_elems
      exact ⟨_, _, .slNew s a len v0 s2 v' hv0 hvs hr⟩
    | st fs =>
      obtain ⟨s2, r, hr⟩ := ihn s (.fs fs) hc (by simpa [okTask, okV] using hk) hm
        (by simpa [sbTask, slicesBelow] using hsb) (by simp [Task.size] at hn ⊢; omega)
      obtain ⟨v', rfl⟩ := hr.res_fs
      exact ⟨_, _, .st s fs s2 v' hr⟩
    | ar fs =>
      obtain ⟨s2, r, hr⟩ := ihn s (.fs fs) hc (by simpa [okTask, okV] using hk) hm
        (by simpa [sbTask, slicesBelow] using hsb) (by simp [Task.size] at hn ⊢; omega)
      obtain ⟨v', rfl⟩ := hr.res_fs
      exact ⟨_, _, .ar s fs s2 v' hr⟩
    | ifc d =>
      obtain ⟨s2, r, hr⟩ := ihn s (.v d) hc (by simpa [okTask, okV] using hk) hm
        (by simpa [sbTask, slicesBelow] using hsb) (by simp [Task.size] at hn ⊢; omega)
      obtain ⟨v', rfl⟩ := hr.res_v
      exact ⟨_, _, .ifc s d s2 v' hr⟩
  | fs ws =>
    cases ws with
    | nil => exact ⟨_, _, .fsNil s⟩
    | cons ex w rest =>
      simp only [okTask, okFs, Bool.and_eq_true] at hk
      simp only [sbTask, slicesBelowFs, Bool.and_eq_true] at hsb
      simp only [Task.size, HFs.cons.sizeOf_spec] at hn
      cases ex with
      | false =>
        obtain ⟨s2, r, hr⟩ := ihn s (.fs rest) hc hk.2 hm hsb.2 (by simp only [Task.size]; omega)
        obtain ⟨v', rfl⟩ := hr.res_fs
        exact ⟨_, _, .fsConsU s w rest s2 v' hr⟩
      | true =>
        obtain ⟨s1, r, hr1⟩ := ihn s (.v w) hc hk.1 hm hsb.1 (by simp only [Task.size]; omega)
        obtain ⟨w', rfl⟩ := hr1.res_v
        have p1 := run_pres hr1
        obtain ⟨s2, r, hr2⟩ := ihn s1 (.fs rest) (hc.pres p1 (by simp [Task.tgt])) hk.2
          (Nat.le_trans (mu_mono p1) hm) hsb.2 (by simp only [Task.size]; omega)
        obtain ⟨rest', rfl⟩ := hr2.res_fs
        exact ⟨_, _, .fsConsE s w rest s1 w' s2 rest' hr1 hr2⟩
  | ents a' es =>
    cases es with
    | nil => exact ⟨_, _, .entsNil s a'⟩
    | cons p rest =>
      obtain ⟨kk, vv⟩ := p
      obtain ⟨hle, hall⟩ := hk
      have hkv := hall (kk, vv) (by simp)
      have hsbkv := hsb (kk, vv) (by simp)
      simp only [Task.size, List.cons.sizeOf_spec, Prod.mk.sizeOf_spec] at hn
      obtain ⟨s1, r, hr1⟩ := ihn s (.v kk) hc hkv.1 hm hsbkv.1 (by simp only [Task.size]; omega)
      obtain ⟨k', rfl⟩ := hr1.res_v
      have p1 := run_pres hr1
      have hc1 := hc.pres p1 (by simp [Task.tgt])
      obtain ⟨s2, r, hr2⟩ := ihn s1 (.v vv) hc1 hkv.2 (Nat.le_trans (mu_mono p1) hm) hsbkv.2
        (by simp only [Task.size]; omega)
      obtain ⟨v', rfl⟩ := hr2.res_v
      have p2 := run_pres hr2
      have hc2 := hc1.pres p2 (by simp [Task.tgt])
      have pmid := Pres.addEntry s2 a' k' v'
      have hc3 := hc2.pres pmid (by intro b hb; cases hb; exact hle)
      obtain ⟨s3, r, hr3⟩ := ihn { s2 with heap := addEntry s2.heap a' k' v' } (.ents a' rest) hc3
        ⟨hle, fun p hp => hall p (List.mem_cons_of_mem _ hp)⟩
        (Nat.le_trans (mu_mono pmid) (Nat.le_trans (mu_mono p2) (Nat.le_trans (mu_mono p1) hm)))
        (fun p hp => hsb p (List.mem_cons_of_mem _ hp)) (by simp only [Task.size]; omega)
      obtain ⟨rest', rfl⟩ := hr3.res_ents
      exact ⟨_, _, .entsCons s a' kk vv rest s1 k' s2 v' s3 rest' hr1 hr2 hr3⟩
  | elems a' i es =>
    cases es with
    | nil => exact ⟨_, _, .elemsNil s a' i⟩
    | cons w rest =>
      obtain ⟨hle, hall⟩ := hk
      simp only [Task.size, List.cons.sizeOf_spec] at hn
      obtain ⟨s1, r, hr1⟩ := ihn s (.v w) hc (hall w (by simp)) hm (hsb w (by simp)) (by simp only [Task.size]; omega)
      obtain ⟨w', rfl⟩ := hr1.res_v
      have p1 := run_pres hr1
      have hc1 := hc.pres p1 (by simp [Task.tgt])
      have pmid := Pres.setElem s1 a' i w'
      have hc2 := hc1.pres pmid (by intro b hb; cases hb; exact hle)
      obtain ⟨s2, r, hr2⟩ := ihn { s1 with heap := setElem s1.heap a' i w' } (.elems a' (i + 1) rest) hc2
        ⟨hle, fun p hp => hall p (List.mem_cons_of_mem _ hp)⟩
        (Nat.le_trans (mu_mono pmid) (Nat.le_trans (mu_mono p1) hm))
        (fun p hp => hsb p (List.mem_cons_of_mem _ hp)) (by simp only [Task.size]; omega)
      obtain ⟨rest', rfl⟩ := hr2.res_elems
      exact ⟨_, _, .elemsCons s a' i w rest s1 w' s2 rest' hr1 hr2⟩

theorem terminates_main {h : Heap} {v : HV} (hwf : WF h v = true) (hso : SliceOrdered h) :
    ∃ f, ∀ f', f ≤ f' → deepCopy f' h v ≠ none := by
  obtain ⟨hv, hcells⟩ := WF_split hwf
  obtain ⟨s', r, hr⟩ := run_exists hcells hso _ _ _ (CS.init h) (.v v) (Ctx.init h) hv (Nat.le_refl _)
    (okTask_sb (t := .v v) hv) (Nat.le_refl _)
  obtain ⟨v', rfl⟩ := hr.res_v
  obtain ⟨f, hf⟩ := complete0 hr.toRun0
  refine ⟨f, fun f' hle => ?_⟩
  have := hf f' hle
  simp only [Exec, CS.init] at this
  simp [deepCopy, this]


end Dials.Heap
