/-
Lemmas about the overlay model used by the C01 property theorems.
-/
import DialsModel.Model.OverlaySpec

namespace Dials.Overlay

/-! ### type equality -/

mutual
theorem Ty.beq_refl : ∀ t : Ty, Ty.beq t t = true
  | .scalar _ | .slice _ | .map _ | .tu _ => by simp [Ty.beq]
  | .chan | .func => by simp [Ty.beq]
  | .ptr e => by simp [Ty.beq, Ty.beq_refl e]
  | .struct fs => by simp [Ty.beq, Fields.beq_refl fs]
theorem Fields.beq_refl : ∀ fs : Fields, Fields.beq fs fs = true
  | .nil => by simp [Fields.beq]
  | .cons k t r => by simp [Fields.beq, Ty.beq_refl t, Fields.beq_refl r]
end

mutual
theorem Ty.beq_sound : ∀ a b : Ty, Ty.beq a b = true → a = b
  | .scalar _, b | .slice _, b | .map _, b | .tu _, b => by
    cases b <;> simp [Ty.beq]
  | .chan, b | .func, b => by cases b <;> simp [Ty.beq]
  | .ptr e, b => by
    cases b <;> simp [Ty.beq]
    exact Ty.beq_sound e _
  | .struct fs, b => by
    cases b <;> simp [Ty.beq]
    exact Fields.beq_sound fs _
theorem Fields.beq_sound : ∀ a b : Fields, Fields.beq a b = true → a = b
  | .nil, b => by cases b <;> simp [Fields.beq]
  | .cons k t r, b => by
    cases b with
    | nil => simp [Fields.beq]
    | cons k' t' r' =>
      simp only [Fields.beq, Bool.and_eq_true, beq_iff_eq, Fields.cons.injEq]
      intro h
      exact ⟨h.1.1, Ty.beq_sound t _ h.1.2, Fields.beq_sound r _ h.2⟩
end

instance : LawfulBEq Ty where
  rfl := Ty.beq_refl _
  eq_of_beq := Ty.beq_sound _ _

theorem Fields.beq_iff (a b : Fields) : Fields.beq a b = true ↔ a = b :=
  ⟨Fields.beq_sound a b, fun h => h ▸ Fields.beq_refl a⟩


theorem hasTy_scalar {v : Val} {n : Nat} (h : v.HasTy (.scalar n) = true) : ∃ x, v = .scalar n x := by
  cases v <;> simp [Val.HasTy] at h ⊢
  · exact h
  · obtain ⟨h1, rfl⟩ := h; simp [Ty.isColl] at h1
  · obtain ⟨h1, rfl⟩ := h; simp [Ty.isChanFunc] at h1

theorem hasTy_tu {v : Val} {n : Nat} (h : v.HasTy (.tu n) = true) : ∃ x, v = .tuv n x := by
  cases v <;> simp [Val.HasTy] at h ⊢
  · obtain ⟨h1, rfl⟩ := h; simp [Ty.isColl] at h1
  · exact h
  · obtain ⟨h1, rfl⟩ := h; simp [Ty.isChanFunc] at h1

theorem hasTy_slice {v : Val} {n : Nat} (h : v.HasTy (.slice n) = true) : ∃ c, v = .coll (.slice n) c := by
  cases v <;> simp [Val.HasTy] at h ⊢
  · exact h.2
  · obtain ⟨h1, rfl⟩ := h; simp [Ty.isChanFunc] at h1

theorem hasTy_map {v : Val} {n : Nat} (h : v.HasTy (.map n) = true) : ∃ c, v = .coll (.map n) c := by
  cases v <;> simp [Val.HasTy] at h ⊢
  · exact h.2
  · obtain ⟨h1, rfl⟩ := h; simp [Ty.isChanFunc] at h1

theorem hasTy_ptr {v : Val} {e : Ty} (h : v.HasTy (.ptr e) = true) :
    v = .ptr e none ∨ ∃ w, v = .ptr e (some w) ∧ w.HasTy e = true := by
  cases v with
  | ptr e' p =>
    cases p with
    | none => simp [Val.HasTy] at h; simp [h]
    | some w => simp [Val.HasTy] at h; obtain ⟨rfl, h2⟩ := h; simp [h2]
  | coll t c => simp [Val.HasTy] at h; obtain ⟨h1, rfl⟩ := h; simp [Ty.isColl] at h1
  | «opaque» t x => simp [Val.HasTy] at h; obtain ⟨h1, rfl⟩ := h; simp [Ty.isChanFunc] at h1
  | _ => simp [Val.HasTy] at h

theorem hasTy_struct {v : Val} {fs : Fields} (h : v.HasTy (.struct fs) = true) :
    ∃ vs, v = .struct fs vs ∧ vs.HasTys fs = true := by
  cases v with
  | struct fs' vs =>
    simp [Val.HasTy, Fields.beq_iff] at h; obtain ⟨rfl, h2⟩ := h; exact ⟨vs, rfl, h2⟩
  | coll t c => simp [Val.HasTy] at h; obtain ⟨h1, rfl⟩ := h; simp [Ty.isColl] at h1
  | «opaque» t x => simp [Val.HasTy] at h; obtain ⟨h1, rfl⟩ := h; simp [Ty.isChanFunc] at h1
  | _ => simp [Val.HasTy] at h

theorem hasTys_nil {vs : Vals} (h : vs.HasTys .nil = true) : vs = .nil := by
  cases vs <;> simp [Vals.HasTys] at h ⊢

theorem hasTys_cons {vs : Vals} {k t r} (h : vs.HasTys (.cons k t r) = true) :
    ∃ v vs', vs = .cons v vs' ∧ v.HasTy t = true ∧ vs'.HasTys r = true := by
  cases vs with
  | nil => simp [Vals.HasTys] at h
  | cons v vs' => simp [Vals.HasTys] at h; exact ⟨v, vs', rfl, h.1, h.2⟩

@[simp] theorem hasTy_ptr_none (e e' : Ty) : (Val.ptr e none).HasTy (.ptr e') = (e == e') := by
  simp [Val.HasTy]
@[simp] theorem hasTy_ptr_some (e e' : Ty) (w : Val) :
    (Val.ptr e (some w)).HasTy (.ptr e') = (e == e' && w.HasTy e) := by
  simp [Val.HasTy]
@[simp] theorem hasTy_struct_mk (fs fs' : Fields) (vs : Vals) :
    (Val.struct fs vs).HasTy (.struct fs') = (Fields.beq fs fs' && vs.HasTys fs) := by
  simp [Val.HasTy]
@[simp] theorem hasTys_cons_cons (v vs k t r) :
    (Vals.cons v vs).HasTys (.cons k t r) = (v.HasTy t && vs.HasTys r) := by
  simp [Vals.HasTys]

/-! zero values are well typed -/
mutual
theorem zero_hasTy : ∀ t : Ty, (zero t).HasTy t = true
  | .scalar _ | .tu _ => by simp [zero, Val.HasTy]
  | .slice _ | .map _ => by simp [zero, Val.HasTy, Ty.isColl]
  | .chan | .func => by simp [zero, Val.HasTy, Ty.isChanFunc]
  | .ptr e => by simp [zero]
  | .struct fs => by simp [zero, Fields.beq_refl, zeros_hasTys fs]
theorem zeros_hasTys : ∀ fs : Fields, (zeros fs).HasTys fs = true
  | .nil => by simp [zeros, Vals.HasTys]
  | .cons k t r => by simp [zeros, zero_hasTy t, zeros_hasTys r]
end


/-! ### Pointerify -/

theorem ptrifyField_chanFunc {t : Ty} (h : t.isChanFunc = true) : ptrifyField t = none := by
  cases t <;> simp [Ty.isChanFunc] at h <;> simp [ptrifyField, Facts.ptrifyDropsChanFunc]

/-- the pointerified type of a pointer field -/
def ptrifyElem : Ty → Ty
  | .struct fs => .struct (ptrifyFields fs)
  | e => e

theorem ptrifyField_ptr (e : Ty) : ptrifyField (.ptr e) = some (.ptr (ptrifyElem e)) := by
  cases e <;> simp [ptrifyField, ptrifyElem]

theorem ptrifyElem_not_struct {e : Ty} (h : e.isStruct = false) : ptrifyElem e = e := by
  cases e <;> simp [Ty.isStruct] at h <;> simp [ptrifyElem]

theorem ptrifyField_kept {t : Ty} (h : t.isChanFunc = false) : ∃ t', ptrifyField t = some t' := by
  cases t <;> simp [Ty.isChanFunc] at h
  case ptr e => exact ⟨_, ptrifyField_ptr e⟩
  all_goals simp [ptrifyField]

theorem ptrifyFields_cons_skipped {k t} (r : Fields) (h : skippedField k t = true) :
    ptrifyFields (.cons k t r) = ptrifyFields r := by
  simp only [skippedField, Bool.or_eq_true] at h
  rw [ptrifyFields]
  rcases h with h | h
  · simp [h]
  · simp [ptrifyField_chanFunc h]

theorem ptrifyFields_cons_kept {k t t'} (r : Fields) (h : skippedField k t = false)
    (ht : ptrifyField t = some t') :
    ptrifyFields (.cons k t r) = .cons k t' (ptrifyFields r) := by
  simp only [skippedField, Bool.or_eq_false_iff] at h
  rw [ptrifyFields]
  simp [h.1, ht]

theorem skipped_kept_normal {k t} (h : skippedField k t = false) : k = .normal := by
  simp only [skippedField, Bool.or_eq_false_iff] at h
  cases k <;> simp [omitField, Facts.omitUnexported, Facts.omitDash] at h ⊢

theorem alignment : ∀ (fs : Fields) (i : Nat) (k : FieldKind) (t : Ty), fs.get? i = some (k, t) →
    skippedField k t = false →
    ∃ t', ptrifyField t = some t' ∧ (ptrifyFields fs).get? (ovIndex fs i) = some (k, t')
  | .nil, i, k, t, h, _ => by simp [Fields.get?] at h
  | .cons k0 t0 r, 0, k, t, h, hk => by
    simp only [Fields.get?, Option.some.injEq, Prod.mk.injEq] at h
    obtain ⟨rfl, rfl⟩ := h
    have hc : t0.isChanFunc = false := by
      simp only [skippedField, Bool.or_eq_false_iff] at hk; exact hk.2
    obtain ⟨t', ht'⟩ := ptrifyField_kept hc
    exact ⟨t', ht', by rw [ptrifyFields_cons_kept r hk ht']; simp [ovIndex, Fields.get?]⟩
  | .cons k0 t0 r, n + 1, k, t, h, hk => by
    simp only [Fields.get?] at h
    obtain ⟨t', ht', hg⟩ := alignment r n k t h hk
    refine ⟨t', ht', ?_⟩
    cases hs : skippedField k0 t0 with
    | true => rw [ptrifyFields_cons_skipped r hs]; simp [ovIndex, hs, hg]
    | false =>
      have hc : t0.isChanFunc = false := by
        simp only [skippedField, Bool.or_eq_false_iff] at hs; exact hs.2
      obtain ⟨t0', ht0'⟩ := ptrifyField_kept hc
      rw [ptrifyFields_cons_kept r hs ht0']
      simp [ovIndex, hs, Nat.add_comm 1, Fields.get?, hg]


theorem overlayField_nil_ptr (s : Bool) (b : Val) (e : Ty) : overlayField s b (.ptr e none) = .ok b := by
  rw [overlayField.eq_def]; simp [Val.isNilable, Val.isNil]

theorem overlayField_nil_coll (s : Bool) (b : Val) (t : Ty) : overlayField s b (.coll t none) = .ok b := by
  rw [overlayField.eq_def]; simp [Val.isNilable, Val.isNil]

theorem overlayField_scalar (n x : Nat) (y : Nat) (e : Ty) :
    overlayField true (.scalar n x) (.ptr e (some (.scalar n y))) = .ok (.scalar n y) := by
  rw [overlayField.eq_def]; simp [Val.isNilable, Val.isNil, setVal, Val.ty]

theorem overlayField_tu (n x : Nat) (y : Nat) (e : Ty) :
    overlayField true (.tuv n x) (.ptr e (some (.tuv n y))) = .ok (.tuv n y) := by
  rw [overlayField.eq_def]; simp [Val.isNilable, Val.isNil, setVal, Val.ty]

theorem overlayField_coll (t : Ty) (c : Option Nat) (c' : Nat) :
    overlayField true (.coll t c) (.coll t (some c')) = .ok (.coll t (some c')) := by
  rw [overlayField.eq_def]; simp [Val.isNilable, Val.isNil, setVal, Val.ty]

theorem overlayField_ptr_nonstruct (e : Ty) (he : e.isStruct = false) (bp : Option Val) (ov : Val) :
    overlayField true (.ptr e bp) (.ptr e (some ov)) = .ok (.ptr e (some ov)) := by
  rw [overlayField.eq_def]
  cases bp with
  | none => simp [Val.isNilable, Val.isNil, setVal, Val.ty, tyElem]
  | some b =>
    cases e <;> simp [Ty.isStruct] at he <;> simp [Val.isNilable, Val.isNil, setVal, Val.ty, Ty.isTU, Facts.overlayReplacesNonStructPtr]


/-! ### struct forms of overlayField -/

def liftVals (f : Vals → Val) : Outcome Vals → Outcome Val
  | .ok vs => .ok (f vs)
  | .err c => .err c
  | .panic c => .panic c

theorem overlayField_struct (bfs : Fields) (bvs : Vals) (e : Ty) (fs' : Fields) (ovs : Vals) :
    overlayField true (.struct bfs bvs) (.ptr e (some (.struct fs' ovs))) =
      liftVals (fun vs => .struct bfs vs) (overlayStruct bfs bvs ovs) := by
  rw [overlayField.eq_def]; simp [Val.isNilable, Val.isNil, liftVals]
  cases overlayStruct bfs bvs ovs <;> rfl

theorem overlayField_ptrstruct_some (bfs fs0 : Fields) (bvs : Vals) (e : Ty) (fs' : Fields) (ovs : Vals) :
    overlayField true (.ptr (.struct bfs) (some (.struct fs0 bvs))) (.ptr e (some (.struct fs' ovs))) =
      liftVals (fun vs => .ptr (.struct bfs) (some (.struct bfs vs))) (overlayStruct bfs bvs ovs) := by
  rw [overlayField.eq_def]; simp [Val.isNilable, Val.isNil, liftVals, Ty.isTU]
  cases overlayStruct bfs bvs ovs <;> rfl

theorem overlayField_ptrstruct_none_eq (bfs : Fields) (fs' : Fields) (ovs : Vals) :
    overlayField true (.ptr (.struct bfs) none) (.ptr (.struct bfs) (some (.struct fs' ovs))) =
      .ok (.ptr (.struct bfs) (some (.struct fs' ovs))) := by
  rw [overlayField.eq_def]; simp [Val.isNilable, Val.isNil, Val.ty, tyElem, setVal]

theorem overlayField_ptrstruct_none_ne (bfs : Fields) (pfs : Fields) (h : bfs ≠ pfs) (fs' : Fields) (ovs : Vals) :
    overlayField true (.ptr (.struct bfs) none) (.ptr (.struct pfs) (some (.struct fs' ovs))) =
      liftVals (fun vs => .ptr (.struct bfs) (some (.struct bfs vs))) (overlayStruct bfs (zeros bfs) ovs) := by
  rw [overlayField.eq_def]; simp [Val.isNilable, Val.isNil, liftVals, Val.ty, tyElem, h]
  cases overlayStruct bfs (zeros bfs) ovs <;> rfl


/-! ### reading at paths -/

theorem zeros_get : ∀ (fs : Fields) (i : Nat) (k : FieldKind) (ft : Ty), fs.get? i = some (k, ft) →
    (zeros fs).get? i = some (zero ft)
  | .nil, _, _, _, h => by simp [Fields.get?] at h
  | .cons k0 t0 r, 0, k, ft, h => by
    simp only [Fields.get?, Option.some.injEq, Prod.mk.injEq] at h
    simp [zeros, Vals.get?, h.2]
  | .cons k0 t0 r, n + 1, k, ft, h => by
    simp only [Fields.get?] at h
    simp [zeros, Vals.get?, zeros_get r n k ft h]

/-- the field values a base value is read through: its own, or zeros below a nil struct pointer -/
def baseVals (fs : Fields) (v : Val) : Vals :=
  match v.structVals with
  | some vs => vs
  | none => zeros fs

theorem baseVals_of_some {fs : Fields} {v : Val} {vs : Vals} (h : v.structVals = some vs) :
    baseVals fs v = vs := by simp [baseVals, h]

theorem readB_cons {t : Ty} {fs : Fields} {i : Nat} {k : FieldKind} {ft : Ty}
    (ht : t.structFields = some fs) (hg : fs.get? i = some (k, ft)) (v fv : Val)
    (hfv : (baseVals fs v).get? i = some fv) (p : List Nat) :
    readB t v (i :: p) = readB ft fv p := by
  simp only [readB, ht, hg]
  cases hv : v.structVals with
  | none =>
    simp only [baseVals, hv, zeros_get fs i k ft hg, Option.some.injEq] at hfv
    simp [hfv]
  | some vs =>
    simp only [baseVals, hv] at hfv
    simp [hfv]

theorem readO_cons {t : Ty} {fs : Fields} {i : Nat} {k : FieldKind} {ft : Ty}
    (ht : t.structFields = some fs) (hg : fs.get? i = some (k, ft)) (hk : skippedField k ft = false)
    (o : Val) (ovs : Vals) (ho : o.structVals = some ovs) (ov : Val)
    (hov : ovs.get? (ovIndex fs i) = some ov) (p : List Nat) :
    readO t o (i :: p) = readO ft ov p := by
  simp [readO, ht, hg, hk, ho, hov]

theorem presentO_cons {t : Ty} {fs : Fields} {i : Nat} {k : FieldKind} {ft : Ty}
    (ht : t.structFields = some fs) (hg : fs.get? i = some (k, ft)) (hk : skippedField k ft = false)
    (o : Val) (ovs : Vals) (ho : o.structVals = some ovs) (ov : Val)
    (hov : ovs.get? (ovIndex fs i) = some ov) (p : List Nat) :
    presentO t o (i :: p) = presentO ft ov p := by
  simp [presentO, ht, hg, hk, ho, hov]

theorem structPtrPath_cons {t : Ty} {fs : Fields} {i : Nat} {k : FieldKind} {ft : Ty}
    (ht : t.structFields = some fs) (hg : fs.get? i = some (k, ft)) (p : List Nat) :
    StructPtrPath t (i :: p) = (!skippedField k ft && StructPtrPath ft p) := by
  simp [StructPtrPath, ht, hg]

theorem leafPath_cons {t : Ty} {fs : Fields} {i : Nat} {k : FieldKind} {ft : Ty}
    (ht : t.structFields = some fs) (hg : fs.get? i = some (k, ft)) (p : List Nat) :
    LeafPath t (i :: p) = (!skippedField k ft && LeafPath ft p) := by
  simp [LeafPath, ht, hg]

theorem skippedPath_cons {t : Ty} {fs : Fields} {i : Nat} {k : FieldKind} {ft : Ty}
    (ht : t.structFields = some fs) (hg : fs.get? i = some (k, ft)) (p : List Nat) :
    SkippedPath t (i :: p) =
      (if p = [] then skippedField k ft else (!skippedField k ft && SkippedPath ft p)) := by
  cases p <;> simp [SkippedPath, ht, hg]

theorem structVals_ptr_struct {v : Val} {vs : Vals} (h : v.structVals = some vs) : v.isNil = false := by
  cases v with
  | ptr e p => cases p <;> simp [Val.structVals] at h <;> simp [Val.isNil]
  | coll t c => simp [Val.structVals] at h
  | _ => simp [Val.isNil]

theorem zero_structVals_none_of_ptr (e : Ty) : (zero (.ptr e)).structVals = none := by
  simp [zero, Val.structVals]

theorem presentB_zero : ∀ (p : List Nat) (t : Ty), StructPtrPath t p = true → presentB t (zero t) p = false
  | [], t, h => by
    cases t <;> simp [StructPtrPath] at h
    simp [presentB, zero, Val.isNil]
  | i :: p, t, h => by
    cases hsf : t.structFields with
    | none => simp [StructPtrPath, hsf] at h
    | some fs =>
      cases hg : fs.get? i with
      | none => simp [StructPtrPath, hsf, hg] at h
      | some kf =>
        obtain ⟨k, ft⟩ := kf
        rw [structPtrPath_cons hsf hg] at h
        simp only [Bool.and_eq_true] at h
        cases t with
        | struct fs' =>
          simp only [Ty.structFields, Option.some.injEq] at hsf
          subst hsf
          simp only [presentB, Ty.structFields, zero, Val.structVals, hg, zeros_get _ i k ft hg]
          exact presentB_zero p ft h.2
        | ptr e => simp [presentB, zero, Val.structVals]
        | _ => simp [Ty.structFields] at hsf

theorem presentB_cons {t : Ty} {fs : Fields} {i : Nat} {k : FieldKind} {ft : Ty}
    (ht : t.structFields = some fs) (hg : fs.get? i = some (k, ft)) (v fv : Val)
    (hfv : (baseVals fs v).get? i = some fv) (p : List Nat) (hp : StructPtrPath ft p = true) :
    presentB t v (i :: p) = presentB ft fv p := by
  simp only [presentB, ht]
  cases hv : v.structVals with
  | none =>
    simp only [baseVals, hv, zeros_get fs i k ft hg, Option.some.injEq] at hfv
    subst hfv
    simp [presentB_zero p ft hp]
  | some vs =>
    simp only [baseVals, hv] at hfv
    simp [hfv, hg]


/-! ### the single-layer specification -/

/-- `b'` is the field value `b` (type `t`) overlaid by the layer value `o` -/
def Merged (t : Ty) (b o b' : Val) : Prop :=
  b'.HasTy t = true ∧
  (∀ p, LeafPath t p = true →
    readB t b' p = (match readO t o p with | some x => some x | none => readB t b p)) ∧
  (∀ p, SkippedPath t p = true → readB t b' p = readB t b p) ∧
  (∀ p, StructPtrPath t p = true → presentB t b' p = (presentB t b p || presentO t o p))

/-- field-wise version for the fields of a struct -/
def MergedS (fs : Fields) (bvs ovs vs : Vals) : Prop :=
  vs.HasTys fs = true ∧
  ∀ i k ft, fs.get? i = some (k, ft) →
    ∃ b b', bvs.get? i = some b ∧ vs.get? i = some b' ∧
      (skippedField k ft = true → b' = b) ∧
      (skippedField k ft = false → ∃ o, ovs.get? (ovIndex fs i) = some o ∧ Merged ft b o b')

theorem leafPath_cons_none {t : Ty} (ht : t.structFields = none) (i : Nat) (p : List Nat) :
    LeafPath t (i :: p) = false := by simp [LeafPath, ht]

theorem skippedPath_none {t : Ty} (ht : t.structFields = none) (p : List Nat) :
    SkippedPath t p = false := by
  match p with
  | [] => simp [SkippedPath]
  | [i] => simp [SkippedPath, ht]
  | i :: j :: p => simp [SkippedPath, ht]

theorem structPtrPath_none {t : Ty} (ht : t.structFields = none) (p : List Nat) :
    StructPtrPath t p = false := by
  match p with
  | [] =>
    cases t with
    | ptr e => cases e <;> simp [Ty.structFields] at ht <;> simp [StructPtrPath]
    | _ => simp [StructPtrPath]
  | i :: p => simp [StructPtrPath, ht]

theorem merged_leaf {t : Ty} (ht : t.structFields = none) (b o b' : Val) (hb' : b'.HasTy t = true)
    (h : some b' = (match readO t o [] with | some x => some x | none => some b)) :
    Merged t b o b' := by
  refine ⟨hb', ?_, ?_, ?_⟩
  · intro p hp
    cases p with
    | nil => simpa [readB] using h
    | cons i p => simp [leafPath_cons_none ht] at hp
  · intro p hp; simp [skippedPath_none ht] at hp
  · intro p hp; simp [structPtrPath_none ht] at hp

theorem leafPath_nil_some {t : Ty} {fs : Fields} (ht : t.structFields = some fs) :
    LeafPath t [] = false := by simp [LeafPath, ht]

theorem readO_structVals_none {t : Ty} {fs : Fields} (ht : t.structFields = some fs) (o : Val)
    (ho : o.structVals = none) (p : List Nat) : readO t o p = none := by
  cases p with
  | nil =>
    cases t with
    | struct fs' => simp [readO]
    | ptr e => cases e <;> simp [Ty.structFields] at ht; simp [readO]
    | _ => simp [Ty.structFields] at ht
  | cons i p =>
    simp only [readO, ht, ho]
    cases fs.get? i with
    | none => rfl
    | some kf => obtain ⟨k, ft⟩ := kf; simp

theorem presentO_nil (t : Ty) (o : Val) (hn : o.isNil = true) (ho : o.structVals = none) (p : List Nat) :
    presentO t o p = false := by
  cases p with
  | nil => simp [presentO, hn]
  | cons i p =>
    simp only [presentO, ho]
    cases t.structFields <;> rfl

/-- a nil layer pointer leaves a struct-like field unchanged -/
theorem merged_nil {t : Ty} {fs : Fields} (ht : t.structFields = some fs) (b : Val) (hb : b.HasTy t = true)
    (e : Ty) : Merged t b (.ptr e none) b := by
  refine ⟨hb, ?_, ?_, ?_⟩
  · intro p _; simp [readO_structVals_none ht (.ptr e none) (by simp [Val.structVals])]
  · intro p _; rfl
  · intro p _; simp [presentO_nil t (.ptr e none) (by simp [Val.isNil]) (by simp [Val.structVals])]

/-- lift the field-wise specification to a struct or pointer-to-struct value -/
theorem merged_of_struct {t : Ty} {fs : Fields} (ht : t.structFields = some fs) (b o b' : Val)
    (ovs vs : Vals) (hb' : b'.HasTy t = true) (hvs : b'.structVals = some vs)
    (hovs : o.structVals = some ovs) (hm : MergedS fs (baseVals fs b) ovs vs) : Merged t b o b' := by
  obtain ⟨_, hm⟩ := hm
  have hbv : baseVals fs b' = vs := baseVals_of_some hvs
  refine ⟨hb', ?_, ?_, ?_⟩
  · intro p hp
    cases p with
    | nil => simp [leafPath_nil_some ht] at hp
    | cons i p =>
      cases hg : fs.get? i with
      | none => simp [LeafPath, ht, hg] at hp
      | some kf =>
        obtain ⟨k, ft⟩ := kf
        rw [leafPath_cons ht hg] at hp
        simp only [Bool.and_eq_true, Bool.not_eq_true'] at hp
        obtain ⟨bi, bi', h1, h2, _, h4⟩ := hm i k ft hg
        obtain ⟨oi, h5, hmi⟩ := h4 hp.1
        rw [readB_cons ht hg b' bi' (by rw [hbv]; exact h2), readB_cons ht hg b bi h1,
          readO_cons ht hg hp.1 o ovs hovs oi h5]
        exact hmi.2.1 p hp.2
  · intro p hp
    cases p with
    | nil => simp [SkippedPath] at hp
    | cons i p =>
      cases hg : fs.get? i with
      | none => cases p <;> simp [SkippedPath, ht, hg] at hp
      | some kf =>
        obtain ⟨k, ft⟩ := kf
        rw [skippedPath_cons ht hg] at hp
        obtain ⟨bi, bi', h1, h2, h3, h4⟩ := hm i k ft hg
        rw [readB_cons ht hg b' bi' (by rw [hbv]; exact h2), readB_cons ht hg b bi h1]
        by_cases hpn : p = []
        · simp only [hpn, if_true] at hp
          rw [h3 hp]
        · simp only [hpn, if_false, Bool.and_eq_true, Bool.not_eq_true'] at hp
          obtain ⟨oi, _, hmi⟩ := h4 hp.1
          exact hmi.2.2.1 p hp.2
  · intro p hp
    cases p with
    | nil =>
      simp [presentB, presentO, structVals_ptr_struct hvs, structVals_ptr_struct hovs]
    | cons i p =>
      cases hg : fs.get? i with
      | none => simp [StructPtrPath, ht, hg] at hp
      | some kf =>
        obtain ⟨k, ft⟩ := kf
        rw [structPtrPath_cons ht hg] at hp
        simp only [Bool.and_eq_true, Bool.not_eq_true'] at hp
        obtain ⟨bi, bi', h1, h2, _, h4⟩ := hm i k ft hg
        obtain ⟨oi, h5, hmi⟩ := h4 hp.1
        rw [presentB_cons ht hg b' bi' (by rw [hbv]; exact h2) p hp.2,
          presentB_cons ht hg b bi h1 p hp.2, presentO_cons ht hg hp.1 o ovs hovs oi h5]
        exact hmi.2.2.2 p hp.2


/-! ### overlayStruct steps -/

theorem overlayStruct_cons_skipped {k t} (hs : skippedField k t = true) (r : Fields) (b : Val)
    (bs os vs : Vals) (h : overlayStruct r bs os = .ok vs) :
    overlayStruct (.cons k t r) (.cons b bs) os = .ok (.cons b vs) := by
  rw [overlayStruct.eq_def]
  simp only [skippedField] at hs
  simp [Facts.overlayUsesOmitField, Facts.overlaySkipsChanFunc, hs, h]

theorem overlayStruct_cons_kept {k t} (hs : skippedField k t = false) (r : Fields) (b o b' : Val)
    (bs os vs : Vals) (h1 : overlayField true b o = .ok b') (h : overlayStruct r bs os = .ok vs) :
    overlayStruct (.cons k t r) (.cons b bs) (.cons o os) = .ok (.cons b' vs) := by
  rw [overlayStruct.eq_def]
  have hk := skipped_kept_normal hs
  subst hk
  simp only [skippedField] at hs
  have hne : (FieldKind.normal != FieldKind.unexported) = true := by decide
  simp [Facts.overlayUsesOmitField, Facts.overlaySkipsChanFunc, hs, h, h1, hne]

/-! ### assigning a layer pointer to a nil base pointer equals merging into zeros -/

def Fields.len : Fields → Nat
  | .nil => 0
  | .cons _ _ r => r.len + 1

theorem ptrifyFields_len_le : ∀ fs : Fields, (ptrifyFields fs).len ≤ fs.len
  | .nil => by simp [ptrifyFields]
  | .cons k t r => by
    have ih := ptrifyFields_len_le r
    cases hs : skippedField k t with
    | true => rw [ptrifyFields_cons_skipped r hs]; simp only [Fields.len]; omega
    | false =>
      have hc : t.isChanFunc = false := by
        simp only [skippedField, Bool.or_eq_false_iff] at hs; exact hs.2
      obtain ⟨t', ht'⟩ := ptrifyField_kept hc
      rw [ptrifyFields_cons_kept r hs ht']; simp only [Fields.len]; omega

theorem ptrifyFields_fix_cons {k t r} (h : ptrifyFields (.cons k t r) = .cons k t r) :
    skippedField k t = false ∧ ptrifyField t = some t ∧ ptrifyFields r = r := by
  cases hs : skippedField k t with
  | true =>
    rw [ptrifyFields_cons_skipped r hs] at h
    have := ptrifyFields_len_le r
    rw [h] at this
    simp only [Fields.len] at this
    omega
  | false =>
    have hc : t.isChanFunc = false := by
      simp only [skippedField, Bool.or_eq_false_iff] at hs; exact hs.2
    obtain ⟨t', ht'⟩ := ptrifyField_kept hc
    rw [ptrifyFields_cons_kept r hs ht'] at h
    simp only [Fields.cons.injEq, true_and] at h
    exact ⟨rfl, by rw [ht', h.1], h.2⟩

theorem overlayField_nilptr_same (e : Ty) (o : Val) (ho : o.HasTy (.ptr e) = true) :
    overlayField true (.ptr e none) o = .ok o := by
  rcases hasTy_ptr ho with rfl | ⟨w, rfl, hw⟩
  · exact overlayField_nil_ptr _ _ _
  · cases he : e.isStruct with
    | false => exact overlayField_ptr_nonstruct e he none w
    | true =>
      cases e <;> simp [Ty.isStruct] at he
      obtain ⟨ws, rfl, _⟩ := hasTy_struct hw
      exact overlayField_ptrstruct_none_eq _ _ _

theorem overlayField_zero_fix (t : Ty) (o : Val) (ht : ptrifyField t = some t) (ho : o.HasTy t = true) :
    overlayField true (zero t) o = .ok o := by
  cases t with
  | slice n =>
    obtain ⟨c, rfl⟩ := hasTy_slice ho
    cases c with
    | none => simp [overlayField_nil_coll, zero]
    | some c => simp [zero, overlayField_coll]
  | map n =>
    obtain ⟨c, rfl⟩ := hasTy_map ho
    cases c with
    | none => simp [overlayField_nil_coll, zero]
    | some c => simp [zero, overlayField_coll]
  | ptr e => simpa [zero] using overlayField_nilptr_same e o ho
  | _ => simp [ptrifyField, Facts.ptrifyDropsChanFunc] at ht

theorem overlayStruct_zeros_fix : ∀ (fs : Fields) (ovs : Vals), ptrifyFields fs = fs →
    ovs.HasTys fs = true → overlayStruct fs (zeros fs) ovs = .ok ovs
  | .nil, ovs, _, h => by rw [hasTys_nil h, overlayStruct.eq_def]
  | .cons k t r, ovs, hf, h => by
    obtain ⟨o, os, rfl, ho, hos⟩ := hasTys_cons h
    obtain ⟨hs, ht, hr⟩ := ptrifyFields_fix_cons hf
    simp only [zeros]
    exact overlayStruct_cons_kept hs r _ o o _ os os (overlayField_zero_fix t o ht ho)
      (overlayStruct_zeros_fix r os hr hos)


/-! ### the single-layer lemma -/

def StructMerge (fs : Fields) : Prop :=
  ∀ bvs ovs : Vals, bvs.HasTys fs = true → ovs.HasTys (ptrifyFields fs) = true →
    ∃ vs, overlayStruct fs bvs ovs = .ok vs ∧ MergedS fs bvs ovs vs

def FieldMerge (t : Ty) : Prop :=
  ∀ (t' : Ty) (b o : Val), ptrifyField t = some t' → b.HasTy t = true → o.HasTy t' = true →
    ∃ b', overlayField true b o = .ok b' ∧ Merged t b o b'

theorem fieldMerge_scalar (n : Nat) : FieldMerge (.scalar n) := by
  intro t' b o ht hb ho
  simp only [ptrifyField, Option.some.injEq] at ht
  subst ht
  obtain ⟨x, rfl⟩ := hasTy_scalar hb
  rcases hasTy_ptr ho with rfl | ⟨w, rfl, hw⟩
  · exact ⟨_, overlayField_nil_ptr _ _ _, merged_leaf rfl _ _ _ hb (by simp [readO])⟩
  · obtain ⟨y, rfl⟩ := hasTy_scalar hw
    exact ⟨_, overlayField_scalar _ _ _ _, merged_leaf rfl _ _ _ hw (by simp [readO])⟩

theorem fieldMerge_tu (n : Nat) : FieldMerge (.tu n) := by
  intro t' b o ht hb ho
  simp only [ptrifyField, Option.some.injEq] at ht
  subst ht
  obtain ⟨x, rfl⟩ := hasTy_tu hb
  rcases hasTy_ptr ho with rfl | ⟨w, rfl, hw⟩
  · exact ⟨_, overlayField_nil_ptr _ _ _, merged_leaf rfl _ _ _ hb (by simp [readO])⟩
  · obtain ⟨y, rfl⟩ := hasTy_tu hw
    exact ⟨_, overlayField_tu _ _ _ _, merged_leaf rfl _ _ _ hw (by simp [readO])⟩

theorem fieldMerge_slice (n : Nat) : FieldMerge (.slice n) := by
  intro t' b o ht hb ho
  simp only [ptrifyField, Option.some.injEq] at ht
  subst ht
  obtain ⟨x, rfl⟩ := hasTy_slice hb
  obtain ⟨c, rfl⟩ := hasTy_slice ho
  cases c with
  | none => exact ⟨_, overlayField_nil_coll _ _ _, merged_leaf rfl _ _ _ hb (by simp [readO, Val.isNil])⟩
  | some c => exact ⟨_, overlayField_coll _ _ _, merged_leaf rfl _ _ _ ho (by simp [readO, Val.isNil])⟩

theorem fieldMerge_map (n : Nat) : FieldMerge (.map n) := by
  intro t' b o ht hb ho
  simp only [ptrifyField, Option.some.injEq] at ht
  subst ht
  obtain ⟨x, rfl⟩ := hasTy_map hb
  obtain ⟨c, rfl⟩ := hasTy_map ho
  cases c with
  | none => exact ⟨_, overlayField_nil_coll _ _ _, merged_leaf rfl _ _ _ hb (by simp [readO, Val.isNil])⟩
  | some c => exact ⟨_, overlayField_coll _ _ _, merged_leaf rfl _ _ _ ho (by simp [readO, Val.isNil])⟩

theorem readO_leafptr {e : Ty} (he : e.isStruct = false) (o : Val) :
    readO (.ptr e) o [] = if o.isNil then none else some o := by
  cases e <;> simp [Ty.isStruct] at he <;> simp [readO]

theorem structFields_leafptr {e : Ty} (he : e.isStruct = false) : (Ty.ptr e).structFields = none := by
  cases e <;> simp [Ty.isStruct] at he <;> simp [Ty.structFields]

theorem fieldMerge_ptr_nonstruct (e : Ty) (he : e.isStruct = false) : FieldMerge (.ptr e) := by
  intro t' b o ht hb ho
  rw [ptrifyField_ptr, ptrifyElem_not_struct he] at ht
  simp only [Option.some.injEq] at ht
  subst ht
  have hsf := structFields_leafptr he
  rcases hasTy_ptr ho with rfl | ⟨w, rfl, hw⟩
  · exact ⟨_, overlayField_nil_ptr _ _ _, merged_leaf hsf _ _ _ hb (by simp [readO_leafptr he, Val.isNil])⟩
  · have hb' : ∃ bp, b = .ptr e bp := by
      rcases hasTy_ptr hb with rfl | ⟨bw, rfl, _⟩ <;> exact ⟨_, rfl⟩
    obtain ⟨bp, rfl⟩ := hb'
    exact ⟨_, overlayField_ptr_nonstruct e he bp w, merged_leaf hsf _ _ _ ho (by simp [readO_leafptr he, Val.isNil])⟩

theorem fieldMerge_struct (fs : Fields) (ih : StructMerge fs) : FieldMerge (.struct fs) := by
  intro t' b o ht hb ho
  simp only [ptrifyField, Option.some.injEq] at ht
  subst ht
  obtain ⟨bvs, rfl, hbvs⟩ := hasTy_struct hb
  rcases hasTy_ptr ho with rfl | ⟨w, rfl, hw⟩
  · exact ⟨_, overlayField_nil_ptr _ _ _, merged_nil rfl _ hb _⟩
  · obtain ⟨ovs, rfl, hovs⟩ := hasTy_struct hw
    obtain ⟨vs, h1, h2⟩ := ih bvs ovs hbvs hovs
    refine ⟨.struct fs vs, by rw [overlayField_struct, h1]; rfl, ?_⟩
    exact merged_of_struct (fs := fs) rfl _ _ _ ovs vs (by simp [Fields.beq_refl, h2.1]) rfl rfl h2

theorem fieldMerge_ptrstruct (fs : Fields) (ih : StructMerge fs) : FieldMerge (.ptr (.struct fs)) := by
  intro t' b o ht hb ho
  simp only [ptrifyField, Option.some.injEq] at ht
  subst ht
  rcases hasTy_ptr ho with rfl | ⟨w, rfl, hw⟩
  · exact ⟨_, overlayField_nil_ptr _ _ _, merged_nil rfl _ hb _⟩
  · obtain ⟨ovs, rfl, hovs⟩ := hasTy_struct hw
    rcases hasTy_ptr hb with rfl | ⟨bw, rfl, hbw⟩
    · -- nil base pointer
      obtain ⟨vs, h1, h2⟩ := ih (zeros fs) ovs (zeros_hasTys fs) hovs
      refine ⟨.ptr (.struct fs) (some (.struct fs vs)), ?_, ?_⟩
      · by_cases hfix : fs = ptrifyFields fs
        · have h3 := overlayStruct_zeros_fix fs ovs hfix.symm (by rw [hfix]; exact hovs)
          rw [h1] at h3
          simp only [Outcome.ok.injEq] at h3
          subst h3
          rw [← hfix]
          exact overlayField_ptrstruct_none_eq _ _ _
        · rw [overlayField_ptrstruct_none_ne _ _ hfix, h1]; rfl
      · exact merged_of_struct (fs := fs) rfl _ _ _ ovs vs (by simp [Fields.beq_refl, h2.1]) rfl rfl
          (by simpa [baseVals, Val.structVals] using h2)
    · obtain ⟨bvs, rfl, hbvs⟩ := hasTy_struct hbw
      obtain ⟨vs, h1, h2⟩ := ih bvs ovs hbvs hovs
      refine ⟨.ptr (.struct fs) (some (.struct fs vs)), by rw [overlayField_ptrstruct_some, h1]; rfl, ?_⟩
      exact merged_of_struct (fs := fs) rfl _ _ _ ovs vs (by simp [Fields.beq_refl, h2.1]) rfl rfl h2


theorem structMerge_nil : StructMerge .nil := by
  intro bvs ovs hb _
  refine ⟨.nil, by rw [overlayStruct.eq_def], by simp [Vals.HasTys], ?_⟩
  intro i k ft h
  simp [Fields.get?] at h

theorem structMerge_cons (k : FieldKind) (t : Ty) (r : Fields) (iht : FieldMerge t)
    (ihr : StructMerge r) : StructMerge (.cons k t r) := by
  intro bvs ovs hb ho
  obtain ⟨b, bs, rfl, hbt, hbs⟩ := hasTys_cons hb
  cases hs : skippedField k t with
  | true =>
    rw [ptrifyFields_cons_skipped r hs] at ho
    obtain ⟨vs, h1, h2, h3⟩ := ihr bs ovs hbs ho
    refine ⟨.cons b vs, overlayStruct_cons_skipped hs r b bs ovs vs h1, by simp [hbt, h2], ?_⟩
    intro i k' ft hg
    cases i with
    | zero =>
      simp only [Fields.get?, Option.some.injEq, Prod.mk.injEq] at hg
      obtain ⟨rfl, rfl⟩ := hg
      exact ⟨b, b, rfl, rfl, fun _ => rfl, fun h => by simp [hs] at h⟩
    | succ n =>
      simp only [Fields.get?] at hg
      obtain ⟨bi, bi', g1, g2, g3, g4⟩ := h3 n k' ft hg
      refine ⟨bi, bi', by simpa [Vals.get?] using g1, by simpa [Vals.get?] using g2, g3, ?_⟩
      intro hk
      obtain ⟨o, g5, g6⟩ := g4 hk
      exact ⟨o, by simpa [ovIndex, hs] using g5, g6⟩
  | false =>
    have hc : t.isChanFunc = false := by
      simp only [skippedField, Bool.or_eq_false_iff] at hs; exact hs.2
    obtain ⟨t', ht'⟩ := ptrifyField_kept hc
    rw [ptrifyFields_cons_kept r hs ht'] at ho
    obtain ⟨o, os, rfl, hot, hos⟩ := hasTys_cons ho
    obtain ⟨b', f1, f2⟩ := iht t' b o ht' hbt hot
    obtain ⟨vs, h1, h2, h3⟩ := ihr bs os hbs hos
    refine ⟨.cons b' vs, overlayStruct_cons_kept hs r b o b' bs os vs f1 h1, by simp [f2.1, h2], ?_⟩
    intro i k' ft hg
    cases i with
    | zero =>
      simp only [Fields.get?, Option.some.injEq, Prod.mk.injEq] at hg
      obtain ⟨rfl, rfl⟩ := hg
      exact ⟨b, b', rfl, rfl, fun h => by simp [hs] at h, fun _ => ⟨o, by simp [ovIndex, Vals.get?], f2⟩⟩
    | succ n =>
      simp only [Fields.get?] at hg
      obtain ⟨bi, bi', g1, g2, g3, g4⟩ := h3 n k' ft hg
      refine ⟨bi, bi', by simpa [Vals.get?] using g1, by simpa [Vals.get?] using g2, g3, ?_⟩
      intro hk
      obtain ⟨oi, g5, g6⟩ := g4 hk
      exact ⟨oi, by simpa [ovIndex, hs, Nat.add_comm 1, Vals.get?] using g5, g6⟩

mutual
theorem fieldMerge : ∀ t : Ty, FieldMerge t
  | .scalar n => fieldMerge_scalar n
  | .tu n => fieldMerge_tu n
  | .slice n => fieldMerge_slice n
  | .map n => fieldMerge_map n
  | .chan => by intro t' b o ht; simp [ptrifyField, Facts.ptrifyDropsChanFunc] at ht
  | .func => by intro t' b o ht; simp [ptrifyField, Facts.ptrifyDropsChanFunc] at ht
  | .struct fs => fieldMerge_struct fs (structMerge fs)
  | .ptr (.struct fs) => fieldMerge_ptrstruct fs (structMerge fs)
  | .ptr (.scalar n) => fieldMerge_ptr_nonstruct _ rfl
  | .ptr (.tu n) => fieldMerge_ptr_nonstruct _ rfl
  | .ptr (.slice n) => fieldMerge_ptr_nonstruct _ rfl
  | .ptr (.map n) => fieldMerge_ptr_nonstruct _ rfl
  | .ptr .chan => fieldMerge_ptr_nonstruct _ rfl
  | .ptr .func => fieldMerge_ptr_nonstruct _ rfl
  | .ptr (.ptr e) => fieldMerge_ptr_nonstruct _ rfl
theorem structMerge : ∀ fs : Fields, StructMerge fs
  | .nil => structMerge_nil
  | .cons k t r => structMerge_cons k t r (fieldMerge t) (structMerge r)
end


/-! ### layers and compose -/

theorem overlayLayer_merge (fs : Fields) (d l : Val) (hd : d.HasTy (.struct fs) = true)
    (hl : IsLayer fs l = true) :
    ∃ d', overlayLayer d l = .ok d' ∧ Merged (.struct fs) d l d' := by
  obtain ⟨bvs, rfl, hbvs⟩ := hasTy_struct hd
  simp only [IsLayer, ptrify, Bool.or_eq_true, Bool.and_eq_true, Bool.not_eq_true'] at hl
  rcases hl with hl | ⟨hl, hnil⟩
  · obtain ⟨ovs, rfl, hovs⟩ := hasTy_struct hl
    obtain ⟨vs, h1, h2⟩ := structMerge fs bvs ovs hbvs hovs
    refine ⟨.struct fs vs, by simp [overlayLayer, h1], ?_⟩
    exact merged_of_struct (fs := fs) rfl _ _ _ ovs vs (by simp [Fields.beq_refl, h2.1]) rfl rfl h2
  · rcases hasTy_ptr hl with rfl | ⟨w, rfl, hw⟩
    · simp [Val.isNil] at hnil
    · obtain ⟨ovs, rfl, hovs⟩ := hasTy_struct hw
      obtain ⟨vs, h1, h2⟩ := structMerge fs bvs ovs hbvs hovs
      refine ⟨.struct fs vs, by simp [overlayLayer, h1], ?_⟩
      exact merged_of_struct (fs := fs) rfl _ _ _ ovs vs (by simp [Fields.beq_refl, h2.1]) rfl rfl h2

theorem compose_spec (fs : Fields) : ∀ (ls : List Val) (d : Val), d.HasTy (.struct fs) = true →
    (∀ l ∈ ls, IsLayer fs l = true) →
    ∃ r, compose d ls = .ok r ∧ r.HasTy (.struct fs) = true ∧
      (∀ p, LeafPath (.struct fs) p = true →
        readB (.struct fs) r p =
          (match ls.reverse.findSome? (fun l => readO (.struct fs) l p) with
           | some x => some x
           | none => readB (.struct fs) d p)) ∧
      (∀ p, SkippedPath (.struct fs) p = true → readB (.struct fs) r p = readB (.struct fs) d p) ∧
      (∀ p, StructPtrPath (.struct fs) p = true →
        presentB (.struct fs) r p =
          (presentB (.struct fs) d p || ls.any (fun l => presentO (.struct fs) l p)))
  | [], d, hd, _ => ⟨d, rfl, hd, by simp, by simp, by simp⟩
  | l :: ls, d, hd, hls => by
    obtain ⟨d', h1, hty, hleaf, hskip, hptr⟩ :=
      overlayLayer_merge fs d l hd (hls l (by simp))
    obtain ⟨r, g1, gty, gleaf, gskip, gptr⟩ :=
      compose_spec fs ls d' hty (fun l' hl' => hls l' (by simp [hl']))
    refine ⟨r, by simp [compose, h1, g1], gty, ?_, ?_, ?_⟩
    · intro p hp
      rw [gleaf p hp, hleaf p hp, List.reverse_cons, List.findSome?_append]
      cases ls.reverse.findSome? (fun l => readO (.struct fs) l p) with
      | some x => simp
      | none => simp [List.findSome?]; cases readO (.struct fs) l p <;> rfl
    · intro p hp; rw [gskip p hp, hskip p hp]
    · intro p hp
      rw [gptr p hp, hptr p hp, List.any_cons, Bool.or_assoc]


/-! ### a layer that sets nothing -/

theorem overlayField_zero_ptrified {t t' : Ty} (ht : ptrifyField t = some t') (s : Bool) (b : Val) :
    overlayField s b (zero t') = .ok b := by
  cases t with
  | ptr e =>
    rw [ptrifyField_ptr] at ht
    simp only [Option.some.injEq] at ht
    subst ht
    simp [zero, overlayField_nil_ptr]
  | chan => simp [ptrifyField, Facts.ptrifyDropsChanFunc] at ht
  | func => simp [ptrifyField, Facts.ptrifyDropsChanFunc] at ht
  | _ =>
    simp only [ptrifyField, Option.some.injEq] at ht
    subst ht
    simp [zero, overlayField_nil_ptr, overlayField_nil_coll]

theorem overlayStruct_zeros_noop : ∀ (fs : Fields) (bvs : Vals), bvs.HasTys fs = true →
    overlayStruct fs bvs (zeros (ptrifyFields fs)) = .ok bvs
  | .nil, bvs, h => by rw [hasTys_nil h, overlayStruct.eq_def]
  | .cons k t r, bvs, h => by
    obtain ⟨b, bs, rfl, _, hbs⟩ := hasTys_cons h
    have ih := overlayStruct_zeros_noop r bs hbs
    cases hs : skippedField k t with
    | true =>
      rw [ptrifyFields_cons_skipped r hs]
      exact overlayStruct_cons_skipped hs r b bs _ bs ih
    | false =>
      have hc : t.isChanFunc = false := by
        simp only [skippedField, Bool.or_eq_false_iff] at hs; exact hs.2
      obtain ⟨t', ht'⟩ := ptrifyField_kept hc
      rw [ptrifyFields_cons_kept r hs ht']
      simp only [zeros]
      exact overlayStruct_cons_kept hs r b _ b bs _ bs (overlayField_zero_ptrified ht' true b) ih

theorem overlayLayer_zero_noop (fs : Fields) (b : Val) (hb : b.HasTy (.struct fs) = true) :
    overlayLayer b (zero (ptrify (.struct fs))) = .ok b := by
  obtain ⟨bvs, rfl, hbvs⟩ := hasTy_struct hb
  simp [ptrify, zero, overlayLayer, overlayStruct_zeros_noop fs bvs hbvs]

end Dials.Overlay
