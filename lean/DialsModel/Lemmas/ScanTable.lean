/-
parse.String on the text of a collection, end to end on the models: the scanner model (Model/Scan.lean) feeds the
parse.String model (Model/ParseString.lean) - the path an environment variable or a flag value takes for a slice leaf.
-/
import DialsModel.Model.ScanTable
import DialsModel.Lemmas.ScanWords
import DialsModel.Lemmas.Parse

namespace Dials.Parse
open Dials

theorem identRune_digit (m : Bool) (c : Char) (h : isDigitA c = true) : identRune m c = true := by
  have ⟨h1, h2⟩ := (isDigitA_iff c).1 h
  have hk : c = Char.ofNat c.toNat := by simp [Char.ofNat_toNat]
  have key : ∀ k : Fin 128, 48 ≤ k.val → k.val ≤ 57 → (identRune false (Char.ofNat k.val) = true ∧ identRune true (Char.ofNat k.val) = true) := by
    decide +kernel
  have := key ⟨c.toNat, by omega⟩ h1 h2
  rw [hk]
  cases m
  · exact this.1
  · exact this.2

theorem identRune_minus (m : Bool) : identRune m '-' = true := by cases m <;> decide

theorem formatInt_bareWord (m : Bool) (v : Int) : BareWord m (formatInt v) := by
  obtain ⟨c, r, _, _, hc, _, hsp, _⟩ := formatInt_shape v
  refine ⟨by rw [hc]; simp, ?_, ?_⟩
  · intro x hx
    rcases formatInt_chars v x hx with rfl | hd
    · exact identRune_minus m
    · exact identRune_digit m x hd
  · rw [hc]
    intro h
    simp only [List.head?_cons, Option.some.injEq] at h
    subst h
    simp [isSpaceA] at hsp

end Dials.Parse

namespace Dials.Tf
open Dials Dials.Parse

theorem mapM'_ok {α β} (f : α → Outcome β) (g : α → β) : ∀ xs : List α, (∀ x ∈ xs, f x = .ok (g x)) →
    mapM' f xs = .ok (xs.map g) := by
  intro xs
  induction xs with
  | nil => intro _; rfl
  | cons x xs ih =>
    intro h
    simp [mapM', h x (by simp), ih (fun y hy => h y (by simp [hy]))]

end Dials.Tf
